(* XCiNulH5: the HTML5 tokenizer on s = A ++ B against t = A ++ NUL :: B
   (C11 b).  A state of the run on s is mapped to the run on t by moving every
   position at or behind the insertion point one byte to the right and making a
   token that strictly contains the insertion point one byte longer (shiftH).
   - callC: once the run on s is at or behind the insertion point, the run on t
     follows it step by step (every token moved by one byte).
   - callA: before the insertion point the run on t follows as well, unless the
     step on s ends the scan, passes the insertion point with a token that is
     not a name token strictly containing it, or emits such a token (Bad). *)
From Coq Require Import List ZArith String Bool Lia ZifyBool.
From Coq.Strings Require Import Byte.
From LI Require Import Prelude Base Html5 Proofs.BaseFacts Proofs.Wp Proofs.H5Spec
  Spec.H5TermSpec Proofs.H5TermProofs Proofs.XCiNulBase Proofs.XCiNulMono.
From LIGen Require Import Consts.
Import ListNotations.
Local Open Scope Z_scope.

(* s-side result r: either it is bad, or the t-side returns a related result *)
Definition simr {X} (G : X -> X -> Prop) (Bd : X -> Prop) (m m' : res X) : Prop :=
  match m with
  | Ok r => Bd r \/ (exists r', m' = Ok r' /\ G r r')
  | _ => True
  end.

Lemma simr_bind_same {X Y} (G : Y -> Y -> Prop) Bd (m : res X) k k' :
  (forall a, simr G Bd (k a) (k' a)) -> simr G Bd (bind m k) (bind m k').
Proof. intros H. destruct m; cbn; auto. Qed.

Lemma simr_bind {X Y} (G1 : X -> X -> Prop) (G : Y -> Y -> Prop) Bd m m' k k' :
  simr G1 (fun _ => False) m m' -> (forall a a', G1 a a' -> simr G Bd (k a) (k' a')) ->
  simr G Bd (bind m k) (bind m' k').
Proof.
  intros H K. destruct m as [a| | |]; cbn in *; auto.
  destruct H as [[]|(a' & -> & Ha)]. cbn [bind]. exact (K a a' Ha).
Qed.

Lemma simr_weaken {X} (G : X -> X -> Prop) (Bd : X -> Prop) m m' :
  simr G (fun _ => False) m m' -> simr G Bd m m'.
Proof. destruct m; cbn; auto. intros [F|H]; [destruct F|]. right. exact H. Qed.

Lemma simr_bad {X} (G : X -> X -> Prop) (Bd : X -> Prop) m m' : wlp m Bd -> simr G Bd m m'.
Proof. intros H. destruct m; cbn; auto. Qed.

Lemma bind_assoc {X Y Z0} (m : res X) (f : X -> res Y) (g : Y -> res Z0) :
  bind (bind m f) g = bind m (fun x => bind (f x) g).
Proof. destruct m; reflexivity. Qed.

Section Nul.
Variables A B : bytes.
Variable HB : 0 < len B.
Variable HA : 0 < len A.
Local Notation s := (sS A B).
Local Notation t := (sT A B).
Local Notation i := (ii A).

Lemma ii_pos : 0 < i.
Proof. exact HA. Qed.

Definition sg (q : Z) : Z := if q <? i then q else q + 1.
Definition sl (o l : Z) : Z := if (o <? i) && (i <? o + l) then l + 1 else l.

Definition shiftH (h : h5) : h5 :=
  mkH5 t (sg (hpos h)) (is_close h) (hstate h) (sg (tok_off h)) (sl (tok_off h) (tok_len h)) (tok_type h).

Lemma sg_lt q : q < i -> sg q = q.
Proof. unfold sg. intros H. destruct (q <? i) eqn:E; lia. Qed.
Lemma sg_ge q : i <= q -> sg q = q + 1.
Proof. unfold sg. intros H. destruct (q <? i) eqn:E; lia. Qed.

Definition nameCover (h1 : h5) : Prop :=
  isname (tok_type h1) = true /\ tok_off h1 < i < tok_off h1 + tok_len h1.

Definition preC (f : h5fn) (h : h5) : Prop :=
  match f with
  | STagOpen | SSelfClosingStartTag => i < hpos h
  | _ => i <= hpos h
  end.

Definition tokOK (h1 : h5) : Prop :=
  i <= tok_off h1 \/ tok_off h1 + tok_len h1 <= i \/ isname (tok_type h1) = true.

Definition G (r r' : bool * h5) : Prop :=
  r' = (fst r, shiftH (snd r)) /\ hs (snd r) = s /\
  (fst r = true -> (hpos (snd r) < i \/ preC (hstate (snd r)) (snd r)) /\ tokOK (snd r)).

Definition Bad (r : bool * h5) : Prop :=
  fst r = false \/
  ((i <= hpos (snd r) \/ i < tok_off (snd r) + tok_len (snd r)) /\ ~ nameCover (snd r)).

Definition NoBad (r : bool * h5) : Prop := False.

Definition G_ban (o o' : ban_out) : Prop :=
  match o, o' with
  | BanDone r, BanDone r' => G r r'
  | BanCall f h, BanCall f' h' =>
      f' = f /\ h' = shiftH h /\ hs h = s /\ i <= hpos h /\
      (f = SAttributeName \/ (f = SSelfClosingStartTag /\ i < hpos h))
  | _, _ => False
  end.

Lemma shiftH_eq q q' c st o o' l l' ty :
  q' = sg q -> o' = sg o -> l' = sl o l ->
  mkH5 t q' c st o' l' ty = shiftH (mkH5 s q c st o l ty).
Proof. intros -> -> ->. reflexivity. Qed.

Lemma mk_eq' q q' c st o o' l l' ty :
  q' = sg q -> o' = sg o -> l' = sl o l ->
  mkH5 t q' c st o' l' ty = mkH5 t (sg q) c st (sg o) (sl o l) ty.
Proof. intros -> -> ->. reflexivity. Qed.

(* ---------- tactics ---------- *)

Ltac simp_h :=
  unfold hlen, with_pos, with_state, with_close, shiftH, loop_fuel in *;
  cbn [hs hpos is_close hstate tok_off tok_len tok_type fst snd] in *.

Ltac note_facts :=
  pose proof (ii_range A B); pose proof (len_sT A B); pose proof (len_sS A B); pose proof HB; pose proof ii_pos;
  repeat match goal with
         | |- context [index_byte ?l ?c] => learn (index_byte_range l c)
         | |- context [span ?p ?l] => learn (span_range p l)
         | H : context [index_byte ?l ?c] |- _ => learn (index_byte_range l c)
         | H : context [span ?p ?l] |- _ => learn (span_range p l)
         end.

Ltac sgl :=
  unfold sg, sl; simp_h; consts; note_facts;
  repeat match goal with |- context [if ?c then _ else _] => destruct c eqn:? end; lia.

Ltac zl := simp_h; consts; note_facts; first [lia | sgl].

(* a leaf: the t-side result is the shifted s-side result *)
Ltac good_G :=
  unfold G; simp_h;
  split; [f_equal; apply mk_eq'; sgl|];
  split; [reflexivity|];
  let T := fresh "T" in
  intros T; first [ discriminate T |
  split;
  [ cbn [preC]; zl
  | unfold tokOK, isname; simp_h; first [right; right; reflexivity | zl] ] ].

Ltac good := right; eexists; split; [reflexivity|]; good_G.

Ltac bad :=
  left; unfold Bad, nameCover, isname; simp_h;
  first [ left; reflexivity
        | right; split; [zl | intros [N1 N2]; first [discriminate N1 | zl]] ].

Lemma sim_emit Bd site (h h' : h5) off off' tlen tlen' ty npos npos' nst cl :
  hs h = s -> hs h' = t ->
  (0 <= off <= len s -> 0 <= off' <= len s + 1) ->
  (0 <= off <= len s ->
   simr G Bd (Ok (true, mkH5 s npos cl nst off tlen ty)) (Ok (true, mkH5 t npos' cl nst off' tlen' ty))) ->
  simr G Bd (emit site h off tlen ty npos nst cl) (emit site h' off' tlen' ty npos' nst cl).
Proof.
  intros E E' Hb Hr. unfold emit. rewrite E, E'.
  destruct (drop site s off) as [x| | |] eqn:D; cbn [bind simr]; auto.
  apply drop_Ok_inv in D. destruct D as [D _]. specialize (Hb D). specialize (Hr D).
  rewrite drop_ok by (rewrite len_sT; lia). cbn [bind]. exact Hr.
Qed.

Ltac good_ban :=
  right; eexists; split; [reflexivity|]; cbn [G_ban];
  first [ good_G
        | split; [reflexivity|]; split; [unfold shiftH; simp_h; apply mk_eq'; sgl|];
          split; [reflexivity|]; split; [zl|]; first [left; reflexivity | right; split; [reflexivity|zl]] ].

Ltac leaf := first [solve [good] | solve [good_ban] | solve [bad]].

(* rewrite the primitive of the t-side into the one of the s-side *)
Ltac sim_step IH :=
  lazymatch goal with
  | |- context [0 <? sg ?p] => replace (0 <? sg p) with (0 <? p) by zl
  | |- context [if 0 <? ?p then mkH5 _ _ _ _ _ _ _ else _] => destruct (0 <? p) eqn:?
  | |- simr _ _ (emit _ _ _ _ _ _ (if ?c then SData else SEOF) _) (emit _ _ _ _ _ _ (if ?c' then SData else SEOF) _) =>
      replace c' with c by zl; destruct c eqn:?
  | |- simr _ _ (bind (bind _ _) _) (bind (bind _ _) _) => rewrite !bind_assoc
  | |- simr _ _ (bind (Ok _) _) (bind (Ok _) _) => cbn [bind]
  | |- simr _ _ (bind (get ?site s ?P) _) (bind (get ?site t ?P') _) =>
      first [ rewrite (get_ge A B site P P') by zl | rewrite (get_lt A B site P P') by zl ];
      apply simr_bind_same; intros ?
  | |- simr _ _ (bind (emit _ _ _ _ _ _ _ _) _) (bind (emit _ _ _ _ _ _ _ _) _) => unfold emit
  | |- simr _ _ (bind (drop ?site s ?P) _) (bind (drop ?site t ?P') _) =>
      first [ rewrite (drop_ge A B site P P') by zl; apply simr_bind_same; intros ?
            | let C := fresh "C" in let E1 := fresh "EC" in let E2 := fresh "EC" in let E3 := fresh "EC" in
              replace P' with P by zl;
              destruct (drop_lt A B site P ltac:(zl)) as (C & E1 & E2 & E3);
              rewrite E1, E2; cbn [bind] ]
  | |- simr _ _ (bind (slice ?site s ?a ?b) _) (bind (slice ?site t ?a' ?b') _) =>
      first [ rewrite (slice_ge A B site a b a' b') by zl | rewrite (slice_lt A B site a' b') by zl ];
      apply simr_bind_same; intros ?
  | |- simr _ _ (bind (if ?c then _ else _) _) (bind (if ?c then _ else _) _) => destruct c eqn:?
  | |- simr _ _ (bind (if ?c then _ else _) _) (bind (if ?c' then _ else _) _) =>
      replace c' with c by zl; destruct c eqn:?
  | |- simr _ _ (if ?c then _ else _) (if ?c then _ else _) => destruct c eqn:?; try (exfalso; zl)
  | |- simr _ _ (if ?c then _ else _) (if ?c' then _ else _) =>
      replace c' with c by zl; destruct c eqn:?; try (exfalso; zl)
  | |- simr _ _ (emit _ _ _ _ _ _ _ _) (emit _ _ _ _ _ _ _ _) =>
      apply sim_emit; [reflexivity | reflexivity | intros; zl | intros; leaf]
  | |- simr _ _ (Ok _) (Ok _) => leaf
  | |- simr _ _ (h5_call _ _ _) (h5_call _ _ _) => IH
  | |- simr _ _ (before_attr_name_loop _ _) (before_attr_name_loop _ _) => IH
  | |- simr _ _ (bogus2_loop _ _ _) (bogus2_loop _ _ _) => IH
  | |- simr _ _ (comment_loop _ _ _) (comment_loop _ _ _) => IH
  | |- simr _ _ (cdata_loop _ _ _) (cdata_loop _ _ _) => IH
  end.

Ltac sim IH := simp_h; repeat (sim_step IH; simp_h).

(* bring the t-side state of a call into the form shiftH (s-side state) *)
Ltac to_shift :=
  lazymatch goal with
  | |- simr _ _ (_ _ _ (mkH5 s ?q ?c ?st ?o ?l ?ty)) (_ _ _ (mkH5 t ?q' ?c ?st ?o' ?l' ?ty)) =>
      rewrite (shiftH_eq q q' c st o o' l l' ty) by sgl
  | |- simr _ _ (_ _ (mkH5 s ?q ?c ?st ?o ?l ?ty)) (_ _ (mkH5 t ?q' ?c ?st ?o' ?l' ?ty)) =>
      rewrite (shiftH_eq q q' c st o o' l l' ty) by sgl
  | |- simr _ _ (_ _ (mkH5 s ?q ?c ?st ?o ?l ?ty) _) (_ _ (mkH5 t ?q' ?c ?st ?o' ?l' ?ty) _) =>
      rewrite (shiftH_eq q q' c st o o' l l' ty) by sgl
  end.

Ltac start h E :=
  destruct h as [s0 p c st o l ty]; cbn [hs] in E; subst s0.

(* ---------- behind the insertion point ---------- *)

Definition G_sw (r r' : Z * h5) : Prop :=
  r' = (fst r, shiftH (snd r)) /\ hs (snd r) = s /\ i <= hpos (snd r).

Lemma skip_white_C h : hs h = s -> i <= hpos h ->
  simr G_sw (fun _ => False) (skip_white h) (skip_white (shiftH h)).
Proof.
  intros E H. start h E. unfold skip_white. simp_h. rewrite (sg_ge p) by lia.
  rewrite (drop_ge A B _ p (p + 1)) by zl. apply simr_bind_same. intros rest.
  replace (p + 1 + span is_skip_white rest <? len t) with (p + span is_skip_white rest <? len s) by zl.
  destruct (p + span is_skip_white rest <? len s) eqn:E.
  - rewrite (get_ge A B _ (p + span is_skip_white rest) (p + 1 + span is_skip_white rest)) by zl.
    apply simr_bind_same. intros ch. right. eexists. split; [reflexivity|].
    unfold G_sw. simp_h. split; [f_equal; apply mk_eq'; sgl|]. split; [reflexivity|zl].
  - right. eexists. split; [reflexivity|].
    unfold G_sw. simp_h. split; [f_equal; apply mk_eq'; sgl|]. split; [reflexivity|zl].
Qed.

Ltac after_sw_C :=
  eapply simr_bind; [apply skip_white_C; [reflexivity|zl]|];
  let ch := fresh "ch" in let h1 := fresh "h" in let r' := fresh "r" in
  let E1 := fresh "E" in let E2 := fresh "E" in let E3 := fresh "E" in
  intros [ch h1] r' (E1 & E2 & E3); cbn [fst snd] in E1, E2, E3; subst r';
  destruct h1; cbn [hs] in E2; subst.

(* the three fuel loops; the t-side has at least as much fuel *)
Ltac loop_rec IH fT :=
  match goal with
  | |- simr _ _ (?L ?f ?h ?q) (?L _ ?h' ?q') =>
      replace q' with (q + 1) by zl; apply (IH h q fT); [reflexivity | zl | zl | lia]
  end.

Lemma bogus2_C fuel : forall h q fT, hs h = s -> i <= hpos h -> hpos h <= q -> (fuel <= fT)%nat ->
  simr G NoBad (bogus2_loop fuel h q) (bogus2_loop fT (shiftH h) (q + 1)).
Proof.
  induction fuel as [|fuel IH]; intros h q fT E H Hq Hf; [exact I|]. destruct fT as [|fT]; [lia|].
  start h E. cbn [bogus2_loop]. sim ltac:(idtac). loop_rec IH fT.
Qed.

Lemma comment_C fuel : forall h q fT, hs h = s -> i <= hpos h -> hpos h <= q -> (fuel <= fT)%nat ->
  simr G NoBad (comment_loop fuel h q) (comment_loop fT (shiftH h) (q + 1)).
Proof.
  induction fuel as [|fuel IH]; intros h q fT E H Hq Hf; [exact I|]. destruct fT as [|fT]; [lia|].
  start h E. cbn [comment_loop]. sim ltac:(idtac); try loop_rec IH fT.
Qed.

Lemma cdata_C fuel : forall h q fT, hs h = s -> i <= hpos h -> hpos h <= q -> (fuel <= fT)%nat ->
  simr G NoBad (cdata_loop fuel h q) (cdata_loop fT (shiftH h) (q + 1)).
Proof.
  induction fuel as [|fuel IH]; intros h q fT E H Hq Hf; [exact I|]. destruct fT as [|fT]; [lia|].
  start h E. cbn [cdata_loop]. sim ltac:(idtac); try loop_rec IH fT.
Qed.

Lemma ban_C fuel : forall h fT, hs h = s -> i <= hpos h -> (fuel <= fT)%nat ->
  simr G_ban (fun _ => False) (before_attr_name_loop fuel h) (before_attr_name_loop fT (shiftH h)).
Proof.
  induction fuel as [|fuel IH]; intros h fT E H Hf; [exact I|]. destruct fT as [|fT]; [lia|].
  start h E. cbn [before_attr_name_loop].
  simp_h.
  replace (sg p <? len t) with (p <? len s) by zl. destruct (p <? len s) eqn:E0; [|good_ban].
  after_sw_C.
  sim ltac:(to_shift; apply IH; [reflexivity|zl|lia]).
Qed.

(* the state functions *)
Definition callC (d : nat) : Prop :=
  forall f h, hs h = s -> preC f h -> simr G NoBad (h5_call d f h) (h5_call d f (shiftH h)).

Ltac sw_C_rule :=
  lazymatch goal with
  | |- simr _ _ (bind (skip_white _) _) (bind (skip_white _) _) => after_sw_C
  end.

Lemma callC_step d : callC d -> callC (S d).
Proof.
  intros IH f h E P. start h E. destruct f; cbn [h5_call]; cbn [preC] in P; simp_h;
    try sw_C_rule;
    sim ltac:(to_shift; apply IH; [reflexivity | cbn [preC]; zl]).
  - match goal with |- simr _ _ _ (bogus2_loop ?f ?h' (sg p)) =>
      replace (bogus2_loop f h' (sg p)) with (bogus2_loop f h' (p + 1)) by (f_equal; zl) end.
    apply (bogus2_C _ (mkH5 s p c st o l ty)); [reflexivity|zl|zl|].
    rewrite (length_sT A B). lia.
  - match goal with |- simr _ _ _ (comment_loop ?f ?h' (sg p)) =>
      replace (comment_loop f h' (sg p)) with (comment_loop f h' (p + 1)) by (f_equal; zl) end.
    apply (comment_C _ (mkH5 s p c st o l ty)); [reflexivity|zl|zl|].
    rewrite (length_sT A B). lia.
  - match goal with |- simr _ _ _ (cdata_loop ?f ?h' (sg p)) =>
      replace (cdata_loop f h' (sg p)) with (cdata_loop f h' (p + 1)) by (f_equal; zl) end.
    apply (cdata_C _ (mkH5 s p c st o l ty)); [reflexivity|zl|zl|].
    rewrite (length_sT A B). lia.
  - eapply simr_bind; [apply (ban_C _ (mkH5 s p c st o l ty)); [reflexivity|zl|rewrite (length_sT A B); lia]|].
    intros [r|f h] [r'|f' h'] HG; cbn [G_ban] in HG; try contradiction.
    + right. eexists. split; [reflexivity|exact HG].
    + destruct HG as (-> & -> & Hs & Hp & Hf). apply IH; [exact Hs|].
      destruct Hf as [-> | [-> Hlt]]; cbn [preC]; lia.
Qed.

Lemma callC_all d : callC d.
Proof. induction d as [|d IH]; [intros f h E P; exact I|]. apply callC_step. exact IH. Qed.

(* ---------- before the insertion point ---------- *)

(* whatever runs at or behind the insertion point on the s-side alone ends Bad *)
Lemma mono_bad h2 r : hs h2 = s -> i <= hpos h2 -> MonoP h2 r -> Bad r.
Proof.
  intros E H M. unfold Bad. destruct r as [[|] h1]; [|left; reflexivity]. right.
  destruct (M eq_refl) as [M1 M2]. cbn [fst snd] in *. split; [left; lia|].
  intros [N1 N2]. specialize (M2 N1). lia.
Qed.

Lemma call_bad d f h2 m' : hs h2 = s -> i <= hpos h2 -> simr G Bad (h5_call d f h2) m'.
Proof.
  intros E H. apply simr_bad. eapply wlp_conseq; [apply call_mono|]. intros r. apply mono_bad; assumption.
Qed.

(* s-side only: a loop that has passed the insertion point with a token that started before it *)
Ltac bad_leaf :=
  solve [ unfold Bad, nameCover, isname; simp_h; right; split;
          [ zl | intros [N1 N2]; first [discriminate N1 | zl] ] ].

Lemma bogus2_bad fuel : forall h q, hs h = s -> hpos h < i -> i <= q -> wlp (bogus2_loop fuel h q) Bad.
Proof.
  induction fuel as [|fuel IH]; intros h q E H Hq; cbn [bogus2_loop]; [apply wlp_fail_Fuel|].
  start h E. XCiNulMono.wlp_go; try bad_leaf. apply IH; [reflexivity|zl|zl].
Qed.

Lemma comment_bad fuel : forall h q, hs h = s -> hpos h < i -> i <= q -> wlp (comment_loop fuel h q) Bad.
Proof.
  induction fuel as [|fuel IH]; intros h q E H Hq; cbn [comment_loop]; [apply wlp_fail_Fuel|].
  start h E. XCiNulMono.wlp_go; try bad_leaf; (apply IH; [reflexivity|zl|zl]).
Qed.

Lemma cdata_bad fuel : forall h q, hs h = s -> hpos h < i -> i <= q -> wlp (cdata_loop fuel h q) Bad.
Proof.
  induction fuel as [|fuel IH]; intros h q E H Hq; cbn [cdata_loop]; [apply wlp_fail_Fuel|].
  start h E. XCiNulMono.wlp_go; try bad_leaf; (apply IH; [reflexivity|zl|zl]).
Qed.

Ltac scan_split :=
  let I1 := fresh "Ix" in let I2 := fresh "Ix" in
  lazymatch goal with
  | |- context [index_byte (?C ++ x00 :: B) ?c] =>
      destruct (index_byte_ins C B c ltac:(let X := fresh in intro X; vm_compute in X; discriminate X))
        as [[I1 I2]|[[I1 I2]|[I1 I2]]]; rewrite I2
  | |- context [span ?pr (?C ++ x00 :: B)] =>
      destruct (span_ins_t C B pr ltac:(vm_compute; reflexivity)) as [[I1 I2]|[I1 I2]]; rewrite I2
  end.

Ltac simA IH := simp_h; repeat (first [scan_split | sim_step IH]; simp_h).

Definition G_swA (r r' : Z * h5) : Prop :=
  r' = (fst r, shiftH (snd r)) /\ hs (snd r) = s /\ 0 <= hpos (snd r).

Lemma skip_white_A h : hs h = s -> 0 <= hpos h < i ->
  simr G_swA (fun _ => False) (skip_white h) (skip_white (shiftH h)).
Proof.
  intros E H. start h E. unfold skip_white. simA ltac:(idtac).
  all: right; eexists; (split; [reflexivity|]); unfold G_swA; simp_h;
    (split; [f_equal; apply mk_eq'; sgl|]); (split; [reflexivity|zl]).
Qed.

Ltac after_sw_A :=
  eapply simr_bind; [apply skip_white_A; [reflexivity|zl]|];
  let ch := fresh "ch" in let h1 := fresh "h" in let r' := fresh "r" in
  let E1 := fresh "E" in let E2 := fresh "E" in let E3 := fresh "E" in
  intros [ch h1] r' (E1 & E2 & E3); cbn [fst snd] in E1, E2, E3; subst r';
  destruct h1; cbn [hs] in E2; subst.

(* the loop of stateBeforeAttributeName *)
Definition Bd_ban (o : ban_out) : Prop :=
  match o with
  | BanDone r => Bad r
  | BanCall f h2 => hs h2 = s /\ i <= hpos h2
  end.

Definition G_banA (o o' : ban_out) : Prop :=
  match o, o' with
  | BanDone r, BanDone r' => G r r'
  | BanCall f h, BanCall f' h' => f' = f /\ h' = shiftH h /\ hs h = s /\ 0 <= hpos h < i
  | _, _ => False
  end.

Lemma ban_bad fuel : forall h, hs h = s -> i <= hpos h -> wlp (before_attr_name_loop fuel h) Bd_ban.
Proof.
  induction fuel as [|fuel IH]; intros h E H; cbn [before_attr_name_loop]; [apply wlp_fail_Fuel|].
  destruct (hpos h <? hlen h) eqn:E0; [|apply wlp_Ok; cbn [Bd_ban]; left; reflexivity].
  apply wlp_bind. eapply wlp_conseq; [apply skip_white_mono|].
  intros [ch h2] (q & E2 & Hq). cbn [fst snd] in E2. subst h2. start h E.
  XCiNulMono.wlp_go; cbn [Bd_ban]; try (left; reflexivity); try bad_leaf; try (split; [reflexivity|zl]).
  apply IH; [reflexivity|zl].
Qed.

Ltac good_banA :=
  right; eexists; split; [reflexivity|]; cbn [G_banA];
  first [ good_G
        | split; [reflexivity|]; split; [unfold shiftH; simp_h; apply mk_eq'; sgl|];
          split; [reflexivity|zl] ].

Ltac bad_ban :=
  left; cbn [Bd_ban];
  first [ split; [reflexivity|zl]
        | unfold Bad, nameCover, isname; simp_h;
          first [ left; reflexivity
                | right; split; [zl | intros [N1 N2]; first [discriminate N1 | zl]] ] ].

Ltac leaf0 := first [solve [good] | solve [good_ban] | solve [good_banA] | solve [bad] | solve [bad_ban]].
Ltac leaf ::=
  first [ leaf0
        | match goal with
          | |- simr _ _ (Ok ?r) _ =>
              match r with context [mkH5 s ?q _ _ ?o ?l _] =>
                destruct (Z_lt_ge_dec q i); first [leaf0 | destruct (Z_lt_ge_dec i (o + l)); leaf0] end
          end ].

Lemma ban_A fuel : forall h fT, hs h = s -> 0 <= hpos h < i -> (fuel <= fT)%nat ->
  simr G_banA Bd_ban (before_attr_name_loop fuel h) (before_attr_name_loop fT (shiftH h)).
Proof.
  induction fuel as [|fuel IH]; intros h fT E H Hf; [exact I|]. destruct fT as [|fT]; [lia|].
  start h E. cbn [before_attr_name_loop]. simp_h.
  replace (sg p <? len t) with (p <? len s) by zl. destruct (p <? len s) eqn:E0; [|leaf].
  after_sw_A.
  destruct (Z_lt_ge_dec hpos i) as [Hlt|Hge].
  - simA ltac:(idtac).
    destruct (Z_lt_ge_dec (hpos + 1) i) as [Hlt1|Hge1].
    + simA ltac:(to_shift; apply IH; [reflexivity|zl|lia]).
    + apply simr_bad. XCiNulMono.wlp_go; cbn [Bd_ban]; try (split; [reflexivity|zl]).
      apply ban_bad; [reflexivity|zl].
  - apply simr_bad. XCiNulMono.wlp_go; cbn [Bd_ban]; try (left; reflexivity); try bad_leaf;
      try (split; [reflexivity|zl]).
    apply ban_bad; [reflexivity|zl].

Qed.

(* the three fuel loops before the insertion point *)
Lemma bogus2_A fuel : forall h q fT, hs h = s -> 0 <= hpos h <= q -> q < i -> (fuel <= fT)%nat ->
  simr G Bad (bogus2_loop fuel h q) (bogus2_loop fT (shiftH h) q).
Proof.
  induction fuel as [|fuel IH]; intros h q fT E H Hq Hf; [exact I|]. destruct fT as [|fT]; [lia|].
  start h E. cbn [bogus2_loop]. simA ltac:(idtac).
  - destruct (Z_lt_ge_dec (q + index_byte (C ++ B) b_byte_percent + 1) i) as [Hlt|Hge].
    + simA ltac:(idtac). to_shift. apply IH; [reflexivity|zl|zl|lia].
    + apply simr_bad. XCiNulMono.wlp_go; try bad_leaf. apply bogus2_bad; [reflexivity|zl|zl].
  - apply simr_bad, bogus2_bad; [reflexivity|zl|zl].
Qed.

Lemma cdata_A fuel : forall h q fT, hs h = s -> 0 <= hpos h <= q -> q < i -> (fuel <= fT)%nat ->
  simr G Bad (cdata_loop fuel h q) (cdata_loop fT (shiftH h) q).
Proof.
  induction fuel as [|fuel IH]; intros h q fT E H Hq Hf; [exact I|]. destruct fT as [|fT]; [lia|].
  start h E. cbn [cdata_loop]. simA ltac:(idtac).
  - set (P := q + index_byte (C ++ B) b_byte_right_b) in *.
    destruct (Z_lt_ge_dec (P + 1) i) as [Hlt|Hge].
    + simA ltac:(idtac).
      * destruct (Z_lt_ge_dec (P + 2) i) as [Hlt2|Hge2].
        -- simA ltac:(idtac); to_shift; apply IH; [reflexivity|zl|zl|lia].
        -- rewrite (get_at A B _ (P + 2)) by zl. cbn [bind].
           change (beq x00 b_byte_gt) with false. cbn [andb].
           destruct (get "stateCData:s[pos+index+2]" s (P + 2)) as [c2| | |]; cbn [bind]; try exact Logic.I.
           destruct (beq c2 b_byte_gt); cbn [andb].
           ++ apply simr_bad. unfold emit. XCiNulMono.wlp_go. bad_leaf.
           ++ to_shift; apply IH; [reflexivity|zl|zl|lia].
      * to_shift; apply IH; [reflexivity|zl|zl|lia].
    + apply simr_bad. XCiNulMono.wlp_go; try bad_leaf; (apply cdata_bad; [reflexivity|zl|zl]).
  - apply simr_bad, cdata_bad; [reflexivity|zl|zl].
  - apply simr_bad, cdata_bad; [reflexivity|zl|zl].
Qed.

Lemma comment_A fuel : forall h q fT, hs h = s -> 0 <= hpos h <= q -> q < i -> (fuel <= fT)%nat ->
  simr G Bad (comment_loop fuel h q) (comment_loop fT (shiftH h) q).
Proof.
  induction fuel as [|fuel IH]; intros h q fT E H Hq Hf; [exact I|]. destruct fT as [|fT]; [lia|].
  start h E. cbn [comment_loop]. simA ltac:(idtac).
  - set (P := q + index_byte (C ++ B) b_byte_dash) in *.
    destruct (Z_lt_ge_dec (P + 1) i) as [Hlt|Hge].
    + simA ltac:(to_shift; apply IH; [reflexivity|zl|zl|lia]).
      set (M := P + (1 + span (fun b : byte => beq b "000") (C0 ++ B))) in *.
      replace (P + (1 + span (fun b : byte => beq b "000") (C0 ++ B) + 1)) with (M + 1) by zl.
      destruct (Z_lt_ge_dec (M + 1) i) as [Hlt2|Hge2].
      * simA ltac:(to_shift; apply IH; [reflexivity|zl|zl|lia]).
      * rewrite (get_at A B _ (M + 1)) by zl. cbn [bind].
        change (beq x00 b_byte_gt) with false. cbn [negb].
        destruct (get "stateComment:s[pos+index+offset]" s (M + 1)) as [c2| | |]; cbn [bind]; try exact Logic.I.
        destruct (beq c2 b_byte_gt); cbn [negb].
        -- apply simr_bad. unfold emit. XCiNulMono.wlp_go. bad_leaf.
        -- to_shift; apply IH; [reflexivity|zl|zl|lia].

    + apply simr_bad. XCiNulMono.wlp_go; try bad_leaf; (apply comment_bad; [reflexivity|zl|zl]).
  - apply simr_bad, comment_bad; [reflexivity|zl|zl].
  - apply simr_bad, comment_bad; [reflexivity|zl|zl].
Qed.

(* the state functions before the insertion point *)
Lemma simr_bind2 {X Y} (G1 : X -> X -> Prop) (Bd1 : X -> Prop) (G0 : Y -> Y -> Prop) (Bd : Y -> Prop) m m' k k' :
  simr G1 Bd1 m m' -> (forall a, Bd1 a -> wlp (k a) Bd) ->
  (forall a a', G1 a a' -> simr G0 Bd (k a) (k' a')) ->
  simr G0 Bd (bind m k) (bind m' k').
Proof.
  intros H1 H2 H3. destruct m as [a| | |]; cbn in *; auto.
  destruct H1 as [Hb|(a' & -> & Ha)].
  - apply simr_bad. apply H2. exact Hb.
  - cbn [bind]. exact (H3 a a' Ha).
Qed.

Definition callA (d : nat) : Prop :=
  forall f h, hs h = s -> 0 <= hpos h < i -> simr G Bad (h5_call d f h) (h5_call d f (shiftH h)).

Ltac ihA IH :=
  idtac;
  lazymatch goal with
  | |- simr _ _ (h5_call ?d ?f (mkH5 s ?q _ _ _ _ _)) _ =>
      destruct (Z_lt_ge_dec q i);
      [ to_shift; apply IH; [reflexivity|zl] | apply call_bad; [reflexivity|zl] ]
  end.

Ltac sw_A_rule :=
  lazymatch goal with
  | |- simr _ _ (bind (skip_white _) _) (bind (skip_white _) _) => after_sw_A
  end.

(* a test window that contains the inserted NUL fails on the t-side *)
Lemma test_straddle (g : bytes -> bool) site p k :
  (forall w, List.length w = Z.to_nat k -> In x00 w -> g w = false) -> 0 <= p -> p <= i < p + k ->
  (if k <=? len t - p then (w <- slice site t p (p + k) ;; Ok (g w)) else Ok false) = Ok false.
Proof.
  intros Hg Hp Hk. destruct (k <=? len t - p) eqn:E; [|reflexivity].
  rewrite slice_ok by lia. cbn [bind]. f_equal. apply Hg.
  - rewrite firstn_length, skipn_length. unfold len in *. lia.
  - eapply (slice_straddle A B site p (p + k)); [lia|]. apply slice_ok; lia.
Qed.

(* a doctype opener that straddles the insertion point: the doctype token passes it *)
Lemma doctype_bad d p c st o l ty w site :
  0 <= p < i -> i < p + 7 -> slice site s p (p + 7) = Ok w -> to_lower_cmp (bs "doctype") w = true ->
  wlp (h5_call d SDoctype (mkH5 s p c st o l ty)) Bad.
Proof.
  intros Hp Hi Hw Hd. destruct d as [|d]; [apply wlp_fail_Stack|]. cbn [h5_call]. simp_h.
  apply slice_Ok_inv in Hw. destruct Hw as (W1 & W2 & ->).
  replace (p + 7 - p) with 7 in Hd by lia.
  rewrite to_lower_cmp_ci in Hd;
    [|reflexivity|change (List.length (bs "doctype")) with 7%nat; rewrite firstn_length, skipn_length; unfold len in *; lia].
  rewrite (ci_prefix_firstn_n (bs "doctype") _ (Z.to_nat 7) eq_refl) in Hd.
  apply doctype_no_gt in Hd.
  apply wlp_bind. apply wlp_drop. intros _. change b_byte_gt with x3e.
  destruct (index_byte (skipn (Z.to_nat p) s) x3e =? -1) eqn:E0; unfold emit; XCiNulMono.wlp_go; bad_leaf.
Qed.

Lemma markup_tail d : callA d -> forall p c st o l ty, 0 <= p < i ->
  simr G Bad
    (cm <- (if 2 <=? len s - p then
              (w <- slice "stateMarkupDeclarationOpen:--" s p (p + 2) ;; Ok (bytes_eqb w (bs "--")))
            else Ok false) ;;
     if (cm : bool) then h5_call d SComment (mkH5 s (p + 2) c st o l ty)
     else h5_call d SBogusComment (mkH5 s p c st o l ty))
    (cm <- (if 2 <=? len t - p then
              (w <- slice "stateMarkupDeclarationOpen:--" t p (p + 2) ;; Ok (bytes_eqb w (bs "--")))
            else Ok false) ;;
     if (cm : bool) then h5_call d SComment (mkH5 t (p + 2) c st (sg o) (sl o l) ty)
     else h5_call d SBogusComment (mkH5 t p c st (sg o) (sl o l) ty)).
Proof.
  intros IH p c st o l ty P.
  destruct (Z_le_gt_dec (p + 2) i) as [H2|H2].
  - simA ltac:(ihA IH).
  - rewrite (test_straddle (fun w => bytes_eqb w (bs "--")) _ p 2);
      [|intros w L I; apply eqb_lit_nul; [exact I|cbn; intuition discriminate]|lia|lia].
    cbn [bind].
    destruct (2 <=? len s - p).
    + destruct (slice "stateMarkupDeclarationOpen:--" s p (p + 2)) as [w| | |]; cbn [bind]; try exact Logic.I.
      destruct (bytes_eqb w (bs "--")).
      * apply call_bad; [reflexivity|zl].
      * ihA IH.
    + cbn [bind]. ihA IH.
Qed.

Lemma markup_A d : callA d -> forall p c st o l ty, 0 <= p < i ->
  simr G Bad (h5_call (S d) SMarkupDeclarationOpen (mkH5 s p c st o l ty))
             (h5_call (S d) SMarkupDeclarationOpen (shiftH (mkH5 s p c st o l ty))).
Proof.
  intros IH p c st o l ty P. cbn [h5_call]. simp_h. rewrite (sg_lt p) by lia.
  destruct (Z_le_gt_dec (p + 7) i) as [H7|H7].
  - simA ltac:(ihA IH).
  - rewrite (test_straddle (to_lower_cmp (bs "doctype")) _ p 7); [|intros w L I; apply doctype_nul; assumption|lia|lia].
    rewrite (test_straddle (fun w => bytes_eqb w (bs "[CDATA[")) _ p 7);
      [|intros w L I; apply eqb_lit_nul; [exact I|cbn; intuition discriminate]|lia|lia].
    cbn [bind].
    destruct (7 <=? len s - p).
    + destruct (slice "stateMarkupDeclarationOpen:doctype" s p (p + 7)) as [w| | |] eqn:Ew; cbn [bind];
        try exact Logic.I.
      destruct (to_lower_cmp (bs "doctype") w) eqn:Ed.
      * apply simr_bad. eapply doctype_bad; eauto. lia.
      * destruct (slice "stateMarkupDeclarationOpen:cdata" s p (p + 7)) as [w2| | |]; cbn [bind];
          try exact Logic.I.
        destruct (bytes_eqb w2 (bs "[CDATA[")).
        -- apply call_bad; [reflexivity|zl].
        -- apply markup_tail; assumption.
    + cbn [bind]. apply markup_tail; assumption.

Qed.

Lemma callA_step d : callA d -> callA (S d).
Proof.
  intros IH f h E P. start h E. destruct f; cbn [h5_call]; simp_h;
    try sw_A_rule;
    simA ltac:(ihA IH).
  - apply markup_A; assumption.
  - match goal with |- simr _ _ _ (bogus2_loop ?f ?h' (sg p)) =>
      replace (bogus2_loop f h' (sg p)) with (bogus2_loop f h' p) by (f_equal; zl) end.
    apply (bogus2_A _ (mkH5 s p c st o l ty)); [reflexivity|zl|zl|]. rewrite (length_sT A B). lia.
  - match goal with |- simr _ _ _ (comment_loop ?f ?h' (sg p)) =>
      replace (comment_loop f h' (sg p)) with (comment_loop f h' p) by (f_equal; zl) end.
    apply (comment_A _ (mkH5 s p c st o l ty)); [reflexivity|zl|zl|]. rewrite (length_sT A B). lia.
  - match goal with |- simr _ _ _ (cdata_loop ?f ?h' (sg p)) =>
      replace (cdata_loop f h' (sg p)) with (cdata_loop f h' p) by (f_equal; zl) end.
    apply (cdata_A _ (mkH5 s p c st o l ty)); [reflexivity|zl|zl|]. rewrite (length_sT A B). lia.
  - eapply simr_bind2; [apply (ban_A _ (mkH5 s p c st o l ty)); [reflexivity|zl|rewrite (length_sT A B); lia]| |].
    + intros [r|f h2]; cbn [Bd_ban].
      * intros Hb. apply wlp_Ok. exact Hb.
      * intros [Hs Hp]. eapply wlp_conseq; [apply call_mono|]. intros r. apply mono_bad; assumption.
    + intros [r|f h2] [r'|f' h2'] HG; cbn [G_banA] in HG; try contradiction.
      * right. eexists. split; [reflexivity|exact HG].
      * destruct HG as (-> & -> & Hs & Hp). apply IH; assumption.
Qed.

End Nul.
