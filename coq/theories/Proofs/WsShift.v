(* WsShift: the SQL scanner is invariant under putting an arbitrary prefix in
   front of the input.  Generalisation of QuoteBase (shift by one byte) to a
   shift by  len pre.

   A scanner state over  pre ++ x  standing at offset p + len pre and a state
   over  x  standing at offset p are twins when they carry the same statistics
   and their flags agree on the two dialect bits.  Every lexer maps twins to
   twins, returns a resume offset that is larger by len pre, and writes the same
   token except that its position is larger by len pre.

   simR, the simR_* lemmas, bind_assoc, sim_assign, teq and dial are imported
   from QuoteBase; everything that mentions the shift amount is re-defined here
   with the suffix K.  WsBase is required but not imported (its `tq` would
   capture the variable name tq used by the tactics); shiftk is WsBase.shiftk. *)
From Coq Require Import List ZArith String Bool Lia ZifyBool.
From Coq.Strings Require Import Byte.
From LI Require Import Prelude Base SqliLex Proofs.BaseFacts Proofs.Wp Proofs.LexBase Proofs.LexSpec
  Proofs.QuoteBase.
From LI Require Proofs.WsBase.
From LIGen Require Import Tables Dispatch Consts.
Import ListNotations.
Local Open Scope Z_scope.

Local Notation shiftk := WsBase.shiftk.

(* ---------- the checked primitives under a shift by a prefix ---------- *)

Lemma len_pre_app (pre s : bytes) : len (pre ++ s) = len pre + len s.
Proof. apply len_app. Qed.

Lemma to_nat_shift (pre : bytes) i : 0 <= i -> Z.to_nat (i + len pre) = (List.length pre + Z.to_nat i)%nat.
Proof. intros H. unfold len. lia. Qed.

Lemma skipn_pre_app (pre s : bytes) n : skipn (List.length pre + n) (pre ++ s) = skipn n s.
Proof. induction pre as [|b pre IH]; [reflexivity|exact IH]. Qed.

Lemma nth_error_pre_app (pre s : bytes) n : nth_error (pre ++ s) (List.length pre + n) = nth_error s n.
Proof. induction pre as [|b pre IH]; [reflexivity|exact IH]. Qed.

Lemma drop_app site (pre : bytes) s i r : drop site s i = Ok r -> drop site (pre ++ s) (i + len pre) = Ok r.
Proof.
  intros E. apply drop_Ok_inv in E. destruct E as [R ->]. pose proof (len_nonneg pre).
  rewrite drop_ok by (rewrite len_pre_app; lia).
  rewrite to_nat_shift by lia. rewrite skipn_pre_app. reflexivity.
Qed.

Lemma get_app site (pre : bytes) s i b : get site s i = Ok b -> get site (pre ++ s) (i + len pre) = Ok b.
Proof.
  intros E. apply get_Ok_inv in E. destruct E as [R N]. pose proof (len_nonneg pre).
  unfold get. destruct (0 <=? i + len pre) eqn:E0; [|lia].
  rewrite to_nat_shift by lia. rewrite nth_error_pre_app, N. reflexivity.
Qed.

Lemma slice_app site (pre : bytes) s i j r :
  slice site s i j = Ok r -> slice site (pre ++ s) (i + len pre) (j + len pre) = Ok r.
Proof.
  intros E. apply slice_Ok_inv in E. destruct E as (R1 & R2 & ->). pose proof (len_nonneg pre).
  rewrite slice_ok by (try rewrite len_pre_app; lia).
  rewrite to_nat_shift by lia. rewrite skipn_pre_app.
  replace (j + len pre - (i + len pre)) with (j - i) by lia. reflexivity.
Qed.

Lemma sim_dropK {C D} (Q : C -> D -> Prop) site (pre : bytes) s i1 i2 k1 k2 :
  i1 = i2 + len pre ->
  (0 <= i2 <= len s -> simR Q (k1 (skipn (Z.to_nat i2) s)) (k2 (skipn (Z.to_nat i2) s))) ->
  simR Q (bind (drop site (pre ++ s) i1) k1) (bind (drop site s i2) k2).
Proof.
  intros -> H x E. inv_bind E. rewrite (drop_app _ _ _ _ _ E0). cbn [bind].
  apply drop_Ok_inv in E0. destruct E0 as [R ->]. exact (H R x E).
Qed.

Lemma sim_getK {C D} (Q : C -> D -> Prop) site (pre : bytes) s i1 i2 k1 k2 :
  i1 = i2 + len pre ->
  (forall b, 0 <= i2 < len s -> nth_error s (Z.to_nat i2) = Some b -> simR Q (k1 b) (k2 b)) ->
  simR Q (bind (get site (pre ++ s) i1) k1) (bind (get site s i2) k2).
Proof.
  intros -> H x E. inv_bind E. rewrite (get_app _ _ _ _ _ E0). cbn [bind].
  apply get_Ok_inv in E0. destruct E0 as [R N]. exact (H a R N x E).
Qed.

Lemma sim_sliceK {C D} (Q : C -> D -> Prop) site (pre : bytes) s i1 i2 j1 j2 k1 k2 :
  i1 = i2 + len pre -> j1 = j2 + len pre ->
  (0 <= i2 <= j2 -> j2 <= len s ->
   simR Q (k1 (firstn (Z.to_nat (j2 - i2)) (skipn (Z.to_nat i2) s)))
          (k2 (firstn (Z.to_nat (j2 - i2)) (skipn (Z.to_nat i2) s)))) ->
  simR Q (bind (slice site (pre ++ s) i1 j1) k1) (bind (slice site s i2 j2) k2).
Proof.
  intros -> -> H x E. inv_bind E. rewrite (slice_app _ _ _ _ _ _ E0). cbn [bind].
  apply slice_Ok_inv in E0. destruct E0 as (R1 & R2 & ->). exact (H R1 R2 x E).
Qed.

Lemma simR_drop_eqK site (pre : bytes) s i1 i2 : i1 = i2 + len pre ->
  simR eq (drop site (pre ++ s) i1) (drop site s i2).
Proof. intros -> x E. exists x. split; [apply drop_app; exact E|reflexivity]. Qed.

Lemma simR_get_eqK site (pre : bytes) s i1 i2 : i1 = i2 + len pre ->
  simR eq (get site (pre ++ s) i1) (get site s i2).
Proof. intros -> x E. exists x. split; [apply get_app; exact E|reflexivity]. Qed.

Section ShiftK.

Context (pre : bytes) (f1 f2 : Z) (Hdial : dial f1 f2).

(* ---------- tokens ---------- *)

(* the token slot of the two runs: equal up to the position, and once a lexer has
   written it (non-zero class) the position over pre ++ x is larger by len pre *)
Definition trelK (tq tx : token) : Prop :=
  teq tq tx /\ (t_cat tx = x00 \/ t_pos tq = t_pos tx + len pre).

Lemma trelK_shift tq tx : trelK tq tx -> t_cat tx <> x00 -> tq = shiftk (len pre) tx.
Proof.
  destruct tq as [p1 l1 c1 k1 o1 cl1 v1], tx as [p2 l2 c2 k2 o2 cl2 v2]. unfold trelK, teq, WsBase.shiftk. cbn [t_pos t_len t_count t_cat t_open t_close t_val].
  intros ((A & B & C & D & E & F) & [G|G]) H; [contradiction|]. subst. reflexivity.
Qed.

Lemma trelK_refl t : t_cat t = x00 -> trelK t t.
Proof. intros H. unfold trelK, teq. splits; auto. Qed.

Lemma trelK_of_shift t : trelK (shiftk (len pre) t) t.
Proof. unfold trelK, teq, WsBase.shiftk. cbn [t_pos t_len t_count t_cat t_open t_close t_val]. splits; auto. Qed.


Definition twinK (sq sx : sqlst) : Prop :=
  input sq = pre ++ input sx /\ flags sq = f1 /\ flags sx = f2 /\
  pos sq = pos sx + len pre /\ st sq = st sx.

(* related results of a lexer *)
Definition relLK (rq rx : sqlst * token * Z) : Prop :=
  twinK (fst (fst rq)) (fst (fst rx)) /\ trelK (snd (fst rq)) (snd (fst rx)) /\ snd rq = snd rx + len pre.

(* the same with a token that was certainly written *)
Definition tshK (tq tx : token) : Prop := teq tq tx /\ t_pos tq = t_pos tx + len pre.

Lemma tshK_trelK tq tx : tshK tq tx -> trelK tq tx.
Proof. intros [A B]. split; auto. Qed.

Definition relLsK (rq rx : sqlst * token * Z) : Prop :=
  twinK (fst (fst rq)) (fst (fst rx)) /\ tshK (snd (fst rq)) (snd (fst rx)) /\ snd rq = snd rx + len pre.

Lemma relLsK_relLK rq rx : relLsK rq rx -> relLK rq rx.
Proof. intros (A & B & C). split; [exact A|]. split; [apply tshK_trelK; exact B|exact C]. Qed.

(* ---------- tactics ---------- *)

Ltac simp :=
  simp_st; unfold has_flag; cbn [flags]; rewrite ?(len_pre_app pre) in *;
  rewrite ?(proj1 Hdial), ?(proj2 Hdial).

Ltac sside := simp; note_facts; norm_len; split_ifs; pose proof (len_nonneg pre); lia.

Ltac use_dial :=
  unfold has_flag; cbn [flags];
  rewrite ?(proj1 Hdial), ?(proj2 Hdial).

Ltac trel_tac :=
  unfold trelK, teq; simp; splits; try reflexivity; try assumption; try (right; lia); try (left; assumption).

Ltac leaf0 :=
  pose proof (len_nonneg pre); split_ifs; unfold relLK, relLsK, twinK, tshK; cbn [fst snd]; simp; splits; try reflexivity; try lia; try trel_tac; try (split_ifs; lia).

Ltac leaf := lazymatch goal with |- simR _ _ _ => fail | _ => solve [leaf0] end.

Ltac sim_step :=
  lazymatch goal with
  | |- simR _ (Ok _) (Ok _) => apply simR_ret; try leaf
  | |- simR _ _ StackOverflow => apply simR_fail_stack
  | |- simR _ _ OutOfFuel => apply simR_fail_fuel
  | |- simR _ _ (Panic _) => apply simR_fail_panic
  | |- simR _ (bind (drop _ (pre ++ ?s) _) _) (bind (drop _ ?s _) _) => apply sim_dropK; [sside | intros ?]
  | |- simR _ (bind (get _ (pre ++ ?s) _) _) (bind (get _ ?s _) _) => apply sim_getK; [sside | intros ? ? ?]
  | |- simR _ (bind (slice _ (pre ++ ?s) _ _) _) (bind (slice _ ?s _ _) _) => apply sim_sliceK; [sside | sside | intros ? ?]
  | |- simR _ (bind (assign _ _ _ _ _) _) (bind (assign _ _ _ _ _) _) => apply sim_assign; [sside | intros ? ?]
  | |- simR _ (bind (Ok _) _) (bind (Ok _) _) => cbn [bind]
  | |- simR eq (str_len_cspn ?r ?l1 ?a) (str_len_cspn ?r ?l2 ?a) =>
      apply simR_eq; f_equal; sside
  | |- simR eq (str_len_spn ?r ?l1 ?a) (str_len_spn ?r ?l2 ?a) =>
      apply simR_eq; f_equal; sside
  | |- simR eq ?m ?m => apply simR_refl
  | |- simR eq (drop _ _ _) (drop _ _ _) => apply simR_drop_eqK; sside
  | |- simR eq (get _ _ _) (get _ _ _) => apply simR_get_eqK; sside
  | |- simR _ (if ?c1 then _ else _) (if ?c2 then _ else _) =>
      first [ constr_eq c1 c2; destruct c1 eqn:?
            | destruct c1 eqn:?; destruct c2 eqn:?; try (exfalso; sside) ]
  | |- simR _ (bind (parse_string_core _ _ _ _ _ _) _) _ => fail
  | |- simR _ (bind (string_core_loop _ _ _ _ _) _) _ => fail
  | |- simR _ (bind (parse_string _ _) _) _ => fail
  | |- simR _ (bind (parse_tick _ _) _) _ => fail
  | |- simR _ (bind (run_parser _ _ _) _) _ => fail
  | |- simR _ (bind _ _) (bind _ _) =>
      eapply simR_bind with (R := eq); [ | intros ? ? ? _; subst ]
  end.

Ltac split_vars :=
  repeat match goal with |- context [if ?b then _ else _] => is_var b; destruct b end.

Ltac sim_go := simp; split_vars; repeat (sim_step; simp; split_vars).

Ltac start_lexer L :=
  intros x pq px stt tq tx Hp Ht; subst pq;
  destruct tq as [pq0 lq0 cq0 kq0 oq0 clq0 vq0], tx as [px0 lx0 cx0 kx0 ox0 clx0 vx0];
  unfold trelK, teq in Ht; cbn [t_pos t_len t_count t_cat t_open t_close t_val] in Ht;
  destruct Ht as ((? & ? & ? & ? & ? & ?) & Ht); subst;
  unfold L, at_, input_from; use_dial.

(* ---------- the simple lexers ---------- *)

Lemma parse_white_simK : forall x pq px stt tq tx, pq = px + len pre -> trelK tq tx ->
  simR relLK (parse_white (mkSt (pre ++ x) f1 pq stt) tq) (parse_white (mkSt x f2 px stt) tx).
Proof. start_lexer parse_white. sim_go. Qed.

Lemma parse_other_simK : forall x pq px stt tq tx, pq = px + len pre -> trelK tq tx ->
  simR relLK (parse_other (mkSt (pre ++ x) f1 pq stt) tq) (parse_other (mkSt x f2 px stt) tx).
Proof. start_lexer parse_other. sim_go. Qed.

Lemma parse_operator1_simK : forall x pq px stt tq tx, pq = px + len pre -> trelK tq tx ->
  simR relLK (parse_operator1 (mkSt (pre ++ x) f1 pq stt) tq) (parse_operator1 (mkSt x f2 px stt) tx).
Proof. start_lexer parse_operator1. sim_go. Qed.

Lemma parse_byte_simK : forall x pq px stt tq tx, pq = px + len pre -> trelK tq tx ->
  simR relLK (parse_byte (mkSt (pre ++ x) f1 pq stt) tq) (parse_byte (mkSt x f2 px stt) tx).
Proof. start_lexer parse_byte. sim_go. Qed.

Ltac call L := apply L; [sside | first [assumption | trel_tac]].

Lemma parse_eol_comment_simK : forall x pq px stt tq tx, pq = px + len pre -> trelK tq tx ->
  simR relLK (parse_eol_comment (mkSt (pre ++ x) f1 pq stt) tq) (parse_eol_comment (mkSt x f2 px stt) tx).
Proof. start_lexer parse_eol_comment. sim_go. Qed.

Lemma parse_hash_simK : forall x pq px stt tq tx, pq = px + len pre -> trelK tq tx ->
  simR relLK (parse_hash (mkSt (pre ++ x) f1 pq stt) tq) (parse_hash (mkSt x f2 px stt) tx).
Proof. start_lexer parse_hash. sim_go; try leaf0. call parse_eol_comment_simK. Qed.

Lemma parse_dash_simK : forall x pq px stt tq tx, pq = px + len pre -> trelK tq tx ->
  simR relLK (parse_dash (mkSt (pre ++ x) f1 pq stt) tq) (parse_dash (mkSt x f2 px stt) tx).
Proof. start_lexer parse_dash. sim_go; call parse_eol_comment_simK. Qed.

Lemma parse_backslash_simK : forall x pq px stt tq tx, pq = px + len pre -> trelK tq tx ->
  simR relLK (parse_backslash (mkSt (pre ++ x) f1 pq stt) tq) (parse_backslash (mkSt x f2 px stt) tx).
Proof. start_lexer parse_backslash. sim_go. Qed.

Lemma parse_bword_simK : forall x pq px stt tq tx, pq = px + len pre -> trelK tq tx ->
  simR relLK (parse_bword (mkSt (pre ++ x) f1 pq stt) tq) (parse_bword (mkSt x f2 px stt) tx).
Proof. start_lexer parse_bword. sim_go. Qed.

Lemma parse_slash_simK : forall x pq px stt tq tx, pq = px + len pre -> trelK tq tx ->
  simR relLK (parse_slash (mkSt (pre ++ x) f1 pq stt) tq) (parse_slash (mkSt x f2 px stt) tx).
Proof.
  start_lexer parse_slash. unfold is_mysql_comment. sim_go; try (call parse_operator1_simK).

Qed.

Lemma parse_operator2_simK : forall x pq px stt tq tx, pq = px + len pre -> trelK tq tx ->
  simR relLK (parse_operator2 (mkSt (pre ++ x) f1 pq stt) tq) (parse_operator2 (mkSt x f2 px stt) tx).
Proof. start_lexer parse_operator2. sim_go; try (call parse_operator1_simK). Qed.

(* ---------- parseStringCore ---------- *)

Definition relOK (rq rx : option Z) : Prop :=
  match rq, rx with
  | Some a, Some b => a = b + len pre
  | None, None => True
  | _, _ => False
  end.

Lemma string_core_loop_simK x d : forall fuelx fuelq, (fuelx <= fuelq)%nat ->
  forall startq startx kq kx, startq = startx + len pre -> kq = kx + len pre ->
  simR relOK (string_core_loop fuelq (pre ++ x) startq kq d) (string_core_loop fuelx x startx kx d).
Proof.
  induction fuelx as [|fuelx IH]; intros fuelq F startq startx kq kx -> ->; [apply simR_fail_fuel|].
  destruct fuelq as [|fuelq]; [lia|]. cbn [string_core_loop]. sim_go; try (apply IH; lia).
  all: cbn [relOK]; try exact I; lia.
Qed.

(* related results of parse_string_core: the resume offset and the position are
   larger by len pre; the opening mark is the one each call computes from its offset *)
Definition relSK (tq tx : token) (offq offx : Z) (d : byte) (rq rx : token * Z) : Prop :=
  snd rq = snd rx + len pre /\
  t_pos (fst rq) = t_pos (fst rx) + len pre /\ t_len (fst rq) = t_len (fst rx) /\
  t_cat (fst rq) = b_sqli_token_type_string /\ t_cat (fst rx) = b_sqli_token_type_string /\
  t_close (fst rq) = t_close (fst rx) /\ t_val (fst rq) = t_val (fst rx) /\
  t_count (fst rq) = t_count tq /\ t_count (fst rx) = t_count tx /\
  t_open (fst rq) = (if 0 <? offq then d else x00) /\
  t_open (fst rx) = (if 0 <? offx then d else x00).

Lemma parse_string_core_simK tq tx x lq pq offq px offx d :
  lq = len pre + len x -> pq + offq = px + offx + len pre ->
  simR (relSK tq tx offq offx d)
       (parse_string_core tq (pre ++ x) lq pq offq d) (parse_string_core tx x (len x) px offx d).
Proof.
  intros -> Hp. unfold parse_string_core. sim_go.
  eapply simR_bind; [apply string_core_loop_simK; [rewrite app_length; lia|lia|lia]|].
  intros rq rx Ro _. sim_go. destruct rq as [aq|], rx as [ax|]; cbn [relOK] in Ro; try contradiction.
  - subst aq. sim_go. unfold relSK. simp. cbn [fst snd]. simp. splits; try reflexivity; lia.
  - sim_go. unfold relSK. simp. cbn [fst snd]. simp. splits; try reflexivity; lia.
Qed.

Lemma relSK_tshK tq tx off d rq rx :
  trelK tq tx -> relSK tq tx off off d rq rx -> tshK (fst rq) (fst rx).
Proof.
  intros ((A & B & C & D & E & F) & _) (R1 & R2 & R3 & R4 & R5 & R6 & R7 & R8 & R9 & R10 & R11).
  unfold tshK, teq. splits; congruence.
Qed.

Ltac str_core :=
  eapply simR_bind; [apply parse_string_core_simK; sside|];
  let tq' := fresh "tq'" in let npq := fresh "npq" in let tx' := fresh "tx'" in let npx := fresh "npx" in
  let RS := fresh "RS" in
  intros [tq' npq] [tx' npx] RS _.

Lemma parse_word_simK : forall x pq px stt tq tx, pq = px + len pre -> trelK tq tx ->
  simR relLK (parse_word (mkSt (pre ++ x) f1 pq stt) tq) (parse_word (mkSt x f2 px stt) tx).
Proof.
  start_lexer parse_word. sim_go.
  match goal with |- simR _ (match ?a with _ => _ end) _ => destruct a as [[i ch]|] end; sim_go.

Qed.

(* after str_core: name the fields of the two string tokens *)
Ltac str_open Ht :=
  match goal with RS : relSK _ _ _ _ _ (?tq', _) (?tx', _) |- _ =>
    let T := fresh "T" in
    pose proof (relSK_tshK _ _ _ _ _ _ Ht RS) as T; destruct RS as (?R1 & _); cbn [fst snd] in *;
    destruct tq' as [?pq0 ?lq0 ?cq0 ?kq0 ?oq0 ?clq0 ?vq0], tx' as [?px0 ?lx0 ?cx0 ?kx0 ?ox0 ?clx0 ?vx0];
    unfold tshK, teq in T; cbn [t_pos t_len t_count t_cat t_open t_close t_val] in T;
    destruct T as ((? & ? & ? & ? & ? & ?) & ?); subst
  end.

Lemma parse_string_sim_sK : forall x pq px stt tq tx, pq = px + len pre -> trelK tq tx ->
  simR relLsK (parse_string (mkSt (pre ++ x) f1 pq stt) tq) (parse_string (mkSt x f2 px stt) tx).
Proof.
  intros x pq px stt tq tx -> Ht. unfold parse_string, at_. sim_go. str_core. str_open Ht. sim_go.
Qed.

Lemma parse_string_simK : forall x pq px stt tq tx, pq = px + len pre -> trelK tq tx ->
  simR relLK (parse_string (mkSt (pre ++ x) f1 pq stt) tq) (parse_string (mkSt x f2 px stt) tx).
Proof. intros. eapply simR_conseq; [apply parse_string_sim_sK; assumption|apply relLsK_relLK]. Qed.

Lemma parse_estring_simK : forall x pq px stt tq tx, pq = px + len pre -> trelK tq tx ->
  simR relLK (parse_estring (mkSt (pre ++ x) f1 pq stt) tq) (parse_estring (mkSt x f2 px stt) tx).
Proof.
  intros x pq px stt tq tx -> Ht. unfold parse_estring, at_. sim_go.
  - call parse_word_simK.
  - str_core. str_open Ht. sim_go.
Qed.

Lemma parse_tick_sim_sK : forall x pq px stt tq tx, pq = px + len pre -> trelK tq tx ->
  simR relLsK (parse_tick (mkSt (pre ++ x) f1 pq stt) tq) (parse_tick (mkSt x f2 px stt) tx).
Proof.
  intros x pq px stt tq tx -> Ht. unfold parse_tick. sim_go. str_core. str_open Ht. sim_go.
Qed.

Lemma parse_tick_simK : forall x pq px stt tq tx, pq = px + len pre -> trelK tq tx ->
  simR relLK (parse_tick (mkSt (pre ++ x) f1 pq stt) tq) (parse_tick (mkSt x f2 px stt) tx).
Proof. intros. eapply simR_conseq; [apply parse_tick_sim_sK; assumption|apply relLsK_relLK]. Qed.

(* a lexer called in the middle of another one *)
Ltac lex_bind L :=
  eapply simR_bind; [apply L; [sside | first [assumption | trel_tac]]|];
  let RL := fresh "RL" in
  intros [[[?iq ?fq ?pq ?sq] [?pq0 ?lq0 ?cq0 ?kq0 ?oq0 ?clq0 ?vq0]] ?npq]
         [[[?ix ?fx ?px ?sx] [?px0 ?lx0 ?cx0 ?kx0 ?ox0 ?clx0 ?vx0]] ?npx] RL _;
  unfold relLsK, twinK, tshK, teq in RL; cbn [fst snd input flags pos st t_pos t_len t_count t_cat t_open t_close t_val] in RL;
  destruct RL as ((? & ? & ? & ? & ?) & ((? & ? & ? & ? & ? & ?) & ?) & ?); subst.

Lemma parse_var_simK : forall x pq px stt tq tx, pq = px + len pre -> trelK tq tx ->
  simR relLK (parse_var (mkSt (pre ++ x) f1 pq stt) tq) (parse_var (mkSt x f2 px stt) tx).
Proof.
  start_lexer parse_var. sim_go.
  all: try (lex_bind parse_tick_sim_sK; sim_go).
  all: try (lex_bind parse_string_sim_sK; sim_go).
Qed.

Lemma parse_ustring_simK : forall x pq px stt tq tx, pq = px + len pre -> trelK tq tx ->
  simR relLK (parse_ustring (mkSt (pre ++ x) f1 pq stt) tq) (parse_ustring (mkSt x f2 px stt) tx).
Proof.
  start_lexer parse_ustring. sim_go.
  all: try (lex_bind parse_string_sim_sK; sim_go).
  all: try (call parse_word_simK).
Qed.

Lemma parse_qstring_core_simK off : forall x pq px stt tq tx, pq = px + len pre -> trelK tq tx ->
  simR relLK (parse_qstring_core off (mkSt (pre ++ x) f1 pq stt) tq) (parse_qstring_core off (mkSt x f2 px stt) tx).
Proof.
  start_lexer parse_qstring_core. sim_go.
  all: try (call parse_word_simK).
Qed.

Lemma parse_nqstring_simK : forall x pq px stt tq tx, pq = px + len pre -> trelK tq tx ->
  simR relLK (parse_nqstring (mkSt (pre ++ x) f1 pq stt) tq) (parse_nqstring (mkSt x f2 px stt) tx).
Proof.
  start_lexer parse_nqstring. sim_go.
  all: try (call parse_estring_simK).
  all: try (call parse_qstring_core_simK).
Qed.

Lemma parse_xb_string_simK digits : forall x pq px stt tq tx, pq = px + len pre -> trelK tq tx ->
  simR relLK (parse_xb_string digits (mkSt (pre ++ x) f1 pq stt) tq) (parse_xb_string digits (mkSt x f2 px stt) tx).
Proof.
  start_lexer parse_xb_string. sim_go.
  all: try (call parse_word_simK).
Qed.

Lemma parse_money_simK : forall x pq px stt tq tx, pq = px + len pre -> trelK tq tx ->
  simR relLK (parse_money (mkSt (pre ++ x) f1 pq stt) tq) (parse_money (mkSt x f2 px stt) tx).
Proof.
  start_lexer parse_money. sim_go.
  all: try (call parse_word_simK).




Qed.

Lemma parse_number_simK : forall x pq px stt tq tx, pq = px + len pre -> trelK tq tx ->
  simR relLK (parse_number (mkSt (pre ++ x) f1 pq stt) tq) (parse_number (mkSt x f2 px stt) tx).
Proof.
  start_lexer parse_number. simp. sim_step. simp. sim_step.
  { sim_go. }
  simp. destruct a2 as [|d0 ds].
  - (* decimal *)
    sim_step. simp. sim_step; [sim_go|]. simp.
    eapply simR_bind with (R := fun a1 a2 => a1 = a2 + len pre); [sim_go; lia|intros ? frac ? _; subst].
    simp. sim_step; simp.
    + sim_go.
    + sim_step; [sim_go|]. simp.
      eapply simR_bind with (R := fun a1 a2 => fst a1 = fst a2 + len pre /\ snd a1 = snd a2).
      { sim_go; cbn [fst snd]; split; try reflexivity; lia. }
      intros [p1 he1] [p2 he2] [E1 E2] _. cbn [fst snd] in E1, E2. subst. simp.
      sim_step; [sim_go|]. simp.
      eapply simR_bind with (R := fun a1 a2 => a1 = a2 + len pre); [sim_go; lia|intros ? p3 ? _; subst].
      sim_go.
  - sim_go.
Qed.



(* ---------- the dispatched lexer, tokenize ---------- *)

Lemma run_parser_simK id : forall x pq px stt tq tx, pq = px + len pre -> trelK tq tx ->
  simR relLK (run_parser id (mkSt (pre ++ x) f1 pq stt) tq) (run_parser id (mkSt x f2 px stt) tx).
Proof.
  destruct id; cbn [run_parser]; unfold parse_qstring, parse_xstring, parse_bstring.
  - apply parse_white_simK.
  - apply parse_operator1_simK.
  - apply parse_operator2_simK.
  - apply parse_string_simK.
  - apply parse_hash_simK.
  - apply parse_money_simK.
  - apply parse_byte_simK.
  - apply parse_dash_simK.
  - apply parse_number_simK.
  - apply parse_slash_simK.
  - apply parse_other_simK.
  - apply parse_var_simK.
  - apply parse_word_simK.
  - apply parse_xb_string_simK.
  - apply parse_estring_simK.
  - apply parse_nqstring_simK.
  - apply parse_qstring_core_simK.
  - apply parse_ustring_simK.
  - apply parse_xb_string_simK.
  - apply parse_bword_simK.
  - apply parse_backslash_simK.
  - apply parse_tick_simK.
Qed.

(* related results of tokenize: same `more`, twin states, a reported token is
   the same token len pre bytes further to the right, and (new w.r.t.
   QuoteBase.relT) when no token is reported the two token slots are still
   trelK-related *)
Definition relTK (rq rx : bool * token * sqlst) : Prop :=
  fst (fst rq) = fst (fst rx) /\ twinK (snd rq) (snd rx) /\
  (fst (fst rx) = true -> snd (fst rq) = shiftk (len pre) (snd (fst rx))) /\
  (fst (fst rx) = false -> trelK (snd (fst rq)) (snd (fst rx))).

Lemma tokenize_loop_simK : forall fuelx fuelq, (fuelx <= fuelq)%nat ->
  forall x pq px stt tq tx, pq = px + len pre -> trelK tq tx ->
  simR relTK (tokenize_loop fuelq (mkSt (pre ++ x) f1 pq stt) tq) (tokenize_loop fuelx (mkSt x f2 px stt) tx).
Proof.
  induction fuelx as [|fuelx IH]; intros fuelq F x pq px stt tq tx -> Ht.
  - cbn [tokenize_loop]. simp. destruct (px <? len x) eqn:E; [apply simR_fail_fuel|].
    destruct fuelq; cbn [tokenize_loop]; simp; (destruct (px + len pre <? len pre + len x) eqn:E2; [lia|]);
      apply simR_ret; unfold relTK, twinK; cbn [fst snd input flags pos st]; splits; auto; try discriminate; intros _; exact Ht.
  - destruct fuelq as [|fuelq]; [lia|]. cbn [tokenize_loop]. unfold at_. sim_go.
    + eapply simR_bind; [apply run_parser_simK; [reflexivity|exact Ht]|].
      intros [[[iq fq pq sq] tq'] npq] [[[ix fx px' sx] tx'] npx] RL _.
      unfold relLK, twinK in RL. cbn [fst snd input flags pos st] in RL.
      destruct RL as ((? & ? & ? & ? & ?) & T & ?). subst.
      assert (Ec : t_cat tq' = t_cat tx') by (destruct T as ((_ & _ & C & _) & _); exact C).
      rewrite Ec. simp. destruct (negb (beq (t_cat tx') x00)) eqn:En.
      * apply simR_ret. unfold relTK, twinK, bump_tokens. simp. cbn [fst snd]. simp. splits; auto.
        { intros _. apply trelK_shift; [exact T|]. intros E0. rewrite E0 in En. discriminate En. }
        all: try discriminate.
      * apply IH; [lia|reflexivity|exact T].
    + unfold relTK, twinK; cbn [fst snd input flags pos st]; splits; auto; try discriminate; intros _; exact Ht.
Qed.

End ShiftK.

Print Assumptions tokenize_loop_simK.
