(* RefHtmlProofs: the Go-mirroring model of the HTML5 tokenizer and of the XSS
   classifier (Html5.v, Xss.v) computes exactly the independently written
   specification Ref (Spec/RefHtml.v), for every input and each of the five
   start contexts (C07). *)
From Coq Require Import List ZArith String Bool Lia ZifyBool.
From Coq.Strings Require Import Byte.
From LI Require Import Prelude Base Html5 Xss Proofs.BaseFacts Proofs.Wp Proofs.LexBase
  Spec.StringSpec Proofs.StringProofs Spec.H5TermSpec Proofs.H5TermProofs Proofs.H5Spec
  Spec.DecodeSpec Proofs.DecodeProofs Spec.RefHtml.
From LIGen Require Import Consts.
Import ListNotations.
Local Open Scope Z_scope.

(* ================================================================== *)
(* 1. characters                                                       *)
(* ================================================================== *)

Lemma white_eq b : is_h5_white b = is_space b.
Proof.
  assert (K : Bool.eqb (is_h5_white b) (is_space b) = true).
  { revert b. apply byte_sweep. vm_compute. reflexivity. }
  apply eqb_prop in K. exact K.
Qed.

Lemma skip_white_eq b : is_skip_white b = is_blank b.
Proof.
  assert (K : Bool.eqb (is_skip_white b) (is_blank b) = true).
  { revert b. apply byte_sweep. vm_compute. reflexivity. }
  apply eqb_prop in K. exact K.
Qed.

Lemma letter_eq b : is_letter b = is_ascii_letter b.
Proof. unfold is_letter, is_ascii_letter. apply orb_comm. Qed.

Lemma code_not_eof b : (code b =? c_byte_eof) = false.
Proof. pose proof (code_range b). unfold c_byte_eof. lia. Qed.

(* ================================================================== *)
(* 2. break                                                            *)
(* ================================================================== *)

Lemma break_spec stop l :
  l = fst (break stop l) ++ snd (break stop l) /\
  span (fun b => negb (stop b)) l = len (fst (break stop l)) /\
  forallb (fun b => negb (stop b)) (fst (break stop l)) = true /\
  match snd (break stop l) with [] => True | b :: _ => stop b = true end.
Proof.
  induction l as [|b l (E & Sp & Fa & Hd)]; cbn [break span].
  - cbn. splits; reflexivity || exact I.
  - destruct (stop b) eqn:Sb; cbn [negb].
    + cbn [fst snd app forallb]. rewrite len_nil. splits; try reflexivity. exact Sb.
    + destruct (break stop l) as [a t]. cbn [fst snd app forallb] in *. rewrite Sb. cbn [negb andb].
      rewrite len_cons, <- Sp, <- E. splits; try reflexivity; assumption.
Qed.

Lemma break_eq stop l a t : break stop l = (a, t) ->
  l = a ++ t /\ span (fun b => negb (stop b)) l = len a /\
  forallb (fun b => negb (stop b)) a = true /\
  match t with [] => True | b :: _ => stop b = true end.
Proof. intros E. pose proof (break_spec stop l) as H. rewrite E in H. exact H. Qed.

(* ================================================================== *)
(* 3. reading the input through `body`                                 *)
(* ================================================================== *)

Lemma drop_body site h : 0 <= hpos h <= hlen h -> drop site (hs h) (hpos h) = Ok (body h).
Proof. intros H. unfold hlen in H. rewrite drop_ok by lia. reflexivity. Qed.

Lemma get_body site h a b t : 0 <= hpos h -> body h = a ++ b :: t ->
  get site (hs h) (hpos h + len a) = Ok b.
Proof.
  intros Hp E. pose proof (len_nonneg a). apply get_skipn; [lia|lia|].
  fold (body h). rewrite E. apply nth_mid. reflexivity.
Qed.

Lemma get_body0 site h b t : 0 <= hpos h -> body h = b :: t -> get site (hs h) (hpos h) = Ok b.
Proof.
  intros Hp E. pose proof (get_body site h [] b t Hp E) as G. rewrite len_nil, Z.add_0_r in G. exact G.
Qed.

Lemma body_nonempty h b t : 0 <= hpos h <= hlen h -> body h = b :: t -> hpos h < hlen h.
Proof. intros H E. pose proof (body_len h H) as L. rewrite E, len_cons in L. pose proof (len_nonneg t). lia. Qed.

Lemma body_empty h : 0 <= hpos h <= hlen h -> body h = [] -> hpos h = hlen h.
Proof. intros H E. pose proof (body_len h H) as L. rewrite E, len_nil in L. lia. Qed.

Lemma body_app_len h a t : 0 <= hpos h <= hlen h -> body h = a ++ t -> hlen h - hpos h = len a + len t.
Proof. intros H E. pose proof (body_len h H) as L. rewrite E, len_app in L. lia. Qed.

Lemma body_advance h a t k : 0 <= hpos h -> body h = a ++ t -> k = len a ->
  skipn (Z.to_nat (hpos h + k)) (hs h) = t.
Proof. intros Hp E Hk. apply (skipn_step (hs h) (hpos h) k a t); assumption. Qed.

(* ================================================================== *)
(* 4. what a model step has to look like for a Ref step                *)
(* ================================================================== *)

(* the model state h sits in Ref mode m with c bytes consumed *)
Definition at_mode (m : mode) (c : Z) (h : h5) : Prop :=
  match m with
  | MDone => hstate h = SEOF
  | MText => hstate h = SData /\ hpos h = c
  | MTag => hstate h = STagOpen /\ hpos h = c + 1
  | MGt => hstate h = STagNameClose /\ hpos h = c
  | MSlash => hstate h = SSelfClosingStartTag /\ hpos h = c + 1
  | MAttrs => hstate h = SBeforeAttributeName /\ hpos h = c
  | MAfterName => hstate h = SAfterAttributeName /\ hpos h = c
  | MBeforeValue => hstate h = SBeforeAttributeValue /\ hpos h = c /\ 1 <= c
  | MAfterQuoted => hstate h = SAfterAttributeValueQuoted /\ hpos h = c
  | MQuoted q => is_quote_state (hstate h) /\ quote_of (hstate h) = q /\ hpos h = c /\ c = 0
  end.

(* the result r of a model step is what the Ref step e says, for an input s
   of which `base` bytes were consumed before the step *)
Definition matches (s : bytes) (base : Z) (e : option emitted) (r : bool * h5) : Prop :=
  match e with
  | None => fst r = false
  | Some (kd, off, ln, adv, next, cl) =>
      fst r = true /\ hs (snd r) = s /\
      tok_type (snd r) = kind_code kd /\ tok_off (snd r) = base + off /\ tok_len (snd r) = ln /\
      is_close (snd r) = cl /\ at_mode next (base + adv) (snd r) /\ 0 <= adv
  end.

Ltac simp_rec :=
  unfold with_pos, with_close, with_state in *;
  cbn [hs hpos is_close hstate tok_off tok_len tok_type fst snd] in *.

(* close a goal `matches s base (Emit ...) (true, mkH5 ...)` *)
Ltac emit_matches :=
  unfold matches, Emit; try apply wp_Ok; cbn beta; simp_rec; cbn [at_mode kind_code]; simp_rec;
  splits; try reflexivity; try lia.

Lemma wp_emit site h off tlen ty npos st cl (Q : bool * h5 -> Prop) :
  0 <= off <= hlen h -> Q (true, mkH5 (hs h) npos cl st off tlen ty) ->
  wp (emit site h off tlen ty npos st cl) Q.
Proof. intros H HQ. rewrite emit_ok by exact H. exact HQ. Qed.

(* ---------- delimited constructs ---------- *)

Lemma delimited_matches h base k cpos kd ty next nextm w eofpos close content cl :
  cpos = base + k -> ty = kind_code kd -> is_close h = cl -> len content = hlen h - cpos ->
  0 <= k -> 0 <= w -> (forall i, close = Some i -> 0 <= i) ->
  (forall h' c, hstate h' = next -> hpos h' = c -> at_mode nextm c h') ->
  matches (hs h) base (delimited_tok kd k content close w nextm cl)
          (true, delimited h cpos ty next w eofpos close).
Proof.
  intros -> -> <- L Hk Hw Hi Hn. destruct close as [i|]; cbn [delimited_tok delimited].
  - specialize (Hi i eq_refl). unfold closed_at, matches, Emit. simp_rec. splits; try reflexivity; try lia.
    apply Hn; cbn [hstate hpos]; [reflexivity|lia].
  - unfold unclosed, matches, Emit. simp_rec. cbn [at_mode]. pose proof (len_nonneg content).
    splits; try reflexivity; lia.
Qed.

Lemma first_byte_nonneg c l i : first_byte c l = Some i -> 0 <= i.
Proof. apply first_match_nonneg. Qed.

Lemma mode_text h' c : hstate h' = SData -> hpos h' = c -> at_mode MText c h'.
Proof. intros A B. split; assumption. Qed.

Lemma mode_after_quoted h' c : hstate h' = SAfterAttributeValueQuoted -> hpos h' = c -> at_mode MAfterQuoted c h'.
Proof. intros A B. split; assumption. Qed.

(* ================================================================== *)
(* 5. the states that call no other state                              *)
(* ================================================================== *)

Lemma tag_name_sim d h k :
  0 <= hpos h <= hlen h -> 0 <= k ->
  wp (h5_call (S d) STagName h) (matches (hs h) (hpos h - k) (tag_name k (body h) (is_close h))).
Proof.
  intros Hp Hk. cbn [h5_call]. rewrite drop_body by exact Hp. cbn [bind].
  rewrite (span_ext _ (fun b => negb (ends_tag_name b)))
    by (intros b; unfold ends_tag_name; rewrite white_eq; reflexivity).
  unfold tag_name. destruct (break ends_tag_name (body h)) as [a t] eqn:B.
  apply break_eq in B. destruct B as (E & Sp & _ & Hd). rewrite Sp.
  pose proof (body_app_len h a t Hp E) as L. pose proof (len_nonneg a).
  destruct t as [|b t].
  - rewrite len_nil in L. destruct (hpos h + len a <? hlen h) eqn:C; [lia|].
    apply wp_emit; [lia|]. emit_matches.
  - rewrite len_cons in L. pose proof (len_nonneg t). destruct (hpos h + len a <? hlen h) eqn:C; [|lia].
    rewrite (get_body _ h a b t) by (lia || exact E). cbn [bind]. rewrite white_eq.
    destruct (is_space b) eqn:W.
    + apply wp_emit; [lia|]. emit_matches.
    + change b_byte_slash with x2f. destruct (beq b x2f) eqn:S.
      * apply wp_emit; [lia|]. emit_matches.
      * destruct (is_close h); apply wp_emit; try lia; emit_matches.
Qed.

Lemma unquoted_sim d h k :
  0 <= hpos h <= hlen h -> 0 <= k ->
  wp (h5_call (S d) SAttributeValueNoQuote h)
     (matches (hs h) (hpos h - k) (unquoted_value k (body h) (is_close h))).
Proof.
  intros Hp Hk. cbn [h5_call]. rewrite drop_body by exact Hp. cbn [bind].
  rewrite (span_ext _ (fun b => negb (ends_unquoted b)))
    by (intros b; unfold ends_unquoted; rewrite white_eq; reflexivity).
  unfold unquoted_value. destruct (break ends_unquoted (body h)) as [a t] eqn:B.
  apply break_eq in B. destruct B as (E & Sp & _ & Hd). rewrite Sp.
  pose proof (body_app_len h a t Hp E) as L. pose proof (len_nonneg a).
  destruct t as [|b t].
  - rewrite len_nil in L. destruct (hpos h + len a <? hlen h) eqn:C; [lia|].
    apply wp_emit; [lia|]. emit_matches.
  - rewrite len_cons in L. pose proof (len_nonneg t). destruct (hpos h + len a <? hlen h) eqn:C; [|lia].
    rewrite (get_body _ h a b t) by (lia || exact E). cbn [bind]. rewrite white_eq.
    destruct (is_space b) eqn:W; apply wp_emit; try lia; emit_matches.
Qed.

Lemma attr_name_sim d h k :
  0 <= hpos h < hlen h -> 0 <= k ->
  wp (h5_call (S d) SAttributeName h)
     (matches (hs h) (hpos h - k) (attr_name k (body h) (is_close h))).
Proof.
  intros Hp Hk. assert (Hp' : 0 <= hpos h <= hlen h) by lia.
  pose proof (body_len h Hp') as Lb.
  destruct (body h) as [|b0 l'] eqn:Eb; [rewrite len_nil in Lb; lia|].
  cbn [h5_call]. destruct (hpos h + 1 <=? hlen h) eqn:C1; [|lia].
  unfold hlen in *. rewrite drop_ok by lia. cbn [bind].
  rewrite (body_advance h [b0] l' 1) by (lia || exact Eb || reflexivity).
  rewrite (span_ext _ (fun b => negb (ends_attr_name b)))
    by (intros b; unfold ends_attr_name; rewrite white_eq; reflexivity).
  unfold attr_name. destruct (break ends_attr_name l') as [a t] eqn:B.
  apply break_eq in B. destruct B as (E & Sp & _ & Hd). rewrite Sp.
  assert (E2 : body h = (b0 :: a) ++ t) by (rewrite Eb, E; reflexivity).
  rewrite len_cons, E, len_app in Lb. pose proof (len_nonneg a).
  destruct t as [|b t].
  - rewrite len_nil in Lb. destruct (hpos h + 1 + len a <? len (hs h)) eqn:C; [lia|].
    apply wp_emit; [unfold hlen; lia|]. emit_matches.
  - rewrite len_cons in Lb. pose proof (len_nonneg t).
    destruct (hpos h + 1 + len a <? len (hs h)) eqn:C; [|lia].
    replace (hpos h + 1 + len a) with (hpos h + len (b0 :: a)) by (rewrite len_cons; lia).
    rewrite (get_body _ h (b0 :: a) b t) by (lia || exact E2). cbn [bind]. rewrite white_eq.
    rewrite len_cons.
    change b_byte_slash with x2f. change b_byte_equals with x3d.
    destruct (is_space b) eqn:W; [apply wp_emit; [unfold hlen; lia|]; emit_matches|].
    destruct (beq b x2f) eqn:S1; [apply wp_emit; [unfold hlen; lia|]; emit_matches|].
    destruct (beq b x3d) eqn:S2; apply wp_emit; try (unfold hlen; lia); emit_matches.
Qed.

Lemma tag_end_sim d h k :
  0 <= hpos h < hlen h -> 0 <= k ->
  wp (h5_call (S d) STagNameClose h) (matches (hs h) (hpos h - k) (tag_end k (body h))).
Proof.
  intros Hp Hk. assert (Hp' : 0 <= hpos h <= hlen h) by lia.
  pose proof (body_len h Hp') as Lb.
  destruct (body h) as [|b0 r] eqn:Eb; [rewrite len_nil in Lb; lia|].
  rewrite len_cons in Lb. pose proof (len_nonneg r).
  cbn [h5_call tag_end]. apply wp_emit; [lia|].
  destruct r as [|b1 r].
  - rewrite len_nil in Lb. destruct (hpos h + 1 <? hlen h) eqn:C; [lia|]. emit_matches.
  - rewrite len_cons in Lb. pose proof (len_nonneg r).
    destruct (hpos h + 1 <? hlen h) eqn:C; [|lia]. emit_matches.
Qed.

(* character data that does not begin with '<' *)
Lemma text_run_sim d h k :
  0 <= hpos h <= hlen h -> 0 <= k -> (forall t, body h <> x3c :: t) ->
  wp (h5_call (S d) SData h) (matches (hs h) (hpos h - k) (text_run k (body h) (is_close h))).
Proof.
  intros Hp Hk N. cbn [h5_call]. rewrite drop_body by exact Hp. cbn [bind].
  unfold text_run. rewrite first_byte_index. change b_byte_lt with x3c.
  pose proof (body_len h Hp) as Lb.
  destruct (index_byte_cases (body h) x3c) as [[I _]|[I F]].
  - rewrite I. change (-1 =? -1) with true. cbv iota.
    unfold emit. rewrite drop_ok by (unfold hlen in *; lia). cbn [bind snd].
    destruct (body h) as [|b0 r] eqn:Eb.
    + rewrite len_nil in Lb. destruct (hlen h - hpos h =? 0) eqn:C; [|lia]. reflexivity.
    + rewrite len_cons in *. pose proof (len_nonneg r). destruct (hlen h - hpos h =? 0) eqn:C; [lia|].
      emit_matches.
  - destruct (index_byte (body h) x3c =? -1) eqn:C; [lia|].
    unfold emit. rewrite drop_ok by (unfold hlen in *; lia). cbn [bind snd].
    destruct (index_byte (body h) x3c =? 0) eqn:C0.
    + exfalso. assert (I0 : index_byte (body h) x3c = 0) by lia. rewrite I0 in F.
      destruct (body h) as [|b0 r]; [discriminate|]. cbn in F. inversion F; subst. exact (N r eq_refl).
    + emit_matches.
Qed.

(* a quoted value inside a tag: the byte at hpos is the opening quote *)
Lemma quoted_in_tag_sim d f h c r k :
  is_quote_state f -> 0 < hpos h <= hlen h -> body h = c :: r -> 0 <= k ->
  wp (h5_call (S d) f h)
     (matches (hs h) (hpos h + 1 - k) (quoted_value (quote_of f) k r (is_close h))).
Proof.
  intros Hf Hp Eb Hk. assert (Hp' : 0 <= hpos h <= hlen h) by lia.
  pose proof (body_len h Hp') as Lb. rewrite Eb, len_cons in Lb. pose proof (len_nonneg r).
  rewrite quoted_value_term_in_tag by (assumption || lia).
  rewrite (body_advance h [c] r 1) by (lia || exact Eb || reflexivity).
  cbn [wp]. unfold quoted_value. apply delimited_matches; try reflexivity; try lia.
  - intros i. apply first_byte_nonneg.
  - apply mode_after_quoted.
Qed.

(* a quoted context: the input begins inside the value *)
Lemma quoted_context_sim d f h :
  is_quote_state f -> hpos h = 0 ->
  wp (h5_call (S d) f h) (matches (hs h) 0 (quoted_value (quote_of f) 0 (hs h) (is_close h))).
Proof.
  intros Hf Hp. rewrite quoted_value_term_context by assumption.
  cbn [wp]. unfold quoted_value. apply delimited_matches; try reflexivity; try lia.
  - unfold hlen. lia.
  - intros i. apply first_byte_nonneg.
  - apply mode_after_quoted.
Qed.


(* ================================================================== *)
(* 6. inside a tag                                                     *)
(* ================================================================== *)

Lemma skip_white_body h : 0 <= hpos h <= hlen h ->
  skip_white h =
  Ok (match snd (break (fun b => negb (is_blank b)) (body h)) with [] => c_byte_eof | b :: _ => code b end,
      with_pos h (hpos h + len (fst (break (fun b => negb (is_blank b)) (body h))))).
Proof.
  intros Hp. unfold skip_white. rewrite drop_body by exact Hp. cbn [bind].
  rewrite (span_ext _ (fun b => negb (negb (is_blank b))))
    by (intros b; rewrite skip_white_eq, negb_involutive; reflexivity).
  destruct (break (fun b => negb (is_blank b)) (body h)) as [a t] eqn:B.
  apply break_eq in B. destruct B as (E & Sp & _ & Hd). rewrite Sp. cbn [fst snd].
  pose proof (body_app_len h a t Hp E) as L. pose proof (len_nonneg a).
  destruct t as [|b t].
  - rewrite len_nil in L. destruct (hpos h + len a <? hlen h) eqn:C; [lia|]. reflexivity.
  - rewrite len_cons in L. pose proof (len_nonneg t). destruct (hpos h + len a <? hlen h) eqn:C; [|lia].
    rewrite (get_body _ h a b t) by (lia || exact E). reflexivity.
Qed.

Lemma attrs_blanks blanks : forall k t cl,
  forallb (fun b => negb (negb (is_blank b))) blanks = true ->
  attrs k (blanks ++ t) cl = attrs (k + len blanks) t cl.
Proof.
  induction blanks as [|b blanks IH]; intros k t cl F.
  - rewrite len_nil, Z.add_0_r. reflexivity.
  - cbn [forallb] in F. apply andb_true_iff in F. destruct F as [Fb F]. rewrite negb_involutive in Fb.
    cbn [app attrs]. rewrite Fb. rewrite IH by exact F. rewrite len_cons. f_equal. lia.
Qed.

Lemma body_with_pos h p : body (with_pos h p) = skipn (Z.to_nat p) (hs h).
Proof. reflexivity. Qed.

Definition ban_k (d : nat) (r : ban_out) : res (bool * h5) :=
  match r with BanDone r => Ok r | BanCall f h => h5_call d f h end.

Lemma eq_gt_code b : (code b =? c_byte_gt) = beq b x3e.
Proof. reflexivity. Qed.
Lemma eq_slash_code b : (code b =? c_byte_slash) = beq b x2f.
Proof. reflexivity. Qed.
Lemma eq_equals_code b : (code b =? c_byte_equals) = beq b x3d.
Proof. reflexivity. Qed.

Lemma ban_loop_sim d fuel : forall h k,
  0 <= hpos h <= hlen h -> 0 <= k -> hlen h - hpos h < Z.of_nat fuel ->
  wp (bind (before_attr_name_loop fuel h) (ban_k (S d)))
     (matches (hs h) (hpos h - k) (attrs k (body h) (is_close h))).
Proof.
  induction fuel as [|fuel IH]; intros h k Hp Hk Hf; [lia|].
  cbn [before_attr_name_loop]. pose proof (body_len h Hp) as Lb.
  destruct (hpos h <? hlen h) eqn:C.
  2:{ assert (Eb : body h = []) by (apply len_zero_nil; lia). rewrite Eb. cbn. reflexivity. }
  rewrite skip_white_body by exact Hp.
  destruct (break (fun b => negb (is_blank b)) (body h)) as [blanks t] eqn:B.
  apply break_eq in B. destruct B as (E & _ & Fb & Hd). cbn [fst snd bind].
  rewrite E, attrs_blanks by exact Fb.
  rewrite E, len_app in Lb. pose proof (len_nonneg blanks) as Hbl.
  set (k1 := k + len blanks).
  destruct t as [|b t].
  - change (c_byte_eof =? c_byte_eof) with true. cbv iota. cbn. reflexivity.
  - rewrite len_cons in Lb. pose proof (len_nonneg t) as Ht.
    apply negb_true_iff in Hd. rewrite code_not_eof, eq_slash_code, eq_gt_code.
    cbn [attrs]. rewrite Hd.
    assert (B2 : body (with_pos h (hpos h + len blanks)) = b :: t).
    { rewrite body_with_pos. apply (body_advance h blanks (b :: t)); [lia|exact E|reflexivity]. }
    destruct (beq b x2f) eqn:S1.
    + (* a slash *)
      unfold hlen in *. simp_rec.
      assert (B3 : skipn (Z.to_nat (hpos h + len blanks + 1)) (hs h) = t).
      { replace (hpos h + len blanks + 1) with (hpos h + (len blanks + 1)) by lia.
        apply (body_advance h (blanks ++ [b]) t); [lia| |rewrite len_app, len_cons, len_nil; lia].
        rewrite E, <- app_assoc. reflexivity. }
      destruct t as [|c t].
      * rewrite len_nil in Lb. destruct (hpos h + len blanks + 1 <? len (hs h)) eqn:C2; [unfold hlen in *; lia|].
        cbn [bind ban_k h5_call]. unfold hlen in *. simp_rec.
        destruct (len (hs h) <=? hpos h + len blanks + 1) eqn:C3; [|unfold hlen in *; lia]. cbn. reflexivity.
      * rewrite len_cons in Lb. pose proof (len_nonneg t) as Ht2.
        destruct (hpos h + len blanks + 1 <? len (hs h)) eqn:C2; [|unfold hlen in *; lia].
        assert (G : forall site, get site (hs h) (hpos h + len blanks + 1) = Ok c).
        { intros site. replace (hpos h + len blanks + 1) with (hpos h + len (blanks ++ [b])) by (rewrite len_app, len_cons, len_nil; lia).
          apply (get_body site h (blanks ++ [b]) c t); [lia|]. rewrite E, <- app_assoc. reflexivity. }
        rewrite G. cbn [bind]. change b_byte_gt with x3e.
        destruct (beq c x3e) eqn:S2; cbn [negb].
        -- cbn [bind ban_k h5_call]. unfold hlen in *. simp_rec.
           destruct (len (hs h) <=? hpos h + len blanks + 1) eqn:C3; [unfold hlen in *; lia|].
           rewrite G. cbn [bind]. change b_byte_gt with x3e. rewrite S2.
           apply wp_emit; [simp_rec; unfold hlen in *; cbn [hs]; lia|]. subst k1. emit_matches.
        -- eapply wp_conseq.
           ++ apply (IH (mkH5 (hs h) (hpos h + len blanks + 1) (is_close h) (hstate h) (tok_off h) (tok_len h) (tok_type h)) (k1 + 1));
                unfold hlen in *; cbn [hs hpos]; lia.
           ++ intros r. unfold body. cbn [hs hpos is_close]. rewrite B3.
              replace (hpos h + len blanks + 1 - (k1 + 1)) with (hpos h - k) by (subst k1; lia).
              exact (fun x => x).
    + destruct (beq b x3e) eqn:S2.
      * (* '>' *)
        apply wp_bind. apply wp_bind. apply wp_emit; [simp_rec; unfold hlen in *; cbn [hs]; lia|].
        apply wp_Ok. cbn [ban_k]. subst k1. emit_matches.
      * cbn [bind ban_k].
        eapply wp_conseq.
        -- apply (attr_name_sim d (with_pos h (hpos h + len blanks)) k1);
             [unfold hlen, with_pos in *; cbn [hs hpos]; lia|subst k1; lia].
        -- intros r. rewrite B2. simp_rec.
           replace (hpos h + len blanks - k1) with (hpos h - k) by (subst k1; lia).
           exact (fun x => x).
Qed.


Lemma attrs_sim d h k :
  0 <= hpos h <= hlen h -> 0 <= k ->
  wp (h5_call (S (S d)) SBeforeAttributeName h)
     (matches (hs h) (hpos h - k) (attrs k (body h) (is_close h))).
Proof.
  intros Hp Hk. rewrite h5_call_BAN.
  apply (ban_loop_sim d (loop_fuel h) h k Hp Hk). apply loop_fuel_enough. lia.
Qed.

Lemma matches_base s b1 b2 e r : b1 = b2 -> matches s b1 e r -> matches s b2 e r.
Proof. intros ->. exact (fun x => x). Qed.

Lemma after_slash_sim d h k :
  1 <= hpos h <= hlen h -> 0 <= k ->
  wp (h5_call (S (S (S d))) SSelfClosingStartTag h)
     (matches (hs h) (hpos h - 1 - k) (after_slash k (body h) (is_close h))).
Proof.
  intros Hp Hk. assert (Hp' : 0 <= hpos h <= hlen h) by lia. pose proof (body_len h Hp') as Lb.
  open_call. unfold after_slash. destruct (body h) as [|c r] eqn:Eb.
  - rewrite len_nil in Lb. destruct (hlen h <=? hpos h) eqn:C; [|lia]. cbn. reflexivity.
  - rewrite len_cons in Lb. pose proof (len_nonneg r). destruct (hlen h <=? hpos h) eqn:C; [lia|].
    rewrite (get_body0 _ h c r) by (lia || exact Eb). cbn [bind]. change b_byte_gt with x3e.
    destruct (beq c x3e) eqn:S.
    + apply wp_emit; [lia|]. emit_matches.
    + eapply wp_conseq; [apply (attrs_sim d h (k + 1)); lia|].
      intros r0. rewrite Eb. apply matches_base. lia.
Qed.

Lemma body_step h c r : 0 <= hpos h -> body h = c :: r -> body (with_pos h (hpos h + 1)) = r.
Proof.
  intros Hp E. rewrite body_with_pos. apply (body_advance h [c] r 1); [lia|exact E|reflexivity].
Qed.

Lemma after_quoted_sim d h :
  0 <= hpos h <= hlen h ->
  wp (h5_call (S (S (S (S d)))) SAfterAttributeValueQuoted h)
     (matches (hs h) (hpos h) (after_quoted (body h) (is_close h))).
Proof.
  intros Hp. pose proof (body_len h Hp) as Lb.
  open_call. unfold after_quoted. destruct (body h) as [|c r] eqn:Eb.
  - rewrite len_nil in Lb. destruct (hlen h <=? hpos h) eqn:C; [|lia]. cbn. reflexivity.
  - rewrite len_cons in Lb. pose proof (len_nonneg r). destruct (hlen h <=? hpos h) eqn:C; [lia|].
    rewrite (get_body0 _ h c r) by (lia || exact Eb). cbn [bind]. rewrite white_eq.
    change b_byte_gt with x3e. change b_byte_slash with x2f.
    pose proof (body_step h c r ltac:(lia) Eb) as B2.
    destruct (is_space c) eqn:W.
    { eapply wp_conseq; [apply (attrs_sim (S d) (with_pos h (hpos h + 1)) 1); unfold hlen, with_pos in *; cbn [hs hpos]; lia|].
      intros r0. rewrite B2. simp_rec. apply matches_base. lia. }
    destruct (beq c x2f) eqn:S1.
    { eapply wp_conseq; [apply (after_slash_sim d (with_pos h (hpos h + 1)) 0); unfold hlen, with_pos in *; cbn [hs hpos]; lia|].
      intros r0. rewrite B2. simp_rec. apply matches_base. lia. }
    destruct (beq c x3e) eqn:S2.
    { apply wp_emit; [lia|]. emit_matches. }
    eapply wp_conseq; [apply (attrs_sim (S d) h 0); lia|].
    intros r0. rewrite Eb. apply matches_base. lia.
Qed.

Lemma eq_double_code b : (code b =? c_byte_double) = beq b x22.
Proof. reflexivity. Qed.
Lemma eq_single_code b : (code b =? c_byte_single) = beq b x27.
Proof. reflexivity. Qed.
Lemma eq_tick_code b : (code b =? c_byte_tick) = beq b x60.
Proof. reflexivity. Qed.

Lemma before_value_sim d h k :
  1 <= hpos h <= hlen h -> 0 <= k ->
  wp (h5_call (S (S d)) SBeforeAttributeValue h)
     (matches (hs h) (hpos h - k) (before_value k (body h) (is_close h))).
Proof.
  intros Hp Hk. assert (Hp' : 0 <= hpos h <= hlen h) by lia. pose proof (body_len h Hp') as Lb.
  open_call. rewrite skip_white_body by exact Hp'. unfold before_value.
  destruct (break (fun b => negb (is_blank b)) (body h)) as [blanks t] eqn:B.
  apply break_eq in B. destruct B as (E & _ & Fb & Hd). cbn [fst snd bind].
  rewrite E, len_app in Lb. pose proof (len_nonneg blanks) as Hbl.
  destruct t as [|c r].
  - change (c_byte_eof =? c_byte_eof) with true. cbv iota. cbn. reflexivity.
  - rewrite len_cons in Lb. pose proof (len_nonneg r) as Hr.
    rewrite code_not_eof, eq_double_code, eq_single_code, eq_tick_code.
    assert (B2 : body (with_pos h (hpos h + len blanks)) = c :: r).
    { rewrite body_with_pos. apply (body_advance h blanks (c :: r)); [lia|exact E|reflexivity]. }
    assert (Q : forall f, is_quote_state f -> quote_of f = c ->
              wp (h5_call (S d) f (with_pos h (hpos h + len blanks)))
                 (matches (hs h) (hpos h - k) (quoted_value c (k + len blanks + 1) r (is_close h)))).
    { intros f Hf Hq. eapply wp_conseq.
      - apply (quoted_in_tag_sim d f (with_pos h (hpos h + len blanks)) c r (k + len blanks + 1) Hf);
          [unfold hlen, with_pos in *; cbn [hs hpos]; lia|exact B2|lia].
      - intros r0. rewrite Hq. simp_rec. apply matches_base. lia. }
    unfold is_quote_byte.
    destruct (beq c x22) eqn:S1.
    { cbn [orb]. apply (Q SAttributeValueDoubleQuote); [right; left; reflexivity|].
      apply beq_eq in S1. subst c. reflexivity. }
    destruct (beq c x27) eqn:S2.
    { cbn [orb]. apply (Q SAttributeValueSingleQuote); [left; reflexivity|].
      apply beq_eq in S2. subst c. reflexivity. }
    destruct (beq c x60) eqn:S3.
    { cbn [orb]. apply (Q SAttributeValueBackQuote); [right; right; reflexivity|].
      apply beq_eq in S3. subst c. reflexivity. }
    cbn [orb].
    eapply wp_conseq.
    + apply (unquoted_sim d (with_pos h (hpos h + len blanks)) (k + len blanks));
        [unfold hlen, with_pos in *; cbn [hs hpos]; lia|lia].
    + intros r0. rewrite B2. simp_rec. apply matches_base. lia.
Qed.

Lemma after_name_sim d h :
  0 <= hpos h <= hlen h ->
  wp (h5_call (S (S (S (S d)))) SAfterAttributeName h)
     (matches (hs h) (hpos h) (after_name (body h) (is_close h))).
Proof.
  intros Hp. pose proof (body_len h Hp) as Lb.
  open_call. rewrite skip_white_body by exact Hp. unfold after_name.
  destruct (break (fun b => negb (is_blank b)) (body h)) as [blanks t] eqn:B.
  apply break_eq in B. destruct B as (E & _ & Fb & Hd). cbn [fst snd bind].
  rewrite E, len_app in Lb. pose proof (len_nonneg blanks) as Hbl.
  destruct t as [|c r].
  - change (c_byte_eof =? c_byte_eof) with true. cbv iota. cbn. reflexivity.
  - rewrite len_cons in Lb. pose proof (len_nonneg r) as Hr.
    rewrite code_not_eof, eq_slash_code, eq_equals_code, eq_gt_code.
    assert (B2 : body (with_pos h (hpos h + len blanks)) = c :: r).
    { rewrite body_with_pos. apply (body_advance h blanks (c :: r)); [lia|exact E|reflexivity]. }
    assert (B3 : body (with_pos (with_pos h (hpos h + len blanks)) (hpos h + len blanks + 1)) = r).
    { apply (body_step (with_pos h (hpos h + len blanks)) c r); [cbn [with_pos hpos]; lia|exact B2]. }
    destruct (beq c x2f) eqn:S1.
    { eapply wp_conseq.
      - apply (after_slash_sim d (with_pos (with_pos h (hpos h + len blanks)) (hpos h + len blanks + 1)) (len blanks));
          [unfold hlen, with_pos in *; cbn [hs hpos]; lia|lia].
      - intros r0. simp_rec. unfold with_pos in B3. cbn [hs hpos is_close hstate tok_off tok_len tok_type] in B3.
        rewrite B3. apply matches_base. lia. }
    destruct (beq c x3d) eqn:S2.
    { eapply wp_conseq.
      - apply (before_value_sim (S d) (with_pos (with_pos h (hpos h + len blanks)) (hpos h + len blanks + 1)) (len blanks + 1));
          [unfold hlen, with_pos in *; cbn [hs hpos]; lia|lia].
      - intros r0. simp_rec. unfold with_pos in B3. cbn [hs hpos is_close hstate tok_off tok_len tok_type] in B3.
        rewrite B3. apply matches_base. lia. }
    destruct (beq c x3e) eqn:S3.
    { eapply wp_conseq.
      - apply (tag_end_sim (S (S (S d))) (with_pos h (hpos h + len blanks)) (len blanks));
          [unfold hlen, with_pos in *; cbn [hs hpos]; lia|lia].
      - intros r0. rewrite B2. simp_rec. apply matches_base. lia. }
    eapply wp_conseq.
    + apply (attr_name_sim (S (S (S d))) (with_pos h (hpos h + len blanks)) (len blanks));
        [unfold hlen, with_pos in *; cbn [hs hpos]; lia|lia].
    + intros r0. rewrite B2. simp_rec. apply matches_base. lia.
Qed.


(* ================================================================== *)
(* 7. what a '<' opens                                                 *)
(* ================================================================== *)

Ltac dm TL TI :=
  apply delimited_matches;
  [ simp_rec; lia | reflexivity | (reflexivity || assumption) | TL | lia | lia
  | let i := fresh "i" in intros i; TI | apply mode_text ].

Lemma bogus_sim d h k cl :
  0 <= hpos h <= hlen h -> 0 <= k -> is_close h = cl ->
  wp (h5_call (S d) SBogusComment h)
     (matches (hs h) (hpos h - k)
        (delimited_tok KComment k (body h) (first_byte x3e (body h)) 1 MText cl)).
Proof.
  intros Hp Hk Hc. rewrite bogus_comment_term by exact Hp. cbn [wp].
  dm ltac:(apply body_len; exact Hp) ltac:(apply first_byte_nonneg).
Qed.

Lemma markup_sim d h :
  0 <= hpos h <= hlen h ->
  wp (h5_call (S (S d)) SMarkupDeclarationOpen h)
     (matches (hs h) (hpos h - 2) (markup_declaration (body h) (is_close h))).
Proof.
  intros Hp. pose proof (body_len h Hp) as Lb. unfold markup_declaration.
  destruct (md_classify (body h)) eqn:M.
  - rewrite markup_doctype_term by assumption. cbn [wp].
    dm ltac:(lia) ltac:(apply first_byte_nonneg).
  - rewrite markup_cdata_term by assumption. cbn [wp].
    apply md_classify_cdata in M. destruct M as [post M].
    assert (Sk : skipn (Z.to_nat (hpos h + 7)) (hs h) = post).
    { apply (body_advance h (bs "[CDATA[") post 7); [lia|exact M|reflexivity]. }
    rewrite Sk, M. change (skipn 7 (bs "[CDATA[" ++ post)) with post.
    rewrite M, len_app in Lb. change (len (bs "[CDATA[")) with 7 in Lb.
    dm ltac:(lia) ltac:(apply first_match_nonneg).
  - rewrite markup_comment_term by assumption. cbn [wp].
    apply md_classify_comment in M. destruct M as [post M].
    assert (Sk : skipn (Z.to_nat (hpos h + 2)) (hs h) = post).
    { apply (body_advance h (bs "--") post 2); [lia|exact M|reflexivity]. }
    rewrite Sk, M. change (skipn 2 (bs "--" ++ post)) with post.
    rewrite M, len_app in Lb. change (len (bs "--")) with 2 in Lb.
    destruct (comment_end post) as [[i w]|] eqn:Ce; cbn [delimited_comment fst snd].
    + apply comment_end_range in Ce. unfold closed_at. emit_matches.
    + unfold unclosed. pose proof (len_nonneg post). emit_matches.
  - rewrite markup_bogus_term by assumption. cbn [wp].
    dm ltac:(lia) ltac:(apply first_byte_nonneg).
Qed.

Lemma end_tag_sim d h :
  0 <= hpos h <= hlen h -> is_close h = true ->
  wp (h5_call (S (S d)) SEndTagOpen h) (matches (hs h) (hpos h - 2) (end_tag (body h))).
Proof.
  intros Hp Hc. pose proof (body_len h Hp) as Lb.
  open_call. unfold end_tag. destruct (body h) as [|c r] eqn:Eb.
  - rewrite len_nil in Lb. destruct (hlen h <=? hpos h) eqn:C; [|lia]. cbn. reflexivity.
  - rewrite len_cons in Lb. pose proof (len_nonneg r). destruct (hlen h <=? hpos h) eqn:C; [lia|].
    rewrite (get_body0 _ h c r) by (lia || exact Eb). cbn [bind]. rewrite letter_eq.
    change b_byte_gt with x3e.
    destruct (beq c x3e) eqn:S1.
    { eapply wp_conseq; [apply (text_run_sim d h 2 Hp); [lia|]|].
      - rewrite Eb. intros t0 F. inversion F; subst. discriminate S1.
      - intros r0. rewrite Eb, Hc. exact (fun x => x). }
    destruct (is_ascii_letter c) eqn:S2.
    { eapply wp_conseq; [apply (tag_name_sim d h 2 Hp); lia|].
      intros r0. rewrite Eb, Hc. exact (fun x => x). }
    eapply wp_conseq.
    + apply (bogus_sim d (with_close h false) 2 false); [exact Hp|lia|reflexivity].
    + intros r0. unfold body. simp_rec. fold (body h). rewrite Eb. exact (fun x => x).
Qed.

Lemma tag_open_sim d h c0 :
  1 <= hpos h <= hlen h ->
  wp (h5_call (S (S (S d))) STagOpen h)
     (matches (hs h) (hpos h - 1) (tag_open (c0 :: body h) (is_close h))).
Proof.
  intros Hp. assert (Hp' : 0 <= hpos h <= hlen h) by lia. pose proof (body_len h Hp') as Lb.
  open_call. unfold tag_open. destruct (body h) as [|c r] eqn:Eb.
  - rewrite len_nil in Lb. destruct (hlen h <=? hpos h) eqn:C; [|lia]. cbn. reflexivity.
  - rewrite len_cons in Lb. pose proof (len_nonneg r). destruct (hlen h <=? hpos h) eqn:C; [lia|].
    rewrite (get_body0 _ h c r) by (lia || exact Eb). cbn [bind]. rewrite letter_eq.
    change b_byte_bang with x21. change b_byte_slash with x2f. change b_byte_question with x3f.
    change b_byte_percent with x25. change b_byte_null with x00.
    pose proof (body_step h c r ltac:(lia) Eb) as B2.
    destruct (beq c x21) eqn:S1.
    { eapply wp_conseq; [apply (markup_sim d (with_pos h (hpos h + 1))); unfold hlen, with_pos in *; cbn [hs hpos]; lia|].
      intros r0. rewrite B2. simp_rec. apply matches_base. lia. }
    destruct (beq c x2f) eqn:S2.
    { eapply wp_conseq; [apply (end_tag_sim d (with_close (with_pos h (hpos h + 1)) true));
                         [unfold hlen, with_pos, with_close in *; cbn [hs hpos]; lia|reflexivity]|].
      intros r0. unfold body in *. simp_rec. rewrite B2. apply matches_base. lia. }
    destruct (beq c x3f) eqn:S3.
    { eapply wp_conseq; [apply (bogus_sim (S d) (with_pos h (hpos h + 1)) 2 (is_close h));
                         [unfold hlen, with_pos in *; cbn [hs hpos]; lia|lia|reflexivity]|].
      intros r0. rewrite B2. simp_rec. apply matches_base. lia. }
    destruct (beq c x25) eqn:S4.
    { rewrite bogus_comment2_term by (unfold hlen, with_pos in *; cbn [hs hpos]; lia). cbn [wp].
      rewrite B2. simp_rec.
      change (hs h) with (hs (with_pos h (hpos h + 1))).
      dm ltac:(unfold hlen in *; simp_rec; lia) ltac:(apply first_match_nonneg). }
    destruct (is_ascii_letter c || beq c x00) eqn:S5.
    { assert (T : wp (h5_call (S (S d)) STagName h)
                     (matches (hs h) (hpos h - 1) (tag_name 1 (c :: r) (is_close h)))).
      { eapply wp_conseq; [apply (tag_name_sim (S d) h 1 Hp'); lia|].
        intros r0. rewrite Eb. exact (fun x => x). }
      destruct (is_ascii_letter c); [exact T|]. cbn [orb] in S5. rewrite S5. exact T. }
    apply orb_false_iff in S5. destruct S5 as [S5 S6]. rewrite S5, S6.
    destruct (hpos h =? 0) eqn:C0; [lia|].
    apply wp_emit; [lia|]. emit_matches.
Qed.

Lemma data_sim d h :
  0 <= hpos h <= hlen h ->
  wp (h5_call (S (S (S (S d)))) SData h)
     (matches (hs h) (hpos h) (ref_step MText (body h) (is_close h))).
Proof.
  intros Hp. pose proof (body_len h Hp) as Lb. cbn [ref_step].
  destruct (body h) as [|c r] eqn:Eb.
  - eapply wp_conseq; [apply (text_run_sim (S (S (S d))) h 0 Hp); [lia|]|].
    + rewrite Eb. discriminate.
    + intros r0. rewrite Eb. apply matches_base. lia.
  - destruct (beq c x3c) eqn:S1.
    + apply beq_eq in S1. subst c. rewrite len_cons in Lb. pose proof (len_nonneg r).
      open_call. rewrite drop_body by exact Hp. cbn [bind]. rewrite Eb.
      change (index_byte (x3c :: r) b_byte_lt) with 0. change (0 =? -1) with false. cbv iota.
      unfold emit at 1. rewrite drop_ok by (unfold hlen in *; lia). cbn [bind snd].
      change (0 =? 0) with true. cbv iota.
      eapply wp_conseq.
      * apply (tag_open_sim d (mkH5 (hs h) (hpos h + 0 + 1) (is_close h) STagOpen (hpos h) 0 c_html5_type_data_text) x3c).
        unfold hlen in *. cbn [hs hpos]. lia.
      * intros r0. unfold body at 1. cbn [hs hpos is_close].
        replace (hpos h + 0 + 1) with (hpos h + 1) by lia.
        rewrite (body_advance h [x3c] r 1) by (lia || exact Eb || reflexivity).
        apply matches_base. lia.
    + eapply wp_conseq; [apply (text_run_sim (S (S (S d))) h 0 Hp); [lia|]|].
      * rewrite Eb. intros t0 F. inversion F; subst. discriminate S1.
      * intros r0. rewrite Eb. apply matches_base. lia.
Qed.


(* ================================================================== *)
(* 8. one step of the tokenizer is one step of Ref                     *)
(* ================================================================== *)

(* the abstraction relation: the model state h (over the input s) and the Ref
   state (mode m, c bytes consumed, rest l, pending flag cl) *)
Definition R (s : bytes) (h : h5) (m : mode) (c : Z) (l : bytes) (cl : bool) : Prop :=
  hs h = s /\ is_close h = cl /\ at_mode m c h /\
  (m <> MDone -> 0 <= c <= len s /\ l = skipn (Z.to_nat c) s).

Lemma skipn_head (s : bytes) c : 0 <= c < len s ->
  exists b, skipn (Z.to_nat c) s = b :: skipn (Z.to_nat (c + 1)) s.
Proof.
  intros H. destruct (skipn (Z.to_nat c) s) as [|b t] eqn:E.
  - pose proof (len_skipn_le s c ltac:(lia)) as L. rewrite E, len_nil in L. lia.
  - exists b. f_equal. symmetry. apply (skipn_step s c 1 [b] t); [lia|reflexivity|exact E].
Qed.

Theorem step_sim s h m c l cl :
  h5_ok h -> R s h m c l cl -> wp (h5_next h) (matches s c (ref_step m l cl)).
Proof.
  intros K (Es & Ec & Am & Hl). unfold h5_next, h5_depth. unfold h5_ok in K. subst s cl.
  destruct m; cbn [at_mode] in Am;
    try (destruct (Hl ltac:(discriminate)) as [Hc El]);
    try (match type of Am with _ /\ _ => destruct Am as [St Ep] end); try rewrite St in *; cbn [st_ok] in K.
  - (* MText *)
    eapply wp_conseq; [apply (data_sim 4 h); lia|].
    intros r. unfold body. rewrite Ep, <- El. exact (fun x => x).
  - (* MTag *)
    destruct (skipn_head (hs h) c ltac:(unfold hlen in *; lia)) as [b0 Eh].
    eapply wp_conseq; [apply (tag_open_sim 5 h b0); lia|].
    intros r. cbn [ref_step]. unfold body. rewrite Ep, El, Eh. apply matches_base. lia.
  - (* MGt *)
    eapply wp_conseq; [apply (tag_end_sim 7 h 0); lia|].
    intros r. cbn [ref_step]. unfold body. rewrite Ep, <- El. apply matches_base. lia.
  - (* MSlash *)
    destruct (skipn_head (hs h) c ltac:(unfold hlen in *; lia)) as [b0 Eh].
    eapply wp_conseq; [apply (after_slash_sim 5 h 0); lia|].
    intros r. cbn [ref_step]. unfold body. rewrite Ep, El, Eh. apply matches_base. lia.
  - (* MAttrs *)
    eapply wp_conseq; [apply (attrs_sim 6 h 0); lia|].
    intros r. cbn [ref_step]. unfold body. rewrite Ep, <- El. apply matches_base. lia.
  - (* MAfterName *)
    eapply wp_conseq; [apply (after_name_sim 4 h); lia|].
    intros r. cbn [ref_step]. unfold body. rewrite Ep, <- El. exact (fun x => x).
  - (* MBeforeValue *)
    destruct Ep as [Ep C1].
    eapply wp_conseq; [apply (before_value_sim 6 h 0); lia|].
    intros r. cbn [ref_step]. unfold body. rewrite Ep, <- El. apply matches_base. lia.
  - (* MAfterQuoted *)
    eapply wp_conseq; [apply (after_quoted_sim 4 h); lia|].
    intros r. cbn [ref_step]. unfold body. rewrite Ep, <- El. exact (fun x => x).
  - (* MQuoted *)
    rename St into Hf. destruct Ep as (Hq & Ep & C0). rewrite C0 in *. cbn [Z.to_nat skipn] in El. subst l.
    eapply wp_conseq; [apply (quoted_context_sim 7 (hstate h) h Hf Ep)|].
    intros r. cbn [ref_step]. rewrite Hq. exact (fun x => x).
  - (* MDone *)
    rewrite Am. cbn. reflexivity.
Qed.

(* the Ref state after the step is related to the model state after the step *)
Lemma matches_R s c l kd off ln adv next cl' h' :
  0 <= c <= len s -> l = skipn (Z.to_nat c) s ->
  matches s c (Some (kd, off, ln, adv, next, cl')) (true, h') -> h5_ok h' ->
  R s h' next (c + adv) (skipn (Z.to_nat adv) l) cl'.
Proof.
  intros Hc El (_ & Es & _ & _ & _ & Ecl & Am & Ha) K. cbn [fst snd] in *.
  unfold R. splits; try assumption.
  intros Nd. split.
  - unfold h5_ok, hlen in K. rewrite Es in K.
    destruct next; cbn [at_mode] in Am; try contradiction;
      try (destruct Am as [St Ep]; rewrite St in K; cbn [st_ok] in K; lia).
    destruct Am as (_ & _ & _ & C0). lia.
  - subst l. rewrite Z.add_comm. rewrite <- skipn_skipn_Z by lia. f_equal. lia.
Qed.


(* ================================================================== *)
(* 9. the token stream                                                 *)
(* ================================================================== *)

(* one step of both machines, with what the safety proof (H5Spec) knows *)
Lemma step_both s h m c l cl :
  h5_ok h -> R s h m c l cl ->
  exists more h', h5_next h = Ok (more, h') /\ matches s c (ref_step m l cl) (more, h') /\
                  next_post h (more, h').
Proof.
  intros K Rh.
  pose proof (wp_and _ _ _ (step_sim s h m c l cl K Rh) (h5_next_spec h K)) as W.
  apply wp_inv in W. destruct W as ([more h'] & E & M & P). exists more, h'. splits; assumption.
Qed.

Lemma tokens_lock s n : forall fm fr h m c l cl acc,
  R s h m c l cl -> h5_ok h -> Phi h < Z.of_nat n -> (n <= fm)%nat -> (n <= fr)%nat ->
  h5_tokens_loop fm h acc = Ok (rev acc ++ ref_run fr m c l cl).
Proof.
  induction n as [|n IH]; intros fm fr h m c l cl acc Rh K F Hm Hr.
  { pose proof (Phi_nonneg h K). lia. }
  destruct fm as [|fm]; [lia|]. destruct fr as [|fr]; [lia|].
  cbn [h5_tokens_loop ref_run].
  destruct (step_both s h m c l cl K Rh) as (more & h' & E & M & P). rewrite E. cbn [bind].
  destruct (ref_step m l cl) as [[[[[[kd off] ln] adv] next] cl']|] eqn:St.
  - pose proof M as M0. destruct M as (Em & _ & Ety & Eoff & Eln & _). cbn [fst snd] in *. subst more.
    destruct P as (P1 & P2 & P3). destruct (P3 eq_refl) as (_ & _ & _ & _ & A5).
    assert (Nd : m <> MDone) by (intros ->; discriminate St).
    destruct Rh as (_ & _ & _ & Hl). destruct (Hl Nd) as [Hc El].
    rewrite (IH fm fr h' next (c + adv) (skipn (Z.to_nat adv) l) cl');
      [|apply (matches_R s c l kd off ln adv next cl' h'); assumption|exact P2|lia|lia|lia].
    rewrite Ety, Eoff, Eln. cbn [rev]. rewrite <- app_assoc. reflexivity.
  - cbn [matches fst] in M. subst more. rewrite app_nil_r. reflexivity.
Qed.

Lemma init_R s fl : 0 <= fl <= 4 -> R s (h5_init s fl) (start_mode fl) 0 s false.
Proof.
  intros H. pose proof (len_nonneg s).
  assert (C : fl = 0 \/ fl = 1 \/ fl = 2 \/ fl = 3 \/ fl = 4) by lia.
  unfold R.
  destruct C as [->|[->|[->|[->| ->]]]]; cbn; splits; try reflexivity; try lia;
    try (intros _; split; [lia|reflexivity]).
  - left; reflexivity.
  - right; left; reflexivity.
  - right; right; reflexivity.
Qed.

(* MAIN THEOREM 1: the token stream of the model is the token stream of Ref *)
Theorem h5_tokens_ref : forall s fl, 0 <= fl <= 4 -> h5_tokens s fl = Ok (ref_tokens fl s).
Proof.
  intros s fl H. destruct (h5_init_ok s fl H) as [K B]. unfold h5_tokens, ref_tokens.
  rewrite (tokens_lock s (S (S (List.length s))) (h5_fuel s) (S (S (List.length s)))
             (h5_init s fl) (start_mode fl) 0 s false []);
    [reflexivity|apply init_R; exact H|exact K|unfold len in B; lia|unfold h5_fuel; lia|lia].
Qed.


(* the step budget of Ref is enough: a larger one gives the same token stream *)
Corollary ref_fuel_enough : forall s fl fuel, 0 <= fl <= 4 -> (S (S (List.length s)) <= fuel)%nat ->
  ref_run fuel (start_mode fl) 0 s false = ref_tokens fl s.
Proof.
  intros s fl fuel H Hf. destruct (h5_init_ok s fl H) as [K B].
  pose proof (tokens_lock s (S (S (List.length s))) (h5_fuel s) fuel
                (h5_init s fl) (start_mode fl) 0 s false [] (init_R s fl H) K
                ltac:(unfold len in B; lia) ltac:(unfold h5_fuel; lia) Hf) as E1.
  pose proof (h5_tokens_ref s fl H) as E2. unfold h5_tokens in E2. rewrite E1 in E2.
  cbn [rev app] in E2. inversion E2. reflexivity.
Qed.

(* ================================================================== *)
(* 10. the classification rules                                        *)
(* ================================================================== *)

(* ---------- names ---------- *)

Lemma fold_name_eq v : upper_without_nulls v = fold_name v.
Proof. reflexivity. Qed.

Lemma black_tag_eq v : is_black_tag v = ref_is_black_tag v.
Proof.
  unfold is_black_tag, ref_is_black_tag. rewrite fold_name_eq. destruct (len v <? 3) eqn:C.
  - replace (3 <=? len v) with false by lia. reflexivity.
  - replace (3 <=? len v) with true by lia. cbn [andb].
    destruct (fold_name v) as [u|]; [|reflexivity].
    unfold listed. rewrite existsb_app. cbn [existsb]. rewrite orb_false_r, orb_assoc. reflexivity.
Qed.

Lemma lookup_assoc u l : assoc_type u l = lookup u l.
Proof.
  unfold lookup. induction l as [|[k v] l IH]; cbn [assoc_type find fst]; [reflexivity|].
  destruct (bytes_eqb u k); [reflexivity|exact IH].
Qed.

Lemma black_attr_eq v : is_black_attr v = ref_attr_type v.
Proof.
  unfold is_black_attr, ref_attr_type. rewrite fold_name_eq.
  destruct (fold_name v) as [u|]; [|reflexivity].
  destruct (len u <? 2) eqn:C2; [reflexivity|].
  destruct (5 <=? len u) eqn:C5; cbn [andb].
  - destruct (bytes_eqb u (bs "XMLNS") || bytes_eqb u (bs "XLINK")); [reflexivity|].
    destruct u as [|o [|n ev]]; [rewrite len_nil in C2; lia|rewrite len_cons, len_nil in C2; lia|].
    cbn [firstn skipn event_type]. change (bs "ON") with [x4f; x4e]. cbn [bytes_eqb].
    rewrite andb_true_r.
    destruct (beq o x4f && beq n x4e).
    + rewrite !lookup_assoc. destruct (lookup ev black_events); reflexivity.
    + cbn [or_else]. rewrite lookup_assoc. reflexivity.
  - cbn [or_else]. rewrite lookup_assoc. reflexivity.
Qed.

(* ---------- URL values ---------- *)

Lemma trim_eq v : trim_left_junk v = drop_while is_junk v.
Proof.
  induction v as [|b v IH]; cbn [trim_left_junk drop_while]; [reflexivity|].
  fold (is_junk b). destruct (is_junk b); [exact IH|reflexivity].
Qed.

Lemma decoded_skip : forall l k, decoded_values k l = decoded_values 0 (skipn k l).
Proof.
  induction l as [|b l IH]; intros k.
  - destruct k; reflexivity.
  - destruct k as [|k]; [reflexivity|]. cbn [decoded_values skipn]. apply IH.
Qed.

(* what the matcher keeps of a list of decoded values *)
Definition kept (first : bool) (vals : list Z) : bytes :=
  map (fun x => byte_of_Z (upper_value x))
      (filter (fun x => negb ((x =? 0) || (x =? 10)))
              (if first then drop_while (fun x => x <=? 32) vals else vals)).

Lemma kept_nil first : kept first [] = [].
Proof. destruct first; reflexivity. Qed.

Lemma starts_with_loop_ref fuel : forall l first acc, (List.length l <= fuel)%nat ->
  starts_with_loop fuel l first acc = Ok (rev acc ++ kept first (decoded_values 0 l)).
Proof.
  induction fuel as [|fuel IH]; intros l first acc Hf.
  - destruct l; [|cbn in Hf; lia]. cbn [starts_with_loop decoded_values]. rewrite kept_nil, app_nil_r. reflexivity.
  - cbn [starts_with_loop]. destruct l as [|c0 r0].
    { cbn [decoded_values]. rewrite kept_nil, app_nil_r. reflexivity. }
    assert (L : 0 <? len (c0 :: r0) = true) by (rewrite len_cons; pose proof (len_nonneg r0); lia).
    rewrite L. rewrite html_decode_byte_at_ref.
    destruct (decode_ref_bounds (c0 :: r0)) as (_ & B & _). specialize (B ltac:(discriminate)).
    cbn [decoded_values].
    destruct (decode_ref (c0 :: r0)) as [v n]. cbn [fst snd bind] in *.
    rewrite drop_ok by lia. cbn [bind].
    rewrite decoded_skip.
    assert (Sk : skipn (Z.to_nat n) (c0 :: r0) = skipn (Z.to_nat n - 1) r0).
    { destruct (Z.to_nat n) as [|n'] eqn:En; [lia|]. cbn [skipn]. replace (S n' - 1)%nat with n' by lia. reflexivity. }
    rewrite Sk.
    assert (Hl : (List.length (skipn (Z.to_nat n - 1) r0) <= fuel)%nat).
    { rewrite skipn_length. cbn [List.length] in Hf. lia. }
    set (vals := decoded_values 0 (skipn (Z.to_nat n - 1) r0)).
    destruct (first && (v <=? 32)) eqn:C1.
    + rewrite IH by exact Hl. apply andb_true_iff in C1. destruct C1 as [-> C1].
      unfold kept. cbn [drop_while]. rewrite C1. reflexivity.
    + assert (K1 : kept first (v :: vals) = kept false (v :: vals)).
      { destruct first; [|reflexivity]. cbn [andb] in C1. unfold kept. cbn [drop_while]. rewrite C1. reflexivity. }
      rewrite K1.
      destruct ((v =? 0) || (v =? 10)) eqn:C2.
      * rewrite IH by exact Hl. unfold kept. cbn [filter]. rewrite C2. reflexivity.
      * rewrite IH by exact Hl. unfold kept. cbn [filter]. rewrite C2. cbn [negb map rev].
        rewrite <- app_assoc. reflexivity.
Qed.

Lemma contains_occurs l pat : contains l pat = occurs pat l.
Proof.
  unfold contains, occurs. rewrite index_first_match.
  destruct (first_match pat l) as [i|] eqn:F; [|reflexivity].
  apply first_match_nonneg in F. lia.
Qed.

Lemma any_scheme_ref urls str :
  any_scheme urls str
  = Ok (existsb (fun scheme => occurs scheme (kept true (decoded_values 0 str))) urls).
Proof.
  induction urls as [|u urls IH]; cbn [any_scheme existsb]; [reflexivity|].
  unfold html_encode_starts_with. rewrite starts_with_loop_ref by lia. cbn [bind rev app].
  rewrite contains_occurs. destruct (occurs u _); [reflexivity|exact IH].
Qed.

Lemma black_url_eq v : is_black_url v = Ok (ref_black_url v).
Proof. unfold is_black_url. rewrite any_scheme_ref, trim_eq. reflexivity. Qed.


(* ---------- comments ---------- *)

Lemma get_app0 site (c : byte) l : get site (c :: l) 0 = Ok c.
Proof. reflexivity. Qed.

(* the "[IF" / "XML" test; start = the token text v followed by the rest of the input *)
Lemma comment_r1_eq v rest' n : len v = n ->
  (if 3 <? n then
     (c0 <- get "isXSS:tokenStart[0]" (v ++ rest') 0 ;;
      is_if <- (if beq c0 x5b then
                  (w <- slice "isXSS:tokenStart[1:3]" (v ++ rest') 1 3 ;; Ok (to_upper_cmp (bs "IF") w))
                else Ok false) ;;
      if (is_if : bool) then Ok true
      else (w <- slice "isXSS:tokenStart[0:3]" (v ++ rest') 0 3 ;; Ok (to_upper_cmp (bs "XML") w)))
   else Ok false)
  = Ok ((3 <? len v) &&
        (match v with
         | c :: w => beq c x5b && folds_to (firstn 2 w) (bs "IF")
         | [] => false
         end
         || folds_to (firstn 3 v) (bs "XML"))).
Proof.
  intros L. rewrite L. destruct (3 <? n) eqn:C; [|reflexivity]. cbn [andb].
  destruct v as [|c0 [|c1 [|c2 [|c3 v]]]];
    try (rewrite ?len_cons, ?len_nil in L; lia).
  cbn [app]. rewrite get_app0. cbn [bind].
  assert (S13 : forall site, slice site (c0 :: c1 :: c2 :: c3 :: v ++ rest') 1 3 = Ok [c1; c2]).
  { intros site. rewrite slice_ok; [reflexivity|lia|].
    rewrite !len_cons. pose proof (len_nonneg (v ++ rest')). lia. }
  assert (S03 : forall site, slice site (c0 :: c1 :: c2 :: c3 :: v ++ rest') 0 3 = Ok [c0; c1; c2]).
  { intros site. rewrite slice_ok; [reflexivity|lia|].
    rewrite !len_cons. pose proof (len_nonneg (v ++ rest')). lia. }
  rewrite S03. cbn [bind firstn]. unfold folds_to, to_upper_cmp.
  destruct (beq c0 x5b); cbn [andb orb bind].
  - rewrite S13. cbn [bind]. destruct (match go_upper_view [c1; c2] with Some u => bytes_eqb (bs "IF") u | None => false end); reflexivity.
  - reflexivity.
Qed.

(* the IMPORT / ENTITY test *)
Lemma comment_r2_eq v rest' n : len v = n ->
  (if 5 <? n then
     (w <- take "isXSS:tokenStart[:6]" (v ++ rest') 6 ;;
      match upper_without_nulls w with
      | Some u => Ok (bytes_eqb u (bs "IMPORT") || bytes_eqb u (bs "ENTITY"))
      | None => Ok false
      end)
   else Ok false)
  = Ok ((5 <? len v) &&
        match fold_name (firstn 6 v) with
        | Some u => bytes_eqb u (bs "IMPORT") || bytes_eqb u (bs "ENTITY")
        | None => false
        end).
Proof.
  intros L. rewrite L. destruct (5 <? n) eqn:C; [|reflexivity]. cbn [andb].
  destruct v as [|c0 [|c1 [|c2 [|c3 [|c4 [|c5 v]]]]]];
    try (rewrite ?len_cons, ?len_nil in L; lia).
  rewrite take_ok by (cbn [app]; rewrite !len_cons; pose proof (len_nonneg (v ++ rest')); lia).
  cbn [bind]. change (Z.to_nat 6) with 6%nat. cbn [app firstn]. rewrite fold_name_eq.
  destruct (fold_name [c0; c1; c2; c3; c4; c5]); reflexivity.
Qed.

(* ---------- one token ---------- *)

Lemma classify_ref h attr :
  0 <= tok_off h -> 0 <= tok_len h -> tok_off h + tok_len h <= hlen h ->
  exists a,
    classify h attr
    = Ok (if token_fires (hs h) attr (tok_type h, tok_off h, tok_len h) then Some true else None, a) /\
    (token_fires (hs h) attr (tok_type h, tok_off h, tok_len h) = false ->
     a = attr_after (hs h) (tok_type h, tok_off h, tok_len h)).
Proof.
  intros H1 H2 H3. unfold hlen in H3.
  unfold classify, token_fires, attr_after, token_text, token_type. cbn [fst snd kind_code].
  rewrite drop_ok by lia. cbn [bind].
  set (start := skipn (Z.to_nat (tok_off h)) (hs h)).
  assert (Ls : len start = len (hs h) - tok_off h) by (unfold start; rewrite len_skipn_le; lia).
  set (v := firstn (Z.to_nat (tok_len h)) start).
  assert (Tk : forall site, take site start (tok_len h) = Ok v) by (intros site; apply take_ok; lia).
  assert (Lv : len v = tok_len h) by (unfold v; rewrite len_firstn_le; lia).
  assert (Ev : start = v ++ skipn (Z.to_nat (tok_len h)) start) by (unfold v; rewrite firstn_skipn; reflexivity).
  rewrite !Tk. cbn [bind].
  unfold c_html5_type_doc_type, c_html5_type_tag_name_open, c_html5_type_attr_name,
         c_html5_type_attr_value, c_html5_type_tag_comment.
  destruct (tok_type h =? 9) eqn:T9.
  { eexists. split; [reflexivity|discriminate]. }
  destruct (tok_type h =? 1) eqn:T1.
  { replace (tok_type h =? 7) with false by lia. replace (tok_type h =? 6) with false by lia.
    cbn [negb]. rewrite black_tag_eq.
    destruct (ref_is_black_tag v); eexists; (split; [reflexivity|]); [discriminate|reflexivity]. }
  destruct (tok_type h =? 6) eqn:T6.
  { replace (tok_type h =? 7) with false by lia. replace (tok_type h =? 8) with false by lia.
    cbn [negb]. rewrite black_attr_eq. eexists. split; reflexivity. }
  destruct (tok_type h =? 7) eqn:T7.
  { cbn [negb]. unfold value_fires.
    unfold c_attribute_type_none, c_attribute_type_black, c_attribute_type_attr_url,
           c_attribute_type_style, c_attribute_type_attr_indirect.
    destruct (attr =? 0) eqn:A0.
    { replace (attr =? 1) with false by lia. replace (attr =? 2) with false by lia.
      replace (attr =? 3) with false by lia. replace (attr =? 4) with false by lia.
      eexists. split; reflexivity. }
    destruct (attr =? 1) eqn:A1; [eexists; split; [reflexivity|discriminate]|].
    destruct (attr =? 2) eqn:A2.
    { rewrite black_url_eq. cbn [bind].
      destruct (ref_black_url v); eexists; (split; [reflexivity|]); [discriminate|reflexivity]. }
    destruct (attr =? 3) eqn:A3; [eexists; split; [reflexivity|discriminate]|].
    destruct (attr =? 4) eqn:A4; [|eexists; split; reflexivity].
    rewrite black_attr_eq.
    destruct (ref_attr_type v =? 1); eexists; (split; [reflexivity|]); [discriminate|reflexivity]. }
  destruct (tok_type h =? 8) eqn:T8; [|eexists; split; reflexivity].
  cbn [negb]. unfold ref_comment_fires. rewrite first_byte_index.
  destruct (index_byte v x60 =? -1) eqn:Ib; cbn [negb];
    [|eexists; split; [reflexivity|discriminate]].
  cbn [orb]. rewrite Ev. rewrite (comment_r1_eq v _ (tok_len h) Lv). cbn [bind].
  destruct ((3 <? len v) && _) eqn:R1; [eexists; split; [reflexivity|discriminate]|].
  rewrite (comment_r2_eq v _ (tok_len h) Lv). cbn [bind orb].
  destruct ((5 <? len v) && _) eqn:R2; eexists; (split; [reflexivity|]); [discriminate|reflexivity].
Qed.


(* ================================================================== *)
(* 11. the verdict                                                     *)
(* ================================================================== *)

(* the verdict read with an early exit, as the loop of isXSS computes it *)
Fixpoint scan (s : bytes) (attr : Z) (toks : list (Z * Z * Z)) : bool :=
  match toks with
  | [] => false
  | t :: ts => token_fires s attr t || scan s (attr_after s t) ts
  end.

Lemma fold_fired s toks : forall attr, snd (fold_left (observe s) toks (attr, true)) = true.
Proof. induction toks as [|t ts IH]; intros attr; cbn [fold_left observe orb]; [reflexivity|apply IH]. Qed.

Lemma scan_fold s toks : forall attr,
  snd (fold_left (observe s) toks (attr, false)) = scan s attr toks.
Proof.
  induction toks as [|t ts IH]; intros attr; cbn [fold_left observe scan orb]; [reflexivity|].
  destruct (token_fires s attr t); cbn [orb]; [apply fold_fired|apply IH].
Qed.

Lemma xss_lock s n : forall fm fr h m c l cl attr,
  R s h m c l cl -> h5_ok h -> Phi h < Z.of_nat n -> (n <= fm)%nat -> (n <= fr)%nat ->
  xss_loop fm h attr = Ok (scan s attr (ref_run fr m c l cl)).
Proof.
  induction n as [|n IH]; intros fm fr h m c l cl attr Rh K F Hm Hr.
  { pose proof (Phi_nonneg h K). lia. }
  destruct fm as [|fm]; [lia|]. destruct fr as [|fr]; [lia|].
  cbn [xss_loop ref_run].
  destruct (step_both s h m c l cl K Rh) as (more & h' & E & M & P). rewrite E. cbn [bind].
  destruct (ref_step m l cl) as [[[[[[kd off] ln] adv] next] cl']|] eqn:St.
  - pose proof M as M0. destruct M as (Em & Es & Ety & Eoff & Eln & _). cbn [fst snd] in *. subst more.
    destruct P as (P1 & P2 & P3). destruct (P3 eq_refl) as (A1 & A2 & A3 & _ & A5).
    assert (Nd : m <> MDone) by (intros ->; discriminate St).
    destruct Rh as (_ & _ & _ & Hl). destruct (Hl Nd) as [Hc El].
    destruct (classify_ref h' attr A1 A2 A3) as (a & Ec & Ea).
    rewrite Ec, Es, Ety, Eoff, Eln in *. cbn [bind scan].
    destruct (token_fires s attr (kind_code kd, c + off, ln)); cbn [orb]; [reflexivity|].
    rewrite (Ea eq_refl).
    apply (IH fm fr h' next (c + adv) (skipn (Z.to_nat adv) l) cl');
      [apply (matches_R s c l kd off ln adv next cl' h'); assumption|exact P2|lia|lia|lia].
  - cbn [matches fst] in M. subst more. reflexivity.
Qed.

(* MAIN THEOREM 2: the verdict of the model in one context is the verdict of Ref *)
Theorem xss_ctx_ref : forall s fl, 0 <= fl <= 4 -> xss_ctx s fl = Ok (ref_verdict fl s).
Proof.
  intros s fl H. destruct (h5_init_ok s fl H) as [K B]. unfold xss_ctx, ref_verdict, ref_tokens.
  rewrite scan_fold.
  apply (xss_lock s (S (S (List.length s))) (h5_fuel s) (S (S (List.length s)))
           (h5_init s fl) (start_mode fl) 0 s false);
    [apply init_R; exact H|exact K|unfold len in B; lia|unfold h5_fuel; lia|lia].
Qed.

(* MAIN THEOREM 3: IsXSS is the disjunction of the five Ref verdicts *)
Theorem is_xss_ref : forall s,
  is_xss s = Ok (existsb (fun fl => ref_verdict fl s) [0; 1; 2; 3; 4]).
Proof.
  intros s. unfold is_xss.
  unfold c_html5_flags_data_state, c_html5_flags_value_no_quote, c_html5_flags_value_single_quote,
         c_html5_flags_value_double_quote, c_html5_flags_value_back_quote.
  rewrite !xss_ctx_ref by lia. cbn [bind existsb].
  destruct (ref_verdict 0 s); [reflexivity|].
  destruct (ref_verdict 1 s); [reflexivity|].
  destruct (ref_verdict 2 s); [reflexivity|].
  destruct (ref_verdict 3 s); [reflexivity|].
  destruct (ref_verdict 4 s); reflexivity.
Qed.

Corollary is_xss_ref' : forall s, is_xss s = Ok (ref_is_xss s).
Proof. exact is_xss_ref. Qed.

Print Assumptions h5_tokens_ref.
Print Assumptions ref_fuel_enough.
Print Assumptions xss_ctx_ref.
Print Assumptions is_xss_ref.
