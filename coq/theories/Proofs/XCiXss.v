(* XCiXss: the XSS classifier on two inputs equal up to ASCII letter case
   (C11 a): the entity decoder, the URL-scheme test, the per-token classifier,
   the loop of isXSS, each injection context and IsXSS itself return the same
   result (value or failure) on both. *)
From Coq Require Import List ZArith String Bool Lia ZifyBool.
From Coq.Strings Require Import Byte.
From LI Require Import Prelude Base Html5 Xss Proofs.BaseFacts Proofs.LexBase
  Spec.XCiSpec Proofs.XCiBase Proofs.XCiH5.
From LIGen Require Import Tables Consts.
Import ListNotations.
Local Open Scope Z_scope.

(* ---------- byte facts used by the decoder ---------- *)

Definition opt_eqb (a b : option Z) : bool :=
  match a, b with
  | Some x, Some y => x =? y
  | None, None => true
  | _, _ => false
  end.

Lemma opt_eqb_eq a b : opt_eqb a b = true -> a = b.
Proof. destruct a, b; cbn; intros H; try discriminate; [f_equal; lia|reflexivity]. Qed.

(* the hex digit table has the same entry for the two cases of a letter *)
Lemma hex_val_cv site c c' : cvb c c' -> hex_val site c' = hex_val site c.
Proof.
  intros C.
  assert (S : forall b, nth_error hex_decode_map (Z.to_nat (code (upper_ascii b))) =
                        nth_error hex_decode_map (Z.to_nat (code b))).
  { intros b. apply opt_eqb_eq. revert b. apply byte_sweep. vm_compute. reflexivity. }
  unfold hex_val. rewrite <- (S c), <- (S c'). unfold cvb in C. rewrite C. reflexivity.
Qed.

Lemma cvb_isx b b' : cvb b b' -> (beq b' x78 || beq b' x58) = (beq b x78 || beq b x58).
Proof. apply (cvb_resp (fun x => beq x x78 || beq x x58)). vm_compute. reflexivity. Qed.

Lemma cvb_nondigit b b' : cvb b b' -> ((code b' <? 48) || (57 <? code b')) = ((code b <? 48) || (57 <? code b)).
Proof. apply (cvb_resp (fun x => (code x <? 48) || (57 <? code x))). vm_compute. reflexivity. Qed.

Lemma cvb_digit_eq b b' : cvb b b' -> (code b <? 48) || (57 <? code b) = false -> b' = b.
Proof.
  intros C D. apply cvb_nonalpha; [exact C|]. revert D. unfold is_alpha, is_lower, is_upper. lia.
Qed.

Lemma upz_leb32 z z' : upz z' = upz z -> (z' <=? 32) = (z <=? 32).
Proof.
  unfold upz. intros H.
  destruct ((97 <=? z') && (z' <=? 122)) eqn:E1; destruct ((97 <=? z) && (z <=? 122)) eqn:E2; lia.
Qed.

Lemma rel_bind_same {A B B'} (R : B -> B' -> Prop) (m : res A) k k' :
  (forall a, rel_res R (k a) (k' a)) -> rel_res R (bind m k) (bind m k').
Proof. intros H. destruct m; cbn; auto. Qed.

Ltac norm :=
  repeat match goal with
         | H : cv ?r ?r' |- context [len ?r'] => rewrite (cv_len r r' H)
         | H : cv ?r ?r' |- context [List.length ?r'] => rewrite (cv_length r r' H)
         | H : cv ?r ?r' |- context [index_byte ?r' ?c] => rewrite (cv_index_byte r r' c H eq_refl)
         | H : cvb ?b ?b' |- context [beq ?b' x78 || beq ?b' x58] => rewrite (cvb_isx b b' H)
         | H : cvb ?b ?b' |- context [(code ?b' <? 48) || (57 <? code ?b')] => rewrite (cvb_nondigit b b' H)
         | H : cvb ?b ?b' |- context [beq ?b' ?c] => rewrite (cvb_beq b b' c H eq_refl)
         | H : cvb ?b ?b' |- context [hex_val ?site ?b'] => rewrite (hex_val_cv site b b' H)
         | H : cv ?r ?r' |- context [to_upper_cmp ?k ?r'] => rewrite (cv_to_upper_cmp k r r' H)
         | H : upz ?z' = upz ?z |- context [?z' =? ?c] => rewrite (upz_eqb z z' c H eq_refl)
         | H : upz ?z' = upz ?z |- context [?z' <=? 32] => rewrite (upz_leb32 z z' H)
         end.

Ltac xs_step :=
  lazymatch goal with
  | |- rel_res _ (bind (drop _ _ _) _) (bind (drop _ _ _) _) =>
      eapply rel_bind; [apply rel_drop; assumption | intros ? ? ?]
  | |- rel_res _ (bind (take _ _ _) _) (bind (take _ _ _) _) =>
      eapply rel_bind; [apply rel_take; assumption | intros ? ? ?]
  | |- rel_res _ (bind (get _ _ _) _) (bind (get _ _ _) _) =>
      eapply rel_bind; [apply rel_get; assumption | intros ? ? ?]
  | |- rel_res _ (bind (slice _ _ _ _) _) (bind (slice _ _ _ _) _) =>
      eapply rel_bind; [apply rel_slice; assumption | intros ? ? ?]
  | |- rel_res _ (bind (hex_val ?site ?c) _) (bind (hex_val ?site ?c) _) =>
      apply rel_bind_same; intros ?
  | |- rel_res _ (bind (if ?c then _ else _) _) (bind (if ?c then _ else _) _) => destruct c eqn:?
  | |- rel_res _ (bind (Ok _) _) (bind (Ok _) _) => cbn [bind]
  | |- rel_res _ (bind (bind _ _) _) (bind (bind _ _) _) => rewrite !bind_assoc
  | |- rel_res _ (if ?c then _ else _) (if ?c then _ else _) => destruct c eqn:?
  | |- rel_res eq (Ok ?a) (Ok ?a) => reflexivity
  | |- rel_res _ OutOfFuel OutOfFuel => exact I
  end.

Ltac xs := norm; repeat (xs_step; norm).

(* ---------- htmlDecodeByteAt ---------- *)

Definition R_dec (r r' : Z * Z) : Prop := upz (fst r') = upz (fst r) /\ snd r' = snd r.

Lemma rel_decode_hex fuel : forall s s' i val, cv s s' ->
  rel_res eq (decode_hex_loop fuel s i val) (decode_hex_loop fuel s' i val).
Proof.
  induction fuel as [|fuel IH]; intros s s' i val H; cbn [decode_hex_loop]; xs.
  apply IH. exact H.
Qed.

Lemma rel_decode_dec fuel : forall s s' i val, cv s s' ->
  rel_res eq (decode_dec_loop fuel s i val) (decode_dec_loop fuel s' i val).
Proof.
  induction fuel as [|fuel IH]; intros s s' i val H; cbn [decode_dec_loop]; xs.
  match goal with
  | Hb : cvb ?b ?b', Hd : (code ?b <? 48) || (57 <? code ?b) = false |- _ =>
      rewrite (cvb_digit_eq b b' Hb Hd)
  end.
  xs. apply IH. exact H.
Qed.


Lemma rel_decode s s' : cv s s' -> rel_res R_dec (html_decode_byte_at s) (html_decode_byte_at s').
Proof.
  intros H. unfold html_decode_byte_at. xs.
  all: try (apply rel_Ok; split; reflexivity).
  - apply rel_Ok. split; [cbn [fst]; apply cvb_upz; assumption|reflexivity].
  - eapply rel_conseq; [apply rel_decode_hex; exact H|]. intros r r' ->. split; reflexivity.
  - match goal with
    | Hb : cvb ?b ?b', Hd : (code ?b <? 48) || (57 <? code ?b) = false |- _ =>
        rewrite (cvb_digit_eq b b' Hb Hd)
    end.
    eapply rel_conseq; [apply rel_decode_dec; exact H|]. intros r r' ->. split; reflexivity.
Qed.

(* ---------- htmlEncodeStartsWith, isBlackURL ---------- *)

Lemma rel_starts_with fuel : forall rest rest' first acc, cv rest rest' ->
  rel_res eq (starts_with_loop fuel rest first acc) (starts_with_loop fuel rest' first acc).
Proof.
  induction fuel as [|fuel IH]; intros rest rest' first acc H; cbn [starts_with_loop]; xs.
  eapply rel_bind; [apply rel_decode; exact H|].
  intros [cb n] [cb' n'] [Hz Hn]. cbn [fst snd] in Hz, Hn. subst n'. xs.
  - apply IH; assumption.
  - apply IH; assumption.
  - change (if (97 <=? cb') && (cb' <=? 122) then cb' - 32 else cb') with (upz cb').
    change (if (97 <=? cb) && (cb <=? 122) then cb - 32 else cb) with (upz cb).
    rewrite Hz. apply IH; assumption.
Qed.

Lemma html_encode_starts_with_cv a b b' : cv b b' ->
  html_encode_starts_with a b' = html_encode_starts_with a b.
Proof.
  intros H. apply rel_eq. unfold html_encode_starts_with. norm.
  eapply rel_bind; [apply rel_starts_with; exact H|]. intros d d' <-. reflexivity.
Qed.

Lemma any_scheme_cv urls str str' : cv str str' -> any_scheme urls str' = any_scheme urls str.
Proof.
  intros H. induction urls as [|u urls IH]; cbn [any_scheme]; [reflexivity|].
  rewrite (html_encode_starts_with_cv u str str' H), IH. reflexivity.
Qed.

Lemma cv_trim_left_junk s s' : cv s s' -> cv (trim_left_junk s) (trim_left_junk s').
Proof.
  intros H. induction H as [|b b' s s' Hb Hs IH]; [constructor|].
  cbn [trim_left_junk].
  rewrite (cvb_resp (fun x => (code x <=? 32) || (127 <=? code x)) b b' ltac:(vm_compute; reflexivity) Hb).
  destruct ((code b <=? 32) || (127 <=? code b)); [exact IH|constructor; assumption].
Qed.

Lemma is_black_url_cv s s' : cv s s' -> is_black_url s' = is_black_url s.
Proof. intros H. unfold is_black_url. apply any_scheme_cv, cv_trim_left_junk, H. Qed.

(* ---------- isBlackTag, isBlackAttr ---------- *)

Lemma upper_without_nulls_cv s s' : cv s s' -> upper_without_nulls s' = upper_without_nulls s.
Proof. intros H. unfold upper_without_nulls. apply cv_go_upper_view, cv_remove_nul, H. Qed.

Lemma is_black_tag_cv s s' : cv s s' -> is_black_tag s' = is_black_tag s.
Proof.
  intros H. unfold is_black_tag. rewrite (cv_len s s' H), (upper_without_nulls_cv s s' H). reflexivity.
Qed.

Lemma is_black_attr_cv s s' : cv s s' -> is_black_attr s' = is_black_attr s.
Proof. intros H. unfold is_black_attr. rewrite (upper_without_nulls_cv s s' H). reflexivity. Qed.

(* ---------- the loop body of isXSS ---------- *)

Lemma rel_classify s s' h attr : cv s s' -> hs h = s ->
  rel_res eq (classify h attr) (classify (reh s' h) attr).
Proof.
  intros H E. destruct h as [s0 p c st o l t]. cbn [hs] in E. subst s0.
  unfold classify, reh. cbn [hs hpos is_close hstate tok_off tok_len tok_type].
  eapply rel_bind; [apply rel_drop; exact H|]. intros start start' Hs.
  repeat (xs;
    repeat match goal with
           | Hc : cv ?r ?r' |- context [is_black_tag ?r'] => rewrite (is_black_tag_cv r r' Hc)
           | Hc : cv ?r ?r' |- context [is_black_attr ?r'] => rewrite (is_black_attr_cv r r' Hc)
           | Hc : cv ?r ?r' |- context [is_black_url ?r'] => rewrite (is_black_url_cv r r' Hc)
           | Hc : cv ?r ?r' |- context [upper_without_nulls ?r'] => rewrite (upper_without_nulls_cv r r' Hc)
           | |- rel_res _ (bind ?m _) (bind ?m _) => apply rel_bind_same; intros ?
           | |- rel_res _ (match ?m with Some _ => _ | None => _ end) (match ?m with Some _ => _ | None => _ end) =>
               destruct m
           end).
Qed.

(* ---------- the loop of isXSS, the contexts, IsXSS ---------- *)

Lemma rel_xss_loop s s' : cv s s' -> no_cdata_like s = true ->
  forall fuel h attr, inv s h -> rel_res eq (xss_loop fuel h attr) (xss_loop fuel (reh s' h) attr).
Proof.
  intros H N. induction fuel as [|fuel IH]; intros h attr Hi; [exact I|]. cbn [xss_loop].
  eapply rel_bind; [exact (rel_next s s' H N h Hi)|].
  intros [m h1] [m' h1'] (Hm & Hs & Hh & Hp). cbn [fst snd] in Hm, Hs, Hh, Hp. subst m' h1'.
  destruct m; [|reflexivity].
  eapply rel_bind; [exact (rel_classify s s' h1 attr H Hs)|].
  intros [r a] ra' <-. destruct r as [b|]; [reflexivity|].
  apply IH. split; [exact Hs|exact (Hp eq_refl)].
Qed.

(* per injection context (any flag value) *)
Theorem xss_ctx_cv s s' fl : cv s s' -> no_cdata_like s = true -> xss_ctx s' fl = xss_ctx s fl.
Proof.
  intros H N. apply rel_eq. unfold xss_ctx, h5_fuel. rewrite (cv_length s s' H).
  destruct (inv_init s s' fl) as [Hi E]. rewrite E. exact (rel_xss_loop s s' H N _ _ _ Hi).
Qed.

Theorem is_xss_cv s s' : cv s s' -> no_cdata_like s = true -> is_xss s' = is_xss s.
Proof.
  intros H N. unfold is_xss. rewrite !(xss_ctx_cv s s' _ H N). reflexivity.
Qed.

Print Assumptions xss_ctx_cv.
Print Assumptions is_xss_cv.
