(* ShapeSentence: benign words (each with an optional full stop) separated by
   " " or ", ", with an optional closing "!" or "?".  Every word is one bare-word
   token (the full stop belongs to the word), every comma one comma token, the
   closing mark one operator / unknown token at the very end.  The folder only
   ever applies  word , word -> word;  IsSQLi answers (false, ""). *)
From Coq Require Import List ZArith String Bool Lia ZifyBool.
From Coq.Strings Require Import Byte.
From LI Require Import Prelude Base SqliLex SqliFold Proofs.BaseFacts
  Spec.BenignSpec Proofs.BenignLex Spec.RefSqlLex Spec.RefSqlFold Spec.ShapeSpec
  Proofs.ShapeRules Proofs.ShapeCheck Proofs.ShapeLex.
From LIGen Require Import Tables Dispatch Consts.
Import ListNotations.
Local Open Scope Z_scope.

(* ---------- the pieces of a sentence ---------- *)

Definition dsuf (d : bool) : bytes := if d then [x2e] else [].

Lemma dotted_eq d w : dotted d w = w ++ dsuf d.
Proof. destruct d; cbn [dotted dsuf]; [reflexivity|rewrite app_nil_r; reflexivity]. Qed.

Lemma dsuf_opt d : dot_opt (dsuf d).
Proof. destruct d; [right|left]; reflexivity. Qed.

(* what follows the first word: the further words and the closing mark *)
Definition tailS (rest : list sword) (fin : bytes) : bytes := List.concat (map piece rest) ++ fin.

(* ... and its token classes *)
Definition pcls (x : sword) : list byte := (if fst x then [cComma] else []) ++ [cWord].
Definition fcls (fin : bytes) : list byte :=
  match fin with [] => [] | b :: _ => if beq b x21 then [cOp] else [cUnk] end.
Definition tcls (rest : list sword) (fin : bytes) : list byte := List.concat (map pcls rest) ++ fcls fin.

Definition Words (rest : list sword) : Prop := Forall (fun x => benign_word (fst (snd x)) = true) rest.

Lemma closing_cases fin : closing fin = true -> fin = [] \/ fin = [x21] \/ fin = [x3f].
Proof.
  unfold closing. intros H. apply orb_true_iff in H. destruct H as [H|H]; [apply orb_true_iff in H; destruct H as [H|H]|];
    apply bytes_eqb_eq in H; auto.
Qed.

Lemma tailS_cons x rest fin : tailS (x :: rest) fin = piece x ++ tailS rest fin.
Proof. unfold tailS. cbn [map List.concat]. rewrite <- app_assoc. reflexivity. Qed.

Lemma tcls_cons x rest fin : tcls (x :: rest) fin = pcls x ++ tcls rest fin.
Proof. unfold tcls. cbn [map List.concat]. rewrite <- app_assoc. reflexivity. Qed.

Lemma tail_stop rest fin : closing fin = true -> stop_tail (tailS rest fin).
Proof.
  intros Hf. destruct rest as [|[c [w d]] rest].
  - unfold tailS. cbn [map List.concat app].
    destruct (closing_cases fin Hf) as [->|[->| ->]]; [left; reflexivity| |]; right; eexists; eexists; split; reflexivity.
  - rewrite tailS_cons. cbn [piece]. right. destruct c; cbn [app]; eexists; eexists; split; reflexivity.
Qed.

Lemma tail_sbyte rest fin : Words rest -> closing fin = true -> forallb sbyte (tailS rest fin) = true.
Proof.
  intros Hw Hf. induction Hw as [|[c [w d]] rest Hx Hr IH].
  - unfold tailS. cbn [map List.concat app]. destruct (closing_cases fin Hf) as [->|[->| ->]]; reflexivity.
  - rewrite tailS_cons, forallb_app, IH. cbn [fst snd] in Hx. apply benign_word_inv in Hx. destruct Hx as [[_ Hb] _].
    cbn [piece]. rewrite dotted_eq.
    assert (E : forallb sbyte (x20 :: w ++ dsuf d) = true).
    { cbn [forallb]. rewrite forallb_app, (words_sbyte w Hb). destruct d; reflexivity. }
    destruct c; cbn [app forallb]; cbn [forallb] in E; rewrite E; reflexivity.
Qed.

Lemma tail_len rest fin : Words rest -> closing fin = true ->
  (List.length (tcls rest fin) <= List.length (tailS rest fin))%nat.
Proof.
  intros Hw Hf. induction Hw as [|[c [w d]] rest Hx Hr IH].
  - unfold tailS, tcls. cbn [map List.concat app]. destruct (closing_cases fin Hf) as [->|[->| ->]]; cbn; lia.
  - rewrite tailS_cons, tcls_cons, !app_length. cbn [fst snd] in Hx.
    apply benign_word_inv in Hx. destruct Hx as [[(b & w' & -> & _) _] _].
    cbn [piece pcls fst]. rewrite !app_length. cbn [List.length]. rewrite dotted_eq, app_length. cbn [List.length].
    unfold pcls. destruct c; cbn [fst app List.length]; lia.
Qed.

Lemma chk_nf_app A F : forallb nfc A = true -> chk F = true -> chk (A ++ F) = true.
Proof.
  intros HA HF. induction A as [|a A IH]; [exact HF|]. cbn [forallb] in HA. apply andb_true_iff in HA.
  destruct HA as [Ha HA]. cbn [app]. specialize (IH HA). destruct (A ++ F) as [|e E].
  - cbn [chk]. apply nfc_anyc. exact Ha.
  - rewrite chk_cons2, Ha, IH. reflexivity.
Qed.

Lemma chk_tcls rest fin : closing fin = true -> chk (cWord :: tcls rest fin) = true.
Proof.
  intros Hf. unfold tcls. change (cWord :: List.concat (map pcls rest) ++ fcls fin)
    with ((cWord :: List.concat (map pcls rest)) ++ fcls fin).
  apply chk_nf_app.
  - cbn [forallb]. change (nfc cWord) with true. cbn [andb]. induction rest as [|[c x] rest IH]; [reflexivity|].
    cbn [map List.concat]. rewrite forallb_app, IH. destruct c; reflexivity.
  - destruct (closing_cases fin Hf) as [->|[->| ->]]; reflexivity.
Qed.

(* ---------- the scanner on the pieces ---------- *)

Lemma comma_step s inp pre tl l :
  inp = pre ++ x2c :: tl -> forallb sbyte tl = true -> sst s inp (len pre) ->
  (forall s', sst s' inp (len pre + 1) -> RemS l s') ->
  RemS (cComma :: l) s.
Proof.
  intros Ei Ht S0 K. subst inp.
  assert (Dw : dispatch x2c <> PWhite) by discriminate.
  destruct (scan_tok s pre x2c tl S0 Dw) as (s1 & Sc & S1); try reflexivity.
  rewrite ref_lex_comma in Sc, S1. cbn [lx_adv RefSqlLex.plain] in S1.
  cbn [RemS]. split; [apply S0|]. eexists. exists s1. split; [exact Sc|]. split.
  - apply gtok_punct; [reflexivity|discriminate|]. cbn [forallb]. rewrite sbytes_ascii by exact Ht. reflexivity.
  - split; [reflexivity|]. apply K. exact S1.
Qed.

Lemma word_step s inp pre w dd tl l :
  inp = pre ++ x20 :: (w ++ dd) ++ tl -> benign_word w = true -> dot_opt dd ->
  stop_tail tl -> forallb sbyte tl = true -> sst s inp (len pre) ->
  (forall s', sst s' inp (len pre + 1 + len (w ++ dd)) -> RemS l s') ->
  RemS (cWord :: l) s.
Proof.
  intros Ei Hw Hd Ht Hs S0 K. subst inp.
  destruct (ref_lex_word fl_none_ansi w dd tl Hw Hd Ht Hs) as (b & r & Er & Dw & Lx).
  rewrite Er in S0, K.
  destruct (scan_sp_tok s pre b r S0 Dw) as (s1 & Sc & S1); try (rewrite Lx; reflexivity).
  rewrite Lx in Sc, S1. cbn [lx_adv RefSqlLex.plain] in S1.
  cbn [RemS]. split; [apply S0|]. eexists. exists s1. split; [exact Sc|]. split.
  - rewrite <- Er. apply gtok_word; assumption.
  - split; [reflexivity|]. apply K. exact S1.
Qed.

Lemma closing_step s inp pre fin :
  inp = pre ++ fin -> pre <> [] -> closing fin = true -> sst s inp (len pre) -> RemS (fcls fin) s.
Proof.
  intros Ei Hne Hf S0. subst inp.
  assert (Ne : forall x, pre ++ x <> []) by (intros x Q; apply app_eq_nil in Q; destruct Q; congruence).
  destruct (closing_cases fin Hf) as [->|[->| ->]]; cbn [fcls RemS].
  - split; [apply S0|]. apply (scan_end s (pre ++ [])); [|apply Ne]. rewrite app_nil_r in *. exact S0.
  - assert (Dw : dispatch x21 <> PWhite) by discriminate.
    destruct (scan_tok s pre x21 [] S0 Dw) as (s1 & Sc & S1); try reflexivity.
    rewrite ref_lex_bang in Sc, S1. cbn [lx_adv RefSqlLex.plain] in S1.
    change (if beq x21 x21 then [cOp] else [cUnk]) with [cOp]. cbn [RemS].
    split; [apply S0|]. eexists. exists s1. split; [exact Sc|]. split; [apply gtok_punct; [reflexivity|discriminate|reflexivity]|].
    split; [reflexivity|]. split; [apply S1|]. apply (scan_end s1 (pre ++ [x21])); [|apply Ne].
    rewrite len_app. exact S1.
  - assert (Dw : dispatch x3f <> PWhite) by discriminate.
    destruct (scan_tok s pre x3f [] S0 Dw) as (s1 & Sc & S1); try reflexivity.
    rewrite ref_lex_question in Sc, S1. cbn [lx_adv RefSqlLex.plain] in S1.
    change (if beq x3f x21 then [cOp] else [cUnk]) with [cUnk]. cbn [RemS].
    split; [apply S0|]. eexists. exists s1. split; [exact Sc|]. split; [apply gtok_punct; [reflexivity|discriminate|reflexivity]|].
    split; [reflexivity|]. split; [apply S1|]. apply (scan_end s1 (pre ++ [x3f])); [|apply Ne].
    rewrite len_app. exact S1.
Qed.

Ltac norm_app := repeat (rewrite <- app_assoc || rewrite <- app_comm_cons); reflexivity.

(* the further words and the closing mark *)
Lemma tail_stream : forall rest fin inp pre s,
  Words rest -> closing fin = true -> inp = pre ++ tailS rest fin -> pre <> [] ->
  sst s inp (len pre) -> RemS (tcls rest fin) s.
Proof.
  induction rest as [|[c [w d]] rest IH]; intros fin inp pre s Hw Hf Ei Hne S0.
  - unfold tailS, tcls in *. cbn [map List.concat app] in *. eapply closing_step; eassumption.
  - inversion Hw as [|x0 r0 Hx Hr]; subst x0 r0. cbn [fst snd] in Hx.
    rewrite tailS_cons in Ei. rewrite tcls_cons. cbn [piece pcls fst] in *. rewrite dotted_eq in Ei.
    pose proof (tail_stop rest fin Hf) as Ht. pose proof (tail_sbyte rest fin Hr Hf) as Hs.
    pose proof (benign_word_inv w Hx) as [[_ Hb] _].
    assert (Step : forall pre1, inp = pre1 ++ x20 :: (w ++ dsuf d) ++ tailS rest fin ->
                   forall s1, sst s1 inp (len pre1) -> RemS (cWord :: tcls rest fin) s1).
    { intros pre1 Ei1 s1 S1.
      eapply (word_step s1 inp pre1 w (dsuf d) (tailS rest fin)); try eassumption; [apply dsuf_opt|].
      intros s2 S2. apply (IH fin inp (pre1 ++ x20 :: w ++ dsuf d) s2 Hr Hf).
      - rewrite Ei1. norm_app.
      - intros Q. apply app_eq_nil in Q. destruct Q; discriminate.
      - rewrite len_app, len_cons. replace (len pre1 + (1 + len (w ++ dsuf d))) with (len pre1 + 1 + len (w ++ dsuf d)) by lia.
        exact S2. }
    destruct c; cbn [app] in Ei |- *.
    + apply (comma_step s inp pre (x20 :: (w ++ dsuf d) ++ tailS rest fin)).
      * rewrite Ei. norm_app.
      * cbn [forallb]. rewrite !forallb_app, words_sbyte, Hs by exact Hb. destruct d; reflexivity.
      * exact S0.
      * intros s1 S1. apply (Step (pre ++ [x2c])).
        -- rewrite Ei. norm_app.
        -- rewrite len_app. exact S1.
    + apply (Step pre); [|exact S0]. rewrite Ei. norm_app.
Qed.

(* the whole sentence *)
Lemma sentence_stream w0 d0 rest fin :
  benign_word w0 = true -> Words rest -> closing fin = true ->
  RemS (cWord :: tcls rest fin) (sqli_init ((w0 ++ dsuf d0) ++ tailS rest fin) fl_none_ansi).
Proof.
  intros H0 Hw Hf. set (inp := (w0 ++ dsuf d0) ++ tailS rest fin).
  pose proof (tail_stop rest fin Hf) as Ht. pose proof (tail_sbyte rest fin Hw Hf) as Hs.
  destruct (ref_lex_word fl_none_ansi w0 (dsuf d0) (tailS rest fin) H0 (dsuf_opt d0) Ht Hs) as (b & r & Er & Dw & Lx).
  fold inp in Er.
  pose proof (sst_init inp) as S0.
  assert (S0' : sst (sqli_init inp fl_none_ansi) ([] ++ b :: r) (len [])) by (cbn [app]; rewrite <- Er; exact S0).
  destruct (scan_tok _ [] b r S0' Dw) as (s1 & Sc1 & S1); try (rewrite Lx; reflexivity).
  rewrite Lx in Sc1, S1. cbn [app lx_adv RefSqlLex.plain] in S1. rewrite <- Er in Sc1, S1.
  change (len []) with 0 in S1. rewrite Z.add_0_l in S1.
  cbn [RemS]. split; [apply S0|]. eexists. exists s1. split; [exact Sc1|]. split.
  { apply gtok_word; try assumption. apply dsuf_opt. }
  split; [reflexivity|]. apply (tail_stream rest fin inp (w0 ++ dsuf d0) s1 Hw Hf); [reflexivity| |exact S1].
  apply benign_word_inv in H0. destruct H0 as [[(b0 & w' & -> & _) _] _]. discriminate.
Qed.

Theorem sentence_not_sqli s : Sentence s -> is_sqli s = Ok (false, []).
Proof.
  intros (w0 & d0 & rest & fin & H0 & Hw & Hf & ->).
  rewrite dotted_eq. fold (tailS rest fin).
  pose proof (tail_sbyte rest fin Hw Hf) as Hs.
  assert (Sb : forallb sbyte ((w0 ++ dsuf d0) ++ tailS rest fin) = true).
  { pose proof (benign_word_inv w0 H0) as [[_ Hb] _].
    rewrite !forallb_app, words_sbyte, Hs by exact Hb. destruct d0; reflexivity. }
  destruct (no_quote _ Sb) as [Q1 Q2].
  apply (shape_not_sqli _ cWord (tcls rest fin)); try assumption; try reflexivity.
  - apply sentence_stream; assumption.
  - apply chk_tcls. exact Hf.
  - pose proof (tail_len rest fin Hw Hf). cbn [List.length]. rewrite app_length. lia.
Qed.
