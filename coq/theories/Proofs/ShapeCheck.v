(* ShapeCheck: from the fold lemma (Proofs/ShapeFold.v) to the verdict.  The
   token source is the model's tokenizer (`scanner`); `RemS l s` says that the
   scanner state s will deliver tokens of the classes l, all plain-text tokens
   (`gtok`), and that no comment counter has moved.  If the whole input is such
   a stream, holds no quote, and an operator / unknown token can only come
   last, then its fingerprint is one of 9330 candidate strings, none of which
   is blacklisted (a sweep), the MySQL re-parse is not requested and no quoted
   reading runs: IsSQLi answers (false, ""). *)
From Coq Require Import List ZArith String Bool Lia ZifyBool.
From Coq.Strings Require Import Byte.
From LI Require Import Prelude Base SqliLex SqliFold Proofs.BaseFacts
  Spec.RefSqlFold Proofs.RefSqlFoldProofs Proofs.ShapeRules Proofs.ShapeFold.
From LIGen Require Import Consts.
Import ListNotations.
Local Open Scope Z_scope.

(* ---------- the scanner as a source of plain-text tokens ---------- *)

Definition statz (s : sqlst) : Prop := n_ddx (st s) = 0 /\ n_hash (st s) = 0.

Fixpoint RemS (l : list byte) (s : sqlst) : Prop :=
  statz s /\
  match l with
  | [] => scan s = (None, s)
  | c :: l' => exists t s', scan s = (Some t, s') /\ gtok t /\ t_cat t = c /\ RemS l' s'
  end.

Lemma RemS_statz l s : RemS l s -> statz s.
Proof. destruct l; intros H; apply H. Qed.

Lemma RemS_cons s c l : RemS (c :: l) s ->
  exists t s', next scanner s = (Some t, s') /\ gtok t /\ t_cat t = c /\ RemS l s'.
Proof. intros [_ H]. exact H. Qed.

Lemma RemS_nil s : RemS [] s -> exists s', next scanner s = (None, s') /\ RemS [] s'.
Proof. intros H. exists s. split; [apply H|exact H]. Qed.

(* ---------- the candidate fingerprints ---------- *)

Definition alphabet : list byte := [cWord; cNum; cVar; cComma; cOp; cUnk].

Fixpoint strs (k : nat) : list bytes :=
  match k with
  | O => [[]]
  | S k' => flat_map (fun s => map (fun c => c :: s) alphabet) (strs k')
  end.

Lemma anyc_alphabet c : anyc c = true -> In c alphabet.
Proof.
  intros H. destruct (anyc_cases _ H) as [N|[->| ->]]; [|cbn; auto 10|cbn; auto 10].
  destruct (nfc_cases _ N) as [->|[->|[->| ->]]]; cbn; auto 10.
Qed.

Lemma in_strs fp : forallb anyc fp = true -> In fp (strs (List.length fp)).
Proof.
  induction fp as [|c fp IH]; cbn [forallb strs List.length]; intros H; [left; reflexivity|].
  apply andb_true_iff in H. destruct H as [Hc Hfp]. apply in_flat_map. exists fp. split; [apply IH; exact Hfp|].
  apply (in_map (fun c0 => c0 :: fp)). apply anyc_alphabet. exact Hc.
Qed.

Lemma blacklist_sweep :
  forallb (fun k => forallb (fun fp => negb (chk fp) || negb (ref_blacklist fp)) (strs k)) [1; 2; 3; 4; 5]%nat = true.
Proof. vm_compute. reflexivity. Qed.

Lemma blacklist_chk fp : chk fp = true -> (1 <= List.length fp <= 5)%nat -> ref_blacklist fp = false.
Proof.
  intros H L. pose proof (in_strs fp (chk_forall _ H)) as I. pose proof blacklist_sweep as S.
  rewrite forallb_forall in S.
  assert (K : In (List.length fp) [1; 2; 3; 4; 5]%nat) by (cbn; lia).
  specialize (S _ K). rewrite forallb_forall in S. specialize (S _ I). rewrite H in S. cbn [negb orb] in S.
  apply negb_true_iff in S. exact S.
Qed.

(* ---------- fingerprint ---------- *)

Lemma gtok_not_evil t : gtok t -> in_class t [cEvil] = false.
Proof.
  intros H. apply gtok_anyc in H. unfold in_class.
  destruct (anyc_cases _ H) as [N|[->| ->]]; [|reflexivity|reflexivity].
  destruct (nfc_cases _ N) as [->|[->|[->| ->]]]; reflexivity.
Qed.

Lemma no_evil w : Forall gtok w -> existsb (fun t => in_class t [cEvil]) w = false.
Proof.
  induction 1 as [|t w Gt Hw IH]; [reflexivity|]. cbn [existsb]. rewrite gtok_not_evil, IH by assumption. reflexivity.
Qed.

Lemma fingerprint_out w : Forall gtok w -> ref_fingerprint w = (map t_cat w, w).
Proof.
  intros H. unfold ref_fingerprint.
  assert (P : php_backtick w = w).
  { unfold php_backtick. destruct (nth_error w (List.length w - 1)) as [t|] eqn:N; [|reflexivity].
    assert (G : gtok t) by (rewrite Forall_forall in H; apply H; eapply nth_error_In; exact N).
    destruct G as (Ho & _). rewrite Ho. change (beq x00 b_byte_tick) with false.
    rewrite andb_false_r. reflexivity. }
  rewrite P, no_evil by exact H. reflexivity.
Qed.

(* ---------- the verdict ---------- *)

Theorem shape_not_sqli inp c l :
  mem x27 inp = false -> mem x22 inp = false ->
  RemS (c :: l) (sqli_init inp fl_none_ansi) ->
  nfc c = true -> chk (c :: l) = true -> (List.length (c :: l) <= 2 + List.length inp)%nat ->
  is_sqli inp = Ok (false, []).
Proof.
  intros Qs Qd Hr Nc Hc Hlen. rewrite is_sqli_ref. f_equal.
  unfold ref_is_sqli. destruct inp as [|b0 inp']; [reflexivity|]. set (inp := b0 :: inp') in *.
  change b_byte_double with x22. change b_byte_single with x27. rewrite Qs, Qd.
  unfold ref_both, ref_try, ref_ctx, ref_fold_tokens.
  assert (Hb : (3 <= 2 + List.length inp)%nat) by (unfold inp; cbn [List.length]; lia).
  destruct (ref_fold_shape scanner (fun s l => RemS l s) RemS_cons RemS_nil
              (2 + List.length inp)%nat (sqli_init inp fl_none_ansi) c l Hr Nc Hc Hb Hlen)
    as (w & s' & l' & E & (Gw & Cw & Lw) & R).
  rewrite E, (fingerprint_out w Gw).
  rewrite blacklist_chk by (rewrite ?map_length; assumption).
  cbn [andb]. apply RemS_statz in R. destruct R as [R1 R2]. unfold ref_gate. rewrite R1, R2. reflexivity.
Qed.
