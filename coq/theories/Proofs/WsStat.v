(* WsStat: the SQL lexers never read the statistics.  The token and the resume
   offset a lexer returns do not depend on the statistics of the state it is
   started in (C03, whitespace runs: the side condition of a slot is computed
   on a state with empty statistics). *)
From Coq Require Import List ZArith String Bool Lia.
From Coq.Strings Require Import Byte.
From LI Require Import Prelude Base SqliLex Proofs.BaseFacts Proofs.LexSpec.
From LIGen Require Import Tables Dispatch Consts.
Import ListNotations.
Local Open Scope Z_scope.

(* same outcome, up to the statistics of the returned state *)
Definition same_run (r1 r2 : res (sqlst * token * Z)) : Prop :=
  match r1, r2 with
  | Ok (s1, t1, np1), Ok (s2, t2, np2) =>
      t1 = t2 /\ np1 = np2 /\ input s1 = input s2 /\ flags s1 = flags s2 /\ pos s1 = pos s2
  | Panic a, Panic b => a = b
  | OutOfFuel, OutOfFuel => True
  | StackOverflow, StackOverflow => True
  | _, _ => False
  end.

Lemma same_run_refl_st inp fl p x1 x2 t np :
  same_run (Ok (mkSt inp fl p x1, t, np)) (Ok (mkSt inp fl p x2, t, np)).
Proof. cbn. auto. Qed.

Definition indep (L : lexer) : Prop :=
  forall inp fl p x1 x2 t, same_run (L (mkSt inp fl p x1) t) (L (mkSt inp fl p x2) t).

Ltac st_start L :=
  intros inp fl p x1 x2 t; unfold L, at_, input_from, slen, has_flag, set_stats, set_pos;
  cbn [input flags pos st].

Lemma same_run_bind r1 r2 (k : sqlst * token * Z -> res (sqlst * token * Z)) :
  same_run r1 r2 ->
  (forall s1 s2 t np, input s1 = input s2 -> flags s1 = flags s2 -> pos s1 = pos s2 ->
                      same_run (k (s1, t, np)) (k (s2, t, np))) ->
  same_run (bind r1 k) (bind r2 k).
Proof.
  intros H K. destruct r1 as [[[s1 t1] n1]| | |], r2 as [[[s2 t2] n2]| | |]; cbn [same_run bind] in *; try contradiction; auto.
  destruct H as (-> & -> & A & B & C). apply K; assumption.
Qed.

Ltac sub_indep := fail.

Ltac st_step :=
  match goal with
  | |- same_run (?L (mkSt ?i ?f ?p _) ?t) (?L (mkSt ?i ?f ?p _) ?t) => sub_indep
  | |- same_run (bind (?L (mkSt ?i ?f ?p _) ?t) _) (bind (?L (mkSt ?i ?f ?p _) ?t) _) =>
      apply same_run_bind; [sub_indep | intros ? ? ? ? ? ? ?]
  | |- same_run (Ok _) (Ok _) => cbn [same_run]; auto 10
  | |- same_run (Panic _) (Panic _) => reflexivity
  | |- same_run (bind ?m _) (bind ?m _) => destruct m as [?a| | |]; cbn [bind]; try exact I; try reflexivity
  | |- same_run (if ?c then _ else _) (if ?c then _ else _) => destruct c
  | |- same_run (let (_, _) := ?x in _) (let (_, _) := ?x in _) => destruct x
  | |- same_run (match ?x with _ => _ end) (match ?x with _ => _ end) => destruct x
  end.

Ltac st_go := repeat st_step.

Lemma parse_eol_comment_indep : indep parse_eol_comment.
Proof. st_start parse_eol_comment. st_go. Qed.
Lemma parse_white_indep : indep parse_white.
Proof. st_start parse_white. st_go. Qed.
Lemma parse_other_indep : indep parse_other.
Proof. st_start parse_other. st_go. Qed.
Lemma parse_operator1_indep : indep parse_operator1.
Proof. st_start parse_operator1. st_go. Qed.
Lemma parse_byte_indep : indep parse_byte.
Proof. st_start parse_byte. st_go. Qed.


Ltac sub_indep ::= first [apply parse_eol_comment_indep | apply parse_operator1_indep].

Lemma parse_hash_indep : indep parse_hash.
Proof. st_start parse_hash. st_go. Qed.
Lemma parse_dash_indep : indep parse_dash.
Proof. st_start parse_dash. st_go. Qed.
Lemma parse_slash_indep : indep parse_slash.
Proof. st_start parse_slash. unfold is_mysql_comment. st_go. Qed.
Lemma parse_backslash_indep : indep parse_backslash.
Proof. st_start parse_backslash. st_go. Qed.
Lemma parse_operator2_indep : indep parse_operator2.
Proof. st_start parse_operator2. st_go. Qed.
Lemma parse_string_indep : indep parse_string.
Proof. st_start parse_string. st_go. Qed.
Lemma parse_word_indep : indep parse_word.
Proof. st_start parse_word. unfold str_len_cspn. st_go. Qed.
Lemma parse_tick_indep : indep parse_tick.
Proof. st_start parse_tick. st_go. Qed.


Ltac sub_indep ::= first [apply parse_eol_comment_indep | apply parse_operator1_indep | apply parse_word_indep
                         | apply parse_string_indep | apply parse_tick_indep ].

Lemma parse_var_indep : indep parse_var.
Proof. st_start parse_var. unfold str_len_cspn. st_go. Qed.
Lemma parse_money_indep : indep parse_money.
Proof. st_start parse_money. unfold str_len_spn. st_go. Qed.
Lemma parse_number_indep : indep parse_number.
Proof. st_start parse_number. unfold str_len_spn. st_go. Qed.
Lemma parse_ustring_indep : indep parse_ustring.
Proof. st_start parse_ustring. st_go. Qed.
Lemma parse_estring_indep : indep parse_estring.
Proof. st_start parse_estring. st_go. Qed.
Lemma parse_qstring_core_indep off : indep (parse_qstring_core off).
Proof. st_start parse_qstring_core. st_go. Qed.
Ltac sub_indep ::= first [apply parse_eol_comment_indep | apply parse_operator1_indep | apply parse_word_indep
                         | apply parse_string_indep | apply parse_tick_indep | apply parse_estring_indep
                         | apply parse_qstring_core_indep ].
Lemma parse_nqstring_indep : indep parse_nqstring.
Proof. st_start parse_nqstring. st_go. Qed.
Lemma parse_xb_string_indep digits : indep (parse_xb_string digits).
Proof. st_start parse_xb_string. unfold str_len_spn. st_go. Qed.
Lemma parse_bword_indep : indep parse_bword.
Proof. st_start parse_bword. st_go. Qed.

Theorem run_parser_indep id : indep (run_parser id).
Proof.
  destruct id; cbn [run_parser]; unfold parse_qstring, parse_xstring, parse_bstring.
  - apply parse_white_indep.
  - apply parse_operator1_indep.
  - apply parse_operator2_indep.
  - apply parse_string_indep.
  - apply parse_hash_indep.
  - apply parse_money_indep.
  - apply parse_byte_indep.
  - apply parse_dash_indep.
  - apply parse_number_indep.
  - apply parse_slash_indep.
  - apply parse_other_indep.
  - apply parse_var_indep.
  - apply parse_word_indep.
  - apply parse_xb_string_indep.
  - apply parse_estring_indep.
  - apply parse_nqstring_indep.
  - apply parse_qstring_core_indep.
  - apply parse_ustring_indep.
  - apply parse_xb_string_indep.
  - apply parse_bword_indep.
  - apply parse_backslash_indep.
  - apply parse_tick_indep.
Qed.

(* in the shape the callers use *)
Lemma run_parser_indep_Ok id inp fl p x1 x2 t s1 t1 np :
  run_parser id (mkSt inp fl p x1) t = Ok (s1, t1, np) ->
  exists s2, run_parser id (mkSt inp fl p x2) t = Ok (s2, t1, np) /\ input s2 = input s1 /\ flags s2 = flags s1.
Proof.
  intros E. pose proof (run_parser_indep id inp fl p x1 x2 t) as H. rewrite E in H.
  destruct (run_parser id (mkSt inp fl p x2) t) as [[[s2 t2] np2]| | |]; cbn [same_run] in H; try contradiction.
  destruct H as (-> & -> & A & B & _). exists s2. auto.
Qed.

Print Assumptions run_parser_indep.
