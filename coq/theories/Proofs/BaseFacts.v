(* BaseFacts: lemmas about the primitives of Base.v *)
From Coq Require Import List ZArith String Bool Lia.
From Coq.Strings Require Import Byte.
From LI Require Import Prelude Base.
Import ListNotations.
Local Open Scope Z_scope.

Lemma to_N_inj a b : Byte.to_N a = Byte.to_N b -> a = b.
Proof.
  intros Hab. pose proof (Byte.of_to_N a) as Ha. pose proof (Byte.of_to_N b) as Hb.
  rewrite Hab in Ha. rewrite Ha in Hb. congruence.
Qed.

Lemma code_inj a b : code a = code b -> a = b.
Proof. unfold code. intros H. apply N2Z.inj in H. apply to_N_inj. exact H. Qed.

Lemma code_range b : 0 <= code b < 256.
Proof. unfold code. pose proof (Byte.to_N_bounded b). lia. Qed.

Lemma beq_eq a b : beq a b = true <-> a = b.
Proof.
  unfold beq. rewrite Z.eqb_eq. split; [apply code_inj | intros ->; reflexivity].
Qed.

Lemma beq_refl a : beq a a = true.
Proof. apply beq_eq. reflexivity. Qed.

Lemma beq_neq a b : beq a b = false <-> a <> b.
Proof.
  split.
  - intros H E. apply beq_eq in E. congruence.
  - intros H. destruct (beq a b) eqn:E; [apply beq_eq in E; contradiction | reflexivity].
Qed.

Lemma beq_sym a b : beq a b = beq b a.
Proof. unfold beq. apply Z.eqb_sym. Qed.

Lemma bytes_eqb_eq a b : bytes_eqb a b = true <-> a = b.
Proof.
  revert b. induction a as [|x a IH]; intros [|y b]; cbn; split; intros H; try reflexivity; try discriminate.
  - apply andb_true_iff in H. destruct H as [H1 H2]. apply beq_eq in H1. apply IH in H2. congruence.
  - inversion H; subst. rewrite beq_refl. cbn. apply IH. reflexivity.
Qed.

Lemma bytes_eqb_refl a : bytes_eqb a a = true.
Proof. apply bytes_eqb_eq. reflexivity. Qed.

Lemma len_nonneg s : 0 <= len s.
Proof. unfold len. lia. Qed.

Lemma len_nil : len [] = 0.
Proof. reflexivity. Qed.

Lemma len_cons b s : len (b :: s) = 1 + len s.
Proof. unfold len. cbn [List.length]. lia. Qed.

Lemma len_app a b : len (a ++ b) = len a + len b.
Proof. unfold len. rewrite app_length. lia. Qed.

(* ---------- get / drop / take / slice ---------- *)

Lemma get_ok site s i : 0 <= i < len s -> exists b, get site s i = Ok b /\ nth_error s (Z.to_nat i) = Some b.
Proof.
  intros H. unfold get. destruct (0 <=? i) eqn:E; [|lia].
  destruct (nth_error s (Z.to_nat i)) as [b|] eqn:N.
  - exists b. split; reflexivity.
  - apply nth_error_None in N. unfold len in H. lia.
Qed.

Lemma get_Ok_inv site s i b : get site s i = Ok b -> 0 <= i < len s /\ nth_error s (Z.to_nat i) = Some b.
Proof.
  unfold get. destruct (0 <=? i) eqn:E; [|discriminate].
  destruct (nth_error s (Z.to_nat i)) as [c|] eqn:N; [|discriminate].
  intros H. inversion H; subst. split; [|reflexivity].
  assert (Z.to_nat i < List.length s)%nat by (apply nth_error_Some; congruence).
  unfold len. lia.
Qed.

Lemma drop_ok site s i : 0 <= i <= len s -> drop site s i = Ok (skipn (Z.to_nat i) s).
Proof.
  intros H. unfold drop.
  destruct (0 <=? i) eqn:E1; [|lia]. destruct (i <=? len s) eqn:E2; [|lia]. reflexivity.
Qed.

Lemma drop_Ok_inv site s i r : drop site s i = Ok r -> 0 <= i <= len s /\ r = skipn (Z.to_nat i) s.
Proof.
  unfold drop. destruct (0 <=? i) eqn:E1; cbn; [|discriminate].
  destruct (i <=? len s) eqn:E2; cbn; [|discriminate].
  intros H. inversion H. split; [lia|reflexivity].
Qed.

Lemma take_ok site s j : 0 <= j <= len s -> take site s j = Ok (firstn (Z.to_nat j) s).
Proof.
  intros H. unfold take.
  destruct (0 <=? j) eqn:E1; [|lia]. destruct (j <=? len s) eqn:E2; [|lia]. reflexivity.
Qed.

Lemma take_Ok_inv site s j r : take site s j = Ok r -> 0 <= j <= len s /\ r = firstn (Z.to_nat j) s.
Proof.
  unfold take. destruct (0 <=? j) eqn:E1; cbn; [|discriminate].
  destruct (j <=? len s) eqn:E2; cbn; [|discriminate].
  intros H. inversion H. split; [lia|reflexivity].
Qed.

Lemma slice_ok site s i j : 0 <= i <= j -> j <= len s ->
  slice site s i j = Ok (firstn (Z.to_nat (j - i)) (skipn (Z.to_nat i) s)).
Proof.
  intros H1 H2. unfold slice.
  destruct (0 <=? i) eqn:E1; [|lia]. destruct (i <=? j) eqn:E2; [|lia].
  destruct (j <=? len s) eqn:E3; [|lia]. reflexivity.
Qed.

Lemma slice_Ok_inv site s i j r : slice site s i j = Ok r ->
  0 <= i <= j /\ j <= len s /\ r = firstn (Z.to_nat (j - i)) (skipn (Z.to_nat i) s).
Proof.
  unfold slice. destruct (0 <=? i) eqn:E1; cbn; [|discriminate].
  destruct (i <=? j) eqn:E2; cbn; [|discriminate].
  destruct (j <=? len s) eqn:E3; cbn; [|discriminate].
  intros H. inversion H. repeat split; lia.
Qed.

Lemma len_skipn s n : len (skipn n s) = len s - Z.min (Z.of_nat n) (len s).
Proof. unfold len. rewrite skipn_length. lia. Qed.

Lemma len_firstn s n : len (firstn n s) = Z.min (Z.of_nat n) (len s).
Proof. unfold len. rewrite firstn_length. lia. Qed.

Lemma len_drop site s i r : drop site s i = Ok r -> len r = len s - i.
Proof.
  intros H. apply drop_Ok_inv in H. destruct H as [H ->]. rewrite len_skipn. lia.
Qed.

Lemma len_take site s j r : take site s j = Ok r -> len r = j.
Proof.
  intros H. apply take_Ok_inv in H. destruct H as [H ->]. rewrite len_firstn. lia.
Qed.

(* ---------- index_byte / index / span ---------- *)

Lemma index_byte_range s c : index_byte s c = -1 \/ 0 <= index_byte s c < len s.
Proof.
  induction s as [|b s IH]; cbn [index_byte]; [left; reflexivity|].
  pose proof (len_nonneg s).
  rewrite len_cons. destruct (beq b c); [right; lia|].
  destruct (index_byte s c <? 0) eqn:E; [left; reflexivity| right; lia].
Qed.

Lemma index_byte_found s c i : index_byte s c = i -> 0 <= i -> nth_error s (Z.to_nat i) = Some c.
Proof.
  revert i. induction s as [|b s IH]; cbn [index_byte]; intros i H Hi; [lia|].
  destruct (beq b c) eqn:E.
  - subst i. apply beq_eq in E. subst. reflexivity.
  - destruct (index_byte s c <? 0) eqn:E2; [lia|].
    assert (0 <= index_byte s c) by lia.
    replace (Z.to_nat i) with (S (Z.to_nat (index_byte s c))) by lia.
    cbn. apply IH; [reflexivity|assumption].
Qed.

Lemma index_range s sep : index s sep = -1 \/ (0 <= index s sep /\ index s sep + len sep <= len s).
Proof.
  assert (P : forall s p, has_prefix s p = true -> len p <= len s).
  { intros s0 p. revert s0. induction p as [|x p IH]; intros [|y s0]; cbn [has_prefix]; intros H;
      try discriminate; unfold len in *; cbn [List.length]; try lia.
    apply andb_true_iff in H. destruct H as [_ H]. apply IH in H. lia. }
  induction s as [|b s IH].
  - cbn [index]. destruct (has_prefix [] sep) eqn:E; [right| left; reflexivity].
    apply P in E. pose proof (len_nonneg sep). lia.
  - cbn [index]. destruct (has_prefix (b :: s) sep) eqn:E.
    + right. apply P in E. lia.
    + destruct (index s sep <? 0) eqn:E2; [left; reflexivity|].
      right. rewrite len_cons. destruct IH as [IH|IH]; lia.
Qed.

Lemma span_range p s : 0 <= span p s <= len s.
Proof.
  induction s as [|b s IH]; cbn [span]; rewrite ?len_nil, ?len_cons; [lia|].
  destruct (p b); lia.
Qed.

Lemma span_n_full site p s : span_n site p s (List.length s) = Ok (span p s).
Proof.
  induction s as [|b s IH]; cbn [span_n span List.length]; [reflexivity|].
  destruct (p b); [|reflexivity]. rewrite IH. cbn. reflexivity.
Qed.

Lemma span_len_full site p s : span_len site p s (len s) = Ok (span p s).
Proof.
  unfold span_len. pose proof (len_nonneg s). destruct (len s <? 0) eqn:E; [lia|].
  unfold len. rewrite Nat2Z.id. apply span_n_full.
Qed.

(* a bounded scan: at most `n` bytes, all available *)
Lemma span_n_bounded site p s n : (n <= List.length s)%nat ->
  exists r, span_n site p s n = Ok r /\ 0 <= r <= Z.of_nat n /\ r <= span p s.
Proof.
  revert s. induction n as [|n IH]; intros s H; cbn [span_n].
  - exists 0. pose proof (span_range p s). split; [reflexivity|lia].
  - destruct s as [|b s]; [cbn in H; lia|]. cbn [List.length] in H.
    cbn [span]. destruct (p b).
    + destruct (IH s) as [r [E [R1 R2]]]; [lia|]. rewrite E. cbn [bind].
      exists (1 + r). split; [reflexivity|lia].
    + exists 0. split; [reflexivity|lia].
Qed.

(* ---------- result monad ---------- *)

Lemma bind_Ok {A B} (m : res A) (f : A -> res B) b :
  bind m f = Ok b -> exists a, m = Ok a /\ f a = Ok b.
Proof. destruct m; cbn; intros H; try discriminate. eauto. Qed.

Lemma bind_Ok_l {A B} (m : res A) (f : A -> res B) a : m = Ok a -> bind m f = f a.
Proof. intros ->. reflexivity. Qed.

(* invert `bind m f = Ok b` hypotheses *)
Ltac inv_bind H :=
  let a := fresh "a" in let E := fresh "E" in
  apply bind_Ok in H; destruct H as [a [E H]].

Ltac inv_ok :=
  repeat match goal with
         | H : Ok _ = Ok _ |- _ => inversion H; subst; clear H
         | H : Panic _ = Ok _ |- _ => discriminate H
         | H : OutOfFuel = Ok _ |- _ => discriminate H
         | H : StackOverflow = Ok _ |- _ => discriminate H
         end.

Lemma nth_error_skipn {A} (l : list A) n m : nth_error (skipn n l) m = nth_error l (n + m).
Proof.
  revert l. induction n as [|n IH]; intros l; cbn; [reflexivity|].
  destruct l as [|x l]; [destruct m; reflexivity|]. apply IH.
Qed.

Lemma nth_error_firstn {A} (l : list A) n m : (m < n)%nat -> nth_error (firstn n l) m = nth_error l m.
Proof.
  revert l m. induction n as [|n IH]; intros l m H; [lia|].
  destruct l as [|x l]; [destruct m; reflexivity|]. destruct m as [|m]; cbn; [reflexivity|].
  apply IH. lia.
Qed.
