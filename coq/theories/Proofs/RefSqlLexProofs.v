(* RefSqlLexProofs: the Go-mirroring tokenizer model (SqliLex.v) computes
   exactly the executable specification Ref (Spec/RefSqlLex.v).

   Method.  A model state s is viewed as  input s = pre ++ rest, pos s = len pre.
   For every lexer kind K the lemma  K_ref  shows
       run of the model lexer on s (slot = tok0)
     = Ok (s', tok_of (len pre) rest (Ref lexer on rest), len pre + bytes consumed)
   where s' differs from s in the two comment counters (and possibly pos, which
   the caller overwrites).  String forms go through Proofs/StringProofs.v. *)
From Coq Require Import List ZArith String Bool Lia ZifyBool.
From Coq.Strings Require Import Byte.
From LI Require Import Prelude Base SqliLex Proofs.BaseFacts Proofs.Wp Proofs.LexBase Proofs.LexSpec
  Proofs.TokensSpec Spec.StringSpec Proofs.StringProofs Spec.RefSqlLex.
From LIGen Require Import Tables Dispatch Consts.
Import ListNotations.
Local Open Scope Z_scope.

(* ---------- lists seen through a prefix ---------- *)

Lemma after_0 (l : bytes) : after 0 l = l.
Proof. reflexivity. Qed.

Lemma after_cons k b (l : bytes) : 1 <= k -> after k (b :: l) = after (k - 1) l.
Proof. intros H. unfold after. replace (Z.to_nat k) with (S (Z.to_nat (k - 1))) by lia. reflexivity. Qed.

Lemma after_after a b (l : bytes) : 0 <= a -> 0 <= b -> after a (after b l) = after (b + a) l.
Proof. intros Ha Hb. unfold after. rewrite skipn_add. f_equal. lia. Qed.

Lemma after_nil k : after k [] = [].
Proof. unfold after. apply skipn_nil. Qed.

Lemma len_after k (l : bytes) : 0 <= k <= len l -> len (after k l) = len l - k.
Proof. intros H. unfold after. apply len_skipn_le. exact H. Qed.

Lemma len_upto k (l : bytes) : 0 <= k <= len l -> len (upto k l) = k.
Proof. intros H. unfold upto. apply len_firstn_le. exact H. Qed.

Lemma skipn_pre (pre l : bytes) k : 0 <= k -> skipn (Z.to_nat (len pre + k)) (pre ++ l) = after k l.
Proof.
  intros H. unfold after, len. rewrite skipn_app.
  replace (Z.to_nat (Z.of_nat (List.length pre) + k) - List.length pre)%nat with (Z.to_nat k) by lia.
  rewrite skipn_all2 by lia. reflexivity.
Qed.

Lemma skipn_pre0 (pre l : bytes) : skipn (Z.to_nat (len pre)) (pre ++ l) = l.
Proof. apply skipn_len_app. reflexivity. Qed.

Lemma get_pre site (pre l : bytes) k : 0 <= k -> get site (pre ++ l) (len pre + k) = get site l k.
Proof.
  intros H. unfold get. pose proof (len_nonneg pre).
  destruct (0 <=? len pre + k) eqn:E1; [|lia]. destruct (0 <=? k) eqn:E2; [|lia].
  unfold len. rewrite nth_error_app2 by lia.
  replace (Z.to_nat (Z.of_nat (List.length pre) + k) - List.length pre)%nat with (Z.to_nat k) by lia.
  reflexivity.
Qed.

Lemma get_pre0 site (pre l : bytes) : get site (pre ++ l) (len pre) = get site l 0.
Proof. rewrite <- (get_pre site pre l 0) by lia. f_equal. lia. Qed.

Lemma drop_pre site (pre l : bytes) k : 0 <= k <= len l -> drop site (pre ++ l) (len pre + k) = Ok (after k l).
Proof.
  intros H. pose proof (len_nonneg pre). rewrite drop_ok by (rewrite len_app; lia).
  rewrite skipn_pre by lia. reflexivity.
Qed.

Lemma drop_pre0 site (pre l : bytes) : drop site (pre ++ l) (len pre) = Ok l.
Proof. apply drop_app. reflexivity. Qed.

Lemma slice_pre site (pre l : bytes) i j : 0 <= i <= j -> j <= len l ->
  slice site (pre ++ l) (len pre + i) (len pre + j) = Ok (upto (j - i) (after i l)).
Proof.
  intros H1 H2. pose proof (len_nonneg pre). rewrite slice_ok by (rewrite ?len_app; lia).
  rewrite skipn_pre by lia. unfold upto. do 2 f_equal. lia.
Qed.

Lemma slice_pre0 site (pre l : bytes) j : 0 <= j <= len l ->
  slice site (pre ++ l) (len pre) (len pre + j) = Ok (upto j l).
Proof.
  intros H. rewrite <- (Z.add_0_r (len pre)) at 1. rewrite slice_pre by lia. rewrite after_0. do 2 f_equal. lia.
Qed.

Lemma get_0 site a (l : bytes) : get site (a :: l) 0 = Ok a.
Proof. reflexivity. Qed.
Lemma get_1 site a b (l : bytes) : get site (a :: b :: l) 1 = Ok b.
Proof. reflexivity. Qed.
Lemma get_2 site a b c (l : bytes) : get site (a :: b :: c :: l) 2 = Ok c.
Proof. reflexivity. Qed.
Lemma get_3 site a b c d (l : bytes) : get site (a :: b :: c :: d :: l) 3 = Ok d.
Proof. reflexivity. Qed.

Lemma get_head site (l : bytes) k b r : 0 <= k -> after k l = b :: r -> get site l k = Ok b.
Proof.
  intros Hk E. apply get_nth; [exact Hk|]. unfold after in E.
  rewrite <- (Nat.add_0_r (Z.to_nat k)), <- nth_error_skipn, E. reflexivity.
Qed.

Lemma after_len_nil (l : bytes) k : 0 <= k -> after k l = [] -> len l <= k.
Proof.
  intros Hk E. apply (f_equal len) in E. unfold after in E. rewrite len_skipn, len_nil in E. lia.
Qed.

Lemma after_cons_len (l : bytes) k b r : 0 <= k -> after k l = b :: r -> k < len l /\ len r = len l - k - 1.
Proof.
  intros Hk E. apply (f_equal len) in E. unfold after in E. rewrite len_skipn, len_cons in E.
  pose proof (len_nonneg r). lia.
Qed.

Lemma upto_all (l : bytes) k : len l <= k -> upto k l = l.
Proof. intros H. unfold upto. apply firstn_all2. unfold len in H. lia. Qed.

(* ---------- statistics and the result shape ---------- *)

Definition add_stats (x : stats) (d h : Z) : stats :=
  mkStats (n_ddx x + d) (n_hash x + h) (n_folds x) (n_tokens x).

Lemma add_stats_0 x : add_stats x 0 0 = x.
Proof. destruct x. unfold add_stats. cbn. f_equal; lia. Qed.

(* the model lexer result r agrees with the Ref lexeme x *)
Definition lex_ok (s : sqlst) (pre rest : bytes) (x : lexeme) (r : res (sqlst * token * Z)) : Prop :=
  exists s', r = Ok (s', tok_of (len pre) rest x, len pre + lx_adv x) /\
             input s' = input s /\ flags s' = flags s /\
             st s' = add_stats (st s) (lx_ddx x) (lx_hash x).

Lemma lex_ok_same s pre rest x :
  lx_ddx x = 0 -> lx_hash x = 0 ->
  lex_ok s pre rest x (Ok (s, tok_of (len pre) rest x, len pre + lx_adv x)).
Proof.
  intros Hd Hh. exists s. rewrite Hd, Hh, add_stats_0. auto.
Qed.

Lemma lex_ok_eq s pre rest x r r' : r = r' -> lex_ok s pre rest x r' -> lex_ok s pre rest x r.
Proof. intros ->. auto. Qed.

Lemma lex_ok_plain s pre rest c n adv np :
  np = len pre + adv -> lex_ok s pre rest (plain c n adv) (Ok (s, tok_of (len pre) rest (plain c n adv), np)).
Proof. intros ->. apply lex_ok_same; reflexivity. Qed.

(* assign into the empty slot = the token of a plain lexeme *)
Lemma assign_plain pre rest value c n adv :
  0 <= n -> Z.min n 31 <= len value -> upto (Z.min n 31) value = upto (Z.min n 31) rest ->
  assign tok0 c (len pre) n value = Ok (tok_of (len pre) rest (plain c n adv)).
Proof.
  intros H1 H2 H3. rewrite assign_ok by assumption. unfold tok_of, plain, lx_text.
  cbn [lx_off lx_len lx_count lx_cat lx_open lx_close t_count t_open t_close tok0].
  rewrite after_0. unfold upto in H3. rewrite H3. rewrite Z.add_0_r. reflexivity.
Qed.

(* ---------- byte class sweeps ---------- *)

Lemma sweep2 (f g : byte -> bool) :
  forallb (fun b => Bool.eqb (f b) (g b)) all_bytes = true -> forall b, f b = g b.
Proof. intros H b. apply eqb_prop. exact (byte_sweep _ H b). Qed.

Lemma is_dec_digit b : is_digit b = is_dec b.
Proof. revert b. apply sweep2. vm_compute. reflexivity. Qed.
Lemma hex_set1 b : mem b (bs "0123456789ABCDEFabcdef") = is_hex b.
Proof. revert b. apply sweep2. vm_compute. reflexivity. Qed.
Lemma hex_set2 b : mem b (bs "0123456789abcdefABCDEF") = is_hex b.
Proof. revert b. apply sweep2. vm_compute. reflexivity. Qed.
Lemma bin_set b : mem b (bs "01") = is_bin b.
Proof. revert b. apply sweep2. vm_compute. reflexivity. Qed.
Lemma money_set b : mem b (bs "0123456789.,") = is_money b.
Proof. revert b. apply sweep2. vm_compute. reflexivity. Qed.
Lemma white_set b : is_byte_white b = sql_white b.
Proof. revert b. apply sweep2. vm_compute. reflexivity. Qed.

(* ---------- tactics ---------- *)

(* decide the integer tests whose outcome follows from the hypotheses *)
Ltac dec :=
  repeat match goal with
         | |- context [if ?c then _ else _] =>
             lazymatch c with
             | (_ <? _) => idtac | (_ <=? _) => idtac | (_ =? _) => idtac
             end;
             first [ replace c with true by lia | replace c with false by lia ]; cbv iota
         end.

Ltac gets :=
  repeat first [ rewrite get_pre0 | rewrite get_pre by lia | rewrite get_0 | rewrite get_1
               | rewrite get_2 | rewrite get_3 ]; cbn [bind].

(* finish: the model assigns a plain token and returns *)
Ltac plain_done :=
  cbn [bind];
  lazymatch goal with
  | |- lex_ok _ ?pre ?rest (plain ?c ?n ?adv) _ =>
      rewrite (assign_plain pre rest _ _ n adv);
      [ cbn [bind]; apply lex_ok_plain; lia
      | try lia
      | rewrite ?len_cons, ?len_nil, ?len_after by (rewrite ?len_cons, ?len_nil; lia); first [lia | vm_compute; discriminate | idtac]
      | try reflexivity ]
  end.

(* open a lexer on the view  input s = pre ++ rest, pos s = len pre *)
Ltac open_lexer Hi Hp :=
  unfold at_, input_from, slen; rewrite ?Hp, ?Hi; rewrite ?len_app, ?len_cons.

(* ---------- the one-byte lexers ---------- *)

Lemma white_ref s pre t : pos s = len pre -> parse_white s t = Ok (s, t, len pre + lx_adv blank).
Proof. intros Hp. unfold parse_white. rewrite Hp. reflexivity. Qed.

Lemma operator1_ref s pre r b :
  input s = pre ++ b :: r -> pos s = len pre ->
  lex_ok s pre (b :: r) (plain x6f 1 1) (parse_operator1 s tok0).
Proof.
  intros Hi Hp. pose proof (len_nonneg r). unfold parse_operator1. open_lexer Hi Hp. rewrite drop_pre0. cbn [bind].
  rewrite (assign_plain pre (b :: r) _ x6f 1 1) by (rewrite ?len_cons; lia || reflexivity). cbn [bind].
  apply lex_ok_same; reflexivity.
Qed.

Lemma other_ref s pre r b :
  input s = pre ++ b :: r -> pos s = len pre ->
  lex_ok s pre (b :: r) (plain x3f 1 1) (parse_other s tok0).
Proof.
  intros Hi Hp. pose proof (len_nonneg r). unfold parse_other. open_lexer Hi Hp. rewrite drop_pre0. cbn [bind].
  rewrite (assign_plain pre (b :: r) _ x3f 1 1) by (rewrite ?len_cons; lia || reflexivity). cbn [bind].
  apply lex_ok_same; reflexivity.
Qed.

Lemma byte_ref s pre r b :
  input s = pre ++ b :: r -> pos s = len pre ->
  lex_ok s pre (b :: r) (plain b 1 1) (parse_byte s tok0).
Proof.
  intros Hi Hp. pose proof (len_nonneg r). unfold parse_byte. open_lexer Hi Hp. gets. rewrite drop_pre0. cbn [bind].
  rewrite (assign_plain pre (b :: r) _ b 1 1) by (rewrite ?len_cons; lia || reflexivity). cbn [bind].
  apply lex_ok_same; reflexivity.
Qed.

Lemma backslash_ref s pre r b :
  input s = pre ++ b :: r -> pos s = len pre ->
  lex_ok s pre (b :: r) (lex_backslash (b :: r)) (parse_backslash s tok0).
Proof.
  intros Hi Hp. pose proof (len_nonneg r). unfold parse_backslash, lex_backslash. open_lexer Hi Hp.
  rewrite after_cons, after_0 by lia. rewrite drop_pre0.
  destruct r as [|c r']; [|pose proof (len_nonneg r')]; rewrite ?len_nil, ?len_cons in *; cbn [head_is]; dec; gets.
  - plain_done.
  - destruct (beq c x4e); plain_done.
Qed.

(* ---------- search primitives as spans / first matches ---------- *)

Lemma index_byte_span l c :
  let n := span (fun b => negb (beq b c)) l in
  index_byte l c = if n =? len l then -1 else n.
Proof.
  cbv zeta. set (f := fun b => negb (beq b c)).
  induction l as [|b l IH]; cbn [index_byte span]; [reflexivity|].
  rewrite len_cons. pose proof (span_range f l) as R. pose proof (len_nonneg l).
  assert (Ef : f b = negb (beq b c)) by reflexivity. rewrite Ef. clear Ef. destruct (beq b c); cbn [negb].
  - destruct (0 =? 1 + len l) eqn:E; [lia|reflexivity].
  - rewrite IH. destruct (span f l =? len l) eqn:E.
    + change (-1 <? 0) with true. cbv iota. destruct (1 + span f l =? 1 + len l) eqn:E2; [reflexivity|lia].
    + destruct (span f l <? 0) eqn:E3; [lia|].
      destruct (1 + span f l =? 1 + len l) eqn:E2; lia.
Qed.

Lemma contains_first_match l pat : contains l pat = is_some (first_match pat l).
Proof.
  unfold contains. rewrite index_first_match. destruct (first_match pat l) as [i|] eqn:F; cbn [is_some].
  - apply first_match_nonneg in F. lia.
  - reflexivity.
Qed.

(* ---------- operators ---------- *)

Lemma operator2_ref s pre b r :
  input s = pre ++ b :: r -> pos s = len pre ->
  lex_ok s pre (b :: r) (lex_operator2 (b :: r)) (parse_operator2 s tok0).
Proof.
  intros Hi Hp. pose proof (len_nonneg r). unfold parse_operator2, lex_operator2.
  destruct r as [|c r'].
  - unfold slen. rewrite Hp, Hi, len_app, len_cons, len_nil. dec. eapply operator1_ref; eassumption.
  - open_lexer Hi Hp.
    pose proof (len_nonneg r') as Hr. rewrite len_cons in H. dec. rewrite drop_pre0.
    rewrite slice_pre0 by (rewrite !len_cons; lia).
    destruct r' as [|d r'']; [|pose proof (len_nonneg r'')]; rewrite ?len_cons, ?len_nil in *; dec; gets; cbn [starts].
    + rewrite !andb_false_r. cbv iota.
      destruct (negb (beq (search_keyword (upto 2 [b; c])) x00)); [plain_done|].
      destruct (beq b x3a); [plain_done|]. eapply operator1_ref; eassumption.
    + destruct (beq b x3c); cbn [andb bind]; [destruct (beq c x3d); cbn [andb bind]; [destruct (beq d x3e); cbn [andb bind]|]|].
      all: cbv iota; try plain_done.
      all: destruct (negb (beq (search_keyword (upto 2 (b :: c :: d :: r''))) x00)); [plain_done|].
      all: destruct (beq b x3a); [plain_done|]; eapply operator1_ref; eassumption.
Qed.

(* ---------- comments ---------- *)

Lemma eol_comment_ref s pre rest :
  input s = pre ++ rest -> pos s = len pre -> rest <> [] ->
  lex_ok s pre rest (lex_eol_comment rest) (parse_eol_comment s tok0).
Proof.
  intros Hi Hp Hne. unfold parse_eol_comment, lex_eol_comment. open_lexer Hi Hp. rewrite drop_pre0. cbn [bind].
  rewrite index_byte_span. cbv zeta.
  set (n := span (fun b => negb (beq b x0a)) rest).
  pose proof (span_range (fun b => negb (beq b x0a)) rest) as R. fold n in R.
  destruct (n =? len rest) eqn:E.
  - change (-1 =? -1) with true. cbv iota.
    replace (len pre + len rest - len pre) with n by lia.
    replace (Z.min (n + 1) (len rest)) with n by lia. plain_done.
  - destruct (n =? -1) eqn:E2; [lia|].
    replace (Z.min (n + 1) (len rest)) with (n + 1) by lia. plain_done.
Qed.

Lemma lex_ok_with_stats s s1 pre rest x d h r :
  input s1 = input s -> flags s1 = flags s -> st s1 = add_stats (st s) d h ->
  lx_ddx x = 0 -> lx_hash x = 0 ->
  lex_ok s1 pre rest x r -> lex_ok s pre rest (with_stats x d h) r.
Proof.
  intros E1 E2 E3 Hd Hh (s' & R & A & B & C). exists s'. rewrite R. split; [reflexivity|].
  rewrite A, B, C, E1, E2, E3, Hd, Hh, add_stats_0. auto.
Qed.

Lemma hash_ref s pre r :
  input s = pre ++ x23 :: r -> pos s = len pre ->
  lex_ok s pre (x23 :: r) (lex_hash (flags s) (x23 :: r)) (parse_hash s tok0).
Proof.
  intros Hi Hp. pose proof (len_nonneg r). unfold parse_hash, lex_hash, mysql, bit, has_flag.
  cbn [flags set_stats].
  destruct (negb (Z.land (flags s) c_sqli_flag_sqlmysql =? 0)).
  - eapply lex_ok_with_stats; [| | | | |apply eol_comment_ref]; cbn [input flags pos st set_stats n_ddx n_hash n_folds n_tokens];
      try reflexivity; try assumption; try discriminate.
    unfold add_stats. f_equal; lia.
  - cbn [pos set_stats]. rewrite Hp.
    rewrite (assign_plain pre (x23 :: r) _ _ 1 1) by (rewrite ?len_cons; try reflexivity; vm_compute; discriminate).
    cbn [bind].
    eexists. split; [reflexivity|]. cbn [input flags st set_stats lx_ddx lx_hash with_stats plain].
    repeat split. unfold add_stats. f_equal; lia.
Qed.

Lemma dash_ref s pre r :
  input s = pre ++ x2d :: r -> pos s = len pre ->
  lex_ok s pre (x2d :: r) (lex_dash (flags s) (x2d :: r)) (parse_dash s tok0).
Proof.
  intros Hi Hp. pose proof (len_nonneg r).
  assert (Eol : lex_ok s pre (x2d :: r) (lex_eol_comment (x2d :: r)) (parse_eol_comment s tok0))
    by (apply eol_comment_ref; try assumption; discriminate).
  unfold parse_dash, lex_dash, ansi, bit, has_flag. open_lexer Hi Hp.
  rewrite !after_cons, after_0 by lia. change (2 - 1) with 1.
  destruct r as [|c r']; [|pose proof (len_nonneg r')]; rewrite ?len_cons, ?len_nil in *; cbn [head_is]; dec; gets.
  - plain_done.
  - rewrite after_cons, after_0 by lia.
    destruct r' as [|d r'']; [|pose proof (len_nonneg r'')]; rewrite ?len_cons, ?len_nil in *; dec; gets.
    + destruct (beq c x2d); cbn [bind]; [exact Eol|]. rewrite andb_false_l. cbv iota. plain_done.
    + destruct (beq c x2d); cbn [bind andb].
      * rewrite white_set. destruct (sql_white d); cbn [bind]; [exact Eol|].
        destruct (negb (Z.land (flags s) c_sqli_flag_sqlansi =? 0)); [|plain_done].
        eapply lex_ok_with_stats; [| | | | |apply eol_comment_ref];
          cbn [input flags pos st set_stats n_ddx n_hash n_folds n_tokens];
          try reflexivity; try assumption; try discriminate.
        unfold add_stats. f_equal; lia.
      * plain_done.
Qed.

Lemma slash_ref s pre b r :
  input s = pre ++ b :: r -> pos s = len pre ->
  lex_ok s pre (b :: r) (lex_slash (b :: r)) (parse_slash s tok0).
Proof.
  intros Hi Hp. pose proof (len_nonneg r).
  assert (Op : lex_ok s pre (b :: r) (plain x6f 1 1) (parse_operator1 s tok0))
    by (eapply operator1_ref; eassumption).
  unfold parse_slash, lex_slash, is_mysql_comment. open_lexer Hi Hp.
  change (bs "*/") with [x2a; x2f]. change (bs "/*") with [x2f; x2a].
  rewrite !after_cons, after_0 by lia. change (2 - 1) with 1.
  destruct r as [|c body]; [|pose proof (len_nonneg body)]; rewrite ?len_cons, ?len_nil in *; cbn [head_is]; dec; gets.
  - exact Op.
  - destruct (beq c x2a); cbn [negb]; [|exact Op].
    rewrite after_cons, after_0 by lia.
    rewrite drop_pre by (rewrite !len_cons; lia). rewrite !after_cons, after_0 by lia. cbn [bind].
    rewrite index_first_match. rewrite drop_pre0.
    assert (M : (if len pre + (1 + (1 + len body)) <=? len pre + 2 then Ok false
                 else c0 <- get "isMysqlComment" (b :: c :: body) 2;; Ok (beq c0 x21))
                = Ok (head_is (fun b0 => beq b0 x21) body)).
    { destruct body as [|e body']; rewrite ?len_cons, ?len_nil; dec; [reflexivity|]. pose proof (len_nonneg body'). dec. reflexivity. }
    rewrite M. clear M.
    destruct (first_match [x2a; x2f] body) as [i|] eqn:F.
    + pose proof (first_match_range _ _ _ F) as [Fi Fl]. change (len [x2a; x2f]) with 2 in Fl.
      destruct (i =? -1) eqn:E; [lia|]. cbn [negb].
      replace (len pre + 2 + i + 1) with (len pre + (2 + (i + 1))) by lia.
      rewrite slice_pre by (rewrite ?len_cons; lia). cbn [bind].
      rewrite !after_cons, after_0 by lia. replace (2 + (i + 1) - 2) with (i + 1) by lia.
      rewrite contains_first_match. replace (2 + i + 2) with (i + 4) by lia.
      destruct (is_some (first_match [x2f; x2a] (upto (i + 1) body))); cbn [bind orb].
      * plain_done.
      * destruct (head_is (fun b0 => beq b0 x21) body); plain_done.
    + change (-1 =? -1) with true. cbn [negb bind orb].
      replace (len pre + (1 + (1 + len body)) - len pre) with (1 + (1 + len body)) by lia.
      destruct (head_is (fun b0 => beq b0 x21) body); plain_done.
Qed.

Lemma bracket_ref s pre rest :
  input s = pre ++ rest -> pos s = len pre ->
  lex_ok s pre rest (lex_bracket rest) (parse_bword s tok0).
Proof.
  intros Hi Hp. unfold parse_bword, lex_bracket. open_lexer Hi Hp. rewrite drop_pre0. cbn [bind].
  rewrite index_byte_span. cbv zeta.
  set (n := span (fun b => negb (beq b x5d)) rest).
  pose proof (span_range (fun b => negb (beq b x5d)) rest) as R. fold n in R.
  destruct (n =? len rest) eqn:E.
  - change (-1 =? -1) with true. cbv iota.
    replace (len pre + len rest - len pre) with (len rest) by lia.
    replace (Z.min (n + 1) (len rest)) with (len rest) by lia. plain_done.
  - destruct (n =? -1) eqn:E2; [lia|].
    replace (Z.min (n + 1) (len rest)) with (n + 1) by lia. plain_done.
Qed.

(* ---------- string literals, through StringProofs ---------- *)

(* the oracle's (token, resume) pair in Ref's relative terms *)
Lemma lit_result_rel cnt pre rest off o c w close :
  0 <= off <= len rest ->
  lit_result cnt (pre ++ rest) (len pre + off) o c w close
  = (tok_of (len pre) rest (with_count (literal rest off o c w close) cnt),
     len pre + lx_adv (literal rest off o c w close)).
Proof.
  intros H. unfold lit_result, lit_token, literal, tok_of, lx_text, with_count, upto.
  rewrite skipn_pre by lia. rewrite len_app.
  destruct close as [i|]; cbn [lx_cat lx_off lx_len lx_open lx_close lx_count lx_adv].
  - f_equal. lia.
  - replace (len pre + len rest - (len pre + off)) with (len rest - off) by lia. reflexivity.
Qed.

Lemma with_count_literal0 rest off o c w close :
  with_count (literal rest off o c w close) 0 = literal rest off o c w close.
Proof. destruct close; reflexivity. Qed.

Lemma literal_stats rest off o c w close :
  lx_ddx (literal rest off o c w close) = 0 /\ lx_hash (literal rest off o c w close) = 0.
Proof. destruct close; split; reflexivity. Qed.

Lemma nth_pre (pre l : bytes) k : 0 <= k ->
  nth_error (pre ++ l) (Z.to_nat (len pre + k)) = nth_error l (Z.to_nat k).
Proof.
  intros H. unfold len. rewrite nth_error_app2 by lia. f_equal. lia.
Qed.

Lemma nth_pre0 (pre l : bytes) : nth_error (pre ++ l) (Z.to_nat (len pre)) = nth_error l 0.
Proof. change 0%nat with (Z.to_nat 0). rewrite <- (nth_pre pre l 0) by lia. do 2 f_equal. lia. Qed.

(* '..' / ".." into a slot that already carries a count *)
Lemma string_eq s t pre d body :
  input s = pre ++ d :: body -> pos s = len pre -> d <> x5c ->
  parse_string s t
  = Ok (s, tok_of (len pre) (d :: body) (with_count (lex_string (d :: body)) (t_count t)),
        len pre + lx_adv (lex_string (d :: body))).
Proof.
  intros Hi Hp Hd. pose proof (len_nonneg pre). pose proof (len_nonneg body).
  rewrite (parse_string_full s t d); [|lia| |exact Hd].
  2:{ rewrite Hp, Hi, nth_pre0. reflexivity. }
  rewrite Hp, Hi. rewrite skipn_pre by lia. rewrite lit_result_rel by (rewrite len_cons; lia).
  reflexivity.
Qed.

Lemma string_ref s pre d body :
  input s = pre ++ d :: body -> pos s = len pre -> d <> x5c ->
  lex_ok s pre (d :: body) (lex_string (d :: body)) (parse_string s tok0).
Proof.
  intros Hi Hp Hd. rewrite (string_eq s tok0 pre d body) by assumption.
  cbn [t_count tok0]. unfold lex_string, quoted. rewrite with_count_literal0.
  apply lex_ok_same; apply literal_stats.
Qed.

Lemma tick_eq s t pre b body :
  input s = pre ++ b :: body -> pos s = len pre ->
  parse_tick s t
  = Ok (s, tok_of (len pre) (b :: body) (with_count (lex_tick (b :: body)) (t_count t)),
        len pre + lx_adv (lex_tick (b :: body))).
Proof.
  intros Hi Hp. pose proof (len_nonneg pre). pose proof (len_nonneg body).
  rewrite (parse_tick_full s t) by (rewrite Hp, Hi, len_app, len_cons; lia).
  rewrite Hp, Hi. rewrite skipn_pre by lia. rewrite lit_result_rel by (rewrite len_cons; lia).
  reflexivity.
Qed.

Lemma tick_ref s pre b body :
  input s = pre ++ b :: body -> pos s = len pre ->
  lex_ok s pre (b :: body) (lex_tick (b :: body)) (parse_tick s tok0).
Proof.
  intros Hi Hp. rewrite (tick_eq s tok0 pre b body) by assumption.
  cbn [t_count tok0]. unfold lex_tick, quoted.
  set (x := literal (b :: body) 1 x60 x60 1 (find_close x60 false (after 1 (b :: body)))).
  destruct (literal_stats (b :: body) 1 x60 x60 1 (find_close x60 false (after 1 (b :: body)))) as [Hx1 Hx2].
  fold x in Hx1, Hx2.
  set (c := if beq (search_keyword (lx_text (b :: body) x)) x66 then x66 else x6e).
  replace (with_count (with_cat x c) 0) with (with_cat x c)
    by (unfold x; destruct (find_close x60 false (after 1 (b :: body))); reflexivity).
  exact (lex_ok_same s pre (b :: body) (with_cat x c) Hx1 Hx2).
Qed.

(* a lexeme found k bytes further on, seen from here *)
Lemma tok_of_shift pre rest k x :
  0 <= k -> 0 <= lx_off x ->
  tok_of (len pre + k) (after k rest) x = tok_of (len pre) rest (shift k x).
Proof.
  intros Hk Ho. unfold tok_of, shift, lx_text. cbn [lx_cat lx_off lx_len lx_open lx_close lx_count].
  rewrite after_after by lia. f_equal. lia.
Qed.

Lemma split_at_k (pre rest : bytes) k : 0 <= k <= len rest ->
  pre ++ rest = (pre ++ upto k rest) ++ after k rest /\ len (pre ++ upto k rest) = len pre + k.
Proof.
  intros H. split.
  - rewrite <- app_assoc. unfold upto, after. rewrite firstn_skipn. reflexivity.
  - rewrite len_app, len_upto by lia. reflexivity.
Qed.

(* ---------- look-ahead ---------- *)

Lemma peek_pre {A} site (pre rest : bytes) k (f : byte -> A) (dflt : A) : 0 <= k ->
  (if len pre + k <? len pre + len rest then a <- get site (pre ++ rest) (len pre + k);; Ok (f a) else Ok dflt)
  = Ok (match after k rest with a :: _ => f a | [] => dflt end).
Proof.
  intros Hk. destruct (after k rest) as [|a l] eqn:E.
  - apply after_len_nil in E; [|lia]. destruct (len pre + k <? len pre + len rest) eqn:C; [lia|reflexivity].
  - pose proof (after_cons_len _ _ _ _ Hk E) as [L _].
    destruct (len pre + k <? len pre + len rest) eqn:C; [|lia].
    rewrite get_pre by lia. rewrite (get_head _ _ _ _ _ Hk E). reflexivity.
Qed.

(* ---------- variables ---------- *)

Lemma lex_ok_intro s s' pre rest x tk np :
  input s' = input s -> flags s' = flags s -> st s' = st s ->
  lx_ddx x = 0 -> lx_hash x = 0 -> tk = tok_of (len pre) rest x -> np = len pre + lx_adv x ->
  lex_ok s pre rest x (Ok (s', tk, np)).
Proof.
  intros A B C Hd Hh -> ->. exists s'. rewrite Hd, Hh, add_stats_0. auto.
Qed.

Lemma tok_of_shift' pre rest k r2 x :
  0 <= k -> 0 <= lx_off x -> after k rest = r2 ->
  tok_of (len pre + k) r2 x = tok_of (len pre) rest (shift k x).
Proof. intros Hk Ho <-. apply tok_of_shift; assumption. Qed.

Lemma lex_ok_same' s pre rest x np :
  lx_ddx x = 0 -> lx_hash x = 0 -> np = len pre + lx_adv x ->
  lex_ok s pre rest x (Ok (s, tok_of (len pre) rest x, np)).
Proof. intros Hd Hh ->. apply lex_ok_same; assumption. Qed.

Lemma var_name_tok pre rest k n :
  0 <= n <= len (after k rest) ->
  assign (set_count tok0 k) x76 (len pre + k) n (after k rest)
  = Ok (tok_of (len pre) rest (with_count (with_cat (mkLx x76 k n x00 x00 0 (k + n) 0 0) x76) k)).
Proof. intros H. rewrite assign_ok by lia. reflexivity. Qed.

Lemma var_ref s pre rest :
  input s = pre ++ rest -> pos s = len pre -> 1 <= len rest ->
  lex_ok s pre rest (lex_var rest) (parse_var s tok0).
Proof.
  intros Hi Hp Hl. pose proof (len_nonneg pre) as Lpre.
  unfold parse_var, lex_var, str_len_cspn. open_lexer Hi Hp.
  rewrite (peek_pre _ pre rest 1 (fun a => beq a x40) false) by lia. cbn [bind].
  fold (head_is (fun a => beq a x40) (after 1 rest)).
  set (two := head_is (fun a => beq a x40) (after 1 rest)).
  set (k := if two then 2 else 1).
  replace (if two then len pre + 1 + 1 else len pre + 1) with (len pre + k) by (unfold k; destruct two; lia).
  assert (Hk : 1 <= k <= len rest).
  { unfold k, two. destruct (after 1 rest) as [|a l] eqn:E; cbn [head_is]; [lia|].
    apply after_cons_len in E; [|lia]. destruct (beq a x40); lia. }
  clearbody k. clear two.
  rewrite (peek_pre _ pre rest k (fun a => if beq a x60 then 1 else if beq a b_byte_single || beq a b_byte_double then 2 else 0) 0) by lia.
  cbn [bind].
  destruct (split_at_k pre rest k ltac:(lia)) as [Sp Lp].
  set (s1 := set_pos s (len pre + k)).
  assert (Hi1 : input s1 = (pre ++ upto k rest) ++ after k rest) by (unfold s1; cbn [input set_pos]; rewrite Hi; exact Sp).
  assert (Hp1 : pos s1 = len (pre ++ upto k rest)) by (unfold s1; cbn [pos set_pos]; lia).
  assert (Name : lex_ok s pre rest
            (with_count (with_cat (mkLx x76 k (span var_byte (after k rest)) x00 x00 0 (k + span var_byte (after k rest)) 0 0) x76) k)
            (rest0 <- drop "parseVar" (pre ++ rest) (len pre + k);;
             length <- span_len "strLenCSpn" (fun b : byte => negb (mem b var_accept)) rest0 (len pre + len rest - (len pre + k));;
             (if length =? 0
              then t <- assign (set_count tok0 k) b_sqli_token_type_variable (len pre + k) 0 rest0;; Ok (s, t, len pre + k)
              else t <- assign (set_count tok0 k) b_sqli_token_type_variable (len pre + k) length rest0;;
                   Ok (s, t, len pre + k + length)))).
  { rewrite drop_pre by lia. cbn [bind]. fold var_byte.
    pose proof (span_range var_byte (after k rest)) as R. rewrite len_after in R by lia.
    rewrite span_len_exact by (rewrite len_after; lia). cbn [bind].
    replace (Z.min (len pre + len rest - (len pre + k)) (span var_byte (after k rest))) with (span var_byte (after k rest)) by lia.
    set (n := span var_byte (after k rest)) in *.
    destruct (n =? 0) eqn:E0.
    - assert (N0 : n = 0) by lia. rewrite N0. rewrite var_name_tok by (rewrite len_after; lia). cbn [bind].
      apply lex_ok_same'; [reflexivity|reflexivity|cbn [lx_adv with_count with_cat]; lia].
    - rewrite var_name_tok by (rewrite len_after; lia). cbn [bind].
      apply lex_ok_same'; [reflexivity|reflexivity|cbn [lx_adv with_count with_cat]; lia]. }
  destruct (after k rest) as [|d body] eqn:E.
  - exact Name.
  - 
    assert (Q : forall q, lx_ddx (with_count (with_cat (shift k (quoted (d :: body) 1 q q)) x76) k) = 0 /\
                          lx_hash (with_count (with_cat (shift k (quoted (d :: body) 1 q q)) x76) k) = 0 /\
                          lx_off (quoted (d :: body) 1 q q) = 1).
    { intros q. unfold quoted. destruct (find_close q false (after 1 (d :: body))); repeat split. }
    destruct (beq d x60) eqn:Et.
    + apply beq_eq in Et. subst d. cbn [orb]. change (1 =? 1) with true. cbv iota.
      rewrite (tick_eq s1 (set_count tok0 k) (pre ++ upto k rest) x60 body Hi1 Hp1). cbn [bind].
      destruct (Q x60) as (Q1 & Q2 & Q3).
      apply lex_ok_intro; try reflexivity; try assumption.
      * rewrite Lp. unfold lex_tick. cbn [t_count set_count tok0].
        rewrite (tok_of_shift' pre rest k (x60 :: body)) by (try lia; try exact E; cbn [lx_off with_count with_cat]; lia).
        reflexivity.
      * rewrite Lp. unfold lex_tick. cbn [lx_adv with_count with_cat shift]. lia.
    + cbn [orb]. change (b_byte_single) with x27. change b_byte_double with x22.
      destruct (beq d x27 || beq d x22) eqn:Eq.
      * change (2 =? 1) with false. change (2 =? 2) with true. cbv iota.
        assert (Hd : d <> x5c).
        { intros ->. vm_compute in Eq. discriminate. }
        rewrite (string_eq s1 (set_count tok0 k) (pre ++ upto k rest) d body Hi1 Hp1 Hd). cbn [bind].
        destruct (Q d) as (Q1 & Q2 & Q3).
        apply lex_ok_intro; try reflexivity; try assumption.
        -- rewrite Lp. unfold lex_string. cbn [t_count set_count tok0].
           rewrite (tok_of_shift' pre rest k (d :: body)) by (try lia; try exact E; cbn [lx_off with_count with_cat]; lia).
           reflexivity.
        -- rewrite Lp. unfold lex_string. cbn [lx_adv with_count with_cat shift]. lia.
      * change (0 =? 1) with false. change (0 =? 2) with false. cbv iota. exact Name.
Qed.

(* ---------- words ---------- *)

Lemma upto_snoc (l : bytes) i d tl : 0 <= i -> after i l = d :: tl ->
  upto (i + 1) l = upto i l ++ [d] /\ after (i + 1) l = tl.
Proof.
  intros Hi E. split.
  - unfold upto. replace (Z.to_nat (i + 1)) with (S (Z.to_nat i)) by lia. apply firstn_snoc_nth.
    unfold after in E. rewrite <- (Nat.add_0_r (Z.to_nat i)), <- nth_error_skipn, E. reflexivity.
  - rewrite <- (after_after 1 i) by lia. rewrite E. reflexivity.
Qed.

Lemma after_all_nil (l : bytes) k : 0 <= k -> (after k l = [] <-> len l <= k).
Proof.
  intros Hk. split; [apply after_len_nil; exact Hk|]. intros H. unfold after. apply skipn_all2. unfold len in H. lia.
Qed.

(* the index loop of parseWord is the list recursion kw_split *)
Lemma word_split_kw fuel : forall val i,
  0 <= i <= len val -> len val - i <= Z.of_nat fuel ->
  word_split_loop fuel val i (len val) = Ok (kw_split (upto i val) (after i val)).
Proof.
  induction fuel as [|fuel IH]; intros val i Hi Hf; cbn [word_split_loop];
    pose proof (after_all_nil val i (proj1 Hi)) as [_ N].
  - destruct (i <? len val) eqn:E; [lia|]. rewrite N by lia. reflexivity.
  - destruct (i <? len val) eqn:E.
    + destruct (after i val) as [|d tl] eqn:Ea.
      { apply after_len_nil in Ea; lia. }
      rewrite (get_head _ val i d tl (proj1 Hi) Ea). cbn [bind kw_split].
      destruct (upto_snoc val i d tl (proj1 Hi) Ea) as [U A].
      rewrite len_upto by lia.
      destruct (beq d x2e || beq d x60); cbn [andb].
      * rewrite take_ok by lia. cbn [bind]. fold (upto i val).
        change b_sqli_token_type_none with x00. change b_sqli_token_type_bare_word with x6e.
        destruct (negb (beq (search_keyword (upto i val)) x00) && negb (beq (search_keyword (upto i val)) x6e)); [reflexivity|].
        rewrite IH by lia. rewrite U, A. reflexivity.
      * rewrite IH by lia. rewrite U, A. reflexivity.
    + rewrite N by lia. reflexivity.
Qed.

Lemma kw_split_range : forall w pre i c, kw_split pre w = Some (i, c) -> len pre <= i < len pre + len w.
Proof.
  induction w as [|b w IH]; intros pre i c; cbn [kw_split]; [discriminate|].
  rewrite len_cons. pose proof (len_nonneg w).
  destruct ((beq b x2e || beq b x60) && negb (beq (search_keyword pre) x00) && negb (beq (search_keyword pre) x6e)).
  - intros [= <- <-]. lia.
  - intros K. apply IH in K. rewrite len_app, len_cons, len_nil in K. lia.
Qed.

Lemma span_after p (l : bytes) k : 0 <= k <= span p l -> span p (after k l) = span p l - k.
Proof.
  intros H. assert (G : forall n (l : bytes), (n <= Z.to_nat (span p l))%nat -> span p (skipn n l) = span p l - Z.of_nat n).
  { induction n as [|n IH]; intros l0 Hn; [cbn [skipn]; lia|].
    destruct l0 as [|b l0]; [cbn [span] in Hn; lia|]. cbn [skipn]. cbn [span] in *.
    destruct (p b); [|lia]. pose proof (span_range p l0). rewrite IH by lia. lia. }
  unfold after. rewrite G by lia. lia.
Qed.

Lemma word_ref s pre rest :
  input s = pre ++ rest -> pos s = len pre ->
  lex_ok s pre rest (lex_word rest) (parse_word s tok0).
Proof.
  intros Hi Hp. pose proof (len_nonneg pre) as Lpre. pose proof (len_nonneg rest) as Lrest.
  unfold parse_word, lex_word, str_len_cspn. open_lexer Hi Hp. change c_token_size with 32.
  rewrite drop_pre0. cbn [bind]. fold word_byte.
  set (n := span word_byte rest). pose proof (span_range word_byte rest) as R. fold n in R.
  rewrite span_len_exact by (destruct (32 <? len pre + len rest - len pre) eqn:?; lia).
  cbn [bind]. fold n.
  set (L := Z.min (if 32 <? len pre + len rest - len pre then 32 else len pre + len rest - len pre) n).
  assert (HL : L = Z.min 32 n) by (unfold L; destruct (32 <? len pre + len rest - len pre) eqn:?; lia).
  clearbody L. subst L.
  rewrite assign_ok by lia. cbn [bind t_val t_len].
  replace (Z.min (Z.min 32 n) 31) with (Z.min n 31) by lia.
  fold (upto (Z.min n 31) rest). set (val := upto (Z.min n 31) rest).
  assert (Lv : len val = Z.min n 31) by (unfold val; rewrite len_upto; lia).
  rewrite <- Lv at 1. rewrite word_split_kw by (change (Z.to_nat 32) with 32%nat; lia).
  cbn [bind]. change (upto 0 val) with (@nil byte). rewrite after_0.
  destruct (kw_split [] val) as [[i c]|] eqn:K.
  - apply kw_split_range in K. rewrite len_nil in K.
    rewrite (assign_plain pre rest rest c i i) by (try lia; reflexivity). cbn [bind].
    apply lex_ok_plain. reflexivity.
  - destruct (Z.min 32 n =? 32) eqn:E32.
    + replace (Z.min 32 n) with 32 by lia. rewrite drop_pre by lia. cbn [bind].
      rewrite span_len_exact by (rewrite len_after; lia). cbn [bind]. fold word_byte.
      rewrite span_after by lia. fold n.
      replace (32 + Z.min (len pre + len rest - len pre - 32) (n - 32)) with n by lia.
      destruct (n <? 32) eqn:E2; [lia|]. cbn [andb].
      apply lex_ok_intro; try reflexivity.
      unfold tok_of, plain, lx_text. cbn [lx_cat lx_off lx_len lx_open lx_close lx_count t_count t_open t_close tok0].
      rewrite after_0, Z.add_0_r. reflexivity.
    + replace (Z.min 32 n) with n by lia. cbn [bind].
      destruct (n <? 32) eqn:E2; [|lia]. cbn [andb].
      rewrite take_ok by lia. cbn [bind].
      replace (firstn (Z.to_nat n) val) with (upto n rest).
      2:{ unfold val, upto. rewrite firstn_firstn. f_equal. lia. }
      apply lex_ok_intro; try reflexivity.
      unfold tok_of, plain, lx_text, set_cat. cbn [lx_cat lx_off lx_len lx_open lx_close lx_count t_count t_open t_close tok0 t_pos t_len t_val].
      rewrite after_0, Z.add_0_r. change b_sqli_token_type_bare_word with x6e.
      destruct (beq (search_keyword (upto n rest)) x00); reflexivity.
Qed.

(* ---------- '$' ---------- *)

Lemma span_money l : span (fun b => mem b (bs "0123456789.,")) l = span is_money l.
Proof. apply span_ext. apply money_set. Qed.

Lemma span_letters l :
  span (fun b => mem b (bs "abcdefghjiklmnopqrstuvwxyzABCDEFGHIJKLMNOPQRSTUVWXYZ")) l = span is_alpha l.
Proof. apply span_ext. apply money_letters_alpha. Qed.

Lemma peek_eq_pre {A} site (pre rest : bytes) k (f : byte -> A) (dflt : A) : 0 <= k <= len rest ->
  (if len pre + k =? len pre + len rest then Ok dflt else a <- get site (pre ++ rest) (len pre + k);; Ok (f a))
  = Ok (match after k rest with a :: _ => f a | [] => dflt end).
Proof.
  intros Hk. destruct (after k rest) as [|a l] eqn:E.
  - apply after_len_nil in E; [|lia]. destruct (len pre + k =? len pre + len rest) eqn:C; [reflexivity|lia].
  - pose proof (after_cons_len _ _ _ _ (proj1 Hk) E) as [L _].
    destruct (len pre + k =? len pre + len rest) eqn:C; [lia|].
    rewrite get_pre by lia. rewrite (get_head _ _ _ _ _ (proj1 Hk) E). reflexivity.
Qed.

Lemma upto_cons k b (l : bytes) : 1 <= k -> upto k (b :: l) = b :: upto (k - 1) l.
Proof. intros H. unfold upto. replace (Z.to_nat k) with (S (Z.to_nat (k - 1))) by lia. reflexivity. Qed.

Lemma nth_after (l : bytes) k d tl : 0 <= k -> after k l = d :: tl -> nth_error l (Z.to_nat k) = Some d.
Proof.
  intros Hk E. unfold after in E. rewrite <- (Nat.add_0_r (Z.to_nat k)), <- nth_error_skipn, E. reflexivity.
Qed.

Lemma money_ref s pre r1 :
  input s = pre ++ x24 :: r1 -> pos s = len pre ->
  lex_ok s pre (x24 :: r1) (lex_money (x24 :: r1)) (parse_money s tok0).
Proof.
  intros Hi Hp. pose proof (len_nonneg pre) as Lpre. pose proof (len_nonneg r1) as Lr1.
  destruct r1 as [|c r2].
  - unfold parse_money, lex_money. open_lexer Hi Hp. rewrite len_nil. dec.
    rewrite after_cons, after_0 by lia. cbn [span head_is Z.ltb Z.compare andb]. cbv iota.
    replace (len pre + (1 + 0)) with (len pre + 1) by lia. plain_done.
  - pose proof (len_nonneg r2) as Lr2.
    destruct (is_money c) eqn:Mc.
    + (* a number, or "$." *)
      unfold parse_money, lex_money, str_len_spn. open_lexer Hi Hp. dec.
      rewrite drop_pre by (rewrite !len_cons; lia). rewrite after_cons, after_0 by lia. cbn [bind].
      rewrite span_len_exact by (rewrite !len_cons; lia). cbn [bind].
      rewrite span_money.
      set (n := span is_money (c :: r2)).
      pose proof (span_range is_money (c :: r2)) as R. fold n in R. rewrite len_cons in R.
      assert (Hn : 1 <= n) by (unfold n; cbn [span]; rewrite Mc; pose proof (span_range is_money r2); lia).
      replace (Z.min (len pre + (1 + (1 + len r2)) - len pre - 1) n) with n by lia.
      destruct (n =? 0) eqn:E0; [lia|]. destruct (0 <? n) eqn:E1; [|lia].
      destruct (n =? 1) eqn:E2; gets; cbn [head_is andb].
      * destruct (beq c x2e).
        -- apply word_ref; assumption.
        -- rewrite drop_pre0. plain_done.
      * rewrite drop_pre0. plain_done.
    + destruct (beq c x24) eqn:Ed.
      * (* $$ ... $$ *)
        apply beq_eq in Ed. subst c.
        rewrite (parse_money_dollar_dollar_full s tok0) by (rewrite ?Hp, ?Hi, ?nth_pre by lia; try lia; reflexivity).
        rewrite Hp, Hi. rewrite skipn_pre by lia. rewrite lit_result_rel by (rewrite !len_cons; lia).
        cbn [t_count tok0]. rewrite with_count_literal0.
        unfold lex_money. rewrite after_cons, after_0 by lia. cbn [span head_is]. rewrite Mc.
        change (0 <? 0) with false. cbv iota. rewrite beq_refl.
        apply lex_ok_same; apply literal_stats.
      * set (m := span is_alpha (c :: r2)).
        pose proof (span_range is_alpha (c :: r2)) as Rm. fold m in Rm. rewrite len_cons in Rm.
        assert (Eref : lex_money (x24 :: c :: r2) =
                       if (0 <? m) && head_is (fun b => beq b x24) (after m (c :: r2))
                       then literal (x24 :: c :: r2) (m + 2) x24 x24 (m + 2)
                              (first_match (upto (m + 2) (x24 :: c :: r2)) (after (m + 2) (x24 :: c :: r2)))
                       else plain x6e 1 1).
        { unfold lex_money. rewrite after_cons, after_0 by lia. cbn [span head_is]. rewrite Mc, Ed.
          change (0 <? 0) with false. cbv iota. reflexivity. }
        rewrite Eref. clear Eref.
        destruct ((0 <? m) && head_is (fun b => beq b x24) (after m (c :: r2))) eqn:Tag.
        -- (* $tag$ ... $tag$ *)
           apply andb_true_iff in Tag. destruct Tag as [Hm Hd].
           destruct (after m (c :: r2)) as [|d tl] eqn:Ea; [discriminate|]. cbn [head_is] in Hd.
           apply beq_eq in Hd. subst d.
           pose proof (after_cons_len _ _ _ _ (proj1 Rm) Ea) as [Lm _]. rewrite len_cons in Lm.
           pose proof (parse_money_tag_full s tok0) as F. cbv zeta in F.
           rewrite Hp, Hi in F. rewrite skipn_pre in F by lia. rewrite after_cons, after_0 in F by lia.
           fold m in F. rewrite F; clear F; try lia.
           ++ replace (len pre + m + 2) with (len pre + (m + 2)) by lia.
              rewrite skipn_pre by lia. rewrite lit_result_rel by (rewrite !len_cons; lia).
              cbn [t_count tok0]. rewrite with_count_literal0.
              replace (x24 :: firstn (Z.to_nat m) (c :: r2) ++ [x24]) with (upto (m + 2) (x24 :: c :: r2)).
              { apply lex_ok_same; apply literal_stats. }
              rewrite upto_cons by lia. replace (m + 2 - 1) with (m + 1) by lia.
              rewrite (proj1 (upto_snoc (c :: r2) m x24 tl (proj1 Rm) Ea)). reflexivity.
           ++ rewrite nth_pre0. reflexivity.
           ++ replace (len pre + m + 1) with (len pre + (m + 1)) by lia. rewrite nth_pre by lia.
              apply (nth_after _ _ _ tl); [lia|]. rewrite after_cons by lia. replace (m + 1 - 1) with m by lia. exact Ea.
        -- unfold parse_money, str_len_spn. open_lexer Hi Hp. dec.
           rewrite drop_pre by (rewrite !len_cons; lia). rewrite after_cons, after_0 by lia. cbn [bind].
           rewrite span_len_exact by (rewrite !len_cons; lia). cbn [bind].
           rewrite span_money. cbn [span]. rewrite Mc.
           replace (Z.min (len pre + (1 + (1 + len r2)) - len pre - 1) 0) with 0 by lia.
           change (0 =? 0) with true. cbv iota. gets. rewrite Ed.
           rewrite span_len_exact by (rewrite !len_cons; lia). cbn [bind].
           rewrite span_letters. fold m.
           replace (Z.min (len pre + (1 + (1 + len r2)) - len pre - 1) m) with m by lia.
           destruct (m =? 0) eqn:E0; [plain_done|].
           destruct (0 <? m) eqn:E1; [|lia]. cbn [andb] in Tag.
           replace (len pre + m + 1) with (len pre + (m + 1)) by lia.
           replace (len pre + (1 + (1 + len r2))) with (len pre + len (x24 :: c :: r2)) by (rewrite !len_cons; lia).
           rewrite (peek_eq_pre _ pre (x24 :: c :: r2) (m + 1) (fun a => negb (beq a x24)) true) by (rewrite !len_cons; lia).
           rewrite after_cons by lia. replace (m + 1 - 1) with m by lia.
           destruct (after m (c :: r2)) as [|d tl]; cbn [bind]; [plain_done|].
           cbn [head_is] in Tag. rewrite Tag. cbn [negb]. plain_done.
Qed.

(* ---------- x'..' / b'..' ---------- *)

Lemma peek_le_pre {A} site (pre rest : bytes) k (f : byte -> A) (dflt : A) : 0 <= k ->
  (if len pre + len rest <=? len pre + k then Ok dflt else a <- get site (pre ++ rest) (len pre + k);; Ok (f a))
  = Ok (match after k rest with a :: _ => f a | [] => dflt end).
Proof.
  intros Hk. destruct (after k rest) as [|a l] eqn:E.
  - apply after_len_nil in E; [|lia]. destruct (len pre + len rest <=? len pre + k) eqn:C; [reflexivity|lia].
  - pose proof (after_cons_len _ _ _ _ Hk E) as [L _].
    destruct (len pre + len rest <=? len pre + k) eqn:C; [lia|].
    rewrite get_pre by lia. rewrite (get_head _ _ _ _ _ Hk E). reflexivity.
Qed.

Lemma radix_string_ref (D : bytes) (dg : byte -> bool) s pre b r :
  (forall x, mem x D = dg x) ->
  input s = pre ++ b :: r -> pos s = len pre ->
  lex_ok s pre (b :: r) (lex_radix_string dg (b :: r)) (parse_xb_string D s tok0).
Proof.
  intros HD Hi Hp. pose proof (len_nonneg pre) as Lpre.
  assert (W : lex_ok s pre (b :: r) (lex_word (b :: r)) (parse_word s tok0)) by (apply word_ref; assumption).
  unfold parse_xb_string, lex_radix_string, str_len_spn.
  destruct r as [|c [|d r3]].
  - open_lexer Hi Hp. rewrite len_nil. dec. rewrite after_cons, after_0 by lia. cbn [head_is andb]. exact W.
  - open_lexer Hi Hp. rewrite len_nil. dec.
    replace (after (2 + span dg (after 2 [b; c])) [b; c]) with (@nil byte) by reflexivity.
    cbn [head_is bind]. rewrite andb_false_r. exact W.
  - pose proof (len_nonneg r3) as L3. open_lexer Hi Hp. dec. gets.
    rewrite (after_cons 1), after_0 by lia. cbn [head_is].
    change b_byte_single with x27.
    destruct (beq c x27); cbn [negb andb]; [|exact W].
    rewrite drop_pre by (rewrite !len_cons; lia). cbn [bind].
    rewrite (after_cons 2), (after_cons (2 - 1)), after_0 by lia.
    rewrite span_len_exact by (rewrite !len_cons; lia). cbn [bind].
    rewrite (span_ext (fun b0 => mem b0 D) dg) by exact HD.
    set (n := span dg (d :: r3)). pose proof (span_range dg (d :: r3)) as R. fold n in R. rewrite len_cons in R.
    replace (Z.min (len pre + (1 + (1 + (1 + len r3))) - len pre - 2) n) with n by lia.
    replace (len pre + (1 + (1 + (1 + len r3)))) with (len pre + len (b :: c :: d :: r3)) by (rewrite !len_cons; lia).
    replace (len pre + 2 + n) with (len pre + (2 + n)) by lia.
    rewrite (peek_le_pre _ pre (b :: c :: d :: r3) (2 + n) (fun a => negb (beq a x27)) true) by lia.
    destruct (after (2 + n) (b :: c :: d :: r3)) as [|q tl] eqn:Ea; cbn [bind head_is]; [exact W|].
    apply after_cons_len in Ea; [|lia]. rewrite !len_cons in Ea.
    destruct (beq q x27); cbn [negb]; [|exact W].
    rewrite drop_pre0. replace (len pre + (2 + n) + 1) with (len pre + (n + 3)) by lia. plain_done.
Qed.

(* ---------- e'..'  u&'..' ---------- *)

Lemma estring_ref s pre b r :
  input s = pre ++ b :: r -> pos s = len pre ->
  lex_ok s pre (b :: r) (lex_estring (b :: r)) (parse_estring s tok0).
Proof.
  intros Hi Hp. pose proof (len_nonneg pre) as Lpre.
  assert (W : lex_ok s pre (b :: r) (lex_word (b :: r)) (parse_word s tok0)) by (apply word_ref; assumption).
  unfold lex_estring. rewrite after_cons, after_0 by lia.
  destruct r as [|c [|d r3]].
  - unfold parse_estring. open_lexer Hi Hp. rewrite len_nil. dec. cbn [head_is andb bind]. exact W.
  - unfold parse_estring. open_lexer Hi Hp. rewrite len_nil. dec. cbn [bind]. rewrite andb_false_r. exact W.
  - pose proof (len_nonneg r3) as L3. rewrite !len_cons. cbn [head_is]. replace (2 <? 1 + (1 + (1 + len r3))) with true by lia. rewrite andb_true_r.
    destruct (beq c x27) eqn:Ec.
    + apply beq_eq in Ec. subst c.
      rewrite (parse_estring_full s tok0) by (rewrite ?Hp, ?Hi, ?len_app, ?len_cons, ?nth_pre by lia; try lia; reflexivity).
      rewrite Hp, Hi. rewrite skipn_pre by lia. rewrite lit_result_rel by (rewrite !len_cons; lia).
      cbn [t_count tok0]. rewrite with_count_literal0. unfold quoted.
      apply lex_ok_same; apply literal_stats.
    + unfold parse_estring. open_lexer Hi Hp. dec. gets. change b_byte_single with x27. rewrite Ec. cbn [negb]. exact W.
Qed.

Lemma ustring_ref s pre b r :
  input s = pre ++ b :: r -> pos s = len pre ->
  lex_ok s pre (b :: r) (lex_ustring (b :: r)) (parse_ustring s tok0).
Proof.
  intros Hi Hp. pose proof (len_nonneg pre) as Lpre.
  assert (W : lex_ok s pre (b :: r) (lex_word (b :: r)) (parse_word s tok0)) by (apply word_ref; assumption).
  unfold lex_ustring. rewrite after_cons, after_0 by lia.
  destruct r as [|c [|d r3]].
  - unfold parse_ustring. open_lexer Hi Hp. rewrite len_nil. dec. cbn [starts bind]. exact W.
  - unfold parse_ustring. open_lexer Hi Hp. rewrite len_nil. dec. cbn [starts bind]. rewrite andb_false_r. exact W.
  - pose proof (len_nonneg r3) as L3. cbn [starts]. rewrite andb_true_r.
    destruct (beq c x26 && beq d x27) eqn:Ec.
    + apply andb_true_iff in Ec. destruct Ec as [Ec Ed]. apply beq_eq in Ec, Ed. subst c d.
      rewrite (parse_ustring_full s tok0) by (rewrite ?Hp, ?Hi, ?nth_pre by lia; try lia; reflexivity).
      rewrite Hp, Hi. rewrite skipn_pre by lia. rewrite lit_result_rel by (rewrite !len_cons; lia).
      cbn [t_count tok0]. rewrite with_count_literal0.
      apply lex_ok_intro; try reflexivity; apply literal_stats.
    + unfold parse_ustring. open_lexer Hi Hp. dec. gets. change b_byte_single with x27.
      destruct (beq c x26); cbn [andb] in Ec; gets; [rewrite Ec|]; exact W.
Qed.

(* ---------- q'X..Y'  nq'X..Y'  n'..' ---------- *)

Lemma get_pre_after site (pre rest : bytes) k a tl : 0 <= k -> after k rest = a :: tl ->
  get site (pre ++ rest) (len pre + k) = Ok a.
Proof. intros Hk E. rewrite get_pre by lia. apply (get_head _ _ _ _ tl Hk E). Qed.

Lemma after_step (l : bytes) k a tl : 0 <= k -> after k l = a :: tl -> after (k + 1) l = tl.
Proof. intros Hk E. apply (proj2 (upto_snoc l k a tl Hk E)). Qed.

Lemma qstring_ref k s pre rest :
  0 <= k -> input s = pre ++ rest -> pos s = len pre ->
  lex_ok s pre rest (lex_qstring k rest) (parse_qstring_core k s tok0).
Proof.
  intros Hk Hi Hp. pose proof (len_nonneg pre) as Lpre.
  assert (W : lex_ok s pre rest (lex_word rest) (parse_word s tok0)) by (apply word_ref; assumption).
  unfold lex_qstring.
  destruct (after k rest) as [|q r1] eqn:E0.
  { apply after_len_nil in E0; [|lia]. unfold parse_qstring_core. open_lexer Hi Hp. dec. exact W. }
  pose proof (after_cons_len _ _ _ _ Hk E0) as [L0 L0'].
  pose proof (after_step _ _ _ _ Hk E0) as E1.
  assert (G0 : forall site, get site (pre ++ rest) (len pre + k) = Ok q) by (intros; eapply get_pre_after; eassumption).
  destruct r1 as [|a r2].
  { rewrite len_nil in L0'. unfold parse_qstring_core. open_lexer Hi Hp. dec. rewrite G0. cbn [bind].
    destruct (negb (beq q x71) && negb (beq q x51)); [exact W|]. dec. exact W. }
  assert (G1 : forall site, get site (pre ++ rest) (len pre + (k + 1)) = Ok a) by (intros; eapply get_pre_after; [lia|eassumption]).
  assert (Hk1 : 0 <= k + 1) by lia. assert (Hk2 : 0 <= k + 2) by lia.
  pose proof (after_step _ _ _ _ Hk1 E1) as E2. replace (k + 1 + 1) with (k + 2) in E2 by lia.
  destruct r2 as [|ch body].
  { rewrite !len_cons, len_nil in L0'. unfold parse_qstring_core. open_lexer Hi Hp. dec. rewrite G0. cbn [bind].
    destruct (negb (beq q x71) && negb (beq q x51)); [exact W|]. dec. exact W. }
  assert (G2 : forall site, get site (pre ++ rest) (len pre + (k + 2)) = Ok ch) by (intros; eapply get_pre_after; [lia|eassumption]).
  pose proof (after_step _ _ _ _ Hk2 E2) as E3. replace (k + 2 + 1) with (k + 3) in E3 by lia.
  rewrite !len_cons in L0'. pose proof (len_nonneg body) as Lb.
  destruct (either x51 x71 q && beq a x27 && (33 <=? code ch)) eqn:C.
  - apply andb_true_iff in C. destruct C as [C C3]. apply andb_true_iff in C. destruct C as [C1 C2].
    apply beq_eq in C2. subst a.
    rewrite (parse_qstring_core_full k s tok0 q ch); cbv zeta; rewrite ?Hp, ?Hi; try lia.
    + replace (len pre + k + 3) with (len pre + (k + 3)) by lia.
      rewrite skipn_pre by lia. rewrite lit_result_rel by lia. rewrite E3.
      cbn [t_count tok0]. rewrite with_count_literal0. apply lex_ok_same; apply literal_stats.
    + rewrite nth_pre by lia. apply (nth_after _ _ _ _ Hk E0).
    + unfold either in C1. apply orb_true_iff in C1. destruct C1 as [C1|C1]; apply beq_eq in C1; auto.
    + replace (len pre + k + 1) with (len pre + (k + 1)) by lia. rewrite nth_pre by lia. apply (nth_after _ _ _ _ Hk1 E1).
    + replace (len pre + k + 2) with (len pre + (k + 2)) by lia. rewrite nth_pre by lia. apply (nth_after _ _ _ _ Hk2 E2).
  - unfold parse_qstring_core. open_lexer Hi Hp. dec. rewrite G0. cbn [bind].
    unfold either in C. change b_byte_single with x27.
    replace (len pre + k + 1) with (len pre + (k + 1)) by lia.
    replace (len pre + k + 2) with (len pre + (k + 2)) by lia.
    destruct (beq q x71) eqn:Q1; destruct (beq q x51) eqn:Q2; cbn [negb andb orb bind] in *; try exact W.
    all: rewrite G1; cbn [bind]; destruct (beq a x27); cbn [negb andb] in *; try exact W.
    all: rewrite G2; cbn [bind]; destruct (code ch <? 33) eqn:C3; [exact W|lia].
Qed.

Lemma nqstring_ref s pre b r :
  input s = pre ++ b :: r -> pos s = len pre ->
  lex_ok s pre (b :: r) (lex_nqstring (b :: r)) (parse_nqstring s tok0).
Proof.
  intros Hi Hp. pose proof (len_nonneg pre) as Lpre.
  assert (E : lex_ok s pre (b :: r) (lex_estring (b :: r)) (parse_estring s tok0)) by (apply estring_ref; assumption).
  assert (Q : lex_ok s pre (b :: r) (lex_qstring 1 (b :: r)) (parse_qstring_core 1 s tok0)) by (apply qstring_ref; try assumption; lia).
  unfold lex_nqstring, parse_nqstring. rewrite after_cons, after_0 by lia. open_lexer Hi Hp.
  destruct r as [|c [|d r3]]; rewrite ?len_cons, ?len_nil; [| |pose proof (len_nonneg r3)]; dec; cbn [head_is andb bind].
  - exact Q.
  - replace (2 <? 1 + (1 + 0)) with false by lia. rewrite andb_false_r. exact Q.
  - gets. change b_byte_single with x27. replace (2 <? 1 + (1 + (1 + len r3))) with true by lia. rewrite andb_true_r.
    destruct (beq c x27); [exact E|exact Q].
Qed.

(* ---------- numbers ---------- *)

Lemma span_digit l : span is_digit l = span is_dec l.
Proof. apply span_ext. apply is_dec_digit. Qed.

Lemma head_is_match (f : byte -> bool) (l : bytes) :
  match l with a :: _ => f a | [] => false end = head_is f l.
Proof. reflexivity. Qed.


Lemma peek_eq_gen {A} site (pre rest : bytes) k (F : byte -> res A) (D : res A) : 0 <= k <= len rest ->
  (if len pre + k =? len pre + len rest then D else a <- get site (pre ++ rest) (len pre + k);; F a)
  = match after k rest with a :: _ => F a | [] => D end.
Proof.
  intros Hk. destruct (after k rest) as [|a l] eqn:E.
  - apply after_len_nil in E; [|lia]. destruct (len pre + k =? len pre + len rest) eqn:C; [reflexivity|lia].
  - pose proof (after_cons_len _ _ _ _ (proj1 Hk) E) as [L _].
    destruct (len pre + k =? len pre + len rest) eqn:C; [lia|].
    rewrite get_pre by lia. rewrite (get_head _ _ _ _ _ (proj1 Hk) E). reflexivity.
Qed.

(* the common end of parseNumber: the optional d/f suffix, then the token *)
Lemma number_tail s pre rest n (bare : bool) :
  0 <= n <= len rest ->
  lex_ok s pre rest
    (plain (if bare then x6e else x31) (n + b2z (num_suffix (after n rest))) (n + b2z (num_suffix (after n rest))))
    (suffix <-
     (if len pre + n <? len pre + len rest
      then a0 <- get "parseNumber" (pre ++ rest) (len pre + n);;
           Ok (beq a0 x64 || beq a0 x44 || beq a0 x66 || beq a0 x46)
      else Ok false);;
     p <-
     (if (suffix : bool)
      then
       if len pre + n + 1 =? len pre + len rest
       then Ok (len pre + n + 1)
       else
        b <- get "parseNumber:suffix" (pre ++ rest) (len pre + n + 1);;
        (if is_byte_white b || beq b x3b
         then Ok (len pre + n + 1)
         else if beq b x75 || beq b x55 then Ok (len pre + n + 1) else Ok (len pre + n))
      else Ok (len pre + n));;
     rest0 <- drop "parseNumber:input[start:]" (pre ++ rest) (len pre);;
     (if bare
      then t <- assign tok0 b_sqli_token_type_bare_word (len pre) (p - len pre) rest0;; Ok (s, t, p)
      else t <- assign tok0 b_sqli_token_type_number (len pre) (p - len pre) rest0;; Ok (s, t, p))).
Proof.
  intros Hn. pose proof (len_nonneg pre) as Lpre.
  rewrite (peek_pre _ pre rest n (fun a0 => beq a0 x64 || beq a0 x44 || beq a0 x66 || beq a0 x46) false) by lia.
  cbn [bind].
  assert (Fin : forall k, 0 <= k <= len rest ->
            lex_ok s pre rest (plain (if bare then x6e else x31) k k)
              (rest0 <- drop "parseNumber:input[start:]" (pre ++ rest) (len pre);;
               (if bare
                then t <- assign tok0 b_sqli_token_type_bare_word (len pre) (len pre + k - len pre) rest0;; Ok (s, t, len pre + k)
                else t <- assign tok0 b_sqli_token_type_number (len pre) (len pre + k - len pre) rest0;; Ok (s, t, len pre + k)))).
  { intros k Hk. rewrite drop_pre0. cbn [bind]. replace (len pre + k - len pre) with k by lia.
    destruct bare; plain_done. }
  destruct (after n rest) as [|c tl] eqn:Ea.
  - cbn [num_suffix b2z bind]. rewrite Z.add_0_r. apply Fin. lia.
  - pose proof (after_cons_len _ _ _ _ (proj1 Hn) Ea) as [Ln Ltl].
    assert (Es : beq c x64 || beq c x44 || beq c x66 || beq c x46 = either x44 x64 c || either x46 x66 c).
    { unfold either. destruct (beq c x64), (beq c x44), (beq c x66), (beq c x46); reflexivity. }
    rewrite Es. clear Es. cbn [num_suffix].
    destruct (either x44 x64 c || either x46 x66 c); cbn [andb b2z bind].
    + replace (len pre + n + 1) with (len pre + (n + 1)) by lia.
      rewrite (peek_eq_gen _ pre rest (n + 1)) by lia.
      rewrite (after_step _ _ _ _ (proj1 Hn) Ea).
      destruct tl as [|b tl'].
      * cbn [bind b2z]. apply Fin. lia.
      * rewrite len_cons in Ltl. pose proof (len_nonneg tl').
        rewrite white_set. unfold either.
        replace (sql_white b || beq b x3b || (beq b x55 || beq b x75))
          with (if sql_white b || beq b x3b then true else beq b x75 || beq b x55)
          by (destruct (sql_white b), (beq b x3b), (beq b x55), (beq b x75); reflexivity).
        destruct (sql_white b || beq b x3b); cbn [bind b2z]; [apply Fin; lia|].
        destruct (beq b x75 || beq b x55); cbn [bind b2z]; [apply Fin; lia|].
        rewrite Z.add_0_r. apply Fin. lia.
    + rewrite Z.add_0_r. apply Fin. lia.
Qed.

Lemma number_ref s pre c0 r :
  input s = pre ++ c0 :: r -> pos s = len pre ->
  lex_ok s pre (c0 :: r) (lex_number (c0 :: r)) (parse_number s tok0).
Proof.
  intros Hi Hp. pose proof (len_nonneg pre) as Lpre. pose proof (len_nonneg r) as Lr.
  unfold parse_number, str_len_spn. unfold at_ at 1. rewrite Hp, Hi. rewrite get_pre0, get_0. cbn [bind].
  set (rest := c0 :: r) in *.
  assert (Lrest : len rest = 1 + len r) by (unfold rest; apply len_cons).
  (* the radix prefix *)
  assert (Rx : (if beq c0 x30 && (len pre + 1 <? slen s)
                then c1 <- at_ "parseNumber" s (len pre + 1);;
                     Ok (if beq c1 x58 || beq c1 x78 then bs "0123456789ABCDEFabcdef"
                         else if beq c1 x42 || beq c1 x62 then bs "01" else [])
                else Ok [])
               = Ok (match radix rest with
                     | Some _ => if head_is (either x58 x78) r then bs "0123456789ABCDEFabcdef" else bs "01"
                     | None => [] end)).
  { clear Lrest. unfold radix, at_, slen. rewrite Hi, len_app. unfold rest. rewrite len_cons. destruct r as [|c1 r']; rewrite ?len_nil, ?len_cons.
    - replace (len pre + 1 <? len pre + (1 + 0)) with false by lia. rewrite andb_false_r. reflexivity.
    - pose proof (len_nonneg r'). replace (len pre + 1 <? len pre + (1 + (1 + len r'))) with true by lia.
      rewrite andb_true_r. destruct (beq c0 x30); [|reflexivity]. gets. cbn [head_is]. unfold either.
      destruct (beq c1 x58 || beq c1 x78); [reflexivity|]. destruct (beq c1 x42 || beq c1 x62); reflexivity. }
  rewrite Rx. clear Rx. cbn [bind]. unfold lex_number.
  destruct (radix rest) as [dg|] eqn:Erx.
  - (* 0x.. / 0b.. *)
    assert (X : exists D, (if head_is (either x58 x78) r then bs "0123456789ABCDEFabcdef" else bs "01") = D /\
                          D <> [] /\ (forall b, mem b D = dg b) /\ 2 <= len rest).
    { unfold radix, rest in Erx. destruct r as [|c1 r']; [discriminate|]. unfold rest. rewrite !len_cons. pose proof (len_nonneg r').
      destruct (beq c0 x30); [|discriminate]. cbn [head_is].
      destruct (either x58 x78 c1).
      - injection Erx as <-. eexists. split; [reflexivity|]. split; [discriminate|]. split; [apply hex_set1|lia].
      - destruct (either x42 x62 c1); [|discriminate]. injection Erx as <-.
        eexists. split; [reflexivity|]. split; [discriminate|]. split; [apply bin_set|lia]. }
    destruct X as (D & -> & Dne & HD & L2). destruct D as [|d0 D']; [congruence|]. clear Dne.
    open_lexer Hi Hp. rewrite drop_pre by lia. cbn [bind].
    pose proof (span_range dg (after 2 rest)) as R. rewrite len_after in R by lia.
    rewrite span_len_exact by (rewrite len_after; lia). cbn [bind].
    rewrite (span_ext (fun b => mem b (d0 :: D')) dg) by exact HD.
    replace (Z.min (len pre + len rest - len pre - 2) (span dg (after 2 rest))) with (span dg (after 2 rest)) by lia.
    rewrite drop_pre0. cbn [bind].
    destruct (span dg (after 2 rest) =? 0) eqn:E0; [plain_done|].
    replace (len pre + 2 + span dg (after 2 rest)) with (len pre + (2 + span dg (after 2 rest))) by lia. plain_done.
  - assert (EX : exists X, X = lex_number rest /\
                 X = match radix rest with Some _ => blank | None => lex_number rest end).
    { exists (lex_number rest). rewrite Erx. auto. }
    destruct EX as (X & EX & EX2). rewrite Erx in EX2. unfold lex_number in EX2 at 1. rewrite Erx in EX2.
    rewrite <- EX2. clear EX2. unfold lex_number in EX. rewrite Erx in EX. cbv zeta in EX.
    open_lexer Hi Hp. rewrite drop_pre0. cbn [bind]. rewrite span_digit.
    set (a := span is_dec rest) in *. pose proof (span_range is_dec rest) as Ra. fold a in Ra.
    rewrite (peek_pre _ pre rest a (fun x => beq x x2e) false) by lia. rewrite head_is_match. cbn [bind].
    set (dot := head_is (fun b => beq b x2e) (after a rest)) in *.
    set (m := if dot then a + 1 + span is_dec (after (a + 1) rest) else a) in *.
    assert (Hm : a <= m <= len rest /\ (dot = true -> a + 1 <= m)).
    { unfold m, dot. destruct (after a rest) as [|x tl] eqn:Ea; cbn [head_is]; [lia|].
      apply after_cons_len in Ea; [|lia]. destruct (beq x x2e); [|lia].
      pose proof (span_range is_dec (after (a + 1) rest)) as Q. rewrite len_after in Q by lia. lia. }
    assert (Fr : (if dot
                  then r0 <- drop "parseNumber:frac" (pre ++ rest) (len pre + a + 1);;
                       Ok (len pre + a + 1 + span is_digit r0)
                  else Ok (len pre + a)) = Ok (len pre + m)).
    { unfold m. destruct dot; [|reflexivity]. replace (len pre + a + 1) with (len pre + (a + 1)) by lia.
      rewrite drop_pre by lia. cbn [bind]. rewrite span_digit. f_equal. lia. }
    rewrite Fr. clear Fr. cbn [bind]. replace (len pre + m - len pre) with m by lia.
    destruct (dot && (m =? 1)) eqn:Edot.
    { apply andb_true_iff in Edot. destruct Edot as [Ed Em]. rewrite EX.
      assert (a = 0) by (destruct Hm as [_ Hm]; specialize (Hm Ed); lia).
      assert (c0 = x2e).
      { unfold dot in Ed. rewrite H, after_0 in Ed. unfold rest in Ed. cbn [head_is] in Ed. apply beq_eq. exact Ed. }
      subst c0. replace (len pre + m) with (len pre + 1) by lia. plain_done. }
    clear Edot.
    rewrite (peek_pre _ pre rest m (either x45 x65) false) by lia. rewrite head_is_match. cbn [bind].
    destruct (head_is (either x45 x65) (after m rest)) eqn:Ee.
    + (* an exponent marker *)
      assert (Lm : m < len rest).
      { destruct (after m rest) as [|y tl] eqn:Ea; [discriminate|]. apply after_cons_len in Ea; lia. }
      cbn [andb] in EX.
      replace (len pre + m + 1) with (len pre + (m + 1)) by lia.
      rewrite (peek_pre _ pre rest (m + 1) (either x2b x2d) false) by lia. rewrite head_is_match. cbn [bind].
      set (sg := head_is (either x2b x2d) (after (m + 1) rest)) in *.
      assert (Lsg : m + 1 + b2z sg <= len rest).
      { unfold sg. destruct (after (m + 1) rest) as [|y tl] eqn:Ea; cbn [head_is b2z]; [lia|].
        apply after_cons_len in Ea; [|lia]. destruct (either x2b x2d y); cbn [b2z]; lia. }
      replace (if sg then len pre + (m + 1) + 1 else len pre + (m + 1)) with (len pre + (m + 1 + b2z sg))
        by (destruct sg; cbn [b2z]; lia).
      rewrite drop_pre by (destruct sg; cbn [b2z] in *; lia). cbn [bind]. rewrite span_digit.
      set (x := span is_dec (after (m + 1 + b2z sg) rest)) in *.
      pose proof (span_range is_dec (after (m + 1 + b2z sg) rest)) as Rx. fold x in Rx.
      rewrite len_after in Rx by (destruct sg; cbn [b2z] in *; lia).
      replace (len pre + (m + 1 + b2z sg) + x) with (len pre + (m + 1 + b2z sg + x)) by lia.
      set (n := m + 1 + b2z sg + x) in *.
      replace (true && negb (0 <? x)) with (x =? 0) by lia. rewrite EX.
      apply number_tail. unfold n. destruct sg; cbn [b2z] in *; lia.
    + cbn [andb] in EX. change (negb false) with true. rewrite EX.
      assert (Hm' : 0 <= m <= len rest) by lia.
      exact (number_tail s pre rest m false Hm').
Qed.

(* ---------- the dispatched lexer ---------- *)

Theorem run_parser_ref s pre b r :
  input s = pre ++ b :: r -> pos s = len pre -> dispatch b <> PWhite ->
  lex_ok s pre (b :: r) (ref_lex (flags s) (b :: r)) (run_parser (dispatch b) s tok0).
Proof.
  intros Hi Hp Hw. pose proof (dispatch_char b) as K. unfold dispatch_char_ok in K.
  unfold ref_lex. pose proof (len_nonneg r) as Lr.
  destruct (dispatch b) eqn:D; cbn [run_parser]; try congruence.
  - eapply operator1_ref; eassumption.
  - apply operator2_ref; assumption.
  - apply string_ref; try assumption. intros ->. vm_compute in K. discriminate.
  - apply beq_eq in K. subst b. apply hash_ref; assumption.
  - apply beq_eq in K. subst b. apply money_ref; assumption.
  - eapply byte_ref; eassumption.
  - apply beq_eq in K. subst b. apply dash_ref; assumption.
  - apply number_ref; assumption.
  - apply slash_ref; assumption.
  - eapply other_ref; eassumption.
  - apply var_ref; try assumption. rewrite len_cons. lia.
  - apply word_ref; assumption.
  - apply (radix_string_ref (bs "01") is_bin); try assumption. apply bin_set.
  - apply estring_ref; assumption.
  - apply nqstring_ref; assumption.
  - apply (qstring_ref 0); try assumption. lia.
  - apply ustring_ref; assumption.
  - apply (radix_string_ref (bs "0123456789abcdefABCDEF") is_hex); try assumption. apply hex_set2.
  - apply bracket_ref; assumption.
  - eapply backslash_ref; eassumption.
  - apply tick_ref; assumption.
Qed.

(* ---------- the scan ---------- *)

(* safety facts re-used from LexSpec: a non-white lexer consumes at least one
   byte, stays inside the input and writes a token with a documented class *)
Lemma run_parser_post s ch :
  lex_pre s -> nth_error (input s) (Z.to_nat (pos s)) = Some ch -> dispatch ch <> PWhite ->
  wp (run_parser (dispatch ch) s tok0) (lex_post s).
Proof.
  intros Hpre N Hw. pose proof (dispatch_char ch) as K. unfold dispatch_char_ok in K.
  destruct (dispatch ch) eqn:D; cbn [run_parser]; try congruence.
  - apply parse_operator1_spec; exact Hpre.
  - apply parse_operator2_spec; exact Hpre.
  - apply parse_string_spec; exact Hpre.
  - apply beq_eq in K. subst ch. apply parse_hash_spec; assumption.
  - apply beq_eq in K. subst ch. apply parse_money_spec; assumption.
  - eapply parse_byte_spec; eassumption.
  - apply beq_eq in K. subst ch. apply parse_dash_spec; assumption.
  - eapply parse_number_spec; eassumption.
  - apply parse_slash_spec; exact Hpre.
  - apply parse_other_spec; exact Hpre.
  - apply parse_var_spec; exact Hpre.
  - apply negb_true_iff in K. eapply parse_word_spec; eassumption.
  - apply negb_true_iff in K. eapply parse_xb_string_spec; eassumption.
  - apply negb_true_iff in K. eapply parse_estring_spec; eassumption.
  - apply negb_true_iff in K. eapply parse_nqstring_spec; eassumption.
  - apply negb_true_iff in K. eapply parse_qstring_core_spec; try eassumption; lia.
  - apply negb_true_iff in K. eapply parse_ustring_spec; eassumption.
  - apply negb_true_iff in K. eapply parse_xb_string_spec; eassumption.
  - apply parse_bword_spec; exact Hpre.
  - apply parse_backslash_spec; exact Hpre.
  - apply parse_tick_spec; exact Hpre.
Qed.

(* one step of the model's inner loop on a non-white byte *)
Lemma step_ref s pre b r :
  input s = pre ++ b :: r -> pos s = len pre -> dispatch b <> PWhite ->
  let x := ref_lex (flags s) (b :: r) in
  exists s',
    run_parser (dispatch b) s tok0 = Ok (s', tok_of (len pre) (b :: r) x, len pre + lx_adv x) /\
    input s' = input s /\ flags s' = flags s /\
    st s' = add_stats (st s) (lx_ddx x) (lx_hash x) /\
    1 <= lx_adv x <= len (b :: r) /\ lx_cat x <> x00.
Proof.
  intros Hi Hp Hw x. pose proof (len_nonneg pre) as Lpre. pose proof (len_nonneg r) as Lr.
  destruct (run_parser_ref s pre b r Hi Hp Hw) as (s' & R & A & B & C). fold x in R, C.
  exists s'. repeat split; try assumption.
  all: assert (Pre : lex_pre s) by (unfold lex_pre, slen; rewrite Hp, Hi, len_app, len_cons; lia).
  all: assert (N : nth_error (input s) (Z.to_nat (pos s)) = Some b) by (rewrite Hp, Hi, nth_pre0; reflexivity).
  all: pose proof (run_parser_post s b Pre N Hw) as P; rewrite R in P; cbn [wp lex_post] in P;
       destruct P as (_ & _ & _ & _ & P5 & P6); unfold slen in P5; rewrite Hp, Hi, len_app in P5.
  - lia.
  - lia.
  - apply tok_at_class in P6. cbn [t_cat tok_of] in P6. intros E. rewrite E in P6. vm_compute in P6. discriminate.
Qed.

(* what tokens_loop does with the outcome of one tokenize call *)
Definition cont (f1 : nat) (acc : list (token * Z * Z)) (start : Z) (x : bool * token * sqlst)
  : res (list (token * Z * Z) * sqlst) :=
  let '(more, t, s1) := x in
  if (more : bool) then tokens_loop f1 s1 ((t, start, pos s1) :: acc) else Ok (rev acc, s1).

Lemma tokens_loop_step f1 s acc :
  tokens_loop (S f1) s acc = (x <- tokenize s tok0 ;; cont f1 acc (pos s) x).
Proof.
  cbn [tokens_loop]. destruct (tokenize s tok0) as [[[more t] s1]| | |]; reflexivity.
Qed.

(* tokenize outside the virtual-quote step is the inner loop *)
Lemma tokenize_inner s :
  input s <> [] -> 0 < pos s \/ Z.land (flags s) (Z.lor c_sqli_flag_quote_single c_sqli_flag_quote_double) = 0 ->
  tokenize s tok0 = tokenize_loop (S (List.length (input s))) s tok0.
Proof.
  intros Hne Hq. unfold tokenize, slen.
  destruct (len (input s) =? 0) eqn:E0.
  { destruct (input s) as [|b0 l0]; [congruence|]. rewrite len_cons in E0. pose proof (len_nonneg l0). lia. }
  destruct Hq as [Hq|Hq].
  - destruct (pos s =? 0) eqn:E1; [lia|]. reflexivity.
  - rewrite Hq. change (0 =? 0) with true. cbn [negb]. rewrite andb_false_r. reflexivity.
Qed.

Lemma tokenize_loop_unfold fuel s t :
  tokenize_loop (S fuel) s t =
  if pos s <? slen s then
    ch <- at_ "tokenize:input[pos]" s (pos s) ;;
    '(s, t, np) <- run_parser (dispatch ch) s t ;;
    let s := set_pos s np in
    if negb (beq (t_cat t) x00) then Ok (true, t, bump_tokens s)
    else tokenize_loop fuel s t
  else Ok (false, t, s).
Proof. reflexivity. Qed.

(* the final state of a scan: the accumulated statistics *)
Definition fin_ok (s sf : sqlst) (l : list (token * Z * Z)) (c : Z * Z) : Prop :=
  input sf = input s /\ flags sf = flags s /\ pos sf = slen s /\
  n_ddx (st sf) = n_ddx (st s) + fst c /\ n_hash (st sf) = n_hash (st s) + snd c /\
  n_folds (st sf) = n_folds (st s) /\ n_tokens (st sf) = n_tokens (st s) + Z.of_nat (List.length l).

Lemma scan_ref : forall n s pre rest acc start f1 f2,
  input s = pre ++ rest -> pos s = len pre ->
  (List.length rest <= n)%nat -> (List.length rest < f2)%nat -> (List.length rest < f1)%nat ->
  exists sf,
    (x <- tokenize_loop f2 s tok0 ;; cont f1 acc start x)
    = Ok (rev acc ++ fst (ref_scan n (flags s) start (len pre) rest), sf) /\
    fin_ok s sf (fst (ref_scan n (flags s) start (len pre) rest)) (snd (ref_scan n (flags s) start (len pre) rest)).
Proof.
  induction n as [|n IH]; intros s pre rest acc start f1 f2 Hi Hp Hn Hf2 Hf1.
  - destruct rest; [|cbn in Hn; lia]. destruct f2 as [|f2]; [cbn in Hf2; lia|].
    cbn [tokenize_loop ref_scan]. unfold slen. rewrite Hp, Hi, app_nil_r.
    replace (len pre <? len pre) with false by lia. cbn [bind cont fst snd]. rewrite app_nil_r.
    exists s. split; [reflexivity|]. unfold fin_ok, slen. rewrite Hp, Hi, app_nil_r. cbn [fst snd List.length]. repeat split; lia.
  - destruct rest as [|b r].
    { destruct f2 as [|f2]; [cbn in Hf2; lia|].
      cbn [tokenize_loop ref_scan]. unfold slen. rewrite Hp, Hi, app_nil_r.
      replace (len pre <? len pre) with false by lia. cbn [bind cont fst snd]. rewrite app_nil_r.
      exists s. split; [reflexivity|]. unfold fin_ok, slen. rewrite Hp, Hi, app_nil_r. cbn [fst snd List.length]. repeat split; lia. }
    destruct f2 as [|f2]; [cbn in Hf2; lia|]. cbn [List.length] in Hn, Hf2, Hf1.
    pose proof (len_nonneg pre) as Lpre. pose proof (len_nonneg r) as Lr.
    rewrite tokenize_loop_unfold. unfold slen, at_. rewrite Hp, Hi, len_app, len_cons.
    replace (len pre <? len pre + (1 + len r)) with true by lia. rewrite get_pre0, get_0. cbn [bind].
    cbn [ref_scan].
    set (x := ref_lex (flags s) (b :: r)).
    assert (Hd : dispatch b = PWhite \/ dispatch b <> PWhite)
      by (destruct (dispatch b); (left; reflexivity) || (right; discriminate)).
    destruct Hd as [Dw|Dw].
    + (* white space: no token, the search goes on *)
      assert (Ex : x = blank) by (unfold x, ref_lex; rewrite Dw; reflexivity).
      rewrite Ex, Dw. cbn [run_parser parse_white bind lx_cat lx_adv blank plain]. rewrite Hp.
      change (negb (beq (t_cat tok0) x00)) with false. cbv iota.
      change (beq x00 x00) with true. cbv iota.
      rewrite after_cons, after_0 by lia.
      set (s2 := set_pos s (len pre + 1)).
      destruct (IH s2 (pre ++ [b]) r acc start f1 f2) as (sf & R & F); try lia.
      { unfold s2. cbn [input set_pos]. rewrite Hi, <- app_assoc. reflexivity. }
      { unfold s2. cbn [pos set_pos]. rewrite len_app, len_cons, len_nil. lia. }
      replace (len (pre ++ [b])) with (len pre + 1) in R, F by (rewrite len_app, len_cons, len_nil; lia).
      change (flags s2) with (flags s) in R, F.
      exists sf. split; [exact R|]. exact F.
    + destruct (step_ref s pre b r Hi Hp Dw) as (s' & R & A & B & C & Adv & Cat). fold x in R, C, Adv, Cat.
      rewrite R. cbn [bind]. cbn [t_cat tok_of].
      assert (Ec : beq (lx_cat x) x00 = false) by (apply beq_neq; exact Cat).
      rewrite Ec. cbn [negb]. cbv iota. cbn [cont].
      set (np := len pre + lx_adv x).
      set (s3 := bump_tokens (set_pos s' np)).
      change (pos s3) with np.
      destruct f1 as [|f1]; [lia|]. cbn [bind cont]. change (pos s3) with np.
      rewrite tokens_loop_step. change (pos s3) with np.
      rewrite len_cons in Adv.
      assert (I3 : input s3 = pre ++ b :: r) by (unfold s3; cbn [input bump_tokens set_stats set_pos]; rewrite A; exact Hi).
      rewrite tokenize_inner;
        [|rewrite I3; intros Q; apply app_eq_nil in Q; destruct Q; discriminate
         |left; change (pos s3) with np; unfold np; lia].
      destruct (split_at_k pre (b :: r) (lx_adv x) ltac:(rewrite len_cons; lia)) as [Sp Lp].
      destruct (IH s3 (pre ++ upto (lx_adv x) (b :: r)) (after (lx_adv x) (b :: r))
                   ((tok_of (len pre) (b :: r) x, start, np) :: acc) np f1 (S (List.length (input s3))))
        as (sf & R3 & F3).
      { rewrite I3. exact Sp. }
      { change (pos s3) with np. unfold np. lia. }
      { assert (len (after (lx_adv x) (b :: r)) = len (b :: r) - lx_adv x) by (apply len_after; rewrite len_cons; lia).
        rewrite len_cons in H. unfold len in *. lia. }
      { rewrite I3, app_length. cbn [List.length].
        assert (len (after (lx_adv x) (b :: r)) = len (b :: r) - lx_adv x) by (apply len_after; rewrite len_cons; lia).
        rewrite len_cons in H. unfold len in *. lia. }
      { assert (len (after (lx_adv x) (b :: r)) = len (b :: r) - lx_adv x) by (apply len_after; rewrite len_cons; lia).
        rewrite len_cons in H. unfold len in *. lia. }
      rewrite Lp in R3, F3. fold np in R3, F3.
      assert (Fl : flags s3 = flags s) by (unfold s3; cbn [flags bump_tokens set_stats set_pos]; exact B).
      rewrite Fl in R3, F3.
      destruct (ref_scan n (flags s) np np (after (lx_adv x) (b :: r))) as [l [d h]].
      cbn [fst snd] in *. exists sf. split.
      * rewrite R3. cbn [rev]. rewrite <- app_assoc. reflexivity.
      * unfold fin_ok in *. unfold slen in *. rewrite I3 in F3. rewrite Hi.
        destruct F3 as (G1 & G2 & G3 & G4 & G5 & G6 & G7).
        unfold s3 in G4, G5, G6, G7. cbn [st bump_tokens set_stats set_pos n_ddx n_hash n_folds n_tokens] in G4, G5, G6, G7.
        rewrite C in G4, G5, G6, G7. cbn [add_stats n_ddx n_hash n_folds n_tokens] in G4, G5, G6, G7.
        cbn [List.length fst snd] in *. repeat split; try assumption; try lia; try congruence.
Qed.

(* ---------- the whole scan ---------- *)

Lemma quote_bits fl :
  Z.land fl (Z.lor c_sqli_flag_quote_single c_sqli_flag_quote_double) = 0 <->
  Z.land fl c_sqli_flag_quote_single = 0 /\ Z.land fl c_sqli_flag_quote_double = 0.
Proof. rewrite Z.land_lor_distr_r. apply Z.lor_eq_0_iff. Qed.

Lemma context_quote_none fl :
  context_quote fl = None ->
  Z.land fl (Z.lor c_sqli_flag_quote_single c_sqli_flag_quote_double) = 0.
Proof.
  unfold context_quote, bit. intros H. apply quote_bits.
  destruct (Z.land fl c_sqli_flag_quote_single =? 0) eqn:E1; cbn [negb] in H; [|discriminate].
  destruct (Z.land fl c_sqli_flag_quote_double =? 0) eqn:E2; cbn [negb] in H; [|discriminate].
  lia.
Qed.

Lemma context_quote_some fl d :
  context_quote fl = Some d ->
  Z.land fl (Z.lor c_sqli_flag_quote_single c_sqli_flag_quote_double) <> 0 /\ flag2delimiter fl = d.
Proof.
  unfold context_quote, bit, flag2delimiter. intros H. rewrite quote_bits.
  destruct (Z.land fl c_sqli_flag_quote_single =? 0) eqn:E1; cbn [negb] in *.
  - destruct (Z.land fl c_sqli_flag_quote_double =? 0) eqn:E2; cbn [negb] in *; [discriminate|].
    injection H as <-. split; [lia|reflexivity].
  - injection H as <-. split; [lia|reflexivity].
Qed.

Theorem tokens_ref inp fl :
  exists sf, tokens inp fl = Ok (ref_tokens fl inp, sf) /\
             input sf = inp /\ pos sf = len inp /\
             n_ddx (st sf) = ref_ddx fl inp /\ n_hash (st sf) = ref_hash fl inp /\
             n_tokens (st sf) = Z.of_nat (List.length (ref_tokens fl inp)) /\ n_folds (st sf) = 0.
Proof.
  unfold tokens, ref_tokens, ref_ddx, ref_hash, ref_run.
  set (s0 := sqli_init inp fl).
  assert (F0 : flags s0 = norm_flags fl) by reflexivity.
  assert (I0 : input s0 = inp) by reflexivity.
  assert (P0 : pos s0 = 0) by reflexivity.
  assert (S0 : st s0 = stats0) by reflexivity.
  rewrite tokens_loop_step. rewrite P0.
  destruct inp as [|b0 inp'] eqn:Einp.
  - (* empty input *)
    unfold tokenize, slen. rewrite I0. change (len [] =? 0) with true. cbv iota. cbn [bind cont rev].
    assert (E : ref_scan (S (S (List.length (@nil byte)))) (norm_flags fl) 0 0 [] = ([], (0, 0))) by reflexivity.
    destruct (context_quote (norm_flags fl)); rewrite E; cbn [fst snd List.length]; exists s0; repeat split.
  - rewrite <- Einp in *. assert (Ne : inp <> []) by (rewrite Einp; discriminate).
    assert (Linp : 1 <= len inp) by (rewrite Einp, len_cons; pose proof (len_nonneg inp'); lia).
    destruct (context_quote (norm_flags fl)) as [d|] eqn:Q.
    + (* quoted context: the virtual opening quote *)
      destruct (context_quote_some _ _ Q) as [Qb Qd].
      rewrite (tokenize_virtual_quote_full s0 tok0) by (rewrite ?I0, ?F0; assumption).
      rewrite I0, F0, Qd.
      pose proof (lit_result_rel 0 [] inp 0 x00 d 1 (find_close d false inp) ltac:(lia)) as LR.
      change ([] ++ inp) with inp in LR. change (len [] + 0) with 0 in LR. change (len []) with 0 in LR.
      rewrite with_count_literal0, Z.add_0_l in LR. cbv zeta. rewrite LR. clear LR.
      change (literal inp 0 x00 d 1 (find_close d false inp)) with (quoted inp 0 x00 d).
      set (x := quoted inp 0 x00 d). cbn [bind cont rev app].
      assert (Adv : 1 <= lx_adv x <= len inp).
      { unfold x, quoted, literal. rewrite after_0. destruct (find_close d false inp) as [i|] eqn:Fc; cbn [lx_adv]; [|lia].
        apply find_close_range in Fc. lia. }
      set (np := lx_adv x) in *.
      set (s1 := bump_tokens (set_pos s0 np)). change (pos s1) with np.
      assert (I1 : input s1 = inp) by exact I0.
      rewrite tokens_loop_step. replace (pos s1) with np by reflexivity.
      rewrite tokenize_inner; [|rewrite I1; exact Ne|left; replace (pos s1) with np by reflexivity; lia].
      destruct (split_at_k [] inp np ltac:(lia)) as [Sp Lp]. cbn [app] in Sp, Lp. change (len [] + np) with np in Lp.
      destruct (scan_ref (S (S (List.length inp))) s1 (upto np inp) (after np inp) [(tok_of 0 inp x, 0, np)] np
                  (List.length inp) (S (List.length (input s1)))) as (sf & R & F).
      { rewrite I1. exact Sp. }
      { change (pos s1) with np. lia. }
      { pose proof (len_after np inp ltac:(lia)) as La. unfold len in *. lia. }
      { rewrite I1. pose proof (len_after np inp ltac:(lia)) as La. unfold len in *. lia. }
      { pose proof (len_after np inp ltac:(lia)) as La. unfold len in *. lia. }
      rewrite Lp in R, F. change (flags s1) with (norm_flags fl) in R, F.
      destruct (ref_scan (S (S (List.length inp))) (norm_flags fl) np np (after np inp)) as [l [dd hh]].
      cbn [fst snd rev app List.length] in *. exists sf. split; [exact R|].
      destruct F as (G1 & G2 & G3 & G4 & G5 & G6 & G7).
      cbn [st bump_tokens set_stats set_pos n_ddx n_hash n_folds n_tokens s1 s0 sqli_init stats0] in G4, G5, G6, G7.
      unfold slen in G3. rewrite I1 in G1, G3.
      repeat split; try assumption; try lia.
    + (* no quote context *)
      pose proof (context_quote_none _ Q) as Qb.
      rewrite tokenize_inner; [|rewrite I0; exact Ne|right; rewrite F0; exact Qb].
      destruct (scan_ref (S (S (List.length inp))) s0 [] inp [] 0 (S (List.length inp)) (S (List.length (input s0)))) as (sf & R & F).
      { exact I0. }
      { exact P0. }
      { lia. }
      { rewrite I0. lia. }
      { lia. }
      rewrite F0 in R, F. change (len []) with 0 in R, F.
      destruct (ref_scan (S (S (List.length inp))) (norm_flags fl) 0 0 inp) as [l [dd hh]].
      cbn [fst snd rev app List.length] in *. exists sf. split; [exact R|].
      destruct F as (G1 & G2 & G3 & G4 & G5 & G6 & G7).
      rewrite S0 in G4, G5, G6, G7. cbn [n_ddx n_hash n_folds n_tokens stats0] in G4, G5, G6, G7.
      unfold slen in G3. rewrite I0 in G1, G3.
      repeat split; try assumption; try lia.
Qed.

(* the statement asked for: the model's scan is Ref's token stream *)
Corollary tokens_eq_ref inp fl : exists st, tokens inp fl = Ok (ref_tokens fl inp, st).
Proof. destruct (tokens_ref inp fl) as (sf & H & _). exists sf. exact H. Qed.
