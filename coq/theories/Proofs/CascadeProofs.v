(* CascadeProofs: IsSQLi is the cascade of independent readings (C12a), and the
   consistency of the verdict with the returned fingerprint (C08). *)
From Coq Require Import List ZArith String Bool Lia ZifyBool.
From Coq.Strings Require Import Byte.
From Coq.FSets Require Import FMapPositive.
From LI Require Import Prelude Base SqliLex SqliFold Proofs.BaseFacts Proofs.Wp Proofs.LexBase Proofs.LexSpec
  Proofs.FoldBase Proofs.FoldSpec Proofs.FoldLoop Proofs.CheckSpec Spec.CascadeSpec.
From LIGen Require Import Tables Dispatch Consts.
Import ListNotations.
Local Open Scope Z_scope.
Local Open Scope res_scope.

(* ---------- TASK A: is_sqli = cascade ---------- *)

(* a pass looks at the incoming state only through its input *)
Lemma sqli_fingerprint_input s s' fl :
  input s = input s' -> sqli_fingerprint s fl = sqli_fingerprint s' fl.
Proof. intros H. unfold sqli_fingerprint, reset. rewrite H. reflexivity. Qed.

(* ... and hands on a state with the same input *)
Lemma sqli_fingerprint_keeps_input s fl fp w s2 :
  sqli_fingerprint s fl = Ok (fp, w, s2) -> input s2 = input s.
Proof.
  intros E. pose proof (sqli_fingerprint_spec s fl) as H. rewrite E in H.
  destruct H as [H _]. exact H.
Qed.

(* one pass of `check` on whatever state the previous passes left behind is the
   reading of the input on a fresh state; the continuation sees the statistics
   of that reading *)
Lemma pass_eq inp s fl (k : sqlst -> res (bool * bytes)) (k' : stats -> res (bool * bytes)) :
  input s = inp ->
  (forall s2, input s2 = inp -> k s2 = k' (st s2)) ->
  ('(fp, w, s2) <- sqli_fingerprint s fl ;;
   v <- check_fingerprint s2 fp w ;;
   if (v : bool) then Ok (true, fp) else k s2)
  = try_reading inp fl k'.
Proof.
  intros Hs Hk. unfold try_reading, fingerprint_ctx.
  rewrite (sqli_fingerprint_input s (sqli_init inp 0) fl) by (rewrite Hs; reflexivity).
  destruct (sqli_fingerprint (sqli_init inp 0) fl) as [[[fp w] s2]| | |] eqn:E; try reflexivity.
  apply sqli_fingerprint_keeps_input in E. cbn [input sqli_init] in E.
  cbn [bind]. destruct (check_fingerprint s2 fp w) as [v| | |]; try reflexivity. cbn [bind].
  destruct v; [reflexivity|]. apply Hk. exact E.
Qed.

Lemma check_cascade inp s : input s = inp -> check s = cascade inp.
Proof.
  intros Hs. unfold check, cascade, slen. rewrite Hs. destruct (len inp =? 0); [reflexivity|].
  cbv zeta. unfold ansi_then_mysql.
  unfold has_byte, ctx_double_mysql, not_sqli.
  repeat first
    [ reflexivity
    | apply pass_eq; [congruence | intros ? ?]
    | match goal with
      | H : input ?s2 = inp |- context [input ?s2] => rewrite H
      end
    | match goal with
      | |- context [reparse_as_mysql ?s2] =>
          change (reparse_as_mysql s2) with (mysql_gate (st s2)); destruct (mysql_gate (st s2))
      end
    | match goal with
      | |- (if negb ?c then _ else _) = (if negb ?c then _ else _) => destruct c; cbn [negb]
      end ].
Qed.

(* IsSQLi blanks the fingerprint of a false verdict; the cascade already
   returns the empty fingerprint then *)
Definition blank (r : res (bool * bytes)) : res (bool * bytes) :=
  '(b, fp) <- r ;; if (b : bool) then Ok (true, fp) else Ok (false, []).

Lemma blank_try inp fl k :
  (forall x, blank (k x) = k x) -> blank (try_reading inp fl k) = try_reading inp fl k.
Proof.
  intros Hk. unfold try_reading.
  destruct (fingerprint_ctx inp fl) as [[[[fp bl] v] x]| | |]; try reflexivity.
  cbn [bind]. destruct v; [reflexivity|]. apply Hk.
Qed.

Lemma blank_cascade inp : blank (cascade inp) = cascade inp.
Proof.
  unfold cascade, ansi_then_mysql, not_sqli.
  repeat first
    [ reflexivity
    | apply blank_try; intros ?
    | match goal with |- context [if ?c then _ else _] => destruct c end ].
Qed.

Theorem is_sqli_cascade inp : is_sqli inp = cascade inp.
Proof.
  unfold is_sqli. rewrite (check_cascade inp (sqli_init inp 0)) by reflexivity.
  apply blank_cascade.
Qed.

(* the cascade written as a list of gated steps is the same function *)
Lemma cascade_list_eq inp : cascade_list inp = cascade inp.
Proof.
  unfold cascade_list, cascade. destruct (len inp =? 0); [reflexivity|].
  unfold cascade_steps, ansi_then_mysql. cbn [run_steps gate_of andb].
  unfold ctx_none_ansi, ctx_none_mysql, ctx_single_ansi, ctx_single_mysql.
  destruct (has_byte inp b_byte_single); destruct (has_byte inp b_byte_double);
    cbn [andb]; reflexivity.
Qed.

(* what a result of the cascade is made of *)
Definition from_reading (inp : bytes) (r : res (bool * bytes)) : Prop :=
  forall b fp, r = Ok (b, fp) ->
    (b = false -> fp = []) /\
    (b = true -> exists fl, In fl all_contexts /\
                 exists bl x, fingerprint_ctx inp fl = Ok (fp, bl, true, x)).

Lemma from_reading_not_sqli inp : from_reading inp not_sqli.
Proof.
  intros b fp E. unfold not_sqli in E. inversion E; subst. split; [reflexivity|discriminate].
Qed.

Lemma from_reading_try inp fl k :
  In fl all_contexts -> (forall x, from_reading inp (k x)) -> from_reading inp (try_reading inp fl k).
Proof.
  intros Hfl Hk b fp. unfold try_reading.
  destruct (fingerprint_ctx inp fl) as [[[[fp0 bl] v] x]| | |] eqn:E; try discriminate.
  cbn [bind]. destruct v; [|apply Hk].
  intros R. inversion R; subst. split; [discriminate|]. intros _.
  exists fl. split; [exact Hfl|]. exists bl, x. exact E.
Qed.

Lemma cascade_from_reading inp : from_reading inp (cascade inp).
Proof.
  unfold cascade, ansi_then_mysql.
  repeat first
    [ apply from_reading_not_sqli
    | apply from_reading_try; [unfold all_contexts, ctx_none_ansi, ctx_none_mysql, ctx_single_ansi,
                                 ctx_single_mysql, ctx_double_mysql; cbn [In]; tauto | intros ?]
    | match goal with |- from_reading _ (if ?c then _ else _) => destruct c end
    | progress cbv zeta ].
Qed.

(* ---------- TASK B: the verdict and the fingerprint agree ---------- *)

Lemma check_fingerprint_true s fp w : check_fingerprint s fp w = Ok true -> blacklist fp = true.
Proof. unfold check_fingerprint. destruct (blacklist fp); [reflexivity|discriminate]. Qed.

(* a reading with verdict true: blacklisted, made of documented class characters *)
Lemma reading_true inp fl fp bl x :
  fingerprint_ctx inp fl = Ok (fp, bl, true, x) ->
  blacklist fp = true /\ Forall (fun c => is_class c = true) fp.
Proof.
  unfold fingerprint_ctx. intros E.
  destruct (wp_inv _ _ (sqli_fingerprint_spec (sqli_init inp 0) fl)) as [[[fp0 w] s2] [E1 (A & W & F)]].
  rewrite E1 in E. cbn [bind] in E.
  destruct (check_fingerprint s2 fp0 w) as [v| | |] eqn:E2; try discriminate.
  cbn [bind] in E. inversion E; subst. split; [eapply check_fingerprint_true; exact E2|].
  destruct F as [->|(-> & Fw & _)].
  - constructor; [reflexivity|constructor].
  - apply Forall_forall. intros c Hc. apply in_map_iff in Hc. destruct Hc as (t & <- & Ht).
    rewrite Forall_forall in Fw. destruct (Fw _ Ht) as (_ & _ & C). exact C.
Qed.

(* the shipped table: an 'F' key is one byte followed by 1..5 bytes with 'C'
   nowhere but in last position *)
Definition fp_key_shape (k : bytes) : bool :=
  match k with
  | _ :: cs => (1 <=? len cs) && (len cs <=? 5) && negb (existsb (fun c => beq c x43) (removelast cs))
  | [] => false
  end.

Lemma kw_find_fp_shape key :
  kw_find sql_kwmap key = b_sqli_token_type_fingerprint -> fp_key_shape key = true.
Proof.
  assert (S : forallb (fun e => negb (beq (snd (snd e)) b_sqli_token_type_fingerprint) || fp_key_shape (fst (snd e)))
                      (PositiveMap.elements sql_kwmap) = true) by (vm_compute; reflexivity).
  unfold kw_find. destruct (PositiveMap.find (encode key) sql_kwmap) as [[k v]|] eqn:F; [|discriminate].
  destruct (bytes_eqb k key) eqn:E; [|discriminate]. intros ->.
  apply PositiveMap.elements_correct in F. rewrite forallb_forall in S. specialize (S _ F). cbn [fst snd] in S.
  apply bytes_eqb_eq in E. subst k. rewrite beq_refl in S. exact S.
Qed.

Lemma nth_error_removelast {A} (l : list A) i x :
  nth_error l i = Some x -> S i <> List.length l -> In x (removelast l).
Proof.
  revert i. induction l as [|a l IH]; intros i N L; [destruct i; discriminate|].
  destruct l as [|b l'].
  - destruct i as [|i]; [cbn in L; lia|destruct i; discriminate].
  - cbn [removelast]. destruct i as [|i].
    + cbn in N. inversion N. left. reflexivity.
    + right. apply (IH i); [exact N|cbn [List.length] in *; lia].
Qed.

Lemma upper2_comment : upper_ascii (upper_ascii b_sqli_token_type_comment) = x43.
Proof. reflexivity. Qed.

Lemma blacklist_shape fp :
  blacklist fp = true -> Forall (fun c => is_class c = true) fp ->
  1 <= len fp <= 5 /\
  (forall i, nth_error fp i = Some b_sqli_token_type_comment -> S i = List.length fp) /\
  search_keyword (x30 :: map upper_ascii fp) = b_sqli_token_type_fingerprint.
Proof.
  intros B C. unfold blacklist in B. destruct (len fp <? 1); [discriminate|].
  rewrite blacklist_upper_map in B. apply beq_eq in B.
  assert (K := B). unfold search_keyword in K.
  rewrite go_upper_view_ascii in K.
  2:{ cbn [forallb]. change (is_ascii x30) with true. cbn [andb]. rewrite forallb_forall. intros c Hc.
      apply in_map_iff in Hc. destruct Hc as (c0 & <- & Hc0). rewrite Forall_forall in C.
      destruct (class_byte_facts c0 (C _ Hc0)) as (_ & U & _). exact U. }
  cbn [map] in K. apply kw_find_fp_shape in K. cbn [fp_key_shape] in K.
  apply andb_true_iff in K. destruct K as [K K3]. apply andb_true_iff in K. destruct K as [K1 K2].
  unfold len in K1, K2. rewrite !map_length in K1, K2. fold (len fp) in K1, K2.
  splits; [lia|lia| |exact B].
  intros i N. destruct (Nat.eq_dec (S i) (List.length fp)) as [e|ne]; [exact e|exfalso].
  apply negb_true_iff in K3.
  assert (X : existsb (fun c => beq c x43) (removelast (map upper_ascii (map upper_ascii fp))) = true).
  { apply existsb_exists. exists x43. split; [|apply beq_refl].
    apply (nth_error_removelast _ i).
    - rewrite !nth_error_map, N. cbn [option_map]. rewrite upper2_comment. reflexivity.
    - rewrite !map_length. exact ne. }
  congruence.
Qed.

Theorem is_sqli_consistent inp b fp :
  is_sqli inp = Ok (b, fp) ->
  (b = false -> fp = []) /\
  (b = true ->
     1 <= len fp <= 5 /\
     Forall (fun c => is_class c = true) fp /\
     (forall i, nth_error fp i = Some b_sqli_token_type_comment -> S i = List.length fp) /\
     search_keyword (x30 :: map upper_ascii fp) = b_sqli_token_type_fingerprint /\
     exists fl, In fl all_contexts /\ exists bl x, fingerprint_ctx inp fl = Ok (fp, bl, true, x)).
Proof.
  rewrite is_sqli_cascade. intros E. destruct (cascade_from_reading inp b fp E) as [F T].
  split; [exact F|]. intros Hb. destruct (T Hb) as (fl & Hfl & bl & x & R).
  destruct (reading_true _ _ _ _ _ R) as [B C].
  destruct (blacklist_shape fp B C) as (L & M & K).
  splits; try assumption; try lia. exists fl. split; [exact Hfl|]. exists bl, x. exact R.
Qed.

(* a non-empty fingerprint exactly when the verdict is true *)
Corollary is_sqli_nonempty_iff inp b fp :
  is_sqli inp = Ok (b, fp) -> (fp <> [] <-> b = true).
Proof.
  intros E. destruct (is_sqli_consistent inp b fp E) as [F T]. split.
  - intros N. destruct b; [reflexivity|]. exfalso. apply N, F. reflexivity.
  - intros Hb N. destruct (T Hb) as [L _]. subst fp. change (len []) with 0 in L. lia.
Qed.
