(* Wp: a weakest-precondition layer over the result monad, used by every
   safety / invariant proof about the model.

     wp m Q   : m returns Ok a (no Panic, no OutOfFuel, no StackOverflow) and Q a
     wlp m Q  : if m returns Ok a then Q a                                        *)
From Coq Require Import List ZArith String Bool Lia ZifyBool.
From Coq.Strings Require Import Byte.
From LI Require Import Prelude Base Proofs.BaseFacts.
Import ListNotations.
Local Open Scope Z_scope.

Definition wp {A} (m : res A) (Q : A -> Prop) : Prop :=
  match m with Ok a => Q a | _ => False end.

Definition wlp {A} (m : res A) (Q : A -> Prop) : Prop :=
  forall a, m = Ok a -> Q a.

Lemma wp_Ok {A} (a : A) (Q : A -> Prop) : Q a -> wp (Ok a) Q.
Proof. exact (fun H => H). Qed.

Lemma wp_bind {A B} (m : res A) (k : A -> res B) (Q : B -> Prop) :
  wp m (fun a => wp (k a) Q) -> wp (bind m k) Q.
Proof. destruct m; cbn; auto. Qed.

Lemma wp_conseq {A} (m : res A) (Q Q' : A -> Prop) :
  wp m Q -> (forall a, Q a -> Q' a) -> wp m Q'.
Proof. destruct m; cbn; auto. Qed.

Lemma wp_inv {A} (m : res A) (Q : A -> Prop) : wp m Q -> exists a, m = Ok a /\ Q a.
Proof. destruct m; cbn; intros H; try contradiction. eauto. Qed.

Lemma wp_intro {A} (m : res A) (Q : A -> Prop) a : m = Ok a -> Q a -> wp m Q.
Proof. intros -> H. exact H. Qed.

Lemma wp_and {A} (m : res A) (Q1 Q2 : A -> Prop) : wp m Q1 -> wp m Q2 -> wp m (fun a => Q1 a /\ Q2 a).
Proof. destruct m; cbn; auto. Qed.

Lemma wp_wlp {A} (m : res A) (Q1 Q2 : A -> Prop) : wp m Q1 -> wlp m Q2 -> wp m (fun a => Q1 a /\ Q2 a).
Proof. destruct m; cbn; try contradiction. intros H1 H2. split; [exact H1|apply H2; reflexivity]. Qed.

Lemma wp_is_ok {A} (m : res A) Q : wp m Q -> is_ok m = true.
Proof. destruct m; cbn; auto; contradiction. Qed.

Lemma wlp_Ok {A} (a : A) (Q : A -> Prop) : Q a -> wlp (Ok a) Q.
Proof. intros H b E. inversion E; subst. exact H. Qed.

Lemma wlp_bind {A B} (m : res A) (k : A -> res B) (Q : B -> Prop) :
  wlp m (fun a => wlp (k a) Q) -> wlp (bind m k) Q.
Proof. destruct m; cbn; intros H b E; try discriminate. exact (H a eq_refl b E). Qed.

Lemma wlp_conseq {A} (m : res A) (Q Q' : A -> Prop) :
  wlp m Q -> (forall a, Q a -> Q' a) -> wlp m Q'.
Proof. intros H HQ a E. apply HQ, H, E. Qed.

Lemma wlp_fail_Panic {A} s (Q : A -> Prop) : wlp (Panic s) Q.
Proof. intros a E. discriminate. Qed.
Lemma wlp_fail_Fuel {A} (Q : A -> Prop) : wlp OutOfFuel Q.
Proof. intros a E. discriminate. Qed.
Lemma wlp_fail_Stack {A} (Q : A -> Prop) : wlp StackOverflow Q.
Proof. intros a E. discriminate. Qed.

Lemma wp_to_wlp {A} (m : res A) (Q : A -> Prop) : wp m Q -> wlp m Q.
Proof. destruct m; cbn; intros H a0 E; try contradiction. inversion E; subst. exact H. Qed.

(* ---------- the checked primitives ---------- *)

Lemma wp_get site s i (Q : byte -> Prop) :
  0 <= i < len s ->
  (forall b, nth_error s (Z.to_nat i) = Some b -> Q b) ->
  wp (get site s i) Q.
Proof.
  intros H HQ. destruct (get_ok site s i H) as [b [E N]]. rewrite E. cbn. auto.
Qed.

Lemma wp_drop site s i (Q : bytes -> Prop) :
  0 <= i <= len s -> Q (skipn (Z.to_nat i) s) -> wp (drop site s i) Q.
Proof. intros H HQ. rewrite drop_ok by exact H. exact HQ. Qed.

Lemma wp_take site s j (Q : bytes -> Prop) :
  0 <= j <= len s -> Q (firstn (Z.to_nat j) s) -> wp (take site s j) Q.
Proof. intros H HQ. rewrite take_ok by exact H. exact HQ. Qed.

Lemma wp_slice site s i j (Q : bytes -> Prop) :
  0 <= i <= j -> j <= len s ->
  Q (firstn (Z.to_nat (j - i)) (skipn (Z.to_nat i) s)) -> wp (slice site s i j) Q.
Proof. intros H1 H2 HQ. rewrite slice_ok by assumption. exact HQ. Qed.

Lemma wlp_get site s i (Q : byte -> Prop) :
  (forall b, 0 <= i < len s -> nth_error s (Z.to_nat i) = Some b -> Q b) ->
  wlp (get site s i) Q.
Proof. intros HQ b E. apply get_Ok_inv in E. destruct E. auto. Qed.

Lemma wlp_drop site s i (Q : bytes -> Prop) :
  (0 <= i <= len s -> Q (skipn (Z.to_nat i) s)) -> wlp (drop site s i) Q.
Proof. intros HQ r E. apply drop_Ok_inv in E. destruct E as [H ->]. auto. Qed.

Lemma wlp_take site s j (Q : bytes -> Prop) :
  (0 <= j <= len s -> Q (firstn (Z.to_nat j) s)) -> wlp (take site s j) Q.
Proof. intros HQ r E. apply take_Ok_inv in E. destruct E as [H ->]. auto. Qed.

Lemma wlp_slice site s i j (Q : bytes -> Prop) :
  (0 <= i <= j -> j <= len s -> Q (firstn (Z.to_nat (j - i)) (skipn (Z.to_nat i) s))) ->
  wlp (slice site s i j) Q.
Proof. intros HQ r E. apply slice_Ok_inv in E. destruct E as [H1 [H2 ->]]. auto. Qed.

(* span_len over a suffix that is long enough: the exact result *)
Lemma span_n_exact site p s n : (n <= List.length s)%nat ->
  span_n site p s n = Ok (Z.min (Z.of_nat n) (span p s)).
Proof.
  revert s. induction n as [|n IH]; intros s H; cbn [span_n].
  - pose proof (span_range p s). replace (Z.min (Z.of_nat 0) (span p s)) with 0 by lia. reflexivity.
  - destruct s as [|b s]; [cbn in H; lia|]. cbn [List.length] in H. cbn [span].
    destruct (p b).
    + rewrite IH by lia. cbn [bind]. pose proof (span_range p s).
      replace (Z.min (Z.of_nat (S n)) (1 + span p s)) with (1 + Z.min (Z.of_nat n) (span p s)) by lia.
      reflexivity.
    + replace (Z.min (Z.of_nat (S n)) 0) with 0 by lia. reflexivity.
Qed.

Lemma wp_span_len site p s n (Q : Z -> Prop) :
  0 <= n <= len s -> Q (Z.min n (span p s)) -> wp (span_len site p s n) Q.
Proof.
  intros H HQ. unfold span_len. destruct (n <? 0) eqn:E; [lia|].
  rewrite span_n_exact by (unfold len in H; lia).
  cbn. replace (Z.of_nat (Z.to_nat n)) with n by lia. exact HQ.
Qed.

(* ---------- list / length facts in the shape the proofs need ---------- *)

Lemma len_skipn_le s i : 0 <= i <= len s -> len (skipn (Z.to_nat i) s) = len s - i.
Proof. intros H. rewrite len_skipn. lia. Qed.

Lemma len_firstn_le s j : 0 <= j <= len s -> len (firstn (Z.to_nat j) s) = j.
Proof. intros H. rewrite len_firstn. lia. Qed.

Lemma nth_error_len {A} (s : list A) i b : nth_error s i = Some b -> (i < List.length s)%nat.
Proof. intros H. apply nth_error_Some. congruence. Qed.

Lemma index_byte_cases s c :
  (index_byte s c = -1 /\ ~ In c s) \/
  (0 <= index_byte s c < len s /\ nth_error s (Z.to_nat (index_byte s c)) = Some c).
Proof.
  induction s as [|b s IH]; cbn [index_byte].
  - left. split; [reflexivity|intros []].
  - rewrite len_cons. pose proof (len_nonneg s). destruct (beq b c) eqn:E.
    + right. apply beq_eq in E. subst. split; [lia|reflexivity].
    + apply beq_neq in E. destruct IH as [[I N]|[I N]].
      * rewrite I. cbn. left. split; [reflexivity|]. intros [H0|H0]; [congruence|contradiction].
      * destruct (index_byte s c <? 0) eqn:E2; [lia|]. right. split; [lia|].
        replace (Z.to_nat (index_byte s c + 1)) with (S (Z.to_nat (index_byte s c))) by lia.
        exact N.
Qed.

(* side-condition solver: arithmetic over Z with boolean comparisons in the context *)
Ltac zlia := cbn [fst snd] in *; lia.

(* split the syntactic conjunctions of the goal only (never unfolds a definition) *)
Ltac splits := repeat match goal with |- _ /\ _ => split end.
