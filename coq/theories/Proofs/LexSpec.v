(* LexSpec: every lexer of sqli_parse.go / sqli_data.go, run on a state with
   0 <= pos < len(input), returns (no panic), leaves input and flags alone,
   consumes at least one byte, stays inside the input, and the token it writes
   is a faithful slice of the input with a documented class character. *)
From Coq Require Import List ZArith String Bool Lia ZifyBool.
From Coq.Strings Require Import Byte.
From LI Require Import Prelude Base SqliLex Proofs.BaseFacts Proofs.Wp Proofs.LexBase.
From LIGen Require Import Tables Dispatch Consts.
Import ListNotations.
Local Open Scope Z_scope.

Ltac simp_st :=
  unfold slen, set_cat, set_open, set_close, set_count, set_pos, set_stats in *;
  cbn [slen input flags pos st set_pos set_stats n_ddx n_hash n_folds n_tokens
       t_pos t_len t_val t_cat t_open t_close t_count set_cat set_open set_close set_count
       fst snd] in *.

Ltac learn H :=
  let T := type of H in
  lazymatch goal with
  | _ : T |- _ => fail
  | _ => pose proof H
  end.

(* range facts of the search primitives that occur in the goal *)
Ltac note_facts :=
  repeat match goal with
         | |- context [index_byte ?l ?c] => learn (index_byte_range l c)
         | |- context [index ?l ?sep] => learn (index_range l sep)
         | |- context [span ?p ?l] => learn (span_range p l)
         end.

Ltac norm_len :=
  repeat match goal with
         | |- context [len (skipn (Z.to_nat ?i) ?s)] => rewrite (len_skipn_le s i) by lia
         | |- context [len (firstn (Z.to_nat ?i) ?s)] => rewrite (len_firstn_le s i) by (rewrite ?len_skipn_le by lia; lia)
         | H : context [len (skipn (Z.to_nat ?i) ?s)] |- _ => rewrite (len_skipn_le s i) in H by lia
         | H : context [len (firstn (Z.to_nat ?i) ?s)] |- _ => rewrite (len_firstn_le s i) in H by (rewrite ?len_skipn_le by lia; lia)
         end.

Ltac eval_lits :=
  repeat match goal with
         | |- context [bs ?x] => let v := eval vm_compute in (bs x) in change (bs x) with v in *
         | H : context [bs ?x] |- _ => let v := eval vm_compute in (bs x) in change (bs x) with v in *
         end;
  repeat match goal with
         | |- context [len (?a :: ?l)] => let v := eval vm_compute in (len (a :: l)) in change (len (a :: l)) with v in *
         | H : context [len (?a :: ?l)] |- _ => let v := eval vm_compute in (len (a :: l)) in change (len (a :: l)) with v in *
         end.

Ltac split_ifs :=
  repeat match goal with
         | |- context [if ?c then _ else _] => destruct c eqn:?
         end.

Ltac side := simp_st; note_facts; eval_lits; norm_len; split_ifs; lia.

Ltac wp_step :=
  lazymatch goal with
  | |- wp (Ok _) _ => apply wp_Ok
  | |- wp (bind _ _) _ => apply wp_bind
  | |- wp (get _ _ _) _ => apply wp_get; [ side | intros ? ? ]
  | |- wp (drop _ _ _) _ => apply wp_drop; [ side | ]
  | |- wp (take _ _ _) _ => apply wp_take; [ side | ]
  | |- wp (slice _ _ _ _) _ => apply wp_slice; [ side | side | ]
  | |- wp (assign _ _ _ _ _) _ => rewrite assign_ok; [ apply wp_Ok | side | side ]
  | |- wp (span_len _ _ _ _) _ => apply wp_span_len; [ side | ]
  | |- wp (if ?c then _ else _) _ => destruct c eqn:?
  | |- wp (let '(_, _) := ?x in _) _ => destruct x eqn:?
  end.

Ltac wp_go := unfold at_, input_from; simp_st; repeat (wp_step; simp_st).
Ltac fin := simp_st; note_facts; eval_lits; norm_len; split_ifs.

(* the leaf: lex_post with the token built by assign *)
Ltac post :=
  unfold lex_post; simp_st;
  repeat match goal with |- _ /\ _ => split end;
  try reflexivity; try lia.

Ltac start L :=
  intros s t0 Hpre; unfold lex_pre in Hpre; pose proof (len_nonneg (input s)) as Hlen; unfold L; unfold slen in *.

Lemma parse_white_spec s t0 : lex_pre s -> wp (parse_white s t0) (lex_post_w s t0).
Proof. revert s t0. start parse_white. wp_go. unfold lex_post_w. simp_st. intuition lia. Qed.

Lemma parse_other_spec s t0 : lex_pre s -> wp (parse_other s t0) (lex_post s).
Proof.
  revert s t0. start parse_other. wp_go. post. apply tok_at_assign; try lia. reflexivity.
Qed.

Lemma parse_operator1_spec s t0 : lex_pre s -> wp (parse_operator1 s t0) (lex_post s).
Proof.
  revert s t0. start parse_operator1. wp_go. post. apply tok_at_assign; try lia. reflexivity.
Qed.

Lemma parse_byte_spec s t0 ch :
  lex_pre s -> nth_error (input s) (Z.to_nat (pos s)) = Some ch -> dispatch ch = PByte ->
  wp (parse_byte s t0) (lex_post s).
Proof.
  revert s t0. intros s t0 Hpre N D. revert s t0 Hpre N D. start parse_byte. intros N D. wp_go. post.
  apply tok_at_assign; try lia.
  match goal with H : nth_error _ _ = Some ?b |- _ => rewrite N in H; inversion H; subst b end.
  pose proof (dispatch_char ch) as K. unfold dispatch_char_ok in K. rewrite D in K.
  apply andb_true_iff in K. destruct K as [K K3]. apply andb_true_iff in K. destruct K as [K1 K2].
  apply negb_true_iff in K2, K3. apply class_ok_plain; assumption.
Qed.

Ltac leaf :=
  fin; unfold lex_post; simp_st;
  refine (conj _ (conj _ (conj _ (conj _ (conj _ _))))); try reflexivity; try lia;
  try (apply tok_at_assign; first [ lia | reflexivity | idtac ]);
  try (eval_lits; eapply tok_at_assign_lit; [ lia | lia | lia | reflexivity | eassumption ]).

Lemma nth_error_skipn0 {A} (l : list A) n : nth_error (skipn n l) 0 = nth_error l n.
Proof. rewrite nth_error_skipn. f_equal. lia. Qed.

Lemma class_ok_comment rest ch n :
  nth_error rest 0 = Some ch -> 1 <= n -> (beq ch x23 = false -> 2 <= n) ->
  class_ok b_sqli_token_type_comment n (firstn (Z.to_nat n) rest) = true.
Proof.
  intros N Hn Hs. destruct rest as [|b rest]; [discriminate|]. cbn in N. inversion N; subst b.
  unfold class_ok. replace (Z.to_nat n) with (S (Z.to_nat (n - 1))) by lia. cbn [firstn first_is].
  destruct (beq ch x23) eqn:E.
  - replace (1 <=? n) with true by lia. reflexivity.
  - specialize (Hs eq_refl). replace (1 <=? n) with true by lia. replace (2 <=? n) with true by lia. reflexivity.
Qed.

Lemma index_byte_head_ne l b c : nth_error l 0 = Some b -> beq b c = false -> index_byte l c <> 0.
Proof.
  destruct l as [|x l]; [discriminate|]. cbn [nth_error]. intros H E. inversion H; subst x.
  cbn [index_byte]. rewrite E. destruct (index_byte l c <? 0) eqn:F; lia.
Qed.

Lemma index_byte_two_ne l b0 b1 c :
  nth_error l 0 = Some b0 -> nth_error l 1 = Some b1 -> beq b0 c = false -> beq b1 c = false ->
  index_byte l c = -1 \/ 2 <= index_byte l c.
Proof.
  destruct l as [|x [|y l]]; cbn [nth_error]; intros H0 H1 E0 E1; try discriminate.
  inversion H0; inversion H1; subst. cbn [index_byte]. rewrite E0, E1.
  pose proof (index_byte_range l c) as R.
  destruct (index_byte l c <? 0) eqn:F; cbn; [left; reflexivity|]. right.
  destruct (index_byte l c + 1 <? 0) eqn:G; lia.
Qed.

(* the comment lexers: the first byte is not a newline; unless it is '#', the second byte
   exists and is not a newline either (the callers have seen "--") *)
Lemma parse_eol_comment_spec s t0 ch :
  lex_pre s -> nth_error (input s) (Z.to_nat (pos s)) = Some ch ->
  beq ch x0a = false ->
  (beq ch x23 = false ->
   exists c1, nth_error (input s) (Z.to_nat (pos s + 1)) = Some c1 /\ beq c1 x0a = false) ->
  wp (parse_eol_comment s t0) (lex_post s).
Proof.
  intros Hpre N Hn H2. unfold lex_pre in Hpre. pose proof (len_nonneg (input s)) as Hlen.
  unfold parse_eol_comment. unfold slen in *.
  assert (N0 : nth_error (skipn (Z.to_nat (pos s)) (input s)) 0 = Some ch) by (rewrite nth_error_skipn0; exact N).
  pose proof (index_byte_head_ne _ _ x0a N0 Hn) as Hne.
  assert (K : beq ch x23 = false ->
              pos s + 2 <= len (input s) /\
              (index_byte (skipn (Z.to_nat (pos s)) (input s)) x0a = -1 \/
               2 <= index_byte (skipn (Z.to_nat (pos s)) (input s)) x0a)).
  { intros Hh. destruct (H2 Hh) as (c1 & N1 & E1). split.
    - apply nth_error_len in N1. unfold len. lia.
    - eapply index_byte_two_ne; [exact N0| |exact Hn|exact E1].
      rewrite nth_error_skipn. replace (Z.to_nat (pos s) + 1)%nat with (Z.to_nat (pos s + 1)) by lia. exact N1. }
  wp_go; leaf; (eapply class_ok_comment; [exact N0|lia|intros Hh; specialize (K Hh); lia]).
Qed.

Lemma parse_hash_spec s t0 :
  lex_pre s -> nth_error (input s) (Z.to_nat (pos s)) = Some x23 ->
  wp (parse_hash s t0) (lex_post s).
Proof.
  intros Hpre N. unfold parse_hash. simp_st.
  destruct (has_flag _ _).
  - eapply wp_conseq; [eapply parse_eol_comment_spec; [exact Hpre|exact N|reflexivity|discriminate]|].
    intros r. apply lex_post_from; simp_st; try reflexivity; lia.
  - unfold lex_pre in Hpre. pose proof (len_nonneg (input s)). wp_go. leaf.
Qed.

Ltac via_eol Hpre N :=
  eapply wp_conseq;
  [ eapply parse_eol_comment_spec;
    [ exact Hpre | exact N | reflexivity
    | intros _;
      match goal with
      | H : nth_error (input _) (Z.to_nat (pos _ + 1)) = Some ?b, E : beq ?b x2d = true |- _ =>
          exists b; split; [exact H|]; apply beq_eq in E; rewrite E; reflexivity
      | H : nth_error (input _) (Z.to_nat (pos _ + 1)) = Some ?b, E : beq ?b x2d && _ = true |- _ =>
          exists b; split; [exact H|]; apply andb_true_iff in E; destruct E as [E _]; apply beq_eq in E; rewrite E; reflexivity
      end ]
  | ];
  let r := fresh "r" in intros r; apply lex_post_from; simp_st; try reflexivity; lia.

Lemma parse_dash_spec s t0 :
  lex_pre s -> nth_error (input s) (Z.to_nat (pos s)) = Some x2d ->
  wp (parse_dash s t0) (lex_post s).
Proof.
  intros Hpre N. pose proof Hpre as Hpre'. unfold lex_pre in Hpre'. pose proof (len_nonneg (input s)).
  unfold parse_dash. wp_go; try (via_eol Hpre N); try leaf. 
Qed.

Lemma parse_backslash_spec s t0 : lex_pre s -> wp (parse_backslash s t0) (lex_post s).
Proof. revert s t0. start parse_backslash. wp_go; leaf. Qed.

(* ---------- parseWord ---------- *)

Lemma search_keyword_nil : search_keyword [] = x00.
Proof. vm_compute. reflexivity. Qed.

Lemma word_split_loop_spec fuel : forall val i n,
  0 <= i -> n <= len val -> n - i <= Z.of_nat fuel ->
  wp (word_split_loop fuel val i n)
     (fun r => match r with
               | Some (j, ch) => i <= j < n /\ ch = search_keyword (firstn (Z.to_nat j) val)
                                 /\ ch <> x00 /\ ch <> b_sqli_token_type_bare_word
               | None => True
               end).
Proof.
  induction fuel as [|fuel IH]; intros val i n Hi Hn Hf; cbn [word_split_loop].
  - destruct (i <? n) eqn:E; [lia|]. exact I.
  - destruct (i <? n) eqn:E; [|exact I].
    apply wp_bind. apply wp_get; [lia|]. intros d Hd.
    assert (R : wp (word_split_loop fuel val (i + 1) n)
                   (fun r => match r with
                             | Some (j, ch) => i <= j < n /\ ch = search_keyword (firstn (Z.to_nat j) val)
                                               /\ ch <> x00 /\ ch <> b_sqli_token_type_bare_word
                             | None => True
                             end)).
    { eapply wp_conseq; [apply IH; lia|]. intros [[j ch]|]; [|auto]. intuition lia. }
    destruct (beq d x2e || beq d x60); [|exact R].
    apply wp_bind. apply wp_take; [lia|].
    destruct (negb (beq (search_keyword (firstn (Z.to_nat i) val)) b_sqli_token_type_none)
              && negb (beq (search_keyword (firstn (Z.to_nat i) val)) b_sqli_token_type_bare_word)) eqn:G;
      [|exact R].
    apply andb_true_iff in G. destruct G as [G1 G2].
    apply negb_true_iff in G1, G2. apply beq_neq in G1, G2.
    cbn. repeat split; try lia; assumption.
Qed.

Lemma span_pos p (l : bytes) b : nth_error l 0 = Some b -> p b = true -> 1 <= span p l.
Proof.
  destruct l as [|x l]; cbn [span nth_error]; intros H Hp; [discriminate|]. inversion H; subst.
  rewrite Hp. pose proof (span_range p l). lia.
Qed.

Lemma parse_word_spec s t0 ch :
  lex_pre s -> nth_error (input s) (Z.to_nat (pos s)) = Some ch -> mem ch word_accept = false ->
  wp (parse_word s t0) (lex_post s).
Proof.
  intros Hpre N A. unfold lex_pre in Hpre. pose proof (len_nonneg (input s)) as Hlen.
  unfold parse_word, str_len_cspn. simp_st. change c_token_size with 32.
  set (rest := skipn (Z.to_nat (pos s)) (input s)).
  assert (Hrest : len rest = len (input s) - pos s) by (unfold rest; rewrite len_skipn_le; lia).
  assert (Hsp : 1 <= span (fun b => negb (mem b word_accept)) rest).
  { eapply span_pos; [unfold rest; rewrite nth_error_skipn0; exact N|]. rewrite A. reflexivity. }
  pose proof (span_range (fun b => negb (mem b word_accept)) rest) as Hsr.
  unfold input_from. simp_st.
  apply wp_bind. apply wp_drop; [lia|]. fold rest.
  apply wp_bind. apply wp_span_len; [destruct (32 <? len (input s) - pos s) eqn:?; lia|].
  set (limit := if 32 <? len (input s) - pos s then 32 else len (input s) - pos s).
  assert (Hlim : 1 <= limit <= 32 /\ limit <= len rest) by (unfold limit; destruct (32 <? len (input s) - pos s) eqn:?; lia).
  set (length := Z.min limit (span (fun b => negb (mem b word_accept)) rest)).
  assert (Hl : 1 <= length <= 32 /\ length <= len rest) by (unfold length; lia).
  apply wp_bind. rewrite assign_ok by lia. apply wp_Ok. simp_st.
  apply wp_bind. eapply wp_conseq.
  { apply word_split_loop_spec; [lia| |].
    - rewrite len_firstn_le; lia.
    - change (Z.to_nat 32) with 32%nat. lia. }
  intros [[i c]|].
  - intros (Hi & Hc & Hc0 & Hcn).
    assert (i <> 0).
    { intros ->. change (Z.to_nat 0) with 0%nat in Hc. cbn [firstn] in Hc. rewrite search_keyword_nil in Hc. congruence. }
    apply wp_bind. rewrite assign_ok by lia. apply wp_Ok. apply wp_Ok.
    unfold lex_post. simp_st. refine (conj _ (conj _ (conj _ (conj _ (conj _ _))))); try reflexivity; try lia.
    apply tok_at_assign; try lia.
    destruct (search_keyword_ok (firstn (Z.to_nat i) (firstn (Z.to_nat (Z.min length 31)) rest))) as [K|K];
      [congruence|]. rewrite Hc. apply class_ok_kw; [exact K|].
    intros Hf. apply search_keyword_function_len in Hf.
    rewrite len_firstn_le in Hf by (rewrite len_firstn_le; lia). lia.
  - intros _.
    destruct (length =? 32) eqn:E32.
    + apply wp_bind. apply wp_bind. apply wp_drop; [lia|].
      apply wp_bind. apply wp_span_len; [rewrite len_skipn_le; lia|]. apply wp_Ok.
      set (n := Z.min _ _).
      assert (Hn : 0 <= n <= len (input s) - pos s - length).
      { unfold n. pose proof (span_range (fun b => negb (mem b word_accept)) (skipn (Z.to_nat (pos s + length)) (input s))).
        rewrite len_skipn_le in *; lia. }
      destruct (length + n <? 32) eqn:E2; [lia|]. apply wp_Ok.
      unfold lex_post. simp_st. refine (conj _ (conj _ (conj _ (conj _ (conj _ _))))); try reflexivity; try lia.
      apply tok_at_assign; try lia. reflexivity.
    + apply wp_bind. apply wp_Ok. destruct (length <? 32) eqn:E2; [|lia].
      apply wp_bind. apply wp_take; [rewrite len_firstn_le; lia|]. apply wp_Ok.
      unfold lex_post. simp_st. refine (conj _ (conj _ (conj _ (conj _ (conj _ _))))); try reflexivity; try lia.
      unfold rest. apply tok_at_assign; try lia. fold rest.
      match goal with |- context [search_keyword ?k] => destruct (search_keyword_ok k) as [K|K]; set (key := k) in * end.
      * rewrite K. reflexivity.
      * destruct (beq (search_keyword key) x00); [reflexivity|]. apply class_ok_kw; [exact K|].
        intros Hf. apply search_keyword_function_len in Hf. unfold key in Hf.
        rewrite len_firstn_le in Hf by (rewrite len_firstn_le; lia). lia.
Qed.

(* ---------- parseStringCore ---------- *)

Lemma double_delim_len str : is_double_delimiter_escaped str = true -> 2 <= len str.
Proof.
  destruct str as [|a [|b r]]; cbn [is_double_delimiter_escaped]; intros H; try discriminate.
  rewrite !len_cons. pose proof (len_nonneg r). lia.
Qed.

Lemma string_core_loop_spec fuel : forall s start k delim,
  0 <= start <= k -> k <= len s -> len s - k < Z.of_nat fuel ->
  wp (string_core_loop fuel s start k delim)
     (fun r => match r with Some q => k <= q < len s | None => True end).
Proof.
  induction fuel as [|fuel IH]; intros s start k delim H1 H2 H3; cbn [string_core_loop]; [lia|].
  apply wp_bind. apply wp_drop; [lia|].
  pose proof (index_byte_range (skipn (Z.to_nat k) s) delim) as R. rewrite len_skipn_le in R by lia.
  destruct (index_byte (skipn (Z.to_nat k) s) delim =? -1) eqn:E; [exact I|].
  set (ix := index_byte (skipn (Z.to_nat k) s) delim) in *.
  apply wp_bind. apply wp_drop; [lia|].
  apply wp_bind. apply wp_slice; [lia|lia|].
  destruct (is_backslash_escaped _).
  - apply wp_bind. apply wp_drop; [rewrite len_skipn_le; lia|].
    eapply wp_conseq; [apply IH; lia|]. intros [q|]; [lia|auto].
  - destruct (is_double_delimiter_escaped _) eqn:D.
    + apply double_delim_len in D. rewrite len_skipn_le in D by lia.
      apply wp_bind. apply wp_drop; [rewrite len_skipn_le; lia|].
      eapply wp_conseq; [apply IH; lia|]. intros [q|]; [lia|auto].
    + cbn. lia.
Qed.

Definition str_post (s : bytes) (lo : Z) (t0 : token) (r : token * Z) : Prop :=
  let '(t, np) := r in
  np <= len s /\ (lo < np \/ np = len s) /\ tok_at s lo np t /\
  t_cat t = b_sqli_token_type_string /\ t_count t = t_count t0.

Lemma parse_string_core_spec t0 s p offset delim :
  0 <= p -> 0 <= offset -> p + offset <= len s ->
  wp (parse_string_core t0 s (len s) p offset delim) (str_post s (p + offset) t0).
Proof.
  intros Hp Ho Hl. unfold parse_string_core.
  apply wp_bind. apply wp_drop; [lia|].
  apply wp_bind. eapply wp_conseq.
  { apply string_core_loop_spec; [lia|lia|]. unfold len. lia. }
  intros r Hr. apply wp_bind. apply wp_drop; [lia|].
  destruct r as [q|].
  - apply wp_bind. rewrite assign_ok; [|lia|rewrite len_skipn_le; lia]. apply wp_Ok. apply wp_Ok.
    unfold str_post, set_close, set_open. cbn [t_pos t_len t_val t_cat t_open t_close t_count].
    refine (conj _ (conj _ (conj _ (conj _ _)))); try lia; try reflexivity. apply tok_at_assign; try lia. reflexivity.
  - apply wp_bind. rewrite assign_ok; [|lia|rewrite len_skipn_le; lia]. apply wp_Ok. apply wp_Ok.
    unfold str_post, set_close, set_open. cbn [t_pos t_len t_val t_cat t_open t_close t_count].
    refine (conj _ (conj _ (conj _ (conj _ _)))); try lia; try reflexivity. apply tok_at_assign; try lia. reflexivity.
Qed.

Ltac split_post := unfold lex_post; simp_st; refine (conj _ (conj _ (conj _ (conj _ (conj _ _))))); try reflexivity; try lia.

Ltac use_str_core :=
  lazymatch goal with |- wp (bind (parse_string_core _ _ _ _ _ _) _) _ => apply wp_bind | _ => idtac end;
  eapply wp_conseq; [apply parse_string_core_spec; lia|];
  let t := fresh "t" in let np := fresh "np" in
  intros [t np] (?Hnp & ?Hadv & ?Htok & ?Hcat & ?Hcnt).

Lemma tok_at_set_cat inp lo hi t c :
  tok_at inp lo hi t -> class_ok c (t_len t) (t_val t) = true -> tok_at inp lo hi (set_cat t c).
Proof. unfold tok_at, set_cat. cbn [t_pos t_len t_val t_cat]. intuition. Qed.

Lemma tok_at_set_open inp lo hi t c : tok_at inp lo hi t -> tok_at inp lo hi (set_open t c).
Proof. unfold tok_at, set_open. cbn [t_pos t_len t_val t_cat]. intuition. Qed.

Lemma tok_at_set_close inp lo hi t c : tok_at inp lo hi t -> tok_at inp lo hi (set_close t c).
Proof. unfold tok_at, set_close. cbn [t_pos t_len t_val t_cat]. intuition. Qed.

Lemma parse_string_spec s t0 : lex_pre s -> wp (parse_string s t0) (lex_post s).
Proof.
  revert s t0. start parse_string. unfold at_. apply wp_bind. apply wp_get; [lia|]. intros d Hd.
  unfold slen. use_str_core. apply wp_Ok. split_post.
  eapply tok_at_weaken; [| |exact Htok]; lia.
Qed.

Lemma parse_tick_spec s t0 : lex_pre s -> wp (parse_tick s t0) (lex_post s).
Proof.
  revert s t0. start parse_tick. unfold slen. use_str_core.
  assert (L : len (t_val t) = t_len t) by (eapply tok_at_len; [| |exact Htok]; lia).
  apply wp_bind. apply wp_take; [destruct Htok as (? & ? & _); lia|].
  destruct (beq _ _) eqn:Ef; apply wp_Ok; split_post;
    (apply tok_at_set_cat; [eapply tok_at_weaken; [| |exact Htok]; lia|]); [|reflexivity].
  apply beq_eq, search_keyword_function_len in Ef. rewrite len_firstn_le in Ef by (destruct Htok as (? & ? & _); lia).
  unfold class_ok. replace (2 <=? t_len t) with true by lia. reflexivity.
Qed.

Lemma parse_slash_spec s t0 : lex_pre s -> wp (parse_slash s t0) (lex_post s).
Proof.
  intros Hpre. pose proof Hpre as Hpre'. unfold lex_pre in Hpre'. pose proof (len_nonneg (input s)) as Hlen.
  unfold parse_slash, is_mysql_comment. unfold slen in *.
  wp_go; try (eapply wp_conseq; [apply parse_operator1_spec; exact Hpre|]; intros r Hr; exact Hr); try leaf.
  all: destruct (get_ok "x" (input s) (pos s) Hpre') as [ch [_ N]];
    (eapply class_ok_comment; [rewrite nth_error_skipn0; exact N|lia|intros; lia]). 
Qed.

Lemma parse_operator2_spec s t0 : lex_pre s -> wp (parse_operator2 s t0) (lex_post s).
Proof.
  intros Hpre. pose proof Hpre as Hpre'. unfold lex_pre in Hpre'. pose proof (len_nonneg (input s)) as Hlen.
  unfold parse_operator2. unfold slen in *.
  wp_go; try (eapply wp_conseq; [apply parse_operator1_spec; exact Hpre|]; intros r Hr; exact Hr); try leaf.
  all: match goal with
       | |- class_ok (search_keyword ?k) _ _ = true =>
           destruct (search_keyword_ok k) as [K|K];
           [ exfalso; rewrite K in *;
             match goal with H : negb (beq _ _) = true |- _ => vm_compute in H; discriminate H end
           | apply class_ok_kw; [exact K|intros _; lia] ]
       end.
Qed.

Lemma parse_bword_spec s t0 : lex_pre s -> wp (parse_bword s t0) (lex_post s).
Proof. revert s t0. start parse_bword. wp_go; leaf. Qed.

Ltac via_word Hpre :=
  eapply wp_conseq; [eapply parse_word_spec; [exact Hpre|eassumption|eassumption]|];
  let r := fresh "r" in let Hr := fresh "Hr" in intros r Hr; exact Hr.

Lemma parse_xb_string_spec digits s t0 ch :
  lex_pre s -> nth_error (input s) (Z.to_nat (pos s)) = Some ch -> mem ch word_accept = false ->
  wp (parse_xb_string digits s t0) (lex_post s).
Proof.
  intros Hpre N A. pose proof Hpre as Hpre'. unfold lex_pre in Hpre'. pose proof (len_nonneg (input s)) as Hlen.
  unfold parse_xb_string, str_len_spn. unfold slen in *.
  wp_go; try (via_word Hpre); try leaf.

Qed.


Lemma parse_estring_spec s t0 ch :
  lex_pre s -> nth_error (input s) (Z.to_nat (pos s)) = Some ch -> mem ch word_accept = false ->
  wp (parse_estring s t0) (lex_post s).
Proof.
  intros Hpre N A. pose proof Hpre as Hpre'. unfold lex_pre in Hpre'. pose proof (len_nonneg (input s)) as Hlen.
  unfold parse_estring. unfold slen in *.
  wp_go; try (via_word Hpre).
  use_str_core. apply wp_Ok. split_post. eapply tok_at_weaken; [| |exact Htok]; lia.
Qed.

Lemma parse_qstring_core_spec offset s t0 ch :
  0 <= offset <= 1 ->
  lex_pre s -> nth_error (input s) (Z.to_nat (pos s)) = Some ch -> mem ch word_accept = false ->
  wp (parse_qstring_core offset s t0) (lex_post s).
Proof.
  intros Ho Hpre N A. pose proof Hpre as Hpre'. unfold lex_pre in Hpre'. pose proof (len_nonneg (input s)) as Hlen.
  unfold parse_qstring_core. unfold slen in *.
  wp_go; try (via_word Hpre); try leaf.

Qed.

Lemma parse_nqstring_spec s t0 ch :
  lex_pre s -> nth_error (input s) (Z.to_nat (pos s)) = Some ch -> mem ch word_accept = false ->
  wp (parse_nqstring s t0) (lex_post s).
Proof.
  intros Hpre N A. pose proof Hpre as Hpre'. unfold lex_pre in Hpre'. pose proof (len_nonneg (input s)) as Hlen.
  unfold parse_nqstring. unfold slen in *.
  wp_go.
  all: first [ eapply parse_estring_spec; eassumption
             | eapply parse_qstring_core_spec; try eassumption; lia ].
Qed.

Lemma parse_ustring_spec s t0 ch :
  lex_pre s -> nth_error (input s) (Z.to_nat (pos s)) = Some ch -> mem ch word_accept = false ->
  wp (parse_ustring s t0) (lex_post s).
Proof.
  intros Hpre N A. pose proof Hpre as Hpre'. unfold lex_pre in Hpre'. pose proof (len_nonneg (input s)) as Hlen.
  unfold parse_ustring. unfold slen in *.
  wp_go; try (via_word Hpre).
  eapply wp_conseq; [apply parse_string_spec; unfold lex_pre, slen; simp_st; lia|].
  intros [[s' t] np] Hr. apply wp_Ok.
  eapply (lex_post_from s (mkSt (input s) (flags s) (pos s + 2) (st s))) in Hr; simp_st; try reflexivity; try lia.
  unfold lex_post in *. simp_st. destruct Hr as (R1 & R2 & R3 & R4 & R5 & R6).
  refine (conj _ (conj _ (conj _ (conj _ (conj _ _))))); try assumption.
  destruct (beq (t_close t) b_byte_single); unfold tok_at in *; simp_st; exact R6.
Qed.

Lemma lex_post_set_cat s r c :
  lex_post s r -> (forall n v, class_ok c n v = true) ->
  lex_post s (let '(s', t, np) := r in (s', set_cat t c, np)).
Proof.
  destruct r as [[s' t] np]. unfold lex_post. intros (A & B & C & D & E & F) Hc.
  refine (conj A (conj B (conj C (conj D (conj E _))))). apply tok_at_set_cat; [assumption|apply Hc].
Qed.

Lemma parse_var_spec s t0 : lex_pre s -> wp (parse_var s t0) (lex_post s).
Proof.
  intros Hpre. pose proof Hpre as Hpre'. unfold lex_pre in Hpre'. pose proof (len_nonneg (input s)) as Hlen.
  unfold parse_var, str_len_cspn. unfold slen in *. unfold at_, input_from. simp_st.
  apply wp_bind.
  assert (Two : wp (if pos s + 1 <? len (input s)
                    then a <- get "parseVar" (input s) (pos s + 1);; Ok (beq a "@") else Ok false)
                   (fun two => two = true -> pos s + 1 < len (input s))).
  { destruct (pos s + 1 <? len (input s)) eqn:E; [|cbn; discriminate].
    apply wp_bind. apply wp_get; [lia|]. intros b _. cbn. lia. }
  eapply wp_conseq; [exact Two|]. intros two Htwo. simp_st.
  set (p := if two then pos s + 1 + 1 else pos s + 1).
  assert (Hp : pos s < p <= len (input s)) by (unfold p; destruct two; [specialize (Htwo eq_refl)|]; lia).
  clearbody p. clear Two Htwo.
  wp_go.
  all: try (exfalso; lia).
  all: lazymatch goal with
       | |- wp (parse_tick _ _) _ =>
           eapply wp_conseq; [apply parse_tick_spec; unfold lex_pre, slen; simp_st; lia|];
           intros [[s' t] np] Hr; apply wp_Ok;
           apply (lex_post_set_cat _ (s', t, np) b_sqli_token_type_variable); [|intros; reflexivity];
           eapply lex_post_from; [..|exact Hr]; simp_st; try reflexivity; lia
       | |- wp (parse_string _ _) _ =>
           eapply wp_conseq; [apply parse_string_spec; unfold lex_pre, slen; simp_st; lia|];
           intros [[s' t] np] Hr; apply wp_Ok;
           apply (lex_post_set_cat _ (s', t, np) b_sqli_token_type_variable); [|intros; reflexivity];
           eapply lex_post_from; [..|exact Hr]; simp_st; try reflexivity; lia
       | _ => leaf
       end.
Qed.

Lemma parse_money_spec s t0 :
  lex_pre s -> nth_error (input s) (Z.to_nat (pos s)) = Some x24 ->
  wp (parse_money s t0) (lex_post s).
Proof.
  intros Hpre N. pose proof Hpre as Hpre'. unfold lex_pre in Hpre'. pose proof (len_nonneg (input s)) as Hlen.
  assert (A : mem x24 word_accept = false) by (vm_compute; reflexivity).
  unfold parse_money, str_len_spn. unfold slen in *.
  wp_go; try (via_word Hpre); try leaf.
  
Qed.

Lemma wp_peek site s p (f : byte -> bool) (Q : bool -> Prop) :
  0 <= p ->
  (forall r, (r = true -> p < len (input s) /\
                          exists a, nth_error (input s) (Z.to_nat p) = Some a /\ f a = true) ->
             (r = false -> forall a, nth_error (input s) (Z.to_nat p) = Some a -> f a = false) -> Q r) ->
  wp (if p <? slen s then (a <- at_ site s p ;; Ok (f a)) else Ok false) Q.
Proof.
  intros Hp HQ. unfold slen, at_. destruct (p <? len (input s)) eqn:E.
  - apply wp_bind. apply wp_get; [lia|]. intros a Ha. apply wp_Ok. apply HQ.
    + intros Hf. split; [lia|]. exists a. split; assumption.
    + intros Hf a' Ha'. congruence.
  - apply wp_Ok. apply HQ; [discriminate|]. intros _ a Ha.
    apply nth_error_len in Ha. unfold len in E. lia.
Qed.

Lemma parse_number_spec s t0 ch :
  lex_pre s -> nth_error (input s) (Z.to_nat (pos s)) = Some ch -> is_digit ch || beq ch x2e = true ->
  wp (parse_number s t0) (lex_post s).
Proof.
  intros Hpre N Hch. pose proof Hpre as Hpre'. unfold lex_pre in Hpre'. pose proof (len_nonneg (input s)) as Hlen.
  unfold parse_number, str_len_spn.
  apply wp_bind. unfold at_ at 1. apply wp_get; [unfold slen in *; lia|]. intros c0 Hc0.
  rewrite N in Hc0. inversion Hc0; subst c0. clear Hc0.
  apply wp_bind.
  apply (wp_conseq _ (fun digits => digits <> [] -> pos s + 2 <= len (input s))).
  { unfold slen in *. unfold at_. wp_go; try (intros _; lia); try congruence. }
  intros digits Hdg.
  destruct digits as [|d0 ds].
  - (* decimal *)
    unfold input_from at 1. apply wp_bind. apply wp_drop; [unfold slen in *; lia|].
    set (r := skipn (Z.to_nat (pos s)) (input s)).
    pose proof (span_range is_digit r) as Hsp.
    assert (Hr : len r = len (input s) - pos s) by (unfold r, slen in *; rewrite len_skipn_le; lia).
    set (p1 := pos s + span is_digit r) in *.
    assert (Hp1 : pos s <= p1 <= len (input s)) by (unfold p1; lia).
    apply wp_bind. apply wp_peek; [lia|]. intros dot Hdot Hdot'.
    apply wp_bind.
    apply (wp_conseq _ (fun frac => p1 <= frac <= len (input s) /\ (dot = true -> p1 + 1 <= frac))).
    { destruct dot; [|apply wp_Ok; lia]. destruct (Hdot eq_refl) as [Hd _].
      unfold input_from. apply wp_bind. apply wp_drop; [lia|]. apply wp_Ok.
      pose proof (span_range is_digit (skipn (Z.to_nat (p1 + 1)) (input s))) as Q.
      rewrite len_skipn_le in Q by lia. lia. }
    intros frac [Hfrac Hfd].
    (* progress: the scan has moved past the first byte unless it is a lone dot *)
    assert (Hprog : pos s + 1 <= frac).
    { apply orb_true_iff in Hch. destruct Hch as [Hd|Hd].
      - assert (1 <= span is_digit r); [|lia].
        eapply span_pos; [unfold r; rewrite nth_error_skipn0; exact N|exact Hd].
      - destruct dot; [specialize (Hfd eq_refl); lia|].
        exfalso. apply beq_eq in Hd. subst ch.
        assert (span is_digit r = 0).
        { unfold r. rewrite (skipn_nth_cons _ _ _ N). cbn [span]. reflexivity. }
        (* dot = false although input[p1] = '.' with p1 = pos s *)
        unfold p1 in Hdot'. rewrite H in Hdot'. replace (pos s + 0) with (pos s) in Hdot' by lia.
        specialize (Hdot' eq_refl _ N). discriminate Hdot'. }
    destruct (dot && (frac - pos s =? 1)) eqn:Edot.
    { apply andb_true_iff in Edot. destruct Edot as [Ed Ef]. subst dot.
      destruct (Hdot eq_refl) as [Hd [a [Ha Hb]]]. apply beq_eq in Hb. subst a.
      assert (p1 = pos s) by lia. rewrite H in Ha.
      apply wp_bind. rewrite assign_ok; [|lia|vm_compute; discriminate]. apply wp_Ok. apply wp_Ok.
      split_post. change (bs ".") with [x2e]. eapply tok_at_assign_lit; try lia; [reflexivity|exact Ha]. }
    clear Edot.
    apply wp_bind. apply wp_peek; [lia|]. intros isE HisE _.
    apply wp_bind.
    apply (wp_conseq _ (fun x => frac <= fst x <= len (input s))).
    { destruct isE; [|apply wp_Ok; cbn [fst]; lia]. destruct (HisE eq_refl) as [He _].
      apply wp_bind. apply wp_peek; [lia|]. intros sign Hsign _.
      set (p2 := if sign then frac + 1 + 1 else frac + 1).
      assert (Hp2 : frac <= p2 <= len (input s)).
      { unfold p2. destruct sign; [destruct (Hsign eq_refl)|]; lia. }
      unfold input_from. apply wp_bind. apply wp_drop; [lia|]. apply wp_Ok. cbn [fst].
      pose proof (span_range is_digit (skipn (Z.to_nat p2) (input s))) as Q.
      rewrite len_skipn_le in Q by lia. lia. }
    intros [p3 have_exp] Hp3. cbn [fst] in Hp3.
    apply wp_bind. apply wp_peek; [lia|]. intros suffix Hsuf _.
    apply wp_bind.
    apply (wp_conseq _ (fun p4 => p3 <= p4 <= len (input s))).
    { destruct suffix; [|apply wp_Ok; lia]. destruct (Hsuf eq_refl) as [Hs _].
      unfold slen, at_. wp_go; lia. }
    intros p4 Hp4.
    unfold input_from, slen. apply wp_bind. apply wp_drop; [lia|].
    destruct (isE && negb have_exp).
    + apply wp_bind. rewrite assign_ok; [|lia|rewrite len_skipn_le; lia]. apply wp_Ok. apply wp_Ok.
      split_post. apply tok_at_assign; try lia. reflexivity.
    + apply wp_bind. rewrite assign_ok; [|lia|rewrite len_skipn_le; lia]. apply wp_Ok. apply wp_Ok.
      split_post. apply tok_at_assign; try lia. reflexivity.
  - (* 0x / 0b *)
    assert (pos s + 2 <= len (input s)) by (apply Hdg; discriminate).
    unfold slen, at_, input_from in *. wp_go; leaf.
Qed.


(* ---------- the dispatched lexer ---------- *)

Lemma run_parser_spec s t0 ch :
  lex_pre s -> nth_error (input s) (Z.to_nat (pos s)) = Some ch ->
  wp (run_parser (dispatch ch) s t0) (lex_post_w s t0).
Proof.
  intros Hpre N. pose proof (dispatch_char ch) as K. unfold dispatch_char_ok in K.
  destruct (dispatch ch) eqn:D; cbn [run_parser];
    try (apply parse_white_spec; exact Hpre);
    (eapply wp_conseq; [|intros r Hr; apply lex_post_weaken; exact Hr]).
  - apply parse_operator1_spec; exact Hpre.
  - apply parse_operator2_spec; exact Hpre.
  - apply parse_string_spec; exact Hpre.
  - apply beq_eq in K. subst ch. apply parse_hash_spec; assumption.
  - apply beq_eq in K. subst ch. apply parse_money_spec; assumption.
  - eapply parse_byte_spec; eassumption.
  - apply beq_eq in K. subst ch. apply parse_dash_spec; assumption.
  - eapply parse_number_spec; eassumption.
  - apply parse_slash_spec; exact Hpre.
  - apply parse_other_spec; exact Hpre.
  - apply parse_var_spec; exact Hpre.
  - apply negb_true_iff in K. eapply parse_word_spec; eassumption.
  - apply negb_true_iff in K. eapply parse_xb_string_spec; eassumption.
  - apply negb_true_iff in K. eapply parse_estring_spec; eassumption.
  - apply negb_true_iff in K. eapply parse_nqstring_spec; eassumption.
  - apply negb_true_iff in K. eapply parse_qstring_core_spec; try eassumption; lia.
  - apply negb_true_iff in K. eapply parse_ustring_spec; eassumption.
  - apply negb_true_iff in K. eapply parse_xb_string_spec; eassumption.
  - apply parse_bword_spec; exact Hpre.
  - apply parse_backslash_spec; exact Hpre.
  - apply parse_tick_spec; exact Hpre.
Qed.

(* ---------- tokenize ---------- *)

Definition st_wf (s : sqlst) : Prop := 0 <= pos s <= slen s.

Definition tokenize_post (s : sqlst) (r : bool * token * sqlst) : Prop :=
  let '(more, t, s') := r in
  input s' = input s /\ flags s' = flags s /\ n_folds (st s') = n_folds (st s) /\
  pos s <= pos s' <= slen s /\
  (more = true -> pos s < pos s' /\ tok_at (input s) (pos s) (pos s') t /\
                  n_tokens (st s') = n_tokens (st s) + 1) /\
  (more = false -> pos s' = slen s /\ n_tokens (st s') = n_tokens (st s)).

Lemma tokenize_loop_spec fuel : forall s t,
  st_wf s -> t_cat t = x00 -> slen s - pos s < Z.of_nat fuel ->
  wp (tokenize_loop fuel s t) (tokenize_post s).
Proof.
  induction fuel as [|fuel IH]; intros s t Hwf Ht Hf; unfold st_wf in Hwf; cbn [tokenize_loop].
  - lia.
  - destruct (pos s <? slen s) eqn:E.
    + apply wp_bind. unfold at_. apply wp_get; [unfold slen in *; lia|]. intros ch Hch.
      apply wp_bind. eapply wp_conseq; [apply run_parser_spec; [unfold lex_pre; lia|exact Hch]|].
      intros [[s1 t1] np] (A & B & C & D & F & G).
      destruct (negb (beq (t_cat t1) x00)) eqn:Ec.
      * apply wp_Ok. unfold tokenize_post, bump_tokens, set_stats, set_pos, slen in *.
        cbn [input flags pos st n_folds n_tokens].
        destruct G as [G|G].
        { subst t1. rewrite Ht in Ec. vm_compute in Ec. discriminate. }
        refine (conj A (conj B (conj D (conj _ (conj _ _))))); try lia; try discriminate.
        intros _. refine (conj _ (conj G _)); lia.
      * apply negb_false_iff, beq_eq in Ec.
        eapply wp_conseq.
        { apply IH; unfold st_wf, set_pos, slen in *; cbn [input pos]; try rewrite A; try lia; exact Ec. }
        intros [[more t2] s2]. unfold tokenize_post, set_pos, slen. cbn [input flags pos st].
        rewrite A. intros (A2 & B2 & C2 & D2 & E2 & F2).
        refine (conj A2 (conj _ (conj _ (conj _ (conj _ _))))); try congruence; try lia.
        all: intros Hm; first [ destruct (E2 Hm) as (X1 & X2 & X3); refine (conj _ (conj _ _)); try lia;
                                eapply tok_at_weaken; [| |exact X2]; lia
                              | destruct (F2 Hm) as (X1 & X2); split; lia ].
    + apply wp_Ok. unfold tokenize_post. repeat split; try lia; discriminate.
Qed.

Lemma tokenize_spec s cur : st_wf s -> wp (tokenize s cur) (tokenize_post s).
Proof.
  intros Hwf. unfold tokenize. pose proof (len_nonneg (input s)) as Hlen.
  destruct (slen s =? 0) eqn:E0.
  - apply wp_Ok. unfold tokenize_post, st_wf in *. repeat split; try lia; discriminate.
  - destruct ((pos s =? 0) && negb (Z.land (flags s) (Z.lor c_sqli_flag_quote_single c_sqli_flag_quote_double) =? 0)) eqn:Eq.
    + apply andb_true_iff in Eq. destruct Eq as [Ep _].
      apply wp_bind. unfold slen. eapply wp_conseq; [apply parse_string_core_spec; unfold slen in *; lia|].
      intros [t np] (A & B & C & D & F). apply wp_Ok.
      unfold tokenize_post, bump_tokens, set_stats, set_pos, slen in *. cbn [input flags pos st n_folds n_tokens].
      refine (conj eq_refl (conj eq_refl (conj eq_refl (conj _ (conj _ _))))); try lia; try discriminate.
      intros _. refine (conj _ (conj _ _)); try lia. eapply tok_at_weaken; [| |exact C]; lia.
    + apply tokenize_loop_spec; [exact Hwf|reflexivity|unfold st_wf, slen, len in *; lia].
Qed.
