(* TokensSpec: the whole scan of one parsing mode (C16). *)
From Coq Require Import List ZArith String Bool Lia ZifyBool.
From Coq.Strings Require Import Byte.
From LI Require Import Prelude Base SqliLex Proofs.BaseFacts Proofs.Wp Proofs.LexBase Proofs.LexSpec.
From LIGen Require Import Tables Dispatch Consts.
Import ListNotations.
Local Open Scope Z_scope.

(* the records (token, scan offset before, scan offset after) of a scan that starts at `cur` *)
Fixpoint toks_ok (inp : bytes) (cur : Z) (l : list (token * Z * Z)) : Prop :=
  match l with
  | [] => True
  | (t, b, a) :: l' => b = cur /\ b < a <= len inp /\ tok_at inp b a t /\ toks_ok inp a l'
  end.

Lemma tokens_loop_spec fuel : forall s acc,
  st_wf s -> slen s - pos s + 1 < Z.of_nat fuel ->
  wp (tokens_loop fuel s acc)
     (fun r => exists l2, fst r = rev acc ++ l2 /\ toks_ok (input s) (pos s) l2 /\
                          pos (snd r) = slen s /\ input (snd r) = input s /\ flags (snd r) = flags s /\
                          Z.of_nat (List.length l2) <= slen s - pos s /\
                          n_tokens (st (snd r)) = n_tokens (st s) + Z.of_nat (List.length l2)).
Proof.
  induction fuel as [|fuel IH]; intros s acc Hwf Hf; cbn [tokens_loop]; [unfold st_wf in *; lia|].
  apply wp_bind. eapply wp_conseq; [apply tokenize_spec; exact Hwf|].
  intros [[more t] s1] (A & B & C & D & E & F).
  destruct more.
  - destruct (E eq_refl) as (E1 & E2 & E3).
    eapply wp_conseq.
    { apply IH; unfold st_wf, slen in *; rewrite ?A; lia. }
    intros [l s2]. cbn [fst snd]. intros (l2 & L1 & L2 & L3 & L4 & L5 & L6 & L7).
    exists ((t, pos s, pos s1) :: l2). unfold slen in *. rewrite A in *.
    cbn [toks_ok List.length]. splits; try congruence; try lia; try assumption.
    rewrite L1. cbn [rev]. rewrite <- app_assoc. reflexivity.
  - destruct (F eq_refl) as (F1 & F2). apply wp_Ok. cbn [fst snd]. exists [].
    rewrite app_nil_r. cbn [toks_ok List.length]. unfold st_wf in Hwf. splits; try assumption; try lia; auto.
Qed.

Lemma sqli_init_wf inp fl : st_wf (sqli_init inp fl).
Proof. unfold st_wf, sqli_init, slen. cbn [pos input]. pose proof (len_nonneg inp). lia. Qed.

Theorem tokens_spec inp fl :
  exists l s, tokens inp fl = Ok (l, s) /\ toks_ok inp 0 l /\ pos s = len inp /\
              input s = inp /\ (List.length l <= List.length inp)%nat.
Proof.
  unfold tokens.
  destruct (wp_inv _ _ (tokens_loop_spec (S (S (List.length inp))) (sqli_init inp fl) [] (sqli_init_wf inp fl)
                          ltac:(unfold slen, sqli_init, len; cbn [input pos]; lia)))
    as [[l s] [E (l2 & L1 & L2 & L3 & L4 & L5 & L6 & L7)]].
  cbn [fst snd rev app] in *. subst l2. exists l, s.
  unfold sqli_init, slen, len in *. cbn [input pos] in *.
  splits; try assumption; lia.
Qed.

(* the same facts, element-wise *)
Lemma toks_ok_nth inp : forall l cur i t b a,
  toks_ok inp cur l -> nth_error l i = Some (t, b, a) ->
  cur <= b /\ b < a <= len inp /\ tok_at inp b a t /\
  (i = 0%nat -> b = cur) /\
  (forall t' b' a', nth_error l (S i) = Some (t', b', a') ->
                    b' = a /\ t_pos t + t_len t <= t_pos t').
Proof.
  induction l as [|[[t0 b0] a0] l IH]; intros cur i t b a H N; [destruct i; discriminate|].
  cbn [toks_ok] in H. destruct H as (H1 & H2 & H3 & H4).
  destruct i as [|i]; cbn [nth_error] in N.
  - inversion N; subst. splits; try lia; try assumption; auto.
    intros t' b' a' N'. cbn [nth_error] in N'. destruct l as [|[[t1 b1] a1] l]; [discriminate|].
    cbn [nth_error] in N'. inversion N'; subst. cbn [toks_ok] in H4. destruct H4 as (G1 & G2 & G3 & _).
    destruct H3 as (_ & _ & K & _). destruct G3 as (K' & _). lia.
  - destruct (IH a0 i t b a H4 N) as (J1 & J2 & J3 & J4 & J5).
    splits; try lia; try assumption; try discriminate.
Qed.
