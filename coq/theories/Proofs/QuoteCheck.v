(* QuoteCheck: fingerprint and verdict of x in a quote context against those of
   quote + x read as-is (C12, clause b, parts 2 and 3). *)
From Coq Require Import List ZArith String Bool Lia ZifyBool.
From Coq.Strings Require Import Byte.
From LI Require Import Prelude Base SqliLex SqliFold Proofs.BaseFacts Proofs.Wp Proofs.LexBase Proofs.LexSpec
  Proofs.FoldBase Proofs.FoldSpec Proofs.FoldLoop Proofs.CheckSpec
  Proofs.QuoteBase Proofs.QuoteTokens Proofs.QuoteFold.
From LIGen Require Import Tables Dispatch Consts.
Import ListNotations.
Local Open Scope Z_scope.

(* the window of the as-is run, from the window of the quote-context run *)
Definition shift_win (q : byte) (w : list token) : list token :=
  match w with
  | t :: r => set_open (shift_tok t) q :: map shift_tok r
  | [] => []
  end.

Lemma Forall2_tsh_map rq rx : Forall2 tsh rq rx -> rq = map shift_tok rx.
Proof.
  induction 1 as [|a b l1 l2 T F IH]; cbn [map]; [reflexivity|]. rewrite (tsh_eq _ _ T), IH. reflexivity.
Qed.

Lemma win_relF_shift q wq wx : win_relF q wq wx ->
  wq = shift_win q wx /\ (forall t r, wx = t :: r -> t_open t = x00).
Proof.
  destruct wq as [|hq rq], wx as [|hx rx]; cbn [win_relF]; try contradiction.
  - intros _. split; [reflexivity|]. intros t r H. discriminate H.
  - intros (Th & _ & F). split.
    + cbn [shift_win]. rewrite (Forall2_tsh_map _ _ F). f_equal.
      destruct hq as [p1 l1 c1 k1 o1 cl1 v1], hx as [p2 l2 c2 k2 o2 cl2 v2].
      unfold thd, set_open, shift_tok in *. cbn [t_pos t_len t_count t_cat t_open t_close t_val] in *.
      destruct Th as (-> & -> & -> & -> & -> & -> & -> & ->). reflexivity.
    + intros t r H. inversion H; subst. destruct Th as (_ & _ & _ & _ & _ & _ & _ & O). exact O.
Qed.


(* ---------- notWhitelist ---------- *)

Definition sp_password : bytes := bs "sp_password".

(* a byte other than 's' in front does not create or destroy an occurrence *)
Lemma contains_cons (q : byte) x : beq x73 q = false -> contains (q :: x) sp_password = contains x sp_password.
Proof.
  intros Hq. unfold contains. change sp_password with (x73 :: bs "p_password").
  cbn [index has_prefix]. rewrite Hq. cbn [andb].
  pose proof (index_range x (x73 :: bs "p_password")) as R.
  destruct (index x (x73 :: bs "p_password") <? 0) eqn:E; lia.
Qed.

Definition is_sos (fp : bytes) : bool := bytes_eqb fp (bs "sos") || bytes_eqb fp (bs "s&s").

Section Check.

Context (q : byte) (f1 f2 : Z) (Hq : beq x73 q = false) (Hq0 : beq q x00 = false).

Notation twin := (twin q f1 f2).
Notation win_relF := (win_relF q).

Lemma sim_wgetF {C D} (Q : C -> D -> Prop) site wq wx i kq kx :
  win_relF wq wx ->
  (forall p l c k oq ox cl v,
     (1 <= i /\ oq = ox) \/ (i = 0 /\ (k = cS \/ k = b_sqli_token_type_evil) /\ oq = q /\ ox = x00) ->
     simR Q (kq (mkTok (p + 1) l c k oq cl v)) (kx (mkTok p l c k ox cl v))) ->
  simR Q (bind (wget site wq i) kq) (bind (wget site wx i) kx).
Proof.
  intros W H a E. inv_bind E.
  destruct (Z_le_gt_dec 1 i) as [Hi|Hi].
  - destruct (relF_tail_get q _ _ _ _ _ W Hi E0) as [tq [Eq T]]. rewrite Eq. cbn [bind].
    destruct tq as [p1 l1 c1 k1 o1 cl1 v1], a0 as [p2 l2 c2 k2 o2 cl2 v2].
    unfold tsh, teq in T. cbn [t_pos t_len t_count t_cat t_open t_close t_val] in T.
    destruct T as ((-> & -> & -> & -> & -> & ->) & ->).
    apply (H p2 l2 c2 k2 o2 o2 cl2 v2); [|exact E]. left. split; [lia|reflexivity].
  - assert (i = 0) as ->.
    { unfold wget in E0. destruct (0 <=? i) eqn:E1; [lia|discriminate E0]. }
    destruct (relF_head_get q _ _ _ _ W E0) as [tq [Eq [T Tk]]]. rewrite Eq. cbn [bind].
    destruct tq as [p1 l1 c1 k1 o1 cl1 v1], a0 as [p2 l2 c2 k2 o2 cl2 v2].
    unfold thd in T. cbn [t_pos t_len t_count t_cat t_open t_close t_val] in T, Tk.
    destruct T as (-> & -> & -> & -> & -> & -> & -> & ->).
    apply (H p2 l2 c2 k2 q x00 cl2 v2); [|exact E]. right. auto.
Qed.

Ltac cstep :=
  lazymatch goal with
  | |- simR _ (Ok _) (Ok _) => apply simR_ret
  | |- simR _ (bind (wget _ _ _) _) (bind (wget _ _ _) _) =>
      apply sim_wgetF; [assumption | intros ?p ?l ?c ?k ?oq ?ox ?cl ?v ?Ho]
  | |- simR _ (bind (Ok _) _) (bind (Ok _) _) => cbn [bind]
  | |- simR eq ?m ?m => apply simR_refl
  | |- simR _ (if ?c then _ else _) (if ?c then _ else _) => destruct c eqn:?
  | |- simR _ (bind ?m _) (bind ?m _) =>
      eapply simR_bind with (R := eq); [apply simR_refl | intros ? ? ? ?E; subst]
  end.

Ltac simp_c :=
  unfold cat_is in *; cbn [t_pos t_len t_count t_cat t_open t_close t_val] in *.

Lemma not_whitelist_sim sq sx fp wq wx :
  twin sq sx -> win_relF wq wx -> is_sos fp = false ->
  simR eq (not_whitelist sq fp wq) (not_whitelist sx fp wx).
Proof.
  intros (Ei & _ & _ & _ & Est) W Hs. unfold not_whitelist. rewrite Ei, Est.
  fold sp_password. rewrite (contains_cons q (input sx) Hq).
  cbv zeta. cstep. cstep; [cstep; reflexivity|]. cstep; [|cstep].
  - (* two tokens *)
    cstep. cstep; [cstep; reflexivity|]. cstep. simp_c. cstep. cstep; [cstep; reflexivity|].
    cstep. simp_c.
    destruct Ho0 as [[? _]|(_ & Hk & _ & _)]; [lia|].
    assert (Kw : beq k0 b_sqli_token_type_bare_word = false) by (destruct Hk; subst k0; reflexivity).
    assert (Kn : beq k0 b_sqli_token_type_number = false) by (destruct Hk; subst k0; reflexivity).
    rewrite Kw, Kn. cbn [andb]. cbv iota. apply simR_refl.
  - cstep.
    + unfold is_sos in Hs. exfalso.
      match goal with H : _ || _ = true |- _ => rewrite H in Hs end. discriminate Hs.
    + cstep; [cstep; reflexivity|]. cstep. simp_c. apply simR_refl.
  - cstep. reflexivity.
Qed.




Lemma not_whitelist_sos sq sx fp wq wx vx :
  twin sq sx -> win_relF wq wx -> is_sos fp = true ->
  not_whitelist sx fp wx = Ok vx -> not_whitelist sq fp wq = Ok false.
Proof.
  intros (Ei & _ & _ & _ & Est) W Hs E.
  assert (Hfp : fp = bs "sos" \/ fp = bs "s&s").
  { unfold is_sos in Hs. apply orb_true_iff in Hs. destruct Hs as [H|H]; apply bytes_eqb_eq in H; auto. }
  assert (S : simR (fun vq _ => vq = false) (not_whitelist sq fp wq) (not_whitelist sx fp wx)).
  { unfold not_whitelist. cbv zeta.
    destruct Hfp as [-> | ->].
    - match goal with |- context [bs ?s] => let v := eval vm_compute in (bs s) in change (bs s) with v end.
      match goal with |- context [len ?l] => let v := eval vm_compute in (len l) in change (len l) with v end.
      change (1 <? 3) with true. change (3 =? 2) with false. change (3 =? 3) with true. cbv iota.
      change (3 - 1) with 2.
      match goal with |- context [get ?s ?l 2] => let v := eval vm_compute in (get s l 2) in change (get s l 2) with v end.
      cbn [bind]. change (beq x73 b_sqli_token_type_comment) with false. cbn [andb bind]. cbv iota.
      match goal with |- context [bytes_eqb ?a ?b || ?c] =>
        let v := eval vm_compute in (bytes_eqb a b || c) in change (bytes_eqb a b || c) with v end.
      cbv iota.
      cstep. cstep. apply simR_ret. simp_c.
      destruct Ho as [[? _]|(_ & _ & -> & _)]; [lia|]. rewrite Hq0. reflexivity.
    - match goal with |- context [bs ?s] => let v := eval vm_compute in (bs s) in change (bs s) with v end.
      match goal with |- context [len ?l] => let v := eval vm_compute in (len l) in change (len l) with v end.
      change (1 <? 3) with true. change (3 =? 2) with false. change (3 =? 3) with true. cbv iota.
      change (3 - 1) with 2.
      match goal with |- context [get ?s ?l 2] => let v := eval vm_compute in (get s l 2) in change (get s l 2) with v end.
      cbn [bind]. change (beq x73 b_sqli_token_type_comment) with false. cbn [andb bind]. cbv iota.
      match goal with |- context [bytes_eqb ?a ?b || ?c] =>
        let v := eval vm_compute in (bytes_eqb a b || c) in change (bytes_eqb a b || c) with v end.
      cbv iota.
      cstep. cstep. apply simR_ret. simp_c.
      destruct Ho as [[? _]|(_ & _ & -> & _)]; [lia|]. rewrite Hq0. reflexivity. }
  destruct (S vx E) as [vq [Eq ->]]. exact Eq.
Qed.


End Check.
Theorem quote_fingerprint q qf d x : quote_case q qf -> dialect d -> x <> [] ->
  exists fp w s,
    sqli_fingerprint (sqli_init x 0) (qf + d) = Ok (fp, w, s) /\
    sqli_fingerprint (sqli_init (q :: x) 0) (c_sqli_flag_quote_none + d)
      = Ok (fp, shift_win q w, shift_st q (c_sqli_flag_quote_none + d) s) /\
    (forall t r, w = t :: r -> t_open t = x00).
Proof.
  intros Hq Hd Hx.
  destruct (quote_flags q qf d Hq Hd) as (D & F2 & Fq & F1 & Dq & Z2 & Z1).
  destruct (wp_inv _ _ (sqli_fingerprint_spec (sqli_init x 0) (qf + d))) as [[[fp w] s] [E _]].
  destruct (sqli_fingerprint_sim q _ _ D (sqli_init (q :: x) 0) (sqli_init x 0) eq_refl Hx Z1 Z2 F2 Fq F1 Dq _ E)
    as [[[fpq wq] sq] [Eq (R1 & R2 & R3)]].
  cbn [fst snd] in *. subst fpq.
  destruct (win_relF_shift _ _ _ R2) as [-> O].
  exists fp, w, s. splits; [exact E| |exact O].
  rewrite Eq. rewrite (twin_shift_st _ _ _ _ _ R3). reflexivity.
Qed.

Print Assumptions quote_fingerprint.


Lemma quote_byte q qf : quote_case q qf -> beq x73 q = false /\ beq q x00 = false.
Proof. intros [[-> _]|[-> _]]; split; reflexivity. Qed.

Theorem quote_verdict q qf d x : quote_case q qf -> dialect d -> x <> [] ->
  exists fp vq vx stt,
    fingerprint_ctx x (qf + d) = Ok (fp, blacklist fp, vx, stt) /\
    fingerprint_ctx (q :: x) (c_sqli_flag_quote_none + d) = Ok (fp, blacklist fp, vq, stt) /\
    (is_sos fp = false -> vq = vx) /\
    (is_sos fp = true -> vq = false).
Proof.
  intros Hq Hd Hx.
  destruct (quote_flags q qf d Hq Hd) as (D & F2 & Fq & F1 & Dq & Z2 & Z1).
  destruct (quote_byte q qf Hq) as [Q1 Q2].
  unfold fingerprint_ctx.
  destruct (wp_inv _ _ (sqli_fingerprint_spec (sqli_init x 0) (qf + d))) as [[[fp w] s] [E (A & Wf & Fk)]].
  destruct (sqli_fingerprint_sim q _ _ D (sqli_init (q :: x) 0) (sqli_init x 0) eq_refl Hx Z1 Z2 F2 Fq F1 Dq _ E)
    as [[[fpq wq] sq] [Eq (R1 & R2 & R3)]].
  cbn [fst snd] in *. subst fpq. rewrite E, Eq. cbn [bind].
  assert (Fk' : fp = [b_sqli_token_type_evil] \/
                (fp = map t_cat w /\ Forall ftok w /\ (wlen w = 2 -> fwin_ok (input s) w))).
  { cbn [input sqli_init] in A. rewrite A. exact Fk. }
  destruct (wp_inv _ _ (check_fingerprint_total s fp w Fk')) as [vx [Ex _]].
  rewrite Ex. cbn [bind].
  assert (Est : st sq = st s) by (destruct R3 as (_ & _ & _ & _ & X); exact X).
  unfold check_fingerprint in *. destruct (blacklist fp) eqn:B.
  - destruct (is_sos fp) eqn:S.
    + rewrite (not_whitelist_sos q _ _ Q1 Q2 sq s fp wq w vx R3 R2 S Ex). cbn [bind]. rewrite Est.
      exists fp, false, vx, (st s). rewrite B. splits; auto; intros; congruence.
    + destruct (not_whitelist_sim q _ _ Q1 Q2 sq s fp wq w R3 R2 S vx Ex) as [vq [Eq2 ->]].
      rewrite Eq2. cbn [bind]. rewrite Est.
      exists fp, vx, vx, (st s). rewrite B. splits; auto; intros; congruence.
  - inversion Ex; subst vx. cbn [bind]. rewrite Est.
    exists fp, false, false, (st s). rewrite B. splits; auto.
Qed.

Print Assumptions quote_verdict.

(* the window relation, element-wise *)
Lemma shift_win_length q w : List.length (shift_win q w) = List.length w.
Proof. destruct w as [|t r]; cbn [shift_win List.length]; [reflexivity|]. rewrite map_length. reflexivity. Qed.

Lemma shift_win_nth q w i t :
  nth_error w i = Some t ->
  nth_error (shift_win q w) i = Some (match i with O => set_open (shift_tok t) q | S _ => shift_tok t end).
Proof.
  destruct w as [|t0 r]; [destruct i; discriminate|].
  destruct i as [|i]; cbn [nth_error shift_win].
  - intros [= ->]. reflexivity.
  - intros H. rewrite nth_error_map, H. reflexivity.
Qed.
