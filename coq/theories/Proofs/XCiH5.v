(* XCiH5: lock-step simulation of the HTML5 tokenizer on two inputs that are
   equal up to ASCII letter case (C11 a).  The two runs stay in the same
   position / state / token fields and return the same `more` flag (or fail in
   the same way); the only case-sensitive test, the CDATA opener, is excluded by
   no_cdata_like. *)
From Coq Require Import List ZArith String Bool Lia ZifyBool.
From Coq.Strings Require Import Byte.
From LI Require Import Prelude Base Html5 Proofs.BaseFacts Proofs.LexBase Spec.XCiSpec Proofs.XCiBase.
From LIGen Require Import Consts.
Import ListNotations.
Local Open Scope Z_scope.

Section LockStep.
Variables s s' : bytes.
Variable Hcv : cv s s'.
Variable Hnc : no_cdata_like s = true.

(* the same tokenizer state over the other input *)
Definition reh (h : h5) : h5 :=
  mkH5 s' (hpos h) (is_close h) (hstate h) (tok_off h) (tok_len h) (tok_type h).

(* the byte k places before the position is c *)
Definition prev (h : h5) (k : Z) (c : byte) : Prop :=
  k <= hpos h /\ nth_error s (Z.to_nat (hpos h - k)) = Some c.

(* what the state function f may rely on when it runs on h: the markup
   declaration state is only ever entered right behind "<!" *)
Definition pre (f : h5fn) (h : h5) : Prop :=
  match f with
  | STagOpen => prev h 1 x3c
  | SMarkupDeclarationOpen => prev h 1 x21 /\ prev h 2 x3c
  | _ => True
  end.

Definition inv (h : h5) : Prop := hs h = s /\ pre (hstate h) h.

Definition R_out (r r' : bool * h5) : Prop :=
  fst r' = fst r /\ hs (snd r) = s /\ snd r' = reh (snd r) /\ (fst r = true -> pre (hstate (snd r)) (snd r)).

Definition R_sw (r r' : Z * h5) : Prop :=
  upz (fst r') = upz (fst r) /\ hs (snd r) = s /\ snd r' = reh (snd r).

Definition R_ban (o o' : ban_out) : Prop :=
  match o, o' with
  | BanDone r, BanDone r' => R_out r r'
  | BanCall f h, BanCall f' h' =>
      f' = f /\ hs h = s /\ h' = reh h /\ (f = SSelfClosingStartTag \/ f = SAttributeName)
  | _, _ => False
  end.

(* ---------- tactics ---------- *)

Ltac simp_h :=
  unfold hlen, with_pos, with_state, with_close, reh, loop_fuel in *;
  cbn [hs hpos is_close hstate tok_off tok_len tok_type fst snd] in *.

Ltac norm :=
  repeat match goal with
         | H : cv ?r ?r' |- context [len ?r'] => rewrite (cv_len r r' H)
         | H : cv ?r ?r' |- context [List.length ?r'] => rewrite (cv_length r r' H)
         | H : cv ?r ?r' |- context [index_byte ?r' ?c] => rewrite (cv_index_byte r r' c H eq_refl)
         | H : cv ?r ?r' |- context [span ?p ?r'] => rewrite (cv_span p r r' H) by (vm_compute; reflexivity)
         | H : cvb ?b ?b' |- context [beq ?b' ?c] => rewrite (cvb_beq b b' c H eq_refl)
         | H : cvb ?b ?b' |- context [is_h5_white ?b'] =>
             rewrite (cvb_resp is_h5_white b b' ltac:(vm_compute; reflexivity) H)
         | H : cvb ?b ?b' |- context [is_letter ?b'] =>
             rewrite (cvb_resp is_letter b b' ltac:(vm_compute; reflexivity) H)
         | H : cv ?r ?r' |- context [to_lower_cmp ?k ?r'] => rewrite (cv_to_lower_cmp k r r' H)
         | H : cv ?r ?r' |- context [bytes_eqb ?r' ?k] => rewrite (cv_bytes_eqb_lit r r' k H eq_refl)
         | H : upz ?z' = upz ?z |- context [?z' =? ?c] => rewrite (upz_eqb z z' c H eq_refl)
         end.

Ltac out_false := solve [unfold R_out; simp_h; repeat split; try reflexivity; discriminate].

Lemma rel_emit site h off tlen ty npos nst cl :
  hs h = s -> pre nst (mkH5 s npos cl nst off tlen ty) ->
  rel_res R_out (emit site h off tlen ty npos nst cl) (emit site (reh h) off tlen ty npos nst cl).
Proof.
  intros E P. unfold emit. eapply rel_bind; [apply rel_drop; simp_h; rewrite E; exact Hcv|].
  intros r r' _. apply rel_Ok. unfold R_out. simp_h. rewrite E. repeat split; try reflexivity. intros _. exact P.
Qed.

Lemma rel_skip_white h : hs h = s -> rel_res R_sw (skip_white h) (skip_white (reh h)).
Proof.
  intros E. destruct h as [s0 p c st o l t]. cbn [hs] in E. subst s0.
  unfold skip_white. simp_h.
  eapply rel_bind; [apply rel_drop; exact Hcv|]. intros rest rest' Hr. norm.
  destruct (p + span is_skip_white rest <? len s).
  - eapply rel_bind; [apply rel_get; exact Hcv|]. intros b b' Hb. apply rel_Ok.
    unfold R_sw. simp_h. repeat split; try reflexivity. apply cvb_upz. exact Hb.
  - apply rel_Ok. unfold R_sw. simp_h. repeat split; reflexivity.
Qed.

Lemma bind_assoc {A B C} (m : res A) (f : A -> res B) (g : B -> res C) :
  bind (bind m f) g = bind m (fun x => bind (f x) g).
Proof. destruct m; reflexivity. Qed.

Ltac ls_step IH :=
  lazymatch goal with
  | |- context [if 0 <? ?p then mkH5 _ _ _ _ _ _ _ else _] => destruct (0 <? p) eqn:?
  | |- rel_res _ (bind (drop _ _ _) _) (bind (drop _ _ _) _) =>
      eapply rel_bind; [apply rel_drop_x; assumption | intros ? ? (? & ? & ?)]
  | |- rel_res _ (bind (get _ _ _) _) (bind (get _ _ _) _) =>
      eapply rel_bind; [apply rel_get_x; assumption | intros ? ? (? & ? & ?)]
  | |- rel_res _ (bind (slice _ _ _ _) _) (bind (slice _ _ _ _) _) =>
      eapply rel_bind; [apply rel_slice_x; assumption | intros ? ? (? & ? & ?)]
  | |- rel_res _ (bind (skip_white _) _) (bind (skip_white _) _) =>
      eapply rel_bind; [apply rel_skip_white; reflexivity |
        let ch := fresh "ch" in let h1 := fresh "h" in let ch' := fresh "ch" in let h1' := fresh "h" in
        let Hz := fresh "Hz" in let Hs := fresh "Hs" in let Hh := fresh "Hh" in
        intros [ch h1] [ch' h1'] (Hz & Hs & Hh); cbn [fst snd] in Hz, Hs, Hh; subst h1';
        destruct h1; cbn [hs] in Hs; subst ]
  | |- rel_res _ (bind (if ?c then _ else _) _) (bind (if ?c then _ else _) _) => destruct c eqn:?
  | |- rel_res _ (bind (Ok _) _) (bind (Ok _) _) => cbn [bind]
  | |- rel_res _ (bind (bind _ _) _) (bind (bind _ _) _) => rewrite !bind_assoc
  | |- rel_res _ (bind (emit _ _ _ _ _ _ _ _) _) (bind (emit _ _ _ _ _ _ _ _) _) => unfold emit
  | |- rel_res _ (before_attr_name_loop _ _) (before_attr_name_loop _ _) => eapply IH; reflexivity
  | |- rel_res _ (if ?c then _ else _) (if ?c then _ else _) => destruct c eqn:?
  | |- rel_res _ (emit _ _ _ _ _ _ _ _) (emit _ _ _ _ _ _ _ _) =>
      apply rel_emit; [reflexivity | cbn [pre]; try exact I]
  | |- rel_res R_out (Ok (false, _)) (Ok (false, _)) => out_false
  | |- rel_res R_out (Ok (true, _)) (Ok (true, _)) =>
      apply rel_Ok; unfold R_out; simp_h;
      split; [reflexivity | split; [reflexivity | split; [reflexivity | intros _; cbn [pre]; try exact I]]]
  | |- rel_res _ (Ok _) (Ok _) => apply rel_Ok
  | |- rel_res _ (bogus2_loop _ _ _) (bogus2_loop _ _ _) => eapply IH; reflexivity
  | |- rel_res _ (comment_loop _ _ _) (comment_loop _ _ _) => eapply IH; reflexivity
  | |- rel_res _ (cdata_loop _ _ _) (cdata_loop _ _ _) => eapply IH; reflexivity
  | |- rel_res _ (h5_call _ _ _) (h5_call _ _ _) => eapply IH; [reflexivity | cbn [pre]; try exact I]
  end.

Ltac ls IH := simp_h; norm; repeat (ls_step IH; simp_h; norm).

Ltac start h E :=
  destruct h as [s0 p c st o l t]; cbn [hs] in E; subst s0.

(* ---------- the three fuel loops ---------- *)

Lemma rel_bogus2 fuel : forall h p, hs h = s ->
  rel_res R_out (bogus2_loop fuel h p) (bogus2_loop fuel (reh h) p).
Proof.
  induction fuel as [|fuel IH]; intros h p0 E; [exact I|]. start h E. cbn [bogus2_loop]. ls IH.
Qed.

Lemma rel_comment fuel : forall h p, hs h = s ->
  rel_res R_out (comment_loop fuel h p) (comment_loop fuel (reh h) p).
Proof.
  induction fuel as [|fuel IH]; intros h p0 E; [exact I|]. start h E. cbn [comment_loop]. ls IH.
Qed.

Lemma rel_cdata fuel : forall h p, hs h = s ->
  rel_res R_out (cdata_loop fuel h p) (cdata_loop fuel (reh h) p).
Proof.
  induction fuel as [|fuel IH]; intros h p0 E; [exact I|]. start h E. cbn [cdata_loop]. ls IH.
Qed.

Lemma rel_ban fuel : forall h, hs h = s ->
  rel_res R_ban (before_attr_name_loop fuel h) (before_attr_name_loop fuel (reh h)).
Proof.
  induction fuel as [|fuel IH]; intros h E; [exact I|]. start h E. cbn [before_attr_name_loop]. ls IH.
  all: cbn [R_ban]; unfold R_out; simp_h; repeat split; try reflexivity; try discriminate;
    try (intros _; exact I); auto.
Qed.

(* ---------- the CDATA test, the only case-sensitive one ---------- *)

Lemma cdata_open_tail r : ci_starts cdata_open (x3c :: x21 :: r) = ci_starts (bs "[CDATA[") r.
Proof. reflexivity. Qed.

(* right behind "<!" no spelling of "[CDATA[" can follow, in either input *)
Lemma cdata_never p w w' :
  2 <= p -> nth_error s (Z.to_nat (p - 1)) = Some x21 -> nth_error s (Z.to_nat (p - 2)) = Some x3c ->
  cv w w' -> w = firstn (Z.to_nat (p + 7 - p)) (skipn (Z.to_nat p) s) ->
  bytes_eqb w (bs "[CDATA[") = false /\ bytes_eqb w' (bs "[CDATA[") = false.
Proof.
  intros Hp H1 H2 C W.
  assert (N : ~ cv (bs "[CDATA[") w).
  { intros K. pose proof (no_cdata_like_at (Z.to_nat (p - 2)) s Hnc) as F.
    rewrite (skipn_nth_cons _ _ _ H2) in F.
    replace (S (Z.to_nat (p - 2))) with (Z.to_nat (p - 1)) in F by lia.
    rewrite (skipn_nth_cons _ _ _ H1) in F.
    replace (S (Z.to_nat (p - 1))) with (Z.to_nat p) in F by lia.
    rewrite cdata_open_tail in F. rewrite ci_starts_firstn in F; [discriminate|].
    subst w. replace (Z.to_nat (p + 7 - p)) with 7%nat in K by lia. exact K. }
  split.
  - destruct (bytes_eqb w (bs "[CDATA[")) eqn:E; [|reflexivity]. apply bytes_eqb_eq in E.
    exfalso. apply N. rewrite E. apply cv_refl.
  - destruct (bytes_eqb w' (bs "[CDATA[")) eqn:E; [|reflexivity]. apply bytes_eqb_eq in E.
    exfalso. apply N. rewrite <- E. apply cv_sym. exact C.
Qed.

(* ---------- the state functions ---------- *)

Definition call_ok (d : nat) : Prop :=
  forall f h, hs h = s -> pre f h -> rel_res R_out (h5_call d f h) (h5_call d f (reh h)).

Lemma call_step d : call_ok d -> call_ok (S d).
Proof.
  intros IH f h E P. start h E. destruct f; cbn [h5_call]; ls IH;
    try (apply rel_bogus2; reflexivity); try (apply rel_comment; reflexivity); try (apply rel_cdata; reflexivity).
  - (* SData, '<' at the position: call STagOpen *)
    unfold prev. simp_h. subst a.
    destruct (index_byte_at s p _ b_byte_lt H0 eq_refl ltac:(lia)) as [I1 I2].
    split; [lia|].
    replace (p + index_byte (skipn (Z.to_nat p) s) b_byte_lt + 1 - 1) with (p + index_byte (skipn (Z.to_nat p) s) b_byte_lt) by lia.
    exact I2.
  - (* SData, text before '<': the next state is STagOpen *)
    unfold prev. simp_h. subst a.
    destruct (index_byte_at s p _ b_byte_lt H0 eq_refl ltac:(lia)) as [I1 I2].
    split; [lia|].
    replace (p + index_byte (skipn (Z.to_nat p) s) b_byte_lt + 1 - 1) with (p + index_byte (skipn (Z.to_nat p) s) b_byte_lt) by lia.
    exact I2.
  - (* STagOpen at '!': call SMarkupDeclarationOpen *)
    cbn [pre] in P. unfold prev in *. simp_h. destruct P as [P1 P2].
    apply beq_eq in Heqb0. subst a. split; (split; [lia|]).
    + replace (p + 1 - 1) with p by lia. exact H1.
    + replace (p + 1 - 2) with (p - 1) by lia. exact P2.
  - (* SMarkupDeclarationOpen: the CDATA test fails on both sides *)
    cbn [pre] in P. unfold prev in P. simp_h. destruct P as [[P1 P2] [P3 P4]].
    match goal with
    | Hc : cv ?w ?w', Hw : ?w = firstn _ _ |- context [bytes_eqb ?w (bs "[CDATA[")] =>
        destruct (cdata_never p w w' ltac:(lia) P2 P4 Hc Hw) as [F1 F2]; rewrite F1, F2
    end.
    ls IH.
  - (* STagNameClose *)
    destruct (p + 1 <? len s); exact I.
  - (* SBeforeAttributeName *)
    eapply rel_bind; [apply rel_ban; reflexivity|].
    intros [r|f h] [r'|f' h'] HR; cbn [R_ban] in HR; try contradiction.
    + apply rel_Ok. exact HR.
    + destruct HR as (-> & Hs & -> & Hf). apply IH; [exact Hs|]. destruct Hf as [-> | ->]; exact I.
Qed.

Lemma call_all d : call_ok d.
Proof.
  induction d as [|d IH]; [intros f h E P; exact I|]. apply call_step. exact IH.
Qed.

(* one step of the tokenizer, in lock-step *)
Lemma rel_next h : inv h -> rel_res R_out (h5_next h) (h5_next (reh h)).
Proof. intros [E P]. unfold h5_next. apply call_all; assumption. Qed.

Lemma inv_init fl : inv (h5_init s fl) /\ h5_init s' fl = reh (h5_init s fl).
Proof.
  unfold inv, h5_init, reh. cbn [hs hstate hpos is_close tok_off tok_len tok_type].
  split; [split; [reflexivity|]|reflexivity].
  repeat match goal with |- context [if ?c then _ else _] => destruct c end; exact I.
Qed.

End LockStep.
