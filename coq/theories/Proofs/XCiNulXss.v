(* XCiNulXss: C11 (b) -- a NUL byte inserted strictly inside an element name or
   attribute name token does not change the verdict of that injection context.
   The run on s = A ++ B and the run on t = A ++ NUL :: B are related step by
   step with the simulation of XCiNulH5; the classifier sees the same bytes for
   every token except the name token itself, whose look-up ignores NUL bytes. *)
From Coq Require Import List ZArith String Bool Lia ZifyBool.
From Coq.Strings Require Import Byte.
From LI Require Import Prelude Base Html5 Xss Proofs.BaseFacts Proofs.Wp Proofs.H5Spec Proofs.XssTotal
  Proofs.XCiNulBase Proofs.XCiNulMono Proofs.XCiNulH5.
From LIGen Require Import Consts.
Import ListNotations.
Local Open Scope Z_scope.

(* ---------- reads inside the left part of an append ---------- *)

Lemma take_app_l site (C X : bytes) n : n <= len C -> take site (C ++ X) n = take site C n.
Proof.
  intros H. unfold take. rewrite len_app. pose proof (len_nonneg X).
  replace (n <=? len C + len X) with true by lia. replace (n <=? len C) with true by lia.
  destruct (0 <=? n) eqn:E; cbn [andb]; [|reflexivity].
  f_equal. unfold len in *. rewrite firstn_app. replace (Z.to_nat n - List.length C)%nat with 0%nat by lia.
  cbn [firstn]. apply app_nil_r.
Qed.

Lemma get_app_l site (C X : bytes) k : k < len C -> get site (C ++ X) k = get site C k.
Proof.
  intros H. unfold get. destruct (0 <=? k) eqn:E; [|reflexivity].
  unfold len in *. rewrite nth_error_app1 by lia. reflexivity.
Qed.

Lemma slice_app_l site (C X : bytes) a b : b <= len C -> slice site (C ++ X) a b = slice site C a b.
Proof.
  intros H. unfold slice. rewrite len_app. pose proof (len_nonneg X).
  replace (b <=? len C + len X) with true by lia. replace (b <=? len C) with true by lia.
  destruct ((0 <=? a) && (a <=? b)) eqn:E; cbn [andb]; [|reflexivity].
  f_equal. unfold len in *. rewrite skipn_app, firstn_app.
  replace (Z.to_nat (b - a) - List.length (skipn (Z.to_nat a) C))%nat with 0%nat by (rewrite skipn_length; lia).
  cbn [firstn]. apply app_nil_r.
Qed.

Section NulXss.
Variables A B : bytes.
Variable HB : 0 < len B.
Variable HA : 0 < len A.
Local Notation s := (sS A B).
Local Notation t := (sT A B).
Local Notation i := (ii A).

Lemma callA_all d : callA A B d.
Proof.
  induction d as [|d IH]; [intros f h E P; exact I|]. apply callA_step; assumption.
Qed.

Lemma next_A h : hs h = s -> 0 <= hpos h < i ->
  simr (G A B) (Bad A) (h5_next h) (h5_next (shiftH A B h)).
Proof. intros E P. unfold h5_next. apply callA_all; assumption. Qed.

Lemma next_C h : hs h = s -> preC A (hstate h) h ->
  simr (G A B) (NoBad) (h5_next h) (h5_next (shiftH A B h)).
Proof. intros E P. unfold h5_next. apply (callC_all A B HB HA); assumption. Qed.

(* ---------- the classifier on a shifted token ---------- *)

Lemma classify_shift h1 attr :
  hs h1 = s -> tokOK A h1 -> 0 <= tok_off h1 -> 0 <= tok_len h1 -> tok_off h1 + tok_len h1 <= len s ->
  classify (shiftH A B h1) attr = classify h1 attr.
Proof.
  intros E K H1 H2 H3. destruct h1 as [s0 q c st o l ty]. cbn [hs] in E. subst s0.
  unfold tokOK in K. cbn [tok_off tok_len tok_type] in *.
  pose proof (ii_range A B) as R. pose proof (len_sS A B) as LS.
  unfold classify, shiftH. cbn [hs hpos is_close hstate tok_off tok_len tok_type].
  destruct (Z_le_gt_dec i o) as [Hio|Hio].
  - (* the token lies behind the insertion point *)
    rewrite (sg_ge A o Hio). unfold sl. replace (o <? i) with false by lia. cbn [andb].
    rewrite (drop_ge A B _ o (o + 1) eq_refl Hio). reflexivity.
  - rewrite (sg_lt A o) by lia.
    destruct (drop_lt A B "isXSS:tokenStart" o ltac:(lia)) as (C & E1 & E2 & E3). rewrite E1, E2. cbn [bind].
    destruct (Z_le_gt_dec (o + l) i) as [Hend|Hend].
    + (* the token lies before the insertion point *)
      unfold sl. replace ((o <? i) && (i <? o + l)) with false by lia.
      rewrite !(take_app_l _ C (x00 :: B)), !(take_app_l _ C B) by lia.
      destruct (3 <? l) eqn:E3l.
      * rewrite !(get_app_l _ C (x00 :: B)), !(get_app_l _ C B) by lia.
        rewrite !(slice_app_l _ C (x00 :: B)), !(slice_app_l _ C B) by lia.
        destruct (5 <? l) eqn:E5l; [|reflexivity].
        rewrite !(take_app_l _ C (x00 :: B)), !(take_app_l _ C B) by lia. reflexivity.
      * destruct (5 <? l) eqn:E5l; [lia|]. reflexivity.
    + (* the name token that contains the insertion point *)
      destruct K as [K|[K|K]]; [lia|lia|].
      unfold sl. replace ((o <? i) && (i <? o + l)) with true by lia.
      assert (T1 : take "isXSS:tokenStart[:tokenLen]" (C ++ B) l
                   = Ok (C ++ firstn (Z.to_nat (l - len C)) B)).
      { rewrite take_ok by (rewrite len_app; lia). f_equal. unfold len in *. rewrite firstn_app.
        rewrite firstn_all2 by lia. f_equal. f_equal. lia. }
      assert (T2 : take "isXSS:tokenStart[:tokenLen]" (C ++ x00 :: B) (l + 1)
                   = Ok (C ++ x00 :: firstn (Z.to_nat (l - len C)) B)).
      { rewrite take_ok by (rewrite len_app, len_cons; lia). f_equal. unfold len in *. rewrite firstn_app.
        rewrite firstn_all2 by lia. f_equal.
        replace (Z.to_nat (l + 1) - List.length C)%nat with (S (Z.to_nat (l - Z.of_nat (List.length C)))) by lia.
        reflexivity. }
      unfold isname in K. apply orb_true_iff in K. destruct K as [K|K]; apply Z.eqb_eq in K; subst ty.
      * vm_compute (c_html5_type_tag_name_open =? c_html5_type_attr_value).
        vm_compute (c_html5_type_tag_name_open =? c_html5_type_doc_type).
        vm_compute (c_html5_type_tag_name_open =? c_html5_type_tag_name_open).
        cbv iota. rewrite T1, T2. cbn [bind]. rewrite is_black_tag_ins. reflexivity.
      * vm_compute (c_html5_type_attr_name =? c_html5_type_attr_value).
        vm_compute (c_html5_type_attr_name =? c_html5_type_doc_type).
        vm_compute (c_html5_type_attr_name =? c_html5_type_tag_name_open).
        vm_compute (c_html5_type_attr_name =? c_html5_type_attr_name).
        cbv iota. rewrite T1, T2. cbn [bind]. rewrite is_black_attr_ins. reflexivity.
Qed.


(* ---------- one step, seen from the s-side ---------- *)

Lemma step_facts h m h1 : h5_ok h -> h5_next h = Ok (m, h1) ->
  hs h1 = hs h /\ h5_ok h1 /\
  (m = true -> 0 <= tok_off h1 /\ 0 <= tok_len h1 /\ tok_off h1 + tok_len h1 <= len (hs h1) /\
               tok_off h + tok_len h <= tok_off h1 /\
               hpos h <= hpos h1 /\ (isname (tok_type h1) = true -> hpos h <= tok_off h1)).
Proof.
  intros K E. pose proof (h5_next_spec h K) as W. rewrite E in W. cbn [wp next_post] in W.
  destruct W as (W1 & W2 & W3). pose proof (next_mono h _ E) as M.
  split; [exact W1|]. split; [exact W2|]. intros ->.
  destruct (W3 eq_refl) as (B1 & B2 & B3 & B4 & _). destruct (M eq_refl) as [M1 M2]. cbn [fst snd] in *.
  unfold hlen in B3. repeat split; assumption.
Qed.

Lemma ok_pos h : h5_ok h -> 0 <= hpos h.
Proof. unfold h5_ok. destruct (hstate h); cbn [st_ok]; lia. Qed.

Lemma ok_tend h : h5_ok h -> hstate h <> SEOF -> tok_off h + tok_len h <= hpos h.
Proof. unfold h5_ok. destruct (hstate h); cbn [st_ok]; try lia. congruence. Qed.

Lemma preC_le f h : preC A f h -> i <= hpos h.
Proof. destruct f; cbn [preC]; lia. Qed.

Lemma h5fn_eq_dec_SEOF (f : h5fn) : f = SEOF \/ f <> SEOF.
Proof. destruct f; [left; reflexivity|right; discriminate..]. Qed.

Lemma eof_next h : hstate h = SEOF -> h5_next h = Ok (false, h).
Proof. intros E. unfold h5_next. rewrite E. reflexivity. Qed.

(* ---------- behind the insertion point the two runs agree ---------- *)

Lemma run_C : forall n h attr b m b',
  hs h = s -> h5_ok h -> preC A (hstate h) h ->
  xss_loop n h attr = Ok b -> xss_loop m (shiftH A B h) attr = Ok b' -> b' = b.
Proof.
  induction n as [|n IH]; intros h attr b m b' E K P Hs Ht; [discriminate|].
  destruct m as [|m]; [discriminate|]. cbn [xss_loop] in Hs, Ht.
  destruct (h5_next h) as [[mo h1]| | |] eqn:E1; cbn [bind] in Hs; try discriminate.
  pose proof (next_C h E P) as S. rewrite E1 in S. cbn [simr] in S.
  destruct S as [[]|(r' & E2 & (G1 & G2 & G3))]. cbn [fst snd] in *. subst r'.
  rewrite E2 in Ht. cbn [bind] in Ht.
  destruct mo; [|congruence].
  destruct (step_facts h true h1 K E1) as (F1 & F2 & F3). destruct (F3 eq_refl) as (B1 & B2 & B3 & B4 & B5 & B6).
  destruct (G3 eq_refl) as [G4 G5]. rewrite G2 in B3.
  rewrite (classify_shift h1 attr G2 G5 B1 B2 B3) in Ht.
  destruct (classify h1 attr) as [[r a']| | |]; cbn [bind] in Hs, Ht; try discriminate.
  destruct r as [v|]; [congruence|].
  eapply IH; [exact G2|exact F2| |exact Hs|exact Ht].
  destruct G4 as [G4|G4]; [|exact G4]. apply preC_le in P. lia.
Qed.

(* ---------- the run up to the name token ---------- *)

Variables ty off ln : Z.
Variable Hty : isname ty = true.
Variable Hoff : off < i < off + ln.

(* the run from h emits the token (ty, off, ln) *)
Inductive emits : h5 -> Prop :=
| emits_here h h1 : h5_next h = Ok (true, h1) ->
    tok_type h1 = ty -> tok_off h1 = off -> tok_len h1 = ln -> emits h
| emits_later h h1 : h5_next h = Ok (true, h1) -> emits h1 -> emits h.

Lemma tokens_emits : forall fuel h acc toks,
  h5_tokens_loop fuel h acc = Ok toks -> In (ty, off, ln) toks -> In (ty, off, ln) acc \/ emits h.
Proof.
  induction fuel as [|fuel IH]; intros h acc toks Hl Hin; [discriminate|].
  cbn [h5_tokens_loop] in Hl.
  destruct (h5_next h) as [[m h1]| | |] eqn:E; cbn [bind] in Hl; try discriminate. destruct m.
  - destruct (IH _ _ _ Hl Hin) as [I0|Em].
    + destruct I0 as [Eq|I0]; [|left; exact I0]. right. inversion Eq. eapply emits_here; eauto.
    + right. eapply emits_later; eauto.
  - inversion Hl; subst. left. apply in_rev. exact Hin.
Qed.

Lemma emits_bound h : emits h -> h5_ok h -> hpos h <= off /\ tok_off h + tok_len h <= off.
Proof.
  induction 1 as [h h1 E1 T1 T2 T3|h h1 E1 Em IH]; intros K;
    destruct (step_facts h true h1 K E1) as (F1 & F2 & F3); destruct (F3 eq_refl) as (B1 & B2 & B3 & B4 & B5 & B6).
  - rewrite T1 in B6. specialize (B6 Hty). lia.
  - destruct (IH F2) as [I1 I2]. lia.
Qed.

Lemma run_A h : emits h -> hs h = s -> h5_ok h ->
  forall n attr b m b', xss_loop n h attr = Ok b -> xss_loop m (shiftH A B h) attr = Ok b' -> b' = b.
Proof.
  induction 1 as [h h1 E1 T1 T2 T3|h h1 E1 Em IH]; intros E K n attr b m b' Hs Ht.
  - (* the step that emits the name token *)
    destruct (emits_bound h (emits_here h h1 E1 T1 T2 T3) K) as [P1 P2].
    pose proof (ok_pos h K) as P0.
    destruct (step_facts h true h1 K E1) as (F1 & F2 & F3). destruct (F3 eq_refl) as (B1 & B2 & B3 & B4 & B5 & B6).
    pose proof (next_A h E ltac:(lia)) as S. rewrite E1 in S. cbn [simr] in S.
    destruct S as [Sb|(r' & E2 & (G1 & G2 & G3))].
    { exfalso. destruct Sb as [Sb|[_ Sb]]; [discriminate Sb|]. apply Sb. unfold nameCover. cbn [snd].
      rewrite T1, T2, T3. split; [exact Hty|lia]. }
    cbn [fst snd] in *. subst r'.
    destruct n as [|n]; [discriminate|]. destruct m as [|m]; [discriminate|]. cbn [xss_loop] in Hs, Ht.
    rewrite E1 in Hs. rewrite E2 in Ht. cbn [bind] in Hs, Ht.
    destruct (G3 eq_refl) as [G4 G5]. rewrite G2 in B3.
    rewrite (classify_shift h1 attr G2 G5 B1 B2 B3) in Ht.
    destruct (classify h1 attr) as [[r a']| | |]; cbn [bind] in Hs, Ht; try discriminate.
    destruct r as [v|]; [congruence|].
    destruct G4 as [G4|G4].
    + (* the name runs to the end of the input: the tokenizer has stopped *)
      assert (St : hstate h1 = SEOF).
      { destruct (h5fn_eq_dec_SEOF (hstate h1)) as [St|St]; [exact St|].
        pose proof (ok_tend h1 F2 St). lia. }
      destruct n as [|n]; [discriminate|]. destruct m as [|m]; [discriminate|]. cbn [xss_loop] in Hs, Ht.
      rewrite (eof_next h1 St) in Hs. rewrite (eof_next (shiftH A B h1) St) in Ht.
      cbn [bind] in Hs, Ht. congruence.
    + eapply run_C; [exact G2|exact F2|exact G4|exact Hs|exact Ht].
  - (* an earlier step *)
    destruct (emits_bound h (emits_later h h1 E1 Em) K) as [P1 P2].
    pose proof (ok_pos h K) as P0.
    destruct (step_facts h true h1 K E1) as (F1 & F2 & F3). destruct (F3 eq_refl) as (B1 & B2 & B3 & B4 & B5 & B6).
    destruct (emits_bound h1 Em F2) as [Q1 Q2].
    pose proof (next_A h E ltac:(lia)) as S. rewrite E1 in S. cbn [simr] in S.
    destruct S as [Sb|(r' & E2 & (G1 & G2 & G3))].
    { exfalso. destruct Sb as [Sb|[Sb _]]; [discriminate Sb|]. cbn [snd] in Sb. lia. }
    cbn [fst snd] in *. subst r'.
    destruct n as [|n]; [discriminate|]. destruct m as [|m]; [discriminate|]. cbn [xss_loop] in Hs, Ht.
    rewrite E1 in Hs. rewrite E2 in Ht. cbn [bind] in Hs, Ht.
    destruct (G3 eq_refl) as [G4 G5]. rewrite G2 in B3.
    rewrite (classify_shift h1 attr G2 G5 B1 B2 B3) in Ht.
    destruct (classify h1 attr) as [[r a']| | |]; cbn [bind] in Hs, Ht; try discriminate.
    destruct r as [v|]; [congruence|].
    eapply IH; [exact G2|exact F2|exact Hs|exact Ht].
Qed.

End NulXss.

(* ---------- C11 (b) ---------- *)

Lemma init_shift A B fl : 0 < len A -> h5_init (sT A B) fl = shiftH A B (h5_init (sS A B) fl).
Proof.
  intros HA. unfold h5_init, shiftH. cbn [hs hpos is_close hstate tok_off tok_len tok_type].
  unfold sg, sl, ii. replace (0 <? len A) with true by lia. cbn [andb]. replace (len A <? 0 + 0) with false by lia.
  reflexivity.
Qed.

Theorem nul_in_name s fl pre name post ty toks k :
  s = pre ++ name ++ post ->
  h5_tokens s fl = Ok toks -> In (ty, len pre, len name) toks ->
  ty = c_html5_type_tag_name_open \/ ty = c_html5_type_attr_name ->
  0 < k < len name ->
  xss_ctx (pre ++ firstn (Z.to_nat k) name ++ [x00] ++ skipn (Z.to_nat k) name ++ post) fl = xss_ctx s fl.
Proof.
  intros Es Ht Hin Hty Hk.
  pose (A := pre ++ firstn (Z.to_nat k) name). pose (B := skipn (Z.to_nat k) name ++ post).
  assert (ES : s = sS A B).
  { unfold sS, A, B. rewrite Es. rewrite <- app_assoc. f_equal. rewrite app_assoc, firstn_skipn. reflexivity. }
  assert (ET : pre ++ firstn (Z.to_nat k) name ++ [x00] ++ skipn (Z.to_nat k) name ++ post = sT A B).
  { unfold sT, A, B. rewrite <- app_assoc. reflexivity. }
  assert (LA : ii A = len pre + k).
  { unfold ii, A. rewrite len_app, len_firstn. lia. }
  assert (HB : 0 < len B).
  { unfold B. rewrite len_app, len_skipn. pose proof (len_nonneg post). lia. }
  assert (HA : 0 < len A).
  { fold (ii A). pose proof (len_nonneg pre). lia. }
  assert (Hn : isname ty = true) by (destruct Hty as [-> | ->]; reflexivity).
  rewrite ET, ES. rewrite ES in Ht.
  (* contexts other than 0..4 start in the stopped state and emit nothing *)
  destruct (Z_le_gt_dec 0 fl) as [F0|F0]; [destruct (Z_le_gt_dec fl 4) as [F4|F4]|].
  2,3: exfalso; unfold h5_tokens, h5_fuel in Ht;
    replace (2 * List.length (sS A B) + 4)%nat with (S (2 * List.length (sS A B) + 3)) in Ht by lia;
    cbn [h5_tokens_loop] in Ht;
    rewrite (eof_next (h5_init (sS A B) fl)) in Ht
      by (unfold h5_init; cbn [hstate]; unfold c_html5_flags_data_state, c_html5_flags_value_no_quote,
          c_html5_flags_value_single_quote, c_html5_flags_value_double_quote, c_html5_flags_value_back_quote;
          repeat match goal with |- context [if ?c then _ else _] => destruct c eqn:? end; try reflexivity; lia);
    cbn [bind] in Ht; inversion Ht; subst toks; destruct Hin.
  destruct (h5_init_ok (sS A B) fl ltac:(lia)) as [K _].
  destruct (tokens_emits ty (len pre) (len name) _ _ _ _ Ht Hin) as [[]|Em].
  destruct (xss_ctx_total (sS A B) fl ltac:(lia)) as [b Eb].
  destruct (xss_ctx_total (sT A B) fl ltac:(lia)) as [b' Eb'].
  rewrite Eb, Eb'. f_equal.
  unfold xss_ctx in Eb, Eb'. rewrite (init_shift A B fl HA) in Eb'.
  eapply (run_A A B HB HA ty (len pre) (len name) Hn ltac:(lia)); [exact Em|reflexivity|exact K|exact Eb|exact Eb'].
Qed.

Print Assumptions nul_in_name.
