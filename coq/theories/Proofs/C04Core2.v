(* C04Core2: every vector of break-out context 2 of the XSS vector grammar is
   reported by the model (decided by vm_compute, one lemma per group of productions).
   No production is excluded. *)
From Coq Require Import List ZArith String Bool.
From Coq.Strings Require Import Byte.
From LI Require Import Prelude Base Html5 Xss GrammarXss.
Import ListNotations.

(* P1, P2: blacklisted elements x terminators, SVT / XSL *)
Lemma ctx2_tags_ok : forallb detected_xss (ctx_tags 2) = true.
Proof. vm_compute; reflexivity. Qed.

(* P3: listed on* event handlers of type 1 x value quotings *)
Lemma ctx2_events_ok : forallb detected_xss (ctx_events 2) = true.
Proof. vm_compute; reflexivity. Qed.

(* P4-P9: attribute separators, URL / black / style / indirect attributes, XMLNS / XLINK, markup *)
Lemma ctx2_rest_ok : forallb detected_xss (ctx_rest 2) = true.
Proof. vm_compute; reflexivity. Qed.

Lemma ctx2_ok : forallb detected_xss (xss_core_ctx 2) = true.
Proof.
  unfold xss_core_ctx. rewrite !forallb_app.
  rewrite ctx2_tags_ok, ctx2_events_ok, ctx2_rest_ok. reflexivity.
Qed.
