(* XLiftRef: symbolic evaluation of Ref (Spec/RefHtml.v) on structured inputs.

   `fires n m l cl attr` says: a run of Ref that stands in mode m in front of
   the remaining bytes l (whatever has been consumed before), with the
   "end tag pending" flag cl and the remembered attribute type attr, reports
   XSS within its next n steps.  The lemmas below compute single steps of Ref
   on inputs that consist of a name / value with stated properties followed by
   an arbitrary rest, and chain them. *)
From Coq Require Import List ZArith String Bool Lia ZifyBool.
From Coq.Strings Require Import Byte.
From LI Require Import Prelude Base Html5 Xss Proofs.BaseFacts Proofs.Wp
  Spec.StringSpec Spec.H5TermSpec Spec.DecodeSpec Spec.RefHtml Proofs.RefHtmlProofs.
From LIGen Require Import Consts.
Import ListNotations.
Local Open Scope Z_scope.

(* ---------- what a token does, as a function of its kind and text ---------- *)

Definition fires_text (kd : kind) (attr : Z) (v : bytes) : bool :=
  match kd with
  | KDoctype => true
  | KTagOpen => ref_is_black_tag v
  | KAttrValue => value_fires attr v
  | KComment => ref_comment_fires v
  | _ => false
  end.

Definition attr_text (kd : kind) (v : bytes) : Z :=
  match kd with KAttrName => ref_attr_type v | _ => c_attribute_type_none end.

Lemma token_fires_kind s attr kd off ln :
  token_fires s attr (kind_code kd, off, ln) = fires_text kd attr (token_text s (kind_code kd, off, ln)).
Proof. destruct kd; reflexivity. Qed.

Lemma attr_after_kind s kd off ln :
  attr_after s (kind_code kd, off, ln) = attr_text kd (token_text s (kind_code kd, off, ln)).
Proof. destruct kd; reflexivity. Qed.

Lemma token_text_shift pre l k off ln : 0 <= off ->
  token_text (pre ++ l) (k, len pre + off, ln) = firstn (Z.to_nat ln) (skipn (Z.to_nat off) l).
Proof.
  intros H. unfold token_text. f_equal. unfold len.
  rewrite Z2Nat.inj_add by lia. rewrite Nat2Z.id.
  rewrite skipn_app. rewrite skipn_all2 by lia. cbn [app]. f_equal. lia.
Qed.

(* ---------- fires ---------- *)

Definition fires (n : nat) (m : mode) (l : bytes) (cl : bool) (attr : Z) : Prop :=
  forall pre f, (n <= f)%nat -> scan (pre ++ l) attr (ref_run f m (len pre) l cl) = true.

Lemma fires_weaken n n' m l cl attr : (n <= n')%nat -> fires n m l cl attr -> fires n' m l cl attr.
Proof. intros H F pre f Hf. apply F. lia. Qed.

(* the next token fires *)
Lemma fires_now m l cl attr kd off ln adv next cl' :
  ref_step m l cl = Some (kd, off, ln, adv, next, cl') -> 0 <= off ->
  fires_text kd attr (firstn (Z.to_nat ln) (skipn (Z.to_nat off) l)) = true ->
  fires 1 m l cl attr.
Proof.
  intros St Ho Hf pre f F. destruct f as [|f]; [lia|]. cbn [ref_run]. rewrite St. cbn [scan].
  rewrite token_fires_kind, token_text_shift by exact Ho. rewrite Hf. reflexivity.
Qed.

(* a value token behind a black attribute name fires whatever its text is *)
Lemma fires_now_black m l cl off ln adv next cl' :
  ref_step m l cl = Some (KAttrValue, off, ln, adv, next, cl') ->
  fires 1 m l cl c_attribute_type_black.
Proof.
  intros St pre f F. destruct f as [|f]; [lia|]. cbn [ref_run]. rewrite St. cbn [scan].
  rewrite token_fires_kind. reflexivity.
Qed.

(* one step, then go on *)
Lemma fires_next n m l cl attr kd off ln adv next cl' :
  ref_step m l cl = Some (kd, off, ln, adv, next, cl') -> 0 <= off -> 0 <= adv <= len l ->
  fires n next (skipn (Z.to_nat adv) l) cl' (attr_text kd (firstn (Z.to_nat ln) (skipn (Z.to_nat off) l))) ->
  fires (S n) m l cl attr.
Proof.
  intros St Ho Ha H pre f F. destruct f as [|f]; [lia|]. cbn [ref_run]. rewrite St. cbn [scan].
  apply orb_true_iff. right. rewrite attr_after_kind, token_text_shift by exact Ho.
  specialize (H (pre ++ firstn (Z.to_nat adv) l) f ltac:(lia)).
  rewrite <- app_assoc, firstn_skipn in H.
  replace (len (pre ++ firstn (Z.to_nat adv) l)) with (len pre + adv) in H; [exact H|].
  rewrite len_app, len_firstn. lia.
Qed.

Lemma fires_verdict n fl s : (n <= S (S (List.length s)))%nat ->
  fires n (start_mode fl) s false c_attribute_type_none -> ref_verdict fl s = true.
Proof.
  intros Hn F. unfold ref_verdict, ref_tokens. rewrite scan_fold.
  exact (F [] _ Hn).
Qed.

Lemma is_xss_of_verdict fl s : In fl [0; 1; 2; 3; 4] -> ref_verdict fl s = true -> is_xss s = Ok true.
Proof.
  intros Hin Hv. rewrite is_xss_ref. f_equal. apply existsb_exists. exists fl. split; assumption.
Qed.

(* ---------- break, first_byte ---------- *)

Definition stops_at (stop : byte -> bool) (t : bytes) : Prop :=
  match t with [] => True | b :: _ => stop b = true end.

Lemma break_app stop a t : forallb (fun b => negb (stop b)) a = true -> stops_at stop t ->
  break stop (a ++ t) = (a, t).
Proof.
  induction a as [|b a IH]; cbn [app forallb]; intros Ha Ht.
  - destruct t as [|c t]; [reflexivity|]. cbn [break]. cbn in Ht. rewrite Ht. reflexivity.
  - apply andb_true_iff in Ha. destruct Ha as [Hb Ha]. cbn [break].
    apply negb_true_iff in Hb. rewrite Hb. rewrite (IH Ha Ht). reflexivity.
Qed.

Lemma has_prefix_nil s : has_prefix s [] = true.
Proof. destruct s; reflexivity. Qed.

Lemma first_byte_app q V rest : forallb (fun b => negb (beq q b)) V = true ->
  first_byte q (V ++ q :: rest) = Some (len V).
Proof.
  unfold first_byte. induction V as [|b V IH]; cbn [app forallb]; intros H.
  - cbn [first_match has_prefix]. rewrite beq_refl, has_prefix_nil. reflexivity.
  - apply andb_true_iff in H. destruct H as [Hb H]. apply negb_true_iff in Hb.
    cbn [first_match has_prefix]. rewrite Hb. cbn [andb]. rewrite (IH H). cbn [option_map].
    rewrite len_cons. reflexivity.
Qed.

Lemma first_byte_none q V : forallb (fun b => negb (beq q b)) V = true -> first_byte q V = None.
Proof.
  unfold first_byte. induction V as [|b V IH]; cbn [forallb]; intros H.
  - reflexivity.
  - apply andb_true_iff in H. destruct H as [Hb H]. apply negb_true_iff in Hb.
    cbn [first_match has_prefix]. rewrite Hb. cbn [andb]. rewrite (IH H). reflexivity.
Qed.

Lemma firstn_len_app (a b : bytes) : firstn (Z.to_nat (len a)) (a ++ b) = a.
Proof.
  unfold len. rewrite Nat2Z.id. rewrite firstn_app, Nat.sub_diag, firstn_all. cbn. apply app_nil_r.
Qed.

Lemma skipn_len_app (a b : bytes) : skipn (Z.to_nat (len a)) (a ++ b) = b.
Proof.
  unfold len. rewrite Nat2Z.id. rewrite skipn_app, Nat.sub_diag, skipn_all. reflexivity.
Qed.

(* ---------- attribute names ---------- *)

(* a name that the tokenizer reads as one attribute name when it looks for an
   attribute: not empty, no white space, '/', '=' or '>' in it, and its first
   byte is not NUL (a leading NUL would be skipped as a blank) *)
Definition name_ok (N : bytes) : bool :=
  match N with [] => false | b :: _ => negb (beq b x00) end
  && forallb (fun b => negb (ends_attr_name b)) N.

Lemma ends_not_blank b : ends_attr_name b = false -> beq b x00 = false -> is_blank b = false.
Proof.
  unfold ends_attr_name, is_blank. intros H1 H2. rewrite H2.
  destruct (is_space b); [discriminate H1|reflexivity].
Qed.

Lemma name_ok_inv N : name_ok N = true ->
  exists b N', N = b :: N' /\ is_blank b = false /\ beq b x2f = false /\ beq b x3d = false /\ beq b x3e = false /\
               forallb (fun b => negb (ends_attr_name b)) N' = true.
Proof.
  unfold name_ok. destruct N as [|b N']; [discriminate|]. intros H.
  apply andb_true_iff in H. destruct H as [H0 H]. cbn [forallb] in H.
  apply andb_true_iff in H. destruct H as [Hb H].
  apply negb_true_iff in H0, Hb. exists b, N'. split; [reflexivity|].
  pose proof (ends_not_blank b Hb H0) as Bl.
  unfold ends_attr_name in Hb.
  destruct (is_space b), (beq b x2f), (beq b x3d), (beq b x3e); try discriminate Hb.
  repeat split; try reflexivity; assumption.
Qed.

(* looking for an attribute, k bytes into rest, in front of NAME= *)
Lemma attrs_name_eq k N post cl : name_ok N = true ->
  attrs k (N ++ x3d :: post) cl = Emit KAttrName k (len N) (k + len N + 1) MBeforeValue cl.
Proof.
  intros H. destruct (name_ok_inv N H) as (b & N' & -> & Bl & B1 & B2 & B3 & Hn).
  cbn [app attrs]. rewrite Bl, B1, B3. cbn [attr_name].
  rewrite (break_app ends_attr_name N' (x3d :: post) Hn) by reflexivity.
  change (is_space x3d) with false. change (beq x3d x2f) with false. change (beq x3d x3d) with true.
  cbv iota. rewrite len_cons. reflexivity.
Qed.

(* the same in front of NAME, one white-space byte, ... *)
Lemma attrs_name_sp k N w post cl : name_ok N = true -> is_space w = true ->
  attrs k (N ++ w :: post) cl = Emit KAttrName k (len N) (k + len N + 1) MAfterName cl.
Proof.
  intros H Hw. destruct (name_ok_inv N H) as (b & N' & -> & Bl & B1 & B2 & B3 & Hn).
  cbn [app attrs]. rewrite Bl, B1, B3. cbn [attr_name].
  rewrite (break_app ends_attr_name N' (w :: post) Hn)
    by (cbn; unfold ends_attr_name; rewrite Hw; reflexivity).
  rewrite Hw. rewrite len_cons. reflexivity.
Qed.

Lemma len_app3 (N : bytes) c post : len (N ++ c :: post) = len N + 1 + len post.
Proof. rewrite len_app, len_cons. lia. Qed.

Lemma skipn_name (N : bytes) c post k : k = len N + 1 -> skipn (Z.to_nat k) (N ++ c :: post) = post.
Proof.
  intros ->. replace (len N + 1) with (len (N ++ [c])) by (rewrite len_app, len_cons, len_nil; lia).
  replace (N ++ c :: post) with ((N ++ [c]) ++ post) by (rewrite <- app_assoc; reflexivity).
  apply skipn_len_app.
Qed.

(* an attribute name in front of '=' / of a white-space byte *)
Lemma attr_name_eq k N post cl : name_ok N = true ->
  attr_name k (N ++ x3d :: post) cl = Emit KAttrName k (len N) (k + len N + 1) MBeforeValue cl.
Proof.
  intros H. destruct (name_ok_inv N H) as (b & N' & -> & Bl & B1 & B2 & B3 & Hn).
  cbn [app attr_name].
  rewrite (break_app ends_attr_name N' (x3d :: post) Hn) by reflexivity.
  change (is_space x3d) with false. change (beq x3d x2f) with false. change (beq x3d x3d) with true.
  cbv iota. rewrite len_cons. reflexivity.
Qed.

Lemma attr_name_sp k N w post cl : name_ok N = true -> is_space w = true ->
  attr_name k (N ++ w :: post) cl = Emit KAttrName k (len N) (k + len N + 1) MAfterName cl.
Proof.
  intros H Hw. destruct (name_ok_inv N H) as (b & N' & -> & Bl & B1 & B2 & B3 & Hn).
  cbn [app attr_name].
  rewrite (break_app ends_attr_name N' (w :: post) Hn)
    by (cbn; unfold ends_attr_name; rewrite Hw; reflexivity).
  rewrite Hw. rewrite len_cons. reflexivity.
Qed.

(* the modes in which a name is read next: m, in front of w ++ NAME ... *)
Inductive name_mode : mode -> bytes -> Prop :=
| NM_attrs : name_mode MAttrs []
| NM_after_name : name_mode MAfterName []
| NM_after_quoted w : is_space w = true -> name_mode MAfterQuoted [w]
| NM_slash : name_mode MSlash [x2f].

Lemma name_mode_step m w N t cl : name_mode m w -> name_ok N = true ->
  ref_step m (w ++ N ++ t) cl = attr_name (len w) (N ++ t) cl.
Proof.
  intros M H. destruct (name_ok_inv N H) as (b & N' & -> & Bl & B1 & B2 & B3 & Hn).
  destruct M as [| |w Hw|]; cbn [ref_step app].
  - cbn [attrs]. rewrite Bl, B1, B3. reflexivity.
  - unfold after_name. cbn [break]. rewrite Bl. cbn [negb]. rewrite B1, B2, B3. reflexivity.
  - cbn [after_quoted]. rewrite Hw. cbn [attrs]. rewrite Bl, B1, B3. reflexivity.
  - cbn [after_slash]. rewrite B3. cbn [attrs]. rewrite Bl, B1, B3. reflexivity.
Qed.

Lemma fires_name n m w N e post cl attr next : name_mode m w -> name_ok N = true ->
  attr_name (len w) (N ++ e :: post) cl = Emit KAttrName (len w) (len N) (len w + len N + 1) next cl ->
  fires n next post cl (ref_attr_type N) ->
  fires (S n) m (w ++ N ++ e :: post) cl attr.
Proof.
  intros M H E F. pose proof (len_nonneg N). pose proof (len_nonneg post). pose proof (len_nonneg w).
  eapply fires_next with (off := len w) (ln := len N) (adv := len w + len N + 1).
  - rewrite (name_mode_step m w N _ cl M H). exact E.
  - lia.
  - rewrite len_app, len_app3. lia.
  - rewrite skipn_len_app, firstn_len_app. cbn [attr_text].
    replace (len w + len N + 1) with (len (w ++ N) + 1) by (rewrite len_app; lia).
    rewrite app_assoc. rewrite skipn_name by reflexivity. exact F.
Qed.

Lemma fires_name_eq n m w N post cl attr : name_mode m w -> name_ok N = true ->
  fires n MBeforeValue post cl (ref_attr_type N) ->
  fires (S n) m (w ++ N ++ x3d :: post) cl attr.
Proof. intros M H F. apply (fires_name n m w N x3d post cl attr MBeforeValue M H); [apply attr_name_eq; exact H|exact F]. Qed.

Lemma fires_name_sp n m w N sp post cl attr : name_mode m w -> name_ok N = true -> is_space sp = true ->
  fires n MAfterName post cl (ref_attr_type N) ->
  fires (S n) m (w ++ N ++ sp :: post) cl attr.
Proof. intros M H S F. apply (fires_name n m w N sp post cl attr MAfterName M H); [apply attr_name_sp; assumption|exact F]. Qed.

(* ---------- attribute values ---------- *)

Lemma break_blanks bl c r : forallb is_blank bl = true -> is_blank c = false ->
  break (fun b => negb (is_blank b)) (bl ++ c :: r) = (bl, c :: r).
Proof.
  intros Hb Hc. induction bl as [|b bl IH]; cbn [app break forallb] in *.
  - rewrite Hc. reflexivity.
  - apply andb_true_iff in Hb. destruct Hb as [H1 H2]. rewrite H1. cbn [negb]. rewrite (IH H2). reflexivity.
Qed.

Lemma quote_cases q : is_quote_byte q = true -> q = x22 \/ q = x27 \/ q = x60.
Proof.
  unfold is_quote_byte. intros H. apply orb_true_iff in H. destruct H as [H|H].
  - apply orb_true_iff in H. destruct H as [H|H]; apply beq_eq in H; auto.
  - apply beq_eq in H; auto.
Qed.

Lemma quote_not_blank q : is_quote_byte q = true -> is_blank q = false.
Proof. intros H. destruct (quote_cases q H) as [->|[->| ->]]; reflexivity. Qed.

(* a quoted value that is closed *)
Lemma before_value_quoted k bl q V rest cl :
  forallb is_blank bl = true -> is_quote_byte q = true -> forallb (fun b => negb (beq q b)) V = true ->
  before_value k (bl ++ q :: V ++ q :: rest) cl =
  Emit KAttrValue (k + len bl + 1) (len V) (k + len bl + 1 + len V + 1) MAfterQuoted cl.
Proof.
  intros Hb Hq Hv. unfold before_value. rewrite (break_blanks bl q _ Hb (quote_not_blank q Hq)).
  rewrite Hq. unfold quoted_value. rewrite (first_byte_app q V rest Hv). reflexivity.
Qed.

(* a quoted value that runs to the end of the input *)
Lemma before_value_open k bl q V cl :
  forallb is_blank bl = true -> is_quote_byte q = true -> forallb (fun b => negb (beq q b)) V = true ->
  before_value k (bl ++ q :: V) cl =
  Emit KAttrValue (k + len bl + 1) (len V) (k + len bl + 1 + len V) MDone cl.
Proof.
  intros Hb Hq Hv. unfold before_value. rewrite (break_blanks bl q _ Hb (quote_not_blank q Hq)).
  rewrite Hq. unfold quoted_value. rewrite (first_byte_none q V Hv). reflexivity.
Qed.

(* an unquoted value *)
Lemma before_value_unquoted k bl c V rest cl :
  forallb is_blank bl = true -> is_blank c = false -> is_quote_byte c = false ->
  forallb (fun b => negb (ends_unquoted b)) (c :: V) = true -> stops_at ends_unquoted rest ->
  exists adv next,
    before_value k (bl ++ (c :: V) ++ rest) cl = Some (KAttrValue, k + len bl, len (c :: V), adv, next, cl).
Proof.
  intros Hb Hc Hq Hv Hr. unfold before_value. cbn [app]. rewrite (break_blanks bl c _ Hb Hc).
  rewrite Hq. unfold unquoted_value. change (c :: V ++ rest) with ((c :: V) ++ rest).
  rewrite (break_app ends_unquoted (c :: V) rest Hv Hr).
  destruct rest as [|b rest]; [eexists; eexists; reflexivity|].
  destruct (is_space b); eexists; eexists; reflexivity.
Qed.

Lemma value_fires_url v : value_fires c_attribute_type_attr_url v = ref_black_url v.
Proof. reflexivity. Qed.

Lemma fires_quoted_url bl q V rest cl :
  forallb is_blank bl = true -> is_quote_byte q = true -> forallb (fun b => negb (beq q b)) V = true ->
  ref_black_url V = true ->
  fires 1 MBeforeValue (bl ++ q :: V ++ q :: rest) cl c_attribute_type_attr_url.
Proof.
  intros Hb Hq Hv Hu. pose proof (len_nonneg bl).
  eapply fires_now with (off := 0 + len bl + 1) (ln := len V).
  - cbn [ref_step]. apply before_value_quoted; assumption.
  - lia.
  - rewrite skipn_name by lia. rewrite firstn_len_app. exact Hu.
Qed.

Lemma fires_open_url bl q V cl :
  forallb is_blank bl = true -> is_quote_byte q = true -> forallb (fun b => negb (beq q b)) V = true ->
  ref_black_url V = true ->
  fires 1 MBeforeValue (bl ++ q :: V) cl c_attribute_type_attr_url.
Proof.
  intros Hb Hq Hv Hu. pose proof (len_nonneg bl).
  eapply fires_now with (off := 0 + len bl + 1) (ln := len V).
  - cbn [ref_step]. apply before_value_open; assumption.
  - lia.
  - rewrite skipn_name by lia. rewrite <- (app_nil_r V) at 2. rewrite firstn_len_app. exact Hu.
Qed.

Lemma fires_unquoted_url bl c V rest cl :
  forallb is_blank bl = true -> is_blank c = false -> is_quote_byte c = false ->
  forallb (fun b => negb (ends_unquoted b)) (c :: V) = true -> stops_at ends_unquoted rest ->
  ref_black_url (c :: V) = true ->
  fires 1 MBeforeValue (bl ++ (c :: V) ++ rest) cl c_attribute_type_attr_url.
Proof.
  intros Hb Hc Hq Hv Hr Hu. pose proof (len_nonneg bl).
  destruct (before_value_unquoted 0 bl c V rest cl Hb Hc Hq Hv Hr) as (adv & next & E).
  eapply fires_now with (off := 0 + len bl) (ln := len (c :: V)).
  - cbn [ref_step]. exact E.
  - lia.
  - cbn [Z.add]. rewrite skipn_len_app, firstn_len_app. exact Hu.
Qed.

(* ---------- tag names ---------- *)

(* a name that the tokenizer reads as one tag name behind '<': it begins with
   an ASCII letter and has no white space, '/' or '>' in it *)
Definition tag_ok (T : bytes) : bool :=
  match T with [] => false | b :: _ => is_ascii_letter b end
  && forallb (fun b => negb (ends_tag_name b)) T.

Lemma letter_not_markup b : is_ascii_letter b = true ->
  beq b x21 = false /\ beq b x2f = false /\ beq b x3f = false /\ beq b x25 = false.
Proof.
  unfold is_ascii_letter, beq. change (code x21) with 33. change (code x2f) with 47.
  change (code x3f) with 63. change (code x25) with 37. intros H. repeat split; lia.
Qed.

Lemma text_tag_step T rest : tag_ok T = true -> stops_at ends_tag_name rest ->
  exists adv next cl',
    ref_step MText (x3c :: T ++ rest) false = Some (KTagOpen, 1, len T, adv, next, cl').
Proof.
  unfold tag_ok. destruct T as [|t0 T']; [discriminate|]. intros H Hr.
  apply andb_true_iff in H. destruct H as [Hl Hf].
  destruct (letter_not_markup t0 Hl) as (B1 & B2 & B3 & B4).
  cbn [ref_step]. change (beq x3c x3c) with true. cbv iota. cbn [tag_open app].
  rewrite B1, B2, B3, B4, Hl. cbn [orb]. unfold tag_name.
  change (t0 :: T' ++ rest) with ((t0 :: T') ++ rest).
  rewrite (break_app ends_tag_name (t0 :: T') rest Hf Hr).
  destruct rest as [|b rest]; [eexists; eexists; eexists; reflexivity|].
  destruct (is_space b); [eexists; eexists; eexists; reflexivity|].
  destruct (beq b x2f); eexists; eexists; eexists; reflexivity.
Qed.

Lemma fires_tag T rest attr : tag_ok T = true -> stops_at ends_tag_name rest ->
  ref_is_black_tag T = true ->
  fires 1 MText (x3c :: T ++ rest) false attr.
Proof.
  intros H Hr Hb. destruct (text_tag_step T rest H Hr) as (adv & next & cl' & E).
  eapply fires_now with (off := 1) (ln := len T).
  - exact E.
  - lia.
  - change (Z.to_nat 1) with 1%nat. cbn [skipn]. rewrite firstn_len_app. exact Hb.
Qed.

(* ---------- the break-out prefixes ---------- *)

(* attribute prefixes: after the prefix, Ref stands in a mode m in front of
   w ++ l in which it reads an attribute name next *)
Lemma apre0 n l : (forall a, fires n MAttrs l false a) ->
  fires (S n) MText (x3c :: x61 :: x20 :: l) false c_attribute_type_none.
Proof.
  intros F. pose proof (len_nonneg l).
  eapply (fires_next _ _ _ _ _ KTagOpen 1 1 3 MAttrs false);
    [reflexivity|lia|rewrite !len_cons; lia|apply F].
Qed.

Lemma apre1 n l : (forall a, fires n MAfterName l false a) ->
  fires (S n) MAttrs (x78 :: x20 :: l) false c_attribute_type_none.
Proof.
  intros F. pose proof (len_nonneg l).
  eapply (fires_next _ _ _ _ _ KAttrName 0 1 2 MAfterName false);
    [reflexivity|lia|rewrite !len_cons; lia|apply F].
Qed.

Lemma apreq n q l : is_quote_byte q = true -> (forall a, fires n MAfterQuoted (x20 :: l) false a) ->
  fires (S n) (MQuoted q) (x78 :: q :: x20 :: l) false c_attribute_type_none.
Proof.
  intros Hq F. pose proof (len_nonneg l).
  eapply (fires_next _ _ _ _ _ KAttrValue 0 1 2 MAfterQuoted false);
    [|lia|rewrite !len_cons; lia|apply F].
  destruct (quote_cases q Hq) as [->|[->| ->]]; reflexivity.
Qed.

(* element-content prefixes: after the prefix, Ref stands in text mode *)
Lemma pre1 n c l : (forall a, fires n MText (c :: l) false a) ->
  fires (S (S n)) MAttrs (x78 :: x3e :: c :: l) false c_attribute_type_none.
Proof.
  intros F. pose proof (len_nonneg l).
  eapply (fires_next _ _ _ _ _ KAttrName 0 1 1 MGt false);
    [reflexivity|lia|rewrite !len_cons; lia|].
  eapply (fires_next _ _ _ _ _ KTagEnd 0 1 1 MText false);
    [reflexivity|lia|change (Z.to_nat 1) with 1%nat; cbn [skipn]; rewrite !len_cons; lia|apply F].
Qed.

Lemma preq n q l : is_quote_byte q = true -> (forall a, fires n MText l false a) ->
  fires (S (S n)) (MQuoted q) (x78 :: q :: x3e :: l) false c_attribute_type_none.
Proof.
  intros Hq F. pose proof (len_nonneg l).
  eapply (fires_next _ _ _ _ _ KAttrValue 0 1 2 MAfterQuoted false);
    [|lia|rewrite !len_cons; lia|].
  { destruct (quote_cases q Hq) as [->|[->| ->]]; reflexivity. }
  eapply (fires_next _ _ _ _ _ KTagEnd 0 1 1 MText false);
    [reflexivity|lia|change (Z.to_nat 2) with 2%nat; cbn [skipn]; rewrite !len_cons; lia|apply F].
Qed.

