(* RefSqlFoldProofs: the model's folder, fingerprint, blacklist, whitelist and
   cascade (SqliFold.v) compute exactly the functions of the executable
   specification Ref (Spec/RefSqlFold.v), with Ref's token source instantiated
   by the model's tokenizer.

   Method.  `abs` reads a model state as a Ref state.  The value tests of the
   code (isUnaryOp, isArithmeticOp, merge, the IF test, IndexByte) are first
   shown to be Ref's patterns; this turns rules2 / rules3 into pure if-cascades,
   which are then walked ONCE against the tables, row by row: the guard of the
   code equals the row's pattern match (a boolean tautology over the class
   tests, by btauto) and the leaf equals the row's action.  Partial correctness
   ("if the model returns Ok x then Ref returns abs x") is carried through
   fetch, the iteration, the chunked loop, the skip loop and fold with the same
   fuel on both sides; totality comes from the safety specifications
   (FoldSpec / FoldLoop / CheckSpec), which also supply the window invariant
   `finv` the value tests need. *)
From Coq Require Import List ZArith String Bool Lia ZifyBool Btauto.
From Coq.Strings Require Import Byte.
From LI Require Import Prelude Base SqliLex SqliFold Proofs.BaseFacts Proofs.Wp Proofs.LexBase Proofs.LexSpec
  Proofs.FoldBase Proofs.FoldSpec Proofs.FoldLoop Proofs.CheckSpec Spec.CascadeSpec Proofs.CascadeProofs
  Spec.RefSqlFold.
From LIGen Require Import Tables Dispatch Consts.
Import ListNotations.
Local Open Scope Z_scope.

(* ---------- list helpers ---------- *)

Lemma put_replace {A} (l : list A) : forall i x, put i x l = replace_nth l i x.
Proof. induction l as [|y l IH]; intros [|i] x; cbn; try reflexivity. f_equal. apply IH. Qed.

Lemma wget_ok site w i t : 0 <= i -> nth_error w (Z.to_nat i) = Some t -> wget site w i = Ok t.
Proof. intros Hi N. unfold wget. destruct (0 <=? i) eqn:E; [|lia]. rewrite N. reflexivity. Qed.

Lemma wget_Ok_inv site w i t : wget site w i = Ok t -> 0 <= i /\ nth_error w (Z.to_nat i) = Some t.
Proof.
  unfold wget. destruct (0 <=? i) eqn:E; [|discriminate]. destruct (nth_error w (Z.to_nat i)); [|discriminate].
  intros H. inversion H. split; [lia|reflexivity].
Qed.

Lemma wset_ok site w i t : 0 <= i < wlen w -> wset site w i t = Ok (replace_nth w (Z.to_nat i) t).
Proof. intros H. unfold wset, wlen in *. destruct (_ && _) eqn:E; [reflexivity|lia]. Qed.

Lemma wtrunc_ok site w n : 0 <= n <= wlen w -> wtrunc site w n = Ok (firstn (Z.to_nat n) w).
Proof. intros H. unfold wtrunc, wlen in *. destruct (_ && _) eqn:E; [reflexivity|lia]. Qed.

Lemma wset_Ok_inv site w i t w' : wset site w i t = Ok w' -> 0 <= i < wlen w /\ w' = replace_nth w (Z.to_nat i) t.
Proof. unfold wset, wlen. destruct (_ && _) eqn:E; [|discriminate]. intros H. inversion H. split; [lia|reflexivity]. Qed.

Lemma wtrunc_Ok_inv site w n w' : wtrunc site w n = Ok w' -> 0 <= n <= wlen w /\ w' = firstn (Z.to_nat n) w.
Proof. unfold wtrunc, wlen. destruct (_ && _) eqn:E; [|discriminate]. intros H. inversion H. split; [lia|reflexivity]. Qed.

Lemma skipn_nth3 {A} (w : list A) n a b c :
  nth_error w n = Some a -> nth_error w (n + 1) = Some b -> nth_error w (n + 2) = Some c ->
  skipn n w = a :: b :: c :: skipn (n + 3) w.
Proof.
  revert n. induction w as [|x w IH]; intros [|n] Na Nb Nc; try discriminate.
  - cbn in *. destruct w as [|y [|z w']]; try discriminate. inversion Na; inversion Nb; inversion Nc. reflexivity.
  - cbn [skipn Nat.add]. apply IH; assumption.
Qed.

Lemma skipn_nth2 {A} (w : list A) n a b :
  nth_error w n = Some a -> nth_error w (n + 1) = Some b -> skipn n w = a :: b :: skipn (n + 2) w.
Proof.
  revert n. induction w as [|x w IH]; intros [|n] Na Nb; try discriminate.
  - cbn in *. destruct w as [|y w']; try discriminate. inversion Na; inversion Nb. reflexivity.
  - cbn [skipn Nat.add]. apply IH; assumption.
Qed.

(* ---------- classes and value tests ---------- *)

Lemma in_class1 t c : in_class t [c] = cat_is t c.
Proof. unfold in_class, cat_is. cbn [existsb]. apply orb_false_r. Qed.

Lemma index_byte_mem v c : (index_byte v c =? -1) = negb (mem c v).
Proof.
  induction v as [|b v IH]; [reflexivity|]. cbn [index_byte]. unfold mem in *. cbn [existsb].
  rewrite (beq_sym c b). destruct (beq b c); [reflexivity|]. cbn [orb].
  destruct (index_byte_range v c) as [E|E].
  - rewrite E in *. cbn. cbn in IH. exact IH.
  - destruct (index_byte v c <? 0) eqn:L; [lia|].
    rewrite <- IH. lia.
Qed.

(* an upper-case view without S and I has the length of the original: the two
   special runes of Go's ToUpper map to S and I only *)
Lemma go_upper_view_len_exact s : forall u,
  go_upper_view s = Some u -> mem x53 u = false -> mem x49 u = false -> len s = len u.
Proof.
  assert (G : forall n s, (List.length s <= n)%nat -> forall u, go_upper_view s = Some u ->
                          mem x53 u = false -> mem x49 u = false -> len s = len u).
  { induction n as [|n IH]; intros s0 Hn u H M1 M2.
    - destruct s0; [cbn in H; inversion H; reflexivity|cbn in Hn; lia].
    - destruct s0 as [|b s']; [cbn in H; inversion H; reflexivity|].
      cbn [go_upper_view] in H. cbn [List.length] in Hn.
      destruct (is_ascii b).
      + destruct (go_upper_view s') as [u'|] eqn:E; [|discriminate]. cbn in H. inversion H; subst.
        rewrite mem_cons in M1, M2. apply orb_false_iff in M1, M2.
        rewrite !len_cons. rewrite (IH s' ltac:(lia) u' E (proj2 M1) (proj2 M2)). reflexivity.
      + destruct s' as [|b2 s'']; [discriminate|].
        destruct (beq b xc5 && beq b2 xbf).
        { destruct (go_upper_view s''); [|discriminate]. cbn in H. inversion H; subst. cbn in M1. discriminate. }
        destruct (beq b xc4 && beq b2 xb1); [|discriminate].
        destruct (go_upper_view s''); [|discriminate]. cbn in H. inversion H; subst. cbn in M2. discriminate. }
  intros u. apply (G (List.length s) s). lia.
Qed.

Lemma to_upper_cmp_len_exact lit v :
  mem x53 lit = false -> mem x49 lit = false -> to_upper_cmp lit v = true -> len v = len lit.
Proof.
  unfold to_upper_cmp. destruct (go_upper_view v) as [u|] eqn:E; [|discriminate].
  intros M1 M2 H. apply bytes_eqb_eq in H. subst u. eapply go_upper_view_len_exact; eassumption.
Qed.

(* isUnaryOp is the pattern p_unary *)
Lemma not_cmp_len v : to_upper_cmp [x4e; x4f; x54] v = true -> len v = 3.
Proof. intros E. apply to_upper_cmp_len_exact in E; [exact E|reflexivity|reflexivity]. Qed.

Lemma is_unary_op_ref t : len (t_val t) = t_len t -> is_unary_op t = Ok (tmatch p_unary t).
Proof.
  intros L. unfold is_unary_op, p_unary. cbn [tmatch]. rewrite in_class1. unfold cat_is.
  destruct (beq (t_cat t) cOp); cbn [negb andb orb]; [|reflexivity].
  unfold spelt, named. cbn [existsb]. rewrite !orb_false_r.
  change (bs "+") with [x2b]. change (bs "-") with [x2d]. change (bs "!") with [x21].
  change (bs "~") with [x7e]. change (bs "!!") with [x21; x21]. change (bs "NOT") with [x4e; x4f; x54].
  destruct (to_upper_cmp [x4e; x4f; x54] (t_val t)) eqn:EN.
  - (* the value reads NOT: three bytes *)
    pose proof (not_cmp_len _ EN) as L3. rewrite L3 in L. rewrite <- L.
    change (3 =? 1) with false. change (3 =? 2) with false. change (3 =? 3) with true. cbv iota.
    rewrite take_ok by lia. rewrite firstn_all_len by exact L3. cbn [bind]. rewrite EN, orb_true_r. reflexivity.
  - rewrite orb_false_r. rewrite <- L.
    destruct (t_val t) as [|c0 [|c1 [|c2 [|c3 r]]]] eqn:V.
    + reflexivity.
    + cbn [len List.length Z.of_nat Pos.of_succ_nat Z.eqb Pos.eqb get Z.ltb Z.compare Z.to_nat nth_error bind
           andb Z.leb bytes_eqb].
      rewrite !andb_true_r, !andb_false_r, orb_false_r, !orb_assoc. reflexivity.
    + cbn [len List.length Z.of_nat Pos.of_succ_nat Pos.succ Z.eqb Pos.eqb get Z.ltb Z.compare Z.to_nat nth_error bind
           andb Z.leb Pos.to_nat Pos.iter_op Nat.add bytes_eqb].
      rewrite !andb_false_r. cbn [orb]. rewrite andb_true_r.
      destruct (beq c0 x21); reflexivity.
    + cbn [len List.length Z.of_nat Pos.of_succ_nat Pos.succ Z.eqb Pos.eqb].
      rewrite take_ok by (cbn; lia). change (Z.to_nat 3) with 3%nat. cbn [firstn bind].
      rewrite EN. cbn [bytes_eqb]. rewrite !andb_false_r. reflexivity.
    + assert (N : 4 <= len (c0 :: c1 :: c2 :: c3 :: r)) by (rewrite !len_cons; pose proof (len_nonneg r); lia).
      destruct (len (c0 :: c1 :: c2 :: c3 :: r) =? 1) eqn:E1; [lia|].
      destruct (len (c0 :: c1 :: c2 :: c3 :: r) =? 2) eqn:E2; [lia|].
      destruct (len (c0 :: c1 :: c2 :: c3 :: r) =? 3) eqn:E3; [lia|].
      cbn [bytes_eqb]. rewrite ?andb_false_r. reflexivity.
Qed.

Lemma is_arithmetic_op_ref t : len (t_val t) = t_len t -> is_arithmetic_op t = Ok (tmatch p_arith t).
Proof.
  intros L. unfold is_arithmetic_op, p_arith. cbn [tmatch]. rewrite in_class1. unfold cat_is.
  destruct (beq (t_cat t) cOp); cbn [negb andb orb]; [|reflexivity].
  unfold spelt. cbn [existsb]. rewrite !orb_false_r.
  change (bs "+") with [x2b]. change (bs "-") with [x2d]. change (bs "*") with [x2a].
  change (bs "/") with [x2f]. change (bs "%") with [x25].
  rewrite <- L.
  destruct (t_val t) as [|c0 [|c1 r]] eqn:V.
  - reflexivity.
  - cbn [len List.length Z.of_nat Pos.of_succ_nat Z.eqb Pos.eqb get Z.ltb Z.compare Z.to_nat nth_error bind
         andb Z.leb bytes_eqb].
    rewrite !andb_true_r, !orb_assoc. reflexivity.
  - assert (N : 2 <= len (c0 :: c1 :: r)) by (rewrite !len_cons; pose proof (len_nonneg r); lia).
    destruct (len (c0 :: c1 :: r) =? 1) eqn:E1; [lia|].
    cbn [bytes_eqb]. rewrite ?andb_false_r. reflexivity.
Qed.


(* ---------- merge is `phrase` ---------- *)

Lemma in_class_left t : in_class t phrase_left = merge_left_ok t.
Proof.
  unfold in_class, phrase_left, merge_left_ok, cat_is. cbn [existsb]. rewrite orb_false_r, !orb_assoc. reflexivity.
Qed.

Lemma in_class_right t : in_class t phrase_right = merge_right_ok t.
Proof.
  unfold in_class, phrase_right, phrase_left, merge_right_ok, merge_left_ok, cat_is. cbn [existsb app].
  rewrite orb_false_r, !orb_assoc. reflexivity.
Qed.

Lemma merge_ref a b :
  len (t_val a) = t_len a -> len (t_val b) = t_len b -> 0 <= t_len a -> 0 <= t_len b ->
  merge a b = Ok (phrase a b).
Proof.
  intros La Lb Pa Pb. unfold merge, phrase. rewrite in_class_left, in_class_right.
  destruct (merge_left_ok a); cbn [negb andb]; [|reflexivity].
  destruct (merge_right_ok b); cbn [negb andb]; [|reflexivity].
  change c_token_size with 32. unfold token_size.
  destruct (32 <? t_len a + t_len b + 1) eqn:E.
  - destruct (t_len a + t_len b + 1 <=? 32) eqn:E'; [lia|reflexivity].
  - destruct (t_len a + t_len b + 1 <=? 32) eqn:E'; [|lia].
    rewrite !val_prefix_ok by assumption. cbn [bind].
    set (tmp := t_val a ++ [x20] ++ t_val b).
    assert (Ltmp : len tmp = t_len a + t_len b + 1).
    { unfold tmp. rewrite !len_app. change (len [x20]) with 1. lia. }
    destruct (beq (search_keyword tmp) x00); cbn [negb]; [reflexivity|].
    rewrite assign_ok by lia. cbn [bind].
    destruct (len tmp <? 32) eqn:E2.
    + replace (Z.min (len tmp) 31) with (len tmp) by lia. reflexivity.
    + replace (Z.min (len tmp) 31) with (32 - 1) by lia. reflexivity.
Qed.
(* ---------- the abstraction: model state -> Ref state ---------- *)

Notation rst := (@rstate sqlst).

Definition cmt_of (t : token) : option token := if cat_is t cC then Some t else None.

Definition abs (f : fstate) : rst :=
  mkR (f_s f) (f_win f) (Z.to_nat (f_left f)) (f_more f) (cmt_of (f_last f)).

Lemma bump_add s k : bump_folds s k = add_folds k s.
Proof. reflexivity. Qed.

(* ---------- one row of a table ---------- *)

Definition fire (ru : rule) (tbl : list rule) (r : rst) : option (rst * next_step) :=
  match apply_ops scanner (r_left r) (r_ops ru) (r_win r, r_src r) with
  | Some (w, s) => Some (mkR s w (move (r_goto ru) (r_left r)) (r_more r) (r_cmt r), r_next ru)
  | None => run_table scanner tbl r
  end.

Lemma run_table_row (g : bool) ru tbl (r : rst) :
  prefix_match (r_pats ru) (skipn (r_left r) (r_win r)) = g ->
  run_table scanner (ru :: tbl) r = if g then fire ru tbl r else run_table scanner tbl r.
Proof. intros <-. reflexivity. Qed.

(* the three-token rules agree with the table: relation between a model
   computation and the outcome of the table *)
Definition sim3 (m : res step_out) (x : option (rst * next_step)) : Prop :=
  forall out, m = Ok out -> exists f', out = Continue f' /\ x = Some (abs f', Loop).

Lemma sim3_row (g : bool) Lm Rm ru tbl (r : rst) :
  prefix_match (r_pats ru) (skipn (r_left r) (r_win r)) = g ->
  (g = true -> sim3 Lm (fire ru tbl r)) ->
  (g = false -> sim3 Rm (run_table scanner tbl r)) ->
  sim3 (if g then Lm else Rm) (run_table scanner (ru :: tbl) r).
Proof.
  intros E H1 H2. rewrite (run_table_row g) by exact E. destruct g; [apply H1|apply H2]; reflexivity.
Qed.

Lemma bind_guard {B} (c x : bool) (k : bool -> res B) :
  bind (if c then Ok x else Ok false) k = k (c && x).
Proof. destruct c; reflexivity. Qed.

Ltac pm_side Hskip :=
  cbn [r_pats]; rewrite Hskip; cbn [prefix_match tmatch]; rewrite ?in_class1;
  unfold in_class, spelt, named, cat_is, value_classes; cbn [existsb app]; btauto.

Ltac fire_simpl :=
  unfold fire;
  cbn [r_ops r_goto r_next apply_ops apply_op abs r_left r_win r_src r_more r_cmt move folded scanner].

Ltac model_leaf E :=
  repeat (first [ rewrite wset_ok in E by (rewrite ?wlen_replace_nth; lia)
                | rewrite wtrunc_ok in E by (rewrite ?wlen_replace_nth; lia) ];
          cbn [bind] in E).

Ltac win_eq :=
  unfold pop, wlen; rewrite ?put_replace, ?replace_nth_length;
  repeat first [ reflexivity | progress f_equal | lia ].

(* a rule whose action has an inner condition = two rows *)
Lemma if_inner {A B} (g u : bool) (X : res A) (w : A) (K : A -> res B) :
  (if g then bind (if u then X else Ok w) K else K w) = if g && u then bind X K else K w.
Proof. destruct g, u; reflexivity. Qed.

Lemma sim3_last Lm ru (r : rst) :
  prefix_match (r_pats ru) (skipn (r_left r) (r_win r)) = true ->
  (true = true -> sim3 Lm (fire ru [] r)) ->
  sim3 Lm (run_table scanner [ru] r).
Proof. intros E H. rewrite (run_table_row true) by exact E. apply H. reflexivity. Qed.

Ltac leaf3 Nc :=
  intros _; fire_simpl;
  repeat (progress (rewrite ?Nat.add_0_r, ?Nc; cbn [option_map apply_ops apply_op folded scanner]));
  let out := fresh "out" in let E := fresh "E" in
  intros out E; model_leaf E; inversion E; subst out;
  eexists; split; [reflexivity|]; unfold abs, upd; cbn [f_s f_win f_left f_more f_last];
  f_equal; f_equal; win_eq.

Lemma rules3_ref inp fl f :
  finv inp fl f -> 3 <= wlen (f_win f) - f_left f ->
  sim3 (rules3 f) (run_table scanner rules3_table (abs f)).
Proof.
  intros Hinv H3. pose proof Hinv as (I1 & I2 & I3 & I4 & I5 & I6 & I7 & I8).
  assert (Ex : exists a b c, nth_error (f_win f) (Z.to_nat (f_left f)) = Some a /\
                             nth_error (f_win f) (Z.to_nat (f_left f) + 1) = Some b /\
                             nth_error (f_win f) (Z.to_nat (f_left f) + 2) = Some c).
  { unfold wlen in *.
    destruct (nth_error (f_win f) (Z.to_nat (f_left f))) as [a|] eqn:Na; [|apply nth_error_None in Na; lia].
    destruct (nth_error (f_win f) (Z.to_nat (f_left f) + 1)) as [b|] eqn:Nb; [|apply nth_error_None in Nb; lia].
    destruct (nth_error (f_win f) (Z.to_nat (f_left f) + 2)) as [c|] eqn:Nc; [|apply nth_error_None in Nc; lia].
    exists a, b, c. auto. }
  destruct Ex as (a & b & c & Na & Nb & Nc).
  pose proof (Forall_nth _ _ _ _ I4 Na) as Ha. pose proof (Forall_nth _ _ _ _ I4 Nb) as Hb.
  pose proof (Forall_nth _ _ _ _ I4 Nc) as Hc.
  assert (Hskip : skipn (r_left (abs f)) (r_win (abs f)) = a :: b :: c :: skipn (Z.to_nat (f_left f) + 3) (f_win f)).
  { apply skipn_nth3; assumption. }
  unfold rules3.
  rewrite (wget_ok _ _ _ a) by (try lia; exact Na).
  rewrite (wget_ok _ _ _ b) by (try lia; replace (Z.to_nat (f_left f + 1)) with (Z.to_nat (f_left f) + 1)%nat by lia; exact Nb).
  rewrite (wget_ok _ _ _ c) by (try lia; replace (Z.to_nat (f_left f + 2)) with (Z.to_nat (f_left f) + 2)%nat by lia; exact Nc).
  cbn [bind]. cbv zeta.
  rewrite (val_prefix_ok _ a (proj1 Ha)), (val_prefix_ok _ b (proj1 Hb)).
  rewrite (is_unary_op_ref b (proj1 Hb)). cbn [bind]. rewrite bind_guard.
  unfold rules3_table.
  repeat (apply sim3_row; [pm_side Hskip | leaf3 Nc | intros _]).
  rewrite (if_inner _ _ _ _ (fun w' => Ok (Continue (upd f (f_s f) w' (f_left f + 1))))).
  apply sim3_row; [pm_side Hskip | leaf3 Na | intros _].
  apply sim3_last; [pm_side Hskip | leaf3 Na].
Qed.

(* ---------- fetching tokens ---------- *)

Lemma scan_eq s more t s1 :
  tokenize s tok0 = Ok (more, t, s1) -> scan s = ((if more then Some t else None), s1).
Proof. intros T. unfold scan. rewrite T. destruct more; reflexivity. Qed.

Lemma fetch_ref fuel want : forall f f',
  0 <= f_left f <= wlen (f_win f) -> 0 <= want ->
  fetch fuel want f = Ok f' -> refill scanner fuel (Z.to_nat want) (abs f) = abs f'.
Proof.
  induction fuel as [|fuel IH]; intros f f' Hl Hw E; cbn [fetch] in E; [discriminate|].
  cbn [refill]. cbn [abs r_more r_win r_left r_src r_cmt].
  change c_max_tokens with 5 in E. unfold max_tokens.
  assert (G : f_more f && (List.length (f_win f) <=? 5)%nat
              && (List.length (f_win f) - Z.to_nat (f_left f) <? Z.to_nat want)%nat
              = f_more f && (wlen (f_win f) <=? 5) && (wlen (f_win f) - f_left f <? want)).
  { unfold wlen in *. destruct (f_more f); cbn [andb]; [|reflexivity].
    destruct (Nat.leb_spec (List.length (f_win f)) 5), (Z.leb_spec (Z.of_nat (List.length (f_win f))) 5); try lia;
      cbn [andb]; try reflexivity. }
  rewrite G. destruct (f_more f && (wlen (f_win f) <=? 5) && (wlen (f_win f) - f_left f <? want)) eqn:Eg.
  2:{ inversion E. reflexivity. }
  destruct (tokenize (f_s f) tok0) as [[[more t] s1]| | |] eqn:T; try discriminate. cbn [bind] in E.
  cbn [next scanner]. rewrite (scan_eq _ _ _ _ T).
  destruct more.
  - rewrite in_class1. destruct (cat_is t cC) eqn:C.
    + apply IH in E; [|exact Hl|exact Hw]. rewrite <- E. unfold abs, cmt_of. cbn [f_s f_win f_left f_more f_last].
      rewrite C. reflexivity.
    + apply IH in E; [|cbn [f_left f_win]; rewrite wlen_app; lia|exact Hw]. rewrite <- E. reflexivity.
  - destruct fuel as [|fuel']; [discriminate|]. cbn [fetch f_more andb] in E. inversion E. reflexivity.
Qed.

(* ---------- the three-token phase ---------- *)

Notation outc := (@outcome sqlst).

Definition sim2 (m : res step_out) (o : outc) : Prop :=
  forall out, m = Ok out ->
    match out with
    | Continue f' => o = Go (abs f')
    | Return n f' => o = Done (firstn (Z.to_nat n) (f_win f')) (f_s f')
    end.

Definition fuel_of (inp : bytes) : nat := S (S (List.length inp)).

Lemma wp_Ok_inv {A} (m : res A) (Q : A -> Prop) a : wp m Q -> m = Ok a -> Q a.
Proof. intros H E. rewrite E in H. exact H. Qed.

Lemma three_ref inp fl f0 :
  finv inp fl f0 -> 2 <= wlen (f_win f0) - f_left f0 ->
  sim2 (f <- fetch_n 3 f0 ;;
        if wlen (f_win f) - f_left f <? 3
        then Ok (Continue (mkF (f_s f) (f_win f) (wlen (f_win f)) (f_more f) (f_last f)))
        else rules3 f)
       (three scanner (fuel_of inp) (abs f0)).
Proof.
  intros Hinv H2 out E. apply bind_Ok in E. destruct E as [f1 [E1 E]].
  pose proof Hinv as (I1 & I2 & I3 & I4 & I5 & I6 & I7 & I8).
  assert (P : fetch_post 3 inp fl f0 f1).
  { eapply wp_Ok_inv; [|exact E1]. unfold fetch_n. apply fetch_spec; [exact Hinv|].
    unfold st_wf, slen, len in *. lia. }
  destruct P as (P1 & P2 & _). pose proof P1 as (J1 & J2 & J3 & J4 & J5 & J6 & J7 & J8).
  unfold fetch_n in E1. rewrite I1 in E1. apply fetch_ref in E1; [|lia|lia].
  unfold three, fuel_of. change (Z.to_nat 3) with 3%nat in E1. rewrite E1.
  cbn [abs r_win r_left].
  assert (G : (List.length (f_win f1) - Z.to_nat (f_left f1) <? 3)%nat = (wlen (f_win f1) - f_left f1 <? 3)).
  { unfold wlen in *. lia. }
  rewrite G. destruct (wlen (f_win f1) - f_left f1 <? 3) eqn:E3.
  - inversion E; subst out. unfold settle, abs. cbn [r_src r_win r_more r_cmt f_s f_win f_left f_more f_last].
    unfold wlen. rewrite Nat2Z.id. reflexivity.
  - destruct (rules3_ref inp fl f1 P1 ltac:(lia) out E) as (f' & -> & R).
    fold (abs f1). rewrite R. reflexivity.
Qed.

(* ---------- the two-token rules ---------- *)

Notation post2 := (after_rules2 scanner).

Lemma sim2_row fuel (g : bool) Lm Rm ru tbl (r : rst) :
  prefix_match (r_pats ru) (skipn (r_left r) (r_win r)) = g ->
  (g = true -> sim2 Lm (post2 fuel r (fire ru tbl r))) ->
  (g = false -> sim2 Rm (post2 fuel r (run_table scanner tbl r))) ->
  sim2 (if g then Lm else Rm) (post2 fuel r (run_table scanner (ru :: tbl) r)).
Proof.
  intros E H1 H2. rewrite (run_table_row g) by exact E. destruct g; [apply H1|apply H2]; reflexivity.
Qed.

Lemma sim2_last fuel Lm ru (r : rst) :
  prefix_match (r_pats ru) (skipn (r_left r) (r_win r)) = true ->
  (true = true -> sim2 Lm (post2 fuel r (fire ru [] r))) ->
  sim2 Lm (post2 fuel r (run_table scanner [ru] r)).
Proof. intros E H. rewrite (run_table_row true) by exact E. apply H. reflexivity. Qed.

(* the T-SQL IF test *)
Lemma is_if_ref hi a b :
  wtok hi b ->
  (if cat_is a cSemi && cat_is b cFun then
     (c0 <- get "fold:val[0]" (t_val b) 0 ;;
      if beq c0 x49 || beq c0 x69 then
        (c1 <- get "fold:val[1]" (t_val b) 1 ;; Ok (beq c1 x46 || beq c1 x66))
      else Ok false)
   else Ok false)
  = Ok (cat_is a cSemi && cat_is b cFun && begins_if (t_val b)).
Proof.
  intros (L & R & _ & _ & F & _).
  destruct (cat_is a cSemi && cat_is b cFun) eqn:G; [|reflexivity].
  apply andb_true_iff in G. destruct G as [_ G]. apply cat_is_eq in G. specialize (F G).
  destruct (t_val b) as [|c0 [|c1 r]] eqn:V; try (cbn in L; lia).
  cbn [get Z.ltb Z.leb Z.compare len List.length Z.of_nat Pos.of_succ_nat Pos.succ andb Z.to_nat Pos.to_nat
       Pos.iter_op Nat.add nth_error bind].
  unfold begins_if, either_case. cbn [andb].
  destruct (beq c0 x49 || beq c0 x69); [|reflexivity].
  reflexivity.
Qed.

(* rules with an inner condition in the model = two rows of the table *)
Lemma if_nest {B} (g u : bool) (X Y R : B) :
  (if g then (if u then X else Y) else R) = if g && u then X else if g then Y else R.
Proof. destruct g, u; reflexivity. Qed.

Lemma if_arg {A B} (g u : bool) (F : A -> B) x y R :
  (if g then F (if u then x else y) else R) = if g && u then F x else if g then F y else R.
Proof. destruct g, u; reflexivity. Qed.

Lemma if_bind {A B} (g u : bool) (X : res A) (w : A) (K : A -> res B) R :
  (if g then bind (if u then X else Ok w) K else R) = if g && u then bind X K else if g then K w else R.
Proof. destruct g, u; reflexivity. Qed.

Ltac left_eq :=
  first [ reflexivity | lia
        | match goal with |- context [if ?c then _ else _] => destruct c eqn:?; lia end ].

Ltac leaf2x Na Nb P :=
  intros _; fire_simpl;
  repeat (progress (rewrite ?Nat.add_0_r, ?Na, ?Nb, ?P; cbn [option_map apply_ops apply_op folded scanner]));
  cbn [after_rules2];
  let out := fresh "out" in let E := fresh "E" in
  intros out E; model_leaf E; inversion E; subst out;
  unfold abs, upd; cbn [f_s f_win f_left f_more f_last r_left r_win r_src];
  f_equal; [f_equal|..]; win_eq; try left_eq.

Ltac leaf2 Na Nb := leaf2x Na Nb Na.

Ltac pm_side2 Hskip :=
  cbn [r_pats]; rewrite Hskip; cbn [prefix_match tmatch]; rewrite ?in_class1;
  unfold in_class, spelt, named, cat_is, name_is_function_like; cbn [existsb app]; btauto.

Lemma three_ref' inp fl f0 (r : rst) :
  finv inp fl f0 -> 2 <= wlen (f_win f0) - f_left f0 -> r = abs f0 ->
  sim2 (f <- fetch_n 3 f0 ;;
        if wlen (f_win f) - f_left f <? 3
        then Ok (Continue (mkF (f_s f) (f_win f) (wlen (f_win f)) (f_more f) (f_last f)))
        else rules3 f)
       (three scanner (fuel_of inp) r).
Proof. intros H1 H2 ->. apply (three_ref inp fl); assumption. Qed.

Ltac three_simpl Na Nb :=
  fire_simpl;
  repeat (progress (rewrite ?Nat.add_0_r, ?Na, ?Nb; cbn [option_map apply_ops apply_op folded scanner]));
  cbn [after_rules2];
  rewrite ?wset_ok by (rewrite ?wlen_replace_nth; lia); cbn [bind].

Ltac abs_eq := unfold abs, upd; cbn [f_s f_win f_left f_more f_last]; f_equal; win_eq; try left_eq.

Lemma rules2_ref inp fl f :
  finv inp fl f -> 2 <= wlen (f_win f) - f_left f ->
  sim2 (rules2 (fetch_n 3) f) (post2 (fuel_of inp) (abs f) (run_table scanner rules2_table (abs f))).
Proof.
  intros Hinv H2. pose proof Hinv as (I1 & I2 & I3 & I4 & I5 & I6 & I7 & I8).
  assert (Ex : exists a b, nth_error (f_win f) (Z.to_nat (f_left f)) = Some a /\
                           nth_error (f_win f) (Z.to_nat (f_left f) + 1) = Some b).
  { unfold wlen in *.
    destruct (nth_error (f_win f) (Z.to_nat (f_left f))) as [a|] eqn:Na; [|apply nth_error_None in Na; lia].
    destruct (nth_error (f_win f) (Z.to_nat (f_left f) + 1)) as [b|] eqn:Nb; [|apply nth_error_None in Nb; lia].
    exists a, b. auto. }
  destruct Ex as (a & b & Na & Nb).
  pose proof (Forall_nth _ _ _ _ I4 Na) as Ha. pose proof (Forall_nth _ _ _ _ I4 Nb) as Hb.
  assert (Hskip : skipn (r_left (abs f)) (r_win (abs f)) = a :: b :: skipn (Z.to_nat (f_left f) + 2) (f_win f)).
  { apply skipn_nth2; assumption. }
  unfold rules2.
  rewrite (wget_ok _ _ _ a) by (try lia; exact Na).
  rewrite (wget_ok _ _ _ b) by (try lia; replace (Z.to_nat (f_left f + 1)) with (Z.to_nat (f_left f) + 1)%nat by lia; exact Nb).
  cbn [bind]. cbv zeta.
  rewrite !(val_prefix_ok _ a (proj1 Ha)).
  rewrite !(is_unary_op_ref b (proj1 Hb)), (is_arithmetic_op_ref b (proj1 Hb)).
  rewrite (merge_ref a b) by (first [exact (proj1 Ha)|exact (proj1 Hb)|destruct Ha as (_ & ? & _); lia|destruct Hb as (_ & ? & _); lia]).
  rewrite (is_if_ref _ a b Hb).
  cbn [bind]. rewrite !bind_guard. cbv beta.


  rewrite index_byte_mem.
  unfold rules2_table.
  do 4 (apply sim2_row; [pm_side2 Hskip | leaf2 Na Nb | intros _]).  (* two words that form a phrase *)
  destruct (phrase a b) as [ab|] eqn:P.
  { assert (G : in_class a phrase_left && in_class b phrase_right = true).
    { unfold phrase in P. destruct (in_class a phrase_left && in_class b phrase_right); [reflexivity|discriminate]. }
    apply andb_true_iff in G. destruct G as [G1 G2].
    rewrite (run_table_row true) by (cbn [r_pats]; rewrite Hskip; cbn [prefix_match tmatch]; rewrite G1, G2; reflexivity).
    revert G1. leaf2x Na Nb P. }
  match goal with |- sim2 _ (post2 _ _ (run_table scanner (?ru :: ?tbl) _)) =>
    assert (D : run_table scanner (ru :: tbl) (abs f) = run_table scanner tbl (abs f))
  end.
  { erewrite run_table_row by reflexivity.
    match goal with |- (if ?g then _ else _) = _ => destruct g; [|reflexivity] end.
    fire_simpl. rewrite Na, Nb, P. reflexivity. }
  rewrite D. clear D.  (* ; IF and function-like names *)
  do 2 (apply sim2_row; [pm_side2 Hskip | leaf2 Na Nb | intros _]).
  (* IN / NOT IN *)
  rewrite (if_arg _ _ (fun c => w' <- wset "fold:IN" (f_win f) (f_left f) (set_cat a c) ;;
                                Ok (Continue (upd f (f_s f) w' (f_left f))))).
  do 2 (apply sim2_row; [pm_side2 Hskip | leaf2 Na Nb | intros _]).
  (* LIKE / NOT LIKE *)
  rewrite if_bind.
  apply sim2_row; [pm_side2 Hskip | intros G | intros _].
  { apply andb_true_iff in G. destruct G as [G Gb]. apply andb_true_iff in G. destruct G as [Ga Gl].
    apply like_len in Gl. three_simpl Na Nb.
    apply (three_ref' inp fl).
    - apply finv_upd; [assumption|reflexivity|reflexivity|reflexivity|forall_w|wside|wside].
      apply wtok_set_fn; [assumption|]. destruct Ha as (L & _). lia.
    - simp_f. wside.
    - abs_eq. }
  apply sim2_row; [pm_side2 Hskip | intros G | intros _].
  { three_simpl Na Nb. apply (three_ref' inp fl).
    - apply finv_upd; [assumption|reflexivity|reflexivity|reflexivity|assumption|wside|wside].
    - simp_f. wside.
    - abs_eq. }  (* type name before a value *)
  apply sim2_row; [pm_side2 Hskip | leaf2 Na Nb | intros _].
  (* COLLATE *)
  rewrite if_nest.
  apply sim2_row; [pm_side2 Hskip | intros G | intros _].
  { three_simpl Na Nb. apply (three_ref' inp fl).
    - apply finv_upd; [assumption|reflexivity|reflexivity|reflexivity|forall_w|wside|wside].
      apply wtok_set_plain; [assumption|reflexivity|discriminate|discriminate|discriminate|discriminate].
    - simp_f. wside.
    - abs_eq. }
  apply sim2_row; [pm_side2 Hskip | intros G | intros _].
  { three_simpl Na Nb. apply (three_ref' inp fl); [exact Hinv|lia|reflexivity]. }
  (* backslash *)
  rewrite if_nest.
  do 2 (apply sim2_row; [pm_side2 Hskip | leaf2 Na Nb | intros _]).
  (* ( ( and ) ) *)
  do 2 (apply sim2_row; [pm_side2 Hskip | leaf2 Na Nb | intros _]).
  (* left brace *)
  rewrite if_nest.
  do 2 (apply sim2_row; [pm_side2 Hskip | leaf2 Na Nb | intros _]).
  (* right brace *)
  apply sim2_row; [pm_side2 Hskip | leaf2 Na Nb | intros _].
  apply sim2_last; [pm_side2 Hskip | intros _].
  three_simpl Na Nb. apply (three_ref' inp fl); [exact Hinv|lia|reflexivity].
Qed.
(* ---------- one iteration of the main loop ---------- *)

(* the five-token special cases at the head of the loop *)
Definition squeezeM (f : fstate) : res fstate :=
  if c_max_tokens <=? wlen (f_win f) then
    (sp <- five_special (f_win f) ;;
     if (sp : bool) then
       if c_max_tokens <? wlen (f_win f) then
         (t5 <- wget "fold:tokenVec[5]" (f_win f) 5 ;;
          w' <- wset "fold:tokenVec[1]=tokenVec[5]" (f_win f) 1 t5 ;;
          w' <- wtrunc "fold:pos=2" w' 2 ;;
          Ok (mkF (f_s f) w' 0 (f_more f) (f_last f)))
       else
         (w' <- wtrunc "fold:pos=1" (f_win f) 1 ;;
          Ok (mkF (f_s f) w' 0 (f_more f) (f_last f)))
     else Ok f)
  else Ok f.

Lemma squeeze_ref f f1 : squeezeM f = Ok f1 -> squeeze5 (abs f) = abs f1.
Proof.
  unfold squeezeM, squeeze5. change c_max_tokens with 5. cbn [abs r_win r_src r_more r_cmt].
  destruct (f_win f) as [|t0 [|t1 [|t2 [|t3 [|t4 r]]]]] eqn:W;
    try (cbn; rewrite ?andb_false_r; cbn; intros E; inversion E; subst f1; unfold abs; rewrite W; reflexivity).
  assert (L5 : 5 <=? wlen (t0 :: t1 :: t2 :: t3 :: t4 :: r) = true) by (unfold wlen; cbn [List.length]; lia).
  rewrite L5. unfold five_special.
  cbn [wget Z.leb Z.compare Z.to_nat].
  change (Pos.to_nat 1) with 1%nat. change (Pos.to_nat 2) with 2%nat. change (Pos.to_nat 3) with 3%nat.
  change (Pos.to_nat 4) with 4%nat. change (Pos.to_nat 5) with 5%nat. cbn [nth_error bind].
  match goal with |- (if ?m then _ else _) = _ -> (if ?g then _ else _) = _ => assert (G : g = m) end.
  { unfold five_table. cbn [existsb prefix_match tmatch]. unfold in_class, cat_is. cbn [existsb]. btauto. }
  rewrite G. match goal with |- (if ?m then _ else _) = _ -> _ => destruct m end.
  2:{ intros E; inversion E; subst f1; unfold abs; rewrite W; reflexivity. }
  destruct r as [|t5 r].
  - cbn. intros E; inversion E. reflexivity.
  - assert (L6 : 5 <? wlen (t0 :: t1 :: t2 :: t3 :: t4 :: t5 :: r) = true) by (unfold wlen; cbn [List.length]; lia).
    rewrite L6. cbn [bind]. rewrite wset_ok by (unfold wlen; cbn [List.length]; lia). cbn [bind].
    rewrite wtrunc_ok by (rewrite wlen_replace_nth; unfold wlen; cbn [List.length]; lia). cbn [bind].
    intros E; inversion E. reflexivity.
Qed.




Lemma squeeze_finv inp fl f : finv inp fl f -> wp (squeezeM f) (finv inp fl).
Proof.
  intros Hinv. pose proof Hinv as (I1 & I2 & I3 & I4 & I5 & I6 & I7 & I8).
  unfold squeezeM. change c_max_tokens with 5.
  destruct (5 <=? wlen (f_win f)) eqn:E5; [|apply wp_Ok; assumption].
  destruct (five_special_total (fun _ => True) (f_win f)) as [sp Esp]; [lia|]. rewrite Esp. cbn [bind].
  destruct sp; [|apply wp_Ok; assumption].
  apply Z.leb_le in E5.
  destruct (5 <? wlen (f_win f)) eqn:E6; [apply Z.ltb_lt in E6|apply Z.ltb_ge in E6].
  - apply wp_bind. eapply wp_wget; [exact I4|lia|]. intros t5 H5 N5.
    apply wp_bind. apply (wp_wset (fun _ => True)); [lia|].
    apply wp_bind. apply wp_wtrunc; [wlens; lia|]. apply wp_Ok.
    change (mkF (f_s f) ?w 0 (f_more f) (f_last f)) with (upd f (f_s f) w 0).
    apply finv_upd; [assumption|reflexivity|reflexivity|reflexivity|forall_w|wside|wside].
  - apply wp_bind. apply wp_wtrunc; [lia|]. apply wp_Ok.
    change (mkF (f_s f) ?w 0 (f_more f) (f_last f)) with (upd f (f_s f) w 0).
    apply finv_upd; [assumption|reflexivity|reflexivity|reflexivity|forall_w|wside|wside].
Qed.

Lemma fold_iter_unfold f :
  fold_iter f =
  bind (squeezeM f) (fun f =>
    if negb (f_more f) || (c_max_tokens <=? f_left f) then
      Ok (Break (mkF (f_s f) (f_win f) (wlen (f_win f)) (f_more f) (f_last f)))
    else
      bind (fetch_n 2 f) (fun f =>
      if wlen (f_win f) - f_left f <? 2 then
        Ok (Again (mkF (f_s f) (f_win f) (wlen (f_win f)) (f_more f) (f_last f)))
      else
        bind (rules2 (fetch_n 3) f) (fun r =>
        match r with
        | Continue f => Ok (Again f)
        | Return n f => Ok (Ret n f)
        end))).
Proof. reflexivity. Qed.

Lemma firstn_all_le {A} (l : list A) n : (List.length l <= n)%nat -> firstn n l = l.
Proof. intros H. apply firstn_all2. exact H. Qed.

Lemma finish_ref f1 n f'' :
  fold_finish (mkF (f_s f1) (f_win f1) (wlen (f_win f1)) (f_more f1) (f_last f1)) = Ok (n, f'') ->
  finish (abs f1) = (firstn (Z.to_nat n) (f_win f''), f_s f'').
Proof.
  unfold fold_finish, finish. cbn [f_left f_win f_last f_s f_more abs r_cmt r_win r_src].
  change c_max_tokens with 5. unfold max_tokens, cmt_of.
  pose proof (wlen_nonneg (f_win f1)) as Hn.
  destruct (cat_is (f_last f1) cC) eqn:C.
  - destruct (wlen (f_win f1) <? 5) eqn:L5; cbn [andb].
    + rewrite Z.eqb_refl. cbn [bind].
      destruct (5 <? wlen (f_win f1) + 1) eqn:L6; [lia|]. intros E; inversion E. cbn [f_win f_s].
      replace (List.length (f_win f1) <? 5)%nat with true by (unfold wlen in *; lia).
      f_equal. rewrite !firstn_all_le; [reflexivity| |]; rewrite app_length; cbn [List.length]; unfold wlen in *; lia.
    + cbn [bind]. replace (List.length (f_win f1) <? 5)%nat with false by (unfold wlen in *; lia).
      destruct (5 <? wlen (f_win f1)) eqn:L6; intros E; inversion E; cbn [f_win f_s]; f_equal;
        first [reflexivity | rewrite !firstn_all_le; [reflexivity| |]; unfold wlen in *; lia].
  - rewrite andb_false_r. cbn [bind].
    destruct (5 <? wlen (f_win f1)) eqn:L6; intros E; inversion E; cbn [f_win f_s]; f_equal;
      first [reflexivity | rewrite !firstn_all_le; [reflexivity| |]; unfold wlen in *; lia].
Qed.

Notation iter2 := (with_two scanner).
Notation iter1 := (unless_done scanner).

Definition iter_rel (inp : bytes) (r : iter_out) (o : outc) : Prop :=
  match r with
  | Again f' => o = Go (abs f')
  | Break f' => forall n f'', fold_finish f' = Ok (n, f'') -> o = Done (firstn (Z.to_nat n) (f_win f'')) (f_s f'')
  | Ret n f' => o = Done (firstn (Z.to_nat n) (f_win f')) (f_s f')
  end.

Lemma iter2_ref inp fl f2 r :
  finv inp fl f2 ->
  (if wlen (f_win f2) - f_left f2 <? 2 then
     Ok (Again (mkF (f_s f2) (f_win f2) (wlen (f_win f2)) (f_more f2) (f_last f2)))
   else
     bind (rules2 (fetch_n 3) f2) (fun r =>
       match r with
       | Continue f => Ok (Again f)
       | Return n f => Ok (Ret n f)
       end)) = Ok r ->
  iter_rel inp r (iter2 (fuel_of inp) (abs f2)).
Proof.
  intros P1 E. pose proof P1 as (K1 & K2 & K3 & K4 & K5 & K6 & K7 & K8).
  unfold with_two.
  assert (G2 : (List.length (r_win (abs f2)) - r_left (abs f2) <? 2)%nat = (wlen (f_win f2) - f_left f2 <? 2)).
  { unfold abs. cbn [r_win r_left]. unfold wlen in *. lia. }
  rewrite G2. destruct (wlen (f_win f2) - f_left f2 <? 2) eqn:E3.
  - inversion E; subst r. unfold iter_rel. f_equal. unfold settle, abs.
    cbn [r_src r_win r_more r_cmt f_s f_win f_left f_more f_last].
    unfold wlen. rewrite Nat2Z.id. reflexivity.
  - apply bind_Ok in E. destruct E as [out [Eo E]].
    pose proof (rules2_ref inp fl f2 P1 ltac:(lia) out Eo) as R.
    destruct out as [f3|n f3]; inversion E; subst r; exact R.
Qed.

Lemma iter1_ref inp fl f1 r :
  finv inp fl f1 ->
  (if negb (f_more f1) || (c_max_tokens <=? f_left f1) then
     Ok (Break (mkF (f_s f1) (f_win f1) (wlen (f_win f1)) (f_more f1) (f_last f1)))
   else
     bind (fetch_n 2 f1) (fun f =>
     if wlen (f_win f) - f_left f <? 2 then
       Ok (Again (mkF (f_s f) (f_win f) (wlen (f_win f)) (f_more f) (f_last f)))
     else
       bind (rules2 (fetch_n 3) f) (fun r =>
       match r with
       | Continue f => Ok (Again f)
       | Return n f => Ok (Ret n f)
       end))) = Ok r ->
  iter_rel inp r (iter1 (fuel_of inp) (abs f1)).
Proof.
  intros J E. pose proof J as (J1 & J2 & J3 & J4 & J5 & J6 & J7 & J8).
  unfold unless_done. change c_max_tokens with 5 in E. unfold max_tokens.
  assert (G : negb (r_more (abs f1)) || (5 <=? r_left (abs f1))%nat = negb (f_more f1) || (5 <=? f_left f1)).
  { unfold abs. cbn [r_more r_left]. destruct (f_more f1); cbn [negb orb]; [|reflexivity]. lia. }
  rewrite G. destruct (negb (f_more f1) || (5 <=? f_left f1)) eqn:Eb.
  - inversion E; subst r. unfold iter_rel. intros n f'' Ef. apply finish_ref in Ef. rewrite Ef. reflexivity.
  - apply bind_Ok in E. destruct E as [f2 [E2 E]].
    assert (P : fetch_post 2 inp fl f1 f2).
    { eapply wp_Ok_inv; [|exact E2]. unfold fetch_n. apply fetch_spec; [exact J|].
      unfold st_wf, slen, len in *. lia. }
    destruct P as (P1 & _).
    unfold fetch_n in E2. rewrite J1 in E2. apply fetch_ref in E2; [|lia|lia].
    change (Z.to_nat 2) with 2%nat in E2. change (S (S (List.length inp))) with (fuel_of inp) in E2. rewrite E2.
    apply (iter2_ref inp fl); assumption.
Qed.

Lemma fold_iter_ref inp fl f r :
  finv inp fl f -> fold_iter f = Ok r -> iter_rel inp r (iter scanner (fuel_of inp) (abs f)).
Proof.
  intros Hinv E. rewrite fold_iter_unfold in E. apply bind_Ok in E. destruct E as [f1 [E1 E]].
  pose proof (wp_Ok_inv _ _ _ (squeeze_finv inp fl f Hinv) E1) as J.
  apply squeeze_ref in E1. unfold iter. rewrite E1.
  apply (iter1_ref inp fl); assumption.
Qed.

(* ---------- the main loop ---------- *)

Fixpoint ref_steps (k fuel : nat) (r : rst) : rst + (list token * sqlst) :=
  match k with
  | O => inl r
  | S k' =>
      match iter scanner fuel r with
      | Go r' => ref_steps k' fuel r'
      | Done w s => inr (w, s)
      end
  end.

Lemma run_steps k m fuel : forall r,
  run scanner (k + m) fuel r =
  match ref_steps k fuel r with inl r' => run scanner m fuel r' | inr x => Some x end.
Proof.
  induction k as [|k IH]; intros r; [reflexivity|].
  cbn [Nat.add run ref_steps]. destruct (iter scanner fuel r); [apply IH|reflexivity].
Qed.

Lemma fold_steps_ref inp fl k : forall f res,
  finv inp fl f -> fold_steps k f = Ok res ->
  match res with
  | inl f' => ref_steps k (fuel_of inp) (abs f) = inl (abs f') /\ finv inp fl f'
  | inr (n, f') => ref_steps k (fuel_of inp) (abs f) = inr (firstn (Z.to_nat n) (f_win f'), f_s f')
  end.
Proof.
  induction k as [|k IH]; intros f res Hinv E; cbn [fold_steps] in E.
  - inversion E. split; [reflexivity|exact Hinv].
  - apply bind_Ok in E. destruct E as [r [Er E]].
    pose proof (fold_iter_ref inp fl f r Hinv Er) as R.
    pose proof (wp_Ok_inv _ _ _ (fold_iter_spec inp fl f Hinv) Er) as S. unfold iter_ok in S.
    cbn [ref_steps]. destruct r as [f'|f'|n f'].
    + rewrite R. apply IH; [exact (proj1 S)|exact E].
    + apply bind_Ok in E. destruct E as [[n f''] [Ef E]]. inversion E; subst res.
      rewrite (R n f'' Ef). reflexivity.
    + inversion E; subst res. rewrite R. reflexivity.
Qed.

Lemma fold_loop_ref inp fl fuel : forall f n f',
  finv inp fl f -> fold_loop fuel f = Ok (n, f') ->
  run scanner (256 * fuel) (fuel_of inp) (abs f) = Some (firstn (Z.to_nat n) (f_win f'), f_s f').
Proof.
  induction fuel as [|fuel IH]; intros f n f' Hinv E; cbn [fold_loop] in E; [discriminate|].
  apply bind_Ok in E. destruct E as [res [Es E]].
  replace (256 * S fuel)%nat with (256 + 256 * fuel)%nat by lia.
  rewrite run_steps.
  pose proof (fold_steps_ref inp fl fold_chunk f res Hinv Es) as R. change fold_chunk with 256%nat in R.
  destruct res as [f1|[n1 f1]].
  - destruct R as [R1 R2]. rewrite R1. apply IH; assumption.
  - inversion E; subst. rewrite R. reflexivity.
Qed.

(* ---------- the leading tokens ---------- *)

Lemma tokenize_cur s cur more t s' :
  tokenize s cur = Ok (more, t, s') ->
  exists t0, tokenize s tok0 = Ok (more, t0, s') /\ (more = true -> t0 = t).
Proof.
  unfold tokenize. destruct (slen s =? 0).
  - intros E. inversion E. exists tok0. split; [reflexivity|discriminate].
  - intros E. exists t. split; [exact E|reflexivity].
Qed.

Lemma leading_ref t u :
  len (t_val t) = t_len t -> is_unary_op t = Ok u ->
  tmatch p_leading t = cat_is t cC || cat_is t cLP || cat_is t cType || u.
Proof.
  intros L E. rewrite (is_unary_op_ref t L) in E.
  assert (Hu : u = tmatch p_unary t) by congruence. subst u. clear E.
  unfold p_leading.
  change (tmatch (POr (PCls [cCmt; cLP; cType]) p_unary) t)
    with (tmatch (PCls [cCmt; cLP; cType]) t || tmatch p_unary t).
  generalize (tmatch p_unary t). intros U.
  cbn [tmatch]. unfold in_class, cat_is. cbn [existsb]. btauto.
Qed.

Lemma skip_ref fuel : forall s cur more t s',
  st_wf s -> len (t_val cur) = t_len cur ->
  skip_loop fuel s cur = Ok (more, t, s') ->
  skip scanner fuel s = ((if more then Some t else None), s').
Proof.
  induction fuel as [|fuel IH]; intros s cur more t s' W Hc E; cbn [skip_loop] in E; [discriminate|].
  apply bind_Ok in E. destruct E as [[[m1 t1] s1] [Et E]].
  pose proof (wp_Ok_inv _ _ _ (tokenize_spec s cur W) Et) as (A & B & C & D & T1 & T2).
  apply bind_Ok in E. destruct E as [u [Eu E]].
  destruct (tokenize_cur _ _ _ _ _ Et) as (t0 & Et0 & Ht0).
  cbn [skip next scanner]. rewrite (scan_eq _ _ _ _ Et0).
  destruct m1.
  - rewrite (Ht0 eq_refl).
    destruct (T1 eq_refl) as (E3 & T & _).
    assert (Lt : len (t_val t1) = t_len t1).
    { eapply tok_at_len; [| |exact T]; unfold st_wf, slen in *; lia. }
    rewrite (leading_ref t1 u Lt Eu).
    destruct (cat_is t1 cC || cat_is t1 cLP || cat_is t1 cType || u); cbn [negb] in E.
    + apply (IH s1 t1); [unfold st_wf, slen in *; rewrite A; lia|exact Lt|exact E].
    + inversion E. reflexivity.
  - destruct (negb _) in E; inversion E; reflexivity.
Qed.

(* ---------- fold ---------- *)

Lemma fold_ref s w s' :
  st_wf s -> fold s = Ok (w, s') -> ref_fold scanner (fuel_of (input s)) s = (w, s').
Proof.
  intros W E. unfold fold in E. apply bind_Ok in E. destruct E as [[[more t] s1] [Es E]].
  assert (SP : wp (skip_loop (S (S (List.length (input s)))) s tok0) (skip_post (input s) (flags s))).
  { apply skip_loop_spec; try reflexivity; [exact W|]. unfold st_wf, slen, len in *. lia. }
  pose proof (wp_Ok_inv _ _ _ SP Es) as (A & B & C & D).
  apply skip_ref in Es; [|exact W|reflexivity].
  unfold ref_fold. change (S (S (List.length (input s)))) with (fuel_of (input s)) in Es. rewrite Es.
  destruct more; cbn [negb] in E.
  2:{ inversion E. reflexivity. }
  specialize (D eq_refl).
  set (f0 := mkF s1 [t] 0 true tok0) in *.
  assert (Hinv : finv (input s) (flags s) f0).
  { unfold finv, f0, mark. cbn [f_s f_win f_left f_last]. change (cat_is tok0 cC) with false. cbn [wlen List.length].
    splits; try assumption; try lia; try discriminate. constructor; [exact D|constructor]. }
  apply bind_Ok in E. destruct E as [[n f'] [El E]].
  apply bind_Ok in E. destruct E as [w' [Ew E]]. inversion E; subst w' s'.
  apply wtrunc_Ok_inv in Ew. destruct Ew as [_ Ew].
  assert (Ef : fold_fuel s1 = S (fuel_of (input s))) by (unfold fold_fuel, fuel_of; rewrite A; reflexivity).
  rewrite Ef in El.
  apply (fold_loop_ref (input s) (flags s)) in El; [|exact Hinv].
  change (abs f0) with (mkR s1 [t] 0%nat true None) in El. rewrite El, Ew. reflexivity.
Qed.


(* the folded token sequence *)
Theorem fold_tokens_ref inp fl : fold_tokens inp fl = Ok (ref_fold_tokens inp fl).
Proof.
  unfold fold_tokens, ref_fold_tokens.
  assert (W : st_wf (sqli_init inp fl)).
  { unfold st_wf, sqli_init, slen. cbn [pos input]. pose proof (len_nonneg inp). lia. }
  destruct (wp_inv _ _ (fold_spec inp _ (sqli_init inp fl) eq_refl eq_refl W)) as [[w s'] [E _]].
  rewrite E. f_equal. symmetry. apply (fold_ref _ _ _ W E).
Qed.

(* ---------- fingerprint ---------- *)

Lemma fp_loop_ref : forall w acc,
  fp_loop w acc = if existsb (fun t => in_class t [cEvil]) w then None else Some (rev acc ++ map t_cat w).
Proof.
  induction w as [|t w IH]; intros acc; cbn [fp_loop existsb map].
  - rewrite app_nil_r. reflexivity.
  - rewrite in_class1. destruct (cat_is t cEvil); [reflexivity|]. cbn [orb].
    rewrite IH. cbn [rev]. rewrite <- app_assoc. reflexivity.
Qed.

(* the PHP back-tick rule *)
Lemma php_ref w w1 :
  (if 2 <? wlen w then
     (lt <- wget "sqliFingerprint:tokenVec[length-1]" w (wlen w - 1) ;;
      if cat_is lt cWord && beq (t_open lt) b_byte_tick && (t_len lt =? 0) && beq (t_close lt) x00
      then wset "sqliFingerprint" w (wlen w - 1) (set_cat lt cC)
      else Ok w)
   else Ok w) = Ok w1 ->
  php_backtick w = w1.
Proof.
  unfold php_backtick. intros E.
  assert (L : Z.to_nat (wlen w - 1) = (List.length w - 1)%nat) by (unfold wlen; lia).
  destruct (2 <? wlen w) eqn:E2.
  - apply bind_Ok in E. destruct E as [lt [El E]]. apply wget_Ok_inv in El. destruct El as [_ El].
    rewrite L in El. rewrite El. rewrite in_class1.
    replace (2 <? List.length w)%nat with true by (unfold wlen in *; lia). cbn [andb].
    destruct (cat_is lt cWord && beq (t_open lt) b_byte_tick && (t_len lt =? 0) && beq (t_close lt) x00).
    + apply wset_Ok_inv in E. destruct E as [_ ->]. rewrite L, put_replace. reflexivity.
    + inversion E. reflexivity.
  - inversion E; subst w1.
    replace (2 <? List.length w)%nat with false by (unfold wlen in *; lia).
    destruct (nth_error w (List.length w - 1)); reflexivity.
Qed.

Lemma sqli_fingerprint_ref s fl fp w s2 :
  sqli_fingerprint s fl = Ok (fp, w, s2) ->
  exists toks, ref_fold scanner (fuel_of (input s)) (sqli_init (input s) fl) = (toks, s2) /\
               fp = fst (ref_fingerprint toks) /\
               (fp = [cEvil] \/ (w = snd (ref_fingerprint toks) /\ fp = map t_cat w)).
Proof.
  unfold sqli_fingerprint, reset. intros E.
  apply bind_Ok in E. destruct E as [[w0 s1] [Ef E]].
  apply fold_ref in Ef.
  2:{ unfold st_wf, sqli_init, slen. cbn [pos input]. pose proof (len_nonneg (input s)). lia. }
  cbn [input sqli_init] in Ef.
  exists w0. apply bind_Ok in E. destruct E as [w1 [Ep E]]. apply php_ref in Ep.
  unfold ref_fingerprint. rewrite Ep. rewrite fp_loop_ref in E. cbn [rev app] in E.
  destruct (existsb (fun t => in_class t [cEvil]) w1).
  - apply bind_Ok in E. destruct E as [t0 [_ E]]. apply bind_Ok in E. destruct E as [w2 [_ E]].
    inversion E; subst. cbn [fst snd]. split; [exact Ef|]. split; [reflexivity|left; reflexivity].
  - inversion E; subst. cbn [fst snd]. split; [exact Ef|]. split; [reflexivity|right; split; reflexivity].
Qed.

(* ---------- blacklist ---------- *)

Lemma blacklist_ref fp : blacklist fp = ref_blacklist fp.
Proof.
  unfold blacklist, ref_blacklist. destruct fp as [|c fp]; [reflexivity|].
  replace (len (c :: fp) <? 1) with false by (rewrite len_cons; pose proof (len_nonneg fp); lia).
  rewrite blacklist_upper_map. reflexivity.
Qed.

(* ---------- whitelist ---------- *)

Lemma last_byte_ref site (F : byte -> bool) fp :
  (if 1 <? len fp then (lc <- get site fp (len fp - 1) ;; Ok (F lc)) else Ok false)
  = Ok (match rev fp with c :: _ :: _ => F c | _ => false end).
Proof.
  remember (rev fp) as q0 eqn:Hq.
  assert (Hfp : fp = rev q0) by (subst q0; rewrite rev_involutive; reflexivity).
  clear Hq. subst fp. destruct q0 as [|c [|d q]]; [reflexivity|reflexivity|].
  cbn [rev]. set (l := rev q ++ [d]).
  assert (Ll : 1 <= len l) by (unfold l; rewrite len_app; change (len [d]) with 1; pose proof (len_nonneg (rev q)); lia).
  rewrite len_app. change (len [c]) with 1.
  destruct (1 <? len l + 1) eqn:E; [|lia].
  destruct (get_ok site (l ++ [c]) (len l + 1 - 1)) as [b [-> N]]; [rewrite len_app; change (len [c]) with 1; lia|].
  cbn [bind]. f_equal. f_equal.
  replace (Z.to_nat (len l + 1 - 1)) with (List.length l + 0)%nat in N by (unfold len; lia).
  rewrite nth_error_app2 in N by lia. replace (List.length l + 0 - List.length l)%nat with 0%nat in N by lia.
  cbn in N. inversion N. reflexivity.
Qed.

Lemma first_byte_get site v c : get site v 0 = Ok c -> forall x, first_byte_is v x = beq c x.
Proof.
  intros G x. apply get_Ok_inv in G. destruct G as [_ G]. destruct v; [discriminate|]. cbn in G. inversion G. reflexivity.
Qed.

Lemma get_skipn site inp n ch : get site inp n = Ok ch -> exists rest, skipn (Z.to_nat n) inp = ch :: rest.
Proof.
  intros G. apply get_Ok_inv in G. destruct G as [_ G]. revert G. generalize (Z.to_nat n). clear n.
  induction inp as [|b inp IH]; intros [|n] G; try discriminate.
  - cbn in G. inversion G. exists inp. reflexivity.
  - cbn [skipn]. apply IH. exact G.
Qed.

Lemma skipn_next (inp : bytes) k ch rest c :
  skipn k inp = ch :: rest -> nth_error inp (k + 1) = Some c -> exists r', rest = c :: r'.
Proof.
  intros S N. rewrite <- nth_error_skipn in N. rewrite S in N. cbn in N.
  destruct rest as [|x r']; [discriminate|]. inversion N. exists r'. reflexivity.
Qed.

(* the look at the raw input after a number *)
Lemma follows_ref inp n v :
  0 <= n ->
  (ch <- get "notWhitelist:input[tokenVec[0].len]" inp n ;;
   if (code ch <=? 32) || is_byte_white ch then Ok true
   else
     sl <- (if beq ch x2f then
              (c <- get "notWhitelist:input[tokenVec[0].len+1]" inp (n + 1) ;; Ok (beq c x2a))
            else Ok false) ;;
     if (sl : bool) then Ok true
     else
       dd <- (if beq ch x2d then
                (c <- get "notWhitelist:input[tokenVec[0].len+1]" inp (n + 1) ;; Ok (beq c x2d))
              else Ok false) ;;
       Ok dd) = Ok v ->
  sql_follows (skipn (Z.to_nat n) inp) = v.
Proof.
  intros Hn E. apply bind_Ok in E. destruct E as [ch [G E]].
  destruct (get_skipn _ _ _ _ G) as [rest S]. rewrite S. unfold sql_follows.
  change (bs "/*") with [x2f; x2a]. change (bs "--") with [x2d; x2d]. cbn [starts_with].
  destruct ((code ch <=? 32) || is_byte_white ch); [inversion E; reflexivity|]. cbn [orb].
  apply bind_Ok in E. destruct E as [sl [Esl E]].
  assert (X : forall c0, nth_error inp (Z.to_nat (n + 1)) = Some c0 -> exists r', rest = c0 :: r').
  { intros c0 N. replace (Z.to_nat (n + 1)) with (Z.to_nat n + 1)%nat in N by lia. eapply skipn_next; eassumption. }
  destruct (beq ch x2f) eqn:Es.
  - apply bind_Ok in Esl. destruct Esl as [c [Gc Esl]]. inversion Esl; subst sl.
    apply get_Ok_inv in Gc. destruct Gc as [_ Gc]. destruct (X c Gc) as [r' ->]. cbn [andb].
    assert (Hd : beq ch x2d = false).
    { apply beq_eq in Es. subst ch. reflexivity. }
    rewrite Hd in *. cbn [starts_with andb orb]. rewrite andb_true_r, orb_false_r.
    destruct (beq c x2a); [inversion E; reflexivity|]. cbn [bind] in E. inversion E. reflexivity.
  - inversion Esl; subst sl. cbn [andb orb].
    apply bind_Ok in E. destruct E as [dd [Edd E]]. inversion E; subst v.
    destruct (beq ch x2d) eqn:Ed.
    + apply bind_Ok in Edd. destruct Edd as [c [Gc Edd]]. inversion Edd; subst dd.
      apply get_Ok_inv in Gc. destruct Gc as [_ Gc]. destruct (X c Gc) as [r' ->].
      cbn [starts_with andb]. rewrite andb_true_r. reflexivity.
    + inversion Edd. reflexivity.
Qed.

Lemma rev_match_and (fp : bytes) (X : bool) :
  match rev fp with c :: _ :: _ => beq c cC && X | _ => false end
  = (match rev fp with c :: _ :: _ => beq c cC | _ => false end) && X.
Proof. destruct (rev fp) as [|c [|d q]]; reflexivity. Qed.

Lemma not_whitelist_ref s w v :
  (forall t, In t w -> 0 <= t_len t) ->
  not_whitelist s (map t_cat w) w = Ok v ->
  ref_whitelist (input s) (n_tokens (st s)) (map t_cat w) w = negb v.
Proof.
  intros Hlen E. unfold not_whitelist in E. unfold ref_whitelist.
  rewrite (last_byte_ref _ (fun lc => beq lc cC && contains (input s) (bs "sp_password"))) in E.
  cbn [bind] in E. rewrite rev_match_and in E.
  destruct ((match rev (map t_cat w) with c :: _ :: _ => beq c cC | _ => false end)
            && contains (input s) (bs "sp_password")).
  { inversion E. reflexivity. }
  destruct w as [|t0 [|t1 [|t2 [|t3 w']]]].
  - cbn in E. inversion E. reflexivity.
  - cbn in E. inversion E. reflexivity.
  - (* two tokens *)
    cbn [map] in *. change (len [t_cat t0; t_cat t1] =? 2) with true in E. cbv iota in E.
    apply bind_Ok in E. destruct E as [f1 [G1 E]]. cbn in G1. inversion G1; subst f1. clear G1.
    unfold exempt2. cbn [decide]. rewrite !in_class1. unfold cat_is at 1.
    destruct (beq (t_cat t1) cUnion).
    { inversion E. rewrite negb_involutive. reflexivity. }
    apply bind_Ok in E. destruct E as [t1' [G E]]. cbn in G. inversion G; subst t1'. clear G.
    apply bind_Ok in E. destruct E as [v0 [G0 E]].
    rewrite !(first_byte_get _ _ _ G0).
    destruct (beq v0 x23); [inversion E; reflexivity|].
    apply bind_Ok in E. destruct E as [t0' [G E]]. cbn in G. inversion G; subst t0'. clear G.
    destruct (cat_is t0 cWord && cat_is t1 cC && negb (beq v0 x2f)); [inversion E; reflexivity|].
    destruct (cat_is t0 cNum && cat_is t1 cC && beq v0 x2f); [inversion E; reflexivity|].
    destruct (cat_is t0 cNum && cat_is t1 cC).
    + destruct (2 <? n_tokens (st s)); [inversion E; reflexivity|]. cbn [orb].
      apply follows_ref in E; [|apply Hlen; left; reflexivity]. rewrite E. reflexivity.
    + destruct ((2 <? t_len t1) && beq v0 x2d); inversion E; reflexivity.
  - (* three tokens *)
    cbn [map] in *. change (len [t_cat t0; t_cat t1; t_cat t2] =? 2) with false in E.
    change (len [t_cat t0; t_cat t1; t_cat t2] =? 3) with true in E. cbv iota in E.
    unfold exempt3. cbn [decide existsb]. rewrite !orb_false_r, !orb_assoc.
    match type of E with (if ?c then _ else _) = _ => destruct c end.
    { apply bind_Ok in E. destruct E as [t0' [G E]]. cbn in G. inversion G; subst t0'. clear G.
      apply bind_Ok in E. destruct E as [t2' [G E]]. cbn in G. inversion G; subst t2'. clear G.
      inversion E. reflexivity. }
    match type of E with (if ?c then _ else _) = _ => destruct c end.
    { inversion E. reflexivity. }
    apply bind_Ok in E. destruct E as [t1' [G E]]. cbn in G. inversion G; subst t1'. clear G.
    apply bind_Ok in E. destruct E as [safe [Es E]]. inversion E; subst v. rewrite negb_involutive.
    rewrite in_class1. destruct (cat_is t1 cKey); [|inversion Es; reflexivity].
    destruct (t_len t1 <? 5); [inversion Es; reflexivity|].
    apply bind_Ok in Es. destruct Es as [v4 [Gt Es]]. apply take_Ok_inv in Gt. destruct Gt as [_ ->].
    inversion Es. reflexivity.
  - (* four or more *)
    cbn [map] in *.
    assert (L : 4 <= len (t_cat t0 :: t_cat t1 :: t_cat t2 :: t_cat t3 :: map t_cat w')).
    { rewrite !len_cons. pose proof (len_nonneg (map t_cat w')). lia. }
    destruct (len (t_cat t0 :: t_cat t1 :: t_cat t2 :: t_cat t3 :: map t_cat w') =? 2) eqn:E2; [lia|].
    destruct (len (t_cat t0 :: t_cat t1 :: t_cat t2 :: t_cat t3 :: map t_cat w') =? 3) eqn:E3; [lia|].
    inversion E. reflexivity.
Qed.

(* ---------- one reading ---------- *)

Lemma not_whitelist_evil s w : not_whitelist s [cEvil] w = Ok true.
Proof. reflexivity. Qed.

Lemma ref_whitelist_evil inp n toks : ref_whitelist inp n [cEvil] toks = false.
Proof. reflexivity. Qed.

Theorem fingerprint_ctx_ref inp fl : fingerprint_ctx inp fl = Ok (ref_ctx inp fl).
Proof.
  destruct (wp_inv _ _ (sqli_fingerprint_spec (sqli_init inp 0) fl)) as [[[fp w] s2] [E1 (A & W & F)]].
  cbn [input sqli_init] in A, F.
  unfold fingerprint_ctx. rewrite E1. cbn [bind].
  assert (T : wp (check_fingerprint s2 fp w) (fun _ => True)).
  { apply check_fingerprint_total. rewrite A. exact F. }
  destruct (wp_inv _ _ T) as [v [E2 _]]. rewrite E2. cbn [bind]. f_equal.
  destruct (sqli_fingerprint_ref _ _ _ _ _ E1) as (toks & Rf & Rfp & Rw). cbn [input sqli_init] in Rf.
  unfold ref_ctx, ref_fold_tokens. change (2 + List.length inp)%nat with (fuel_of inp). rewrite Rf.
  destruct (ref_fingerprint toks) as [fp' toks'] eqn:Er. cbn [fst snd] in Rfp, Rw. subst fp'.
  rewrite <- blacklist_ref.
  unfold check_fingerprint in E2. destruct (blacklist fp) eqn:B; [|inversion E2; reflexivity].
  cbn [andb].
  assert (Evil : fp = [cEvil] -> (fp, true, negb (ref_whitelist inp (n_tokens (st s2)) fp toks'), st s2) = (fp, true, v, st s2)).
  { intros ->. rewrite not_whitelist_evil in E2. inversion E2. rewrite ref_whitelist_evil. reflexivity. }
  symmetry.
  destruct Rw as [Rw|[Rw1 Rw2]]; [apply Evil; exact Rw|].
  destruct F as [F|(F1 & F2 & _)]; [apply Evil; exact F|].
  subst toks'. rewrite Rw2 in E2 |- *.
  apply not_whitelist_ref in E2.
  - rewrite A in E2. rewrite E2, negb_involutive. reflexivity.
  - intros t Ht. rewrite Forall_forall in F2. destruct (F2 t Ht) as (_ & L & _). exact L.
Qed.

(* ---------- the verdict ---------- *)

Lemma try_ref inp fl k k' :
  (forall x, k x = Ok (k' x)) -> try_reading inp fl k = Ok (ref_try inp fl k').
Proof.
  intros H. unfold try_reading, ref_try. rewrite fingerprint_ctx_ref. cbn [bind].
  destruct (ref_ctx inp fl) as [[[fp bl] v] x]. destruct v; [reflexivity|apply H].
Qed.

Lemma both_ref inp quote next next' :
  next = Ok next' ->
  ansi_then_mysql inp quote next
  = Ok (ref_both inp (Z.lor quote c_sqli_flag_sqlansi) (Z.lor quote c_sqli_flag_sqlmysql) next').
Proof.
  intros H. unfold ansi_then_mysql, ref_both. apply try_ref. intros x.
  change (mysql_gate x) with (ref_gate x). destruct (ref_gate x); [|exact H].
  apply try_ref. intros _. exact H.
Qed.

Lemma has_byte_mem inp c : has_byte inp c = mem c inp.
Proof. unfold has_byte. rewrite index_byte_mem. apply negb_involutive. Qed.

Theorem cascade_ref inp : cascade inp = Ok (ref_is_sqli inp).
Proof.
  unfold cascade, ref_is_sqli. destruct inp as [|b inp']; [reflexivity|].
  replace (len (b :: inp') =? 0) with false by (rewrite len_cons; pose proof (len_nonneg inp'); lia).
  set (inp := b :: inp'). cbv zeta. rewrite !has_byte_mem.
  apply both_ref.
  assert (D : (if mem b_byte_double inp then try_reading inp ctx_double_mysql (fun _ => not_sqli) else not_sqli)
              = Ok (if mem b_byte_double inp then ref_try inp fl_double_mysql (fun _ => (false, [])) else (false, []))).
  { destruct (mem b_byte_double inp); [|reflexivity]. apply try_ref. intros _. reflexivity. }
  destruct (mem b_byte_single inp); [|exact D].
  apply both_ref. exact D.
Qed.

Theorem is_sqli_ref inp : is_sqli inp = Ok (ref_is_sqli inp).
Proof. rewrite is_sqli_cascade. apply cascade_ref. Qed.
