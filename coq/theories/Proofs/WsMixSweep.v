(* WsMixSweep: a FINITE sweep (vm_compute, sharded: WsMixSweep0..5.v) -- every member of the
   frozen attack grammar is reported when all its slots hold the same MIXED
   separator, for six fixed mixtures of whitespace bytes and the inline comment.
   This is not the general statement "any sequence of pieces, independently per
   slot" (see Properties/C03wsm.v for what is missing and why); it is the
   evidence that no member contradicts it on these shapes. *)
From Coq Require Import List ZArith String Bool.
From Coq.Strings Require Import Byte.
From LI Require Import Prelude Base SqliLex SqliFold GrammarSqli.
From LIGen Require Import C03CoreAll.
Import ListNotations.
From LI Require Import Proofs.WsMixBase.
From LI Require Proofs.WsMixSweep0 Proofs.WsMixSweep1 Proofs.WsMixSweep2 Proofs.WsMixSweep3 Proofs.WsMixSweep4 Proofs.WsMixSweep5.

(* blank comment blank | comment comment | tab comment newline | comment blank | blank comment |
   NBSP comment NUL comment CR *)
Definition mixed_separators : list bytes :=
  [ WsMixSweep0.sep; WsMixSweep1.sep; WsMixSweep2.sep; WsMixSweep3.sep; WsMixSweep4.sep; WsMixSweep5.sep ].

Theorem core_mix_finite segs m :
  In segs all_cases -> In m mixed_separators -> exists fp, is_sqli (inst m segs) = Ok (true, fp).
Proof.
  intros Hs Hm. unfold mixed_separators in Hm.
  destruct Hm as [<-|[<-|[<-|[<-|[<-|[<-|[]]]]]]].
  - exact (mix1_ok_spec _ _ WsMixSweep0.sep_ok segs Hs).
  - exact (mix1_ok_spec _ _ WsMixSweep1.sep_ok segs Hs).
  - exact (mix1_ok_spec _ _ WsMixSweep2.sep_ok segs Hs).
  - exact (mix1_ok_spec _ _ WsMixSweep3.sep_ok segs Hs).
  - exact (mix1_ok_spec _ _ WsMixSweep4.sep_ok segs Hs).
  - exact (mix1_ok_spec _ _ WsMixSweep5.sep_ok segs Hs).
Qed.

Print Assumptions core_mix_finite.
