(* H5Spec: the HTML5 tokenizer model never fails (no Panic, no OutOfFuel, no
   StackOverflow), every token it emits lies inside the input, tokens come in
   non-overlapping increasing order, and a scan emits at most |s|+1 tokens. *)
From Coq Require Import List ZArith String Bool Lia ZifyBool.
From Coq.Strings Require Import Byte.
From LI Require Import Prelude Base Html5 Proofs.BaseFacts Proofs.Wp.
From LIGen Require Import Consts.
Import ListNotations.
Local Open Scope Z_scope.

(* ---------- well-formedness, potential, post-conditions ---------- *)

(* st_ok f pos ln tend: the state function f may run at position pos of an
   input of length ln when the previously emitted token ended at tend *)
Definition st_ok (f : h5fn) (pos ln tend : Z) : Prop :=
  match f with
  | SEOF => 0 <= pos <= ln
  | STagOpen | SSelfClosingStartTag => 1 <= pos <= ln /\ tend <= pos - 1
  | SAttributeValueSingleQuote | SAttributeValueDoubleQuote | SAttributeValueBackQuote =>
      0 <= pos <= ln /\ (pos = 0 \/ pos < ln) /\ tend <= pos
  | STagNameClose => 0 <= pos < ln /\ tend <= pos
  | _ => 0 <= pos <= ln /\ tend <= pos
  end.

Definition h5_ok (h : h5) : Prop :=
  st_ok (hstate h) (hpos h) (hlen h) (tok_off h + tok_len h).

(* per-state credit of the potential: bytes left + credit bounds the number of
   tokens still to come *)
Definition credit (f : h5fn) : Z :=
  match f with
  | SEOF => 0
  | STagOpen | STagName | SEndTagOpen | SAttributeValueNoQuote | SBeforeAttributeValue => 2
  | _ => 1
  end.

Definition phi (f : h5fn) (h : h5) : Z := hlen h - hpos h + credit f.
Definition Phi (h : h5) : Z := phi (hstate h) h.

Definition frame (h0 h' : h5) : Prop :=
  hstate h' = hstate h0 /\ hpos h0 <= hpos h' <= hlen h0 /\
  tok_off h' = tok_off h0 /\ tok_len h' = tok_len h0.

(* result of a state function started on h0: a token starting at or after lo,
   potential bounded by B *)
Definition Post (lo B : Z) (h0 : h5) (r : bool * h5) : Prop :=
  hs (snd r) = hs h0 /\
  if fst r then
    lo <= tok_off (snd r) /\ 0 <= tok_len (snd r) /\
    tok_off (snd r) + tok_len (snd r) <= hlen h0 /\
    h5_ok (snd r) /\ Phi (snd r) + 1 <= B
  else
    h5_ok (snd r) \/ frame h0 (snd r).

(* ---------- tactics (symbolic execution, after LexSpec) ---------- *)

Ltac simp_h :=
  unfold hlen, with_pos, with_state, with_close in *;
  cbn [hs hpos is_close hstate tok_off tok_len tok_type fst snd] in *.

Ltac consts :=
  unfold c_byte_eof, c_byte_slash, c_byte_gt, c_byte_double, c_byte_single, c_byte_tick,
         c_byte_equals in *.

Ltac learn H :=
  let T := type of H in
  lazymatch goal with
  | _ : T |- _ => fail
  | _ => pose proof H
  end.

Ltac note_facts :=
  repeat match goal with
         | |- context [index_byte ?l ?c] => learn (index_byte_range l c)
         | |- context [span ?p ?l] => learn (span_range p l)
         | H : context [index_byte ?l ?c] |- _ => learn (index_byte_range l c)
         | H : context [span ?p ?l] |- _ => learn (span_range p l)
         end.

Ltac norm_len :=
  repeat match goal with
         | |- context [len (skipn (Z.to_nat ?i) ?s)] => rewrite (len_skipn_le s i) by lia
         | H : context [len (skipn (Z.to_nat ?i) ?s)] |- _ => rewrite (len_skipn_le s i) in H by lia
         end.

Ltac side := simp_h; consts; note_facts; norm_len; lia.

Ltac wp_step :=
  lazymatch goal with
  | |- wp (Ok _) _ => apply wp_Ok
  | |- wp (bind _ _) _ => apply wp_bind
  | |- wp (get _ _ _) _ => apply wp_get; [ side | intros ? ? ]
  | |- wp (drop _ _ _) _ => apply wp_drop; [ side | ]
  | |- wp (take _ _ _) _ => apply wp_take; [ side | ]
  | |- wp (slice _ _ _ _) _ => apply wp_slice; [ side | side | ]
  | |- wp (emit _ _ _ _ _ _ _ _) _ => unfold emit
  | |- wp (if ?c then _ else _) _ => destruct c eqn:?; try (exfalso; side)
  end.

Ltac wp_go := simp_h; repeat (wp_step; simp_h).

(* a leaf: Post of a concrete result *)
Ltac post0 :=
  unfold Post, h5_ok, Phi, phi, frame; simp_h; consts; cbn [st_ok credit];
  note_facts; norm_len; splits; try reflexivity; try lia.
Ltac post := solve [post0].
(* the state function returned false without emitting *)
Ltac stay :=
  solve [unfold Post, frame; simp_h; consts; split; [reflexivity|right; splits; try reflexivity; lia]].

Lemma hlen_nonneg h : 0 <= hlen h.
Proof. apply len_nonneg. Qed.

(* a callee's result seen from the caller *)
Lemma Post_mono lo B h2 lo' B' h r :
  hs h2 = hs h -> hstate h2 = hstate h -> hpos h <= hpos h2 ->
  tok_off h2 = tok_off h -> tok_len h2 = tok_len h ->
  lo' <= lo -> B <= B' -> Post lo B h2 r -> Post lo' B' h r.
Proof.
  intros E1 E2 E3 E4 E5 L1 L2. destruct r as [more h']. unfold Post, frame, hlen. cbn [fst snd].
  rewrite E1, E2, E4, E5. intros [P1 P2]. split; [exact P1|].
  destruct more; [intuition lia|]. destruct P2 as [P2|P2]; [left; exact P2|right; intuition lia].
Qed.

(* ---------- skip_white ---------- *)

Lemma skip_white_spec h : 0 <= hpos h <= hlen h ->
  wp (skip_white h)
     (fun r => exists p, snd r = with_pos h p /\ hpos h <= p <= hlen h /\
                         ((fst r = -1 /\ p = hlen h) \/ (0 <= fst r /\ p < hlen h))).
Proof.
  intros H. unfold skip_white. wp_go.
  - eexists. split; [reflexivity|]. pose proof (code_range b). side.
  - eexists. split; [reflexivity|]. side.
Qed.

(* ---------- leaf states (depth 1) ---------- *)

Lemma SEOF_spec d h lo B : hpos h <= hlen h -> wp (h5_call (S d) SEOF h) (Post lo B h).
Proof.
  intros H. cbn [h5_call]. apply wp_Ok. unfold Post, frame. cbn [fst snd]. split; [reflexivity|]. right.
  splits; try reflexivity; lia.
Qed.

Lemma SBogusComment_spec d h : 0 <= hpos h <= hlen h ->
  wp (h5_call (S d) SBogusComment h) (Post (hpos h) (phi SBogusComment h) h).
Proof.
  intros H. cbn [h5_call]. wp_go.
  all: post.
Qed.

Lemma SDoctype_spec d h : 0 <= hpos h <= hlen h ->
  wp (h5_call (S d) SDoctype h) (Post (hpos h) (phi SDoctype h) h).
Proof. intros H. cbn [h5_call]. wp_go; post. Qed.

Lemma STagNameClose_spec d h : 0 <= hpos h < hlen h ->
  wp (h5_call (S d) STagNameClose h) (fun r => fst r = true /\ Post (hpos h) (phi STagNameClose h) h r).
Proof.
  intros H. cbn [h5_call]. wp_go. split; [reflexivity|].
  post0; destruct (_ <? _) eqn:?; cbn [st_ok credit]; lia.
Qed.

Lemma STagName_spec d h : 0 <= hpos h <= hlen h ->
  wp (h5_call (S d) STagName h) (Post (hpos h) (phi STagName h) h).
Proof. intros H. cbn [h5_call]. wp_go; post. Qed.

Lemma SAttributeValueNoQuote_spec d h : 0 <= hpos h <= hlen h ->
  wp (h5_call (S d) SAttributeValueNoQuote h) (Post (hpos h) (phi SAttributeValueNoQuote h) h).
Proof. intros H. cbn [h5_call]. wp_go; post. Qed.

Lemma SAttributeName_spec d h : 0 <= hpos h <= hlen h ->
  wp (h5_call (S d) SAttributeName h) (Post (hpos h) (phi SAttributeName h) h).
Proof. intros H. cbn [h5_call]. wp_go; post. Qed.

Definition is_quote (f : h5fn) : bool :=
  match f with
  | SAttributeValueSingleQuote | SAttributeValueDoubleQuote | SAttributeValueBackQuote => true
  | _ => false
  end.

Lemma SQuote_spec d f h : is_quote f = true -> 0 <= hpos h <= hlen h -> hpos h = 0 \/ hpos h < hlen h ->
  wp (h5_call (S d) f h) (fun r => fst r = true /\ Post (hpos h) (phi f h) h r).
Proof.
  intros Q H H0. destruct f; try discriminate Q; cbn [h5_call]; destruct (0 <? hpos h) eqn:E; wp_go;
    (split; [reflexivity|post]).
Qed.

(* ---------- the three fuel loops ---------- *)

Lemma bogus2_loop_spec fuel : forall h p,
  0 <= hpos h <= p -> p <= hlen h -> hlen h - p < Z.of_nat fuel ->
  wp (bogus2_loop fuel h p) (Post (hpos h) (phi SBogusComment2 h) h).
Proof.
  induction fuel as [|fuel IH]; intros h p H1 H2 H3; cbn [bogus2_loop]; [lia|].
  wp_go; try post.
  apply IH; side.
Qed.

Lemma comment_loop_spec fuel : forall h p,
  0 <= hpos h <= p -> p <= hlen h -> hlen h - p < Z.of_nat fuel ->
  wp (comment_loop fuel h p) (Post (hpos h) (phi SComment h) h).
Proof.
  induction fuel as [|fuel IH]; intros h p H1 H2 H3; cbn [comment_loop]; [lia|].
  wp_go; try post; try (apply IH; side).
Qed.

Lemma cdata_loop_spec fuel : forall h p,
  0 <= hpos h <= p -> p <= hlen h -> hlen h - p < Z.of_nat fuel ->
  wp (cdata_loop fuel h p) (Post (hpos h) (phi SCData h) h).
Proof.
  induction fuel as [|fuel IH]; intros h p H1 H2 H3; cbn [cdata_loop]; [lia|].
  wp_go; try post; try (apply IH; side).
Qed.

Lemma loop_fuel_enough h p : 0 <= p -> hlen h - p < Z.of_nat (loop_fuel h).
Proof. unfold loop_fuel, hlen, len. lia. Qed.

Lemma SBogusComment2_spec d h : 0 <= hpos h <= hlen h ->
  wp (h5_call (S d) SBogusComment2 h) (Post (hpos h) (phi SBogusComment2 h) h).
Proof. intros H. cbn [h5_call]. apply bogus2_loop_spec; try lia. apply loop_fuel_enough. lia. Qed.

Lemma SComment_spec d h : 0 <= hpos h <= hlen h ->
  wp (h5_call (S d) SComment h) (Post (hpos h) (phi SComment h) h).
Proof. intros H. cbn [h5_call]. apply comment_loop_spec; try lia. apply loop_fuel_enough. lia. Qed.

Lemma SCData_spec d h : 0 <= hpos h <= hlen h ->
  wp (h5_call (S d) SCData h) (Post (hpos h) (phi SCData h) h).
Proof. intros H. cbn [h5_call]. apply cdata_loop_spec; try lia. apply loop_fuel_enough. lia. Qed.

(* ---------- the two cycle cuts ---------- *)

Lemma nth_skipn_0 (s : bytes) i : 0 <= i -> nth_error (skipn (Z.to_nat i) s) (Z.to_nat 0) = nth_error s (Z.to_nat i).
Proof. intros H. rewrite nth_error_skipn. f_equal. lia. Qed.

(* SData at a byte other than '<' (or at the end of input) calls nothing *)
Lemma SData_leaf_spec d h : 0 <= hpos h <= hlen h ->
  nth_error (hs h) (Z.to_nat (hpos h)) <> Some b_byte_lt ->
  wp (h5_call (S d) SData h) (Post (hpos h) (phi SData h) h).
Proof.
  intros H N. cbn [h5_call]. wp_go; try post; try stay.
  exfalso. apply N.
  destruct (index_byte_cases (skipn (Z.to_nat (hpos h)) (hs h)) b_byte_lt) as [[I _]|[_ I]]; [lia|].
  replace (index_byte (skipn (Z.to_nat (hpos h)) (hs h)) b_byte_lt) with 0 in I by lia.
  rewrite nth_skipn_0 in I by lia. exact I.
Qed.

(* SSelfClosingStartTag at '>' or at the end of input calls nothing *)
Lemma SSelfClosing_leaf_spec d h : 1 <= hpos h <= hlen h ->
  hpos h = hlen h \/ nth_error (hs h) (Z.to_nat (hpos h)) = Some b_byte_gt ->
  wp (h5_call (S d) SSelfClosingStartTag h) (Post (hpos h - 1) (phi SSelfClosingStartTag h) h).
Proof.
  intros H N. cbn [h5_call]. wp_go; try post; try stay.
  exfalso. destruct N as [N|N]; [lia|].
  match goal with H1 : nth_error _ _ = Some ?b, H2 : beq ?b _ = false |- _ =>
    rewrite N in H1; inversion H1; subst b; vm_compute in H2; discriminate H2 end.
Qed.

(* ---------- stateBeforeAttributeName ---------- *)

Definition ban_post (h0 : h5) (o : ban_out) : Prop :=
  match o with
  | BanDone r => Post (hpos h0) (phi SBeforeAttributeName h0) h0 r
  | BanCall f h2 =>
      hs h2 = hs h0 /\ frame h0 h2 /\
      ((f = SAttributeName /\ hpos h2 < hlen h0) \/
       (f = SSelfClosingStartTag /\ hpos h0 + 1 <= hpos h2 /\
        (hpos h2 = hlen h0 \/ nth_error (hs h2) (Z.to_nat (hpos h2)) = Some b_byte_gt)))
  end.

Lemma ban_post_mono h h2 o :
  hs h2 = hs h -> frame h h2 -> ban_post h2 o -> ban_post h o.
Proof.
  intros E (F1 & F2 & F3 & F4). destruct o as [r|f h3]; cbn [ban_post].
  - apply Post_mono; try assumption; try lia. unfold phi, hlen. rewrite E. lia.
  - unfold frame, hlen. rewrite E. intuition (try congruence; try lia).
Qed.

Lemma ban_loop_spec fuel : forall h,
  0 <= hpos h <= hlen h -> hlen h - hpos h < Z.of_nat fuel ->
  wp (before_attr_name_loop fuel h) (ban_post h).
Proof.
  induction fuel as [|fuel IH]; intros h H1 H2; cbn [before_attr_name_loop]; [lia|].
  destruct (hpos h <? hlen h) eqn:E.
  2:{ apply wp_Ok. cbn [ban_post]. stay. }
  apply wp_bind. eapply wp_conseq; [apply skip_white_spec; lia|].
  intros [ch h2] (p & E2 & Hp & Hch). cbn [fst snd] in *. subst h2.

  wp_go.

  - cbn [ban_post]. stay.
  - eapply wp_conseq; [apply IH; side|]. intros o. apply ban_post_mono; [reflexivity|].
    unfold frame; simp_h. splits; try reflexivity; lia.
  - cbn [ban_post]. unfold frame. simp_h. consts. splits; try reflexivity; try lia.
    right. splits; try reflexivity; try lia. right.
    match goal with H : nth_error _ _ = Some ?b, H' : negb (beq ?b _) = false |- _ =>
      apply negb_false_iff, beq_eq in H'; subst b; exact H end.
  - cbn [ban_post]. unfold frame. simp_h. consts. splits; try reflexivity; try lia.
    right. splits; try reflexivity; try lia.
  - cbn [ban_post]. post.
  - cbn [ban_post]. unfold frame. simp_h. consts. splits; try reflexivity; try lia.
    left. splits; try reflexivity; try lia.
Qed.


Lemma h5_call_BAN d h :
  h5_call (S d) SBeforeAttributeName h =
  bind (before_attr_name_loop (loop_fuel h) h)
       (fun r => match r with BanDone r => Ok r | BanCall f h => h5_call d f h end).
Proof. reflexivity. Qed.

Lemma phi_frame f g h h2 : hs h2 = hs h -> hpos h <= hpos h2 -> credit g <= credit f -> phi g h2 <= phi f h.
Proof. intros E H C. unfold phi, hlen. rewrite E. lia. Qed.

Lemma SBeforeAttributeName_spec d h : 0 <= hpos h <= hlen h ->
  wp (h5_call (S (S d)) SBeforeAttributeName h) (Post (hpos h) (phi SBeforeAttributeName h) h).
Proof.
  intros H. rewrite h5_call_BAN. apply wp_bind.
  eapply wp_conseq; [apply ban_loop_spec; [lia|apply loop_fuel_enough; lia]|].
  intros [r|f h2]; cbn [ban_post].
  - intros P. apply wp_Ok. exact P.
  - unfold frame. intros (E & (F1 & F2 & F3 & F4) & [[-> L]|(-> & L1 & L2)]).
    + eapply wp_conseq; [apply SAttributeName_spec; unfold hlen in *; rewrite E; lia|].
      intros r. apply Post_mono; try assumption; try lia. apply phi_frame; [assumption|lia|cbn [credit]; lia].
    + eapply wp_conseq; [apply SSelfClosing_leaf_spec; unfold hlen in *; rewrite E; [lia|rewrite E in L2; exact L2]|].
      intros r. apply Post_mono; try assumption; try lia. apply phi_frame; [assumption|lia|cbn [credit]; lia].
Qed.


(* unfold one level of h5_call, keeping the callee depth abstract *)
Ltac open_call :=
  match goal with
  | |- wp (h5_call (S ?d) _ _) _ =>
      let d2 := fresh "dd" in let E := fresh "Edd" in
      remember d as d2 eqn:E; cbn [h5_call]; subst d2
  end.

Ltac call L :=
  eapply wp_conseq;
  [ apply L; side
  | let r := fresh "r" in
    intros r; apply Post_mono; simp_h; try reflexivity;
    try (unfold phi; simp_h; cbn [credit]; consts; lia) ].

Lemma SSelfClosing_spec d h : 1 <= hpos h <= hlen h ->
  wp (h5_call (S (S (S d))) SSelfClosingStartTag h) (Post (hpos h - 1) (phi SSelfClosingStartTag h) h).
Proof.
  intros H. open_call. wp_go; try post; try stay.
  call SBeforeAttributeName_spec.
Qed.

Lemma SAfterAttributeValueQuoted_spec d h : 0 <= hpos h <= hlen h ->
  wp (h5_call (S (S (S (S d)))) SAfterAttributeValueQuoted h) (Post (hpos h) (phi SAfterAttributeValueQuoted h) h).
Proof.
  intros H. open_call. wp_go; try post; try stay.
  - call (SBeforeAttributeName_spec (S d)).
  - call SSelfClosing_spec.
  - call (SBeforeAttributeName_spec (S d)).
Qed.


(* callee specs of the shape  fst r = true /\ Post ... *)
Ltac call2 L :=
  eapply wp_conseq;
  [ apply L; try reflexivity; side
  | let r := fresh "r" in let P := fresh "P" in
    intros r [_ P]; revert P; apply Post_mono; simp_h; try reflexivity;
    try (unfold phi; simp_h; cbn [credit]; consts; lia) ].

Ltac after_skip_white H :=
  apply wp_bind; eapply wp_conseq; [apply skip_white_spec; exact H|];
  let ch := fresh "ch" in let h2 := fresh "h2" in let p := fresh "p" in
  let E := fresh "E" in let Hp := fresh "Hp" in let Hch := fresh "Hch" in
  intros [ch h2] (p & E & Hp & Hch); cbn [fst snd] in E, Hch; subst h2.

Ltac stop_ok :=
  solve [unfold Post, h5_ok; simp_h; consts; split; [reflexivity|left; cbn [st_ok]; lia]].

Lemma SBeforeAttributeValue_spec d h : 0 <= hpos h <= hlen h ->
  wp (h5_call (S (S d)) SBeforeAttributeValue h) (Post (hpos h) (phi SBeforeAttributeValue h) h).
Proof.
  intros H. open_call. after_skip_white H. wp_go; try stop_ok.
  - call2 (SQuote_spec d SAttributeValueDoubleQuote).
  - call2 (SQuote_spec d SAttributeValueSingleQuote).
  - call2 (SQuote_spec d SAttributeValueBackQuote).
  - call SAttributeValueNoQuote_spec.
Qed.

Lemma SAfterAttributeName_spec d h : 0 <= hpos h <= hlen h ->
  wp (h5_call (S (S (S (S d)))) SAfterAttributeName h) (Post (hpos h) (phi SAfterAttributeName h) h).
Proof.
  intros H. open_call. after_skip_white H. wp_go; try stay.
  - call SSelfClosing_spec.
  - call (SBeforeAttributeValue_spec (S d)).
  - call2 (STagNameClose_spec (S (S d))).
  - call (SAttributeName_spec (S (S d))).
Qed.

Lemma SMarkupDeclarationOpen_spec d h : 0 <= hpos h <= hlen h ->
  wp (h5_call (S (S d)) SMarkupDeclarationOpen h) (Post (hpos h) (phi SMarkupDeclarationOpen h) h).
Proof.
  intros H. open_call. wp_go.

  - call SDoctype_spec.
  - call SCData_spec.
  - call SComment_spec.
  - call SBogusComment_spec.
  - call SComment_spec.
  - call SBogusComment_spec.
  - call SBogusComment_spec.
Qed.

Lemma SEndTagOpen_spec d h : 0 <= hpos h <= hlen h ->
  wp (h5_call (S (S d)) SEndTagOpen h) (Post (hpos h) (phi SEndTagOpen h) h).
Proof.
  intros H. open_call. wp_go; try stay.
  - eapply wp_conseq.
    + apply SData_leaf_spec; [side|].
      match goal with H1 : nth_error _ _ = Some ?b, H2 : beq ?b _ = true |- _ =>
        rewrite H1; intros N; inversion N; subst b; vm_compute in H2; discriminate H2 end.
    + intros r; apply Post_mono; simp_h; try reflexivity; try (unfold phi; simp_h; cbn [credit]; lia).
  - call STagName_spec.
  - call SBogusComment_spec.
Qed.

Lemma STagOpen_spec d h : 1 <= hpos h <= hlen h ->
  wp (h5_call (S (S (S d))) STagOpen h) (Post (hpos h - 1) (phi STagOpen h) h).
Proof.
  intros H. open_call. wp_go; try stay; try post.
  - call SMarkupDeclarationOpen_spec.
  - call SEndTagOpen_spec.
  - call SBogusComment_spec.
  - call SBogusComment2_spec.
  - call STagName_spec.
  - call STagName_spec.
Qed.


Lemma SData_spec d h : 0 <= hpos h <= hlen h ->
  wp (h5_call (S (S (S (S d)))) SData h) (Post (hpos h) (phi SData h) h).
Proof.
  intros H. open_call. wp_go; try stay; try post.
  eapply wp_conseq; [apply STagOpen_spec; side|].
  intros [more h']. unfold Post, frame, h5_ok, Phi, phi. simp_h. cbn [credit].
  intros [P1 P2]. split; [exact P1|]. destruct more; [destruct P2 as (A1 & A2 & A3 & A4 & A5); rewrite P1 in *; splits; try assumption; lia|].
  left. destruct P2 as [P2|(F1 & F2 & F3 & F4)]; [exact P2|].
  rewrite F1. cbn [st_ok]. rewrite P1. lia.
Qed.


(* ---------- one step of the tokenizer ---------- *)

Definition next_post (h : h5) (r : bool * h5) : Prop :=
  let '(more, h') := r in
  hs h' = hs h /\ h5_ok h' /\
  (more = true ->
   0 <= tok_off h' /\ 0 <= tok_len h' /\ tok_off h' + tok_len h' <= hlen h' /\
   tok_off h + tok_len h <= tok_off h' /\ Phi h' + 1 <= Phi h).

Lemma ok_frame h h' :
  h5_ok h -> hs h' = hs h -> frame h h' -> is_quote (hstate h) = false -> hstate h <> STagNameClose ->
  h5_ok h'.
Proof.
  unfold h5_ok, frame, hlen. intros K E (F1 & F2 & F3 & F4) Q T. rewrite E, F1, F3, F4.
  destruct (hstate h); cbn [st_ok] in *; try discriminate Q; try congruence; lia.
Qed.

Lemma next_final h lo r :
  0 <= lo -> tok_off h + tok_len h <= lo ->
  (fst r = false -> hs (snd r) = hs h -> frame h (snd r) -> h5_ok (snd r)) ->
  Post lo (Phi h) h r -> next_post h r.
Proof.
  destruct r as [more h']. unfold Post, next_post. cbn [fst snd]. intros L0 L F [P1 P2].
  split; [exact P1|]. destruct more.
  - destruct P2 as (A1 & A2 & A3 & A4 & A5). split; [exact A4|]. intros _. unfold hlen in *. rewrite P1. lia.
  - split; [|discriminate]. destruct P2 as [P2|P2]; [exact P2|]. apply F; [reflexivity|exact P1|exact P2].
Qed.

Ltac fin h ST FR L lo :=
  eapply wp_conseq;
  [ apply L; lia
  | let r := fresh "r" in let P := fresh "P" in
    intros r P; apply (next_final h lo);
    [ lia | lia | apply FR; [reflexivity|discriminate] | unfold Phi; rewrite ST; exact P ] ].

Ltac fin2 h ST L lo :=
  eapply wp_conseq;
  [ apply L; try reflexivity; lia
  | let r := fresh "r" in let P := fresh "P" in let T := fresh "T" in let T' := fresh "T" in
    intros r [T P]; apply (next_final h lo);
    [ lia | lia | intros T'; rewrite T in T'; discriminate T'
    | unfold Phi; rewrite ST; exact P ] ].

(* call depth 4 is enough for every state function on every input *)
Lemma h5_call_spec d h : h5_ok h -> wp (h5_call (S (S (S (S d)))) (hstate h) h) (next_post h).
Proof.
  intros K.
  assert (FR : is_quote (hstate h) = false -> hstate h <> STagNameClose ->
               forall r : bool * h5, fst r = false -> hs (snd r) = hs h -> frame h (snd r) -> h5_ok (snd r)).
  { intros Q T r _ E F. eapply ok_frame; eassumption. }
  unfold h5_ok in K. unfold Phi in *.
  destruct (hstate h) eqn:ST; cbn [st_ok] in K.
  - fin h ST FR (SEOF_spec (S (S (S d))) h (Z.max 0 (tok_off h + tok_len h)) (phi SEOF h)) (Z.max 0 (tok_off h + tok_len h)).
  - fin h ST FR SData_spec (hpos h).
  - fin h ST FR STagOpen_spec (hpos h - 1).
  - fin h ST FR SEndTagOpen_spec (hpos h).
  - fin h ST FR SMarkupDeclarationOpen_spec (hpos h).
  - fin h ST FR SBogusComment_spec (hpos h).
  - fin h ST FR SBogusComment2_spec (hpos h).
  - fin h ST FR SComment_spec (hpos h).
  - fin h ST FR SCData_spec (hpos h).
  - fin h ST FR SDoctype_spec (hpos h).
  - fin h ST FR STagName_spec (hpos h).
  - fin2 h ST STagNameClose_spec (hpos h).
  - fin h ST FR SSelfClosing_spec (hpos h - 1).
  - fin h ST FR SBeforeAttributeName_spec (hpos h).
  - fin h ST FR SAttributeName_spec (hpos h).
  - fin h ST FR SAfterAttributeName_spec (hpos h).
  - fin h ST FR SBeforeAttributeValue_spec (hpos h).
  - fin h ST FR SAttributeValueNoQuote_spec (hpos h).
  - fin2 h ST SQuote_spec (hpos h).
  - fin2 h ST SQuote_spec (hpos h).
  - fin2 h ST SQuote_spec (hpos h).
  - fin h ST FR SAfterAttributeValueQuoted_spec (hpos h).
Qed.

(* GOAL 1: one step of the tokenizer never fails; h5_depth = 8 >= 4 *)
Lemma h5_next_spec h : h5_ok h -> wp (h5_next h) (next_post h).
Proof. intros K. unfold h5_next, h5_depth. apply (h5_call_spec 4 h K). Qed.

(* the same statement with next_post unfolded *)
Lemma h5_next_spec' h : h5_ok h ->
  wp (h5_next h) (fun r => let '(more, h') := r in
       hs h' = hs h /\ h5_ok h' /\
       (more = true -> 0 <= tok_off h' /\ 0 <= tok_len h' /\ tok_off h' + tok_len h' <= hlen h' /\
                       tok_off h + tok_len h <= tok_off h' /\ Phi h' + 1 <= Phi h)).
Proof. exact (h5_next_spec h). Qed.

(* the constant call-depth budget is enough: the deepest chain of direct calls has 4 frames *)
Corollary h5_next_total h : h5_ok h -> exists r, h5_next h = Ok r /\ next_post h r.
Proof. intros K. apply wp_inv, h5_next_spec, K. Qed.

(* ---------- the token loop ---------- *)

Lemma Phi_nonneg h : h5_ok h -> 0 <= Phi h.
Proof. unfold h5_ok, Phi, phi. destruct (hstate h); cbn [st_ok credit]; lia. Qed.

Definition tok_in (n : Z) (t : Z * Z * Z) : Prop :=
  let '(_, off, ln) := t in 0 <= off /\ 0 <= ln /\ off + ln <= n.

(* every token starts at or after the end of its predecessor; e is the end of the token before the list *)
Fixpoint chain (e : Z) (l : list (Z * Z * Z)) : Prop :=
  match l with
  | [] => True
  | (_, o, ln) :: l' => e <= o /\ chain (o + ln) l'
  end.

Lemma h5_tokens_loop_spec fuel : forall h acc,
  h5_ok h -> Phi h < Z.of_nat fuel ->
  exists l', h5_tokens_loop fuel h acc = Ok (rev acc ++ l') /\
             Forall (tok_in (hlen h)) l' /\ chain (tok_off h + tok_len h) l' /\
             Z.of_nat (List.length l') <= Phi h.
Proof.
  induction fuel as [|fuel IH]; intros h acc K F; [pose proof (Phi_nonneg h K); lia|].
  cbn [h5_tokens_loop].
  destruct (h5_next_total h K) as [[more h'] [E (P1 & P2 & P3)]]. rewrite E. cbn [bind].
  destruct more.
  - destruct (P3 eq_refl) as (A1 & A2 & A3 & A4 & A5).
    destruct (IH h' ((tok_type h', tok_off h', tok_len h') :: acc) P2 ltac:(lia)) as [l' (L1 & L2 & L3 & L4)].
    exists ((tok_type h', tok_off h', tok_len h') :: l'). splits.
    + rewrite L1. cbn [rev]. rewrite <- app_assoc. reflexivity.
    + assert (EL : hlen h' = hlen h) by (unfold hlen; rewrite P1; reflexivity).
      rewrite EL in *. constructor; [cbn [tok_in]; lia|exact L2].
    + cbn [chain]. split; [lia|exact L3].
    + cbn [List.length]. lia.
  - exists []. rewrite app_nil_r. pose proof (Phi_nonneg h K). splits; [reflexivity|constructor|exact I|cbn [List.length]; lia].
Qed.

Lemma h5_init_ok s fl : 0 <= fl <= 4 -> h5_ok (h5_init s fl) /\ Phi (h5_init s fl) <= len s + 1.
Proof.
  intros H. pose proof (len_nonneg s).
  assert (C : fl = 0 \/ fl = 1 \/ fl = 2 \/ fl = 3 \/ fl = 4) by lia.
  unfold h5_ok, Phi, phi, hlen.
  destruct C as [->|[->|[->|[->| ->]]]]; cbn; lia.
Qed.

(* consecutive tokens do not overlap and come in input order *)
Fixpoint tok_ordered (l : list (Z * Z * Z)) : Prop :=
  match l with
  | [] => True
  | (_, o1, l1) :: l' =>
      match l' with [] => True | (_, o2, _) :: _ => o1 + l1 <= o2 end /\ tok_ordered l'
  end.

Lemma chain_ordered : forall l e, chain e l -> tok_ordered l.
Proof.
  induction l as [|[[ty o] ln] l IH]; intros e C; cbn [tok_ordered]; [exact I|].
  cbn [chain] in C. destruct C as [_ C]. split; [|exact (IH _ C)].
  destruct l as [|[[ty2 o2] ln2] l]; [exact I|]. cbn [chain] in C. tauto.
Qed.

Lemma tok_ordered_nth : forall l i ty1 o1 l1 ty2 o2 l2,
  tok_ordered l -> nth_error l i = Some (ty1, o1, l1) -> nth_error l (S i) = Some (ty2, o2, l2) ->
  o1 + l1 <= o2.
Proof.
  induction l as [|[[ty o] ln] l IH]; intros i ty1 o1 l1 ty2 o2 l2 T N1 N2; [destruct i; discriminate|].
  cbn [tok_ordered] in T. destruct T as [T1 T2]. destruct i as [|i].
  - cbn [nth_error] in N1, N2. inversion N1; subst. destruct l as [|[[ty3 o3] ln3] l]; [discriminate|].
    cbn [nth_error] in N2. inversion N2; subst. exact T1.
  - cbn [nth_error] in N1. exact (IH i _ _ _ _ _ _ T2 N1 N2).
Qed.

(* GOAL 2, with the sharp count |s|+1 *)
Theorem h5_tokens_spec_sharp : forall s fl, 0 <= fl <= 4 ->
  exists l, h5_tokens s fl = Ok l /\
    Forall (fun '(ty, off, ln) => 0 <= off /\ 0 <= ln /\ off + ln <= len s) l /\
    tok_ordered l /\
    (List.length l <= S (List.length s))%nat.
Proof.
  intros s fl H. destruct (h5_init_ok s fl H) as [K B]. unfold h5_tokens.
  destruct (h5_tokens_loop_spec (h5_fuel s) (h5_init s fl) [] K) as [l (L1 & L2 & L3 & L4)].
  { unfold h5_fuel. unfold len in B. lia. }
  exists l. cbn [rev app] in L1. splits.
  - exact L1.
  - eapply Forall_impl; [|exact L2]. intros [[ty off] ln]. unfold tok_in, hlen, h5_init. cbn [hs]. tauto.
  - eapply chain_ordered; exact L3.
  - unfold len in B. lia.
Qed.

Theorem h5_tokens_spec : forall s fl, 0 <= fl <= 4 ->
  exists l, h5_tokens s fl = Ok l /\
    Forall (fun '(ty, off, ln) => 0 <= off /\ 0 <= ln /\ off + ln <= len s) l /\
    tok_ordered l /\
    (List.length l <= 2 * List.length s + 4)%nat.
Proof.
  intros s fl H. destruct (h5_tokens_spec_sharp s fl H) as [l (A & B & C & D)].
  exists l. splits; try assumption. lia.
Qed.

Print Assumptions h5_next_spec.
Print Assumptions h5_tokens_spec_sharp.
Print Assumptions h5_tokens_spec.
