(* ShapeFold: the folder (Ref's engine, Spec/RefSqlFold.v) over a token source
   that delivers only "plain text" tokens (Proofs/ShapeRules.v: `gtok`), an
   operator or unknown-class token being allowed as the very last token only.

   On such a stream exactly one rewrite rule ever fires:  value , value -> value.
   The result of the fold is a list of one to five such tokens in which an
   operator / unknown token can only be the last one.  Stated over an abstract
   source (`Rem s l`: the source state s will deliver tokens of the classes l,
   all `gtok`), so that it is proved once for the three shapes of C14b. *)
From Coq Require Import List ZArith String Bool Lia ZifyBool.
From Coq.Strings Require Import Byte.
From LI Require Import Prelude Base SqliLex Proofs.BaseFacts Spec.RefSqlFold Proofs.ShapeRules.
From LIGen Require Import Consts.
Import ListNotations.
Local Open Scope nat_scope.

(* what the fold returns *)
Definition Out (w : list token) : Prop :=
  Forall gtok w /\ chk (map t_cat w) = true /\ 1 <= List.length w <= 5.

Section Engine.
  Context {Src : Type} (src : source Src) (Rem : Src -> list byte -> Prop).
  Context (next_cons : forall s c l, Rem s (c :: l) ->
             exists t s', next src s = (Some t, s') /\ gtok t /\ t_cat t = c /\ Rem s' l).
  Context (next_nil : forall s, Rem s [] -> exists s', next src s = (None, s') /\ Rem s' []).

  Notation rst := (@rstate Src).

  (* the loop invariant: r is the folder state, l the classes still to come *)
  Definition J (r : rst) (l : list byte) : Prop :=
    Forall gtok (r_win r) /\ chk (map t_cat (r_win r) ++ l) = true /\
    Rem (r_src r) l /\ r_cmt r = None /\
    r_left r <= List.length (r_win r) /\ 1 <= List.length (r_win r) <= 6 /\
    (r_more r = false -> l = []) /\
    (r_left r = List.length (r_win r) -> r_more r = false \/ 5 <= r_left r).

  Definition mu (r : rst) (l : list byte) : nat :=
    8 * (List.length (r_win r) + List.length l) + (7 - r_left r).

  Lemma refill_spec fuel want : forall (r : rst) l,
    J r l -> r_left r + want <= List.length (r_win r) + fuel ->
    exists l', let r' := refill src fuel want r in
      J r' l' /\ r_left r' = r_left r /\
      List.length (r_win r) + List.length l = List.length (r_win r') + List.length l' /\
      List.length (r_win r) <= List.length (r_win r') /\
      (r_more r' = false \/ 5 < List.length (r_win r') \/ want <= List.length (r_win r') - r_left r').
  Proof.
    induction fuel as [|fuel IH]; intros r l HJ Hf; cbn [refill].
    - exists l. cbv zeta. repeat split; try apply HJ; try lia.
    - unfold max_tokens.
      destruct (r_more r && (List.length (r_win r) <=? 5) && (List.length (r_win r) - r_left r <? want)) eqn:C.
      2:{ exists l. cbv zeta. repeat split; try apply HJ; try lia. }
      apply andb_true_iff in C. destruct C as [C C3]. apply andb_true_iff in C. destruct C as [C1 C2].
      destruct HJ as (Hg & Hc & Hr & Hm & Hl & Hn & Hmore & Hend).
      destruct l as [|c l'].
      + destruct (next_nil _ Hr) as (s' & -> & Hr'). exists []. cbv zeta. cbn [r_src r_win r_left r_more r_cmt].
        unfold J. cbn [r_src r_win r_left r_more r_cmt]. repeat split; auto; lia.
      + destruct (next_cons _ _ _ Hr) as (t & s' & -> & Gt & Ct & Hr').
        assert (Ac : anyc c = true) by (apply chk_app_r in Hc; eapply chk_head; exact Hc).
        assert (Ecm : in_class t [cCmt] = false).
        { unfold in_class. rewrite Ct.
          destruct (anyc_cases _ Ac) as [N|[->| ->]]; [|reflexivity|reflexivity].
          destruct (nfc_cases _ N) as [->|[->|[->| ->]]]; reflexivity. }
        rewrite Ecm.
        destruct (IH (mkR s' (r_win r ++ [t]) (r_left r) true None) l') as (l2 & A1 & A2 & A3 & A4 & A5).
        * unfold J. cbn [r_src r_win r_left r_more r_cmt]. rewrite app_length. cbn [List.length].
          repeat split; try lia; try discriminate.
          -- apply Forall_app. split; [exact Hg|constructor; [exact Gt|constructor]].
          -- rewrite map_app, <- app_assoc. cbn [map app]. rewrite Ct. exact Hc.
          -- exact Hr'.
        * cbn [r_win r_left]. rewrite app_length. cbn [List.length]. lia.
        * exists l2. cbv zeta in *. cbn [r_src r_win r_left r_more r_cmt] in A2, A3, A4.
          rewrite app_length in A3, A4. cbn [List.length] in A3, A4 |- *.
          split; [exact A1|]. repeat split; try assumption; lia.
  Qed.

  Lemma squeeze5_id (r : rst) l : J r l -> squeeze5 r = r.
  Proof. intros HJ. unfold squeeze5. rewrite five_none by apply HJ. reflexivity. Qed.


  Lemma J_settle (r : rst) l :
    J r l -> (r_more r = false \/ 5 <= List.length (r_win r)) -> J (settle r) l.
  Proof.
    unfold J, settle. cbn [r_src r_win r_left r_more r_cmt].
    intros (Hg & Hc & Hr & Hm & Hl & Hn & Hmore & Hend) H. repeat split; auto; lia.
  Qed.

  Lemma chk_win3 A (a b c : token) tl l :
    chk (map t_cat (A ++ a :: b :: c :: tl) ++ l) = true ->
    nfc (t_cat a) = true /\ nfc (t_cat b) = true /\ anyc (t_cat c) = true.
  Proof.
    rewrite map_app, <- app_assoc. cbn [map app]. intros H. apply chk_app_r in H.
    pose proof H as H1. rewrite chk_cons2 in H1. apply andb_true_iff in H1. destruct H1 as [H1 H2].
    pose proof H2 as H3. rewrite chk_cons2 in H3. apply andb_true_iff in H3. destruct H3 as [H3 H4].
    apply chk_head in H4. auto.
  Qed.

  Lemma chk_win2 A (a b : token) tl l :
    chk (map t_cat (A ++ a :: b :: tl) ++ l) = true -> nfc (t_cat a) = true.
  Proof.
    rewrite map_app, <- app_assoc. cbn [map app]. intros H. apply chk_app_r in H.
    rewrite chk_cons2 in H. apply andb_true_iff in H. tauto.
  Qed.

  (* one iteration of the main loop *)
  Lemma iter_spec fuel (r : rst) l : 3 <= fuel -> J r l ->
    match iter src fuel r with
    | Go r' => exists l', J r' l' /\ mu r' l' < mu r l
    | Done w s' => Out w /\ exists l', Rem s' l'
    end.
  Proof.
    intros Hf HJ. unfold iter. rewrite (squeeze5_id r l HJ). unfold unless_done, max_tokens.
    destruct (negb (r_more r) || (5 <=? r_left r)) eqn:E.
    - (* the end *)
      unfold finish. destruct HJ as (Hg & Hc & Hr & Hm & Hl & Hn & Hmore & Hend). rewrite Hm. unfold max_tokens.
      split; [|exists l; exact Hr]. unfold Out. split; [apply Forall_firstn'; exact Hg|]. split.
      + apply chk_app_l in Hc. rewrite <- (firstn_skipn 5 (r_win r)), map_app in Hc.
        apply chk_app_l in Hc. exact Hc.
      + rewrite firstn_length. lia.
    - apply orb_false_iff in E. destruct E as [Em El]. apply negb_false_iff in Em.
      assert (Hlt : r_left r < List.length (r_win r)).
      { destruct HJ as (_ & _ & _ & _ & Hl & _ & _ & Hend).
        destruct (Nat.eq_dec (r_left r) (List.length (r_win r))) as [e|e]; [|lia].
        destruct (Hend e) as [K|K]; [congruence|lia]. }
      destruct (refill_spec fuel 2 r l HJ ltac:(lia)) as (l1 & J1 & L1 & S1 & W1 & P1). cbv zeta in *.
      set (r1 := refill src fuel 2 r) in *. clearbody r1.
      unfold with_two.
      destruct (List.length (r_win r1) - r_left r1 <? 2) eqn:E2.
      + exists l1. split.
        * apply J_settle; [exact J1|]. destruct P1 as [P|[P|P]]; [auto|right; lia|lia].
        * unfold mu, settle. cbn [r_win r_left]. lia.
      + destruct (split2 (r_win r1) (r_left r1) ltac:(lia)) as (A & a & b & tl & Ew & La).
        pose proof J1 as (Hg1 & Hc1 & _).
        assert (Ga : gtok a /\ gtok b).
        { rewrite Ew in Hg1. apply Forall_app in Hg1. destruct Hg1 as [_ Hg1].
          inversion Hg1 as [|? ? Ga Hg2]; subst. inversion Hg2; subst. auto. }
        destruct Ga as [Ga Gb].
        assert (Na : nfc (t_cat a) = true) by (rewrite Ew in Hc1; eapply chk_win2; exact Hc1).
        rewrite (rules2_through src r1 A a b tl Ew (eq_sym La) Ga Gb Na). cbn [after_rules2].
        unfold three.
        destruct (refill_spec fuel 3 r1 l1 J1 ltac:(lia)) as (l2 & J2 & L2 & S2 & W2 & P2). cbv zeta in *.
        set (r2 := refill src fuel 3 r1) in *. clearbody r2.
        destruct (List.length (r_win r2) - r_left r2 <? 3) eqn:E3.
        * exists l2. split.
          -- apply J_settle; [exact J2|]. destruct P2 as [P|[P|P]]; [auto|right; lia|lia].
          -- unfold mu, settle. cbn [r_win r_left]. lia.
        * destruct (split3 (r_win r2) (r_left r2) ltac:(lia)) as (A' & a' & b' & c' & tl' & Ew' & La').
          pose proof J2 as (Hg2 & Hc2 & Hr2 & Hm2 & Hl2 & Hn2 & Hmore2 & Hend2).
          destruct (chk_win3 A' a' b' c' tl' l2 ltac:(rewrite <- Ew'; exact Hc2)) as (Na' & Nb' & Ac').
          rewrite (rules3_step src r2 A' a' b' c' tl' Ew' (eq_sym La') Na' Nb' Ac').
          destruct (valc (t_cat a') && beq (t_cat b') cComma && valc (t_cat c')).
          -- (* value , value: the last two tokens go *)
             assert (G2 : 2 <= List.length (r_win r2)) by (clear - E3; lia).
             destruct (pop2_split (r_win r2) G2) as (x & y & Ep).
             assert (Lp : List.length (r_win r2) = List.length (pop 2 (r_win r2)) + 2).
             { rewrite Ep at 1. rewrite app_length. reflexivity. }
             exists l2. split.
             ++ unfold J. cbn [r_src r_win r_left r_more r_cmt].
                split; [unfold pop; apply Forall_firstn'; exact Hg2|].
                split; [rewrite Ep, map_app, <- app_assoc in Hc2; cbn [map app] in Hc2; eapply chk_cut2; exact Hc2|].
                split; [exact Hr2|]. split; [exact Hm2|].
                clear - Lp Hl2 Hn2 Hmore2 E3.
                split; [lia|]. split; [lia|]. split; [exact Hmore2|]. intros Q. exfalso. lia.
             ++ unfold mu. cbn [r_win r_left]. clear - Lp Hl2 Hn2 E3 L1 L2 S1 S2 W1 W2 Hlt El. lia.
          -- exists l2. split.
             ++ unfold J. cbn [r_src r_win r_left r_more r_cmt].
                split; [exact Hg2|]. split; [exact Hc2|]. split; [exact Hr2|]. split; [exact Hm2|].
                clear - Hl2 Hn2 Hmore2 E3.
                split; [lia|]. split; [lia|]. split; [exact Hmore2|]. intros Q. exfalso. lia.
             ++ unfold mu. cbn [r_win r_left]. clear - Hl2 Hn2 E3 L1 L2 S1 S2 W1 W2 Hlt El. lia.
  Qed.

  Lemma run_spec fuel : 3 <= fuel -> forall k (r : rst) l, J r l -> mu r l < k ->
    exists w s' l', run src k fuel r = Some (w, s') /\ Out w /\ Rem s' l'.
  Proof.
    intros Hf. induction k as [|k IH]; intros r l HJ Hk; [lia|].
    cbn [run]. pose proof (iter_spec fuel r l Hf HJ) as I.
    destruct (iter src fuel r) as [r'|w s'].
    - destruct I as (l' & J' & M). apply (IH r' l' J'). lia.
    - destruct I as (O & l' & R). exists w, s', l'. auto.
  Qed.

  (* THE FOLD LEMMA.  The source will deliver tokens of the classes c :: l, the
     first of which is n 1 v or , and an operator / unknown class can only be
     the last one: the fold returns one to five of these tokens, with the same
     property, and leaves the source in a state of the same kind. *)
  Theorem ref_fold_shape bound s0 c l :
    Rem s0 (c :: l) -> nfc c = true -> chk (c :: l) = true ->
    3 <= bound -> List.length (c :: l) <= bound ->
    exists w s' l', ref_fold src bound s0 = (w, s') /\ Out w /\ Rem s' l'.
  Proof.
    intros Hr Nc Hc Hb Hlen. unfold ref_fold. destruct bound as [|b]; [lia|]. cbn [skip].
    destruct (next_cons _ _ _ Hr) as (t & s1 & -> & Gt & Ct & Hr1).
    assert (E : tmatch p_leading t = false).
    { apply tmatch_excl. rewrite Ct. destruct (nfc_cases _ Nc) as [->|[->|[->| ->]]]; reflexivity. }
    rewrite E.
    destruct (run_spec (S b) Hb (256 * S (S b)) (mkR s1 [t] 0 true None) l) as (w & s' & l' & -> & O & R).
    - unfold J. cbn [r_src r_win r_left r_more r_cmt List.length]. repeat split; try lia; try discriminate.
      + constructor; [exact Gt|constructor].
      + cbn [map app]. rewrite Ct. exact Hc.
      + exact Hr1.
    - unfold mu. cbn [r_win r_left List.length]. cbn [List.length] in Hlen. lia.
    - exists w, s', l'. auto.
  Qed.
End Engine.
