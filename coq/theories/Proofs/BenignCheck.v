(* BenignCheck: from the fold lemma to the verdict.  The fingerprint of a benign
   input is a string of 1..5 characters over {n, 1}; no such string is a
   blacklisted fingerprint (a sweep over the 62 candidates); the first pass of
   `check` therefore does not fire, no comment counter asks for the MySQL
   re-parse, and the input holds no quote, so no further pass runs. *)
From Coq Require Import List ZArith String Bool Lia ZifyBool.
From Coq.Strings Require Import Byte.
From LI Require Import Prelude Base SqliLex SqliFold Proofs.BaseFacts Proofs.Wp Proofs.LexBase
  Spec.BenignSpec Proofs.BenignLex Proofs.BenignTok Proofs.BenignFold.
From LIGen Require Import Tables Dispatch Consts.
Import ListNotations.
Local Open Scope Z_scope.

(* ---------- the candidate fingerprints ---------- *)

Definition n1_char (c : byte) : Prop := c = c1 \/ c = cW.

Fixpoint n1_strings (k : nat) : list bytes :=
  match k with
  | O => [[]]
  | S k' => flat_map (fun s => [cW :: s; c1 :: s]) (n1_strings k')
  end.

Lemma in_n1_strings fp : Forall n1_char fp -> In fp (n1_strings (List.length fp)).
Proof.
  induction 1 as [|c fp Hc Hfp IH]; cbn [n1_strings List.length]; [left; reflexivity|].
  apply in_flat_map. exists fp. split; [exact IH|]. destruct Hc as [->| ->]; cbn; auto.
Qed.

Lemma blacklist_sweep :
  forallb (fun k => forallb (fun fp => negb (blacklist fp)) (n1_strings k)) [1; 2; 3; 4; 5]%nat = true.
Proof. vm_compute. reflexivity. Qed.

Lemma blacklist_n1 fp : Forall n1_char fp -> (1 <= List.length fp <= 5)%nat -> blacklist fp = false.
Proof.
  intros H L. pose proof (in_n1_strings fp H) as I. pose proof blacklist_sweep as S.
  rewrite forallb_forall in S.
  assert (K : In (List.length fp) [1; 2; 3; 4; 5]%nat) by (cbn; lia).
  specialize (S _ K). rewrite forallb_forall in S. specialize (S _ I). apply negb_true_iff in S. exact S.
Qed.

(* ---------- fingerprint ---------- *)

Lemma fp_loop_benign w : forall acc, Forall btok w -> fp_loop w acc = Some (rev acc ++ map t_cat w).
Proof.
  induction w as [|t w IH]; intros acc H; cbn [fp_loop map]; [rewrite app_nil_r; reflexivity|].
  inversion H as [|t' w' Bt Hw]; subst. unfold cat_is.
  assert (E : beq (t_cat t) b_sqli_token_type_evil = false) by (destruct (btok_cat t Bt) as [->| ->]; reflexivity).
  rewrite E, IH by exact Hw. cbn [rev]. rewrite <- app_assoc. reflexivity.
Qed.

Lemma btok_n1 w : Forall btok w -> Forall n1_char (map t_cat w).
Proof. induction 1 as [|t w Bt Hw IH]; cbn [map]; constructor; [exact (btok_cat t Bt)|exact IH]. Qed.

Definition no_quote_flags (fl : Z) : Prop :=
  Z.land fl (Z.lor c_sqli_flag_quote_single c_sqli_flag_quote_double) = 0 /\ fl <> 0.

Lemma sqli_fingerprint_benign s fl :
  Benign (input s) -> no_quote_flags fl ->
  wp (sqli_fingerprint s fl)
     (fun x => let '(fp, w, s') := x in
               blacklist fp = false /\ input s' = input s /\ n_ddx (st s') = 0 /\ n_hash (st s') = 0).
Proof.
  intros HB [Hq H0]. pose proof (benign_plain _ HB) as Hpl. destruct HB as (items & Hne & Hit & Ej).
  unfold sqli_fingerprint, reset. apply wp_bind. eapply wp_conseq.
  - apply (fold_benign (input s) fl (sqli_init (input s) fl) items); try assumption.
    + reflexivity.
    + unfold sqli_init. destruct (fl =? 0) eqn:E; [lia|reflexivity].
    + reflexivity.
    + reflexivity.
    + reflexivity.
    + rewrite <- Ej. apply lex_inv_init; assumption.
  - intros [w s'] (Hs' & Hw & Hn). cbv beta iota.
    assert (G : wp (w0 <- Ok w ;;
                    match fp_loop w0 [] with
                    | Some fp => Ok (fp, w0, s')
                    | None =>
                        t0 <- wget "sqliFingerprint:tokenVec[0]" w0 0 ;;
                        let t1 := mkTok (t_pos t0) (t_len t0) (t_count t0) b_sqli_token_type_evil (t_open t0) (t_close t0)
                                        [b_sqli_token_type_evil] in
                        w1 <- wset "sqliFingerprint:tokenVec[0]" w0 0 t1 ;;
                        Ok ([b_sqli_token_type_evil], w1, s')
                    end)
                   (fun x => let '(fp, w, s') := x in
                             blacklist fp = false /\ input s' = input s /\ n_ddx (st s') = 0 /\ n_hash (st s') = 0)).
    { cbn [bind]. rewrite fp_loop_benign by exact Hw. cbn [rev app]. apply wp_Ok.
      destruct Hs' as (A1 & A2 & A3 & A4 & _). splits; try assumption.
      apply blacklist_n1; [apply btok_n1; exact Hw|]. rewrite map_length. unfold wlen in Hn. lia. }
    destruct (2 <? wlen w) eqn:E2; [|exact G].
    destruct (wget_ok btok w (wlen w - 1) Hw ltac:(lia)) as (lt & El & Bl).
    rewrite El. cbn [bind]. unfold cat_is. destruct Bl as [Ho Bl]. rewrite Ho.
    change b_byte_tick with x60. eval_beq. rewrite andb_false_r. cbn [andb]. exact G.
Qed.

(* ---------- check ---------- *)

Lemma index_byte_absent s c : forallb (fun b => negb (beq b c)) s = true -> index_byte s c = -1.
Proof.
  induction s as [|b s IH]; cbn [forallb index_byte]; intros H; [reflexivity|].
  apply andb_true_iff in H. destruct H as [Hb Hs]. apply negb_true_iff in Hb. rewrite Hb, IH by exact Hs. reflexivity.
Qed.

Lemma plain_no_quote s : forallb plain s = true ->
  index_byte s b_byte_single = -1 /\ index_byte s b_byte_double = -1.
Proof.
  intros H. change b_byte_single with x27. change b_byte_double with x22.
  split; apply index_byte_absent; (eapply forallb_impl; [|exact H]); intros b Hb;
    apply plain_facts in Hb; destruct Hb as (Q1 & Q2 & _); rewrite ?Q1, ?Q2; reflexivity.
Qed.

Lemma check_benign s : Benign (input s) -> check s = Ok (false, []).
Proof.
  intros HB. pose proof (benign_plain _ HB) as Hpl.
  destruct (plain_no_quote _ Hpl) as [Qs Qd].
  assert (Hlen : slen s =? 0 = false).
  { destruct HB as (items & Hne & Hit & Ej). destruct items as [|w l]; [congruence|].
    inversion Hit as [|w0 l0 Hw _]; subst. destruct (item_word_bytes w Hw) as [_ Lw].
    unfold slen. rewrite Ej, join_sp_cons, len_app. pose proof (len_nonneg (sp_tail l)). lia. }
  unfold check. rewrite Hlen.
  assert (Hfl : no_quote_flags (Z.lor c_sqli_flag_quote_none c_sqli_flag_sqlansi)) by (split; [reflexivity|discriminate]).
  destruct (wp_inv _ _ (sqli_fingerprint_benign s _ HB Hfl)) as [[[fp w] s'] [E (Hb & Hi & Hd & Hh)]].
  rewrite E. cbn [bind]. unfold check_fingerprint. rewrite Hb. cbn [bind].
  unfold reparse_as_mysql. rewrite Hd, Hh. cbn [Z.eqb negb orb]. rewrite Hi, Qs, Qd. reflexivity.
Qed.

(* C14 for the model *)
Theorem benign_never_sqli s : Benign s -> is_sqli s = Ok (false, []).
Proof.
  intros HB. unfold is_sqli. rewrite check_benign by exact HB. reflexivity.
Qed.


(* ---------- the family is decidable: benign_dec decides Benign ---------- *)

Lemma word_byte_not_sp b : is_word_byte b = true -> negb (beq b x20) = true.
Proof.
  revert b. assert (S : forall b, negb (is_word_byte b) || negb (beq b x20) = true)
    by (apply byte_sweep; vm_compute; reflexivity).
  intros b H. specialize (S b). rewrite H in S. exact S.
Qed.

Lemma item_nosp w : benign_item w = true -> forallb (fun b => negb (beq b x20)) w = true.
Proof.
  intros H. apply item_word_bytes in H. destruct H as [H _]. eapply forallb_impl; [|exact H].
  apply word_byte_not_sp.
Qed.

Lemma split_join_sp l : l <> [] -> Items l -> split_sp (join_sp l) = l.
Proof.
  intros Hne H. induction H as [|w l Hw Hl IH]; [congruence|].
  destruct l as [|w' l'].
  - cbn [join_sp]. apply split_sp_nosp, item_nosp, Hw.
  - change (join_sp (w :: w' :: l')) with (w ++ x20 :: join_sp (w' :: l')).
    rewrite split_sp_app by (apply item_nosp, Hw). rewrite IH by discriminate. reflexivity.
Qed.

Lemma benign_dec_complete s : Benign s -> benign_dec s = true.
Proof.
  intros (items & Hne & Hit & ->). unfold benign_dec. rewrite split_join_sp by assumption.
  apply forallb_forall. rewrite Forall_forall in Hit. exact Hit.
Qed.

Theorem benign_dec_iff s : Benign s <-> benign_dec s = true.
Proof. split; [apply benign_dec_complete|apply benign_dec_sound]. Qed.
