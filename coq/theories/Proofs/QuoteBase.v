(* QuoteBase: the SQL scanner is invariant under putting one byte in front of
   the input (C12, clause b).

   A scanner state over  q :: x  standing at offset p + 1 and a state over  x
   standing at offset p are twins when they carry the same statistics and their
   flags agree on the two dialect bits.  Every lexer maps twins to twins, returns
   a resume offset that is larger by one, and writes the same token except that
   its position is larger by one.  No lexer looks to the left of the offset it is
   started at, and none uses an absolute offset.

   All statements have the shape "if the run over x returns Ok r then the run
   over q :: x returns Ok r' with r' ~ r" (simR); totality of the model turns
   them into equations at the end (Properties/C12b.v). *)
From Coq Require Import List ZArith String Bool Lia ZifyBool.
From Coq.Strings Require Import Byte.
From LI Require Import Prelude Base SqliLex Proofs.BaseFacts Proofs.Wp Proofs.LexBase Proofs.LexSpec.
From LIGen Require Import Tables Dispatch Consts.
Import ListNotations.
Local Open Scope Z_scope.

(* ---------- one-directional simulation of two computations ---------- *)

(* m1: the run over q :: x;  m2: the run over x *)
Definition simR {A B} (R : A -> B -> Prop) (m1 : res A) (m2 : res B) : Prop :=
  forall a2, m2 = Ok a2 -> exists a1, m1 = Ok a1 /\ R a1 a2.

Lemma simR_ret {A B} (R : A -> B -> Prop) a1 a2 : R a1 a2 -> simR R (Ok a1) (Ok a2).
Proof. intros H x E. inversion E; subst. eauto. Qed.

Lemma simR_bind {A B C D} (R : A -> B -> Prop) (Q : C -> D -> Prop) m1 m2 k1 k2 :
  simR R m1 m2 ->
  (forall a1 a2, R a1 a2 -> m2 = Ok a2 -> simR Q (k1 a1) (k2 a2)) ->
  simR Q (bind m1 k1) (bind m2 k2).
Proof.
  intros H1 H2 x E. inv_bind E. destruct (H1 _ E0) as [a1 [E1 Ra]]. rewrite E1. cbn [bind].
  exact (H2 a1 a Ra E0 x E).
Qed.

Lemma simR_fail_stack {A B} (R : A -> B -> Prop) m1 : simR R m1 StackOverflow.
Proof. intros x E. discriminate E. Qed.
Lemma simR_fail_fuel {A B} (R : A -> B -> Prop) m1 : simR R m1 OutOfFuel.
Proof. intros x E. discriminate E. Qed.
Lemma simR_fail_panic {A B} (R : A -> B -> Prop) m1 site : simR R m1 (Panic site).
Proof. intros x E. discriminate E. Qed.

Lemma bind_assoc {A B C} (m : res A) (f : A -> res B) (g : B -> res C) :
  bind (bind m f) g = bind m (fun x => bind (f x) g).
Proof. destruct m; reflexivity. Qed.

Lemma simR_refl {A} (m : res A) : simR eq m m.
Proof. intros x E. eauto. Qed.

Lemma simR_eq {A} (m1 m2 : res A) : m1 = m2 -> simR eq m1 m2.
Proof. intros ->. apply simR_refl. Qed.

Lemma simR_conseq {A B} (R R' : A -> B -> Prop) m1 m2 :
  simR R m1 m2 -> (forall a b, R a b -> R' a b) -> simR R' m1 m2.
Proof. intros H HR x E. destruct (H x E) as [a [E1 Ra]]. eauto. Qed.

(* the continuation may use what the run over x is known to satisfy *)
Lemma simR_wlp {A B} (R : A -> B -> Prop) (P : B -> Prop) m1 m2 :
  simR R m1 m2 -> wlp m2 P -> simR (fun a b => R a b /\ P b) m1 m2.
Proof. intros H W x E. destruct (H x E) as [a [E1 Ra]]. exists a. auto. Qed.

(* ---------- the checked primitives under a one-byte shift ---------- *)

Lemma drop_cons site (q : byte) s i r : drop site s i = Ok r -> drop site (q :: s) (i + 1) = Ok r.
Proof.
  intros E. apply drop_Ok_inv in E. destruct E as [R ->].
  rewrite drop_ok by (rewrite len_cons; lia).
  replace (Z.to_nat (i + 1)) with (S (Z.to_nat i)) by lia. reflexivity.
Qed.

Lemma get_cons site (q : byte) s i b : get site s i = Ok b -> get site (q :: s) (i + 1) = Ok b.
Proof.
  intros E. apply get_Ok_inv in E. destruct E as [R N].
  unfold get. destruct (0 <=? i + 1) eqn:E0; [|lia].
  replace (Z.to_nat (i + 1)) with (S (Z.to_nat i)) by lia. cbn [nth_error]. rewrite N. reflexivity.
Qed.

Lemma slice_cons site (q : byte) s i j r : slice site s i j = Ok r -> slice site (q :: s) (i + 1) (j + 1) = Ok r.
Proof.
  intros E. apply slice_Ok_inv in E. destruct E as (R1 & R2 & ->).
  rewrite slice_ok by (try rewrite len_cons; lia).
  replace (Z.to_nat (i + 1)) with (S (Z.to_nat i)) by lia.
  replace (j + 1 - (i + 1)) with (j - i) by lia. reflexivity.
Qed.

Lemma sim_drop {C D} (Q : C -> D -> Prop) site (q : byte) s i1 i2 k1 k2 :
  i1 = i2 + 1 ->
  (0 <= i2 <= len s -> simR Q (k1 (skipn (Z.to_nat i2) s)) (k2 (skipn (Z.to_nat i2) s))) ->
  simR Q (bind (drop site (q :: s) i1) k1) (bind (drop site s i2) k2).
Proof.
  intros -> H x E. inv_bind E. rewrite (drop_cons _ _ _ _ _ E0). cbn [bind].
  apply drop_Ok_inv in E0. destruct E0 as [R ->]. exact (H R x E).
Qed.

Lemma sim_get {C D} (Q : C -> D -> Prop) site (q : byte) s i1 i2 k1 k2 :
  i1 = i2 + 1 ->
  (forall b, 0 <= i2 < len s -> nth_error s (Z.to_nat i2) = Some b -> simR Q (k1 b) (k2 b)) ->
  simR Q (bind (get site (q :: s) i1) k1) (bind (get site s i2) k2).
Proof.
  intros -> H x E. inv_bind E. rewrite (get_cons _ _ _ _ _ E0). cbn [bind].
  apply get_Ok_inv in E0. destruct E0 as [R N]. exact (H a R N x E).
Qed.

Lemma sim_slice {C D} (Q : C -> D -> Prop) site (q : byte) s i1 i2 j1 j2 k1 k2 :
  i1 = i2 + 1 -> j1 = j2 + 1 ->
  (0 <= i2 <= j2 -> j2 <= len s ->
   simR Q (k1 (firstn (Z.to_nat (j2 - i2)) (skipn (Z.to_nat i2) s)))
          (k2 (firstn (Z.to_nat (j2 - i2)) (skipn (Z.to_nat i2) s)))) ->
  simR Q (bind (slice site (q :: s) i1 j1) k1) (bind (slice site s i2 j2) k2).
Proof.
  intros -> -> H x E. inv_bind E. rewrite (slice_cons _ _ _ _ _ _ E0). cbn [bind].
  apply slice_Ok_inv in E0. destruct E0 as (R1 & R2 & ->). exact (H R1 R2 x E).
Qed.

Lemma simR_drop_eq site (q : byte) s i1 i2 : i1 = i2 + 1 ->
  simR eq (drop site (q :: s) i1) (drop site s i2).
Proof. intros -> x E. exists x. split; [apply drop_cons; exact E|reflexivity]. Qed.

Lemma simR_get_eq site (q : byte) s i1 i2 : i1 = i2 + 1 ->
  simR eq (get site (q :: s) i1) (get site s i2).
Proof. intros -> x E. exists x. split; [apply get_cons; exact E|reflexivity]. Qed.

(* assign: same class, same length, same source; the position and the fields
   inherited from the old token may differ *)
Lemma sim_assign {C D} (Q : C -> D -> Prop) tq tx ty pq px lq lx v kq kx :
  lq = lx ->
  (forall last w,
     simR Q (kq (mkTok pq last (t_count tq) ty (t_open tq) (t_close tq) w))
            (kx (mkTok px last (t_count tx) ty (t_open tx) (t_close tx) w))) ->
  simR Q (bind (assign tq ty pq lq v) kq) (bind (assign tx ty px lx v) kx).
Proof.
  intros -> H a E. unfold assign in *.
  destruct (take "assign" v (if lx <? c_token_size then lx else c_token_size - 1)) as [w| | |];
    cbn [bind] in *; try discriminate E.
  exact (H _ w a E).
Qed.

(* ---------- tokens and states ---------- *)

(* equal up to the position *)
Definition teq (t1 t2 : token) : Prop :=
  t_len t1 = t_len t2 /\ t_count t1 = t_count t2 /\ t_cat t1 = t_cat t2 /\
  t_open t1 = t_open t2 /\ t_close t1 = t_close t2 /\ t_val t1 = t_val t2.

(* the token slot of the two runs: equal up to the position, and once a lexer has
   written it (non-zero class) the position over q :: x is larger by one *)
Definition trel (tq tx : token) : Prop :=
  teq tq tx /\ (t_cat tx = x00 \/ t_pos tq = t_pos tx + 1).

Definition shift_tok (t : token) : token :=
  mkTok (t_pos t + 1) (t_len t) (t_count t) (t_cat t) (t_open t) (t_close t) (t_val t).

Lemma trel_shift tq tx : trel tq tx -> t_cat tx <> x00 -> tq = shift_tok tx.
Proof.
  destruct tq as [p1 l1 c1 k1 o1 cl1 v1], tx as [p2 l2 c2 k2 o2 cl2 v2]. unfold trel, teq, shift_tok. cbn [t_pos t_len t_count t_cat t_open t_close t_val].
  intros ((A & B & C & D & E & F) & [G|G]) H; [contradiction|]. subst. reflexivity.
Qed.

Lemma trel_refl t : t_cat t = x00 -> trel t t.
Proof. intros H. unfold trel, teq. splits; auto. Qed.

Lemma trel_of_shift t : trel (shift_tok t) t.
Proof. unfold trel, teq, shift_tok. cbn [t_pos t_len t_count t_cat t_open t_close t_val]. splits; auto. Qed.

(* the dialect bits: the only flags a lexer reads *)
Definition dial (f1 f2 : Z) : Prop :=
  Z.land f1 c_sqli_flag_sqlansi = Z.land f2 c_sqli_flag_sqlansi /\
  Z.land f1 c_sqli_flag_sqlmysql = Z.land f2 c_sqli_flag_sqlmysql.

Section Shift.

Context (q : byte) (f1 f2 : Z) (Hdial : dial f1 f2).

Definition twin (sq sx : sqlst) : Prop :=
  input sq = q :: input sx /\ flags sq = f1 /\ flags sx = f2 /\
  pos sq = pos sx + 1 /\ st sq = st sx.

(* related results of a lexer *)
Definition relL (rq rx : sqlst * token * Z) : Prop :=
  twin (fst (fst rq)) (fst (fst rx)) /\ trel (snd (fst rq)) (snd (fst rx)) /\ snd rq = snd rx + 1.

(* the same with a token that was certainly written *)
Definition tsh (tq tx : token) : Prop := teq tq tx /\ t_pos tq = t_pos tx + 1.

Lemma tsh_trel tq tx : tsh tq tx -> trel tq tx.
Proof. intros [A B]. split; auto. Qed.

Definition relLs (rq rx : sqlst * token * Z) : Prop :=
  twin (fst (fst rq)) (fst (fst rx)) /\ tsh (snd (fst rq)) (snd (fst rx)) /\ snd rq = snd rx + 1.

Lemma relLs_relL rq rx : relLs rq rx -> relL rq rx.
Proof. intros (A & B & C). split; [exact A|]. split; [apply tsh_trel; exact B|exact C]. Qed.

(* ---------- tactics ---------- *)

Ltac simp :=
  simp_st; unfold has_flag; cbn [flags]; rewrite ?len_cons in *;
  rewrite ?(proj1 Hdial), ?(proj2 Hdial).

Ltac sside := simp; note_facts; norm_len; split_ifs; lia.

Ltac use_dial :=
  unfold has_flag; cbn [flags];
  rewrite ?(proj1 Hdial), ?(proj2 Hdial).

Ltac trel_tac :=
  unfold trel, teq; simp; splits; try reflexivity; try assumption; try (right; lia); try (left; assumption).

Ltac leaf0 :=
  split_ifs; unfold relL, relLs, twin, tsh; cbn [fst snd]; simp; splits; try reflexivity; try lia; try trel_tac; try (split_ifs; lia).

Ltac leaf := lazymatch goal with |- simR _ _ _ => fail | _ => solve [leaf0] end.

Ltac sim_step :=
  lazymatch goal with
  | |- simR _ (Ok _) (Ok _) => apply simR_ret; try leaf
  | |- simR _ _ StackOverflow => apply simR_fail_stack
  | |- simR _ _ OutOfFuel => apply simR_fail_fuel
  | |- simR _ _ (Panic _) => apply simR_fail_panic
  | |- simR _ (bind (drop _ (_ :: ?s) _) _) (bind (drop _ ?s _) _) => apply sim_drop; [sside | intros ?]
  | |- simR _ (bind (get _ (_ :: ?s) _) _) (bind (get _ ?s _) _) => apply sim_get; [sside | intros ? ? ?]
  | |- simR _ (bind (slice _ (_ :: ?s) _ _) _) (bind (slice _ ?s _ _) _) => apply sim_slice; [sside | sside | intros ? ?]
  | |- simR _ (bind (assign _ _ _ _ _) _) (bind (assign _ _ _ _ _) _) => apply sim_assign; [sside | intros ? ?]
  | |- simR _ (bind (Ok _) _) (bind (Ok _) _) => cbn [bind]
  | |- simR eq (str_len_cspn ?r ?l1 ?a) (str_len_cspn ?r ?l2 ?a) =>
      apply simR_eq; f_equal; sside
  | |- simR eq (str_len_spn ?r ?l1 ?a) (str_len_spn ?r ?l2 ?a) =>
      apply simR_eq; f_equal; sside
  | |- simR eq ?m ?m => apply simR_refl
  | |- simR eq (drop _ _ _) (drop _ _ _) => apply simR_drop_eq; sside
  | |- simR eq (get _ _ _) (get _ _ _) => apply simR_get_eq; sside
  | |- simR _ (if ?c1 then _ else _) (if ?c2 then _ else _) =>
      first [ constr_eq c1 c2; destruct c1 eqn:?
            | destruct c1 eqn:?; destruct c2 eqn:?; try (exfalso; sside) ]
  | |- simR _ (bind (parse_string_core _ _ _ _ _ _) _) _ => fail
  | |- simR _ (bind (string_core_loop _ _ _ _ _) _) _ => fail
  | |- simR _ (bind (parse_string _ _) _) _ => fail
  | |- simR _ (bind (parse_tick _ _) _) _ => fail
  | |- simR _ (bind (run_parser _ _ _) _) _ => fail
  | |- simR _ (bind _ _) (bind _ _) =>
      eapply simR_bind with (R := eq); [ | intros ? ? ? _; subst ]
  end.

Ltac split_vars :=
  repeat match goal with |- context [if ?b then _ else _] => is_var b; destruct b end.

Ltac sim_go := simp; split_vars; repeat (sim_step; simp; split_vars).

Ltac start_lexer L :=
  intros x pq px stt tq tx Hp Ht; subst pq;
  destruct tq as [pq0 lq0 cq0 kq0 oq0 clq0 vq0], tx as [px0 lx0 cx0 kx0 ox0 clx0 vx0];
  unfold trel, teq in Ht; cbn [t_pos t_len t_count t_cat t_open t_close t_val] in Ht;
  destruct Ht as ((? & ? & ? & ? & ? & ?) & Ht); subst;
  unfold L, at_, input_from; use_dial.

(* ---------- the simple lexers ---------- *)

Lemma parse_white_sim : forall x pq px stt tq tx, pq = px + 1 -> trel tq tx ->
  simR relL (parse_white (mkSt (q :: x) f1 pq stt) tq) (parse_white (mkSt x f2 px stt) tx).
Proof. start_lexer parse_white. sim_go. Qed.

Lemma parse_other_sim : forall x pq px stt tq tx, pq = px + 1 -> trel tq tx ->
  simR relL (parse_other (mkSt (q :: x) f1 pq stt) tq) (parse_other (mkSt x f2 px stt) tx).
Proof. start_lexer parse_other. sim_go. Qed.

Lemma parse_operator1_sim : forall x pq px stt tq tx, pq = px + 1 -> trel tq tx ->
  simR relL (parse_operator1 (mkSt (q :: x) f1 pq stt) tq) (parse_operator1 (mkSt x f2 px stt) tx).
Proof. start_lexer parse_operator1. sim_go. Qed.

Lemma parse_byte_sim : forall x pq px stt tq tx, pq = px + 1 -> trel tq tx ->
  simR relL (parse_byte (mkSt (q :: x) f1 pq stt) tq) (parse_byte (mkSt x f2 px stt) tx).
Proof. start_lexer parse_byte. sim_go. Qed.

Ltac call L := apply L; [sside | first [assumption | trel_tac]].

Lemma parse_eol_comment_sim : forall x pq px stt tq tx, pq = px + 1 -> trel tq tx ->
  simR relL (parse_eol_comment (mkSt (q :: x) f1 pq stt) tq) (parse_eol_comment (mkSt x f2 px stt) tx).
Proof. start_lexer parse_eol_comment. sim_go. Qed.

Lemma parse_hash_sim : forall x pq px stt tq tx, pq = px + 1 -> trel tq tx ->
  simR relL (parse_hash (mkSt (q :: x) f1 pq stt) tq) (parse_hash (mkSt x f2 px stt) tx).
Proof. start_lexer parse_hash. sim_go; try leaf0. call parse_eol_comment_sim. Qed.

Lemma parse_dash_sim : forall x pq px stt tq tx, pq = px + 1 -> trel tq tx ->
  simR relL (parse_dash (mkSt (q :: x) f1 pq stt) tq) (parse_dash (mkSt x f2 px stt) tx).
Proof. start_lexer parse_dash. sim_go; call parse_eol_comment_sim. Qed.

Lemma parse_backslash_sim : forall x pq px stt tq tx, pq = px + 1 -> trel tq tx ->
  simR relL (parse_backslash (mkSt (q :: x) f1 pq stt) tq) (parse_backslash (mkSt x f2 px stt) tx).
Proof. start_lexer parse_backslash. sim_go. Qed.

Lemma parse_bword_sim : forall x pq px stt tq tx, pq = px + 1 -> trel tq tx ->
  simR relL (parse_bword (mkSt (q :: x) f1 pq stt) tq) (parse_bword (mkSt x f2 px stt) tx).
Proof. start_lexer parse_bword. sim_go. Qed.

Lemma parse_slash_sim : forall x pq px stt tq tx, pq = px + 1 -> trel tq tx ->
  simR relL (parse_slash (mkSt (q :: x) f1 pq stt) tq) (parse_slash (mkSt x f2 px stt) tx).
Proof.
  start_lexer parse_slash. unfold is_mysql_comment. sim_go; try (call parse_operator1_sim).

Qed.

Lemma parse_operator2_sim : forall x pq px stt tq tx, pq = px + 1 -> trel tq tx ->
  simR relL (parse_operator2 (mkSt (q :: x) f1 pq stt) tq) (parse_operator2 (mkSt x f2 px stt) tx).
Proof. start_lexer parse_operator2. sim_go; try (call parse_operator1_sim). Qed.

(* ---------- parseStringCore ---------- *)

Definition relO (rq rx : option Z) : Prop :=
  match rq, rx with
  | Some a, Some b => a = b + 1
  | None, None => True
  | _, _ => False
  end.

Lemma string_core_loop_sim x d : forall fuelx fuelq, (fuelx <= fuelq)%nat ->
  forall startq startx kq kx, startq = startx + 1 -> kq = kx + 1 ->
  simR relO (string_core_loop fuelq (q :: x) startq kq d) (string_core_loop fuelx x startx kx d).
Proof.
  induction fuelx as [|fuelx IH]; intros fuelq F startq startx kq kx -> ->; [apply simR_fail_fuel|].
  destruct fuelq as [|fuelq]; [lia|]. cbn [string_core_loop]. sim_go; try (apply IH; lia).
  all: cbn [relO]; try exact I; lia.
Qed.

(* related results of parse_string_core: the resume offset and the position are
   larger by one; the opening mark is the one each call computes from its offset *)
Definition relS (tq tx : token) (offq offx : Z) (d : byte) (rq rx : token * Z) : Prop :=
  snd rq = snd rx + 1 /\
  t_pos (fst rq) = t_pos (fst rx) + 1 /\ t_len (fst rq) = t_len (fst rx) /\
  t_cat (fst rq) = b_sqli_token_type_string /\ t_cat (fst rx) = b_sqli_token_type_string /\
  t_close (fst rq) = t_close (fst rx) /\ t_val (fst rq) = t_val (fst rx) /\
  t_count (fst rq) = t_count tq /\ t_count (fst rx) = t_count tx /\
  t_open (fst rq) = (if 0 <? offq then d else x00) /\
  t_open (fst rx) = (if 0 <? offx then d else x00).

Lemma parse_string_core_sim tq tx x lq pq offq px offx d :
  lq = 1 + len x -> pq + offq = px + offx + 1 ->
  simR (relS tq tx offq offx d)
       (parse_string_core tq (q :: x) lq pq offq d) (parse_string_core tx x (len x) px offx d).
Proof.
  intros -> Hp. unfold parse_string_core. sim_go.
  eapply simR_bind; [apply string_core_loop_sim; [cbn [List.length]; lia|lia|lia]|].
  intros rq rx Ro _. sim_go. destruct rq as [aq|], rx as [ax|]; cbn [relO] in Ro; try contradiction.
  - subst aq. sim_go. unfold relS. simp. cbn [fst snd]. simp. splits; try reflexivity; lia.
  - sim_go. unfold relS. simp. cbn [fst snd]. simp. splits; try reflexivity; lia.
Qed.

Lemma relS_tsh tq tx off d rq rx :
  trel tq tx -> relS tq tx off off d rq rx -> tsh (fst rq) (fst rx).
Proof.
  intros ((A & B & C & D & E & F) & _) (R1 & R2 & R3 & R4 & R5 & R6 & R7 & R8 & R9 & R10 & R11).
  unfold tsh, teq. splits; congruence.
Qed.

Ltac str_core :=
  eapply simR_bind; [apply parse_string_core_sim; sside|];
  let tq' := fresh "tq'" in let npq := fresh "npq" in let tx' := fresh "tx'" in let npx := fresh "npx" in
  let RS := fresh "RS" in
  intros [tq' npq] [tx' npx] RS _.

Lemma parse_word_sim : forall x pq px stt tq tx, pq = px + 1 -> trel tq tx ->
  simR relL (parse_word (mkSt (q :: x) f1 pq stt) tq) (parse_word (mkSt x f2 px stt) tx).
Proof.
  start_lexer parse_word. sim_go.
  match goal with |- simR _ (match ?a with _ => _ end) _ => destruct a as [[i ch]|] end; sim_go.

Qed.

(* after str_core: name the fields of the two string tokens *)
Ltac str_open Ht :=
  match goal with RS : relS _ _ _ _ _ (?tq', _) (?tx', _) |- _ =>
    let T := fresh "T" in
    pose proof (relS_tsh _ _ _ _ _ _ Ht RS) as T; destruct RS as (?R1 & _); cbn [fst snd] in *;
    destruct tq' as [?pq0 ?lq0 ?cq0 ?kq0 ?oq0 ?clq0 ?vq0], tx' as [?px0 ?lx0 ?cx0 ?kx0 ?ox0 ?clx0 ?vx0];
    unfold tsh, teq in T; cbn [t_pos t_len t_count t_cat t_open t_close t_val] in T;
    destruct T as ((? & ? & ? & ? & ? & ?) & ?); subst
  end.

Lemma parse_string_sim_s : forall x pq px stt tq tx, pq = px + 1 -> trel tq tx ->
  simR relLs (parse_string (mkSt (q :: x) f1 pq stt) tq) (parse_string (mkSt x f2 px stt) tx).
Proof.
  intros x pq px stt tq tx -> Ht. unfold parse_string, at_. sim_go. str_core. str_open Ht. sim_go.
Qed.

Lemma parse_string_sim : forall x pq px stt tq tx, pq = px + 1 -> trel tq tx ->
  simR relL (parse_string (mkSt (q :: x) f1 pq stt) tq) (parse_string (mkSt x f2 px stt) tx).
Proof. intros. eapply simR_conseq; [apply parse_string_sim_s; assumption|apply relLs_relL]. Qed.

Lemma parse_estring_sim : forall x pq px stt tq tx, pq = px + 1 -> trel tq tx ->
  simR relL (parse_estring (mkSt (q :: x) f1 pq stt) tq) (parse_estring (mkSt x f2 px stt) tx).
Proof.
  intros x pq px stt tq tx -> Ht. unfold parse_estring, at_. sim_go.
  - call parse_word_sim.
  - str_core. str_open Ht. sim_go.
Qed.

Lemma parse_tick_sim_s : forall x pq px stt tq tx, pq = px + 1 -> trel tq tx ->
  simR relLs (parse_tick (mkSt (q :: x) f1 pq stt) tq) (parse_tick (mkSt x f2 px stt) tx).
Proof.
  intros x pq px stt tq tx -> Ht. unfold parse_tick. sim_go. str_core. str_open Ht. sim_go.
Qed.

Lemma parse_tick_sim : forall x pq px stt tq tx, pq = px + 1 -> trel tq tx ->
  simR relL (parse_tick (mkSt (q :: x) f1 pq stt) tq) (parse_tick (mkSt x f2 px stt) tx).
Proof. intros. eapply simR_conseq; [apply parse_tick_sim_s; assumption|apply relLs_relL]. Qed.

(* a lexer called in the middle of another one *)
Ltac lex_bind L :=
  eapply simR_bind; [apply L; [sside | first [assumption | trel_tac]]|];
  let RL := fresh "RL" in
  intros [[[?iq ?fq ?pq ?sq] [?pq0 ?lq0 ?cq0 ?kq0 ?oq0 ?clq0 ?vq0]] ?npq]
         [[[?ix ?fx ?px ?sx] [?px0 ?lx0 ?cx0 ?kx0 ?ox0 ?clx0 ?vx0]] ?npx] RL _;
  unfold relLs, twin, tsh, teq in RL; cbn [fst snd input flags pos st t_pos t_len t_count t_cat t_open t_close t_val] in RL;
  destruct RL as ((? & ? & ? & ? & ?) & ((? & ? & ? & ? & ? & ?) & ?) & ?); subst.

Lemma parse_var_sim : forall x pq px stt tq tx, pq = px + 1 -> trel tq tx ->
  simR relL (parse_var (mkSt (q :: x) f1 pq stt) tq) (parse_var (mkSt x f2 px stt) tx).
Proof.
  start_lexer parse_var. sim_go.
  all: try (lex_bind parse_tick_sim_s; sim_go).
  all: try (lex_bind parse_string_sim_s; sim_go).
Qed.

Lemma parse_ustring_sim : forall x pq px stt tq tx, pq = px + 1 -> trel tq tx ->
  simR relL (parse_ustring (mkSt (q :: x) f1 pq stt) tq) (parse_ustring (mkSt x f2 px stt) tx).
Proof.
  start_lexer parse_ustring. sim_go.
  all: try (lex_bind parse_string_sim_s; sim_go).
  all: try (call parse_word_sim).
Qed.

Lemma parse_qstring_core_sim off : forall x pq px stt tq tx, pq = px + 1 -> trel tq tx ->
  simR relL (parse_qstring_core off (mkSt (q :: x) f1 pq stt) tq) (parse_qstring_core off (mkSt x f2 px stt) tx).
Proof.
  start_lexer parse_qstring_core. sim_go.
  all: try (call parse_word_sim).
Qed.

Lemma parse_nqstring_sim : forall x pq px stt tq tx, pq = px + 1 -> trel tq tx ->
  simR relL (parse_nqstring (mkSt (q :: x) f1 pq stt) tq) (parse_nqstring (mkSt x f2 px stt) tx).
Proof.
  start_lexer parse_nqstring. sim_go.
  all: try (call parse_estring_sim).
  all: try (call parse_qstring_core_sim).
Qed.

Lemma parse_xb_string_sim digits : forall x pq px stt tq tx, pq = px + 1 -> trel tq tx ->
  simR relL (parse_xb_string digits (mkSt (q :: x) f1 pq stt) tq) (parse_xb_string digits (mkSt x f2 px stt) tx).
Proof.
  start_lexer parse_xb_string. sim_go.
  all: try (call parse_word_sim).
Qed.

Lemma parse_money_sim : forall x pq px stt tq tx, pq = px + 1 -> trel tq tx ->
  simR relL (parse_money (mkSt (q :: x) f1 pq stt) tq) (parse_money (mkSt x f2 px stt) tx).
Proof.
  start_lexer parse_money. sim_go.
  all: try (call parse_word_sim).




Qed.

Lemma parse_number_sim : forall x pq px stt tq tx, pq = px + 1 -> trel tq tx ->
  simR relL (parse_number (mkSt (q :: x) f1 pq stt) tq) (parse_number (mkSt x f2 px stt) tx).
Proof.
  start_lexer parse_number. simp. sim_step. simp. sim_step.
  { sim_go. }
  simp. destruct a2 as [|d0 ds].
  - (* decimal *)
    sim_step. simp. sim_step; [sim_go|]. simp.
    eapply simR_bind with (R := fun a1 a2 => a1 = a2 + 1); [sim_go; lia|intros ? frac ? _; subst].
    simp. sim_step; simp.
    + sim_go.
    + sim_step; [sim_go|]. simp.
      eapply simR_bind with (R := fun a1 a2 => fst a1 = fst a2 + 1 /\ snd a1 = snd a2).
      { sim_go; cbn [fst snd]; split; try reflexivity; lia. }
      intros [p1 he1] [p2 he2] [E1 E2] _. cbn [fst snd] in E1, E2. subst. simp.
      sim_step; [sim_go|]. simp.
      eapply simR_bind with (R := fun a1 a2 => a1 = a2 + 1); [sim_go; lia|intros ? p3 ? _; subst].
      sim_go.
  - sim_go.
Qed.



(* ---------- the dispatched lexer, tokenize ---------- *)

Lemma run_parser_sim id : forall x pq px stt tq tx, pq = px + 1 -> trel tq tx ->
  simR relL (run_parser id (mkSt (q :: x) f1 pq stt) tq) (run_parser id (mkSt x f2 px stt) tx).
Proof.
  destruct id; cbn [run_parser]; unfold parse_qstring, parse_xstring, parse_bstring.
  - apply parse_white_sim.
  - apply parse_operator1_sim.
  - apply parse_operator2_sim.
  - apply parse_string_sim.
  - apply parse_hash_sim.
  - apply parse_money_sim.
  - apply parse_byte_sim.
  - apply parse_dash_sim.
  - apply parse_number_sim.
  - apply parse_slash_sim.
  - apply parse_other_sim.
  - apply parse_var_sim.
  - apply parse_word_sim.
  - apply parse_xb_string_sim.
  - apply parse_estring_sim.
  - apply parse_nqstring_sim.
  - apply parse_qstring_core_sim.
  - apply parse_ustring_sim.
  - apply parse_xb_string_sim.
  - apply parse_bword_sim.
  - apply parse_backslash_sim.
  - apply parse_tick_sim.
Qed.

(* related results of tokenize: same `more`, twin states, and a reported token
   is the same token one byte further to the right *)
Definition relT (rq rx : bool * token * sqlst) : Prop :=
  fst (fst rq) = fst (fst rx) /\ twin (snd rq) (snd rx) /\
  (fst (fst rx) = true -> snd (fst rq) = shift_tok (snd (fst rx))).

Lemma tokenize_loop_sim : forall fuelx fuelq, (fuelx <= fuelq)%nat ->
  forall x pq px stt tq tx, pq = px + 1 -> trel tq tx ->
  simR relT (tokenize_loop fuelq (mkSt (q :: x) f1 pq stt) tq) (tokenize_loop fuelx (mkSt x f2 px stt) tx).
Proof.
  induction fuelx as [|fuelx IH]; intros fuelq F x pq px stt tq tx -> Ht.
  - cbn [tokenize_loop]. simp. destruct (px <? len x) eqn:E; [apply simR_fail_fuel|].
    destruct fuelq; cbn [tokenize_loop]; simp; (destruct (px + 1 <? 1 + len x) eqn:E2; [lia|]);
      apply simR_ret; unfold relT, twin; cbn [fst snd input flags pos st]; splits; auto; discriminate.
  - destruct fuelq as [|fuelq]; [lia|]. cbn [tokenize_loop]. unfold at_. sim_go.
    + eapply simR_bind; [apply run_parser_sim; [reflexivity|exact Ht]|].
      intros [[[iq fq pq sq] tq'] npq] [[[ix fx px' sx] tx'] npx] RL _.
      unfold relL, twin in RL. cbn [fst snd input flags pos st] in RL.
      destruct RL as ((? & ? & ? & ? & ?) & T & ?). subst.
      assert (Ec : t_cat tq' = t_cat tx') by (destruct T as ((_ & _ & C & _) & _); exact C).
      rewrite Ec. simp. destruct (negb (beq (t_cat tx') x00)) eqn:En.
      * apply simR_ret. unfold relT, twin, bump_tokens. simp. cbn [fst snd]. simp. splits; auto.
        intros _. apply trel_shift; [exact T|]. intros E0. rewrite E0 in En. discriminate En.
      * apply IH; [lia|reflexivity|exact T].
    + unfold relT, twin; cbn [fst snd input flags pos st]; splits; auto; discriminate.
Qed.



Lemma tokenize_sim sq sx cq cx : twin sq sx -> 1 <= pos sx ->
  simR relT (tokenize sq cq) (tokenize sx cx).
Proof.
  destruct sq as [iq fq pq stq], sx as [x fx px stx]. unfold twin. cbn [input flags pos st].
  intros (-> & -> & -> & -> & ->) Hp. unfold tokenize. simp.
  pose proof (len_nonneg x) as Hl.
  destruct (1 + len x =? 0) eqn:E0; [lia|].
  destruct (px + 1 =? 0) eqn:E1; [lia|]. destruct (px =? 0) eqn:E2; [lia|]. cbn [andb].
  destruct (len x =? 0) eqn:E3.
  - cbn [List.length tokenize_loop]. simp.
    destruct (px + 1 <? 1 + len x) eqn:E4; [lia|]. apply simR_ret. unfold relT, twin. cbn [fst snd input flags pos st].
    splits; auto. discriminate.
  - apply tokenize_loop_sim; [cbn [List.length]; lia|reflexivity|apply trel_refl; reflexivity].
Qed.

(* the first call: the virtual opening quote of the quote context against the
   real quote q in front of the input *)
Definition relT0 (rq rx : bool * token * sqlst) : Prop :=
  fst (fst rq) = true /\ fst (fst rx) = true /\ twin (snd rq) (snd rx) /\ 1 <= pos (snd rx) /\
  snd (fst rq) = set_open (shift_tok (snd (fst rx))) q /\
  t_cat (snd (fst rx)) = b_sqli_token_type_string /\ t_open (snd (fst rx)) = x00.

Lemma tokenize_first x stt cq cx :
  x <> [] ->
  Z.land f2 (Z.lor c_sqli_flag_quote_single c_sqli_flag_quote_double) <> 0 ->
  flag2delimiter f2 = q ->
  Z.land f1 (Z.lor c_sqli_flag_quote_single c_sqli_flag_quote_double) = 0 ->
  dispatch q = PString ->
  simR relT0 (tokenize (mkSt (q :: x) f1 0 stt) cq) (tokenize (mkSt x f2 0 stt) cx).
Proof.
  intros Hx Hf2 Hq Hf1 Hd. unfold tokenize. simp. pose proof (len_nonneg x) as Hl.
  assert (Lx : 1 <= len x) by (destruct x; [congruence|rewrite len_cons; pose proof (len_nonneg x); lia]).
  destruct (1 + len x =? 0) eqn:E0; [lia|]. destruct (len x =? 0) eqn:E1; [lia|].
  rewrite Hf1, Hq. change (0 =? 0) with true. cbn [andb negb].
  destruct (Z.land f2 (Z.lor c_sqli_flag_quote_single c_sqli_flag_quote_double) =? 0) eqn:E2; [lia|].
  cbn [negb]. cbn [List.length tokenize_loop]. simp.
  destruct (0 <? 1 + len x) eqn:E3; [|lia].
  unfold at_. cbn [input pos]. change (get "tokenize:input[pos]" (q :: x) 0) with (@Ok byte q). cbn [bind].
  rewrite Hd. cbn [run_parser]. unfold parse_string, at_. simp.
  change (get "parseString" (q :: x) 0) with (@Ok byte q). cbn [bind].
  rewrite bind_assoc.
  eapply simR_bind.
  { eapply simR_wlp; [apply (parse_string_core_sim tok0 tok0); [reflexivity|lia]|].
    apply wp_to_wlp. apply (parse_string_core_spec tok0 x 0 0 q); lia. }
  intros [tq' npq] [tx' npx] [RS SP] _.
  destruct RS as (R1 & R2 & R3 & R4 & R5 & R6 & R7 & R8 & R9 & R10 & R11).
  unfold str_post in SP. destruct SP as (S1 & S2 & _). cbn [fst snd] in *.
  cbn [bind]. cbv beta iota.
  replace (negb (beq (t_cat tq') x00)) with true by (rewrite R4; reflexivity). cbv iota.
  apply simR_ret. unfold relT0, twin, bump_tokens. simp. cbn [fst snd]. simp.
  change (0 <? 1) with true in R10. change (0 <? 0) with false in R11. cbv iota in R10, R11.
  splits; try reflexivity; try assumption; try lia.
  destruct tq' as [a1 a2 a3 a4 a5 a6 a7], tx' as [b1 b2 b3 b4 b5 b6 b7]. unfold shift_tok. cbn [t_pos t_len t_count t_cat t_open t_close t_val] in *.
  subst. reflexivity.
Qed.




(* ---------- the whole scan ---------- *)

Definition shift_rec (r : token * Z * Z) : token * Z * Z :=
  let '(t, b, a) := r in (shift_tok t, b + 1, a + 1).

Definition relTs (rq rx : list (token * Z * Z) * sqlst) (accq accx : list (token * Z * Z)) : Prop :=
  exists l, fst rx = rev accx ++ l /\ fst rq = rev accq ++ map shift_rec l /\ twin (snd rq) (snd rx).

Lemma tokens_loop_sim : forall fuelx fuelq, (fuelx <= fuelq)%nat ->
  forall sq sx accq accx, twin sq sx -> 1 <= pos sx <= slen sx ->
  simR (fun rq rx => relTs rq rx accq accx) (tokens_loop fuelq sq accq) (tokens_loop fuelx sx accx).
Proof.
  induction fuelx as [|fuelx IH]; intros fuelq F sq sx accq accx T Hp; [apply simR_fail_fuel|].
  destruct fuelq as [|fuelq]; [lia|]. cbn [tokens_loop].
  eapply simR_bind.
  { eapply simR_wlp; [apply tokenize_sim; [exact T|lia]|].
    apply wp_to_wlp. apply (tokenize_spec sx tok0). unfold st_wf. lia. }
  intros [[mq tq] sq'] [[mx tx] sx'] [(R1 & R2 & R3) P] _. cbn [fst snd] in *. subst mq.
  destruct P as (P1 & P2 & P3 & P4 & P5 & P6).
  destruct mx.
  - specialize (R3 eq_refl). subst tq.
    eapply simR_conseq.
    { apply (IH fuelq ltac:(lia) sq' sx' ((shift_tok tx, pos sq, pos sq') :: accq) ((tx, pos sx, pos sx') :: accx) R2).
      unfold slen in *. rewrite P1. lia. }
    intros [lq sq2] [lx sx2] (l & L1 & L2 & L3). cbn [fst snd] in *.
    exists ((tx, pos sx, pos sx') :: l). cbn [fst snd]. splits; [| |exact L3].
    + rewrite L1. cbn [rev]. rewrite <- app_assoc. reflexivity.
    + rewrite L2. cbn [rev map shift_rec]. rewrite <- app_assoc. cbn [app].
      destruct T as (_ & _ & _ & T4 & _). destruct R2 as (_ & _ & _ & R4 & _). rewrite T4, R4. reflexivity.
  - apply simR_ret. exists []. cbn [fst snd map]. rewrite !app_nil_r. auto.
Qed.

End Shift.

Print Assumptions tokens_loop_sim.

