(* ShiftPrefix: C13 (c).  Prepending a text t without '<' to s does not change
   the element-content (data state) verdict: the run over t ++ s starts with a
   longer text token, and from the first '<' on the two runs are shift twins. *)
From Coq Require Import List ZArith String Bool Lia ZifyBool.
From Coq.Strings Require Import Byte.
From LI Require Import Prelude Base Html5 Xss Proofs.BaseFacts Proofs.Wp Proofs.H5Spec
  Proofs.XssTotal Proofs.ShiftBase.
From LIGen Require Import Consts.
Import ListNotations.
Local Open Scope Z_scope.

Lemma index_byte_app_notin (t s : bytes) c : (forall b, In b t -> b <> c) ->
  index_byte (t ++ s) c = if index_byte s c <? 0 then -1 else len t + index_byte s c.
Proof.
  induction t as [|x t IH]; intros N.
  - cbn [app]. rewrite len_nil. destruct (index_byte_range s c) as [R|R].
    + rewrite R. reflexivity.
    + destruct (index_byte s c <? 0) eqn:E; lia.
  - cbn [app index_byte]. rewrite len_cons.
    assert (Nx : beq x c = false) by (apply beq_neq, N; left; reflexivity).
    rewrite Nx. rewrite IH by (intros b Hb; apply N; right; exact Hb).
    pose proof (len_nonneg t).
    destruct (index_byte_range s c) as [R|R].
    + rewrite R. reflexivity.
    + destruct (index_byte s c <? 0) eqn:E; [lia|].
      destruct (len t + index_byte s c <? 0) eqn:E2; lia.
Qed.

Lemma h5_init_data s : h5_init s 0 = mkH5 s 0 false SData 0 0 0.
Proof. reflexivity. Qed.

(* the data state at offset 0 when the input has no '<' *)
Lemma data_step_none d u c st a b t : index_byte u b_byte_lt = -1 ->
  h5_call (S d) SData (mkH5 u 0 c st a b t) =
  Ok (negb (len u =? 0), mkH5 u 0 c SEOF 0 (len u - 0) c_html5_type_data_text).
Proof.
  intros I. pose proof (len_nonneg u). cbn [h5_call]. simp_h.
  rewrite drop_ok by lia. cbn [bind Z.to_nat skipn]. rewrite I. cbn [Z.eqb].
  unfold emit. simp_h. rewrite drop_ok by lia. cbn [bind snd].
  destruct (len u - 0 =? 0) eqn:E.
  - replace (len u =? 0) with true by lia. reflexivity.
  - replace (len u =? 0) with false by lia. reflexivity.
Qed.

(* the data state at offset 0 when the first '<' is at offset i *)
Lemma data_step_lt d u c st a b t i : index_byte u b_byte_lt = i -> 0 <= i ->
  h5_call (S d) SData (mkH5 u 0 c st a b t) =
  if i =? 0 then h5_call d STagOpen (mkH5 u (0 + i + 1) c STagOpen 0 i c_html5_type_data_text)
  else Ok (true, mkH5 u (0 + i + 1) c STagOpen 0 i c_html5_type_data_text).
Proof.
  intros I Hi. pose proof (len_nonneg u). cbn [h5_call]. simp_h.
  rewrite drop_ok by lia. cbn [bind Z.to_nat skipn]. rewrite I.
  replace (i =? -1) with false by lia.
  unfold emit. simp_h. rewrite drop_ok by lia. cbn [bind snd]. reflexivity.
Qed.

Lemma xss_no_lt u f : index_byte u b_byte_lt = -1 ->
  xss_loop (S (S f)) (mkH5 u 0 false SData 0 0 0) c_attribute_type_none = Ok false.
Proof.
  intros I. pose proof (len_nonneg u). rewrite xss_loop_S. unfold h5_next, h5_depth. cbn [hstate].
  rewrite data_step_none by exact I. cbn [bind xss_body].
  destruct (len u =? 0); cbn [negb]; [reflexivity|].
  rewrite classify_text by (unfold hlen; cbn [tok_type tok_off hs]; try reflexivity; lia).
  cbn [bind]. reflexivity.
Qed.

Lemma h5_fuel_S s : exists f, h5_fuel s = S (S f) /\ f = (2 * List.length s + 2)%nat.
Proof. unfold h5_fuel. exists (2 * List.length s + 2)%nat. split; lia. Qed.

Theorem xss_data_prefix : forall t s, (forall b, In b t -> b <> x3c) ->
  xss_ctx (t ++ s) 0 = xss_ctx s 0.
Proof.
  intros t s Ht. destruct t as [|t0 t']; [reflexivity|].
  set (t := t0 :: t') in *.
  assert (Lt : 0 < len t) by (unfold t; rewrite len_cons; pose proof (len_nonneg t'); lia).
  destruct (xss_ctx_total s 0 ltac:(lia)) as [b Eb]. rewrite Eb.
  unfold xss_ctx in *. rewrite h5_init_data in *.
  destruct (h5_fuel_S s) as [f2 [F2 F2']]. destruct (h5_fuel_S (t ++ s)) as [f1 [F1 F1']].
  rewrite F2 in Eb. rewrite F1.
  assert (F : (S f2 <= f1)%nat).
  { subst f1 f2. rewrite app_length. unfold len in Lt. lia. }
  pose proof (index_byte_app_notin t s b_byte_lt Ht) as IA.
  destruct (index_byte_range s b_byte_lt) as [I|I].
  - (* no '<' at all: both runs emit one text token (or nothing) and stop *)
    rewrite xss_no_lt in Eb by exact I. rewrite <- Eb.
    apply xss_no_lt. rewrite IA, I. reflexivity.
  - replace (index_byte s b_byte_lt <? 0) with false in IA by lia.
    set (i := index_byte s b_byte_lt) in *.
    (* the run over t ++ s: one text token, then STagOpen just after the '<' *)
    destruct f1 as [|f1]; [lia|].
    rewrite xss_loop_S. unfold h5_next at 1, h5_depth. cbn [hstate].
    rewrite (data_step_lt _ _ _ _ _ _ _ _ IA) by lia.
    replace (len t + i =? 0) with false by lia. cbn [bind xss_body].
    rewrite classify_text by (unfold hlen; cbn [tok_type tok_off hs]; try reflexivity; rewrite ?len_app; lia).
    cbn [bind].
    (* the run over s *)
    rewrite xss_loop_S in Eb. unfold h5_next at 1, h5_depth in Eb. cbn [hstate] in Eb.
    rewrite (data_step_lt _ _ _ _ _ _ _ _ (eq_refl : index_byte s b_byte_lt = i)) in Eb by lia.
    assert (TW : forall a1 b1 t1 a2 b2 t2,
               twin t (mkH5 (t ++ s) (0 + (len t + i) + 1) false STagOpen a1 b1 t1)
                      (mkH5 s (0 + i + 1) false STagOpen a2 b2 t2)).
    { intros. unfold twin. cbn [hs hpos is_close hstate]. splits; try reflexivity. lia. }
    destruct (i =? 0) eqn:I0.
    + (* s starts with '<': the run over s enters STagOpen within its first step *)
      inv_bind Eb.
      destruct (call_sim t 7 8 ltac:(lia) STagOpen _ _ (TW 0 (len t + i) c_html5_type_data_text 0 i c_html5_type_data_text)
                  ltac:(cbn [pre_ok hpos]; lia) _ E) as [r1 [E1 R1]].
      rewrite xss_loop_S. unfold h5_next, h5_depth. cbn [hstate]. rewrite E1. cbn [bind].
      apply (xss_body_shift t (S f2) (S f1) r1 a); [lia|exact R1|exact Eb].
    + cbn [bind xss_body] in Eb.
      rewrite classify_text in Eb by (unfold hlen; cbn [tok_type tok_off hs]; try reflexivity; lia).
      cbn [bind] in Eb.
      eapply (xss_loop_shift t (S f2) (S (S f1)) ltac:(lia)); [apply TW| |exact Eb].
      cbn [pre_ok hstate hpos]. lia.
Qed.

Print Assumptions xss_data_prefix.
