(* WsFold: a generic lock-step simulation of the folder and of sqliFingerprint
   for two runs whose scanners are related by an abstract relation `srel` and
   whose tokens are related by WsBase.tq  (LOOSE version: the windows are related
   by `Forall2 tq`).

   tq t1 t2 is  teq t1 t2  (equal up to the position)  or  loose t1 t2  (class
   string / comment / evil: class, count and marks agree, length and text may
   differ).  The folder never reads the length or the text of a token of one of
   these three classes: every such read in rules2 / rules3 / merge / is_unary_op /
   is_arithmetic_op / five_special / sqli_fingerprint sits behind a class test
   that excludes them, so that the two runs take the same branches.

   Run 1 is the first argument of simR, run 2 (the reference run, the one that is
   assumed to return Ok) the second. *)
From Coq Require Import List ZArith String Bool Lia ZifyBool.
From Coq.Strings Require Import Byte.
From LI Require Import Prelude Base SqliLex SqliFold Proofs.BaseFacts Proofs.Wp Proofs.LexBase Proofs.LexSpec
  Proofs.FoldBase Proofs.FoldSpec Proofs.QuoteBase Proofs.WsBase.
From LIGen Require Import Tables Dispatch Consts.
Import ListNotations.
Local Open Scope Z_scope.

(* ---------- lists ---------- *)

Lemma F2_len {A B} (R : A -> B -> Prop) l1 l2 : Forall2 R l1 l2 -> List.length l1 = List.length l2.
Proof. induction 1; cbn; congruence. Qed.

Lemma F2_wlen w1 w2 : Forall2 tq w1 w2 -> wlen w1 = wlen w2.
Proof. intros F. unfold wlen. rewrite (F2_len _ _ _ F). reflexivity. Qed.

Lemma F2_nth {A B} (R : A -> B -> Prop) l1 l2 i b :
  Forall2 R l1 l2 -> nth_error l2 i = Some b -> exists a, nth_error l1 i = Some a /\ R a b.
Proof.
  intros F. revert i. induction F as [|x y l1 l2 Hxy F IH]; intros [|i] N; cbn [nth_error] in *; try discriminate.
  - inversion N; subst. eauto.
  - apply IH. exact N.
Qed.

Lemma F2_replace_nth {A B} (R : A -> B -> Prop) l1 l2 n a b :
  Forall2 R l1 l2 -> R a b -> Forall2 R (replace_nth l1 n a) (replace_nth l2 n b).
Proof.
  intros F Hab. revert n. induction F as [|x y l1 l2 Hxy F IH]; intros [|n]; cbn [replace_nth]; constructor; auto.
Qed.

Lemma F2_firstn {A B} (R : A -> B -> Prop) l1 l2 n :
  Forall2 R l1 l2 -> Forall2 R (firstn n l1) (firstn n l2).
Proof.
  intros F. revert n. induction F as [|x y l1 l2 Hxy F IH]; intros [|n]; cbn [firstn]; constructor; auto.
Qed.

(* ---------- the loose classes ---------- *)

Definition nonloose (c : byte) : bool :=
  negb (beq c b_sqli_token_type_string || beq c b_sqli_token_type_comment || beq c b_sqli_token_type_evil).

(* a token of a loose class fails every test for another class *)
Lemma loose_beq k c : loose_cat k -> nonloose c = true -> beq k c = false.
Proof.
  intros L N. destruct (beq k c) eqn:E; [|reflexivity]. apply beq_eq in E. subst c.
  destruct L as [ -> | [ -> | -> ] ]; vm_compute in N; discriminate N.
Qed.

Lemma loose_merge_left t : loose_cat (t_cat t) -> merge_left_ok t = false.
Proof.
  intros L. unfold merge_left_ok, cat_is. rewrite !(loose_beq _ _ L) by reflexivity. reflexivity.
Qed.

Lemma loose_merge_right t : loose_cat (t_cat t) -> merge_right_ok t = false.
Proof.
  intros L. unfold merge_right_ok, cat_is. rewrite (loose_merge_left _ L), !(loose_beq _ _ L) by reflexivity. reflexivity.
Qed.

Lemma is_unary_op_tq t1 t2 : tq t1 t2 -> is_unary_op t1 = is_unary_op t2.
Proof.
  intros [T|T].
  - destruct t1 as [p1 l1 c1 k1 o1 cl1 v1], t2 as [p2 l2 c2 k2 o2 cl2 v2]. unfold teq in T. cbn [t_pos t_len t_count t_cat t_open t_close t_val] in T.
    destruct T as (-> & -> & -> & -> & -> & ->). reflexivity.
  - destruct T as (C & L & _). unfold is_unary_op. rewrite C, (loose_beq _ _ L) by reflexivity. reflexivity.
Qed.

(* ---------- reading and writing the window ---------- *)

(* reading slot i: the two tokens agree on class, count and marks; they agree on
   length and text as well unless the class is loose *)
Lemma sim_wget {C D} (Q : C -> D -> Prop) site w1 w2 i k1 k2 :
  Forall2 tq w1 w2 ->
  (forall p1 p2 l1 l2 c k o cl v1 v2,
     0 <= i < wlen w2 ->
     tq (mkTok p1 l1 c k o cl v1) (mkTok p2 l2 c k o cl v2) ->
     (l1 = l2 /\ v1 = v2) \/ loose_cat k ->
     simR Q (k1 (mkTok p1 l1 c k o cl v1)) (k2 (mkTok p2 l2 c k o cl v2))) ->
  simR Q (bind (wget site w1 i) k1) (bind (wget site w2 i) k2).
Proof.
  intros W H a E. inv_bind E. unfold wget in *.
  destruct (0 <=? i) eqn:E1; [|discriminate E0].
  destruct (nth_error w2 (Z.to_nat i)) as [t2|] eqn:N; [|discriminate E0]. inversion E0; subst a0. clear E0.
  assert (Hi : 0 <= i < wlen w2) by (split; [lia|]; apply nth_error_wlen in N; lia).
  destruct (F2_nth _ _ _ _ _ W N) as [t1 [N1 T]]. rewrite N1. cbn [bind].
  destruct t1 as [p1 l1 c1 ka o1 cl1 v1], t2 as [p2 l2 c2 kb o2 cl2 v2].
  assert (X : c1 = c2 /\ ka = kb /\ o1 = o2 /\ cl1 = cl2 /\ ((l1 = l2 /\ v1 = v2) \/ loose_cat kb)).
  { destruct T as [T|T]; [unfold teq in T|unfold loose in T];
      cbn [t_pos t_len t_count t_cat t_open t_close t_val] in T.
    - destruct T as (A1 & A2 & A3 & A4 & A5 & A6). splits; auto.
    - destruct T as (A1 & A2 & A3 & A4 & A5 & A6). splits; auto. }
  destruct X as (-> & -> & -> & -> & X).
  exact (H p1 p2 l1 l2 c2 kb o2 cl2 v1 v2 Hi T X a E).
Qed.

Lemma sim_wset {C D} (Q : C -> D -> Prop) site w1 w2 i t1 t2 k1 k2 :
  Forall2 tq w1 w2 -> tq t1 t2 ->
  (forall w1' w2', Forall2 tq w1' w2' -> wlen w2' = wlen w2 -> simR Q (k1 w1') (k2 w2')) ->
  simR Q (bind (wset site w1 i t1) k1) (bind (wset site w2 i t2) k2).
Proof.
  intros W T H a E. inv_bind E. unfold wset in *. pose proof (F2_len _ _ _ W) as L.
  destruct ((0 <=? i) && (i <? Z.of_nat (List.length w2))) eqn:E1; [|discriminate E0].
  inversion E0; subst a0. clear E0. rewrite L, E1. cbn [bind].
  refine (H _ _ _ _ a E).
  - apply F2_replace_nth; assumption.
  - apply wlen_replace_nth.
Qed.

Lemma sim_wtrunc {C D} (Q : C -> D -> Prop) site w1 w2 n1 n2 k1 k2 :
  Forall2 tq w1 w2 -> n1 = n2 ->
  (forall w1' w2', Forall2 tq w1' w2' -> wlen w2' = n2 -> simR Q (k1 w1') (k2 w2')) ->
  simR Q (bind (wtrunc site w1 n1) k1) (bind (wtrunc site w2 n2) k2).
Proof.
  intros W -> H a E. inv_bind E. unfold wtrunc in *. pose proof (F2_len _ _ _ W) as L.
  destruct ((0 <=? n2) && (n2 <=? Z.of_nat (List.length w2))) eqn:E1; [|discriminate E0].
  inversion E0; subst a0. clear E0. rewrite L, E1. cbn [bind].
  refine (H _ _ _ _ a E).
  - apply F2_firstn; assumption.
  - apply wlen_firstn. unfold wlen. lia.
Qed.

Lemma wtrunc_simK site w1 w2 n : Forall2 tq w1 w2 ->
  simR (Forall2 tq) (wtrunc site w1 n) (wtrunc site w2 n).
Proof.
  intros W a E. unfold wtrunc in *. pose proof (F2_len _ _ _ W) as L.
  destruct ((0 <=? n) && (n <=? Z.of_nat (List.length w2))) eqn:E1; [|discriminate E].
  inversion E; subst a. clear E. rewrite L, E1. eexists. split; [reflexivity|]. apply F2_firstn. exact W.
Qed.

Lemma wget_simK site w1 w2 i t2 : Forall2 tq w1 w2 -> wget site w2 i = Ok t2 ->
  exists t1, wget site w1 i = Ok t1 /\ tq t1 t2.
Proof.
  intros W E. unfold wget in *. destruct (0 <=? i); [|discriminate E].
  destruct (nth_error w2 (Z.to_nat i)) as [t|] eqn:N; [|discriminate E]. inversion E; subst t.
  destruct (F2_nth _ _ _ _ _ W N) as [t1 [N1 T]]. rewrite N1. eauto.
Qed.

Lemma wset_simK site w1 w2 i t1 t2 : Forall2 tq w1 w2 -> tq t1 t2 ->
  simR (Forall2 tq) (wset site w1 i t1) (wset site w2 i t2).
Proof.
  intros W T a E. unfold wset in *. pose proof (F2_len _ _ _ W) as L.
  destruct ((0 <=? i) && (i <? Z.of_nat (List.length w2))) eqn:E1; [|discriminate E].
  inversion E; subst a. clear E. rewrite L, E1. eexists. split; [reflexivity|].
  apply F2_replace_nth; assumption.
Qed.

Lemma skip_loop_S fuel s cur :
  skip_loop (S fuel) s cur =
  bind (tokenize s cur) (fun r => let '(more, t, s) := r in
    bind (is_unary_op t) (fun u =>
      if negb (cat_is t b_sqli_token_type_comment || cat_is t b_sqli_token_type_left_parenthesis
               || cat_is t b_sqli_token_type_sqltype || u)
      then Ok (more, t, s)
      else if (more : bool) then skip_loop fuel s t else Ok (more, t, s))).
Proof. reflexivity. Qed.

Lemma fp_loop_cats : forall w1 w2 acc,
  Forall2 (fun a b => t_cat a = t_cat b) w1 w2 -> fp_loop w1 acc = fp_loop w2 acc.
Proof.
  intros w1 w2 acc F. revert acc. induction F as [|a b w1 w2 Hab F IH]; intros acc; cbn [fp_loop]; [reflexivity|].
  unfold cat_is. rewrite Hab. destruct (beq (t_cat b) b_sqli_token_type_evil); [reflexivity|]. apply IH.
Qed.

Lemma tq_cats w1 w2 : Forall2 tq w1 w2 -> Forall2 (fun a b => t_cat a = t_cat b) w1 w2.
Proof. induction 1 as [|a b l1 l2 T F IH]; constructor; [apply tq_cat; exact T|exact IH]. Qed.

(* ---------- tactics ---------- *)

Ltac simp_t :=
  unfold cat_is, val_prefix, is_unary_op, is_arithmetic_op, set_cat in *;
  cbn [t_pos t_len t_count t_cat t_open t_close t_val f_s f_win f_left f_more f_last] in *.

Ltac blia := clear_bool; lia.

(* a token of a loose class: every test for another class is false; the dead
   branches (which hold the reads of its length and text) are reduced away *)
Ltac norm_bool :=
  repeat (progress (cbn [andb orb negb]; rewrite ?andb_false_r, ?orb_false_r)).

Ltac use_loose HL :=
  match type of HL with
  | loose_cat ?k =>
      repeat match goal with |- context [beq k ?c] => rewrite (loose_beq k c HL eq_refl) end
  end.

(* HD : (l1 = l2 /\ v1 = v2) \/ loose_cat k *)
Ltac split_tok HD := destruct HD as [[-> ->]|HD]; [|use_loose HD; norm_bool].

Ltac tq_tac :=
  first [ assumption
        | left; unfold teq; simp_t; splits; reflexivity
        | exfalso; blia ].

Section WsFold.

Variable srel : sqlst -> sqlst -> Prop.

Definition relTk (r1 r2 : bool * token * sqlst) : Prop :=
  fst (fst r1) = fst (fst r2) /\ srel (snd r1) (snd r2) /\
  (fst (fst r2) = true -> tq (snd (fst r1)) (snd (fst r2))) /\
  (fst (fst r2) = false -> snd (fst r1) = snd (fst r2)).

Variable H_tok : forall s1 s2 c1 c2, srel s1 s2 -> simR relTk (tokenize s1 c1) (tokenize s2 c2).
Variable H_st : forall s1 s2, srel s1 s2 -> st s1 = st s2.
Variable H_bump : forall s1 s2 n, srel s1 s2 -> srel (bump_folds s1 n) (bump_folds s2 n).
Variable H_len : forall s1 s2, srel s1 s2 -> (List.length (input s2) <= List.length (input s1))%nat.

(* ---------- folder states ---------- *)

(* the last comment: a scanned token, or not a comment at all *)
Definition lrel (l1 l2 : token) : Prop := tq l1 l2 \/ (t_cat l1 = x00 /\ t_cat l2 = x00).

Definition frel (f1 f2 : fstate) : Prop :=
  srel (f_s f1) (f_s f2) /\ Forall2 tq (f_win f1) (f_win f2) /\ f_left f1 = f_left f2 /\
  f_more f1 = f_more f2 /\ lrel (f_last f1) (f_last f2).

Lemma lrel_cat l1 l2 c : lrel l1 l2 -> cat_is l1 c = cat_is l2 c.
Proof. unfold cat_is. intros [T|[-> ->]]; [rewrite (tq_cat _ _ T)|]; reflexivity. Qed.

(* ---------- the fetch loops ---------- *)

Lemma fetch_simK want : forall fuel2 fuel1, (fuel2 <= fuel1)%nat ->
  forall f1 f2, frel f1 f2 -> simR frel (fetch fuel1 want f1) (fetch fuel2 want f2).
Proof.
  induction fuel2 as [|fuel2 IH]; intros fuel1 F f1 f2 R; [apply simR_fail_fuel|].
  destruct fuel1 as [|fuel1]; [lia|]. cbn [fetch].
  destruct R as (T & W & EL & EM & LR). rewrite (F2_wlen _ _ W), EL, EM.
  destruct (f_more f2 && (wlen (f_win f2) <=? c_max_tokens) && (wlen (f_win f2) - f_left f2 <? want)) eqn:Ec.
  2:{ apply simR_ret. unfold frel. splits; auto. }
  eapply simR_bind; [apply H_tok; exact T|].
  intros [[m1 t1] s1'] [[m2 t2] s2'] (R1 & R2 & R3 & R4) _. cbn [fst snd] in *. subst m1.
  destruct m2.
  - specialize (R3 eq_refl). unfold cat_is. rewrite (tq_cat _ _ R3).
    destruct (beq (t_cat t2) b_sqli_token_type_comment).
    + apply IH; [lia|]. unfold frel. cbn [f_s f_win f_left f_more f_last]. splits; auto. left. exact R3.
    + apply IH; [lia|]. unfold frel. cbn [f_s f_win f_left f_more f_last]. splits; auto.
      * apply Forall2_app; [exact W|]. constructor; [exact R3|constructor].
      * right. split; reflexivity.
  - apply IH; [lia|]. unfold frel. cbn [f_s f_win f_left f_more f_last]. splits; auto.
Qed.

Lemma fetch_n_simK want f1 f2 : frel f1 f2 -> simR frel (fetch_n want f1) (fetch_n want f2).
Proof.
  intros R. unfold fetch_n. apply fetch_simK; [|exact R].
  destruct R as (T & _). pose proof (H_len _ _ T). lia.
Qed.

(* ---------- the rule cascade ---------- *)

Definition step_rel (r1 r2 : step_out) : Prop :=
  match r1, r2 with
  | Continue f1, Continue f2 => frel f1 f2
  | Return n1 f1, Return n2 f2 => n1 = n2 /\ frel f1 f2
  | _, _ => False
  end.

Ltac frel_tac :=
  unfold step_rel, frel, upd; cbn [f_s f_win f_left f_more f_last]; splits;
  try assumption; try reflexivity; try blia; try (apply H_bump; assumption).

Ltac fstep :=
  lazymatch goal with
  | |- simR _ (Ok _) (Ok _) => apply simR_ret
  | |- simR _ (bind (wget _ _ _) _) (bind (wget _ _ _) _) =>
      apply sim_wget; [assumption | intros ?p1 ?p2 ?l1 ?l2 ?c ?k ?o ?cl ?v1 ?v2 ?Hi ?HT ?HD]
  | |- simR _ (bind (wset _ _ _ _) _) (bind (wset _ _ _ _) _) =>
      apply sim_wset; [assumption | tq_tac | intros ?w1' ?w2' ?W' ?L']
  | |- simR _ (bind (wtrunc _ _ _) _) (bind (wtrunc _ _ _) _) =>
      apply sim_wtrunc; [assumption | blia | intros ?w1' ?w2' ?W' ?L']
  | |- simR _ (bind (Ok _) _) (bind (Ok _) _) => cbn [bind]
  | |- simR eq ?m ?m => apply simR_refl
  | |- simR _ (if ?c then _ else _) (if ?c then _ else _) => destruct c eqn:?
  | |- simR _ (bind ?m _) (bind ?m _) =>
      eapply simR_bind with (R := eq); [apply simR_refl | intros ? ? ? ?E; subst]
  | |- simR _ (bind (if ?c then _ else _) _) (bind (if ?c then _ else _) _) => destruct c eqn:?
  end.

Ltac fgo := simp_t; repeat (fstep; simp_t).

Lemma rules3_simK f1 f2 : frel f1 f2 -> simR step_rel (rules3 f1) (rules3 f2).
Proof.
  destruct f1 as [s1 w1 lf1 m1 la1], f2 as [s2 w2 lf2 m2 la2]. unfold frel. cbn [f_s f_win f_left f_more f_last].
  intros (T & W & -> & -> & LR). unfold rules3. cbn [f_s f_win f_left f_more f_last]. cbv zeta.
  rewrite (F2_wlen _ _ W).
  fstep. fstep. fstep. simp_t.
  split_tok HD; split_tok HD0; split_tok HD1.
  all: fgo.
  all: try solve [frel_tac].
Qed.

(* the tail of the two-token rules: fetch a third token, then the three-token rules *)
Lemma three_simK (fetch1 fetch2 : fstate -> res fstate) f1 f2 :
  (forall g1 g2, frel g1 g2 -> simR frel (fetch1 g1) (fetch2 g2)) ->
  frel f1 f2 ->
  simR step_rel
    (f <- fetch1 f1 ;;
     if wlen (f_win f) - f_left f <? 3
     then Ok (Continue (mkF (f_s f) (f_win f) (wlen (f_win f)) (f_more f) (f_last f)))
     else rules3 f)
    (f <- fetch2 f2 ;;
     if wlen (f_win f) - f_left f <? 3
     then Ok (Continue (mkF (f_s f) (f_win f) (wlen (f_win f)) (f_more f) (f_last f)))
     else rules3 f).
Proof.
  intros HF R. eapply simR_bind; [apply HF; exact R|].
  intros g1 g2 R' _. pose proof R' as (T & W & EL & EM & LR).
  rewrite (F2_wlen _ _ W), EL. destruct (wlen (f_win g2) - f_left g2 <? 3).
  - apply simR_ret. unfold step_rel, frel. cbn [f_s f_win f_left f_more f_last]. splits; auto.
  - apply rules3_simK. exact R'.
Qed.

(* a merged token is written by assign from exactly related operands *)
Definition relM (m1 m2 : option token) : Prop :=
  match m1, m2 with
  | Some a1, Some a2 => teq a1 a2
  | None, None => True
  | _, _ => False
  end.

Lemma merge_simK p1 p2 l1 l2 c k o cl v1 v2 p1' p2' l1' l2' c' k' o' cl' v1' v2' :
  (l1 = l2 /\ v1 = v2) \/ loose_cat k ->
  (l1' = l2' /\ v1' = v2') \/ loose_cat k' ->
  simR relM (merge (mkTok p1 l1 c k o cl v1) (mkTok p1' l1' c' k' o' cl' v1'))
            (merge (mkTok p2 l2 c k o cl v2) (mkTok p2' l2' c' k' o' cl' v2')).
Proof.
  intros HD HD'. unfold merge, merge_right_ok, merge_left_ok. simp_t.
  split_tok HD; [|apply simR_ret; exact I].
  fstep; [apply simR_ret; exact I|].
  split_tok HD'; [|apply simR_ret; exact I].
  fstep; [apply simR_ret; exact I|].
  fstep; [apply simR_ret; exact I|].
  fstep. fstep. fstep; [|apply simR_ret; exact I].
  apply sim_assign; [reflexivity|]. intros last w. apply simR_ret. cbn [relM].
  unfold teq. simp_t. splits; reflexivity.
Qed.

Lemma rules2_simK (fetch1 fetch2 : fstate -> res fstate) f1 f2 :
  (forall g1 g2, frel g1 g2 -> simR frel (fetch1 g1) (fetch2 g2)) ->
  frel f1 f2 -> simR step_rel (rules2 fetch1 f1) (rules2 fetch2 f2).
Proof.
  intros HF. pose proof (three_simK fetch1 fetch2) as H3. specialize (fun a b => H3 a b HF).
  destruct f1 as [s1 w1 lf1 m1 la1], f2 as [s2 w2 lf2 m2 la2]. unfold frel. cbn [f_s f_win f_left f_more f_last].
  intros (T & W & -> & -> & LR). unfold rules2. cbn [f_s f_win f_left f_more f_last]. cbv zeta.
  rewrite (F2_wlen _ _ W).
  apply sim_wget; [assumption|intros pa1 pa2 la1' la2' ca ka oa cla va1 va2 Hia HTa HDa].
  apply sim_wget; [assumption|intros pb1 pb2 lb1 lb2 cb kb ob clb vb1 vb2 Hib HTb HDb].
  assert (HM := merge_simK pa1 pa2 la1' la2' ca ka oa cla va1 va2 pb1 pb2 lb1 lb2 cb kb ob clb vb1 vb2 HDa HDb).
  simp_t.
  split_tok HDa; split_tok HDb.
  all: fgo.
  all: try solve [frel_tac].
  all: (eapply simR_bind; [exact HM|]); clear HM;
    intros [a1'|] [a2'|] RM _; cbn [relM] in RM; try contradiction.
  all: try (destruct a1' as [q1 n1 c1 k1 o1 cl1 x1], a2' as [q2 n2 c2 k2 o2 cl2 x2];
            unfold teq in RM; cbn [t_pos t_len t_count t_cat t_open t_close t_val] in RM;
            destruct RM as (-> & -> & -> & -> & -> & ->)).
  all: fgo.
  all: try solve [frel_tac].
  all: try (apply H3; solve [frel_tac]).
Qed.

(* ---------- one iteration of the main loop ---------- *)

Definition iter_rel (r1 r2 : iter_out) : Prop :=
  match r1, r2 with
  | Again f1, Again f2 => frel f1 f2
  | Break f1, Break f2 => frel f1 f2 /\ f_left f2 = wlen (f_win f2)
  | Ret n1 f1, Ret n2 f2 => n1 = n2 /\ frel f1 f2
  | _, _ => False
  end.

Lemma five_special_simK w1 w2 : Forall2 tq w1 w2 -> simR eq (five_special w1) (five_special w2).
Proof.
  intros W. unfold five_special. do 5 fstep. simp_t. apply simR_ret. reflexivity.
Qed.

Lemma fold_iter_simK f1 f2 : frel f1 f2 -> simR iter_rel (fold_iter f1) (fold_iter f2).
Proof.
  intros R. unfold fold_iter.
  eapply simR_bind with (R := frel).
  { destruct f1 as [s1 w1 lf1 m1 la1], f2 as [s2 w2 lf2 m2 la2]. unfold frel in R.
    cbn [f_s f_win f_left f_more f_last] in *.
    destruct R as (T & W & -> & -> & LR). rewrite (F2_wlen _ _ W).
    destruct (c_max_tokens <=? wlen w2) eqn:E5; [|apply simR_ret; frel_tac].
    eapply simR_bind with (R := eq); [apply five_special_simK; exact W|]. intros ? sp -> _.
    destruct sp; [|apply simR_ret; frel_tac].
    destruct (c_max_tokens <? wlen w2) eqn:E6.
    - fgo. frel_tac.
    - fgo. frel_tac. }
  intros g1 g2 R' _. pose proof R' as (T & W & EL & EM & LR).
  rewrite EL, EM. destruct (negb (f_more g2) || (c_max_tokens <=? f_left g2)).
  { apply simR_ret. cbn [iter_rel]. rewrite (F2_wlen _ _ W). split; [|reflexivity].
    unfold frel. cbn [f_s f_win f_left f_more f_last]. splits; auto. }
  eapply simR_bind; [apply fetch_n_simK; exact R'|].
  intros h1 h2 R2 _. pose proof R2 as (T2 & W2 & EL2 & EM2 & LR2).
  rewrite (F2_wlen _ _ W2), EL2. destruct (wlen (f_win h2) - f_left h2 <? 2).
  { apply simR_ret. cbn [iter_rel]. unfold frel. cbn [f_s f_win f_left f_more f_last]. splits; auto. }
  eapply simR_bind; [apply rules2_simK; [intros; apply fetch_n_simK; assumption|exact R2]|].
  intros [i1|n1 i1] [i2|n2 i2] SR _; cbn [step_rel] in SR; try contradiction; apply simR_ret; exact SR.
Qed.

(* ---------- after the loop ---------- *)

Definition fin_rel (r1 r2 : Z * fstate) : Prop :=
  fst r1 = fst r2 /\ Forall2 tq (f_win (snd r1)) (f_win (snd r2)) /\ srel (f_s (snd r1)) (f_s (snd r2)).

Lemma fold_finish_simK f1 f2 : frel f1 f2 -> f_left f2 = wlen (f_win f2) ->
  simR fin_rel (fold_finish f1) (fold_finish f2).
Proof.
  intros (T & W & EL & EM & LR) Hl. unfold fold_finish. rewrite EL, (lrel_cat _ _ _ LR), (F2_wlen _ _ W), Hl.
  rewrite Z.eqb_refl.
  destruct ((wlen (f_win f2) <? c_max_tokens) && cat_is (f_last f2) b_sqli_token_type_comment) eqn:E.
  - cbn [bind]. apply simR_ret. unfold fin_rel. cbn [fst snd f_s f_win]. splits; auto.
    apply Forall2_app; [exact W|]. constructor; [|constructor]. destruct LR as [L|[_ L]]; [exact L|].
    apply andb_true_iff in E. destruct E as [_ E]. unfold cat_is in E. rewrite L in E. discriminate E.
  - cbn [bind]. apply simR_ret. unfold fin_rel. cbn [fst snd f_s f_win]. splits; auto.
Qed.

Definition steps_rel (r1 r2 : fstate + Z * fstate) : Prop :=
  match r1, r2 with
  | inl f1, inl f2 => frel f1 f2
  | inr y1, inr y2 => fin_rel y1 y2
  | _, _ => False
  end.

Lemma fold_steps_simK k : forall f1 f2, frel f1 f2 -> simR steps_rel (fold_steps k f1) (fold_steps k f2).
Proof.
  induction k as [|k IH]; intros f1 f2 R; cbn [fold_steps]; [apply simR_ret; exact R|].
  eapply simR_bind; [apply fold_iter_simK; exact R|].
  intros [g1|g1|n1 g1] [g2|g2|n2 g2] IR _; cbn [iter_rel] in IR; try contradiction.
  - apply IH. exact IR.
  - destruct IR as [IR Hl]. eapply simR_bind; [apply fold_finish_simK; assumption|].
    intros y1 y2 FR _. apply simR_ret. exact FR.
  - destruct IR as [-> IR]. apply simR_ret. cbn [steps_rel]. unfold fin_rel. cbn [fst snd].
    destruct IR as (T & W & _). auto.
Qed.

Lemma fold_loop_simK : forall fuel2 fuel1, (fuel2 <= fuel1)%nat ->
  forall f1 f2, frel f1 f2 -> simR fin_rel (fold_loop fuel1 f1) (fold_loop fuel2 f2).
Proof.
  induction fuel2 as [|fuel2 IH]; intros fuel1 F f1 f2 R; [apply simR_fail_fuel|].
  destruct fuel1 as [|fuel1]; [lia|]. cbn [fold_loop].
  eapply simR_bind; [apply fold_steps_simK; exact R|].
  intros [g1|y1] [g2|y2] SR _; cbn [steps_rel] in SR; try contradiction.
  - apply IH; [lia|exact SR].
  - apply simR_ret. exact SR.
Qed.

(* ---------- the initial skip loop ---------- *)

Lemma skip_loop_simK : forall fuel2 fuel1, (fuel2 <= fuel1)%nat ->
  forall s1 s2 c1 c2, srel s1 s2 -> simR relTk (skip_loop fuel1 s1 c1) (skip_loop fuel2 s2 c2).
Proof.
  induction fuel2 as [|fuel2 IH]; intros fuel1 F s1 s2 c1 c2 T; [apply simR_fail_fuel|].
  destruct fuel1 as [|fuel1]; [lia|]. rewrite !skip_loop_S.
  eapply simR_bind; [apply H_tok; exact T|].
  intros [[m1 t1] s1'] [[m2 t2] s2'] (R1 & R2 & R3 & R4) _. cbn [fst snd] in *. subst m1.
  destruct m2.
  - specialize (R3 eq_refl). rewrite (is_unary_op_tq _ _ R3).
    eapply simR_bind with (R := eq); [apply simR_refl|]. intros ? u -> _.
    unfold cat_is. rewrite (tq_cat _ _ R3).
    destruct (negb (beq (t_cat t2) b_sqli_token_type_comment || beq (t_cat t2) b_sqli_token_type_left_parenthesis
                    || beq (t_cat t2) b_sqli_token_type_sqltype || u)).
    + apply simR_ret. unfold relTk. cbn [fst snd]. splits; auto; discriminate.
    + apply IH; [lia|exact R2].
  - specialize (R4 eq_refl). subst t1.
    eapply simR_bind with (R := eq); [apply simR_refl|]. intros ? u -> _.
    destruct (negb (cat_is t2 b_sqli_token_type_comment || cat_is t2 b_sqli_token_type_left_parenthesis
                    || cat_is t2 b_sqli_token_type_sqltype || u)).
    + apply simR_ret. unfold relTk. cbn [fst snd]. splits; auto; discriminate.
    + apply simR_ret. unfold relTk. cbn [fst snd]. splits; auto; discriminate.
Qed.

(* ---------- fold ---------- *)

Definition fold_relK (r1 r2 : list token * sqlst) : Prop :=
  Forall2 tq (fst r1) (fst r2) /\ srel (snd r1) (snd r2).

Lemma fold_simK s1 s2 : srel s1 s2 -> simR fold_relK (fold s1) (fold s2).
Proof using H_tok H_st H_bump H_len.
  intros T. unfold fold.
  eapply simR_bind.
  { apply skip_loop_simK; [|exact T]. pose proof (H_len _ _ T). lia. }
  intros [[m1 t1] s1'] [[m2 t2] s2'] (R1 & R2 & R3 & R4) _. cbn [fst snd] in *. subst m1.
  destruct m2; cbn [negb].
  - specialize (R3 eq_refl).
    eapply simR_bind.
    { apply fold_loop_simK.
      - unfold fold_fuel. pose proof (H_len _ _ R2). lia.
      - unfold frel. cbn [f_s f_win f_left f_more f_last]. splits; auto.
        right. split; reflexivity. }
    intros [n1 g1] [n2 g2] (FR1 & FR2 & FR3) _. cbn [fst snd] in *. subst n1.
    eapply simR_bind; [apply wtrunc_simK; exact FR2|].
    intros w1 w2 WF _. apply simR_ret. split; assumption.
  - apply simR_ret. split; [constructor|exact R2].
Qed.

(* ---------- sqliFingerprint ---------- *)

Definition fp_relK (r1 r2 : bytes * list token * sqlst) : Prop :=
  fst (fst r1) = fst (fst r2) /\ Forall2 tq (snd (fst r1)) (snd (fst r2)) /\ srel (snd r1) (snd r2).

(* re-classing a token 'X' with the text "X" keeps it related *)
Lemma tq_evil t1 t2 : tq t1 t2 ->
  tq (mkTok (t_pos t1) (t_len t1) (t_count t1) b_sqli_token_type_evil (t_open t1) (t_close t1)
        [b_sqli_token_type_evil])
     (mkTok (t_pos t2) (t_len t2) (t_count t2) b_sqli_token_type_evil (t_open t2) (t_close t2)
        [b_sqli_token_type_evil]).
Proof.
  intros [T|T].
  - left. destruct T as (A1 & A2 & A3 & A4 & A5 & A6). unfold teq.
    cbn [t_pos t_len t_count t_cat t_open t_close t_val]. splits; auto.
  - right. destruct T as (A1 & A2 & A3 & A4 & A5 & A6). unfold loose, hdsig, loose_cat.
    cbn [t_pos t_len t_count t_cat t_open t_close t_val]. splits; auto.
    change (beq b_sqli_token_type_evil x2d) with false. rewrite !andb_false_r. reflexivity.
Qed.

Lemma sqli_fingerprint_simK s1 s2 fl : srel (reset s1 fl) (reset s2 fl) ->
  simR fp_relK (sqli_fingerprint s1 fl) (sqli_fingerprint s2 fl).
Proof using H_tok H_st H_bump H_len.
  intros T. unfold sqli_fingerprint.
  eapply simR_bind; [apply fold_simK; exact T|].
  intros [w1 r1] [w2 r2] [WF TR] _. cbn [fst snd] in *.
  rewrite (F2_wlen _ _ WF).
  eapply simR_bind with (R := Forall2 tq).
  { destruct (2 <? wlen w2) eqn:E2; [|apply simR_ret; exact WF].
    intros a E. inv_bind E.
    destruct (wget_simK _ _ _ _ _ WF E0) as [t1 [E1 Tt]]. rewrite E1. cbn [bind].
    unfold cat_is in *. rewrite (tq_cat _ _ Tt), (tq_open _ _ Tt), (tq_close _ _ Tt).
    destruct (beq (t_cat a0) b_sqli_token_type_bare_word) eqn:Ew.
    - (* a bare word is never loose *)
      assert (Te : teq t1 a0).
      { apply tq_exact; [exact Tt|]. apply beq_eq in Ew. rewrite Ew. intros [L|[L|L]]; discriminate L. }
      pose proof Te as (A1 & A2 & A3 & A4 & A5 & A6). rewrite A1.
      destruct (true && beq (t_open a0) b_byte_tick && (t_len a0 =? 0) && beq (t_close a0) x00).
      + refine (wset_simK _ _ _ _ (set_cat t1 b_sqli_token_type_comment) (set_cat a0 b_sqli_token_type_comment) WF _ _ E).
        left. unfold teq, set_cat. cbn [t_pos t_len t_count t_cat t_open t_close t_val]. splits; auto.
      + inversion E; subst a. eexists. split; [reflexivity|exact WF].
    - cbn [andb] in *. inversion E; subst a. eexists. split; [reflexivity|exact WF]. }
  intros w1' w2' WF' _. rewrite (fp_loop_cats _ _ _ (tq_cats _ _ WF')).
  destruct (fp_loop w2' []) as [fp|].
  - apply simR_ret. unfold fp_relK. cbn [fst snd]. auto.
  - intros a E. inv_bind E. destruct (wget_simK _ _ _ _ _ WF' E0) as [t1 [E1 Th]]. rewrite E1. cbn [bind].
    inv_bind E.
    destruct (wset_simK _ _ _ _ _ _ WF' (tq_evil _ _ Th) _ E2) as [w1'' [E3 WF2]]. rewrite E3. cbn [bind].
    inversion E; subst a. eexists. split; [reflexivity|]. unfold fp_relK. cbn [fst snd]. auto.
Qed.

End WsFold.

Check fold_simK.
Check sqli_fingerprint_simK.
Print Assumptions sqli_fingerprint_simK.
