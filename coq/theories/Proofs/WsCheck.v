(* WsCheck: from the fingerprint relation of WsTokens/WsFold to the verdict
   (C03, whitespace runs and separator mixing): the whitelist step, the
   cascade of readings, and the slot-by-slot induction. *)
From Coq Require Import List ZArith String Bool Lia ZifyBool.
From Coq.Strings Require Import Byte.
From LI Require Import Prelude Base SqliLex SqliFold GrammarSqli Proofs.BaseFacts Proofs.Wp Proofs.LexBase Proofs.LexSpec
  Proofs.FoldBase Proofs.FoldSpec Proofs.FoldLoop Proofs.CheckSpec Spec.CascadeSpec Proofs.CascadeProofs
  Proofs.QuoteBase Spec.WsSpec Proofs.WsBase Proofs.WsLocal Proofs.WsFold Proofs.WsTokens.
From LIGen Require Import Tables Dispatch Consts.
Import ListNotations.
Local Open Scope Z_scope.
Local Open Scope res_scope.

(* ---------- every reading returns ---------- *)

Lemma fingerprint_ctx_total inp fl : exists fp bl v x, fingerprint_ctx inp fl = Ok (fp, bl, v, x).
Proof.
  unfold fingerprint_ctx.
  destruct (wp_inv _ _ (sqli_fingerprint_spec (sqli_init inp 0) fl)) as [[[fp w] s] [E (A & Wf & Fk)]].
  rewrite E. cbn [bind].
  assert (Fk' : fp = [b_sqli_token_type_evil] \/
                (fp = map t_cat w /\ Forall ftok w /\ (wlen w = 2 -> fwin_ok (input s) w))).
  { cbn [input sqli_init] in A. rewrite A. exact Fk. }
  destruct (wp_inv _ _ (check_fingerprint_total s fp w Fk')) as [v [Ev _]].
  rewrite Ev. cbn [bind]. eauto.
Qed.

(* ---------- notWhitelist ---------- *)

Definition sp_password : bytes := bs "sp_password".

(* the test of notWhitelist on the raw input at the offset tokenVec[0].len *)
Definition rawtest (inp : bytes) (L : Z) : res bool :=
  ch <- get "notWhitelist:input[tokenVec[0].len]" inp L ;;
  if (code ch <=? 32) || is_byte_white ch then Ok true
  else
    sl <- (if beq ch x2f then
             (c <- get "notWhitelist:input[tokenVec[0].len+1]" inp (L + 1) ;; Ok (beq c x2a))
           else Ok false) ;;
    if (sl : bool) then Ok true
    else
      dd <- (if beq ch x2d then
               (c <- get "notWhitelist:input[tokenVec[0].len+1]" inp (L + 1) ;; Ok (beq c x2d))
             else Ok false) ;;
      Ok dd.

Lemma hdsig_get t1 t2 v : tq t1 t2 -> get "notWhitelist:tokenVec[1].val[0]" (t_val t2) 0 = Ok v ->
  exists v', get "notWhitelist:tokenVec[1].val[0]" (t_val t1) 0 = Ok v' /\
             beq v' x23 = beq v x23 /\ beq v' x2f = beq v x2f /\
             ((2 <? t_len t1) && beq v' x2d) = ((2 <? t_len t2) && beq v x2d).
Proof.
  intros T G. apply tq_hdsig in T. unfold hdsig in T.
  destruct (t_val t2) as [|c2 r2]; [discriminate G|]. cbn in G. inversion G; subst c2.
  destruct (t_val t1) as [|c1 r1]; [discriminate T|]. inversion T. exists c1. cbn. auto.
Qed.

Lemma nonloose_exact t1 t2 c : tq t1 t2 -> cat_is t2 c = true -> nonloose c = true -> teq t1 t2.
Proof.
  intros T C N. apply (tq_exact _ _ T). intros L. unfold cat_is in C.
  rewrite (loose_beq _ _ L N) in C. discriminate C.
Qed.

Lemma nw_transfer sV sR fp wV wR :
  Forall2 tq wV wR -> n_tokens (st sV) = n_tokens (st sR) ->
  contains (input sR) sp_password = false ->
  (forall t0, wget "notWhitelist:tokenVec[0]" wR 0 = Ok t0 -> cat_is t0 b_sqli_token_type_number = true ->
              rawtest (input sV) (t_len t0) = rawtest (input sR) (t_len t0)) ->
  not_whitelist sR fp wR = Ok true -> not_whitelist sV fp wV = Ok true.
Proof.
  intros W Nt Sp Raw E. unfold not_whitelist in *. fold sp_password in *. rewrite Sp in E. rewrite Nt.
  cbv zeta in *.
  (* the sp_password shortcut can only help the variant *)
  assert (EV : exists e, (if 1 <? len fp
                then lc <- get "notWhitelist:fingerprint[length-1]" fp (len fp - 1);;
                     Ok (beq lc b_sqli_token_type_comment && contains (input sV) sp_password)
                else Ok false) = Ok e /\
               (if 1 <? len fp
                then lc <- get "notWhitelist:fingerprint[length-1]" fp (len fp - 1);;
                     Ok (beq lc b_sqli_token_type_comment && false)
                else Ok false) = Ok false).
  { destruct (1 <? len fp); [|eauto].
    destruct (get "notWhitelist:fingerprint[length-1]" fp (len fp - 1)); cbn [bind] in *; try discriminate E.
    rewrite andb_false_r. eauto. }
  destruct EV as [e [EV ER]]. rewrite EV. rewrite ER in E. cbn [bind] in *. destruct e; [reflexivity|].
  clear EV ER.
  destruct (len fp =? 2).
  - (* two tokens *)
    destruct (get "notWhitelist:fingerprint[1]" fp 1) as [f1| | |]; cbn [bind] in *; try discriminate E.
    destruct (beq f1 b_sqli_token_type_union); [exact E|].
    inv_bind E. rename a into t1R.
    destruct (wget_simK _ _ _ _ _ W E0) as [t1V [G1 T1]]. rewrite G1. cbn [bind].
    inv_bind E. rename a into v0.
    destruct (hdsig_get _ _ _ T1 E1) as [v' [Gv (H1 & H2 & H3)]]. rewrite Gv. cbn [bind].
    rewrite H1, H2. destruct (beq v0 x23); [exact E|].
    inv_bind E. rename a into t0R.
    destruct (wget_simK _ _ _ _ _ W E2) as [t0V [G0 T0]]. rewrite G0. cbn [bind].
    unfold cat_is in *. rewrite (tq_cat _ _ T0), (tq_cat _ _ T1), H3.
    destruct (beq (t_cat t0R) b_sqli_token_type_bare_word && beq (t_cat t1R) cC && negb (beq v0 x2f)); [exact E|].
    destruct (beq (t_cat t0R) cN && beq (t_cat t1R) cC && beq v0 x2f); [exact E|].
    destruct (beq (t_cat t0R) cN && beq (t_cat t1R) cC) eqn:NC; [|exact E].
    destruct (2 <? n_tokens (st sR)); [exact E|].
    assert (L0 : t_len t0V = t_len t0R).
    { pose proof NC as NC'. apply andb_true_iff in NC'. destruct NC' as [NC' _].
      destruct (nonloose_exact _ _ cN T0 NC' eq_refl) as (L & _). exact L. }
    rewrite L0. apply andb_true_iff in NC. destruct NC as [NC _].
    pose proof (Raw _ E2 NC) as R. unfold rawtest in R. rewrite R. exact E.
  - destruct (len fp =? 3); [|exact E].
    destruct (bytes_eqb fp (bs "sos") || bytes_eqb fp (bs "s&s")).
    + inv_bind E. rename a into t0R. destruct (wget_simK _ _ _ _ _ W E0) as [t0V [G0 T0]]. rewrite G0. cbn [bind].
      inv_bind E. rename a into t2R. destruct (wget_simK _ _ _ _ _ W E1) as [t2V [G2 T2]]. rewrite G2. cbn [bind].
      rewrite (tq_open _ _ T0), (tq_close _ _ T0), (tq_open _ _ T2), (tq_close _ _ T2). exact E.
    + destruct (_ && (n_tokens (st sR) =? 3)); [exact E|].
      inv_bind E. rename a into t1R. destruct (wget_simK _ _ _ _ _ W E0) as [t1V [G1 T1]]. rewrite G1. cbn [bind].
      unfold cat_is in *. rewrite (tq_cat _ _ T1).
      destruct (beq (t_cat t1R) b_sqli_token_type_keyword) eqn:K; [|exact E].
      destruct (nonloose_exact _ _ b_sqli_token_type_keyword T1 K eq_refl) as (L & _ & _ & _ & _ & V).
      rewrite L, V. exact E.
Qed.


(* the raw test looks at an offset inside the common prefix, or at the whitespace that follows it *)
Lemma rawtest_front a w w0 y y0 L : isW w = true -> isW w0 = true -> L <= len a ->
  rawtest (a ++ w :: y) L = rawtest (a ++ w0 :: y0) L.
Proof.
  intros Hw Hw0 HL. unfold rawtest.
  destruct (Z.eq_dec L (len a)) as [->|Hn].
  - rewrite !get_app_n. cbn [bind]. unfold isW in *. rewrite Hw, Hw0, !orb_true_r. reflexivity.
  - rewrite (get_app_l _ a (w :: y) L), (get_app_l _ a (w0 :: y0) L) by lia.
    destruct (get "notWhitelist:input[tokenVec[0].len]" a L) as [ch| | |]; cbn [bind]; try reflexivity.
    destruct ((code ch <=? 32) || is_byte_white ch); [reflexivity|].
    assert (N : forall c, isW c = false ->
              (c0 <- get "notWhitelist:input[tokenVec[0].len+1]" (a ++ w :: y) (L + 1);; Ok (beq c0 c))
              = (c0 <- get "notWhitelist:input[tokenVec[0].len+1]" (a ++ w0 :: y0) (L + 1);; Ok (beq c0 c))).
    { intros c Hc. destruct (Z.eq_dec (L + 1) (len a)) as [->|Hn1].
      - rewrite !get_app_n. cbn [bind]. rewrite (isW_beq w c Hw Hc), (isW_beq w0 c Hw0 Hc). reflexivity.
      - rewrite (get_app_l _ a (w :: y) (L + 1)), (get_app_l _ a (w0 :: y0) (L + 1)) by lia. reflexivity. }
    rewrite (N x2a eq_refl), (N x2d eq_refl). reflexivity.
Qed.


(* ---------- the cascade ---------- *)

Definition verdictP (inp : bytes) (fl : Z) : Prop :=
  exists fp bl x, fingerprint_ctx inp fl = Ok (fp, bl, true, x).

Definition gateP (inp : bytes) (fl : Z) : Prop :=
  exists fp bl v x, fingerprint_ctx inp fl = Ok (fp, bl, v, x) /\ mysql_gate x = true.

(* a reading that fires, and that the cascade reaches unless an earlier one fires *)
Definition fires (inp : bytes) : Prop :=
  verdictP inp ctx_none_ansi
  \/ (gateP inp ctx_none_ansi /\ verdictP inp ctx_none_mysql)
  \/ (has_byte inp b_byte_single = true /\ verdictP inp ctx_single_ansi)
  \/ (has_byte inp b_byte_single = true /\ gateP inp ctx_single_ansi /\ verdictP inp ctx_single_mysql)
  \/ (has_byte inp b_byte_double = true /\ verdictP inp ctx_double_mysql).

Ltac reading inp fl :=
  let fp := fresh "fp" in let bl := fresh "bl" in let v := fresh "v" in let x := fresh "x" in
  let E := fresh "E" in
  destruct (fingerprint_ctx_total inp fl) as (fp & bl & v & x & E); rewrite E; cbn [bind];
  destruct v; [eexists; reflexivity|].

Ltac clash :=
  match goal with
  | H1 : fingerprint_ctx ?i ?f = Ok _, H2 : fingerprint_ctx ?i ?f = Ok _ |- _ =>
      rewrite H1 in H2; inversion H2; subst; clear H2
  end.

Theorem cascade_detect inp : inp <> [] -> fires inp -> exists fp, is_sqli inp = Ok (true, fp).
Proof.
  intros Hne F. rewrite is_sqli_cascade. unfold cascade.
  assert (L : (len inp =? 0) = false).
  { destruct inp; [congruence|]. rewrite len_cons. pose proof (len_nonneg inp). lia. }
  rewrite L. cbv zeta. unfold ansi_then_mysql, try_reading.
  fold ctx_none_ansi ctx_none_mysql ctx_single_ansi ctx_single_mysql.
  change (Z.lor c_sqli_flag_quote_none c_sqli_flag_sqlansi) with ctx_none_ansi.
  change (Z.lor c_sqli_flag_quote_none c_sqli_flag_sqlmysql) with ctx_none_mysql.
  change (Z.lor c_sqli_flag_quote_single c_sqli_flag_sqlansi) with ctx_single_ansi.
  change (Z.lor c_sqli_flag_quote_single c_sqli_flag_sqlmysql) with ctx_single_mysql.
  unfold fires, verdictP, gateP in F.
  repeat match goal with
         | F : _ \/ _ |- _ => destruct F as [F|F]
         | F : _ /\ _ |- _ => destruct F
         | F : exists _, _ |- _ => destruct F
         end.
  all: repeat first
         [ match goal with |- exists _, Ok (true, _) = Ok (true, _) => eexists; reflexivity end
         | match goal with
           | H1 : fingerprint_ctx ?i ?f = Ok _, H2 : fingerprint_ctx ?i ?f = Ok _ |- _ =>
               rewrite H1 in H2; first [discriminate H2 | inversion H2; subst; clear H2]
           end
         | match goal with
           | H : fingerprint_ctx ?i ?f = Ok _ |- context [fingerprint_ctx ?i ?f] => rewrite H; cbn [bind]
           end
         | match goal with
           | |- context [fingerprint_ctx ?i ?f] => reading i f
           end
         | match goal with
           | H : mysql_gate ?x = true |- context [mysql_gate ?x] => rewrite H
           | H : has_byte ?i ?c = true |- context [has_byte ?i ?c] => rewrite H
           end
         | match goal with
           | |- context [if mysql_gate ?x then _ else _] => destruct (mysql_gate x) eqn:?
           | |- context [if has_byte ?i ?c then _ else _] => destruct (has_byte i c) eqn:?
           | |- context [if ?v then _ else _] => is_var v; destruct v
           end ].
Qed.


(* ---------- slot by slot ---------- *)

(* the reading fl0 of V against the reading fl0 of R: same fingerprint, windows related
   token by token, same statistics *)
Definition fpsim (fl0 : Z) (V R : bytes) : Prop :=
  forall fp wR sR, sqli_fingerprint (sqli_init R 0) fl0 = Ok (fp, wR, sR) ->
    exists wV sV, sqli_fingerprint (sqli_init V 0) fl0 = Ok (fp, wV, sV) /\
                  Forall2 tq wV wR /\ st sV = st sR.

Lemma Forall2_tq_refl w : Forall2 tq w w.
Proof. induction w; constructor; [apply tq_refl|assumption]. Qed.

Lemma Forall2_tq_trans w1 w2 w3 : Forall2 tq w1 w2 -> Forall2 tq w2 w3 -> Forall2 tq w1 w3.
Proof.
  intros H. revert w3. induction H as [|x y l1 l2 Hxy H IH]; intros w3 H3; inversion H3; subst; constructor.
  - eapply tq_trans; eassumption.
  - apply IH. assumption.
Qed.

Lemma fpsim_refl fl0 V : fpsim fl0 V V.
Proof. intros fp w s E. exists w, s. split; [exact E|]. split; [apply Forall2_tq_refl|reflexivity]. Qed.

Lemma fpsim_trans fl0 X Y Z : fpsim fl0 X Y -> fpsim fl0 Y Z -> fpsim fl0 X Z.
Proof.
  intros H1 H2 fp wZ sZ E. destruct (H2 _ _ _ E) as (wY & sY & EY & FY & SY).
  destruct (H1 _ _ _ EY) as (wX & sX & EX & FX & SX). exists wX, sX. split; [exact EX|].
  split; [eapply Forall2_tq_trans; eassumption|congruence].
Qed.

Lemma wrun_inv run : wrun run -> exists w r, run = w :: r /\ isW w = true /\ forallb isW r = true.
Proof.
  unfold wrun, wrunb. destruct run as [|w r]; [discriminate|]. cbn [forallb]. intros H.
  apply andb_true_iff in H. destruct H. eauto.
Qed.

Definition ctxs : list Z := [9; 17; 10; 18; 20].

(* what a run inside a `--` comment must look like, for the reference separator w0 *)
Definition crun_ok (w0 : byte) (run b : bytes) : Prop :=
  if beq w0 x0a then hd x00 run = x0a
  else no_nl run = true \/ (hd x00 run <> x0a /\ b = []).

(* one slot, of any of the three kinds *)
Lemma slot_fpsim a b w0 run fl0 vw k :
  isW w0 = true -> isWv w0 = true -> wrun run -> (vw = true -> isWv (hd x00 run) = true) ->
  (k = K_comment -> crun_ok w0 run b) ->
  In fl0 ctxs -> kind_slot k vw w0 a fl0 = true ->
  fpsim fl0 (a ++ run ++ b) (a ++ [w0] ++ b).
Proof.
  intros Hw0 Hv0 Hr Hv Hn Hfl T. destruct (wrun_inv _ Hr) as (w & r & -> & Hw & Hrr).
  intros fp wR sR E.
  refine (slot_fingerprint a b w0 w r fl0 vw k Hw0 Hw Hrr (fun _ => Hv0) Hv _ Hfl T fp wR sR E).
  intros Kc. specialize (Hn Kc). unfold crun_ok in Hn. cbn [hd] in Hn.
  destruct (beq w0 x0a) eqn:E0.
  - apply beq_eq in E0. right. left. auto.
  - apply beq_neq in E0. destruct (no_nl (w :: r)) eqn:NL; [left; auto|].
    destruct Hn as [Hn|[Hn1 Hn2]]; [discriminate Hn|]. right. right. auto.
Qed.

(* every slot, from left to right; acc is the part of the reference string already passed *)
Definition slot_ok (w0 : byte) (fl0 : Z) (a : bytes) (run b : bytes) : Prop :=
  exists k, kind_slot k (isWv (hd x00 run)) w0 a fl0 = true /\ (k = K_comment -> crun_ok w0 run b).

Fixpoint slots_ok (w0 : byte) (fl0 : Z) (acc : bytes) (segs : list bytes) (ws : list bytes) : Prop :=
  match segs, ws with
  | s :: ((_ :: _) as rest), run :: ws' =>
      slot_ok w0 fl0 (acc ++ s) run (instw ws' rest) /\
      slots_ok w0 fl0 (acc ++ s ++ [w0]) rest ws'
  | _, _ => True
  end.

Lemma all_slots w0 fl0 : isW w0 = true -> isWv w0 = true -> In fl0 ctxs ->
  forall segs ws acc, Forall wrun ws -> S (List.length ws) = List.length segs ->
    slots_ok w0 fl0 acc segs ws ->
    fpsim fl0 (acc ++ instw ws segs) (acc ++ inst [w0] segs).
Proof.
  intros Hw0 Hv0 Hfl. induction segs as [|s rest IH]; intros ws acc Hr Hl Hs.
  - apply fpsim_refl.
  - destruct rest as [|s2 rest'].
    + apply fpsim_refl.
    + destruct ws as [|run ws']; [cbn in Hl; lia|].
      inversion Hr as [|? ? Hrun Hr']; subst.
      cbn [slots_ok] in Hs. destruct Hs as [T Hs'].
      change (instw (run :: ws') (s :: s2 :: rest')) with (s ++ run ++ instw ws' (s2 :: rest')).
      change (inst [w0] (s :: s2 :: rest')) with (s ++ [w0] ++ inst [w0] (s2 :: rest')).
      apply fpsim_trans with (Y := acc ++ s ++ [w0] ++ instw ws' (s2 :: rest')).
      * rewrite !(app_assoc acc s). destruct T as (k & T & N).
        apply (slot_fpsim (acc ++ s) _ w0 run fl0 (isWv (hd x00 run)) k); auto.
      * specialize (IH ws' (acc ++ s ++ [w0]) Hr' ltac:(cbn [List.length] in *; lia) Hs').
        rewrite <- !app_assoc in IH. exact IH.
Qed.

Lemma slot_ok_of_req w0 fl0 a run b be : slot_kind w0 a fl0 <> None ->
  run_okw w0 (slot_req w0 a fl0) be run -> (be = true -> b = []) ->
  slot_ok w0 fl0 a run b.
Proof.
  unfold slot_req, run_okw, slot_ok. intros K [R1 R2] Hb.
  destruct (slot_kind w0 a fl0) as [k|] eqn:SK; [|congruence]. cbn [fst snd] in *.
  assert (KT : kind_slot k true w0 a fl0 = true).
  { unfold slot_kind in SK. destruct (top_slot true w0 a fl0) eqn:T1; [inversion SK; subst; exact T1|].
    destruct (comment_slot true w0 a fl0) eqn:T2; [inversion SK; subst; exact T2|].
    destruct (string_slot true w0 a fl0) eqn:T3; [inversion SK; subst; exact T3|discriminate SK]. }
  exists k. split.
  - destruct (isWv (hd x00 run)) eqn:V; [exact KT|].
    destruct (kind_slot k false w0 a fl0) eqn:T0; [reflexivity|]. specialize (R1 eq_refl). congruence.
  - intros ->. specialize (R2 eq_refl). unfold crun_ok. destruct (beq w0 x0a); [exact R2|].
    destruct R2 as [R2|[R2 R3]]; [left; exact R2|right; split; [exact R2|apply Hb; exact R3]].
Qed.

Lemma slots_ok_of_chk w0 fl0 : forall segs ws acc,
  S (List.length ws) = List.length segs ->
  forallb (fun a => match slot_kind w0 a fl0 with Some _ => true | None => false end) (prefixes [w0] acc segs) = true ->
  runs_okw w0 (map (fun a => slot_req w0 a fl0) (prefixes [w0] acc segs)) (last_empty segs) ws ->
  slots_ok w0 fl0 acc segs ws.
Proof.
  induction segs as [|s rest IH]; intros ws acc Hl Hc Hr; [exact I|].
  destruct rest as [|s2 rest']; [exact I|].
  destruct ws as [|run ws']; [exact I|].
  cbn [prefixes forallb map] in Hc, Hr. apply andb_true_iff in Hc. destruct Hc as [Hc1 Hc2].
  unfold runs_okw in Hr. cbn [last_empty combine] in Hr. inversion Hr as [|? ? ? ? Hr1 Hr2]; subst.
  cbn [slots_ok]. split.
  - cbn [fst snd] in Hr1. eapply slot_ok_of_req; [|exact Hr1|].
    + destruct (slot_kind w0 (acc ++ s) fl0); [discriminate|discriminate Hc1].
    + intros Hb. destruct rest' as [|s3 rest'']; [|discriminate Hb]. destruct s2; [|discriminate Hb].
      destruct ws' as [|x ws'']; [reflexivity|cbn in Hl; lia].
  - apply IH; [cbn [List.length] in *; lia|exact Hc2|exact Hr2].
Qed.

(* a byte that is not whitespace occurs in the variant if it occurs in the reference string *)
Lemma has_byte_In inp c : has_byte inp c = true <-> In c inp.
Proof.
  unfold has_byte. destruct (index_byte_cases inp c) as [[I N]|[I N]].
  - rewrite I. cbn. split; [discriminate|contradiction].
  - replace (index_byte inp c =? -1) with false by lia. cbn. split; [intros _|reflexivity].
    eapply nth_error_In. exact N.
Qed.

Lemma In_instw c w0 : c <> w0 -> forall segs ws, In c (inst [w0] segs) -> In c (instw ws segs).
Proof.
  intros Hc. induction segs as [|s rest IH]; intros ws H; [exact H|].
  destruct rest as [|s2 rest']; [exact H|].
  change (inst [w0] (s :: s2 :: rest')) with (s ++ [w0] ++ inst [w0] (s2 :: rest')) in H.
  apply in_app_or in H. destruct H as [H|H].
  - destruct ws as [|run ws']; cbn [instw]; apply in_or_app; left; exact H.
  - cbn [app In] in H. destruct H as [H|H]; [congruence|].
    destruct ws as [|run ws'].
    + change (instw [] (s :: s2 :: rest')) with (s ++ instw [] (s2 :: rest')).
      apply in_or_app. right. apply IH. exact H.
    + change (instw (run :: ws') (s :: s2 :: rest')) with (s ++ run ++ instw ws' (s2 :: rest')).
      apply in_or_app. right. apply in_or_app. right. apply IH. exact H.
Qed.

Lemma has_byte_instw c w0 segs ws : isW w0 = true -> isW c = false ->
  has_byte (inst [w0] segs) c = true -> has_byte (instw ws segs) c = true.
Proof.
  intros Hw Hc H. apply has_byte_In. apply has_byte_In in H. apply (In_instw c w0); [congruence|exact H].
Qed.

(* ---------- one member of the grammar ---------- *)

Lemma gate_spec fl V R : gate_of_reading R fl = true -> fpsim fl V R -> gateP V fl.
Proof.
  intros G F. unfold gate_of_reading, fingerprint_ctx in G.
  destruct (sqli_fingerprint (sqli_init R 0) fl) as [[[fp wR] sR]| | |] eqn:E; cbn [bind] in G; try discriminate G.
  destruct (check_fingerprint sR fp wR) as [v| | |]; cbn [bind] in G; try discriminate G.
  destruct (F _ _ _ E) as (wV & sV & EV & _ & SV).
  destruct (fingerprint_ctx_total V fl) as (fp' & bl & v' & x & EX).
  exists fp', bl, v', x. split; [exact EX|].
  unfold fingerprint_ctx in EX. rewrite EV in EX. cbn [bind] in EX.
  destruct (check_fingerprint sV fp wV); cbn [bind] in EX; try discriminate EX.
  inversion EX; subst. rewrite SV. exact G.
Qed.

Lemma fire_spec w0 segs ws fl :
  isW w0 = true -> Forall wrun ws -> S (List.length ws) = List.length segs ->
  fire_chk w0 segs fl = true -> fpsim fl (instw ws segs) (inst [w0] segs) ->
  verdictP (instw ws segs) fl.
Proof.
  intros Hw0 Hr Hl C F. unfold fire_chk in C.
  destruct (sqli_fingerprint (sqli_init (inst [w0] segs) 0) fl) as [[[fp wR] sR]| | |] eqn:E; try discriminate C.
  destruct (check_fingerprint sR fp wR) as [[|]| | |] eqn:CK; try discriminate C.
  apply andb_true_iff in C. destruct C as [Csp Craw]. apply negb_true_iff in Csp.
  destruct (F _ _ _ E) as (wV & sV & EV & FW & SV).
  pose proof (sqli_fingerprint_keeps_input _ _ _ _ _ E) as IR. cbn [input sqli_init] in IR.
  pose proof (sqli_fingerprint_keeps_input _ _ _ _ _ EV) as IV. cbn [input sqli_init] in IV.
  pose proof (check_fingerprint_true _ _ _ CK) as B.
  exists fp, (blacklist fp), (st sV). unfold fingerprint_ctx. rewrite EV. cbn [bind].
  unfold check_fingerprint in *. rewrite B in *.
  rewrite (nw_transfer sV sR fp wV wR FW ltac:(rewrite SV; reflexivity)); [reflexivity| | |exact CK].
  - rewrite IR. exact Csp.
  - intros t0 G0 Cn. rewrite IR, IV.
    destruct segs as [|s0 rest]; [reflexivity|]. destruct rest as [|s1 rest']; [reflexivity|].
    destruct ws as [|run ws']; [cbn in Hl; lia|].
    inversion Hr as [|? ? Hrun _]; subst. destruct (wrun_inv _ Hrun) as (w & r & -> & Hw & _).
    change (instw ((w :: r) :: ws') (s0 :: s1 :: rest')) with (s0 ++ w :: (r ++ instw ws' (s1 :: rest'))).
    change (inst [w0] (s0 :: s1 :: rest')) with (s0 ++ w0 :: inst [w0] (s1 :: rest')).
    apply rawtest_front; [exact Hw|exact Hw0|].
    unfold wget in G0. cbn in G0. destruct wR as [|t0' wR']; [discriminate G0|]. inversion G0; subst t0'.
    rewrite Cn in Craw. cbn [negb orb] in Craw. lia.
Qed.


Lemma runs_ok_or_l w0 l1 l2 bes ws : runs_okw w0 (or_reqs l1 l2) bes ws -> List.length l1 = List.length l2 ->
  runs_okw w0 l1 bes ws.
Proof.
  unfold runs_okw. revert l2 bes ws. induction l1 as [|[x1 y1] l1 IH]; intros [|[x2 y2] l2] bes ws H L; try discriminate L.
  - cbn [or_reqs combine] in *. exact H.
  - cbn [or_reqs] in H. destruct bes as [|be bes]; cbn [combine] in *; [exact H|].
    inversion H as [|? ? ? ? H1 H2]; subst. constructor.
    + destruct H1 as [A B]. cbn [fst snd] in *. split; cbn [fst snd].
      * intros X. subst. apply A. reflexivity.
      * intros X. subst. apply B. reflexivity.
    + apply (IH l2); [exact H2|cbn in L; lia].
Qed.

Lemma runs_ok_or_r w0 l1 l2 bes ws : runs_okw w0 (or_reqs l1 l2) bes ws -> List.length l1 = List.length l2 ->
  runs_okw w0 l2 bes ws.
Proof.
  unfold runs_okw. revert l2 bes ws. induction l1 as [|[x1 y1] l1 IH]; intros [|[x2 y2] l2] bes ws H L; try discriminate L.
  - cbn [or_reqs combine] in *. exact H.
  - cbn [or_reqs] in H. destruct bes as [|be bes]; cbn [combine] in *; [exact H|].
    inversion H as [|? ? ? ? H1 H2]; subst. constructor.
    + destruct H1 as [A B]. cbn [fst snd] in *. split; cbn [fst snd].
      * intros X. subst. apply A. apply orb_true_r.
      * intros X. subst. apply B. apply orb_true_r.
    + apply (IH l2); [exact H2|cbn in L; lia].
Qed.

Lemma reqs_length w0 segs f g : List.length (reqs w0 segs f) = List.length (reqs w0 segs g).
Proof. unfold reqs. rewrite !map_length. reflexivity. Qed.

(* the reading fl of the variant against the reading fl of the reference string *)
Lemma reading_fpsim w0 segs ws fl :
  isW w0 = true -> isWv w0 = true -> In fl ctxs ->
  Forall wrun ws -> S (List.length ws) = List.length segs ->
  slots_chk w0 segs fl = true -> runs_okw w0 (reqs w0 segs fl) (last_empty segs) ws ->
  fpsim fl (instw ws segs) (inst [w0] segs).
Proof.
  intros Hw0 Hv0 Hfl Hr Hl C R.
  apply (all_slots w0 fl Hw0 Hv0 Hfl segs ws [] Hr Hl).
  apply slots_ok_of_chk; assumption.
Qed.

Lemma instw_nonempty w0 ws segs : Forall wrun ws -> S (List.length ws) = List.length segs ->
  inst [w0] segs <> [] -> instw ws segs <> [].
Proof.
  intros Hr Hl Hn. destruct segs as [|s rest]; [exact Hn|]. destruct rest as [|s2 rest']; [exact Hn|].
  destruct ws as [|run ws']; [cbn in Hl; lia|]. inversion Hr as [|? ? Hrun _]; subst.
  destruct (wrun_inv _ Hrun) as (w & r & -> & _).
  change (instw ((w :: r) :: ws') (s :: s2 :: rest')) with (s ++ (w :: r) ++ instw ws' (s2 :: rest')).
  intros E. apply app_eq_nil in E. destruct E as [_ E]. discriminate E.
Qed.

(* w0 is the reference separator: the blank, or the newline *)
Theorem member_detect_gen w0 segs ws s : w0 = x20 \/ w0 = x0a ->
  member_chk w0 segs = true -> wsfill segs ws s -> runs_okw w0 (need w0 segs) (last_empty segs) ws ->
  exists fp, is_sqli s = Ok (true, fp).
Proof.
  intros H0 C (Hl & Hr & ->) RV. unfold member_chk in C. unfold need in RV.
  assert (W0 : isW w0 = true) by (destruct H0; subst; reflexivity).
  assert (V0 : isWv w0 = true) by (destruct H0; subst; reflexivity).
  destruct (plan_of (inst [w0] segs)) as [p|] eqn:PL; [|discriminate C].
  apply andb_true_iff in C. destruct C as [C Chas]. apply andb_true_iff in C. destruct C as [C Cgate].
  apply andb_true_iff in C. destruct C as [Cslots Cfire].
  assert (Hne : instw ws segs <> []).
  { apply (instw_nonempty w0); try assumption. intros E. rewrite E in PL. vm_compute in PL. discriminate PL. }
  apply cascade_detect; [exact Hne|]. unfold fires.
  assert (SIM : forall fl, In fl ctxs -> slots_chk w0 segs fl = true -> runs_okw w0 (reqs w0 segs fl) (last_empty segs) ws ->
                           fpsim fl (instw ws segs) (inst [w0] segs)).
  { intros fl Hfl Hc Hv. apply reading_fpsim; assumption. }
  assert (HB : forall c, isW c = false -> has_byte (inst [w0] segs) c = true -> has_byte (instw ws segs) c = true).
  { intros c Hc. apply has_byte_instw; [exact W0|exact Hc]. }
  destruct p; unfold reqs_plan, readings_of in *; cbn [plan_readings fst snd forallb] in *;
    rewrite ?andb_true_r in Cslots.
  - left. apply (fire_spec w0 segs ws); try assumption. apply SIM; [cbn; auto|exact Cslots|exact RV].
  - apply andb_true_iff in Cslots. destruct Cslots as [S1 S2].
    right. left. split.
    + apply (gate_spec _ _ _ Cgate). apply SIM; [cbn; auto|exact S1|].
      eapply runs_ok_or_l; [exact RV|apply reqs_length].
    + apply (fire_spec w0 segs ws); try assumption. apply SIM; [cbn; auto|exact S2|].
      eapply runs_ok_or_r; [exact RV|apply reqs_length].
  - right. right. left. split; [apply HB; [reflexivity|exact Chas]|].
    apply (fire_spec w0 segs ws); try assumption. apply SIM; [cbn; auto|exact Cslots|exact RV].
  - apply andb_true_iff in Cslots. destruct Cslots as [S1 S2].
    right. right. right. left. split; [apply HB; [reflexivity|exact Chas]|]. split.
    + apply (gate_spec _ _ _ Cgate). apply SIM; [cbn; auto 6|exact S1|].
      eapply runs_ok_or_l; [exact RV|apply reqs_length].
    + apply (fire_spec w0 segs ws); try assumption. apply SIM; [cbn; auto 6|exact S2|].
      eapply runs_ok_or_r; [exact RV|apply reqs_length].
  - right. right. right. right. split; [apply HB; [reflexivity|exact Chas]|].
    apply (fire_spec w0 segs ws); try assumption. apply SIM; [cbn; auto 6|exact Cslots|exact RV].
Qed.

(* the two reference separators *)
Theorem member_detect segs ws s :
  wsfill segs ws s ->
  (member_chk x20 segs = true /\ runs_okw x20 (need x20 segs) (last_empty segs) ws)
  \/ (member_chk x0a segs = true /\ runs_okw x0a (need x0a segs) (last_empty segs) ws) ->
  exists fp, is_sqli s = Ok (true, fp).
Proof.
  intros F [[C R]|[C R]].
  - exact (member_detect_gen x20 segs ws s (or_introl eq_refl) C F R).
  - exact (member_detect_gen x0a segs ws s (or_intror eq_refl) C F R).
Qed.

Print Assumptions member_detect.
