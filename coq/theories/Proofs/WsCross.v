(* WsCross: a comment that starts in front of a separator slot and runs across it
   (C03, whitespace runs: slots inside a trailing `--` comment).

   The input is  a ++ ws ++ b  with ws a non-empty run of whitespace without a
   newline.  A `--` comment that starts in a, with no newline left in a, is read
   up to the first newline of b (or to the end of the input): its token differs
   from one ws to another only in its length and text, and the scanner resumes at
   the same offset of b. *)
From Coq Require Import List ZArith String Bool Lia ZifyBool.
From Coq.Strings Require Import Byte.
From LI Require Import Prelude Base SqliLex SqliFold Proofs.BaseFacts Proofs.Wp Proofs.LexBase Proofs.LexSpec
  Spec.WsSpec Proofs.WsBase Proofs.WsLocal.
From LIGen Require Import Tables Dispatch Consts.
Import ListNotations.
Local Open Scope Z_scope.

Lemma index_byte_no_nl ws : no_nl ws = true -> index_byte ws x0a = -1.
Proof.
  induction ws as [|c ws IH]; cbn [no_nl forallb index_byte]; [reflexivity|].
  intros H. apply andb_true_iff in H. destruct H as [H1 H2]. apply negb_true_iff in H1.
  rewrite H1. fold (no_nl ws) in H2. rewrite (IH H2). reflexivity.
Qed.

Lemma tokenize_loop_white_c f s t ch :
  pos s < slen s -> get "tokenize:input[pos]" (input s) (pos s) = Ok ch ->
  is_white_id (dispatch ch) = true -> t_cat t = x00 ->
  tokenize_loop (S f) s t = tokenize_loop f (set_pos s (pos s + 1)) t.
Proof.
  intros P G W C. cbn [tokenize_loop]. replace (pos s <? slen s) with true by lia.
  unfold at_. rewrite G. cbn [bind]. destruct (dispatch ch); try discriminate W.
  cbn [run_parser]. unfold parse_white. cbn [bind]. rewrite C. cbn [beq negb]. reflexivity.
Qed.

Section Cross.

Context (a : bytes) (fl : Z).
Notation n := (len a).

(* the `--` at offset p opens a comment, whatever whitespace byte follows a *)
Definition dash_comment (p : Z) : bool :=
  (p + 2 <=? n) && beq (ab a (p + 1)) x2d
  && ((p + 2 =? n) || is_byte_white (ab a (p + 2)) || negb (Z.land fl c_sqli_flag_sqlansi =? 0)).

(* the statistics after the comment lexer: `--x` (ANSI only) counts as ddx *)
Definition dash_stats (p : Z) (stt : stats) : stats :=
  if (p + 2 =? n) || is_byte_white (ab a (p + 2)) then stt
  else mkStats (n_ddx stt + 1) (n_hash stt) (n_folds stt) (n_tokens stt).

Lemma parse_dash_front p stt t0 f rest : isW f = true -> 0 <= p -> dash_comment p = true ->
  parse_dash (mkSt (a ++ f :: rest) fl p stt) t0
  = parse_eol_comment (mkSt (a ++ f :: rest) fl p (dash_stats p stt)) t0.
Proof.
  intros Hf Hp D. unfold dash_comment in D. apply andb_true_iff in D. destruct D as [D D3].
  apply andb_true_iff in D. destruct D as [D1 D2].
  unfold parse_dash, at_, slen, has_flag, set_stats. cbn [input flags pos st].
  rewrite len_app, len_cons. pose proof (len_nonneg rest) as Lr.
  replace (p + 2 <? n + (1 + len rest)) with true by lia.
  rewrite (getI_lt a f f rest Hf Hf "parseDash:1" (p + 1)) by lia. cbn [bind]. rewrite D2.
  rewrite (getI_le a f f rest Hf Hf "parseDash:1" (p + 2)) by lia. cbn [bind].
  unfold cI. unfold dash_stats.
  destruct (p + 2 =? n) eqn:E2.
  - unfold isW in Hf. rewrite Hf. cbn [orb bind]. reflexivity.
  - cbn [orb] in *. destruct (is_byte_white (ab a (p + 2))) eqn:W2; cbn [bind orb].
    + reflexivity.
    + replace (p + 2 =? n + (1 + len rest)) with false by lia. cbn [bind].
      replace (p + 1 <? n + (1 + len rest)) with true by lia.
      rewrite (getI_lt a f f rest Hf Hf "parseDash:3" (p + 1)) by lia. cbn [bind]. rewrite D2.
      cbn [orb] in D3. rewrite D3. cbn [andb]. reflexivity.
Qed.

(* the comment from offset p on: up to the first newline of b', or to the end *)
Lemma eol_cross p stt t0 ws b' : 0 <= p < n ->
  index_byte (skipn (Z.to_nat p) a) x0a = -1 -> no_nl ws = true ->
  parse_eol_comment (mkSt (a ++ ws ++ b') fl p stt) t0 =
  let s := mkSt (a ++ ws ++ b') fl p stt in
  let rest := skipn (Z.to_nat p) a ++ ws ++ b' in
  let idx := index_byte b' x0a in
  if idx =? -1 then bind (assign t0 b_sqli_token_type_comment p (n + len ws + len b' - p) rest) (fun t => Ok (s, t, n + len ws + len b'))
  else bind (assign t0 b_sqli_token_type_comment p (n - p + len ws + idx) rest)
            (fun t => Ok (s, t, p + (n - p + len ws + idx) + 1)).
Proof.
  intros Hp Na Nw. unfold parse_eol_comment, input_from, slen. cbn [input pos]. cbv zeta.
  rewrite drop_app_l by lia. cbn [bind].
  rewrite !index_byte_app, Na, (index_byte_no_nl ws Nw). change (0 <=? -1) with false. cbv iota.
  rewrite !len_app, (len_skipn_a a p) by lia.
  pose proof (index_byte_range b' x0a) as R.
  destruct (index_byte b' x0a <? 0) eqn:E.
  - change (-1 <? 0) with true. cbv iota. change (-1 =? -1) with true. cbv iota.
    replace (index_byte b' x0a =? -1) with true by lia.
    replace (n + (len ws + len b')) with (n + len ws + len b') by lia. reflexivity.
  - replace (len ws + index_byte b' x0a <? 0) with false by (pose proof (len_nonneg ws); lia). cbv iota.
    replace (n - p + (len ws + index_byte b' x0a) =? -1) with false by (pose proof (len_nonneg ws); lia).
    replace (index_byte b' x0a =? -1) with false by lia.
    replace (n - p + (len ws + index_byte b' x0a)) with (n - p + len ws + index_byte b' x0a) by lia. reflexivity.
Qed.

(* the comment token and the resume offset, as functions of the run and of the tail *)
Definition cross_len (p : Z) (ws b' : bytes) : Z :=
  let idx := index_byte b' x0a in
  if idx =? -1 then n + len ws + len b' - p else n - p + len ws + idx.

Definition cross_np (p : Z) (ws b' : bytes) : Z :=
  let idx := index_byte b' x0a in
  if idx =? -1 then n + len ws + len b' else n + len ws + idx + 1.

Definition cross_tokn (p : Z) (ws b' : bytes) : token :=
  mkTok p (Z.min (cross_len p ws b') 31) 0 b_sqli_token_type_comment x00 x00
        (firstn (Z.to_nat (Z.min (cross_len p ws b') 31)) (skipn (Z.to_nat p) a ++ ws ++ b')).

Lemma cross_len_range p ws b' : 0 <= p < n -> 0 <= cross_len p ws b' <= len (skipn (Z.to_nat p) a ++ ws ++ b').
Proof.
  intros Hp. unfold cross_len. rewrite !len_app, (len_skipn_a a p) by lia.
  pose proof (index_byte_range b' x0a). pose proof (len_nonneg ws). pose proof (len_nonneg b').
  destruct (index_byte b' x0a =? -1) eqn:E; lia.
Qed.

Lemma eol_cross_tok p stt ws b' : 0 <= p < n ->
  index_byte (skipn (Z.to_nat p) a) x0a = -1 -> no_nl ws = true ->
  parse_eol_comment (mkSt (a ++ ws ++ b') fl p stt) tok0
  = Ok (mkSt (a ++ ws ++ b') fl p stt, cross_tokn p ws b', cross_np p ws b').
Proof.
  intros Hp Na Nw. rewrite (eol_cross p stt tok0 ws b' Hp Na Nw). cbv zeta.
  pose proof (cross_len_range p ws b' Hp) as R. unfold cross_tokn, cross_np, cross_len in *.
  destruct (index_byte b' x0a =? -1) eqn:E.
  - rewrite assign_ok by lia. cbn [bind]. reflexivity.
  - rewrite assign_ok by lia. cbn [bind]. f_equal. f_equal. lia.
Qed.

(* ---------- a newline inside the run: the comment ends in the slot ---------- *)

(* ws = r1 ++ x0a :: r2 with no newline in r1 *)
Lemma eol_cross_mid p stt r1 r2 b' : 0 <= p < n ->
  index_byte (skipn (Z.to_nat p) a) x0a = -1 -> no_nl r1 = true ->
  parse_eol_comment (mkSt (a ++ (r1 ++ x0a :: r2) ++ b') fl p stt) tok0
  = Ok (mkSt (a ++ (r1 ++ x0a :: r2) ++ b') fl p stt,
        mkTok p (Z.min (n - p + len r1) 31) 0 b_sqli_token_type_comment x00 x00
              (firstn (Z.to_nat (Z.min (n - p + len r1) 31)) (skipn (Z.to_nat p) a ++ (r1 ++ x0a :: r2) ++ b')),
        n + len r1 + 1).
Proof.
  intros Hp Na Nw. unfold parse_eol_comment, input_from, slen. cbn [input pos].
  rewrite drop_app_l by lia. cbn [bind].
  rewrite <- !app_assoc. rewrite (index_byte_app (skipn (Z.to_nat p) a)), Na. change (0 <=? -1) with false. cbv iota.
  rewrite (index_byte_app r1), (index_byte_no_nl r1 Nw). change (0 <=? -1) with false. cbv iota.
  cbn [app index_byte]. change (beq x0a x0a) with true. cbv iota.
  change (0 <? 0) with false. cbv iota. rewrite Z.add_0_r.
  rewrite (len_skipn_a a p) by lia. pose proof (len_nonneg r1) as L1.
  replace (len r1 <? 0) with false by lia. cbv iota.
  replace (n - p + len r1 =? -1) with false by lia.
  rewrite assign_ok.
  - cbn [bind]. f_equal. f_equal. lia.
  - lia.
  - repeat rewrite ?len_app, ?len_cons. rewrite (len_skipn_a a p) by lia.
    pose proof (len_nonneg r2). pose proof (len_nonneg b'). lia.
Qed.

Definition mid_tokn (p : Z) (r1 r2 b' : bytes) : token :=
  mkTok p (Z.min (n - p + len r1) 31) 0 b_sqli_token_type_comment x00 x00
        (firstn (Z.to_nat (Z.min (n - p + len r1) 31)) (skipn (Z.to_nat p) a ++ (r1 ++ x0a :: r2) ++ b')).

(* the check of Spec/WsSpec.v *)
Lemma dash_commentb_eq p : dash_commentb a fl p = dash_comment p.
Proof. reflexivity. Qed.

Lemma cross_loop_sound w0 : forall F p, 0 <= p <= n -> cross_loop F w0 a fl p = true ->
  forall stt, exists p' stt', p <= p' /\ p' + 2 <= n /\ (n_tokens stt' = n_tokens stt) /\
    (* a run without newline: the comment runs across the slot *)
    (forall ws b' fuel, ws <> [] -> forallb isW ws = true -> no_nl ws = true ->
      n - p < Z.of_nat fuel ->
      tokenize_loop fuel (mkSt (a ++ ws ++ b') fl p stt) tok0
      = Ok (true, cross_tokn p' ws b', bump_tokens (mkSt (a ++ ws ++ b') fl (cross_np p' ws b') stt'))) /\
    (* a run with a newline: the comment ends in the slot *)
    (forall r1 r2 b' fuel, forallb isW (r1 ++ x0a :: r2) = true -> no_nl r1 = true ->
      n - p < Z.of_nat fuel ->
      tokenize_loop fuel (mkSt (a ++ (r1 ++ x0a :: r2) ++ b') fl p stt) tok0
      = Ok (true, mid_tokn p' r1 r2 b', bump_tokens (mkSt (a ++ (r1 ++ x0a :: r2) ++ b') fl (n + len r1 + 1) stt'))).
Proof.
  induction F as [|F IH]; intros p Hp E; [discriminate E|]. cbn [cross_loop] in E.
  destruct (n <=? p) eqn:Hn; [discriminate E|].
  destruct (get "" a p) as [ch| | |] eqn:G; try discriminate E.
  assert (Gi : forall ws b', get "tokenize:input[pos]" (a ++ ws ++ b') p = Ok ch).
  { intros ws b'. rewrite get_app_l by lia. exact (get_site _ _ _ _ _ G). }
  assert (SL : forall ws b', p < len (a ++ ws ++ b')).
  { intros ws b'. rewrite len_app. pose proof (len_nonneg (ws ++ b')). lia. }
  destruct (is_white_id (dispatch ch)) eqn:Wd.
  - intros stt. destruct (IH (p + 1) ltac:(lia) E stt) as (p' & stt' & R1 & R2 & R3 & H1 & H2).
    exists p', stt'. splits; try lia.
    + intros ws b' fuel Hne Hw Hnl Hf. destruct fuel as [|fuel]; [lia|].
      rewrite (tokenize_loop_white_c _ _ _ ch); [|unfold slen; cbn [pos input]; apply SL|apply Gi|exact Wd|reflexivity].
      unfold set_pos. cbn [input flags pos st]. apply H1; try assumption. lia.
    + intros r1 r2 b' fuel Hw Hnl Hf. destruct fuel as [|fuel]; [lia|].
      rewrite (tokenize_loop_white_c _ _ _ ch); [|unfold slen; cbn [pos input]; apply SL|apply Gi|exact Wd|reflexivity].
      unfold set_pos. cbn [input flags pos st]. apply H2; try assumption. lia.
  - apply andb_true_iff in E. destruct E as [E Na].
    apply andb_true_iff in E. destruct E as [Hd D]. rewrite dash_commentb_eq in D.
    intros stt.
    assert (P2 : p + 2 <= n) by (unfold dash_comment in D; lia).
    exists p, (dash_stats p stt). splits; try lia.
    { unfold dash_stats. destruct (_ || _); reflexivity. }
    + intros ws b' fuel Hne Hw Hnl Hf. destruct fuel as [|fuel]; [lia|].
      destruct ws as [|f ws']; [congruence|]. cbn [forallb] in Hw. apply andb_true_iff in Hw. destruct Hw as [Hf0 _].
      cbn [tokenize_loop]. unfold slen, at_. cbn [pos input].
      replace (p <? len (a ++ (f :: ws') ++ b')) with true by (pose proof (SL (f :: ws') b'); lia).
      rewrite Gi. cbn [bind]. destruct (dispatch ch); try discriminate Hd. cbn [run_parser].
      change ((f :: ws') ++ b') with (f :: (ws' ++ b')).
      rewrite (parse_dash_front p stt tok0 f (ws' ++ b') Hf0 ltac:(lia) D).
      change (f :: (ws' ++ b')) with ((f :: ws') ++ b').
      rewrite (eol_cross_tok p (dash_stats p stt) (f :: ws') b' ltac:(lia) ltac:(lia) Hnl). cbn [bind].
      reflexivity.
    + intros r1 r2 b' fuel Hw Hnl Hf. destruct fuel as [|fuel]; [lia|].
      assert (Hf0 : exists f rest, (r1 ++ x0a :: r2) ++ b' = f :: rest /\ isW f = true).
      { destruct r1 as [|c r1']; cbn [app] in *.
        - exists x0a, (r2 ++ b'). split; reflexivity.
        - cbn [forallb] in Hw. apply andb_true_iff in Hw. destruct Hw as [Hc _]. exists c, ((r1' ++ x0a :: r2) ++ b'). auto. }
      destruct Hf0 as (f & rest & Ef & Hf0).
      cbn [tokenize_loop]. unfold slen, at_. cbn [pos input].
      replace (p <? len (a ++ (r1 ++ x0a :: r2) ++ b')) with true by (pose proof (SL (r1 ++ x0a :: r2) b'); lia).
      rewrite Gi. cbn [bind]. destruct (dispatch ch); try discriminate Hd. cbn [run_parser].
      rewrite Ef. rewrite (parse_dash_front p stt tok0 f rest Hf0 ltac:(lia) D). rewrite <- Ef.
      rewrite (eol_cross_mid p (dash_stats p stt) r1 r2 b' ltac:(lia) ltac:(lia) Hnl). cbn [bind].
      reflexivity.
Qed.

Lemma cross_len_3 p ws b' : p + 2 <= n -> ws <> [] -> 3 <= cross_len p ws b'.
Proof.
  intros Hp Hne. unfold cross_len. pose proof (index_byte_range b' x0a). pose proof (len_nonneg b').
  assert (1 <= len ws) by (destruct ws; [congruence|rewrite len_cons; pose proof (len_nonneg ws); lia]).
  destruct (index_byte b' x0a =? -1) eqn:E; lia.
Qed.

(* two runs: the comment tokens differ in length and text only *)
Lemma cross_tokn_loose p ws1 ws2 b' : 0 <= p -> p + 2 <= n -> ws1 <> [] -> ws2 <> [] ->
  loose (cross_tokn p ws1 b') (cross_tokn p ws2 b').
Proof.
  intros Hp0 Hp H1 H2. unfold loose, cross_tokn. cbn [t_pos t_len t_count t_cat t_open t_close t_val].
  splits; try reflexivity; [right; left; reflexivity|].
  pose proof (cross_len_3 p ws1 b' Hp H1) as L1. pose proof (cross_len_3 p ws2 b' Hp H2) as L2.
  unfold hdsig. cbn [t_val t_len].
  assert (X : exists c x', skipn (Z.to_nat p) a = c :: x').
  { destruct (skipn (Z.to_nat p) a) as [|c x'] eqn:S; [|eauto].
    exfalso. assert (len (skipn (Z.to_nat p) a) = n - p) by (apply len_skipn_a; lia). rewrite S, len_nil in H. lia. }
  destruct X as (c & x' & ->). cbn [app].
  replace (Z.to_nat (Z.min (cross_len p ws1 b') 31)) with (S (Z.to_nat (Z.min (cross_len p ws1 b') 31 - 1))) by lia.
  replace (Z.to_nat (Z.min (cross_len p ws2 b') 31)) with (S (Z.to_nat (Z.min (cross_len p ws2 b') 31 - 1))) by lia.
  cbn [firstn].
  replace (2 <? Z.min (cross_len p ws1 b') 31) with true by lia.
  replace (2 <? Z.min (cross_len p ws2 b') 31) with true by lia. reflexivity.
Qed.


(* a run that starts with the newline: the comment token is the same whatever follows *)
Lemma mid_tokn_nil p r2 b' r2' b'' : 0 <= p <= n -> mid_tokn p [] r2 b' = mid_tokn p [] r2' b''.
Proof.
  intros Hp. unfold mid_tokn. rewrite len_nil, Z.add_0_r. f_equal.
  assert (L : len (skipn (Z.to_nat p) a) = n - p) by (apply len_skipn_a; lia).
  rewrite !firstn_app.
  replace (Z.to_nat (Z.min (n - p) 31) - List.length (skipn (Z.to_nat p) a))%nat with 0%nat by (unfold len in *; lia).
  reflexivity.
Qed.

(* a newline later in the run against a run without newline: length and text differ *)
Lemma mid_cross_loose p r1 r2 b' ws2 b'' : 0 <= p -> p + 2 <= n -> r1 <> [] -> ws2 <> [] ->
  loose (mid_tokn p r1 r2 b') (cross_tokn p ws2 b'').
Proof.
  intros Hp0 Hp H1 H2. unfold loose, cross_tokn, mid_tokn. cbn [t_pos t_len t_count t_cat t_open t_close t_val].
  splits; try reflexivity; [right; left; reflexivity|].
  pose proof (cross_len_3 p ws2 b'' Hp H2) as L2.
  assert (L1 : 1 <= len r1) by (destruct r1; [congruence|rewrite len_cons; pose proof (len_nonneg r1); lia]).
  unfold hdsig. cbn [t_val t_len].
  assert (X : exists c x', skipn (Z.to_nat p) a = c :: x').
  { destruct (skipn (Z.to_nat p) a) as [|c x'] eqn:S; [|eauto].
    exfalso. assert (len (skipn (Z.to_nat p) a) = n - p) by (apply len_skipn_a; lia). rewrite S, len_nil in H. lia. }
  destruct X as (c & x' & ->). cbn [app].
  replace (Z.to_nat (Z.min (n - p + len r1) 31)) with (S (Z.to_nat (Z.min (n - p + len r1) 31 - 1))) by lia.
  replace (Z.to_nat (Z.min (cross_len p ws2 b'') 31)) with (S (Z.to_nat (Z.min (cross_len p ws2 b'') 31 - 1))) by lia.
  cbn [firstn].
  replace (2 <? Z.min (n - p + len r1) 31) with true by lia.
  replace (2 <? Z.min (cross_len p ws2 b'') 31) with true by lia. reflexivity.
Qed.

End Cross.



(* ---------- a string literal across the slot ---------- *)

Lemma tbs_stop l1 : forall c l2 c' l2', beq c x5c = false -> beq c' x5c = false ->
  trailing_bs_count (l1 ++ c :: l2) = trailing_bs_count (l1 ++ c' :: l2').
Proof.
  induction l1 as [|b l1 IH]; intros c l2 c' l2' H H'; cbn [app trailing_bs_count].
  - rewrite H, H'. reflexivity.
  - destruct (beq b x5c); [|reflexivity]. rewrite (IH c l2 c' l2' H H'). reflexivity.
Qed.

Lemma isW_not_bs c : isW c = true -> beq c x5c = false.
Proof. intros H. apply isW_beq; [exact H|reflexivity]. Qed.

(* the escape test of parseStringCore does not see which run fills the slot *)
Lemma escaped_run x ws1 ws2 m : ws1 <> [] -> ws2 <> [] -> forallb isW ws1 = true -> forallb isW ws2 = true ->
  is_backslash_escaped (x ++ ws1 ++ m) = is_backslash_escaped (x ++ ws2 ++ m).
Proof.
  intros N1 N2 W1 W2. unfold is_backslash_escaped. rewrite !rev_app_distr. rewrite <- !app_assoc.
  assert (R : forall ws, ws <> [] -> forallb isW ws = true -> exists c l, rev ws = c :: l /\ beq c x5c = false).
  { intros ws N Wf. destruct (rev ws) as [|c l] eqn:E.
    - exfalso. apply N. rewrite <- (rev_involutive ws), E. reflexivity.
    - exists c, l. split; [reflexivity|]. apply isW_not_bs. rewrite forallb_forall in Wf. apply Wf.
      apply in_rev. rewrite E. left. reflexivity. }
  destruct (R ws1 N1 W1) as (c1 & l1 & -> & B1). destruct (R ws2 N2 W2) as (c2 & l2 & -> & B2).
  cbn [app]. rewrite (tbs_stop (rev m) c1 (l1 ++ rev x) c2 (l2 ++ rev x) B1 B2). reflexivity.
Qed.


Lemma index_byte_W ws d : forallb isW ws = true -> isW d = false -> index_byte ws d = -1.
Proof.
  intros Hw Hd. induction ws as [|c ws IH]; cbn [index_byte]; [reflexivity|].
  cbn [forallb] in Hw. apply andb_true_iff in Hw. destruct Hw as [Hc Hw].
  rewrite (isW_beq c d Hc Hd), (IH Hw). reflexivity.
Qed.

Lemma drop_behind site (pre b : bytes) kb : 0 <= kb <= len b ->
  drop site (pre ++ b) (len pre + kb) = Ok (skipn (Z.to_nat kb) b).
Proof.
  intros H. pose proof (len_nonneg pre). rewrite drop_ok by (rewrite len_app; lia).
  rewrite skipn_app. replace (Z.to_nat (len pre + kb) - List.length pre)%nat with (Z.to_nat kb) by (unfold len; lia).
  rewrite skipn_all2 by (unfold len; lia). reflexivity.
Qed.

Lemma slice_across site (a ws b : bytes) start kb : 0 <= start <= len a -> 0 <= kb <= len b ->
  slice site (a ++ ws ++ b) start (len a + len ws + kb)
  = Ok (skipn (Z.to_nat start) a ++ ws ++ firstn (Z.to_nat kb) b).
Proof.
  intros Hs Hk. pose proof (len_nonneg ws). rewrite slice_ok by (rewrite ?len_app; lia). f_equal.
  rewrite skipn_app. replace (Z.to_nat start - List.length a)%nat with 0%nat by (unfold len in *; lia). cbn [skipn].
  rewrite firstn_app. rewrite firstn_all2 by (rewrite skipn_length; unfold len in *; lia). f_equal.
  rewrite skipn_length.
  replace (Z.to_nat (len a + len ws + kb - start) - (List.length a - Z.to_nat start))%nat
    with (List.length ws + Z.to_nat kb)%nat by (unfold len in *; lia).
  rewrite firstn_app. rewrite firstn_all2 by lia. f_equal.
  replace (List.length ws + Z.to_nat kb - List.length ws)%nat with (Z.to_nat kb) by lia. reflexivity.
Qed.

Lemma len_pos (ws : bytes) : ws <> [] -> 1 <= len ws.
Proof. destruct ws; [congruence|]. intros _. rewrite len_cons. pose proof (len_nonneg ws). lia. Qed.

Section StrCross.

Context (a ws1 ws2 b : bytes) (d : byte) (start : Z)
        (N1 : ws1 <> []) (N2 : ws2 <> []) (W1 : forallb isW ws1 = true) (W2 : forallb isW ws2 = true)
        (Hd : isW d = false) (Hs : 0 <= start <= len a)
        (Hx : index_byte (skipn (Z.to_nat start) a) d = -1).

Notation n := (len a).
Notation j1 := (a ++ ws1 ++ b).
Notation j2 := (a ++ ws2 ++ b).

(* the loop offsets: both at `start` (first iteration), or at the same offset of b *)
Definition posR (k1 k2 : Z) : Prop :=
  (k1 = start /\ k2 = start) \/
  (exists kb, 0 <= kb <= len b /\ k1 = n + len ws1 + kb /\ k2 = n + len ws2 + kb).

Definition resR (r1 r2 : option Z) : Prop :=
  match r1, r2 with
  | None, None => True
  | Some q1, Some q2 => exists kb, 0 <= kb < len b /\ q1 = n + len ws1 + kb /\ q2 = n + len ws2 + kb
  | _, _ => False
  end.

(* the common part of an iteration: the delimiter found at offset kb of b *)
Lemma sc_step f1 f2 kb
  (IH : forall k1 k2, posR k1 k2 -> forall r2, string_core_loop f2 j2 start k2 d = Ok r2 ->
          exists r1, string_core_loop f1 j1 start k1 d = Ok r1 /\ resR r1 r2) :
  0 <= kb < len b ->
  forall r2,
  (str <- drop "parseStringCore:str[index:]" j2 (n + len ws2 + kb);;
   before <- slice "parseStringCore:escaped" j2 start (n + len ws2 + kb);;
   (if is_backslash_escaped before
    then _ <- drop "parseStringCore:str[1:]" str 1;; string_core_loop f2 j2 start (n + len ws2 + kb + 1) d
    else if is_double_delimiter_escaped str
         then _ <- drop "parseStringCore:str[2:]" str 2;; string_core_loop f2 j2 start (n + len ws2 + kb + 2) d
         else Ok (Some (n + len ws2 + kb))))%res = Ok r2 ->
  exists r1,
  (str <- drop "parseStringCore:str[index:]" j1 (n + len ws1 + kb);;
   before <- slice "parseStringCore:escaped" j1 start (n + len ws1 + kb);;
   (if is_backslash_escaped before
    then _ <- drop "parseStringCore:str[1:]" str 1;; string_core_loop f1 j1 start (n + len ws1 + kb + 1) d
    else if is_double_delimiter_escaped str
         then _ <- drop "parseStringCore:str[2:]" str 2;; string_core_loop f1 j1 start (n + len ws1 + kb + 2) d
         else Ok (Some (n + len ws1 + kb))))%res = Ok r1 /\ resR r1 r2.
Proof.
  intros Hk r2 E.
  assert (D : forall ws site, drop site (a ++ ws ++ b) (n + len ws + kb) = Ok (skipn (Z.to_nat kb) b)).
  { intros ws site. rewrite app_assoc. replace (n + len ws + kb) with (len (a ++ ws) + kb) by (rewrite len_app; lia).
    apply drop_behind. lia. }
  rewrite D in E |- *. cbn [bind] in *. rewrite slice_across in E |- * by lia. cbn [bind] in *.
  rewrite (escaped_run _ ws1 ws2 _ N1 N2 W1 W2).
  destruct (is_backslash_escaped (skipn (Z.to_nat start) a ++ ws2 ++ firstn (Z.to_nat kb) b)).
  - destruct (drop "parseStringCore:str[1:]" (skipn (Z.to_nat kb) b) 1) as [x| | |]; cbn [bind] in *; try discriminate E.
    apply (IH (n + len ws1 + kb + 1) (n + len ws2 + kb + 1)); [|exact E]. right. exists (kb + 1). splits; lia.
  - destruct (is_double_delimiter_escaped (skipn (Z.to_nat kb) b)).
    + destruct (drop "parseStringCore:str[2:]" (skipn (Z.to_nat kb) b) 2) as [x| | |] eqn:D2; cbn [bind] in *; try discriminate E.
      apply drop_Ok_inv in D2. destruct D2 as [R2 _]. rewrite len_skipn_le in R2 by lia.
      apply (IH (n + len ws1 + kb + 2) (n + len ws2 + kb + 2)); [|exact E]. right. exists (kb + 2). splits; lia.
    + inversion E; subst r2. eexists. split; [reflexivity|]. cbn [resR]. exists kb. splits; lia.
Qed.

Lemma sc_cross : forall f2 f1, (f2 <= f1)%nat -> forall k1 k2, posR k1 k2 ->
  forall r2, string_core_loop f2 j2 start k2 d = Ok r2 ->
  exists r1, string_core_loop f1 j1 start k1 d = Ok r1 /\ resR r1 r2.
Proof.
  induction f2 as [|f2 IH]; intros f1 F k1 k2 P r2 E; [discriminate E|].
  destruct f1 as [|f1]; [lia|]. cbn [string_core_loop] in *.
  pose proof (len_nonneg ws1) as L1. pose proof (len_nonneg ws2) as L2. pose proof (len_nonneg b) as Lb.
  pose proof (index_byte_range b d) as Rb.
  destruct P as [[-> ->]|(kb & Hk & -> & ->)].
  - (* first iteration: from the opening quote, in a *)
    rewrite !drop_app_l in * by lia. cbn [bind] in *.
    rewrite !index_byte_app, Hx in *. change (0 <=? -1) with false in *. cbv iota in *.
    rewrite (index_byte_W ws1 d W1 Hd), (index_byte_W ws2 d W2 Hd) in *. change (0 <=? -1) with false in *. cbv iota in *.
    rewrite (len_skipn_a a start) in * by lia.
    destruct (index_byte b d <? 0) eqn:Ib.
    + change (-1 <? 0) with true in *. cbv iota in *. change (-1 =? -1) with true in *. cbv iota in *.
      inversion E; subst r2. exists None. split; [reflexivity|exact I].
    + replace (len ws1 + index_byte b d <? 0) with false by lia.
      replace (len ws2 + index_byte b d <? 0) with false in E by lia. cbv iota in *.
      replace (n - start + (len ws1 + index_byte b d) =? -1) with false by lia.
      replace (n - start + (len ws2 + index_byte b d) =? -1) with false in E by lia.
      replace (start + (n - start + (len ws1 + index_byte b d))) with (n + len ws1 + index_byte b d) by lia.
      replace (start + (n - start + (len ws2 + index_byte b d))) with (n + len ws2 + index_byte b d) in E by lia.
      apply (sc_step f1 f2 (index_byte b d) (fun k1 k2 P r2 => IH f1 ltac:(lia) k1 k2 P r2) ltac:(lia) r2 E).
  - (* later iterations: in b *)
    assert (D : forall ws site, drop site (a ++ ws ++ b) (n + len ws + kb) = Ok (skipn (Z.to_nat kb) b)).
    { intros ws site. rewrite app_assoc. replace (n + len ws + kb) with (len (a ++ ws) + kb) by (rewrite len_app; lia).
      apply drop_behind. lia. }
    rewrite D in E |- *. cbn [bind] in *.
    pose proof (index_byte_range (skipn (Z.to_nat kb) b) d) as Rk. rewrite len_skipn_le in Rk by lia.
    destruct (index_byte (skipn (Z.to_nat kb) b) d =? -1) eqn:Ik.
    + inversion E; subst r2. exists None. split; [reflexivity|exact I].
    + replace (n + len ws1 + kb + index_byte (skipn (Z.to_nat kb) b) d)
        with (n + len ws1 + (kb + index_byte (skipn (Z.to_nat kb) b) d)) by lia.
      replace (n + len ws2 + kb + index_byte (skipn (Z.to_nat kb) b) d)
        with (n + len ws2 + (kb + index_byte (skipn (Z.to_nat kb) b) d)) in E by lia.
      apply (sc_step f1 f2 (kb + index_byte (skipn (Z.to_nat kb) b) d) (fun k1 k2 P r2 => IH f1 ltac:(lia) k1 k2 P r2) ltac:(lia) r2 E).
Qed.

(* the head of the string text: in a (the same byte), or the first byte of the run *)
Lemma content_hdsig ws L tcount topen tclose :
  ws <> [] -> forallb isW ws = true -> len ws <= L ->
  (start = n \/ beq (ab a start) x2d = false \/ 2 <= n - start) ->
  hdsig (mkTok start (Z.min (n - start + L) 31) tcount b_sqli_token_type_string topen tclose
           (firstn (Z.to_nat (Z.min (n - start + L) 31)) (skipn (Z.to_nat start) a ++ ws ++ b)))
  = if start =? n then Some (false, false, false)
    else Some (beq (ab a start) x23, beq (ab a start) x2f, (2 <? Z.min (n - start + L) 31) && beq (ab a start) x2d).
Proof.
  intros N Wf HL Hh. unfold hdsig. cbn [t_val t_len].
  pose proof (len_pos ws N) as Lw.
  replace (Z.to_nat (Z.min (n - start + L) 31)) with (S (Z.to_nat (Z.min (n - start + L) 31 - 1))) by lia.
  destruct (start =? n) eqn:E.
  - assert (start = n) by lia. rewrite skipn_all2 by (unfold len in *; lia). cbn [app].
    destruct ws as [|c ws']; [congruence|]. cbn [app firstn]. cbn [forallb] in Wf.
    apply andb_true_iff in Wf. destruct Wf as [Hc _].
    rewrite (isW_beq c x23 Hc eq_refl), (isW_beq c x2f Hc eq_refl), (isW_beq c x2d Hc eq_refl), andb_false_r. reflexivity.
  - assert (X : exists x', skipn (Z.to_nat start) a = ab a start :: x').
    { unfold ab. assert (Z.to_nat start < List.length a)%nat by (unfold len in *; lia).
      destruct (nth_error a (Z.to_nat start)) as [c|] eqn:Nn; [|apply nth_error_None in Nn; lia].
      rewrite (nth_error_nth _ _ x00 Nn). exists (skipn (S (Z.to_nat start)) a). apply skipn_nth_cons. exact Nn. }
    destruct X as [x' ->]. cbn [app firstn]. reflexivity.
Qed.

Lemma parse_string_core_cross t0 p off : start = p + off -> (List.length ws2 <= List.length ws1)%nat ->
  (start = n \/ beq (ab a start) x2d = false \/ 2 <= n - start) ->
  forall tk2 np2, parse_string_core t0 j2 (len j2) p off d = Ok (tk2, np2) ->
  exists tk1 np1, parse_string_core t0 j1 (len j1) p off d = Ok (tk1, np1) /\ loose tk1 tk2 /\
    exists p'', 0 <= p'' <= len b /\ np1 = n + len ws1 + p'' /\ np2 = n + len ws2 + p''.
Proof.
  intros Hp Hlen Hh tk2 np2 E. unfold parse_string_core in *. rewrite <- Hp in *.
  pose proof (len_nonneg ws1) as L1. pose proof (len_nonneg ws2) as L2. pose proof (len_nonneg b) as Lb.
  rewrite !drop_app_l in * by lia. cbn [bind] in *.
  destruct (string_core_loop (S (List.length j2)) j2 start start d) as [r2| | |] eqn:S2; cbn [bind] in E; try discriminate E.
  assert (Fu : (S (List.length j2) <= S (List.length j1))%nat) by (rewrite !app_length; lia).
  destruct (sc_cross (S (List.length j2)) (S (List.length j1)) Fu start start (or_introl (conj eq_refl eq_refl)) r2 S2)
    as [r1 [S1 R]].
  rewrite S1. cbn [bind].
  assert (LJ : forall ws, len (a ++ ws ++ b) = n + len ws + len b) by (intros ws; rewrite !len_app; lia).
  assert (LC : forall ws, len (skipn (Z.to_nat start) a ++ ws ++ b) = n - start + len ws + len b).
  { intros ws. rewrite !len_app, (len_skipn_a a start) by lia. lia. }
  destruct r1 as [q1|], r2 as [q2|]; cbn [resR] in R; try contradiction.
  - destruct R as (kb & Hk & -> & ->).
    rewrite assign_ok in E by (rewrite ?LC; lia). rewrite assign_ok by (rewrite ?LC; lia).
    cbn [bind] in *. inversion E; subst tk2 np2.
    eexists. eexists. split; [reflexivity|]. split.
    + unfold loose, set_close, set_open. cbn [t_pos t_len t_count t_cat t_open t_close t_val].
      splits; try reflexivity; [left; reflexivity|].
      replace (n + len ws1 + kb - start) with (n - start + (len ws1 + kb)) by lia.
      replace (n + len ws2 + kb - start) with (n - start + (len ws2 + kb)) by lia.
      rewrite (content_hdsig ws1 (len ws1 + kb) _ _ _ N1 W1 ltac:(lia) Hh).
      rewrite (content_hdsig ws2 (len ws2 + kb) _ _ _ N2 W2 ltac:(lia) Hh).
      destruct (start =? n) eqn:En; [reflexivity|]. f_equal. f_equal.
      pose proof (len_pos ws1 N1). pose proof (len_pos ws2 N2).
      destruct Hh as [Hh|[Hh|Hh]]; [lia|rewrite Hh, !andb_false_r; reflexivity|].
      replace (2 <? Z.min (n - start + (len ws1 + kb)) 31) with true by lia.
      replace (2 <? Z.min (n - start + (len ws2 + kb)) 31) with true by lia. reflexivity.
    + exists (kb + 1). splits; lia.
  - rewrite !LJ in *.
    rewrite assign_ok in E by (rewrite ?LC; lia). rewrite assign_ok by (rewrite ?LC; lia).
    cbn [bind] in *. inversion E; subst tk2 np2.
    eexists. eexists. split; [reflexivity|]. split.
    + unfold loose, set_close, set_open. cbn [t_pos t_len t_count t_cat t_open t_close t_val].
      splits; try reflexivity; [left; reflexivity|].
      replace (n + len ws1 + len b - p - off) with (n - start + (len ws1 + len b)) by lia.
      replace (n + len ws2 + len b - p - off) with (n - start + (len ws2 + len b)) by lia.
      rewrite (content_hdsig ws1 (len ws1 + len b) _ _ _ N1 W1 ltac:(lia) Hh).
      rewrite (content_hdsig ws2 (len ws2 + len b) _ _ _ N2 W2 ltac:(lia) Hh).
      destruct (start =? n) eqn:En; [reflexivity|]. f_equal. f_equal.
      pose proof (len_pos ws1 N1). pose proof (len_pos ws2 N2).
      destruct Hh as [Hh|[Hh|Hh]]; [lia|rewrite Hh, !andb_false_r; reflexivity|].
      replace (2 <? Z.min (n - start + (len ws1 + len b)) 31) with true by lia.
      replace (2 <? Z.min (n - start + (len ws2 + len b)) 31) with true by lia. reflexivity.
    + exists (len b). splits; lia.
Qed.

End StrCross.

(* ---------- the tokenizer call that reads the string ---------- *)

Section StrTok.

Context (a : bytes) (fl : Z).
Notation n := (len a).

Lemma scross_loop_sound : forall F p, 0 <= p <= n -> scross_loop F a p = true ->
  forall stt ws1 ws2 b, ws1 <> [] -> ws2 <> [] -> forallb isW ws1 = true -> forallb isW ws2 = true ->
    (List.length ws2 <= List.length ws1)%nat ->
    forall fuel1 fuel2, n - p < Z.of_nat fuel1 -> n - p < Z.of_nat fuel2 ->
    forall r2, tokenize_loop fuel2 (mkSt (a ++ ws2 ++ b) fl p stt) tok0 = Ok r2 ->
    exists t1 t2 p'',
      r2 = (true, t2, bump_tokens (mkSt (a ++ ws2 ++ b) fl (n + len ws2 + p'') stt)) /\
      tokenize_loop fuel1 (mkSt (a ++ ws1 ++ b) fl p stt) tok0
      = Ok (true, t1, bump_tokens (mkSt (a ++ ws1 ++ b) fl (n + len ws1 + p'') stt)) /\
      loose t1 t2 /\ 0 <= p'' <= len b.
Proof.
  induction F as [|F IH]; intros p Hp E stt ws1 ws2 b N1 N2 W1 W2 Hl fuel1 fuel2 F1 F2 r2 E2; [discriminate E|].
  cbn [scross_loop] in E. destruct (n <=? p) eqn:Hn; [discriminate E|].
  destruct (get "" a p) as [ch| | |] eqn:G; try discriminate E.
  assert (Gi : forall ws, get "tokenize:input[pos]" (a ++ ws ++ b) p = Ok ch).
  { intros ws. rewrite get_app_l by lia. exact (get_site _ _ _ _ _ G). }
  assert (SL : forall ws, p < len (a ++ ws ++ b)).
  { intros ws. rewrite len_app. pose proof (len_nonneg (ws ++ b)). lia. }
  destruct fuel1 as [|fuel1]; [lia|]. destruct fuel2 as [|fuel2]; [lia|].
  destruct (is_white_id (dispatch ch)) eqn:Wd.
  - rewrite (tokenize_loop_white_c _ _ _ ch) in E2 by (try apply Gi; try exact Wd; try reflexivity; unfold slen; cbn [pos input]; apply SL).
    rewrite (tokenize_loop_white_c _ _ _ ch) by (try apply Gi; try exact Wd; try reflexivity; unfold slen; cbn [pos input]; apply SL).
    unfold set_pos in *. cbn [input flags pos st] in *.
    apply (IH (p + 1) ltac:(lia) E stt ws1 ws2 b N1 N2 W1 W2 Hl fuel1 fuel2 ltac:(lia) ltac:(lia) r2 E2).
  - apply andb_true_iff in E. destruct E as [Hd Sa]. unfold string_at in Sa.
    apply andb_true_iff in Sa. destruct Sa as [Sx Sh].
    assert (Hab : ch = ab a p).
    { pose proof (get_a a x20 x20 eq_refl eq_refl "" p ltac:(lia)) as X. rewrite G in X. inversion X. reflexivity. }
    assert (Hdw : isW ch = false).
    { destruct (isW ch) eqn:Wc; [|reflexivity]. apply isW_facts in Wc. unfold w_facts in Wc.
      rewrite Wd in Wc. discriminate Wc. }
    cbn [tokenize_loop] in *. unfold slen, at_ in *. cbn [pos input] in *.
    replace (p <? len (a ++ ws1 ++ b)) with true by (pose proof (SL ws1); lia).
    replace (p <? len (a ++ ws2 ++ b)) with true in E2 by (pose proof (SL ws2); lia).
    rewrite Gi in *. cbn [bind] in *. destruct (dispatch ch); try discriminate Hd. cbn [run_parser] in *.
    unfold parse_string, at_, slen in *. cbn [input pos] in *.
    rewrite (get_site _ "parseString" _ _ _ (Gi ws1)). rewrite (get_site _ "parseString" _ _ _ (Gi ws2)) in E2.
    cbn [bind] in *.
    destruct (parse_string_core tok0 (a ++ ws2 ++ b) (len (a ++ ws2 ++ b)) p 1 ch) as [[tk2 np2]| | |] eqn:C2;
      cbn [bind] in E2; try discriminate E2.
    assert (Hx : index_byte (skipn (Z.to_nat (p + 1)) a) ch = -1).
    { rewrite Hab. change (ab a p) with (byte_at a p). lia. }
    assert (Hh : p + 1 = n \/ beq (ab a (p + 1)) x2d = false \/ 2 <= n - (p + 1)).
    { change (ab a (p + 1)) with (byte_at a (p + 1)).
      destruct (p + 1 =? n) eqn:A1; [left; lia|]. destruct (beq (byte_at a (p + 1)) x2d) eqn:A2; [|right; left; reflexivity].
      cbn in Sh. right. right. lia. }
    destruct (parse_string_core_cross a ws1 ws2 b ch (p + 1) N1 N2 W1 W2 Hdw ltac:(lia) Hx tok0 p 1 eq_refl Hl Hh tk2 np2 C2)
      as (tk1 & np1 & C1 & Lo & p'' & Rp & -> & ->).
    rewrite C1. cbn [bind].
    assert (K2 : t_cat tk2 = b_sqli_token_type_string).
    { pose proof (parse_string_core_spec tok0 (a ++ ws2 ++ b) p 1 ch ltac:(lia) ltac:(lia) ltac:(pose proof (SL ws2); lia)) as SP.
      rewrite C2 in SP. cbn [wp] in SP. unfold str_post in SP. destruct SP as (_ & _ & _ & K & _). exact K. }
    assert (K1 : t_cat tk1 = b_sqli_token_type_string) by (destruct Lo as (Lc & _); congruence).
    rewrite K2 in E2. rewrite K1. cbn [negb beq] in *. change (negb (beq b_sqli_token_type_string x00)) with true in *.
    cbv iota in *. inversion E2; subst r2. exists tk1, tk2, p''. unfold set_pos. cbn [input flags pos st].
    splits; try reflexivity; try assumption; lia.
Qed.

End StrTok.

Print Assumptions scross_loop_sound.
Print Assumptions cross_loop_sound.
