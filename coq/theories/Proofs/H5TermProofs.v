(* H5TermProofs: the delimited constructs of the HTML5 tokenizer model end at
   the first occurrence of their terminator (C17b): the model computes the
   oracles of Spec/H5TermSpec.v. *)
From Coq Require Import List ZArith String Bool Lia ZifyBool.
From Coq.Strings Require Import Byte.
From LI Require Import Prelude Base Html5 Proofs.BaseFacts Proofs.Wp Proofs.LexBase
  Spec.StringSpec Proofs.StringProofs Spec.H5TermSpec.
From LIGen Require Import Consts.
Import ListNotations.
Local Open Scope Z_scope.

(* ---------- generic helpers ---------- *)

Lemma mk_eq s p p' c st o o' l l' t :
  p = p' -> o = o' -> l = l' ->
  @Ok (bool * h5) (true, mkH5 s p c st o l t) = Ok (true, mkH5 s p' c st o' l' t).
Proof. intros -> -> ->. reflexivity. Qed.

Lemma emit_ok site h off tlen ty npos st cl :
  0 <= off <= hlen h ->
  emit site h off tlen ty npos st cl = Ok (true, mkH5 (hs h) npos cl st off tlen ty).
Proof. intros H. unfold emit. unfold hlen in H. rewrite drop_ok by lia. reflexivity. Qed.

Lemma skipn_skipn_Z (s : bytes) p k : 0 <= p -> 0 <= k ->
  skipn (Z.to_nat (p + k)) s = skipn (Z.to_nat k) (skipn (Z.to_nat p) s).
Proof. intros Hp Hk. rewrite skipn_add. f_equal. lia. Qed.

Lemma get_skipn site (s : bytes) p k b : 0 <= p -> 0 <= k ->
  nth_error (skipn (Z.to_nat p) s) (Z.to_nat k) = Some b -> get site s (p + k) = Ok b.
Proof.
  intros Hp Hk N. apply get_nth; [lia|]. rewrite nth_error_skipn in N.
  rewrite <- N. f_equal. lia.
Qed.

Lemma nth_mid (a : bytes) b c k : k = len a -> nth_error (a ++ b :: c) (Z.to_nat k) = Some b.
Proof.
  intros ->. unfold len. rewrite Nat2Z.id. rewrite nth_error_app2 by lia.
  rewrite Nat.sub_diag. reflexivity.
Qed.

Lemma len_zero_nil (l : bytes) : len l <= 0 -> l = [].
Proof. destruct l; [reflexivity|]. rewrite len_cons. pose proof (len_nonneg l). lia. Qed.

Lemma has_prefix_nil l : has_prefix l [] = true.
Proof. destruct l; reflexivity. Qed.

(* ---------- first_match over a stretch without the first pattern byte ---------- *)

Lemma first_match_absent c pat pre l : ~ In c pre ->
  first_match (c :: pat) (pre ++ l) = option_map (Z.add (len pre)) (first_match (c :: pat) l).
Proof.
  induction pre as [|b pre IH]; intros N.
  - cbn [app]. rewrite len_nil. destruct (first_match (c :: pat) l); reflexivity.
  - assert (E : beq c b = false) by (apply beq_neq; intros ->; apply N; left; reflexivity).
    assert (N' : ~ In c pre) by (intros H; apply N; right; exact H).
    cbn [app first_match has_prefix]. rewrite E. cbn [andb].
    rewrite (IH N'). rewrite option_map_add. rewrite len_cons. reflexivity.
Qed.

Lemma first_match_no_byte c pat l : ~ In c l -> first_match (c :: pat) l = None.
Proof.
  intros N. rewrite <- (app_nil_r l). rewrite first_match_absent by exact N. reflexivity.
Qed.

(* the one-byte oracle is strings.IndexByte *)
Lemma first_byte_index c l :
  first_byte c l = if index_byte l c =? -1 then None else Some (index_byte l c).
Proof.
  unfold first_byte.
  destruct (index_byte_split l c) as [[I N]|(pre & post & L & N & I)].
  - rewrite I. rewrite first_match_no_byte by exact N. reflexivity.
  - rewrite I. pose proof (len_nonneg pre). destruct (len pre =? -1) eqn:E; [lia|].
    rewrite L. rewrite first_match_absent by exact N.
    cbn [first_match has_prefix]. rewrite beq_refl, has_prefix_nil. cbn [andb option_map]. f_equal. lia.
Qed.

(* ---------- constructs closed by a single byte, found with one IndexByte ---------- *)

(* <!x ... >  and  <? ... >  (also </x ... > for a non-letter x) *)
Theorem bogus_comment_term d h :
  0 <= hpos h <= hlen h ->
  h5_call (S d) SBogusComment h
  = Ok (true, delimited h (hpos h) c_html5_type_tag_comment SData 1 (hlen h)
                (first_byte x3e (body h))).
Proof.
  intros Hp. cbn [h5_call]. unfold hlen in Hp. rewrite drop_ok by lia. cbn [bind].
  unfold body. rewrite first_byte_index. change b_byte_gt with x3e.
  destruct (index_byte _ x3e =? -1); unfold delimited, closed_at, unclosed;
    apply emit_ok; unfold hlen; lia.
Qed.

(* <!doctype ... > *)
Theorem doctype_term d h :
  0 <= hpos h <= hlen h ->
  h5_call (S d) SDoctype h
  = Ok (true, delimited h (hpos h) c_html5_type_doc_type SData 1 (hpos h)
                (first_byte x3e (body h))).
Proof.
  intros Hp. cbn [h5_call]. unfold hlen in Hp. rewrite drop_ok by lia. cbn [bind].
  unfold body. rewrite first_byte_index. change b_byte_gt with x3e.
  destruct (index_byte _ x3e =? -1); unfold delimited, closed_at, unclosed;
    apply emit_ok; unfold hlen; lia.
Qed.

(* quoted attribute values.  cpos is where the value starts: the model steps
   over the byte at hpos (the opening quote) when hpos > 0 and does not at
   offset 0 (a quoted *context*: the opening quote is outside the input). *)
Definition quote_of (f : h5fn) : byte :=
  match f with
  | SAttributeValueSingleQuote => x27
  | SAttributeValueDoubleQuote => x22
  | _ => x60
  end.

Definition is_quote_state (f : h5fn) : Prop :=
  f = SAttributeValueSingleQuote \/ f = SAttributeValueDoubleQuote \/ f = SAttributeValueBackQuote.

Definition value_start (h : h5) : Z := if 0 <? hpos h then hpos h + 1 else hpos h.

Theorem quoted_value_term d f h :
  is_quote_state f ->
  0 <= hpos h -> value_start h <= hlen h ->
  h5_call (S d) f h
  = Ok (true, delimited h (value_start h) c_html5_type_attr_value SAfterAttributeValueQuoted 1
                (value_start h)
                (first_byte (quote_of f) (skipn (Z.to_nat (value_start h)) (hs h)))).
Proof.
  intros Hf Hp Hl. unfold value_start in *.
  assert (G : forall q,
    (let h0 := if 0 <? hpos h then with_pos h (hpos h + 1) else h in
     rest <- drop "stateAttributeValueQuote:s[pos:]" (hs h0) (hpos h0) ;;
     let idx := index_byte rest q in
     if idx =? -1 then
       emit "stateAttributeValueQuote" h0 (hpos h0) (hlen h0 - hpos h0) c_html5_type_attr_value (hpos h0) SEOF (is_close h0)
     else
       emit "stateAttributeValueQuote" h0 (hpos h0) idx c_html5_type_attr_value (hpos h0 + idx + 1)
            SAfterAttributeValueQuoted (is_close h0))
    = Ok (true, delimited h (if 0 <? hpos h then hpos h + 1 else hpos h) c_html5_type_attr_value
                  SAfterAttributeValueQuoted 1 (if 0 <? hpos h then hpos h + 1 else hpos h)
                  (first_byte q (skipn (Z.to_nat (if 0 <? hpos h then hpos h + 1 else hpos h)) (hs h))))).
  { intros q. cbv zeta. rewrite first_byte_index.
    destruct (0 <? hpos h) eqn:E0; unfold with_pos, hlen in *; cbn [hs hpos is_close];
      (rewrite drop_ok by lia); cbn [bind];
      destruct (index_byte _ q =? -1); unfold delimited, closed_at, unclosed;
      rewrite emit_ok by (unfold hlen; cbn [hs]; lia); reflexivity. }
  destruct Hf as [->|[->| ->]]; cbn [h5_call quote_of]; apply G.
Qed.

(* the two readings of value_start *)
Corollary quoted_value_term_context d f h :
  is_quote_state f -> hpos h = 0 ->
  h5_call (S d) f h
  = Ok (true, delimited h 0 c_html5_type_attr_value SAfterAttributeValueQuoted 1 0
                (first_byte (quote_of f) (hs h))).
Proof.
  intros Hf Hp. pose proof (len_nonneg (hs h)).
  rewrite quoted_value_term; try assumption; unfold value_start; rewrite Hp; cbn [Z.ltb Z.compare];
    [reflexivity|lia|unfold hlen; lia].
Qed.

Corollary quoted_value_term_in_tag d f h :
  is_quote_state f -> 0 < hpos h < hlen h ->
  h5_call (S d) f h
  = Ok (true, delimited h (hpos h + 1) c_html5_type_attr_value SAfterAttributeValueQuoted 1 (hpos h + 1)
                (first_byte (quote_of f) (skipn (Z.to_nat (hpos h + 1)) (hs h)))).
Proof.
  intros Hf Hp. assert (E : (0 <? hpos h) = true) by lia.
  rewrite quoted_value_term; try assumption; unfold value_start; rewrite ?E; [reflexivity|lia|lia].
Qed.


(* ---------- <% ... %> ---------- *)

Lemma skipn_step (s : bytes) p k (a b : bytes) : 0 <= p -> k = len a ->
  skipn (Z.to_nat p) s = a ++ b -> skipn (Z.to_nat (p + k)) s = b.
Proof.
  intros Hp Hk E. pose proof (len_nonneg a). rewrite skipn_skipn_Z by lia. rewrite E.
  apply skipn_len_app. exact Hk.
Qed.

Lemma first_match_cons pat b l :
  first_match pat (b :: l)
  = if has_prefix (b :: l) pat then Some 0 else option_map (Z.add 1) (first_match pat l).
Proof. reflexivity. Qed.

Lemma bogus2_loop_spec fuel : forall h p,
  0 <= hpos h <= p -> p <= hlen h -> hlen h - p < Z.of_nat fuel ->
  bogus2_loop fuel h p
  = Ok (true, delimited h (hpos h) c_html5_type_tag_comment SData 2 (hlen h)
                (option_map (Z.add (p - hpos h))
                   (first_match pat_pct_gt (skipn (Z.to_nat p) (hs h))))).
Proof.
  induction fuel as [|fuel IH]; intros h p Hp Hl Hf; [lia|].
  assert (Hh : hlen h = len (hs h)) by reflexivity.
  cbn [bogus2_loop]. rewrite drop_ok by lia. cbn [bind].
  set (rest := skipn (Z.to_nat p) (hs h)).
  assert (Lr : len rest = hlen h - p) by (unfold rest; rewrite len_skipn_le; lia).
  assert (Er : skipn (Z.to_nat p) (hs h) = rest) by reflexivity.
  change b_byte_percent with x25. unfold pat_pct_gt.
  destruct (index_byte_split rest x25) as [[I N]|(pre & post & L & N & I)].
  - rewrite I. change (-1 =? -1) with true. cbn [orb].
    rewrite first_match_no_byte by exact N. cbn [option_map delimited]. unfold unclosed.
    apply emit_ok. lia.
  - rewrite I. pose proof (len_nonneg pre) as Hpre. destruct (len pre =? -1) eqn:E1; [lia|]. cbn [orb].
    rewrite L in Lr. rewrite len_app, len_cons in Lr. pose proof (len_nonneg post) as Hpost.
    rewrite L. rewrite first_match_absent by exact N.
    destruct (hlen h <=? p + len pre + 1) eqn:E2.
    + assert (post = []) by (apply len_zero_nil; lia). subst post.
      replace (first_match [x25; x3e] [x25]) with (@None Z) by reflexivity.
      cbn [option_map delimited]. unfold unclosed. apply emit_ok. lia.
    + destruct post as [|c1 post']; [rewrite len_nil in Lr; lia|].
      rewrite len_cons in Lr. pose proof (len_nonneg post') as Hpost'.
      assert (L2 : rest = (pre ++ [x25]) ++ c1 :: post') by (rewrite L, <- app_assoc; reflexivity).
      replace (p + len pre + 1) with (p + (len pre + 1)) by lia.
      rewrite (get_skipn _ (hs h) p (len pre + 1) c1);
        [|lia|lia|rewrite Er, L2; apply nth_mid; rewrite len_app, len_cons, len_nil; lia].
      cbn [bind]. change b_byte_gt with x3e.
      rewrite first_match_cons. cbn [has_prefix].
      rewrite beq_refl, has_prefix_nil, (beq_sym x3e c1). cbn [andb].
      destruct (beq c1 x3e) eqn:Ec; cbn [negb andb].
      * cbn [option_map delimited]. unfold closed_at. rewrite emit_ok by lia.
        apply mk_eq; lia.
      * rewrite IH; [|lia|lia|lia].
        rewrite (skipn_step (hs h) p (len pre + 1) (pre ++ [x25]) (c1 :: post'));
          [|lia|rewrite len_app, len_cons, len_nil; lia|rewrite Er; exact L2].
        unfold pat_pct_gt.
        destruct (first_match _ (c1 :: post')) as [m|]; cbn [option_map delimited];
          [unfold closed_at; apply mk_eq; lia|reflexivity].
Qed.

Theorem bogus_comment2_term d h :
  0 <= hpos h <= hlen h ->
  h5_call (S d) SBogusComment2 h
  = Ok (true, delimited h (hpos h) c_html5_type_tag_comment SData 2 (hlen h)
                (first_match pat_pct_gt (body h))).
Proof.
  intros Hp. cbn [h5_call]. rewrite bogus2_loop_spec; [|lia|lia|unfold loop_fuel, hlen, len in *; lia].
  rewrite Z.sub_diag. unfold body. destruct (first_match _ _); reflexivity.
Qed.






(* ---------- <![CDATA[ ... ]]> ---------- *)

Lemma first_match_short pat l : len l < len pat -> first_match pat l = None.
Proof.
  intros H. destruct (first_match pat l) as [i|] eqn:F; [|reflexivity].
  apply first_match_range in F. lia.
Qed.

Lemma cdata_loop_spec fuel : forall h p,
  0 <= hpos h <= p -> p <= hlen h -> hlen h - p < Z.of_nat fuel ->
  cdata_loop fuel h p
  = Ok (true, delimited h (hpos h) c_html5_type_data_text SData 3 (hpos h)
                (option_map (Z.add (p - hpos h))
                   (first_match pat_cdata_end (skipn (Z.to_nat p) (hs h))))).
Proof.
  induction fuel as [|fuel IH]; intros h p Hp Hl Hf; [lia|].
  assert (Hh : hlen h = len (hs h)) by reflexivity.
  cbn [cdata_loop]. rewrite drop_ok by lia. cbn [bind].
  set (rest := skipn (Z.to_nat p) (hs h)).
  assert (Lr : len rest = hlen h - p) by (unfold rest; rewrite len_skipn_le; lia).
  assert (Er : skipn (Z.to_nat p) (hs h) = rest) by reflexivity.
  change b_byte_right_b with x5d. unfold pat_cdata_end.
  destruct (index_byte_split rest x5d) as [[I N]|(pre & post & L & N & I)].
  - rewrite I. change (-1 =? -1) with true. cbn [orb].
    rewrite first_match_no_byte by exact N. cbn [option_map delimited]. unfold unclosed.
    apply emit_ok. lia.
  - rewrite I. pose proof (len_nonneg pre) as Hpre. destruct (len pre =? -1) eqn:E1; [lia|]. cbn [orb].
    rewrite L in Lr. rewrite len_app, len_cons in Lr. pose proof (len_nonneg post) as Hpost.
    rewrite L. rewrite first_match_absent by exact N.
    destruct (hlen h <? p + len pre + 3) eqn:E2.
    + rewrite first_match_short by (rewrite !len_cons, len_nil; lia).
      cbn [option_map delimited]. unfold unclosed. apply emit_ok. lia.
    + destruct post as [|c1 [|c2 post']]; [rewrite len_nil in Lr; lia|rewrite len_cons, len_nil in Lr; lia|].
      rewrite !len_cons in Lr. pose proof (len_nonneg post') as Hpost'.
      assert (L2 : rest = (pre ++ [x5d]) ++ c1 :: c2 :: post') by (rewrite L, <- app_assoc; reflexivity).
      assert (L3 : rest = (pre ++ [x5d; c1]) ++ c2 :: post') by (rewrite L, <- app_assoc; reflexivity).
      replace (p + len pre + 1) with (p + (len pre + 1)) by lia.
      replace (p + len pre + 2) with (p + (len pre + 2)) by lia.
      rewrite (get_skipn _ (hs h) p (len pre + 1) c1);
        [|lia|lia|rewrite Er, L2; apply nth_mid; rewrite len_app, len_cons, len_nil; lia].
      cbn [bind]. change b_byte_gt with x3e.
      rewrite first_match_cons. cbn [has_prefix].
      rewrite beq_refl, has_prefix_nil, (beq_sym x5d c1), (beq_sym x3e c2). cbn [andb].
      assert (Step : cdata_loop fuel h (p + (len pre + 1))
                = Ok (true, delimited h (hpos h) c_html5_type_data_text SData 3 (hpos h)
                        (option_map (Z.add (p - hpos h))
                           (option_map (Z.add (len pre))
                              (option_map (Z.add 1) (first_match [x5d; x5d; x3e] (c1 :: c2 :: post'))))))).
      { rewrite IH; [|lia|lia|lia].
        rewrite (skipn_step (hs h) p (len pre + 1) (pre ++ [x5d]) (c1 :: c2 :: post'));
          [|lia|rewrite len_app, len_cons, len_nil; lia|rewrite Er; exact L2].
        unfold pat_cdata_end.
        destruct (first_match _ (c1 :: c2 :: post')) as [m|]; cbn [option_map delimited];
          [unfold closed_at; apply mk_eq; lia|reflexivity]. }
      destruct (beq c1 x5d) eqn:Ec1; cbn [andb].
      * rewrite (get_skipn _ (hs h) p (len pre + 2) c2);
          [|lia|lia|rewrite Er, L3; apply nth_mid; rewrite len_app, !len_cons, len_nil; lia].
        cbn [bind]. destruct (beq c2 x3e) eqn:Ec2.
        -- cbn [option_map delimited]. unfold closed_at. rewrite emit_ok by lia.
           apply mk_eq; lia.
        -- exact Step.
      * cbn [bind]. exact Step.
Qed.

Theorem cdata_term d h :
  0 <= hpos h <= hlen h ->
  h5_call (S d) SCData h
  = Ok (true, delimited h (hpos h) c_html5_type_data_text SData 3 (hpos h)
                (first_match pat_cdata_end (body h))).
Proof.
  intros Hp. cbn [h5_call]. rewrite cdata_loop_spec; [|lia|lia|unfold loop_fuel, hlen, len in *; lia].
  rewrite Z.sub_diag. unfold body. destruct (first_match _ _); reflexivity.
Qed.


(* ---------- <!-- ... --> ---------- *)

Lemma shift_shift a b x : shift a (shift b x) = shift (a + b) x.
Proof. destruct x as [[i w]|]; cbn [shift option_map fst snd]; [f_equal; f_equal; lia|reflexivity]. Qed.

Lemma shift_0 x : shift 0 x = x.
Proof. destruct x as [[i w]|]; reflexivity. Qed.

Lemma comment_end_cons b l :
  comment_end (b :: l)
  = match (if beq b x2d then comment_tail l else None) with
    | Some n => Some (0, 1 + n)
    | None => shift 1 (comment_end l)
    end.
Proof. reflexivity. Qed.

Lemma comment_tail_cons b l :
  comment_tail (b :: l)
  = if beq b x00 then option_map (Z.add 1) (comment_tail l)
    else if beq b x2d || beq b x21 then
      match l with c :: _ => if beq c x3e then Some 2 else None | [] => None end
    else None.
Proof. reflexivity. Qed.

(* a stretch without dash holds no terminator start *)
Lemma comment_end_absent pre l : ~ In x2d pre ->
  comment_end (pre ++ l) = shift (len pre) (comment_end l).
Proof.
  induction pre as [|b pre IH]; intros N.
  - cbn [app]. rewrite len_nil, shift_0. reflexivity.
  - assert (E : beq b x2d = false) by (apply beq_neq; intros ->; apply N; left; reflexivity).
    assert (N' : ~ In x2d pre) by (intros H; apply N; right; exact H).
    cbn [app]. rewrite comment_end_cons, E. rewrite (IH N'), shift_shift, len_cons. reflexivity.
Qed.

Lemma comment_end_no_dash l : ~ In x2d l -> comment_end l = None.
Proof. intros N. rewrite <- (app_nil_r l). rewrite comment_end_absent by exact N. reflexivity. Qed.

Lemma comment_tail_nuls nuls t : Forall (fun b => b = x00) nuls ->
  comment_tail (nuls ++ t) = option_map (Z.add (len nuls)) (comment_tail t).
Proof.
  induction 1 as [|b nuls Hb _ IH].
  - cbn [app]. rewrite len_nil. destruct (comment_tail t); reflexivity.
  - subst b. cbn [app]. rewrite comment_tail_cons. change (beq x00 x00) with true. cbv iota.
    rewrite IH, option_map_add, len_cons. reflexivity.
Qed.

Lemma comment_tail_range l n : comment_tail l = Some n -> 2 <= n <= len l.
Proof.
  revert n. induction l as [|b l IH]; intros n; [discriminate|].
  rewrite comment_tail_cons, len_cons. pose proof (len_nonneg l).
  destruct (beq b x00).
  - intros H0. apply option_map_add_Some in H0. destruct H0 as (m & F & ->). apply IH in F. lia.
  - destruct (beq b x2d || beq b x21); [|discriminate].
    destruct l as [|c l']; [discriminate|]. rewrite len_cons in *. pose proof (len_nonneg l').
    destruct (beq c x3e); [|discriminate]. intros [= <-]. lia.
Qed.

Lemma shift_Some k x i w : shift k x = Some (i, w) -> exists j, x = Some (j, w) /\ i = k + j.
Proof.
  destruct x as [[j w']|]; cbn [shift option_map fst snd]; [|discriminate].
  intros [= <- <-]. exists j. split; reflexivity.
Qed.

Lemma comment_end_range l i w : comment_end l = Some (i, w) -> 0 <= i /\ 3 <= w /\ i + w <= len l.
Proof.
  revert i w. induction l as [|b l IH]; intros i w; [discriminate|].
  rewrite comment_end_cons, len_cons. pose proof (len_nonneg l).
  destruct (if beq b x2d then comment_tail l else None) as [n|] eqn:T.
  - destruct (beq b x2d); [|discriminate]. apply comment_tail_range in T. intros H0.
    assert (Ei : i = 0) by congruence. assert (Ew : w = 1 + n) by congruence. lia.
  - intros H0. apply shift_Some in H0. destruct H0 as (j & F & ->). apply IH in F. lia.
Qed.

Lemma comment_end_short l : len l < 3 -> comment_end l = None.
Proof.
  intros H. destruct (comment_end l) as [[i w]|] eqn:F; [|reflexivity].
  apply comment_end_range in F. lia.
Qed.

(* the NUL run *)
Lemma span_split (f : byte -> bool) l :
  exists a t, l = a ++ t /\ span f l = len a /\ Forall (fun b => f b = true) a /\
              (t = [] \/ exists b t', t = b :: t' /\ f b = false).
Proof.
  induction l as [|b l (a & t & E & Sp & Fa & Ht)].
  - exists [], []. splits; [reflexivity|reflexivity|constructor|left; reflexivity].
  - cbn [span]. destruct (f b) eqn:Fb.
    + exists (b :: a), t. splits.
      * rewrite E. reflexivity.
      * rewrite Sp, len_cons. reflexivity.
      * constructor; assumption.
      * exact Ht.
    + exists [], (b :: l). splits; [reflexivity|reflexivity|constructor|].
      right. exists b, l. split; [reflexivity|exact Fb].
Qed.

Lemma get_skipn2 site (s : bytes) p q k b : 0 <= p -> 0 <= k -> q = p + k ->
  nth_error (skipn (Z.to_nat p) s) (Z.to_nat k) = Some b -> get site s q = Ok b.
Proof. intros Hp Hk -> N. apply get_skipn; assumption. Qed.

Lemma nuls_no_dash nuls : Forall (fun b => b = x00) nuls -> ~ In x2d nuls.
Proof.
  intros F H. rewrite Forall_forall in F. apply F in H. discriminate.
Qed.

Lemma comment_loop_spec fuel : forall h p,
  0 <= hpos h <= p -> p <= hlen h -> hlen h - p < Z.of_nat fuel ->
  comment_loop fuel h p
  = Ok (true, delimited_comment h (hpos h) c_html5_type_tag_comment (hpos h)
                (shift (p - hpos h) (comment_end (skipn (Z.to_nat p) (hs h))))).
Proof.
  induction fuel as [|fuel IH]; intros h p Hp Hl Hf; [lia|].
  assert (Hh : hlen h = len (hs h)) by reflexivity.
  assert (Eof : emit "stateComment" h (hpos h) (hlen h - hpos h) c_html5_type_tag_comment (hpos h) SEOF (is_close h)
                = Ok (true, delimited_comment h (hpos h) c_html5_type_tag_comment (hpos h) None)).
  { cbn [delimited_comment]. unfold unclosed. apply emit_ok. lia. }
  cbn [comment_loop]. rewrite drop_ok by lia. cbn [bind].
  set (rest := skipn (Z.to_nat p) (hs h)).
  assert (Lr : len rest = hlen h - p) by (unfold rest; rewrite len_skipn_le; lia).
  assert (Er : skipn (Z.to_nat p) (hs h) = rest) by reflexivity.
  change b_byte_dash with x2d. change b_byte_bang with x21. change b_byte_gt with x3e.
  destruct (index_byte_split rest x2d) as [[I N]|(pre & post & L & N & I)].
  - rewrite I. change (-1 =? -1) with true. cbn [orb].
    rewrite comment_end_no_dash by exact N. exact Eof.
  - rewrite I. pose proof (len_nonneg pre) as Hpre. destruct (len pre =? -1) eqn:E1; [lia|]. cbn [orb].
    rewrite L in Lr. rewrite len_app, len_cons in Lr. pose proof (len_nonneg post) as Hpost.
    rewrite L. rewrite comment_end_absent by exact N.
    destruct (hlen h <? p + len pre + 3) eqn:E2.
    + rewrite comment_end_short by (rewrite len_cons; lia). exact Eof.
    + assert (L2 : rest = (pre ++ [x2d]) ++ post) by (rewrite L, <- app_assoc; reflexivity).
      assert (Sk : skipn (Z.to_nat (p + len pre + 1)) (hs h) = post).
      { replace (p + len pre + 1) with (p + (len pre + 1)) by lia.
        apply (skipn_step (hs h) p (len pre + 1) (pre ++ [x2d]) post);
          [lia|rewrite len_app, len_cons, len_nil; lia|rewrite Er; exact L2]. }
      rewrite drop_ok by lia. cbn [bind]. rewrite Sk.
      (* what happens when the dash at len pre is not the start of a terminator *)
      assert (Step : comment_tail post = None ->
                comment_loop fuel h (p + len pre + 1)
                = Ok (true, delimited_comment h (hpos h) c_html5_type_tag_comment (hpos h)
                        (shift (p - hpos h) (shift (len pre) (comment_end (x2d :: post)))))).
      { intros T. rewrite IH; [|lia|lia|lia]. rewrite Sk.
        rewrite comment_end_cons, beq_refl, T.
        destruct (comment_end post) as [[i w]|]; cbn [shift option_map delimited_comment fst snd];
          [unfold closed_at; apply mk_eq; lia|reflexivity]. }
      destruct (span_split (fun b => beq b x00) post) as (nuls & t & Ep & Sp & Fn & Ht).
      assert (Fn' : Forall (fun b => b = x00) nuls).
      { rewrite Forall_forall in *. intros b Hb. apply beq_eq. apply Fn. exact Hb. }
      rewrite Sp. pose proof (len_nonneg nuls) as Hnuls.
      rewrite Ep in Lr. rewrite len_app in Lr.
      assert (L3 : rest = (pre ++ x2d :: nuls) ++ t).
      { rewrite L, Ep, <- app_assoc. reflexivity. }
      destruct Ht as [->|(ch & t' & -> & Hch)].
      * (* the NUL run reaches the end of the input *)
        rewrite len_nil in Lr.
        destruct (p + len pre + (1 + len nuls) =? hlen h) eqn:E3; [|lia].
        rewrite comment_end_cons, beq_refl. rewrite Ep, app_nil_r.
        rewrite <- (app_nil_r nuls) at 1. rewrite comment_tail_nuls by exact Fn'.
        cbn [comment_tail option_map].
        rewrite (comment_end_no_dash nuls) by (apply nuls_no_dash; exact Fn'). exact Eof.
      * rewrite len_cons in Lr. pose proof (len_nonneg t') as Ht'.
        destruct (p + len pre + (1 + len nuls) =? hlen h) eqn:E3; [lia|].
        rewrite (get_skipn2 _ (hs h) p _ (len pre + 1 + len nuls) ch);
          [|lia|lia|lia|rewrite Er, L3; apply nth_mid; rewrite len_app, len_cons; lia].
        cbn [bind].
        assert (Tl : comment_tail post = option_map (Z.add (len nuls)) (comment_tail (ch :: t'))).
        { rewrite Ep. apply comment_tail_nuls. exact Fn'. }
        rewrite comment_tail_cons, Hch in Tl.
        destruct (beq ch x2d || beq ch x21) eqn:Em.
        -- assert (Em' : negb (beq ch x2d) && negb (beq ch x21) = false)
             by (destruct (beq ch x2d), (beq ch x21); cbn in *; congruence).
           rewrite Em'.
           destruct t' as [|c2 t''].
           ++ (* the input ends right after the marker byte *)
              rewrite len_nil in Lr.
              destruct (p + len pre + (1 + len nuls + 1) =? hlen h) eqn:E4; [|lia].
              cbn [option_map] in Tl.
              rewrite comment_end_cons, beq_refl, Tl. rewrite Ep.
              rewrite comment_end_absent by (apply nuls_no_dash; exact Fn').
              rewrite (comment_end_short [ch]) by (rewrite len_cons, len_nil; lia).
              exact Eof.
           ++ rewrite len_cons in Lr. pose proof (len_nonneg t'') as Ht''.
              destruct (p + len pre + (1 + len nuls + 1) =? hlen h) eqn:E4; [lia|].
              assert (L4 : rest = (pre ++ x2d :: nuls ++ [ch]) ++ c2 :: t'').
              { rewrite L, Ep, <- !app_assoc. cbn [app]. rewrite <- app_assoc. reflexivity. }
              rewrite (get_skipn2 _ (hs h) p _ (len pre + 1 + len nuls + 1) c2);
                [|lia|lia|lia|rewrite Er, L4; apply nth_mid;
                               rewrite len_app, len_cons, len_app, len_cons, len_nil; lia].
              cbn [bind].
              destruct (beq c2 x3e) eqn:Ec2; cbn [negb].
              ** cbn [option_map] in Tl.
                 rewrite comment_end_cons, beq_refl, Tl.
                 cbn [shift option_map delimited_comment fst snd]. unfold closed_at.
                 rewrite emit_ok by lia. apply mk_eq; lia.
              ** cbn [option_map] in Tl. apply Step. exact Tl.
        -- assert (Em' : negb (beq ch x2d) && negb (beq ch x21) = true)
             by (destruct (beq ch x2d), (beq ch x21); cbn in *; congruence).
           rewrite Em'. cbn [option_map] in Tl. apply Step. exact Tl.
Qed.

Theorem comment_term d h :
  0 <= hpos h <= hlen h ->
  h5_call (S d) SComment h
  = Ok (true, delimited_comment h (hpos h) c_html5_type_tag_comment (hpos h)
                (comment_end (body h))).
Proof.
  intros Hp. cbn [h5_call]. rewrite comment_loop_spec; [|lia|lia|unfold loop_fuel, hlen, len in *; lia].
  rewrite Z.sub_diag, shift_0. reflexivity.
Qed.




(* ---------- the dispatch after "<!" ---------- *)

(* strings.ToLower on the ASCII view: the result is never longer than the
   argument, and has the same length only when every byte was ASCII (each
   non-ASCII rune the view accepts shrinks to one byte) *)
Lemma glv_cons b s1 :
  go_lower_view (b :: s1)
  = if is_ascii b then option_map (cons (lower_ascii b)) (go_lower_view s1)
    else match s1 with
         | b2 :: s2 =>
             if beq b xc4 && beq b2 xb0 then option_map (cons x69) (go_lower_view s2)
             else match s2 with
                  | b3 :: s3 =>
                      if beq b xe2 && beq b2 x84 && beq b3 xaa
                      then option_map (cons x6b) (go_lower_view s3)
                      else None
                  | [] => None
                  end
         | [] => None
         end.
Proof. reflexivity. Qed.

Lemma option_map_cons_Some (x : byte) (o : option bytes) u :
  option_map (cons x) o = Some u -> exists u', o = Some u' /\ u = x :: u'.
Proof. destruct o as [u'|]; cbn [option_map]; [|discriminate]. intros [= <-]. exists u'. split; reflexivity. Qed.

Lemma glv_len n : forall w u, (List.length w <= n)%nat -> go_lower_view w = Some u ->
  (List.length u <= List.length w)%nat /\
  (List.length u = List.length w -> u = map lower_ascii w).
Proof.
  induction n as [|n IH]; intros w u Hn.
  - destruct w; [|cbn in Hn; lia]. cbn [go_lower_view]. intros [= <-]. split; [lia|reflexivity].
  - destruct w as [|b s1]; [cbn [go_lower_view]; intros [= <-]; split; [lia|reflexivity]|].
    cbn [List.length] in Hn. rewrite glv_cons. destruct (is_ascii b).
    + intros H. apply option_map_cons_Some in H. destruct H as (u' & G & ->).
      apply IH in G; [|lia]. destruct G as [G1 G2]. cbn [List.length map]. split; [lia|].
      intros E. f_equal. apply G2. lia.
    + destruct s1 as [|b2 s2]; [discriminate|]. cbn [List.length] in Hn.
      destruct (beq b xc4 && beq b2 xb0).
      * intros H. apply option_map_cons_Some in H. destruct H as (u' & G & ->).
        apply IH in G; [|lia]. destruct G as [G1 _]. cbn [List.length]. split; lia.
      * destruct s2 as [|b3 s3]; [discriminate|]. cbn [List.length] in Hn.
        destruct (beq b xe2 && beq b2 x84 && beq b3 xaa); [|discriminate].
        intros H. apply option_map_cons_Some in H. destruct H as (u' & G & ->).
        apply IH in G; [|lia]. destruct G as [G1 _]. cbn [List.length]. split; lia.
Qed.

Lemma ci_prefix_map pat w : ci_prefix pat w = true -> List.length w = List.length pat ->
  pat = map lower_ascii w.
Proof.
  revert w. induction pat as [|x pat IH]; intros [|y w]; cbn [ci_prefix List.length map]; try discriminate;
    try reflexivity.
  rewrite andb_true_iff, beq_eq. intros [-> H] L. f_equal. apply IH; [exact H|lia].
Qed.

Lemma map_ci_prefix w : ci_prefix (map lower_ascii w) w = true.
Proof. induction w as [|y w IH]; cbn [map ci_prefix]; [reflexivity|]. rewrite beq_refl, IH. reflexivity. Qed.

Lemma ascii_lower_ascii y : is_ascii (lower_ascii y) = true -> is_ascii y = true.
Proof.
  intros H. assert (K : implb (is_ascii (lower_ascii y)) (is_ascii y) = true).
  { clear H. revert y. apply byte_sweep. vm_compute. reflexivity. }
  rewrite H in K. exact K.
Qed.

Lemma glv_ascii w : forallb is_ascii (map lower_ascii w) = true ->
  go_lower_view w = Some (map lower_ascii w).
Proof.
  induction w as [|y w IH]; cbn [map forallb]; [reflexivity|].
  rewrite andb_true_iff. intros [A1 A2]. rewrite glv_cons, (ascii_lower_ascii y A1), (IH A2). reflexivity.
Qed.

(* for an ASCII pattern and a word of the same length, the comparison with
   strings.ToLower(word) is the ASCII case-insensitive comparison *)
Lemma to_lower_cmp_ci pat w :
  forallb is_ascii pat = true -> List.length w = List.length pat ->
  to_lower_cmp pat w = ci_prefix pat w.
Proof.
  intros Ha Hl. apply eq_true_iff_eq. unfold to_lower_cmp. split.
  - destruct (go_lower_view w) as [u|] eqn:G; [|discriminate]. intros E. apply bytes_eqb_eq in E. subst u.
    apply (glv_len (List.length w)) in G; [|lia]. destruct G as [_ G]. rewrite (G (eq_sym Hl)).
    apply map_ci_prefix.
  - intros C. apply ci_prefix_map in C; [|exact Hl]. subst pat.
    rewrite glv_ascii by exact Ha. apply bytes_eqb_refl.
Qed.

Lemma ci_prefix_firstn pat l :
  ci_prefix pat (firstn (List.length pat) l) = ci_prefix pat l.
Proof.
  revert l. induction pat as [|x pat IH]; intros l; [destruct l; reflexivity|].
  destruct l as [|y l]; [reflexivity|]. cbn [List.length firstn ci_prefix]. rewrite IH. reflexivity.
Qed.

Lemma ci_prefix_short pat l : (List.length l < List.length pat)%nat -> ci_prefix pat l = false.
Proof.
  revert l. induction pat as [|x pat IH]; intros l; cbn [List.length]; [lia|].
  destruct l as [|y l]; [reflexivity|]. cbn [List.length ci_prefix]. intros H. rewrite IH by lia.
  apply andb_false_r.
Qed.

Lemma has_prefix_short l pat : (List.length l < List.length pat)%nat -> has_prefix l pat = false.
Proof.
  revert l. induction pat as [|x pat IH]; intros l; cbn [List.length]; [lia|].
  destruct l as [|y l]; [reflexivity|]. cbn [List.length has_prefix]. intros H. rewrite IH by lia.
  apply andb_false_r.
Qed.

Lemma bytes_eqb_firstn l pat : (List.length pat <= List.length l)%nat ->
  bytes_eqb (firstn (List.length pat) l) pat = has_prefix l pat.
Proof.
  revert l. induction pat as [|x pat IH]; intros l; cbn [List.length].
  - destruct l; reflexivity.
  - destruct l as [|y l]; cbn [List.length]; [lia|]. intros H.
    cbn [firstn bytes_eqb has_prefix]. rewrite IH by lia. rewrite (beq_sym y x). reflexivity.
Qed.

Lemma ci_prefix_firstn_n pat l n : n = List.length pat ->
  ci_prefix pat (firstn n l) = ci_prefix pat l.
Proof. intros ->. apply ci_prefix_firstn. Qed.

Lemma bytes_eqb_firstn_n l pat n : n = List.length pat -> (n <= List.length l)%nat ->
  bytes_eqb (firstn n l) pat = has_prefix l pat.
Proof. intros ->. apply bytes_eqb_firstn. Qed.

Lemma slice_body site h k : 0 <= hpos h -> 0 <= k -> hpos h + k <= hlen h ->
  slice site (hs h) (hpos h) (hpos h + k) = Ok (firstn (Z.to_nat k) (body h)).
Proof.
  intros Hp Hk Hl. unfold hlen in Hl. rewrite slice_ok by lia. unfold body.
  replace (hpos h + k - hpos h) with k by lia. reflexivity.
Qed.

Theorem markup_declaration_open_dispatch d h :
  0 <= hpos h <= hlen h ->
  h5_call (S d) SMarkupDeclarationOpen h
  = match md_classify (body h) with
    | MdDoctype => h5_call d SDoctype h
    | MdCData => h5_call d SCData (with_pos h (hpos h + 7))
    | MdComment => h5_call d SComment (with_pos h (hpos h + 2))
    | MdBogus => h5_call d SBogusComment h
    end.
Proof.
  intros Hp. cbn [h5_call]. unfold md_classify.
  assert (Lb : len (body h) = hlen h - hpos h) by (unfold body, hlen in *; rewrite len_skipn_le; lia).
  assert (Lb' : Z.of_nat (List.length (body h)) = hlen h - hpos h) by exact Lb.
  destruct (7 <=? hlen h - hpos h) eqn:E7.
  - rewrite !(slice_body _ h 7) by lia. cbn [bind]. change (Z.to_nat 7) with 7%nat.
    rewrite to_lower_cmp_ci;
      [|reflexivity|rewrite firstn_length_le; [reflexivity|lia]].
    rewrite (ci_prefix_firstn_n (bs "doctype") (body h) 7 eq_refl).
    destruct (ci_prefix (bs "doctype") (body h)); [reflexivity|].
    rewrite (bytes_eqb_firstn_n (body h) (bs "[CDATA[") 7 eq_refl) by lia.
    destruct (has_prefix (body h) (bs "[CDATA[")); [reflexivity|].
    destruct (2 <=? hlen h - hpos h) eqn:E2; [|lia].
    rewrite (slice_body _ h 2) by lia. cbn [bind]. change (Z.to_nat 2) with 2%nat.
    rewrite (bytes_eqb_firstn_n (body h) (bs "--") 2 eq_refl) by lia.
    destruct (has_prefix (body h) (bs "--")); reflexivity.
  - cbn [bind].
    rewrite (ci_prefix_short (bs "doctype") (body h)) by (change (List.length (bs "doctype")) with 7%nat; lia).
    rewrite (has_prefix_short (body h) (bs "[CDATA[")) by (change (List.length (bs "[CDATA[")) with 7%nat; lia).
    destruct (2 <=? hlen h - hpos h) eqn:E2.
    + rewrite (slice_body _ h 2) by lia. cbn [bind]. change (Z.to_nat 2) with 2%nat.
      rewrite (bytes_eqb_firstn_n (body h) (bs "--") 2 eq_refl) by lia.
      destruct (has_prefix (body h) (bs "--")); reflexivity.
    + cbn [bind].
      rewrite (has_prefix_short (body h) (bs "--")) by (change (List.length (bs "--")) with 2%nat; lia).
      reflexivity.
Qed.


(* ---------- the openers, read as list decompositions ---------- *)

Lemma md_classify_cdata bd : md_classify bd = MdCData <-> exists post, bd = bs "[CDATA[" ++ post.
Proof.
  unfold md_classify. rewrite <- has_prefix_iff. split.
  - destruct (ci_prefix _ bd); [discriminate|]. destruct (has_prefix bd (bs "[CDATA[")); [reflexivity|].
    destruct (has_prefix bd (bs "--")); discriminate.
  - intros H. pose proof H as H0. apply has_prefix_iff in H0. destruct H0 as [post ->].
    replace (ci_prefix (bs "doctype") (bs "[CDATA[" ++ post)) with false by reflexivity.
    rewrite H. reflexivity.
Qed.

Lemma md_classify_comment bd : md_classify bd = MdComment <-> exists post, bd = bs "--" ++ post.
Proof.
  unfold md_classify. rewrite <- has_prefix_iff. split.
  - destruct (ci_prefix _ bd); [discriminate|]. destruct (has_prefix bd (bs "[CDATA[")); [discriminate|].
    destruct (has_prefix bd (bs "--")); [reflexivity|discriminate].
  - intros H. pose proof H as H0. apply has_prefix_iff in H0. destruct H0 as [post ->].
    replace (ci_prefix (bs "doctype") (bs "--" ++ post)) with false by reflexivity.
    replace (has_prefix (bs "--" ++ post) (bs "[CDATA[")) with false by reflexivity.
    rewrite H. reflexivity.
Qed.

Lemma ci_prefix_iff pat l :
  ci_prefix pat l = true <-> exists w post, l = w ++ post /\ map lower_ascii w = pat.
Proof.
  revert l. induction pat as [|x pat IH]; intros l.
  - split; [intros _; exists [], l; split; reflexivity|reflexivity].
  - destruct l as [|y l]; cbn [ci_prefix].
    + split; [discriminate|]. intros (w & post & E & M). destruct w; discriminate.
    + rewrite andb_true_iff, beq_eq, IH. split.
      * intros [-> (w & post & -> & <-)]. exists (y :: w), post. split; reflexivity.
      * intros (w & post & E & M). destruct w as [|y' w]; [discriminate|].
        cbn [app map] in *. inversion E; subst. inversion M; subst. split; [reflexivity|].
        exists w, post. split; reflexivity.
Qed.

Lemma md_classify_doctype bd :
  md_classify bd = MdDoctype <-> exists w post, bd = w ++ post /\ map lower_ascii w = bs "doctype".
Proof.
  rewrite <- ci_prefix_iff. unfold md_classify. destruct (ci_prefix _ bd); [split; reflexivity|].
  split; [|discriminate].
  destruct (has_prefix bd (bs "[CDATA[")); [discriminate|]. destruct (has_prefix bd (bs "--")); discriminate.
Qed.

(* ---------- "<!" + opener + construct, end to end ---------- *)

Lemma body_len h : 0 <= hpos h <= hlen h -> len (body h) = hlen h - hpos h.
Proof. intros H. unfold body, hlen in *. rewrite len_skipn_le; lia. Qed.

Theorem markup_doctype_term d h :
  0 <= hpos h <= hlen h -> md_classify (body h) = MdDoctype ->
  h5_call (S (S d)) SMarkupDeclarationOpen h
  = Ok (true, delimited h (hpos h) c_html5_type_doc_type SData 1 (hpos h)
                (first_byte x3e (body h))).
Proof.
  intros Hp M. rewrite markup_declaration_open_dispatch by exact Hp. rewrite M.
  apply doctype_term. exact Hp.
Qed.

Theorem markup_bogus_term d h :
  0 <= hpos h <= hlen h -> md_classify (body h) = MdBogus ->
  h5_call (S (S d)) SMarkupDeclarationOpen h
  = Ok (true, delimited h (hpos h) c_html5_type_tag_comment SData 1 (hlen h)
                (first_byte x3e (body h))).
Proof.
  intros Hp M. rewrite markup_declaration_open_dispatch by exact Hp. rewrite M.
  apply bogus_comment_term. exact Hp.
Qed.

Theorem markup_cdata_term d h :
  0 <= hpos h <= hlen h -> md_classify (body h) = MdCData ->
  h5_call (S (S d)) SMarkupDeclarationOpen h
  = Ok (true, delimited h (hpos h + 7) c_html5_type_data_text SData 3 (hpos h + 7)
                (first_match pat_cdata_end (skipn (Z.to_nat (hpos h + 7)) (hs h)))).
Proof.
  intros Hp M. rewrite markup_declaration_open_dispatch by exact Hp. rewrite M.
  pose proof (body_len h Hp) as Lb. apply md_classify_cdata in M. destruct M as [post M].
  rewrite M, len_app in Lb. change (len (bs "[CDATA[")) with 7 in Lb. pose proof (len_nonneg post).
  rewrite cdata_term by (unfold with_pos, hlen in *; cbn [hs hpos]; lia). reflexivity.
Qed.

Theorem markup_comment_term d h :
  0 <= hpos h <= hlen h -> md_classify (body h) = MdComment ->
  h5_call (S (S d)) SMarkupDeclarationOpen h
  = Ok (true, delimited_comment h (hpos h + 2) c_html5_type_tag_comment (hpos h + 2)
                (comment_end (skipn (Z.to_nat (hpos h + 2)) (hs h)))).
Proof.
  intros Hp M. rewrite markup_declaration_open_dispatch by exact Hp. rewrite M.
  pose proof (body_len h Hp) as Lb. apply md_classify_comment in M. destruct M as [post M].
  rewrite M, len_app in Lb. change (len (bs "--")) with 2 in Lb. pose proof (len_nonneg post).
  rewrite comment_term by (unfold with_pos, hlen in *; cbn [hs hpos]; lia). reflexivity.
Qed.

(* ---------- what comment_end means ---------- *)

Lemma comment_tail_iff l n :
  comment_tail l = Some n <->
  exists nuls m post, l = nuls ++ m :: x3e :: post /\ Forall (fun b => b = x00) nuls /\
                      (m = x2d \/ m = x21) /\ n = len nuls + 2.
Proof.
  split.
  - revert n. induction l as [|b l IH]; intros n; [discriminate|]. rewrite comment_tail_cons.
    destruct (beq b x00) eqn:E0.
    + apply beq_eq in E0. subst b. intros H. apply option_map_add_Some in H. destruct H as (k & T & ->).
      apply IH in T. destruct T as (nuls & m & post & -> & Fn & Hm & ->).
      exists (x00 :: nuls), m, post. splits; [reflexivity|constructor; [reflexivity|exact Fn]|exact Hm|].
      rewrite len_cons. lia.
    + destruct (beq b x2d || beq b x21) eqn:Em; [|discriminate].
      destruct l as [|c l']; [discriminate|]. destruct (beq c x3e) eqn:Ec; [|discriminate].
      apply beq_eq in Ec. subst c. intros [= <-].
      exists [], b, l'. splits; [reflexivity|constructor| |reflexivity].
      apply orb_true_iff in Em. rewrite !beq_eq in Em. exact Em.
  - intros (nuls & m & post & -> & Fn & Hm & ->). rewrite comment_tail_nuls by exact Fn.
    assert (T : comment_tail (m :: x3e :: post) = Some 2) by (destruct Hm as [->| ->]; reflexivity).
    rewrite T. cbn [option_map]. reflexivity.
Qed.

Lemma term_at_nonneg l i w : comment_term_at l i w -> 0 <= i.
Proof. intros (pre & nuls & m & post & _ & <- & _). apply len_nonneg. Qed.

Lemma term_at_nil i w : ~ comment_term_at [] i w.
Proof. intros (pre & nuls & m & post & E & _). destruct pre; discriminate. Qed.

Lemma term_at_0 b l w : comment_term_at (b :: l) 0 w <-> b = x2d /\ comment_tail l = Some (w - 1).
Proof.
  rewrite comment_tail_iff. split.
  - intros (pre & nuls & m & post & E & L & Fn & Hm & ->).
    destruct pre; [|rewrite len_cons in L; pose proof (len_nonneg pre); lia].
    cbn [app] in E. inversion E; subst. split; [reflexivity|].
    exists nuls, m, post. splits; [reflexivity|exact Fn|exact Hm|lia].
  - intros [-> (nuls & m & post & -> & Fn & Hm & Ew)].
    exists [], nuls, m, post. splits; [reflexivity|reflexivity|exact Fn|exact Hm|lia].
Qed.

Lemma term_at_cons b l i w : 0 <= i -> (comment_term_at (b :: l) (1 + i) w <-> comment_term_at l i w).
Proof.
  intros Hi. split.
  - intros (pre & nuls & m & post & E & L & R). destruct pre as [|x pre]; [rewrite len_nil in L; lia|].
    cbn [app] in E. inversion E; subst. exists pre, nuls, m, post. split; [reflexivity|].
    split; [rewrite len_cons in L; lia|exact R].
  - intros (pre & nuls & m & post & E & L & R). exists (b :: pre), nuls, m, post.
    split; [rewrite E; reflexivity|]. split; [rewrite len_cons; lia|exact R].
Qed.

Lemma term_at_tail b l j w : j <> 0 -> comment_term_at (b :: l) j w -> comment_term_at l (j - 1) w.
Proof.
  intros Hj O. pose proof (term_at_nonneg _ _ _ O). replace j with (1 + (j - 1)) in O by lia.
  apply (proj1 (term_at_cons b l (j - 1) w ltac:(lia))) in O. exact O.
Qed.

(* comment_end returns a terminator, and no terminator (of any width) starts before it *)
Theorem comment_end_Some l i w :
  comment_end l = Some (i, w) <->
  (comment_term_at l i w /\ forall j w', j < i -> ~ comment_term_at l j w').
Proof.
  revert i w. induction l as [|b l IH]; intros i w.
  - split; [discriminate|]. intros [O _]. exfalso. exact (term_at_nil _ _ O).
  - rewrite comment_end_cons.
    destruct (if beq b x2d then comment_tail l else None) as [n|] eqn:T.
    + assert (O0 : comment_term_at (b :: l) 0 (1 + n)).
      { apply term_at_0. destruct (beq b x2d) eqn:Eb; [|discriminate]. apply beq_eq in Eb.
        split; [exact Eb|]. rewrite T. f_equal. lia. }
      split.
      * intros H. assert (Ei : i = 0) by congruence. assert (Ew : w = 1 + n) by congruence. subst i w.
        split; [exact O0|]. intros j w' Hj O. apply term_at_nonneg in O. lia.
      * intros [O M]. pose proof (term_at_nonneg _ _ _ O).
        destruct (Z.eq_dec i 0) as [->|Ne]; [|exfalso; apply (M 0 (1 + n)); [lia|exact O0]].
        apply term_at_0 in O. destruct O as [-> O]. change (beq x2d x2d) with true in T. cbv iota in T.
        rewrite T in O. assert (En : n = w - 1) by congruence. f_equal. f_equal. lia.
    + assert (N0 : forall w', ~ comment_term_at (b :: l) 0 w').
      { intros w' O. apply term_at_0 in O. destruct O as [-> O].
        change (beq x2d x2d) with true in T. cbv iota in T. congruence. }
      split.
      * intros H. apply shift_Some in H. destruct H as (m & F & ->).
        pose proof F as F0. apply comment_end_range in F0.
        apply IH in F. destruct F as [O M].
        split; [apply term_at_cons; [lia|exact O]|].
        intros j w' Hj Oj. destruct (Z.eq_dec j 0) as [->|Ne]; [exact (N0 _ Oj)|].
        apply term_at_tail in Oj; [|exact Ne]. apply (M (j - 1) w'); [lia|exact Oj].
      * intros [O M]. pose proof (term_at_nonneg _ _ _ O).
        destruct (Z.eq_dec i 0) as [->|Ne]; [exfalso; exact (N0 _ O)|].
        apply term_at_tail in O; [|exact Ne].
        assert (F : comment_end l = Some (i - 1, w)).
        { apply IH. split; [exact O|]. intros j w' Hj Oj.
          apply (M (1 + j) w'); [lia|]. apply term_at_cons; [|exact Oj]. apply term_at_nonneg in Oj. lia. }
        rewrite F. cbn [shift option_map fst snd]. f_equal. f_equal. lia.
Qed.

Theorem comment_end_None l : comment_end l = None <-> forall j w, ~ comment_term_at l j w.
Proof.
  split.
  - induction l as [|b l IH]; intros H j w O; [exact (term_at_nil _ _ O)|].
    rewrite comment_end_cons in H.
    destruct (if beq b x2d then comment_tail l else None) as [n|] eqn:T; [discriminate|].
    destruct (comment_end l) as [[i0 w0]|] eqn:F; [discriminate|].
    pose proof (term_at_nonneg _ _ _ O).
    destruct (Z.eq_dec j 0) as [->|Ne].
    + apply term_at_0 in O. destruct O as [-> O]. change (beq x2d x2d) with true in T. cbv iota in T.
      congruence.
    + apply term_at_tail in O; [|exact Ne]. exact (IH eq_refl _ _ O).
  - intros H. destruct (comment_end l) as [[i w]|] eqn:F; [|reflexivity].
    apply comment_end_Some in F. destruct F as [O _]. exfalso. exact (H _ _ O).
Qed.




(* ---------- the record fields of the answer, spelled out ---------- *)

Lemma delimited_closed h cpos ty next w eofpos i :
  let h' := delimited h cpos ty next w eofpos (Some i) in
  hs h' = hs h /\ is_close h' = is_close h /\ tok_off h' = cpos /\ tok_type h' = ty /\
  tok_len h' = i /\ hpos h' = cpos + i + w /\ hstate h' = next.
Proof. cbv zeta. splits; reflexivity. Qed.

Lemma delimited_unclosed h cpos ty next w eofpos :
  let h' := delimited h cpos ty next w eofpos None in
  hs h' = hs h /\ is_close h' = is_close h /\ tok_off h' = cpos /\ tok_type h' = ty /\
  tok_len h' = hlen h - cpos /\ hpos h' = eofpos /\ hstate h' = SEOF.
Proof. cbv zeta. splits; reflexivity. Qed.

Lemma delimited_comment_closed h cpos ty eofpos i w :
  let h' := delimited_comment h cpos ty eofpos (Some (i, w)) in
  hs h' = hs h /\ is_close h' = is_close h /\ tok_off h' = cpos /\ tok_type h' = ty /\
  tok_len h' = i /\ hpos h' = cpos + i + w /\ hstate h' = SData.
Proof. cbv zeta. splits; reflexivity. Qed.

Lemma delimited_comment_unclosed h cpos ty eofpos :
  let h' := delimited_comment h cpos ty eofpos None in
  hs h' = hs h /\ is_close h' = is_close h /\ tok_off h' = cpos /\ tok_type h' = ty /\
  tok_len h' = hlen h - cpos /\ hpos h' = eofpos /\ hstate h' = SEOF.
Proof. cbv zeta. splits; reflexivity. Qed.

(* "the tokenizer stops": in state SEOF the next call reports no token and
   changes nothing *)
Lemma eof_stops h : hstate h = SEOF -> h5_next h = Ok (false, h).
Proof. intros E. unfold h5_next. rewrite E. reflexivity. Qed.

(* the side condition value_start h <= hlen h of quoted_value_term is needed:
   a quoted-value state entered at the very end of a non-empty input (never
   done by the tokenizer itself: stateBeforeAttributeValue only dispatches on a
   byte it has seen) slices s[len+1:] *)
Lemma quoted_value_at_end_panics d f h :
  is_quote_state f -> 0 < hpos h -> hpos h = hlen h ->
  h5_call (S d) f h = Panic "stateAttributeValueQuote:s[pos:]".
Proof.
  intros Hf Hp Hl. assert (E : (0 <? hpos h) = true) by lia.
  assert (D : drop "stateAttributeValueQuote:s[pos:]" (hs h) (hpos h + 1) = Panic "stateAttributeValueQuote:s[pos:]").
  { unfold drop, hlen in *. destruct ((0 <=? hpos h + 1) && (hpos h + 1 <=? len (hs h))) eqn:E2; [lia|reflexivity]. }
  destruct Hf as [->|[->| ->]]; cbn [h5_call]; rewrite E; unfold with_pos; cbn [hs hpos]; rewrite D; reflexivity.
Qed.
