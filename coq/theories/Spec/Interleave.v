(* Interleave: a generic small-step system of threads that share nothing but
   immutable data.  Each thread runs a deterministic step function over its
   private state; a schedule is any sequence of thread identifiers. *)
From Coq Require Import List Arith Lia.
Import ListNotations.

Section Interleave.
  Variable St : Type.          (* private state of one call in progress *)
  Variable Res : Type.         (* its result *)
  (* one step of a call.  The shared tables are constants of the step function
     (they are Gallina definitions): its type gives it no way to return a new
     shared component, which is the formal content of "no shared mutable state". *)
  Variable step : St -> St + Res.

  Definition thread := (St + Res)%type.

  Definition step_thread (t : thread) : thread :=
    match t with
    | inl s => step s
    | inr r => inr r
    end.

  Fixpoint iter (n : nat) (t : thread) : thread :=
    match n with O => t | S n' => iter n' (step_thread t) end.

  Fixpoint update (ts : list thread) (i : nat) : list thread :=
    match ts, i with
    | [], _ => []
    | t :: ts', O => step_thread t :: ts'
    | t :: ts', S i' => t :: update ts' i'
    end.

  (* run a schedule: at each tick the scheduled thread (if it exists) takes one step *)
  Fixpoint exec (sched : list nat) (ts : list thread) : list thread :=
    match sched with
    | [] => ts
    | i :: sched' => exec sched' (update ts i)
    end.

  Definition count (i : nat) (sched : list nat) : nat := count_occ Nat.eq_dec sched i.

  Lemma iter_step n t : iter n (step_thread t) = step_thread (iter n t).
  Proof. revert t. induction n as [|n IH]; intros t; cbn; [reflexivity|]. rewrite IH. reflexivity. Qed.

  Lemma nth_update_same ts i t : nth_error ts i = Some t -> nth_error (update ts i) i = Some (step_thread t).
  Proof.
    revert i. induction ts as [|u ts IH]; intros [|i] H; cbn in *; try discriminate.
    - inversion H; reflexivity.
    - apply IH. exact H.
  Qed.

  Lemma nth_update_other ts i j : i <> j -> nth_error (update ts i) j = nth_error ts j.
  Proof.
    revert i j. induction ts as [|u ts IH]; intros [|i] [|j] H; cbn; try reflexivity; try congruence.
    apply IH. congruence.
  Qed.

  (* every thread ends exactly where running it alone for as many steps as it
     was scheduled would have put it: other threads have no influence *)
  Theorem exec_thread sched : forall ts i t,
    nth_error ts i = Some t ->
    nth_error (exec sched ts) i = Some (iter (count i sched) t).
  Proof.
    induction sched as [|j sched IH]; intros ts i t H; cbn [exec count count_occ].
    - exact H.
    - destruct (Nat.eq_dec j i) as [->|Hne].
      + erewrite IH; [|apply nth_update_same; exact H]. cbn [iter]. reflexivity.
      + apply IH. rewrite nth_update_other by exact Hne. exact H.
  Qed.

  Lemma iter_done n r : iter n (inr r) = inr r.
  Proof. induction n as [|n IH]; cbn; [reflexivity|exact IH]. Qed.

  Lemma iter_add n m t : iter (n + m) t = iter m (iter n t).
  Proof. revert t. induction n as [|n IH]; intros t; cbn; [reflexivity|apply IH]. Qed.

  (* if a call finishes after n of its own steps when run alone, then under any
     schedule that gives it at least n steps it has finished with the same result *)
  Corollary exec_result sched ts i s n r :
    nth_error ts i = Some (inl s) ->
    iter n (inl s) = inr r ->
    n <= count i sched ->
    nth_error (exec sched ts) i = Some (inr r).
  Proof.
    intros H Hn Hle. rewrite (exec_thread sched ts i (inl s) H).
    replace (count i sched) with (n + (count i sched - n)) by lia.
    rewrite iter_add, Hn, iter_done. reflexivity.
  Qed.
End Interleave.
