(* RefSqlLex: `Ref`, an executable specification of the libinjection SQLi
   tokenizer, written independently of the Go-mirroring model (SqliLex.v).
   Definitions only; the proof that the model computes exactly these
   functions is Proofs/RefSqlLexProofs.v.

   Style.  A lexer is a total function of the not-yet-consumed input
   `rest : bytes` (the byte being dispatched is its head) and, where needed,
   the dialect flags.  It returns a `lexeme`: the token class, where the
   token text starts and how long it is (relative to `rest`, before the
   31-byte clipping), the string marks, the `@` count, how many bytes were
   consumed and the two comment counters' increments.  There are no
   positions into a shared buffer, no error monad and no fuel inside the
   lexers.  Lexemes are described with
     - span p l           (Base)   length of the longest prefix of l inside the class p
     - find_close d o l   (Spec/StringSpec)   first real closing quote
     - first_match pat l  (Spec/StringSpec)   first occurrence of a byte sequence
   A lexer never re-tests the byte it was dispatched on (the dispatch table
   already decided that); it only looks at what follows.
   Data that is looked up, not specified: the keyword table (search_keyword),
   the byte -> lexer-kind table (dispatch), the two stop-byte sets of words
   and variables (word_accept, var_accept) and the flag constants. *)
From Coq Require Import List ZArith String Bool.
From Coq.Strings Require Import Byte.
From LI Require Import Prelude Base SqliLex Spec.StringSpec.
From LIGen Require Import Tables Dispatch Consts.
Import ListNotations.
Local Open Scope Z_scope.

(* ---------- small vocabulary ---------- *)

(* l without its first n bytes / the first n bytes of l *)
Definition after (n : Z) (l : bytes) : bytes := skipn (Z.to_nat n) l.
Definition upto (n : Z) (l : bytes) : bytes := firstn (Z.to_nat n) l.

(* does the first byte of l exist and satisfy p? *)
Definition head_is (p : byte -> bool) (l : bytes) : bool :=
  match l with b :: _ => p b | [] => false end.

(* does l begin with the bytes pat? *)
Fixpoint starts (l pat : bytes) {struct pat} : bool :=
  match pat, l with
  | [], _ => true
  | x :: pat', y :: l' => beq y x && starts l' pat'
  | _ :: _, [] => false
  end.

Definition b2z (b : bool) : Z := if b then 1 else 0.
Definition is_some {A} (o : option A) : bool := match o with Some _ => true | None => false end.

(* byte classes *)
Definition between (lo hi : Z) (b : byte) : bool := (lo <=? code b) && (code b <=? hi).
Definition is_dec (b : byte) : bool := between 48 57 b.                                   (* 0-9 *)
Definition is_hex (b : byte) : bool := is_dec b || between 65 70 b || between 97 102 b.   (* 0-9 A-F a-f *)
Definition is_bin (b : byte) : bool := between 48 49 b.                                   (* 0 1 *)
Definition is_money (b : byte) : bool := is_dec b || beq b x2e || beq b x2c.              (* 0-9 . , *)
Definition either (u l b : byte) : bool := beq b u || beq b l.                            (* a letter, either case *)
(* SQL white space as the number suffix rule sees it: space, \t \n \v \f \r, NBSP, NUL *)
Definition sql_white (b : byte) : bool := mem b [x20; x09; x0a; x0b; x0c; x0d; xa0; x00].
Definition word_byte (b : byte) : bool := negb (mem b word_accept).   (* may continue a bare word *)
Definition var_byte (b : byte) : bool := negb (mem b var_accept).     (* may continue a variable name *)

(* flag bits; a zero flag word means "no quote context, ANSI" *)
Definition bit (fl m : Z) : bool := negb (Z.land fl m =? 0).
Definition norm_flags (fl : Z) : Z := if fl =? 0 then Z.lor c_sqli_flag_quote_none c_sqli_flag_sqlansi else fl.
Definition ansi (fl : Z) : bool := bit fl c_sqli_flag_sqlansi.
Definition mysql (fl : Z) : bool := bit fl c_sqli_flag_sqlmysql.
(* the quote the input is assumed to sit in, if any: the single quote wins over the double one *)
Definition context_quote (fl : Z) : option byte :=
  if bit fl c_sqli_flag_quote_single then Some x27
  else if bit fl c_sqli_flag_quote_double then Some x22 else None.

(* ---------- lexemes ---------- *)

Record lexeme := mkLx {
  lx_cat : byte;      (* token class character; NUL = no token (white space) *)
  lx_off : Z;         (* where the token text starts, counted from the start of rest *)
  lx_len : Z;         (* length of the token text before clipping to 31 bytes *)
  lx_open : byte;     (* string opening mark (NUL = none) *)
  lx_close : byte;    (* string closing mark (NUL = none / unterminated) *)
  lx_count : Z;       (* number of leading '@' of a variable *)
  lx_adv : Z;         (* bytes consumed *)
  lx_ddx : Z;         (* increment of the "--x comment" counter *)
  lx_hash : Z }.      (* increment of the "# comment" counter *)

(* a token of class c whose text is the first n bytes of rest; adv bytes consumed *)
Definition plain (c : byte) (n adv : Z) : lexeme := mkLx c 0 n x00 x00 0 adv 0 0.
Definition blank : lexeme := plain x00 0 1.

Definition with_cat (x : lexeme) (c : byte) : lexeme :=
  mkLx c (lx_off x) (lx_len x) (lx_open x) (lx_close x) (lx_count x) (lx_adv x) (lx_ddx x) (lx_hash x).
Definition with_count (x : lexeme) (n : Z) : lexeme :=
  mkLx (lx_cat x) (lx_off x) (lx_len x) (lx_open x) (lx_close x) n (lx_adv x) (lx_ddx x) (lx_hash x).
Definition with_stats (x : lexeme) (d h : Z) : lexeme :=
  mkLx (lx_cat x) (lx_off x) (lx_len x) (lx_open x) (lx_close x) (lx_count x) (lx_adv x) d h.
(* the same lexeme seen from k bytes earlier *)
Definition shift (k : Z) (x : lexeme) : lexeme :=
  mkLx (lx_cat x) (k + lx_off x) (lx_len x) (lx_open x) (lx_close x) (lx_count x) (k + lx_adv x)
       (lx_ddx x) (lx_hash x).

(* the (clipped) token text *)
Definition lx_text (rest : bytes) (x : lexeme) : bytes :=
  upto (Z.min (lx_len x) 31) (after (lx_off x) rest).

(* the token record of a lexeme found at absolute offset k *)
Definition tok_of (k : Z) (rest : bytes) (x : lexeme) : token :=
  mkTok (k + lx_off x) (Z.min (lx_len x) 31) (lx_count x) (lx_cat x) (lx_open x) (lx_close x)
        (lx_text rest x).

(* ---------- string literals ---------- *)

(* A literal whose text starts `off` bytes into rest.  `close` is the offset of
   the terminator inside the text (w bytes wide) if there is one: the text stops
   there and scanning resumes after the terminator; otherwise the text is
   everything that is left and the closing mark stays NUL. *)
Definition literal (rest : bytes) (off : Z) (o c : byte) (w : Z) (close : option Z) : lexeme :=
  match close with
  | Some i => mkLx x73 off i o c 0 (off + i + w) 0 0
  | None => mkLx x73 off (len rest - off) o x00 0 (len rest) 0 0
  end.

(* text after an `off`-byte opener, closed by the first real quote d *)
Definition quoted (rest : bytes) (off : Z) (o d : byte) : lexeme :=
  literal rest off o d 1 (find_close d false (after off rest)).

(* '..'  ".." : the dispatched byte is the quote *)
Definition lex_string (rest : bytes) : lexeme :=
  match rest with d :: _ => quoted rest 1 d d | [] => blank end.

(* `..` : a quoted identifier; 'f' if its (clipped) text is a function name, else 'n' *)
Definition lex_tick (rest : bytes) : lexeme :=
  let x := quoted rest 1 x60 x60 in
  with_cat x (if beq (search_keyword (lx_text rest x)) x66 then x66 else x6e).

(* ---------- one-byte and operator lexemes ---------- *)

Definition lex_backslash (rest : bytes) : lexeme :=        (* \N is a number (NULL) *)
  if head_is (fun b => beq b x4e) (after 1 rest) then plain x31 2 2 else plain x5c 1 1.

(* two-byte operators are whatever the keyword table knows; <=> is the only three-byte one *)
Definition lex_operator2 (rest : bytes) : lexeme :=
  match rest with
  | a :: _ :: _ =>
      if starts rest [x3c; x3d; x3e] then plain x6f 3 3
      else let c := search_keyword (upto 2 rest) in
           if negb (beq c x00) then plain c 2 2
           else if beq a x3a then plain x3a 1 1 else plain x6f 1 1
  | _ => plain x6f 1 1
  end.

(* ---------- comments ---------- *)

(* to the end of the line: the text stops before the first \n, which is consumed too *)
Definition lex_eol_comment (rest : bytes) : lexeme :=
  let n := span (fun b => negb (beq b x0a)) rest in
  plain x63 n (Z.min (n + 1) (len rest)).

(* '#': a comment in MySQL, an operator elsewhere *)
Definition lex_hash (fl : Z) (rest : bytes) : lexeme :=
  if mysql fl then with_stats (lex_eol_comment rest) 0 2 else with_stats (plain x6f 1 1) 0 1.

(* '-': "--" followed by white space or by the end of the input is a comment
   everywhere; "--" followed by anything else only in ANSI mode (counted) *)
Definition lex_dash (fl : Z) (rest : bytes) : lexeme :=
  if head_is (fun b => beq b x2d) (after 1 rest) then
    match after 2 rest with
    | [] => lex_eol_comment rest
    | w :: _ => if sql_white w then lex_eol_comment rest
                else if ansi fl then with_stats (lex_eol_comment rest) 1 0 else plain x6f 1 1
    end
  else plain x6f 1 1.

(* '/': "/*" opens a comment that runs to the first "*/" (or to the end).  It is
   evil ('X') when a "/*" begins inside it before the terminator, or when it is a
   MySQL conditional comment "/*!". *)
Definition lex_slash (rest : bytes) : lexeme :=
  if head_is (fun b => beq b x2a) (after 1 rest) then
    let body := after 2 rest in
    let close := first_match [x2a; x2f] body in
    let nested := match close with
                  | Some i => is_some (first_match [x2f; x2a] (upto (i + 1) body))
                  | None => false end in
    let n := match close with Some i => i + 4 | None => len rest end in
    plain (if nested || head_is (fun b => beq b x21) body then x58 else x63) n n
  else plain x6f 1 1.

(* ---------- words ---------- *)

(* first split point of a word: a '.' or back-tick whose prefix is a real
   keyword (known to the table, and not as a bare word) *)
Fixpoint kw_split (pre w : bytes) : option (Z * byte) :=
  match w with
  | [] => None
  | b :: w' =>
      let c := search_keyword pre in
      if (beq b x2e || beq b x60) && negb (beq c x00) && negb (beq c x6e)
      then Some (len pre, c)
      else kw_split (pre ++ [b]) w'
  end.

(* a bare word: the longest run of word bytes.  Only its first 31 bytes are
   looked at for a keyword split; a word of fewer than 32 bytes is classified by
   the keyword table, a longer one is a bare word. *)
Definition lex_word (rest : bytes) : lexeme :=
  let n := span word_byte rest in
  match kw_split [] (upto (Z.min n 31) rest) with
  | Some (i, c) => plain c i i
  | None =>
      let c := search_keyword (upto n rest) in
      plain (if (n <? 32) && negb (beq c x00) then c else x6e) n n
  end.

(* [...] : a bracketed word, up to and including the first ']' *)
Definition lex_bracket (rest : bytes) : lexeme :=
  let n := Z.min (span (fun b => negb (beq b x5d)) rest + 1) (len rest) in
  plain x6e n n.

(* ---------- numbers ---------- *)

(* 0x.. / 0b.. select a digit class *)
Definition radix (rest : bytes) : option (byte -> bool) :=
  match rest with
  | z :: c :: _ => if beq z x30 then
                     if either x58 x78 c then Some is_hex
                     else if either x42 x62 c then Some is_bin else None
                   else None
  | _ => None
  end.

(* after the number proper: one of d D f F, provided the input ends there or
   the next byte is white space, ';', 'u' or 'U' *)
Definition num_suffix (l : bytes) : bool :=
  match l with
  | c :: tl => (either x44 x64 c || either x46 x66 c) &&
               match tl with
               | [] => true
               | b :: _ => sql_white b || beq b x3b || either x55 x75 b
               end
  | [] => false
  end.

(* digits [. digits] [e [+-] digits] [suffix].  A lone '.' is the dot token; an
   exponent marker without exponent digits turns the whole thing into a bare
   word; "0x" / "0b" without digits is a two-byte bare word. *)
Definition lex_number (rest : bytes) : lexeme :=
  match radix rest with
  | Some digit =>
      let n := span digit (after 2 rest) in
      if n =? 0 then plain x6e 2 2 else plain x31 (2 + n) (2 + n)
  | None =>
      let a := span is_dec rest in
      let dot := head_is (fun b => beq b x2e) (after a rest) in
      let m := if dot then a + 1 + span is_dec (after (a + 1) rest) else a in
      if dot && (m =? 1) then plain x2e 1 1 else
      let e := head_is (either x45 x65) (after m rest) in
      let sg := e && head_is (either x2b x2d) (after (m + 1) rest) in
      let x := if e then span is_dec (after (m + 1 + b2z sg) rest) else 0 in
      let n := if e then m + 1 + b2z sg + x else m in
      let n := n + b2z (num_suffix (after n rest)) in
      plain (if e && (x =? 0) then x6e else x31) n n
  end.

(* ---------- variables ---------- *)

(* @name  @@name  @`name`  @'name'  @"name" (and with @@): class 'v', count =
   number of '@'.  A quoted name is read like a string with that quote. *)
Definition lex_var (rest : bytes) : lexeme :=
  let k := if head_is (fun b => beq b x40) (after 1 rest) then 2 else 1 in
  let r := after k rest in
  let x := match r with
           | d :: _ => if beq d x60 || beq d x27 || beq d x22 then Some (shift k (quoted r 1 d d)) else None
           | [] => None
           end in
  let x := match x with
           | Some x => x
           | None => let n := span var_byte r in mkLx x76 k n x00 x00 0 (k + n) 0 0
           end in
  with_count (with_cat x x76) k.

(* ---------- '$': money, $$..$$ and $tag$..$tag$ ---------- *)

Definition lex_money (rest : bytes) : lexeme :=
  let r := after 1 rest in
  let n := span is_money r in
  if 0 <? n then
    if (n =? 1) && head_is (fun b => beq b x2e) r then lex_word rest     (* "$." *)
    else plain x31 (n + 1) (n + 1)
  else if head_is (fun b => beq b x24) r then
    literal rest 2 x24 x24 2 (first_match [x24; x24] (after 2 rest))
  else
    let m := span is_alpha r in
    if (0 <? m) && head_is (fun b => beq b x24) (after m r) then
      let tag := upto (m + 2) rest in
      literal rest (m + 2) x24 x24 (m + 2) (first_match tag (after (m + 2) rest))
    else plain x6e 1 1.

(* ---------- letter-prefixed literals; all fall back to a bare word ---------- *)

(* x'..' / b'..': a quote, digits of the class, a quote; at least three bytes *)
Definition lex_radix_string (digit : byte -> bool) (rest : bytes) : lexeme :=
  let n := span digit (after 2 rest) in
  if head_is (fun b => beq b x27) (after 1 rest) && head_is (fun b => beq b x27) (after (2 + n) rest)
  then plain x31 (n + 3) (n + 3) else lex_word rest.

(* e'..' : an ordinary quoted string after the two-byte opener, if anything follows the quote *)
Definition lex_estring (rest : bytes) : lexeme :=
  if head_is (fun b => beq b x27) (after 1 rest) && (2 <? len rest)
  then quoted rest 2 x27 x27 else lex_word rest.

(* q'X..Y' seen k bytes into rest (k = 0: q'..', k = 1: nq'..'): X is any byte
   above the space, Y its partner; the terminator is Y followed by a quote *)
Definition lex_qstring (k : Z) (rest : bytes) : lexeme :=
  match after k rest with
  | q :: a :: ch :: body =>
      if either x51 x71 q && beq a x27 && (33 <=? code ch)
      then literal rest (k + 3) x71 x71 2 (first_match [q_close ch; x27] body)
      else lex_word rest
  | _ => lex_word rest
  end.

(* n'..' is read like e'..'; otherwise nq'..' *)
Definition lex_nqstring (rest : bytes) : lexeme :=
  if head_is (fun b => beq b x27) (after 1 rest) && (2 <? len rest)
  then lex_estring rest else lex_qstring 1 rest.

(* u&'..' : marks 'u' *)
Definition lex_ustring (rest : bytes) : lexeme :=
  if starts (after 1 rest) [x26; x27]
  then literal rest 3 x75 x75 1 (find_close x27 false (after 3 rest))
  else lex_word rest.

(* ---------- dispatch ---------- *)

Definition ref_lex (fl : Z) (rest : bytes) : lexeme :=
  match rest with
  | [] => blank
  | b :: _ =>
      match dispatch b with
      | PWhite => blank
      | POperator1 => plain x6f 1 1
      | POther => plain x3f 1 1
      | PByte => plain b 1 1                 (* ( ) , ; { } are their own class *)
      | POperator2 => lex_operator2 rest
      | PBackSlash => lex_backslash rest
      | PHash => lex_hash fl rest
      | PDash => lex_dash fl rest
      | PSlash => lex_slash rest
      | PString => lex_string rest
      | PTick => lex_tick rest
      | PVar => lex_var rest
      | PMoney => lex_money rest
      | PNumber => lex_number rest
      | PWord => lex_word rest
      | PBWord => lex_bracket rest
      | PXString => lex_radix_string is_hex rest
      | PBString => lex_radix_string is_bin rest
      | PEString => lex_estring rest
      | PNqString => lex_nqstring rest
      | PQString => lex_qstring 0 rest
      | PUString => lex_ustring rest
      end
  end.

(* ---------- the scan ---------- *)

(* Walk the input.  k: offset of rest in the whole input; start: where the
   current token search began (white space is skipped without a record).
   Result: the token records (token, offset before, offset after) and the two
   comment counters. *)
Fixpoint ref_scan (fuel : nat) (fl : Z) (start k : Z) (rest : bytes)
  : list (token * Z * Z) * (Z * Z) :=
  match fuel, rest with
  | S fuel', _ :: _ =>
      let x := ref_lex fl rest in
      let k' := k + lx_adv x in
      let rest' := after (lx_adv x) rest in
      if beq (lx_cat x) x00 then ref_scan fuel' fl start k' rest'
      else let '(l, (d, h)) := ref_scan fuel' fl k' k' rest' in
           ((tok_of k rest x, start, k') :: l, (d + lx_ddx x, h + lx_hash x))
  | _, _ => ([], (0, 0))
  end.

(* In a quoted context the input starts inside a string: the first token is the
   text up to the first real closing quote, with no opening mark. *)
Definition ref_run (fl : Z) (s : bytes) : list (token * Z * Z) * (Z * Z) :=
  let fl := norm_flags fl in
  let fuel := S (S (List.length s)) in
  match context_quote fl, s with
  | Some d, _ :: _ =>
      let x := quoted s 0 x00 d in
      let '(l, c) := ref_scan fuel fl (lx_adv x) (lx_adv x) (after (lx_adv x) s) in
      ((tok_of 0 s x, 0, lx_adv x) :: l, c)
  | _, _ => ref_scan fuel fl 0 0 s
  end.

Definition ref_tokens (fl : Z) (s : bytes) : list (token * Z * Z) := fst (ref_run fl s).
Definition ref_ddx (fl : Z) (s : bytes) : Z := fst (snd (ref_run fl s)).
Definition ref_hash (fl : Z) (s : bytes) : Z := snd (snd (ref_run fl s)).
