(* BenignSpec: the benign family of property C14 — inputs made only of
   identifiers and unsigned integers separated by single spaces, none of the
   words being an entry, or a space-separated component of an entry, of the SQL
   keyword table.  Definitions only.

   The family mirrors the Go harness (tools/harness/streams2.go:
   loadKeywordComponents / isBenignWord / benignStream), with two differences
   that only enlarge it: words and numbers have no length bound here (the
   harness caps words at 64 bytes and numbers at 8 digits). *)
From Coq Require Import List ZArith String Bool.
From Coq.Strings Require Import Byte.
From LI Require Import Prelude Base SqliLex.
From LIGen Require Import Consts.
Import ListNotations.
Local Open Scope Z_scope.

(* ---------- bytes ---------- *)

Definition is_ascii_digit (b : byte) : bool := (48 <=? code b) && (code b <=? 57).

(* first byte of a word: [A-Za-z_] *)
Definition is_word_start (b : byte) : bool := is_alpha b || beq b x5f.

(* any byte of a word: [A-Za-z0-9_] *)
Definition is_word_byte (b : byte) : bool := is_word_start b || is_ascii_digit b.

(* ---------- the components of the keyword table ---------- *)

(* the fields of s separated by the byte x20 (empty fields are kept; they never
   matter because words are non-empty) *)
Fixpoint split_sp (s : bytes) : list bytes :=
  match s with
  | [] => [[]]
  | b :: s' =>
      if beq b x20 then [] :: split_sp s'
      else match split_sp s' with
           | f :: fs => (b :: f) :: fs
           | [] => [[b]]
           end
  end.

(* harness loadKeywordComponents: every key whose class is not 'F' (the
   fingerprint entries), together with each of its space-separated fields *)
Definition kw_components_of (l : list (bytes * byte)) : list bytes :=
  flat_map (fun kv => if beq (snd kv) b_sqli_token_type_fingerprint then []
                      else fst kv :: split_sp (fst kv)) l.

(* computed from the (regenerated) table at compile time *)
Definition kw_components : list bytes := Eval vm_compute in kw_components_of sql_keywords.

Definition is_kw_component (u : bytes) : bool := existsb (bytes_eqb u) kw_components.

(* ---------- items ---------- *)

(* an unsigned integer: one or more ASCII digits *)
Definition benign_number (w : bytes) : bool :=
  match w with
  | [] => false
  | _ => forallb is_ascii_digit w
  end.

(* an identifier [A-Za-z_][A-Za-z0-9_]* whose upper case is neither a key of the
   keyword table (class other than 'F') nor a component of such a key *)
Definition benign_word (w : bytes) : bool :=
  match w with
  | [] => false
  | b :: _ => is_word_start b && forallb is_word_byte w
              && negb (is_kw_component (map upper_ascii w))
  end.

Definition benign_item (w : bytes) : bool := benign_number w || benign_word w.

(* strings.Join(items, " ") *)
Fixpoint join_sp (items : list bytes) : bytes :=
  match items with
  | [] => []
  | [w] => w
  | w :: rest => w ++ x20 :: join_sp rest
  end.

Definition Benign (s : bytes) : Prop :=
  exists items, items <> [] /\ Forall (fun w => benign_item w = true) items /\ s = join_sp items.

(* a decision procedure for closed examples: split at the spaces and test every field *)
Definition benign_dec (s : bytes) : bool := forallb benign_item (split_sp s).
