(* TableSpec: boolean well-formedness predicates for the shipped tables (C20)
   and the side conditions the model relies on.  Definitions only. *)
From Coq Require Import List ZArith String Bool.
From Coq.Strings Require Import Byte.
From LI Require Import Prelude Base SqliLex Xss Baseline.
From LIGen Require Import Consts.
Import ListNotations.
Local Open Scope Z_scope.

(* the documented token-class characters (sqli_const.go) *)
Definition class_alphabet : bytes := bs "kUBEtfn1vso&cA(){}.,:;T?XF\".

Definition is_class (b : byte) : bool := mem b class_alphabet.
Definition is_upper_class (b : byte) : bool := existsb (fun c => beq b (upper_ascii c)) class_alphabet.

Definition all_ascii (s : bytes) : bool := forallb is_ascii s.
Definition is_upper_string (s : bytes) : bool := bytes_eqb (map upper_ascii s) s && all_ascii s.

(* fingerprint key: '0' followed by 1..5 (upper-cased) class characters, 'C' only last *)
Definition fp_key_wf (k : bytes) : bool :=
  match k with
  | b0 :: cs =>
      beq b0 x30 && (1 <=? len cs) && (len cs <=? 5) && forallb is_upper_class cs
      && negb (existsb (fun c => beq c x43) (removelast cs))
  | [] => false
  end.

Definition keyword_wf (kv : bytes * byte) : bool :=
  let (k, v) := kv in
  is_upper_string k && (len k <=? 31) && (1 <=? len k) && is_class v
  && (if beq v b_sqli_token_type_fingerprint then fp_key_wf k else true)
  && (if beq v b_sqli_token_type_function then 2 <=? len k else true)
  && negb (beq v b_sqli_token_type_comment) && negb (beq v b_sqli_token_type_evil).

Definition name_wf (s : bytes) : bool :=
  is_upper_string s && negb (mem x00 s) && (1 <=? len s).

Definition attr_type_ok (t : Z) : bool := (0 <=? t) && (t <=? 4).

(* keys pairwise distinct *)
Fixpoint nodup_keys (seen : list bytes) (l : list (bytes * byte)) : bool :=
  match l with
  | [] => true
  | (k, _) :: l' => negb (existsb (bytes_eqb k) seen) && nodup_keys (k :: seen) l'
  end.

(* the map agrees with the association list on every entry *)
Definition map_agrees (l : list (bytes * byte)) : bool :=
  forallb (fun kv => beq (kw_find sql_kwmap (fst kv)) (snd kv)) l.

Definition has_name_type (l : list (bytes * Z)) (e : bytes * Z) : bool :=
  existsb (fun x => bytes_eqb (fst x) (fst e) && (snd x =? snd e)) l.

Definition baseline_kept : bool :=
  forallb (fun kv => beq (kw_find sql_kwmap (fst kv)) (snd kv)) base_sql_keywords
  && forallb (fun t => existsb (bytes_eqb t) black_tags) base_black_tags
  && forallb (has_name_type blacks) base_blacks
  && forallb (has_name_type black_events) base_black_events.

(* side conditions used by the totality / consistency proofs *)
Definition two_char_fp_shape (kv : bytes * byte) : bool :=
  (* every 2-character blacklisted fingerprint ends in U or C *)
  let (k, v) := kv in
  if beq v b_sqli_token_type_fingerprint && (len k =? 3)
  then match k with [_; _; c] => beq c x55 || beq c x43 | _ => false end
  else true.

Definition no_n1_only_fp (kv : bytes * byte) : bool :=
  let (k, v) := kv in
  if beq v b_sqli_token_type_fingerprint
  then negb (forallb (fun c => beq c x4e || beq c x31) (tl k))
  else true.
