(* GrammarXss2: more break-out prefixes for the XSS vector grammar (C04, extension).
   Definitions only.

   GrammarXss.v builds its vectors behind five element-position prefixes
   (breakouts) and five attribute-position prefixes (attr_breakouts); the
   attribute prefixes all end in a space.  Real attacks do not need the space
   nor the filler byte: the attack  D onmouseover=alert(1)//  (D = the
   double-quote byte, no space behind it) closes the value with the
   very first byte and puts the attribute name directly behind the quote.  The
   lists below add such prefixes; the productions (p_events, p_blacks, ...) are
   the ones of GrammarXss.v, unchanged.

   Notation in the comments: D = the double-quote byte, TAB = 0x09, LF = 0x0a,
   NUL = 0x00. *)
From Coq Require Import List ZArith String Bool.
From Coq.Strings Require Import Byte.
From LI Require Import Prelude Base Html5 Xss Spec.GrammarXss.
Import ListNotations.
Local Open Scope Z_scope.

(* attribute position: the production supplies an attribute (NAME=value) *)
Definition ext_attr_prefixes : list bytes :=
  [ sq ;                          (* '        *)
    dq ;                          (* D        *)
    bq ;                          (* `        *)
    bs "x" ++ sq ;                (* x'       *)
    bs "x" ++ dq ;                (* xD       *)
    bs "x" ++ bq ;                (* x`       *)
    sq ++ bs " " ;                (* ' SPACE  *)
    sq ++ bs "/" ;                (* '/       *)
    bs "x" ++ sq ++ bs "/" ;      (* x'/      *)
    dq ++ bs "/" ;                (* D/       *)
    sq ++ [x09] ;                 (* ' TAB    *)
    bs "x" ++ [x0a] ;             (* x LF     *)
    bs "x/" ;                     (* x/       *)
    bs "<a/" ;                    (* <a/      *)
    bs "<a" ++ [x09] ;            (* <a TAB   *)
    bs "<a" ++ [x0a] ;            (* <a LF    *)
    bs "<a" ++ [x00] ++ bs " " ;  (* <a NUL SPACE *)
    bs "x" ++ sq ++ bs " " ++ [x00] ;  (* x' SPACE NUL *)
    sq ++ [x00]                   (* ' NUL    *)
  ].

(* element position: the production supplies a tag or markup (<...) *)
Definition ext_elem_prefixes : list bytes :=
  [ sq ++ bs ">" ;                (* '>       *)
    dq ++ bs ">" ;                (* D>       *)
    bq ++ bs ">" ;                (* `>       *)
    bs "x" ++ sq ++ bs " >" ;     (* x' >     *)
    bs "x" ++ sq ++ bs "/>" ;     (* x'/>     *)
    bs "x" ++ [x0a] ++ bs ">"     (* x LF >   *)
  ].

(* the attribute productions P3, P5-P7, P8 behind one attribute prefix *)
Definition xss_ext_attr (apre : bytes) : list bytes :=
  p_events apre ++ p_blacks apre ++ p_xmlns_xlink apre.

(* the element productions P1, P2, P4, P9 behind one element prefix *)
Definition xss_ext_elem (pre : bytes) : list bytes :=
  p_black_tags pre ++ p_svt_xsl pre ++ p_event_seps pre ++ p_markup pre.

(* the extended family *)
Definition xss_ext : list bytes :=
  flat_map xss_ext_attr ext_attr_prefixes ++ flat_map xss_ext_elem ext_elem_prefixes.
