(* H5TermSpec: the declarative oracles for "a delimited HTML construct ends at
   the first occurrence of its terminator" (C17b).  Definitions only; every
   function is structurally recursive over the byte list: no indices into the
   input, no fuel, no error monad.  The proofs that the executable model
   (Html5.bogus2_loop / comment_loop / cdata_loop / h5_call) computes exactly
   these functions are in Proofs/H5TermProofs.v. *)
From Coq Require Import List ZArith String Bool.
From Coq.Strings Require Import Byte.
From LI Require Import Prelude Base Html5 Spec.StringSpec.
Import ListNotations.
Local Open Scope Z_scope.

(* ---------- terminators that are fixed byte sequences ---------- *)

(* `first_match pat l` (Spec/StringSpec.v) is the first offset at which the
   byte sequence pat occurs in l; None when it occurs nowhere. *)
Definition pat_pct_gt : bytes := [x25; x3e].            (* %>  closes <% *)
Definition pat_cdata_end : bytes := [x5d; x5d; x3e].     (* ]]> closes <![CDATA[ *)
(* one-byte terminators: '>' (x3e) for <!x, <?x and doctype; the quote byte for
   quoted attribute values *)
Definition first_byte (c : byte) (l : bytes) : option Z := first_match [c] l.

(* ---------- the end of a comment ---------- *)

(* A comment terminator is:  a dash,
                             then zero or more NUL bytes,
                             then one byte that is '-' or '!',
                             then '>'.
   So "-->", "-!>", "-\000\000->", "-\000!>" are terminators; "--!>" contains
   one at its second dash (the first dash is followed by "-!" and then no '>').
   The terminator must be complete: the model gives up (the comment is
   unterminated and runs to the end of the input) as soon as the dash it
   looks at has fewer than two bytes after it, or the NUL run after the dash
   reaches the end of the input, or the input ends right after the '-'/'!'
   marker byte.  In each of these situations no complete terminator can start
   at that dash or at any later one, so "give up" and "there is no terminator
   in the rest of the input" coincide; the oracle therefore only has to say
   "first position where a complete terminator starts".

   comment_tail l : l begins with (NUL)* ('-' | '!') '>' ; the value is the
   number of bytes of that prefix. *)
Fixpoint comment_tail (l : bytes) : option Z :=
  match l with
  | [] => None
  | b :: l' =>
      if beq b x00 then option_map (Z.add 1) (comment_tail l')
      else if beq b x2d || beq b x21 then
        match l' with
        | c :: _ => if beq c x3e then Some 2 else None
        | [] => None
        end
      else None
  end.

(* move an (offset, width) answer k bytes to the right *)
Definition shift (k : Z) (x : option (Z * Z)) : option (Z * Z) :=
  option_map (fun iw => (k + fst iw, snd iw)) x.

(* comment_end l = Some (i, w): the first terminator of l starts (with its
   dash) at offset i and is w bytes long (w >= 3); None: l has no terminator. *)
Fixpoint comment_end (l : bytes) : option (Z * Z) :=
  match l with
  | [] => None
  | b :: l' =>
      match (if beq b x2d then comment_tail l' else None) with
      | Some n => Some (0, 1 + n)
      | None => shift 1 (comment_end l')
      end
  end.

(* a terminator of width w starts at offset i of l (the reading of comment_end
   proved in H5TermProofs) *)
Definition comment_term_at (l : bytes) (i w : Z) : Prop :=
  exists pre nuls m post,
    l = pre ++ x2d :: nuls ++ m :: x3e :: post /\ len pre = i /\
    Forall (fun b => b = x00) nuls /\ (m = x2d \/ m = x21) /\ w = len nuls + 3.

(* ---------- what the tokenizer leaves behind ---------- *)

(* the bytes from the current position on: when hpos points just behind the
   opener this is the content of the construct followed by the rest of the input *)
Definition body (h : h5) : bytes := skipn (Z.to_nat (hpos h)) (hs h).

(* terminated: the token is the i bytes from cpos on, the tokenizer continues
   in state `next` right behind the w-byte terminator *)
Definition closed_at (h : h5) (cpos ty : Z) (next : h5fn) (i w : Z) : h5 :=
  mkH5 (hs h) (cpos + i + w) (is_close h) next cpos i ty.

(* unterminated: the token is everything from cpos to the end of the input, the
   tokenizer stops (state SEOF: the next call reports "no more tokens"); the
   position it is left at differs between constructs (eofpos) *)
Definition unclosed (h : h5) (cpos ty eofpos : Z) : h5 :=
  mkH5 (hs h) eofpos (is_close h) SEOF cpos (hlen h - cpos) ty.

Definition delimited (h : h5) (cpos ty : Z) (next : h5fn) (w eofpos : Z) (close : option Z) : h5 :=
  match close with
  | Some i => closed_at h cpos ty next i w
  | None => unclosed h cpos ty eofpos
  end.

Definition delimited_comment (h : h5) (cpos ty eofpos : Z) (close : option (Z * Z)) : h5 :=
  match close with
  | Some iw => closed_at h cpos ty SData (fst iw) (snd iw)
  | None => unclosed h cpos ty eofpos
  end.

(* ---------- the openers recognised after "<!" ---------- *)

(* pat (lower-case ASCII) is a prefix of l up to ASCII case *)
Fixpoint ci_prefix (pat l : bytes) : bool :=
  match pat, l with
  | [], _ => true
  | x :: pat', y :: l' => beq x (lower_ascii y) && ci_prefix pat' l'
  | _ :: _, [] => false
  end.

Inductive md_kind := MdDoctype | MdCData | MdComment | MdBogus.

(* body = the bytes after "<!" *)
Definition md_classify (body : bytes) : md_kind :=
  if ci_prefix (bs "doctype") body then MdDoctype
  else if has_prefix body (bs "[CDATA[") then MdCData
  else if has_prefix body (bs "--") then MdComment
  else MdBogus.
