(* GrammarXss: the canonical XSS vector grammar (C04 core).  Definitions only.
   A Gallina mirror, production by production and in the same order, of the Go
   function xssCore (tools/harness/streams2.go), which the harness replays on the
   implementation.  The family is built from the model's regenerated lists
   black_tags / black_events / blacks (Xss.v), which are the lists returned (in
   upper case) by the Go accessors VerifBlackTags / VerifBlackEvents / VerifBlacks. *)
From Coq Require Import List ZArith String Bool.
From Coq.Strings Require Import Byte.
From LI Require Import Prelude Base Html5 Xss.
Import ListNotations.
Local Open Scope Z_scope.

(* the verdict of the model as a boolean: true only for a clean "Ok true" *)
Definition detected_xss (s : bytes) : bool :=
  match is_xss s with Ok true => true | _ => false end.

Definition dq : bytes := [x22].   (* the double quote *)
Definition sq : bytes := [x27].   (* the single quote *)
Definition bq : bytes := [x60].   (* the back quote *)

(* Go: breakouts: element content, then break-out of an unquoted, single-, double-, back-quoted value *)
Definition breakouts : list bytes :=
  [ [] ; bs "x>" ; bs "x" ++ sq ++ bs ">" ; bs "x" ++ dq ++ bs ">" ; bs "x" ++ bq ++ bs ">" ].

(* Go: attrBreakouts: the same five contexts, staying inside the tag to add an attribute *)
Definition attr_breakouts : list bytes :=
  [ bs "<a " ; bs "x " ; bs "x" ++ sq ++ bs " " ; bs "x" ++ dq ++ bs " " ; bs "x" ++ bq ++ bs " " ].

(* number of break-out contexts *)
Definition n_ctx : nat := 5.

(* the element-content prefix of context ci *)
Definition pre_of (ci : nat) : bytes := nth ci breakouts [].
(* the attribute prefix of context ci *)
Definition apre_of (ci : nat) : bytes := nth ci attr_breakouts [].

(* terminators of a tag name: greater-than, white, slash, end of input *)
Definition tag_terms : list bytes := [ bs ">" ; bs " " ; bs "/" ; [] ].

(* P1: pre <TAG term, for every blacklisted element and every terminator *)
Definition p_black_tags (pre : bytes) : list bytes :=
  flat_map (fun tag => map (fun term => pre ++ bs "<" ++ tag ++ term) tag_terms) black_tags.

(* P2: the two hard-coded prefixes-of-names SVT / XSL (isBlackTag) *)
Definition p_svt_xsl (pre : bytes) : list bytes :=
  map (fun tag => pre ++ bs "<" ++ tag ++ bs ">") [ bs "SVT" ; bs "XSL" ].

(* the value quotings of an event-handler attribute: bare, single, double, back-quoted, spaced equals sign *)
Definition event_quotings : list bytes :=
  [ bs "=x" ; bs "=" ++ sq ++ bs "x" ++ sq ; bs "=" ++ dq ++ bs "x" ++ dq ;
    bs "=" ++ bq ++ bs "x" ++ bq ; bs " = x" ].

(* P3: apre ON<event> quoting, for every listed event of type 1 (black) *)
Definition p_events (apre : bytes) : list bytes :=
  flat_map (fun e : bytes * Z =>
              if snd e =? 1
              then map (fun q => apre ++ bs "ON" ++ fst e ++ q) event_quotings
              else [])
           black_events.

(* the bytes that separate a tag name from an attribute name: space, TAB, LF, VT, FF, CR and slash *)
Definition event_seps : list bytes := [ [x20] ; [x09] ; [x0a] ; [x0b] ; [x0c] ; [x0d] ; bs "/" ].

(* P4: pre <a sep ONCLICK=x *)
Definition p_event_seps (pre : bytes) : list bytes :=
  map (fun sp => pre ++ bs "<a" ++ sp ++ bs "ONCLICK=x") event_seps.

(* script-capable URL schemes *)
Definition schemes : list bytes :=
  [ bs "JAVASCRIPT:" ; bs "VBSCRIPT:" ; bs "DATA:" ; bs "VIEW-SOURCE:" ].

(* value quotings of an ordinary attribute: none, single, double *)
Definition quotes3 : list bytes := [ [] ; sq ; dq ].

(* P5 (type 2): apre NAME = q scheme x q, for a URL-bearing attribute *)
Definition p_url_attr (apre name : bytes) : list bytes :=
  flat_map (fun sch => map (fun q => apre ++ name ++ bs "=" ++ q ++ sch ++ bs "x" ++ q) quotes3) schemes.

(* P6 (types 1, 3): apre NAME = q x q, for a black or style/filter attribute *)
Definition p_black_attr (apre name : bytes) : list bytes :=
  map (fun q => apre ++ name ++ bs "=" ++ q ++ bs "x" ++ q) quotes3.

(* P7 (type 4): apre NAME=ONCLICK and apre NAME=XMLNS, for an indirect attribute (attributeName) *)
Definition p_indirect_attr (apre name : bytes) : list bytes :=
  [ apre ++ name ++ bs "=ONCLICK" ; apre ++ name ++ bs "=XMLNS" ].

(* P5-P7 dispatched on the type of each entry of the attribute list, in list order *)
Definition p_blacks (apre : bytes) : list bytes :=
  flat_map (fun a : bytes * Z =>
              if snd a =? 2 then p_url_attr apre (fst a)
              else if (snd a =? 1) || (snd a =? 3) then p_black_attr apre (fst a)
              else if snd a =? 4 then p_indirect_attr apre (fst a)
              else [])
           blacks.

(* P8: the two hard-coded black attributes XMLNS / XLINK (isBlackAttr) *)
Definition p_xmlns_xlink (apre : bytes) : list bytes :=
  map (fun a => apre ++ a ++ bs "=x") [ bs "XMLNS" ; bs "XLINK" ].

(* DOCTYPE / ENTITY / processing instructions / IE conditionals / back-quote in comments *)
Definition markup : list bytes :=
  [ bs "<!DOCTYPE html>" ; bs "<!DOCTYPE" ; bs "<!ENTITY x>" ; bs "<?IMPORT x>" ; bs "<?XML x>" ;
    bs "<![IF x]>" ; bs "<!--[IF x]>" ; bs "<!--[IF x]-->" ;
    bs "<!-- " ++ bq ++ bs " -->" ; bs "<% " ++ bq ++ bs " %>" ].

(* P9: pre markup *)
Definition p_markup (pre : bytes) : list bytes := map (fun m => pre ++ m) markup.

(* the productions of one break-out context, as separately checkable parts *)
Definition ctx_tags (ci : nat) : list bytes :=
  p_black_tags (pre_of ci) ++ p_svt_xsl (pre_of ci).
Definition ctx_events (ci : nat) : list bytes := p_events (apre_of ci).
Definition ctx_rest (ci : nat) : list bytes :=
  p_event_seps (pre_of ci) ++ p_blacks (apre_of ci) ++ p_xmlns_xlink (apre_of ci) ++ p_markup (pre_of ci).

(* all vectors of break-out context ci, in the emission order of xssCore *)
Definition xss_core_ctx (ci : nat) : list bytes :=
  ctx_tags ci ++ ctx_events ci ++ ctx_rest ci.

(* the whole core: contexts 0..4 in order *)
Definition xss_core : list bytes := flat_map xss_core_ctx (seq 0 n_ctx).
