(* CascadeSpec: the order in which IsSQLi tries the parsing contexts (C12a),
   written only in terms of independent readings of the input.  Definitions only.

   A "reading" of the input under a context flag value fl is
   `fingerprint_ctx inp fl`: the input is tokenised, folded, fingerprinted and
   judged on a FRESH state, and the reading reports (fingerprint, blacklisted,
   verdict, statistics).  Nothing is shared between two readings. *)
From Coq Require Import List ZArith Bool.
From Coq.Strings Require Import Byte.
From LI Require Import Prelude Base SqliLex SqliFold.
From LIGen Require Import Consts.
Import ListNotations.
Local Open Scope Z_scope.
Local Open Scope res_scope.

(* the five context flag values: quote context | comment dialect *)
Definition ctx_none_ansi    : Z := Z.lor c_sqli_flag_quote_none   c_sqli_flag_sqlansi.
Definition ctx_none_mysql   : Z := Z.lor c_sqli_flag_quote_none   c_sqli_flag_sqlmysql.
Definition ctx_single_ansi  : Z := Z.lor c_sqli_flag_quote_single c_sqli_flag_sqlansi.
Definition ctx_single_mysql : Z := Z.lor c_sqli_flag_quote_single c_sqli_flag_sqlmysql.
Definition ctx_double_mysql : Z := Z.lor c_sqli_flag_quote_double c_sqli_flag_sqlmysql.

Definition all_contexts : list Z :=
  [ctx_none_ansi; ctx_none_mysql; ctx_single_ansi; ctx_single_mysql; ctx_double_mysql].

(* the input contains the byte c *)
Definition has_byte (inp : bytes) (c : byte) : bool := negb (index_byte inp c =? -1).

(* the statistics of a reading say that `#` or `--x` syntax was seen: the same
   quote context is worth reading again under MySQL comment rules *)
Definition mysql_gate (x : stats) : bool := negb (n_ddx x =? 0) || negb (n_hash x =? 0).

Definition not_sqli : res (bool * bytes) := Ok (false, []).

(* one reading under context fl: a true verdict ends the cascade with the
   fingerprint of this reading; otherwise go on with `next`, which may look at
   the statistics of this reading (and at nothing else) *)
Definition try_reading (inp : bytes) (fl : Z) (next : stats -> res (bool * bytes)) : res (bool * bytes) :=
  '(fp, _, verdict, x) <- fingerprint_ctx inp fl ;;
  if (verdict : bool) then Ok (true, fp) else next x.

(* a quote context is read under ANSI rules and, if that reading raises the
   gate, once more under MySQL rules; then `next` *)
Definition ansi_then_mysql (inp : bytes) (quote : Z) (next : res (bool * bytes)) : res (bool * bytes) :=
  try_reading inp (Z.lor quote c_sqli_flag_sqlansi) (fun x =>
    if mysql_gate x
    then try_reading inp (Z.lor quote c_sqli_flag_sqlmysql) (fun _ => next)
    else next).

(* the gated list, in order:
     none|ansi                       always
     none|mysql                      if the none|ansi reading raised the gate
     single|ansi                     if the input contains a single-quote byte
     single|mysql                    if moreover the single|ansi reading raised the gate
     double|mysql                    if the input contains a double-quote byte
   (true, fingerprint) at the first reading whose verdict is true,
   (false, empty) if none fires, and for the empty input. *)
Definition cascade (inp : bytes) : res (bool * bytes) :=
  if len inp =? 0 then not_sqli
  else
    let as_double :=
      if has_byte inp b_byte_double
      then try_reading inp ctx_double_mysql (fun _ => not_sqli)
      else not_sqli in
    let as_single :=
      if has_byte inp b_byte_single
      then ansi_then_mysql inp c_sqli_flag_quote_single as_double
      else as_double in
    ansi_then_mysql inp c_sqli_flag_quote_none as_single.

(* The same cascade as data: the readings that are attempted, in order, when
   no earlier one fires.  Whether a step is attempted is decided from the input
   (a quote byte is present) and, for the MySQL re-readings, from the
   statistics of the immediately preceding reading, if that one took place. *)
Definition gate_of (prev : option stats) : bool :=
  match prev with Some x => mysql_gate x | None => false end.

(* each step: (flags, needs-byte, gated-on-previous-reading) *)
Definition cascade_steps : list (Z * option byte * bool) :=
  [ (ctx_none_ansi,    None,               false);
    (ctx_none_mysql,   None,               true);
    (ctx_single_ansi,  Some b_byte_single, false);
    (ctx_single_mysql, Some b_byte_single, true);
    (ctx_double_mysql, Some b_byte_double, false) ].

(* interpreter: `prev` = statistics of the previous step if it was actually
   read (None if it was skipped) *)
Fixpoint run_steps (inp : bytes) (steps : list (Z * option byte * bool)) (prev : option stats)
  : res (bool * bytes) :=
  match steps with
  | [] => not_sqli
  | (fl, need, gated) :: rest =>
      let present := match need with Some c => has_byte inp c | None => true end in
      let on := present && (if gated then gate_of prev else true) in
      if on then try_reading inp fl (fun x => run_steps inp rest (Some x))
      else run_steps inp rest None
  end.

Definition cascade_list (inp : bytes) : res (bool * bytes) :=
  if len inp =? 0 then not_sqli else run_steps inp cascade_steps None.
