(* BenignWsSpec: the benign family of property C14 with arbitrary whitespace
   (C14c).  Definitions only.

   BenignW s holds when
     s = lead ++ item_1 ++ run_1 ++ item_2 ++ ... ++ run_(k-1) ++ item_k ++ trail,   k >= 1,
   every item benign (BenignSpec.benign_item: an unsigned integer, or an
   identifier that is neither a keyword nor a component of a keyword), every
   run_i a NON-EMPTY list of bytes of W = {20 09 0a 0b 0c 0d a0 00}
   (WsSpec.isW = the model's isByteWhite), lead and trail possibly empty lists
   of bytes of W.  The items and runs are joined by WsSpec.instw. *)
From Coq Require Import List ZArith String Bool.
From Coq.Strings Require Import Byte.
From LI Require Import Prelude Base SqliLex GrammarSqli Spec.BenignSpec Spec.WsSpec.
Import ListNotations.

Definition BenignW (s : bytes) : Prop :=
  exists lead items runs trail,
    items <> [] /\ Forall (fun w => benign_item w = true) items /\
    S (List.length runs) = List.length items /\ Forall wrun runs /\
    forallb isW lead = true /\ forallb isW trail = true /\
    s = lead ++ instw runs items ++ trail.

(* a checker for closed examples: the decomposition is given, the conditions are computed *)
Definition benignw_chk (lead : bytes) (items runs : list bytes) (trail : bytes) : bool :=
  match items with [] => false | _ => true end
  && forallb benign_item items
  && Nat.eqb (S (List.length runs)) (List.length items)
  && forallb wrunb runs && forallb isW lead && forallb isW trail.
