(* WsSpec: whitespace runs and separator mixing in the attack grammar (C03).
   Definitions, and the finite sweeps over the byte set W.

   instw ws segs   the member `segs` (pre-split at its separator slots, as in
                   GrammarSqli.inst) with the run  nth i ws  in slot i;
   wsfill          every slot filled, independently, with a non-empty run of
                   bytes of W = {20 09 0a 0b 0c 0d a0 00};
   pre_ok          the computed side condition of the invariance theorem for a
                   slot that follows the prefix `a` of the reference string, in
                   the reading `fl`: scanning  a ++ [w0]  reaches the offset
                   len a  between two tokens, and every token in front of it is
                   written by a lexer for which locality is proved
                   (Proofs/WsLocal.v), at an offset where its side condition
                   holds;
   pre_okc, pre_oks  the same for a slot inside a `--` comment / inside a string
                   literal that starts in front of it (Proofs/WsCross.v);
   member_chk      the side condition of a whole member: every slot of the
                   readings IsSQLi has to get through is of one of the three
                   kinds, and the firing reading is accepted by the whitelist
                   step for reasons that do not depend on the runs;
   need, runs_okw  what the slots ask of their runs. *)
From Coq Require Import List ZArith String Bool Lia.
From Coq.Strings Require Import Byte.
From LI Require Import Prelude Base SqliLex SqliFold GrammarSqli Spec.CascadeSpec Proofs.BaseFacts Proofs.LexBase.
From LIGen Require Import Tables Dispatch Consts.
Import ListNotations.
Local Open Scope Z_scope.

(* ---------- the whitespace set ---------- *)

(* isByteWhite of the model: exactly the bytes of GrammarSqli.W *)
Definition isW (b : byte) : bool := is_byte_white b.

Definition wrunb (r : bytes) : bool :=
  match r with [] => false | _ => forallb isW r end.

(* a non-empty run of whitespace bytes *)
Definition wrun (r : bytes) : Prop := wrunb r = true.

(* ---------- filling the slots ---------- *)

Fixpoint instw (ws : list bytes) (segs : list bytes) : bytes :=
  match segs with
  | [] => []
  | [s] => s
  | s :: rest =>
      match ws with
      | r :: ws' => s ++ r ++ instw ws' rest
      | [] => s ++ instw [] rest
      end
  end.

(* one run per slot, every run a non-empty run of bytes of W *)
Definition wsfill (segs : list bytes) (ws : list bytes) (s : bytes) : Prop :=
  S (List.length ws) = List.length segs /\ Forall wrun ws /\ s = instw ws segs.

(* the reference filling: the same separator in every slot *)
Lemma instw_repeat sep : forall segs,
  instw (repeat sep (pred (List.length segs))) segs = inst sep segs.
Proof.
  induction segs as [|s rest IH]; [reflexivity|].
  destruct rest as [|s2 rest']; [reflexivity|].
  cbn [List.length pred repeat]. cbn [List.length pred] in IH.
  change (instw (sep :: repeat sep (List.length rest')) (s :: s2 :: rest'))
    with (s ++ sep ++ instw (repeat sep (List.length rest')) (s2 :: rest')).
  rewrite IH. reflexivity.
Qed.

(* ---------- sweeps: every byte of W is a delimiter for every lexer ---------- *)

Definition inWb (b : byte) : bool := existsb (fun w => bytes_eqb [b] w) W.

Definition is_white_id (id : parser_id) : bool := match id with PWhite => true | _ => false end.

(* what the lexers ask of the byte that follows a token *)
Definition w_facts (b : byte) : bool :=
  is_white_id (dispatch b) && mem b word_accept
  && negb (is_digit b) && ((code b <=? 32) || is_byte_white b)
  && negb (mem b (bs "0123456789ABCDEFabcdef.,$'""`@-+*/=<>!&|:;()[]{}#\?%^~_")).

Definition w_sweep (b : byte) : bool :=
  Bool.eqb (isW b) (inWb b) && (negb (isW b) || w_facts b).

Lemma w_sweep_all : forallb w_sweep all_bytes = true.
Proof. vm_compute. reflexivity. Qed.

Lemma isW_inW b : isW b = true -> In [b] W.
Proof.
  intros H. pose proof (byte_sweep w_sweep w_sweep_all b) as S.
  unfold w_sweep in S. apply andb_true_iff in S. destruct S as [S _].
  rewrite H in S. apply Bool.eqb_prop in S. symmetry in S.
  unfold inWb in S. apply existsb_exists in S. destruct S as [w [Hw E]].
  apply bytes_eqb_eq in E. subst w. exact Hw.
Qed.

Lemma inW_isW b : In [b] W -> isW b = true.
Proof.
  intros H. cbn in H.
  repeat (destruct H as [H|H]; [inversion H; reflexivity|]). contradiction.
Qed.

Lemma isW_facts b : isW b = true -> w_facts b = true.
Proof.
  intros H. pose proof (byte_sweep w_sweep w_sweep_all b) as S.
  unfold w_sweep in S. apply andb_true_iff in S. destruct S as [_ S].
  rewrite H in S. exact S.
Qed.

(* two-byte operator look-up: no key ends in a whitespace byte *)
Definition kw2_sweep (c : byte) : bool :=
  forallb (fun w => match w with [b] => beq (search_keyword [c; b]) x00 | _ => true end) W.

Lemma kw2_sweep_all : forallb kw2_sweep all_bytes = true.
Proof. vm_compute. reflexivity. Qed.

Lemma kw2_W c b : isW b = true -> search_keyword [c; b] = x00.
Proof.
  intros H. apply isW_inW in H. pose proof (byte_sweep kw2_sweep kw2_sweep_all c) as S.
  unfold kw2_sweep in S. rewrite forallb_forall in S. specialize (S _ H). cbn beta iota in S.
  apply beq_eq in S. exact S.
Qed.

(* ---------- the side condition of one slot ---------- *)

(* parseVar stops a name at the bytes of var_accept only: 0xa0 and 0x00 are NOT
   among them, so a slot that directly follows a variable name is transparent
   only for runs that start with one of the other six bytes of W *)
Definition isWv (b : byte) : bool := isW b && mem b var_accept.

Lemma isWv_not_all : isWv xa0 = false /\ isWv x00 = false /\ isWv x20 = true.
Proof. vm_compute. auto. Qed.

(* lexers for which Proofs/WsLocal.v proves locality *)
Definition supported (id : parser_id) : bool :=
  match id with
  | POperator1 | POperator2 | PString | PByte | PDash | PNumber | PVar | PWord
  | PBString | PEString | PNqString | PUString | PXString => true
  | _ => false
  end.

(* byte j of s is not a single, double or back quote (true when there is no byte j) *)
Definition nquote (s : bytes) (j : Z) : bool :=
  match get "" s j with
  | Ok c => negb (beq c b_byte_single) && negb (beq c b_byte_double) && negb (beq c b_byte_tick)
  | _ => true
  end.

(* byte j is whitespace (false when there is no byte j) *)
Definition whiteat (s : bytes) (j : Z) : bool :=
  match get "" s j with Ok c => isW c | _ => false end.

(* no quote right after the letter; and none one byte further, unless whitespace comes first *)
Definition plain_after (s : bytes) (p : Z) : bool :=
  nquote s (p + 1) && (whiteat s (p + 1) || nquote s (p + 2)).

(* the letter lexers (B E N U X) must fall through to parseWord, and parseVar
   must read a plain name *)
Definition side (s : bytes) (p : Z) (id : parser_id) : bool :=
  match id with
  | PBString | PEString | PNqString | PUString | PXString => plain_after s p
  | PVar => nquote s (p + 1) && nquote s (p + 2)
  | _ => true
  end.

Definition is_var_id (id : parser_id) : bool := match id with PVar => true | _ => false end.

(* one call of tokenize_loop on  a ++ [w0]  from offset p (the lexers never read the
   statistics -- Proofs/WsStat.v -- so the check is run on empty statistics):
   Some None             only whitespace up to the end of a;
   Some (Some (t, np))   a token that ends at np <= len a;
   None                  anything else.
   vw: the whitespace byte of the variant is a delimiter for parseVar too (isWv); if it
   is not, a variable name must end before the end of a *)
Fixpoint pre_loop (fuel : nat) (vw : bool) (w0 : byte) (a : bytes) (fl : Z) (p : Z)
  : option (option (token * Z)) :=
  match fuel with
  | O => None
  | S fuel' =>
      if len a <=? p then Some None
      else
        match get "" a p with
        | Ok ch =>
            let id := dispatch ch in
            if is_white_id id then pre_loop fuel' vw w0 a fl (p + 1)
            else if supported id && side (a ++ [w0]) p id then
              match run_parser id (mkSt (a ++ [w0]) fl p stats0) tok0 with
              | Ok (s', t, np) =>
                  if (np <=? len a) && negb (beq (t_cat t) x00)
                     && (negb (is_var_id id) || (np <? len a) || vw)
                  then Some (Some (t, np)) else None
              | _ => None
              end
            else None
        | _ => None
        end
  end.

Definition quoted (fl : Z) : bool :=
  negb (Z.land fl (Z.lor c_sqli_flag_quote_single c_sqli_flag_quote_double) =? 0).

(* one call of tokenize on  a ++ [w0]  from offset p *)
Definition pre_tok (vw : bool) (w0 : byte) (a : bytes) (fl : Z) (p : Z)
  : option (option (token * Z)) :=
  if (p =? 0) && quoted fl then
    match parse_string_core tok0 (a ++ [w0]) (len a + 1) 0 0 (flag2delimiter fl) with
    | Ok (t, np) => if np <=? len a then Some (Some (t, np)) else None
    | _ => None
    end
  else pre_loop (S (List.length a)) vw w0 a fl p.

(* the scan of  a ++ [w0]  from offset p reaches the end of a between two tokens *)
Fixpoint pre_ok (fuel : nat) (vw : bool) (w0 : byte) (a : bytes) (fl : Z) (p : Z) : bool :=
  match fuel with
  | O => false
  | S fuel' =>
      match pre_tok vw w0 a fl p with
      | None => false
      | Some None => true
      | Some (Some (t, np)) => pre_ok fuel' vw w0 a fl np
      end
  end.

(* the flags sqli_init installs for the context value fl *)
Definition eff_flags (fl : Z) : Z :=
  if fl =? 0 then Z.lor c_sqli_flag_quote_none c_sqli_flag_sqlansi else fl.

Definition top_slot (vw : bool) (w0 : byte) (a : bytes) (fl : Z) : bool :=
  pre_ok (S (List.length a)) vw w0 a (eff_flags fl) 0.

(* the prefixes of the reference string (separator sep) in front of each slot *)
Fixpoint prefixes (sep : bytes) (acc : bytes) (segs : list bytes) : list bytes :=
  match segs with
  | [] => []
  | [s] => []
  | s :: rest => (acc ++ s) :: prefixes sep (acc ++ s ++ sep) rest
  end.

(* ---------- a slot inside a trailing `--` comment ---------- *)

Definition byte_at (a : bytes) (j : Z) : byte := nth (Z.to_nat j) a x00.

Definition is_dash_id (id : parser_id) : bool := match id with PDash => true | _ => false end.

(* the `--` at offset p of a opens a comment, whatever whitespace byte follows a *)
Definition dash_commentb (a : bytes) (fl : Z) (p : Z) : bool :=
  (p + 2 <=? len a) && beq (byte_at a (p + 1)) x2d
  && ((p + 2 =? len a) || is_byte_white (byte_at a (p + 2)) || negb (Z.land fl c_sqli_flag_sqlansi =? 0)).

(* from offset p: whitespace, then a `--` comment with no newline left in a *)
Fixpoint cross_loop (fuel : nat) (w0 : byte) (a : bytes) (fl : Z) (p : Z) : bool :=
  match fuel with
  | O => false
  | S fuel' =>
      if len a <=? p then false
      else
        match get "" a p with
        | Ok ch =>
            let id := dispatch ch in
            if is_white_id id then cross_loop fuel' w0 a fl (p + 1)
            else is_dash_id id && dash_commentb a fl p
                 && (index_byte (skipn (Z.to_nat p) a) x0a =? -1)
        | _ => false
        end
  end.

Definition cross_tok (w0 : byte) (a : bytes) (fl : Z) (p : Z) : bool :=
  if (p =? 0) && quoted fl then false else cross_loop (S (List.length a)) w0 a fl p.

(* the scan of  a ++ [w0]  from offset p: tokens inside a, then a comment across the slot *)
Fixpoint pre_okc (fuel : nat) (vw : bool) (w0 : byte) (a : bytes) (fl : Z) (p : Z) : bool :=
  match fuel with
  | O => false
  | S fuel' =>
      match pre_tok vw w0 a fl p with
      | Some (Some (t, np)) => pre_okc fuel' vw w0 a fl np
      | _ => cross_tok w0 a fl p
      end
  end.

Definition comment_slot (vw : bool) (w0 : byte) (a : bytes) (fl : Z) : bool :=
  pre_okc (S (List.length a)) vw w0 a (eff_flags fl) 0.

(* a run that may stand inside an end-of-line comment: no newline *)
Definition no_nl (ws : bytes) : bool := forallb (fun c => negb (beq c x0a)) ws.

(* ---------- a slot inside a trailing string literal ---------- *)

Definition is_string_id (id : parser_id) : bool := match id with PString => true | _ => false end.

(* the quote at offset p of a opens a string that is not closed in a (the quote byte does not
   occur again); and the text of the string does not begin with '-' right in front of the
   slot (notWhitelist asks "len > 2 && val[0] == '-'" of tokenVec[1]) *)
Definition string_at (a : bytes) (p : Z) : bool :=
  (index_byte (skipn (Z.to_nat (p + 1)) a) (byte_at a p) =? -1)
  && ((p + 1 =? len a) || negb (beq (byte_at a (p + 1)) x2d) || (2 <=? len a - (p + 1))).

Fixpoint scross_loop (fuel : nat) (a : bytes) (p : Z) : bool :=
  match fuel with
  | O => false
  | S fuel' =>
      if len a <=? p then false
      else
        match get "" a p with
        | Ok ch =>
            let id := dispatch ch in
            if is_white_id id then scross_loop fuel' a (p + 1)
            else is_string_id id && string_at a p
        | _ => false
        end
  end.

(* the first call in a quote context: the string of the virtual opening quote is not closed in a *)
Definition string0_at (a : bytes) (d : byte) : bool :=
  (index_byte a d =? -1)
  && ((0 =? len a) || negb (beq (byte_at a 0) x2d) || (2 <=? len a)).

Definition scross_tok (a : bytes) (fl : Z) (p : Z) : bool :=
  if (p =? 0) && quoted fl then string0_at a (flag2delimiter fl)
  else scross_loop (S (List.length a)) a p.

Fixpoint pre_oks (fuel : nat) (vw : bool) (w0 : byte) (a : bytes) (fl : Z) (p : Z) : bool :=
  match fuel with
  | O => false
  | S fuel' =>
      match pre_tok vw w0 a fl p with
      | Some (Some (t, np)) => pre_oks fuel' vw w0 a fl np
      | _ => scross_tok a fl p
      end
  end.

Definition string_slot (vw : bool) (w0 : byte) (a : bytes) (fl : Z) : bool :=
  pre_oks (S (List.length a)) vw w0 a (eff_flags fl) 0.

(* the three kinds of slot *)
Inductive skind : Set := K_top | K_comment | K_string.

Definition kind_slot (k : skind) (vw : bool) (w0 : byte) (a : bytes) (fl : Z) : bool :=
  match k with
  | K_top => top_slot vw w0 a fl
  | K_comment => comment_slot vw w0 a fl
  | K_string => string_slot vw w0 a fl
  end.

(* ---------- the side condition of a member of the grammar ---------- *)

(* the readings IsSQLi has to get through for the reference string to be reported:
   the one that fires, preceded by the ANSI reading of the same quote context when
   the firing one is a MySQL re-reading (its statistics open the gate) *)
Inductive plan : Set := P_none_ansi | P_none_mysql | P_single_ansi | P_single_mysql | P_double_mysql.

Definition verdict_of (inp : bytes) (fl : Z) : bool :=
  match fingerprint_ctx inp fl with Ok (_, _, v, _) => v | _ => false end.
Definition gate_of_reading (inp : bytes) (fl : Z) : bool :=
  match fingerprint_ctx inp fl with Ok (_, _, _, x) => mysql_gate x | _ => false end.

Definition plan_of (inp : bytes) : option plan :=
  if verdict_of inp ctx_none_ansi then Some P_none_ansi
  else if gate_of_reading inp ctx_none_ansi && verdict_of inp ctx_none_mysql then Some P_none_mysql
  else if has_byte inp b_byte_single && verdict_of inp ctx_single_ansi then Some P_single_ansi
  else if has_byte inp b_byte_single && gate_of_reading inp ctx_single_ansi && verdict_of inp ctx_single_mysql
       then Some P_single_mysql
  else if has_byte inp b_byte_double && verdict_of inp ctx_double_mysql then Some P_double_mysql
  else None.

(* (gate reading, firing reading) *)
Definition plan_readings (p : plan) : option Z * Z :=
  match p with
  | P_none_ansi => (None, ctx_none_ansi)
  | P_none_mysql => (Some ctx_none_ansi, ctx_none_mysql)
  | P_single_ansi => (None, ctx_single_ansi)
  | P_single_mysql => (Some ctx_single_ansi, ctx_single_mysql)
  | P_double_mysql => (None, ctx_double_mysql)
  end.

Definition readings_of (p : plan) : list Z :=
  match plan_readings p with (Some g, f) => [g; f] | (None, f) => [f] end.

(* the kind of a slot in the reading fl (variables may end at the slot: vw = true) *)
Definition slot_kind (w0 : byte) (a : bytes) (fl : Z) : option skind :=
  if top_slot true w0 a fl then Some K_top
  else if comment_slot true w0 a fl then Some K_comment
  else if string_slot true w0 a fl then Some K_string
  else None.

Definition slots_chk (w0 : byte) (segs : list bytes) (fl : Z) : bool :=
  forallb (fun a => match slot_kind w0 a fl with Some _ => true | None => false end) (prefixes [w0] [] segs).

(* what the slot asks of its run: (start with a byte of var_accept, contain no newline) *)
Definition slot_req (w0 : byte) (a : bytes) (fl : Z) : bool * bool :=
  match slot_kind w0 a fl with
  | Some k => (negb (kind_slot k false w0 a fl), match k with K_comment => true | _ => false end)
  | None => (true, true)
  end.

Definition reqs (w0 : byte) (segs : list bytes) (fl : Z) : list (bool * bool) :=
  map (fun a => slot_req w0 a fl) (prefixes [w0] [] segs).

Fixpoint or_reqs (l1 l2 : list (bool * bool)) : list (bool * bool) :=
  match l1, l2 with
  | (x1, y1) :: l1', (x2, y2) :: l2' => (x1 || x2, y1 || y2) :: or_reqs l1' l2'
  | _, _ => []
  end.

Definition reqs_plan (w0 : byte) (segs : list bytes) (p : plan) : list (bool * bool) :=
  match plan_readings p with
  | (Some g, f) => or_reqs (reqs w0 segs g) (reqs w0 segs f)
  | (None, f) => reqs w0 segs f
  end.

(* the firing reading of the reference string: no sp_password shortcut, and the raw-input
   test of notWhitelist (offset tokenVec[0].len, asked when tokenVec[0] is a number) looks
   into the first segment or at the first slot *)
Definition fire_chk (w0 : byte) (segs : list bytes) (fl : Z) : bool :=
  let ref := inst [w0] segs in
  match sqli_fingerprint (sqli_init ref 0) fl with
  | Ok (fp, wR, sR) =>
      match check_fingerprint sR fp wR with
      | Ok true =>
          negb (contains ref (bs "sp_password"))
          && match wR, segs with
             | t0 :: _, s0 :: _ => negb (cat_is t0 b_sqli_token_type_number) || (t_len t0 <=? len s0)
             | _, _ => true
             end
      | _ => false
      end
  | _ => false
  end.

Definition member_chk (w0 : byte) (segs : list bytes) : bool :=
  let ref := inst [w0] segs in
  match plan_of ref with
  | Some p =>
      forallb (slots_chk w0 segs) (readings_of p)
      && fire_chk w0 segs (snd (plan_readings p))
      && match fst (plan_readings p) with Some g => gate_of_reading ref g | None => true end
      && match p with
         | P_single_ansi | P_single_mysql => has_byte ref b_byte_single
         | P_double_mysql => has_byte ref b_byte_double
         | _ => true
         end
  | None => false
  end.

(* slot by slot, what the runs must respect *)
Definition need (w0 : byte) (segs : list bytes) : list (bool * bool) :=
  match plan_of (inst [w0] segs) with
  | Some p => reqs_plan w0 segs p
  | None => []
  end.

(* slot by slot: is everything behind the slot empty (the slot is the last one and the last
   segment is empty) *)
Fixpoint last_empty (segs : list bytes) : list bool :=
  match segs with
  | [] => []
  | [_] => []
  | _ :: ((s2 :: rest) as tl) =>
      (match rest with [] => (match s2 with [] => true | _ => false end) | _ => false end) :: last_empty tl
  end.

(* the condition on a run, for the reference separator w0 (0x20 or 0x0a); q = slot_req:
   - fst q: a variable name ends at the slot: the run starts with a byte that ends a
     variable name (not a0, not 00);
   - snd q: the slot lies inside a `--` comment: against the reference 0x0a the run starts
     with the newline; against the reference 0x20 it contains no newline, or nothing
     follows the slot (be) and the newline is not its first byte *)
Definition run_okw (w0 : byte) (q : bool * bool) (be : bool) (run : bytes) : Prop :=
  (fst q = true -> isWv (hd x00 run) = true) /\
  (snd q = true ->
     if beq w0 x0a then hd x00 run = x0a
     else no_nl run = true \/ (hd x00 run <> x0a /\ be = true)).

Definition runs_okw (w0 : byte) (qs : list (bool * bool)) (bes : list bool) (ws : list bytes) : Prop :=
  Forall2 (fun (qb : bool * bool * bool) run => run_okw w0 (fst qb) (snd qb) run) (combine qs bes) ws.
