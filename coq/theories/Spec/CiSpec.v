(* CiSpec: the vocabulary of property C10 (ASCII case-insensitivity of the SQLi
   verdict and fingerprint).  Definitions only; the lemmas are in
   Proofs/CiBase.v, CiLex.v, CiFold.v, CiCheck.v and the theorems in
   Properties/C10.v. *)
From Coq Require Import List ZArith String Bool.
From Coq.Strings Require Import Byte.
From LI Require Import Prelude Base SqliLex.
Import ListNotations.
Local Open Scope Z_scope.

(* two bytes that are equal up to ASCII case *)
Definition ceq (b b' : byte) : Prop := upper_ascii b = upper_ascii b'.

(* two inputs of the same length whose bytes are pairwise equal up to ASCII case *)
Definition cv (s s' : bytes) : Prop :=
  Forall2 (fun b b' => upper_ascii b = upper_ascii b') s s'.

(* ---------- the neighbourhoods in which SQL itself is case-sensitive ---------- *)

(* s starts with  q'L  or  Q'L  for an ASCII letter L (the same three bytes
   occur in  nq'L) : a letter used as Oracle q-quote delimiter *)
Definition qlit_at (s : bytes) : bool :=
  match s with
  | a :: b :: c :: _ => (beq a x71 || beq a x51) && beq b x27 && is_alpha c
  | _ => false
  end.

Fixpoint no_qlit (s : bytes) : bool :=
  match s with
  | [] => true
  | _ :: tl => negb (qlit_at s) && no_qlit tl
  end.

(* no backslash (MySQL \N), no dollar (PostgreSQL dollar-quote tags), no letter
   q-quote delimiter *)
Definition plain (s : bytes) : bool :=
  negb (mem x5c s) && negb (mem x24 s) && no_qlit s.

(* A weaker exclusion (theorem C10_partial2): a backslash is excluded only when
   it is followed by n/N, a dollar only when it is followed by a letter *)
Definition bsn_at (s : bytes) : bool :=
  match s with
  | a :: b :: _ => beq a x5c && (beq b x4e || beq b x6e)
  | _ => false
  end.
Definition dollar_alpha_at (s : bytes) : bool :=
  match s with
  | a :: b :: _ => beq a x24 && is_alpha b
  | _ => false
  end.

Fixpoint nowhere (p : bytes -> bool) (s : bytes) : bool :=
  match s with
  | [] => true
  | _ :: tl => negb (p s) && nowhere p tl
  end.

Definition plain2 (s : bytes) : bool :=
  nowhere bsn_at s && nowhere dollar_alpha_at s && nowhere qlit_at s.

(* ---------- relations between the two runs ---------- *)

Definition tok_ci (t t' : token) : Prop :=
  t_pos t = t_pos t' /\ t_len t = t_len t' /\ t_count t = t_count t' /\
  t_cat t = t_cat t' /\ t_open t = t_open t' /\ t_close t = t_close t' /\
  cv (t_val t) (t_val t').

Definition st_ci (s s' : sqlst) : Prop :=
  cv (input s) (input s') /\ flags s = flags s' /\ pos s = pos s' /\ st s = st s'.

(* both runs fail in the same way, or both return and the results are related *)
Definition rel_res {A A'} (R : A -> A' -> Prop) (m : res A) (m' : res A') : Prop :=
  match m, m' with
  | Ok a, Ok a' => R a a'
  | Panic x, Panic x' => x = x'
  | OutOfFuel, OutOfFuel => True
  | StackOverflow, StackOverflow => True
  | _, _ => False
  end.

(* results of a lexer *)
Definition lex_ci (r r' : sqlst * token * Z) : Prop :=
  st_ci (fst (fst r)) (fst (fst r')) /\ tok_ci (snd (fst r)) (snd (fst r')) /\ snd r = snd r'.

(* results of parse_string_core *)
Definition tz_ci (r r' : token * Z) : Prop :=
  tok_ci (fst r) (fst r') /\ snd r = snd r'.

(* results of tokenize *)
Definition tkz_ci (r r' : bool * token * sqlst) : Prop :=
  fst (fst r) = fst (fst r') /\ tok_ci (snd (fst r)) (snd (fst r')) /\ st_ci (snd r) (snd r').

(* the records of a whole scan *)
Definition rec_ci (x x' : token * Z * Z) : Prop :=
  tok_ci (fst (fst x)) (fst (fst x')) /\ snd (fst x) = snd (fst x') /\ snd x = snd x'.

Definition scan_ci (r r' : list (token * Z * Z) * sqlst) : Prop :=
  Forall2 rec_ci (fst r) (fst r') /\ st_ci (snd r) (snd r').
