(* XCiSpec: the vocabulary of property C11 (a) -- "changing the case of ASCII
   letters never changes the IsXSS verdict".  Definitions only.

   cvb b b'  : the bytes b and b' are equal up to ASCII letter case
   cv s s'   : the inputs s and s' have the same length and are equal, byte by
               byte, up to ASCII letter case ("s' is a case variant of s")
   no_cdata_like s : nowhere in s is there an occurrence of the nine bytes
               `<![CDATA[` in ANY letter case (so `<![cdata[`, `<![CdAtA[`
               and the exact upper-case spelling are all excluded).  This is
               the only case-sensitive marker of the tokenizer: the exact
               spelling opens a CDATA section (ended by `]]>`), every other
               spelling opens a bogus comment (ended by `>`), and the two
               continue differently.  The predicate is symmetric under cv and
               closed under taking suffixes (both proved in XCiBase.v). *)
From Coq Require Import List ZArith String Bool.
From Coq.Strings Require Import Byte.
From LI Require Import Prelude Base.
Import ListNotations.
Local Open Scope Z_scope.

Definition cvb (b b' : byte) : Prop := upper_ascii b = upper_ascii b'.

Definition cv (s s' : bytes) : Prop := Forall2 cvb s s'.

(* pat is a prefix of l up to ASCII letter case *)
Fixpoint ci_starts (pat l : bytes) : bool :=
  match pat, l with
  | [], _ => true
  | x :: pat', y :: l' => beq (upper_ascii x) (upper_ascii y) && ci_starts pat' l'
  | _ :: _, [] => false
  end.

Definition cdata_open : bytes := bs "<![CDATA[".

Fixpoint no_cdata_like (s : bytes) : bool :=
  match s with
  | [] => true
  | _ :: s' => negb (ci_starts cdata_open s) && no_cdata_like s'
  end.
