(* DecodeSpec: a declarative reference for the HTML character-reference decoder
   (htmlDecodeByteAt) and for the inputs the URL-scheme matcher (isBlackURL /
   htmlEncodeStartsWith) has to recognise (C19).  Definitions only; no indices,
   no fuel, no error monad.  The proofs are in Proofs/DecodeProofs.v. *)
From Coq Require Import List ZArith String Bool.
From Coq.Strings Require Import Byte.
From LI Require Import Prelude Base.
Import ListNotations.
Local Open Scope Z_scope.

(* ---------- characters ---------- *)

Notation AMP := x26 (only parsing).     (* & *)
Notation HASH := x23 (only parsing).    (* # *)
Notation SEMI := x3b (only parsing).    (* ; *)
Notation LOWER_X := x78 (only parsing). (* x *)
Notation UPPER_X := x58 (only parsing). (* X *)

(* the largest value a reference may denote: 0x1000FF *)
Definition max_ref : Z := 1048831.

(* "a literal ampersand, one byte consumed" *)
Definition amp : Z * Z := (38, 1).

Definition dec_digit (c : byte) : option Z :=
  if (48 <=? code c) && (code c <=? 57) then Some (code c - 48)       (* 0-9 *)
  else None.

Definition hex_digit (c : byte) : option Z :=
  if (48 <=? code c) && (code c <=? 57) then Some (code c - 48)       (* 0-9 *)
  else if (65 <=? code c) && (code c <=? 70) then Some (code c - 55)  (* A-F *)
  else if (97 <=? code c) && (code c <=? 102) then Some (code c - 87) (* a-f *)
  else None.

(* ---------- the reference decoder ---------- *)

(* Read further digits.  `val` is the value so far, `n` the number of bytes
   consumed so far.  A ';' ends the reference and is consumed; any other
   non-digit (or the end of the input) ends it and is not consumed; as soon as
   the value exceeds max_ref the whole reference is abandoned: the result is a
   literal '&' of length 1. *)
Fixpoint accum (digit : byte -> option Z) (base : Z) (s : bytes) (val n : Z) : Z * Z :=
  match s with
  | [] => (val, n)
  | c :: s' =>
      if beq c SEMI then (val, n + 1)
      else match digit c with
           | None => (val, n)
           | Some d =>
               let val' := val * base + d in
               if max_ref <? val' then amp else accum digit base s' val' (n + 1)
           end
  end.

(* decode_ref s = (value, bytes consumed) of the first decoded byte of s *)
Definition decode_ref (s : bytes) : Z * Z :=
  match s with
  | [] => (-1, 0)                                            (* end of input *)
  | c0 :: s1 =>
      if negb (beq c0 AMP) then (code c0, 1)                 (* an ordinary byte *)
      else match s1 with
           | c1 :: c2 :: s3 =>
               if negb (beq c1 HASH) then amp                (* &?   *)
               else if beq c2 LOWER_X || beq c2 UPPER_X then
                 match s3 with
                 | c3 :: s4 =>
                     match hex_digit c3 with
                     | Some d => accum hex_digit 16 s4 d 4   (* &#xH... *)
                     | None => amp                           (* &#x? *)
                     end
                 | [] => amp                                 (* &#x at the end *)
                 end
               else match dec_digit c2 with
                    | Some d => accum dec_digit 10 s3 d 3    (* &#D... *)
                    | None => amp                            (* &#?  *)
                    end
           | _ => amp                                        (* & or &? at the end *)
           end
  end.

(* ---------- the encodings of one value ---------- *)

(* the value of a digit string read from `val` on; None if some byte is not a digit *)
Fixpoint digits_from (digit : byte -> option Z) (base : Z) (ds : bytes) (val : Z) : option Z :=
  match ds with
  | [] => Some val
  | c :: ds' =>
      match digit c with
      | Some d => digits_from digit base ds' (val * base + d)
      | None => None
      end
  end.

(* ds is a non-empty string of digits (leading zeros allowed, either case of
   the hex letters) that denotes v *)
Definition numeral (digit : byte -> option Z) (base : Z) (ds : bytes) (v : Z) : Prop :=
  ds <> [] /\ digits_from digit base ds 0 = Some v.

(* an unterminated numeral ends at the end of the input or before a byte that
   is neither a digit nor ';' *)
Definition stops (digit : byte -> option Z) (next : option byte) : Prop :=
  match next with
  | None => True
  | Some c => digit c = None /\ c <> SEMI
  end.

(* Encodes w v next: the bytes w, when followed by `next` (None = end of the
   input), are one spelling of the value v (0 <= v <= max_ref; for a byte b
   take v = code b). *)
Inductive Encodes : bytes -> Z -> option byte -> Prop :=
| Enc_literal b next :                                   (* the byte itself *)
    b <> AMP ->
    Encodes [b] (code b) next
| Enc_dec ds v next :                                    (* &#DDD *)
    numeral dec_digit 10 ds v -> v <= max_ref -> stops dec_digit next ->
    Encodes (AMP :: HASH :: ds) v next
| Enc_dec_semi ds v next :                               (* &#DDD; *)
    numeral dec_digit 10 ds v -> v <= max_ref ->
    Encodes (AMP :: HASH :: ds ++ [SEMI]) v next
| Enc_hex x ds v next :                                  (* &#xHH  &#XHH *)
    x = LOWER_X \/ x = UPPER_X ->
    numeral hex_digit 16 ds v -> v <= max_ref -> stops hex_digit next ->
    Encodes (AMP :: HASH :: x :: ds) v next
| Enc_hex_semi x ds v next :                             (* &#xHH; &#XHH; *)
    x = LOWER_X \/ x = UPPER_X ->
    numeral hex_digit 16 ds v -> v <= max_ref ->
    Encodes (AMP :: HASH :: x :: ds ++ [SEMI]) v next.

(* a reference whose digits denote more than max_ref *)
Definition overflows (digit : byte -> option Z) (base : Z) (ds : bytes) : Prop :=
  exists v, numeral digit base ds v /\ max_ref < v.

(* ---------- obfuscated spellings of a URL scheme ---------- *)

(* leading bytes that isBlackURL strips before matching *)
Definition is_junk (b : byte) : bool := (code b <=? 32) || (127 <=? code b).

(* the byte that follows the first piece of enc ++ rest, when `next` is the
   first byte of rest *)
Definition first_of (enc : bytes) (next : option byte) : option byte :=
  match enc with
  | c :: _ => Some c
  | [] => next
  end.

(* v is the scheme character c (given in upper case) in either letter case *)
Definition spells_char (v : Z) (c : byte) : Prop :=
  v = code c \/ v = code (lower_ascii c).

(* Spells first scheme enc next: enc, when followed by `next`, is a sequence of
   encodings (Encodes) whose values are, in order, the characters of `scheme`
   in either case, with any number of NUL (0) / LF (10) values in between,
   and -- while no scheme character has been seen yet (first = true) -- any
   number of values <= 0x20. *)
Inductive Spells : bool -> bytes -> bytes -> option byte -> Prop :=
| Sp_done first next :
    Spells first [] [] next
| Sp_lead w v scheme enc next :
    Encodes w v (first_of enc next) -> 0 <= v <= 32 ->
    Spells true scheme enc next ->
    Spells true scheme (w ++ enc) next
| Sp_skip first w v scheme enc next :
    Encodes w v (first_of enc next) -> v = 0 \/ v = 10 ->
    Spells first scheme enc next ->
    Spells first scheme (w ++ enc) next
| Sp_char first w v c scheme enc next :
    Encodes w v (first_of enc next) -> spells_char v c ->
    Spells false scheme enc next ->
    Spells first (c :: scheme) (w ++ enc) next.

(* the scheme names of the property, in upper case, with their colon *)
Definition dangerous_schemes : list bytes :=
  [bs "JAVASCRIPT:"; bs "VBSCRIPT:"; bs "DATA:"; bs "VIEW-SOURCE:"].

(* the simplest spelling: every character literally, case chosen per character *)
Definition same_text_nocase (text scheme : bytes) : Prop :=
  Forall2 (fun t c => spells_char (code t) c) text scheme.
