(* RefHtml: Ref, an independently written executable specification of the
   HTML5 tokenizer of libinjection and of its XSS classification rules (C07).
   Definitions only; the proofs that the Go-mirroring model (Html5.v, Xss.v)
   computes exactly these functions are in Proofs/RefHtmlProofs.v.

   Style.  The model is a transliteration of the Go code: a mutable record
   with absolute positions into a shared buffer, checked index primitives, an
   error monad, a call-depth budget and fuel, and one function per state of
   the WHATWG state machine, several of which are chained inside one call of
   next().  Ref is written the other way round:

   - Ref never indexes.  It looks at the bytes that are still to be read
     (`rest`) by pattern matching on the head of the list, cuts names and
     values off with `break` (the longest prefix free of stop bytes and what
     follows it), and finds terminators with the declarative first-occurrence
     oracles of Spec/H5TermSpec.v and Spec/StringSpec.v (first_match,
     first_byte, comment_end, md_classify).
   - Ref is total: no error monad, no call-depth budget.  One step either
     ends the run (None) or describes the NET effect of one next() call: the
     token (kind, where it starts in `rest`, how long it is), how many bytes
     of `rest` are used up, and the mode to continue in.  There are ten modes
     (the model has twenty-two state functions): the states that only ever
     run in the middle of a next() call do not exist in Ref.
   - Offsets are relative to `rest`; the driver adds the number of bytes
     consumed so far, which is its only use.
   - The only fuel is the step counter of the driver, S (S (length s)); it is
     proved sufficient, and nothing in Ref needs a proof to be executable.

   Facts about the port that no property pins and that Ref adopts from the code
   as given: see the comments marked PORT below. *)
From Coq Require Import List ZArith String Bool.
From Coq.Strings Require Import Byte.
From LI Require Import Prelude Base Xss Spec.StringSpec Spec.H5TermSpec Spec.DecodeSpec.
From LIGen Require Import Consts.
Import ListNotations.
Local Open Scope Z_scope.

(* ================================================================== *)
(* 1. characters                                                       *)
(* ================================================================== *)

Notation LT := x3c (only parsing).       (* < *)
Notation GT := x3e (only parsing).       (* > *)
Notation SLASH := x2f (only parsing).    (* / *)
Notation BANG := x21 (only parsing).     (* ! *)
Notation QUESTION := x3f (only parsing). (* ? *)
Notation PERCENT := x25 (only parsing).  (* % *)
Notation EQUALS := x3d (only parsing).   (* = *)
Notation DQUOTE := x22 (only parsing).   (* double quote *)
Notation SQUOTE := x27 (only parsing).   (* single quote *)
Notation BQUOTE := x60 (only parsing).   (* back-tick *)
Notation NUL := x00 (only parsing).

Definition code_in (b : byte) (codes : list Z) : bool := existsb (Z.eqb (code b)) codes.

(* HTML white space: TAB LF VT FF CR SPACE *)
Definition is_space (b : byte) : bool := code_in b [9; 10; 11; 12; 13; 32].
(* what is skipped between the parts of a tag: white space and NUL *)
Definition is_blank (b : byte) : bool := is_space b || beq b NUL.
(* A-Z a-z *)
Definition is_ascii_letter (b : byte) : bool :=
  ((65 <=? code b) && (code b <=? 90)) || ((97 <=? code b) && (code b <=? 122)).
Definition is_quote_byte (b : byte) : bool := beq b DQUOTE || beq b SQUOTE || beq b BQUOTE.

(* the bytes that end a tag name, an attribute name, an unquoted value *)
Definition ends_tag_name (b : byte) : bool := is_space b || beq b SLASH || beq b GT.
Definition ends_attr_name (b : byte) : bool := is_space b || beq b SLASH || beq b EQUALS || beq b GT.
Definition ends_unquoted (b : byte) : bool := is_space b || beq b GT.

(* break stop l = (the longest prefix of l without a stop byte, the rest of l) *)
Fixpoint break (stop : byte -> bool) (l : bytes) : bytes * bytes :=
  match l with
  | [] => ([], [])
  | b :: l' => if stop b then ([], l) else let '(a, t) := break stop l' in (b :: a, t)
  end.

(* ================================================================== *)
(* 2. tokens, modes, steps                                             *)
(* ================================================================== *)

Inductive kind :=
| KText       (* character data, also the content of <![CDATA[ ]]> *)
| KTagOpen    (* the name of a start tag (and of an end tag that does not end at its name) *)
| KTagEnd     (* the '>' that ends a tag *)
| KSelfClose  (* "/>" *)
| KTagClose   (* the name of an end tag "</name>" *)
| KAttrName
| KAttrValue
| KComment    (* <!-- -->, <! >, <? >, <% %>, </ > *)
| KDoctype.

(* the numbering of the token types is the project's (gen/Consts.v: data) *)
Definition kind_code (k : kind) : Z :=
  match k with
  | KText => c_html5_type_data_text
  | KTagOpen => c_html5_type_tag_name_open
  | KTagEnd => c_html5_type_tag_name_close
  | KSelfClose => c_html5_type_tag_name_self_close
  | KTagClose => c_html5_type_tag_close
  | KAttrName => c_html5_type_attr_name
  | KAttrValue => c_html5_type_attr_value
  | KComment => c_html5_type_tag_comment
  | KDoctype => c_html5_type_doc_type
  end.

(* where the tokenizer is; `rest` is what has not been consumed yet *)
Inductive mode :=
| MText               (* in character data *)
| MTag                (* rest begins with the '<' that ended a text token *)
| MGt                 (* rest begins with the '>' that ends the current tag *)
| MSlash              (* inside a tag, rest begins with a '/' *)
| MAttrs              (* inside a tag, an attribute name may follow *)
| MAfterName          (* inside a tag, behind an attribute name and one white-space byte *)
| MBeforeValue        (* inside a tag, behind the '=' of an attribute *)
| MAfterQuoted        (* inside a tag, behind the closing quote of a value *)
| MQuoted (q : byte)  (* inside a value quoted with q whose opening quote is not part of rest *)
| MDone.              (* the run is over *)

(* The result of one step: a token of kind `kd` that starts `off` bytes into
   rest and is `ln` bytes long; `adv` bytes of rest are used up; continue in
   mode `next`; `pending` is the new value of the one flag the tokenizer
   keeps: "an end tag was opened by </ and its '>' has not been seen". *)
Definition emitted : Type := kind * Z * Z * Z * mode * bool.
Definition Emit (kd : kind) (off ln adv : Z) (next : mode) (pending : bool) : option emitted :=
  Some (kd, off, ln, adv, next, pending).

(* A construct whose content starts k bytes into rest and runs up to a
   terminator.  `close` = Some i: the first terminator (w bytes wide) starts at
   offset i of the content: the token is the i bytes before it and the
   tokenizer continues behind the terminator.  None: there is no terminator:
   the token is the whole content and the run is over. *)
Definition delimited_tok (kd : kind) (k : Z) (content : bytes) (close : option Z) (w : Z)
                         (next : mode) (pending : bool) : option emitted :=
  match close with
  | Some i => Emit kd k i (k + i + w) next pending
  | None => Emit kd k (len content) (k + len content) MDone pending
  end.

(* ---------- character data ---------- *)

(* A stretch of text, k bytes into rest, that does not begin with '<': it ends
   before the first '<' or at the end of the input.  Empty text at the end of
   the input is no token. *)
Definition text_run (k : Z) (l : bytes) (pending : bool) : option emitted :=
  match first_byte LT l with
  | Some i => Emit KText k i (k + i) MTag pending
  | None => match l with
            | [] => None
            | _ :: _ => Emit KText k (len l) (k + len l) MDone pending
            end
  end.

(* ---------- names and values ---------- *)

(* A tag name, k bytes into rest; l begins with its first byte.  It ends before
   white space, '/' or '>'.  "</name>" is one token (KTagClose) that includes
   the '>'; the '>' of "<name>" is a token of its own (mode MGt). *)
Definition tag_name (k : Z) (l : bytes) (pending : bool) : option emitted :=
  let '(name, tail) := break ends_tag_name l in
  let n := len name in
  match tail with
  | [] => Emit KTagOpen k n (k + n) MDone pending
  | b :: _ =>
      if is_space b then Emit KTagOpen k n (k + n + 1) MAttrs pending
      else if beq b SLASH then Emit KTagOpen k n (k + n) MSlash pending
      else (* '>' *)
        if pending then Emit KTagClose k n (k + n + 1) MText false
        else Emit KTagOpen k n (k + n) MGt false
  end.

(* An attribute name, k bytes into rest.  Its first byte is the first byte of
   l whatever that byte is (even '=' or a quote); it then runs up to white
   space, '/', '=' or '>'. *)
Definition attr_name (k : Z) (l : bytes) (pending : bool) : option emitted :=
  match l with
  | [] => None
  | _ :: l' =>
      let '(more, tail) := break ends_attr_name l' in
      let n := 1 + len more in
      match tail with
      | [] => Emit KAttrName k n (k + n) MDone pending
      | b :: _ =>
          if is_space b then Emit KAttrName k n (k + n + 1) MAfterName pending
          else if beq b SLASH then Emit KAttrName k n (k + n) MSlash pending
          else if beq b EQUALS then Emit KAttrName k n (k + n + 1) MBeforeValue pending
          else (* '>' *) Emit KAttrName k n (k + n) MGt pending
      end
  end.

(* the content of a quoted value: up to the first q; r begins behind the opening quote *)
Definition quoted_value (q : byte) (k : Z) (r : bytes) (pending : bool) : option emitted :=
  delimited_tok KAttrValue k r (first_byte q r) 1 MAfterQuoted pending.

(* an unquoted value: up to white space or '>' *)
Definition unquoted_value (k : Z) (l : bytes) (pending : bool) : option emitted :=
  let '(v, tail) := break ends_unquoted l in
  let n := len v in
  match tail with
  | [] => Emit KAttrValue k n (k + n) MDone pending
  | b :: _ =>
      if is_space b then Emit KAttrValue k n (k + n + 1) MAttrs pending
      else (* '>' *) Emit KAttrValue k n (k + n) MGt pending
  end.

(* ---------- inside a tag ---------- *)

(* Looking for the next attribute, k bytes into rest.  Blanks are skipped; a
   '/' not followed by '>' is skipped; "/>" is the self-closing token; '>' ends
   the tag; the end of the input ends the run; any other byte starts an
   attribute name. *)
Fixpoint attrs (k : Z) (l : bytes) (pending : bool) : option emitted :=
  match l with
  | [] => None
  | b :: l' =>
      if is_blank b then attrs (k + 1) l' pending
      else if beq b SLASH then
        match l' with
        | [] => None
        | c :: _ => if beq c GT then Emit KSelfClose k 2 (k + 2) MText pending
                    else attrs (k + 1) l' pending
        end
      else if beq b GT then Emit KTagEnd k 1 (k + 1) MText pending
      else attr_name k l pending
  end.

(* r is what follows a '/' that sits k bytes into rest *)
Definition after_slash (k : Z) (r : bytes) (pending : bool) : option emitted :=
  match r with
  | [] => None
  | c :: _ => if beq c GT then Emit KSelfClose k 2 (k + 2) MText pending
              else attrs (k + 1) r pending
  end.

(* The '>' that ends a tag, k bytes into rest (l begins with it).  It clears
   `pending`.  (The next mode is MText; at the end of the input MDone says the
   same thing.) *)
Definition tag_end (k : Z) (l : bytes) : option emitted :=
  match l with
  | [] => None
  | _ :: r => Emit KTagEnd k 1 (k + 1) (match r with [] => MDone | _ :: _ => MText end) false
  end.

(* l is what follows the '=' of an attribute, k bytes into rest: blanks, then
   a quoted or an unquoted value *)
Definition before_value (k : Z) (l : bytes) (pending : bool) : option emitted :=
  let '(blanks, l1) := break (fun b => negb (is_blank b)) l in
  let k1 := k + len blanks in
  match l1 with
  | [] => None
  | c :: r => if is_quote_byte c then quoted_value c (k1 + 1) r pending
              else unquoted_value k1 l1 pending
  end.

(* l is what follows an attribute name (and the white-space byte behind it) *)
Definition after_name (l : bytes) (pending : bool) : option emitted :=
  let '(blanks, l1) := break (fun b => negb (is_blank b)) l in
  let k := len blanks in
  match l1 with
  | [] => None
  | c :: r =>
      if beq c SLASH then after_slash k r pending
      else if beq c EQUALS then before_value (k + 1) r pending
      else if beq c GT then tag_end k l1
      else attr_name k l1 pending
  end.

(* l is what follows the closing quote of a value *)
Definition after_quoted (l : bytes) (pending : bool) : option emitted :=
  match l with
  | [] => None
  | c :: r =>
      if is_space c then attrs 1 r pending
      else if beq c SLASH then after_slash 0 r pending
      else if beq c GT then Emit KTagEnd 0 1 1 MText pending
      else attrs 0 l pending
  end.

(* ---------- what a '<' opens ---------- *)

(* body is what follows "<!" (2 bytes into rest).  md_classify recognises
   "doctype" (any letter case), "[CDATA[" and "--" (exact). *)
Definition markup_declaration (body : bytes) (pending : bool) : option emitted :=
  match md_classify body with
  | MdDoctype =>          (* <!doctype ... >   : the token starts at "doctype" *)
      delimited_tok KDoctype 2 body (first_byte GT body) 1 MText pending
  | MdCData =>            (* <![CDATA[ ... ]]> : the token is the content, as text *)
      let content := skipn 7 body in
      delimited_tok KText 9 content (first_match pat_cdata_end content) 3 MText pending
  | MdComment =>          (* <!-- ... -->      : the token is the content; comment_end knows
                             the terminators "-->", "-!>", and NUL bytes after the first dash *)
      let content := skipn 2 body in
      match comment_end content with
      | Some (i, w) => Emit KComment 4 i (4 + i + w) MText pending
      | None => Emit KComment 4 (len content) (4 + len content) MDone pending
      end
  | MdBogus =>            (* <! ... >          : a comment that ends at the first '>' *)
      delimited_tok KComment 2 body (first_byte GT body) 1 MText pending
  end.

(* r is what follows "</" (2 bytes into rest) *)
Definition end_tag (r : bytes) : option emitted :=
  match r with
  | [] => None
  | c :: _ =>
      if beq c GT then text_run 2 r true              (* "</>" is nothing: text goes on at the '>' *)
      else if is_ascii_letter c then tag_name 2 r true
      else delimited_tok KComment 2 r (first_byte GT r) 1 MText false   (* "</3 ... >" *)
  end.

(* l begins with a '<' *)
Definition tag_open (l : bytes) (pending : bool) : option emitted :=
  match l with
  | [] => None
  | _ :: r =>
      match r with
      | [] => None                                    (* a '<' at the very end: no token *)
      | c :: r1 =>
          if beq c BANG then markup_declaration r1 pending
          else if beq c SLASH then end_tag r1
          else if beq c QUESTION then                 (* <? ... > *)
            delimited_tok KComment 2 r1 (first_byte GT r1) 1 MText pending
          else if beq c PERCENT then                  (* <% ... %> *)
            delimited_tok KComment 2 r1 (first_match pat_pct_gt r1) 2 MText pending
          else if is_ascii_letter c || beq c NUL then tag_name 1 r pending
          else Emit KText 0 1 1 MText pending         (* the '<' is one byte of text *)
      end
  end.

(* ---------- one step ---------- *)

Definition ref_step (m : mode) (l : bytes) (pending : bool) : option emitted :=
  match m with
  | MText => match l with
             | [] => None
             | c :: _ => if beq c LT then tag_open l pending else text_run 0 l pending
             end
  | MTag => tag_open l pending
  | MGt => tag_end 0 l
  | MSlash => match l with [] => None | _ :: r => after_slash 0 r pending end
  | MAttrs => attrs 0 l pending
  | MAfterName => after_name l pending
  | MBeforeValue => before_value 0 l pending
  | MAfterQuoted => after_quoted l pending
  | MQuoted q => quoted_value q 0 l pending
  | MDone => None
  end.

(* ---------- the run ---------- *)

(* `consumed` bytes of the input have been used up and `l` is what is left *)
Fixpoint ref_run (fuel : nat) (m : mode) (consumed : Z) (l : bytes) (pending : bool)
  : list (Z * Z * Z) :=
  match fuel with
  | O => []
  | S fuel' =>
      match ref_step m l pending with
      | None => []
      | Some (kd, off, ln, adv, next, pending') =>
          (kind_code kd, consumed + off, ln)
          :: ref_run fuel' next (consumed + adv) (skipn (Z.to_nat adv) l) pending'
      end
  end.

(* the five injection contexts: element content, unquoted attribute value
   (i.e. inside a tag), and inside a value quoted with a single quote, a double
   quote or a back-tick *)
Definition start_mode (ctx : Z) : mode :=
  if ctx =? c_html5_flags_data_state then MText
  else if ctx =? c_html5_flags_value_no_quote then MAttrs
  else if ctx =? c_html5_flags_value_single_quote then MQuoted SQUOTE
  else if ctx =? c_html5_flags_value_double_quote then MQuoted DQUOTE
  else if ctx =? c_html5_flags_value_back_quote then MQuoted BQUOTE
  else MDone.

(* every step but the last uses up a byte or moves to a mode from which the
   next step must use one up: |s| + 2 steps are enough (RefHtmlProofs) *)
Definition ref_tokens (ctx : Z) (s : bytes) : list (Z * Z * Z) :=
  ref_run (S (S (List.length s))) (start_mode ctx) 0 s false.

(* ================================================================== *)
(* 3. classification                                                   *)
(* ================================================================== *)

(* PORT: names are compared after removing NUL bytes and after Go's
   strings.ToUpper, which Base.go_upper_view describes: ASCII letters are
   folded, U+017F and U+0131 become 'S' and 'I', any other non-ASCII byte
   makes the name differ from every list entry (None). *)
Definition fold_name (v : bytes) : option bytes :=
  go_upper_view (filter (fun b => negb (beq b NUL)) v).

Definition folds_to (v : bytes) (literal : bytes) : bool :=
  match go_upper_view v with Some u => bytes_eqb literal u | None => false end.

Definition listed (u : bytes) (l : list bytes) : bool := existsb (bytes_eqb u) l.

Definition lookup (u : bytes) (tbl : list (bytes * Z)) : option Z :=
  option_map snd (find (fun kv => bytes_eqb u (fst kv)) tbl).

(* A tag name is black when its folded form is in the list black_tags or is
   SVT or XSL.
   PORT: SVT/XSL are exact matches (the comment in the code says "anything SVG
   or XSL(t) related"); a name of fewer than 3 raw bytes is never black, and
   this test comes before the NUL bytes are removed. *)
Definition ref_is_black_tag (v : bytes) : bool :=
  (3 <=? len v) &&
  match fold_name v with
  | Some u => listed u (black_tags ++ [bs "SVT"; bs "XSL"])
  | None => false
  end.

(* "ON" + an event of the list black_events *)
Definition event_type (u : bytes) : option Z :=
  match u with
  | o :: n :: ev => if beq o x4f && beq n x4e then lookup ev black_events else None
  | _ => None
  end.

Definition or_else {A} (a b : option A) : option A := match a with Some _ => a | None => b end.

(* The type of an attribute name (0 none, 1 black, 2 URL, 3 style, 4 indirect;
   the numbers are those stored in the lists).
   PORT: XMLNS and XLINK are exact matches (not prefixes); event handlers are
   "ON" + a listed event (not every "ON..." name); both rules apply to folded
   names of 5 bytes or more only; folded names shorter than 2 bytes have no
   type (this test comes after NUL removal and folding); a listed event that
   is not found falls through to the list `blacks`. *)
Definition ref_attr_type (v : bytes) : Z :=
  match fold_name v with
  | None => c_attribute_type_none
  | Some u =>
      if len u <? 2 then c_attribute_type_none
      else
        let long := 5 <=? len u in
        let namespace :=
          if long && (bytes_eqb u (bs "XMLNS") || bytes_eqb u (bs "XLINK"))
          then Some c_attribute_type_black else None in
        let event := if long then event_type u else None in
        match or_else namespace (or_else event (lookup u blacks)) with
        | Some t => t
        | None => c_attribute_type_none
        end
  end.

(* ---------- URL values ---------- *)

Fixpoint drop_while {A} (p : A -> bool) (l : list A) : list A :=
  match l with
  | [] => []
  | x :: l' => if p x then drop_while p l' else l
  end.

(* The values of the character references and plain bytes of l, read from
   left to right with the reference decoder decode_ref (Spec/DecodeSpec.v);
   `skip` bytes of l belong to the reference that was decoded last. *)
Fixpoint decoded_values (skip : nat) (l : bytes) : list Z :=
  match l with
  | [] => []
  | _ :: l' =>
      match skip with
      | S k => decoded_values k l'
      | O => let '(v, n) := decode_ref l in v :: decoded_values (Z.to_nat n - 1) l'
      end
  end.

Definition upper_value (v : Z) : Z := if (97 <=? v) && (v <=? 122) then v - 32 else v.

(* What the scheme matcher sees of a value: leading bytes <= 32 or >= 127 are
   dropped; the rest is decoded; leading decoded values <= 32 are dropped; NUL
   and LF values are dropped everywhere; a-z are folded to upper case.
   PORT: a decoded value above 255 is reduced modulo 256 (the Go code converts
   it with byte(cb)). *)
Definition url_text (v : bytes) : bytes :=
  let vals := decoded_values 0 (drop_while is_junk v) in
  let vals := drop_while (fun x => x <=? 32) vals in
  let vals := filter (fun x => negb ((x =? 0) || (x =? 10))) vals in
  map (fun x => byte_of_Z (upper_value x)) vals.

Definition occurs (pat l : bytes) : bool :=
  match first_match pat l with Some _ => true | None => false end.

(* PORT: a value is a black URL when one of url_schemes occurs ANYWHERE in
   url_text (the function of the port is called htmlEncodeStartsWith but tests
   strings.Contains). *)
Definition ref_black_url (v : bytes) : bool :=
  existsb (fun scheme => occurs scheme (url_text v)) url_schemes.

(* ---------- comments ---------- *)

(* A comment fires when it holds a back-tick, or (4 bytes or more) begins with
   "[IF" or "XML" in any case, or (6 bytes or more) its first 6 bytes fold,
   after NUL removal, to IMPORT or ENTITY. *)
Definition ref_comment_fires (v : bytes) : bool :=
  match first_byte BQUOTE v with Some _ => true | None => false end
  || ((3 <? len v) &&
      (match v with
       | c :: w => beq c x5b && folds_to (firstn 2 w) (bs "IF")
       | [] => false
       end
       || folds_to (firstn 3 v) (bs "XML")))
  || ((5 <? len v) &&
      match fold_name (firstn 6 v) with
      | Some u => bytes_eqb u (bs "IMPORT") || bytes_eqb u (bs "ENTITY")
      | None => false
      end).

(* ---------- the verdict ---------- *)

(* an attribute value fires depending on the type of the attribute name before it *)
Definition value_fires (ty : Z) (v : bytes) : bool :=
  if ty =? c_attribute_type_black then true
  else if ty =? c_attribute_type_attr_url then ref_black_url v
  else if ty =? c_attribute_type_style then true
  else if ty =? c_attribute_type_attr_indirect then ref_attr_type v =? c_attribute_type_black
  else false.

(* the bytes of a token *)
Definition token_text (s : bytes) (t : Z * Z * Z) : bytes :=
  let '(_, off, ln) := t in firstn (Z.to_nat ln) (skipn (Z.to_nat off) s).

Definition token_type (t : Z * Z * Z) : Z := fst (fst t).

(* does token t fire when the attribute name before it had type attr *)
Definition token_fires (s : bytes) (attr : Z) (t : Z * Z * Z) : bool :=
  let v := token_text s t in
  let ty := token_type t in
  if ty =? kind_code KDoctype then true
  else if ty =? kind_code KTagOpen then ref_is_black_tag v
  else if ty =? kind_code KAttrValue then value_fires attr v
  else if ty =? kind_code KComment then ref_comment_fires v
  else false.

(* the one cell of state: the type of the attribute name, remembered for the
   token that follows it only *)
Definition attr_after (s : bytes) (t : Z * Z * Z) : Z :=
  if token_type t =? kind_code KAttrName then ref_attr_type (token_text s t)
  else c_attribute_type_none.

Definition observe (s : bytes) (st : Z * bool) (t : Z * Z * Z) : Z * bool :=
  let '(attr, fired) := st in (attr_after s t, fired || token_fires s attr t).

(* the verdict in one context: some token fires *)
Definition ref_verdict (ctx : Z) (s : bytes) : bool :=
  snd (fold_left (observe s) (ref_tokens ctx s) (c_attribute_type_none, false)).

(* the verdict on an input: it fires in one of the five contexts *)
Definition ref_is_xss (s : bytes) : bool :=
  existsb (fun ctx => ref_verdict ctx s) [0; 1; 2; 3; 4].
