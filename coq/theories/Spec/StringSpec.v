(* StringSpec: the declarative oracle for "a SQL string literal ends at its
   first real terminator" (C18).  Definitions only; every function is
   structurally recursive over the byte list: no indices into the input, no
   fuel, no error monad.  The proofs that the executable model
   (SqliLex.string_core_loop / parse_string_core / parse_qstring_core /
   parse_money) computes exactly these functions are in Proofs/StringProofs.v. *)
From Coq Require Import List ZArith String Bool.
From Coq.Strings Require Import Byte.
From LI Require Import Prelude Base SqliLex.
Import ListNotations.
Local Open Scope Z_scope.

(* ---------- quote-delimited literals: '..'  ".."  `..` ---------- *)

(* Offset, inside `l`, of the first delimiter d that is neither preceded by an
   odd number of backslashes nor immediately followed by d (a doubled delimiter
   is skipped as a pair).  `odd` is the parity of the backslash run that
   immediately precedes `l` (counted inside the literal only).
     b = d, odd parity       : the delimiter is escaped; skip it, parity even again
     b = d, even, next is d  : doubled delimiter; skip both, parity even
     b = d, even, otherwise  : this is the terminator: Some 0
     b = backslash           : parity flips
     any other byte          : parity even                                        *)
Fixpoint find_close (d : byte) (odd : bool) (l : bytes) : option Z :=
  match l with
  | [] => None
  | b :: l' =>
      if beq b d then
        if odd then option_map (Z.add 1) (find_close d false l')
        else match l' with
             | b' :: l'' =>
                 if beq b' d then option_map (Z.add 2) (find_close d false l'')
                 else Some 0
             | [] => Some 0
             end
      else if beq b x5c then option_map (Z.add 1) (find_close d (negb odd) l')
      else option_map (Z.add 1) (find_close d false l')
  end.

(* ---------- literals closed by a fixed byte sequence: q'[..]'  $$..$$  $tag$..$tag$ ---------- *)

(* first offset at which `pat` occurs in `l` *)
Fixpoint first_match (pat l : bytes) : option Z :=
  if has_prefix l pat then Some 0
  else match l with
       | [] => None
       | _ :: l' => option_map (Z.add 1) (first_match pat l')
       end.

(* `pat` occurs in `l` at offset i (the reading of first_match proved in StringProofs) *)
Definition occurs_at (pat l : bytes) (i : Z) : Prop :=
  exists pre post, l = pre ++ pat ++ post /\ len pre = i.

(* the byte that closes an Oracle q-quote opened with delimiter byte ch *)
Definition q_close (ch : byte) : byte :=
  if beq ch x28 then x29          (* ( ) *)
  else if beq ch x5b then x5d     (* [ ] *)
  else if beq ch x7b then x7d     (* { } *)
  else if beq ch x3c then x3e     (* < > *)
  else ch.

(* ---------- the token and resume offset of a literal ---------- *)

(* the string token ('s' = x73) for content starting at absolute offset cpos,
   n content bytes long before clipping to the 31-byte token value *)
Definition lit_token (cnt cpos : Z) (content : bytes) (o c : byte) (n : Z) : token :=
  mkTok cpos (Z.min n 31) cnt x73 o c (firstn (Z.to_nat (Z.min n 31)) content).

(* inp: whole input; cpos: where the content starts; o: opening mark recorded in
   the token; c: closing mark recorded when the literal is terminated; w: width
   of the terminator; close: offset of the terminator inside the content.
   Terminated: content is inp[cpos, cpos+i), scanning resumes right after the
   terminator.  Unterminated: content runs to the end of the input, the closing
   mark is NUL and scanning resumes at the end. *)
Definition lit_result (cnt : Z) (inp : bytes) (cpos : Z) (o c : byte) (w : Z) (close : option Z)
  : token * Z :=
  let content := skipn (Z.to_nat cpos) inp in
  match close with
  | Some i => (lit_token cnt cpos content o c i, cpos + i + w)
  | None => (lit_token cnt cpos content o x00 (len inp - cpos), len inp)
  end.
