(* ShapeSpec: the three input shapes of the second clause of property C14 —
   decimal numbers, e-mail-like strings and simple punctuated sentences built
   from benign words (Spec/BenignSpec.v).  Definitions only.

   The families contain those sampled by the Go harness
   (tools/harness/streams2.go, benignStream, cases shape-decimal / shape-email /
   shape-sentence) and are wider where that costs nothing:

     decimal   digits "." digits, no length bound (harness: 1..8 digits each);
     e-mail    benign word "@" label ("." label)*, one or more labels, a label
               being any non-empty run of [A-Za-z0-9_] — a label need NOT be
               benign: it may be a SQL keyword or start with a digit (harness:
               benign word "@" benign word "." one of com/org/net/io/example);
     sentence  one or more benign words, each optionally followed by a ".",
               consecutive words separated by " " or ", ", and an optional
               final "!" or "?" (harness: 2..6 benign words, a comma after some
               of the non-final ones, then one of "." "" "!" "?"; its final "."
               is the dot of the last word here). *)
From Coq Require Import List ZArith String Bool.
From Coq.Strings Require Import Byte.
From LI Require Import Prelude Base SqliLex Spec.BenignSpec.
Import ListNotations.
Local Open Scope Z_scope.

(* ---------- decimal numbers ---------- *)

Definition Decimal (s : bytes) : Prop :=
  exists a b, benign_number a = true /\ benign_number b = true /\ s = a ++ x2e :: b.

(* ---------- e-mail-like strings ---------- *)

(* a domain label: a non-empty run of word bytes *)
Definition label (l : bytes) : bool :=
  match l with
  | [] => false
  | _ => forallb is_word_byte l
  end.

(* strings.Join(labels, ".") *)
Fixpoint join_dot (ls : list bytes) : bytes :=
  match ls with
  | [] => []
  | [l] => l
  | l :: rest => l ++ x2e :: join_dot rest
  end.

Definition Email (s : bytes) : Prop :=
  exists u labels,
    benign_word u = true /\ labels <> [] /\ Forall (fun l => label l = true) labels /\
    s = u ++ x40 :: join_dot labels.

(* ---------- punctuated sentences ---------- *)

(* a word, with a full stop attached if d *)
Definition dotted (d : bool) (w : bytes) : bytes := if d then w ++ [x2e] else w.

(* a further word of a sentence: (comma before the space?, (word, full stop after it?)) *)
Definition sword : Type := bool * (bytes * bool).

Definition piece (x : sword) : bytes :=
  let '(c, (w, d)) := x in (if c then [x2c] else []) ++ x20 :: dotted d w.

(* the closing mark: nothing, "!" or "?" (a closing "." is the dot of the last word) *)
Definition closing (f : bytes) : bool :=
  bytes_eqb f [] || bytes_eqb f [x21] || bytes_eqb f [x3f].

Definition Sentence (s : bytes) : Prop :=
  exists w0 d0 (rest : list sword) fin,
    benign_word w0 = true /\ Forall (fun x => benign_word (fst (snd x)) = true) rest /\
    closing fin = true /\
    s = dotted d0 w0 ++ List.concat (map piece rest) ++ fin.
