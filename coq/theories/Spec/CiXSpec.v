(* CiXSpec: the vocabulary of the full statement of property C10 (ASCII
   case-insensitivity of the SQLi verdict and fingerprint, "except where SQL
   itself is case-sensitive").  Definitions only; the lemmas are in
   Proofs/CiXBase.v and Proofs/CiXLex.v, the theorem in Properties/C10x.v.

   cvx s s'  =  cv s s'  (same length, bytewise equal up to ASCII case)
             /\ s and s' are IDENTICAL at the case-sensitive positions of s.

   The case-sensitive positions of s are (every condition is local to a
   suffix of s, which makes the relation closed under taking suffixes):

   (i)   backslash:  the byte directly after a backslash, when that byte is
         N or n                                  (MySQL  \N);
   (ii)  dollar tags:  the letters of every  $letters$  (a dollar, a run of
         ASCII letters, a dollar) — opening tags, closing tags and candidate
         closing tags of PostgreSQL dollar quoting all have this shape;
   (iii) q-quote delimiters:  for every occurrence of  q'L / Q'L  with L an
         ASCII letter: that byte L, and every LATER byte that is equal to L
         up to case and is directly followed by a single quote (the
         candidates for the terminator  L'  of Oracle q-quoting).

   All three are weaker than the conditions "(i) every byte after a backslash,
   (ii) the maximal letter run after every dollar, (iii) if the input contains
   a q'L at all: every letter directly followed by a quote and every letter
   directly preceded by q'" — see fixed_of_strong in Proofs/CiXBase.v. *)
From Coq Require Import List ZArith String Bool.
From Coq.Strings Require Import Byte.
From LI Require Import Prelude Base SqliLex Spec.CiSpec.
Import ListNotations.
Local Open Scope Z_scope.

(* P holds for every pair of corresponding non-empty suffixes of s and s' *)
Fixpoint every2 (P : bytes -> bytes -> bool) (s s' : bytes) {struct s} : bool :=
  match s, s' with
  | _ :: m, _ :: m' => P s s' && every2 P m m'
  | _, _ => true
  end.

(* (i) a backslash followed by N/n: that byte is unchanged *)
Definition bs_ok (l l' : bytes) : bool :=
  match l, l' with
  | a :: c :: _, _ :: c' :: _ =>
      if beq a x5c && (beq c x4e || beq c x6e) then beq c' c else true
  | _, _ => true
  end.

(* the maximal run of ASCII letters at the head of m is followed by a dollar *)
Fixpoint run_term (m : bytes) : bool :=
  match m with
  | [] => false
  | a :: m => if is_alpha a then run_term m else beq a x24
  end.

(* the maximal run of ASCII letters at the head of m is unchanged in m' *)
Fixpoint run_same (m m' : bytes) {struct m} : bool :=
  match m, m' with
  | a :: m, a' :: m' => if is_alpha a then beq a' a && run_same m m' else true
  | _, _ => true
  end.

(* (ii) $letters$ : the letters are unchanged *)
Definition tag_ok (l l' : bytes) : bool :=
  match l, l' with
  | a :: m, _ :: m' => if beq a x24 && run_term m then run_same m m' else true
  | _, _ => true
  end.

(* a byte equal to c up to case and directly followed by a quote is unchanged *)
Definition qb_ok (c : byte) (l l' : bytes) : bool :=
  match l, l' with
  | x :: y :: _, x' :: _ =>
      if beq y x27 && beq (upper_ascii x) (upper_ascii c) then beq x' x else true
  | _, _ => true
  end.

(* (iii) q'L / Q'L with L a letter: L is unchanged, and so is every later
   candidate for the terminator L' *)
Definition q_ok (l l' : bytes) : bool :=
  match l, l' with
  | _ :: _ :: c :: body, _ :: _ :: c' :: body' =>
      if qlit_at l then beq c' c && every2 (qb_ok c) body body' else true
  | _, _ => true
  end.

Definition fixed (s s' : bytes) : bool :=
  every2 bs_ok s s' && every2 tag_ok s s' && every2 q_ok s s'.

Definition cvx (s s' : bytes) : Prop := cv s s' /\ fixed s s' = true.

(* a decision procedure (cvxb_iff in Proofs/CiXBase.v) *)
Fixpoint cvb (s s' : bytes) {struct s} : bool :=
  match s, s' with
  | [], [] => true
  | a :: m, a' :: m' => beq (upper_ascii a) (upper_ascii a') && cvb m m'
  | _, _ => false
  end.

Definition cvxb (s s' : bytes) : bool := cvb s s' && fixed s s'.

(* ---------- the stronger, simpler-to-state conditions of the task brief ---------- *)

(* (i') the byte directly after every backslash is unchanged *)
Definition bs_ok_strong (l l' : bytes) : bool :=
  match l, l' with
  | a :: c :: _, _ :: c' :: _ => if beq a x5c then beq c' c else true
  | _, _ => true
  end.

(* (ii') the maximal run of letters directly after every dollar is unchanged *)
Definition tag_ok_strong (l l' : bytes) : bool :=
  match l, l' with
  | a :: m, _ :: m' => if beq a x24 then run_same m m' else true
  | _, _ => true
  end.

(* (iii') every letter directly followed by a quote, and every letter directly
   preceded by q' / Q', is unchanged — required only if s contains a q'L *)
Definition qfol_ok (l l' : bytes) : bool :=
  match l, l' with
  | x :: y :: _, x' :: _ => if beq y x27 && is_alpha x then beq x' x else true
  | _, _ => true
  end.
Definition qpre_ok (l l' : bytes) : bool :=
  match l, l' with
  | a :: b :: c :: _, _ :: _ :: c' :: _ =>
      if (beq a x71 || beq a x51) && beq b x27 && is_alpha c then beq c' c else true
  | _, _ => true
  end.

Definition fixed_strong (s s' : bytes) : bool :=
  every2 bs_ok_strong s s' && every2 tag_ok_strong s s' &&
  (nowhere qlit_at s || (every2 qfol_ok s s' && every2 qpre_ok s s')).
