(* RefSqlFold: `Ref`, an executable specification of the libinjection SQLi
   FOLDER, fingerprint, blacklist and whitelist, written independently of the
   Go-mirroring model (SqliFold.v).  Definitions only; the proof that the
   model computes exactly these functions is Proofs/RefSqlFoldProofs.v.

   Style.  The model is a transliteration of the Go code: one long
   first-match-wins if/else cascade over a mutable 8-slot array with checked
   reads in an error monad.  Ref is DATA plus a small generic engine:

     - a pattern language over token classes and a few value tests (tpat);
     - an action language: a few slot operations (op), what happens to `left`
       (goto) and what the main loop does next (next_step);
     - the rewrite rules as two tables, `rules2_table` and `rules3_table`,
       one row per rule, in libinjection's order, each with the SQL idiom it
       folds; the five-token special cases as a list of class patterns;
     - the engine: the first row whose patterns match the tokens at
       left, left+1 (, left+2) and whose action applies, fires.

   The tokens come from an abstract source (`source`): `next` delivers one
   more token or the end of the input, `folded` is told how many tokens a
   rule removed (statistics only).  Nothing else is known of the source, so
   the folder is stated once and can be run over the model's tokenizer
   (`scanner`, below) or over any other one.  There is no error monad: every
   function is total.  Data that is looked up, not specified: the keyword
   table (search_keyword) and the case-insensitive comparison of Go
   (to_upper_cmp). *)
From Coq Require Import List ZArith String Bool.
From Coq.Strings Require Import Byte.
From LI Require Import Prelude Base SqliLex.
From LIGen Require Import Consts.
Import ListNotations.
Local Open Scope Z_scope.

(* ---------- token classes (the fingerprint alphabet) ---------- *)

Notation cNum    := b_sqli_token_type_number.             (* 1 *)
Notation cOp     := b_sqli_token_type_operator.           (* o *)
Notation cLogic  := b_sqli_token_type_logic_operator.     (* & *)
Notation cWord   := b_sqli_token_type_bare_word.          (* n *)
Notation cVar    := b_sqli_token_type_variable.           (* v *)
Notation cStr    := b_sqli_token_type_string.             (* s *)
Notation cFun    := b_sqli_token_type_function.           (* f *)
Notation cKey    := b_sqli_token_type_keyword.            (* k *)
Notation cUnion  := b_sqli_token_type_union.              (* U *)
Notation cExpr   := b_sqli_token_type_expression.         (* E *)
Notation cGroup  := b_sqli_token_type_group.              (* B *)
Notation cType   := b_sqli_token_type_sqltype.            (* t *)
Notation cTsql   := b_sqli_token_type_tsql.               (* T *)
Notation cColl   := b_sqli_token_type_collate.            (* A *)
Notation cComma  := b_sqli_token_type_comma.              (* , *)
Notation cSemi   := b_sqli_token_type_semi_colon.         (* ; *)
Notation cDot    := b_sqli_token_type_dot.                (* . *)
Notation cLP     := b_sqli_token_type_left_parenthesis.   (* ( *)
Notation cRP     := b_sqli_token_type_right_parenthesis.  (* ) *)
Notation cLB     := b_sqli_token_type_left_brace.         (* { *)
Notation cRB     := b_sqli_token_type_right_brace.        (* } *)
Notation cBsl    := b_sqli_token_type_backslash.          (* \ *)
Notation cCmt    := b_sqli_token_type_comment.            (* c *)
Notation cEvil   := b_sqli_token_type_evil.               (* X *)

(* ---------- patterns on one token ---------- *)

Inductive tpat :=
| PAny                                          (* any token *)
| PCls (cs : list byte)                         (* its class is one of cs *)
| PNot (cs : list byte)                         (* its class is none of cs *)
| PSpelt (cs : list byte) (lits : list bytes)   (* class in cs, value exactly one of lits *)
| PWord (cs : list byte) (lits : list bytes)    (* class in cs, value one of lits up to letter case *)
| PIfName                                       (* a function whose name begins with IF, any case *)
| PUnderscored (cs : list byte)                 (* class in cs, value contains '_' *)
| PEmpty (cs : list byte)                       (* class in cs, zero-length value *)
| POr (p q : tpat).

Definition in_class (t : token) (cs : list byte) : bool := existsb (beq (t_cat t)) cs.
Definition spelt (t : token) (lits : list bytes) : bool := existsb (bytes_eqb (t_val t)) lits.
Definition named (t : token) (lits : list bytes) : bool :=
  existsb (fun lit => to_upper_cmp lit (t_val t)) lits.
Definition either_case (u l b : byte) : bool := beq b u || beq b l.
Definition begins_if (v : bytes) : bool :=
  match v with
  | c0 :: c1 :: _ => either_case x49 x69 c0 && either_case x46 x66 c1      (* I i  F f *)
  | _ => false
  end.

Fixpoint tmatch (p : tpat) (t : token) : bool :=
  match p with
  | PAny => true
  | PCls cs => in_class t cs
  | PNot cs => negb (in_class t cs)
  | PSpelt cs lits => in_class t cs && spelt t lits
  | PWord cs lits => in_class t cs && named t lits
  | PIfName => in_class t [cFun] && begins_if (t_val t)
  | PUnderscored cs => in_class t cs && mem x5f (t_val t)
  | PEmpty cs => in_class t cs && (t_len t =? 0)
  | POr p q => tmatch p t || tmatch q t
  end.

(* unary operators: + - ! ~ !! NOT *)
Definition p_unary : tpat :=
  POr (PSpelt [cOp] [bs "+"; bs "-"; bs "!"; bs "~"; bs "!!"]) (PWord [cOp] [bs "NOT"]).
(* arithmetic operators: * / + - % *)
Definition p_arith : tpat := PSpelt [cOp] [bs "*"; bs "/"; bs "+"; bs "-"; bs "%"].

(* the patterns ps match the first tokens of ts, one by one *)
Fixpoint prefix_match (ps : list tpat) (ts : list token) : bool :=
  match ps, ts with
  | [], _ => true
  | p :: ps', t :: ts' => tmatch p t && prefix_match ps' ts'
  | _ :: _, [] => false
  end.

(* ---------- actions ---------- *)

(* slot operations; slot i is the token at left+i *)
Inductive op :=
| Pop (n : nat)                 (* forget the last n live tokens (pos -= n) *)
| Copy (dst from : nat)         (* slot dst := slot from *)
| Class (i : nat) (c : byte)    (* slot i gets the class c *)
| Phrase                        (* slot 0 := the phrase "slot0 slot1" of the keyword table;
                                   not applicable if there is no such phrase *)
| Folds (k : Z).                (* statistics: k tokens folded away *)

Inductive goto :=
| Restart     (* left := 0 *)
| Stay        (* left unchanged *)
| Back        (* left := left - 1 unless it is 0 *)
| Forward.    (* left := left + 1 *)

Inductive next_step :=
| Loop       (* `continue`: next iteration of the main loop *)
| Through     (* go on with the three-token rules *)
| Stop.       (* fold returns left + 2 tokens at once *)

Record rule := Rule { r_pats : list tpat; r_ops : list op; r_goto : goto; r_next : next_step }.

Notation "ps ~> ops // g // n" := (Rule ps ops g n) (at level 70, no associativity).

(* ---------- merging two words into a phrase ---------- *)

Definition phrase_left : list byte := [cKey; cWord; cOp; cUnion; cFun; cExpr; cTsql; cType].
Definition phrase_right : list byte := phrase_left ++ [cLogic].

Definition token_size : Z := 32.

(* "UNION" "ALL" -> "UNION ALL" with the class the table gives the phrase; the
   merged token keeps position, count and string marks of the first one.  The
   phrase must fit a token: the Go port allows 32 bytes (and clips to 31), C
   libinjection 31; no phrase of the table can come from 32 raw bytes, so the
   difference cannot be observed (Properties/C06fold.v, C06_phrase_room). *)
Definition phrase (a b : token) : option token :=
  if in_class a phrase_left && in_class b phrase_right && (t_len a + t_len b + 1 <=? token_size) then
    let v := t_val a ++ [x20] ++ t_val b in
    let c := search_keyword v in
    if beq c x00 then None
    else
      let n := if len v <? token_size then len v else token_size - 1 in
      Some (mkTok (t_pos a) n (t_count a) c (t_open a) (t_close a) (firstn (Z.to_nat n) v))
  else None.

(* ---------- the rule tables ---------- *)

(* Two-token rules, tried in this order on (slot 0, slot 1). *)
Definition rules2_table : list rule :=
  [ (* 'a' 'b'  ->  'a' : adjacent strings are one string *)
    [PCls [cStr]; PCls [cStr]]                    ~> [Pop 1; Folds 1]            // Stay    // Loop;
    (* ; ;  ->  ; : repeated semicolons *)
    [PCls [cSemi]; PCls [cSemi]]                  ~> [Pop 1; Folds 1]            // Stay    // Loop;
    (* = -  /  AND NOT  /  + int : an operator swallows a following unary operator or type *)
    [PCls [cOp; cLogic]; POr p_unary (PCls [cType])]
                                                  ~> [Pop 1; Folds 1]            // Restart // Loop;
    (* ( -  ->  ( : a unary operator after an opening parenthesis *)
    [PCls [cLP]; p_unary]                         ~> [Pop 1; Folds 1]            // Back    // Loop;
    (* UNION ALL, GROUP BY, IS NOT, ... : two words that form a phrase of the keyword table *)
    [PCls phrase_left; PCls phrase_right]         ~> [Phrase; Pop 1; Folds 1]    // Back    // Loop;
    (* ; IF ... : T-SQL control flow, not the function IF( *)
    [PCls [cSemi]; PIfName]                       ~> [Class 1 cTsql]             // Stay    // Loop;
    (* user( database( current_date( ... : names that are functions when called *)
    [PWord [cWord; cVar]
       [bs "USER_ID"; bs "USER_NAME"; bs "DATABASE"; bs "PASSWORD"; bs "USER"; bs "CURRENT_USER";
        bs "CURRENT_DATE"; bs "CURRENT_TIME"; bs "CURRENT_TIMESTAMP"; bs "LOCALTIME"; bs "LOCALTIMESTAMP"];
     PCls [cLP]]                                  ~> [Class 0 cFun]              // Stay    // Loop;
    (* x IN ( ... ) : IN / NOT IN is an operator before a parenthesis ... *)
    [PWord [cKey] [bs "IN"; bs "NOT IN"]; PCls [cLP]]
                                                  ~> [Class 0 cOp]               // Stay    // Loop;
    (* ... and a plain word anywhere else (IN BOOLEAN MODE) *)
    [PWord [cKey] [bs "IN"; bs "NOT IN"]; PAny]   ~> [Class 0 cWord]             // Stay    // Loop;
    (* LIKE ( ... ) : LIKE / NOT LIKE called as a function ... *)
    [PWord [cOp] [bs "LIKE"; bs "NOT LIKE"]; PCls [cLP]]
                                                  ~> [Class 0 cFun]              // Stay    // Through;
    (* ... and the ordinary operator otherwise: no other two-token rule is tried *)
    [PWord [cOp] [bs "LIKE"; bs "NOT LIKE"]; PAny]
                                                  ~> []                          // Stay    // Through;
    (* binary 'x' / int (  / date @v : a type name before a value disappears *)
    [PCls [cType]; PCls [cWord; cNum; cType; cLP; cFun; cVar; cStr]]
                                                  ~> [Copy 0 1; Pop 1; Folds 1]  // Restart // Loop;
    (* COLLATE latin1_bin : a collation name (a word with '_') is a type ... *)
    [PCls [cColl]; PUnderscored [cWord]]          ~> [Class 1 cType]             // Restart // Through;
    (* ... any other word after COLLATE is left alone *)
    [PCls [cColl]; PCls [cWord]]                  ~> []                          // Stay    // Through;
    (* \ * 1 : T-SQL reads a backslash before an arithmetic operator as the number 0 ... *)
    [PCls [cBsl]; p_arith]                        ~> [Class 0 cNum]              // Restart // Loop;
    (* ... and ignores it before anything else *)
    [PCls [cBsl]; PAny]                           ~> [Copy 0 1; Pop 1; Folds 1]  // Restart // Loop;
    (* ( (  ->  ( *)
    [PCls [cLP]; PCls [cLP]]                      ~> [Pop 1; Folds 1]            // Restart // Loop;
    (* ) )  ->  ) *)
    [PCls [cRP]; PCls [cRP]]                      ~> [Pop 1; Folds 1]            // Restart // Loop;
    (* { `` : MySQL's empty back-tick name in an ODBC brace: declared evil, fold ends *)
    [PCls [cLB]; PEmpty [cWord]]                  ~> [Class 1 cEvil]             // Stay    // Stop;
    (* { fn expr }  ->  expr : strip the ODBC escape prefix ... *)
    [PCls [cLB]; PCls [cWord]]                    ~> [Pop 2; Folds 2]            // Restart // Loop;
    (* ... and the closing brace *)
    [PAny; PCls [cRB]]                            ~> [Pop 1; Folds 1]            // Restart // Loop;
    (* nothing to do with two tokens: look at three *)
    [PAny; PAny]                                  ~> []                          // Stay    // Through ].

Definition value_classes : list byte := [cNum; cWord; cVar; cStr].

(* Three-token rules, tried in this order on (slot 0, slot 1, slot 2). *)
Definition rules3_table : list rule :=
  [ (* 1 + 1  ->  1 *)
    [PCls [cNum]; PCls [cOp]; PCls [cNum]]                    ~> [Pop 2]            // Restart // Loop;
    (* = x =  ->  = : operator, anything but '(', operator *)
    [PCls [cOp]; PNot [cLP]; PCls [cOp]]                      ~> [Pop 2]            // Restart // Loop;
    (* AND x AND  ->  AND *)
    [PCls [cLogic]; PAny; PCls [cLogic]]                      ~> [Pop 2]            // Restart // Loop;
    (* @v = 1  ->  @v *)
    [PCls [cVar]; PCls [cOp]; PCls [cVar; cNum; cWord]]       ~> [Pop 2]            // Restart // Loop;
    (* x = 1  ->  x *)
    [PCls [cWord; cNum]; PCls [cOp]; PCls [cNum; cWord]]      ~> [Pop 2]            // Restart // Loop;
    (* x :: int  ->  x : PostgreSQL cast *)
    [PCls value_classes; PSpelt [cOp] [bs "::"]; PCls [cType]]
                                                              ~> [Pop 2; Folds 2]   // Restart // Loop;
    (* 1 , 2  ->  1 : lists of values *)
    [PCls value_classes; PCls [cComma]; PCls value_classes]   ~> [Pop 2]            // Restart // Loop;
    (* SELECT + (  ->  SELECT ( : drop a unary operator before a parenthesis *)
    [PCls [cExpr; cGroup; cComma]; p_unary; PCls [cLP]]       ~> [Copy 1 2; Pop 1]  // Restart // Loop;
    (* SELECT - 1  ->  SELECT 1 : drop a unary operator before a value *)
    [PCls [cKey; cExpr; cGroup]; p_unary; PCls (value_classes ++ [cFun])]
                                                              ~> [Copy 1 2; Pop 1]  // Restart // Loop;
    (* 1 , - 1  ->  1 : a signed value after a comma goes with the comma *)
    [PCls [cComma]; p_unary; PCls value_classes]              ~> [Copy 1 2; Pop 3]  // Restart // Loop;
    (* , - sin(  ->  , sin( *)
    [PCls [cComma]; p_unary; PCls [cFun]]                     ~> [Copy 1 2; Pop 1]  // Restart // Loop;
    (* db . table  ->  db *)
    [PCls [cWord]; PCls [cDot]; PCls [cWord]]                 ~> [Pop 2]            // Restart // Loop;
    (* SELECT . x  ->  SELECT x *)
    [PCls [cExpr]; PCls [cDot]; PCls [cWord]]                 ~> [Copy 1 2; Pop 1]  // Restart // Loop;
    (* user ( x : USER() takes no argument, so this USER is a plain word *)
    [PWord [cFun] [bs "USER"]; PCls [cLP]; PNot [cRP]]        ~> [Class 0 cWord]    // Forward // Loop;
    (* no rule: the token at left is settled *)
    [PAny; PAny; PAny]                                        ~> []                 // Forward // Loop ].

(* When five tokens are held and they read like one of these, everything but
   the first token (and a sixth, if held) is dropped:
     1 + ( 1 )    x = ( y )    1 ) , ( 1    x ) = ( y *)
Definition five_table : list (list tpat) :=
  [ [PCls [cNum];  PCls [cOp; cComma]; PCls [cLP];    PCls [cNum];        PCls [cRP]];
    [PCls [cWord]; PCls [cOp];         PCls [cLP];    PCls [cWord; cNum]; PCls [cRP]];
    [PCls [cNum];  PCls [cRP];         PCls [cComma]; PCls [cLP];         PCls [cNum]];
    [PCls [cWord]; PCls [cRP];         PCls [cOp];    PCls [cLP];         PCls [cWord]] ].

(* tokens dropped before folding starts: comments, '(', type names, unary operators *)
Definition p_leading : tpat := POr (PCls [cCmt; cLP; cType]) p_unary.

Definition max_tokens : nat := 5.

(* ---------- list helpers ---------- *)

Fixpoint put {A} (i : nat) (x : A) (l : list A) : list A :=
  match l, i with
  | [], _ => []
  | _ :: l', O => x :: l'
  | y :: l', S i' => y :: put i' x l'
  end.

Definition pop {A} (n : nat) (l : list A) : list A := firstn (List.length l - n) l.

(* ---------- the engine over an abstract token source ---------- *)

Record source (Src : Type) := Source {
  next : Src -> option token * Src;   (* one more token, or the end of the input *)
  folded : Z -> Src -> Src            (* statistics: the folder removed k tokens *)
}.
Arguments next {Src}.
Arguments folded {Src}.

Section Folder.
  Context {Src : Type} (src : source Src).

  Record rstate := mkR {
    r_src : Src;
    r_win : list token;     (* the live tokens, oldest first; libinjection's pos is their number *)
    r_left : nat;           (* tokens before `left` are settled *)
    r_more : bool;          (* the source has not ended *)
    r_cmt : option token    (* the last comment, if no other token came after it *)
  }.

  (* fetch tokens until `want` of them are held from `left` on: comments are
     diverted to r_cmt, any other token takes the next slot and clears r_cmt *)
  Fixpoint refill (fuel : nat) (want : nat) (r : rstate) : rstate :=
    match fuel with
    | O => r
    | S fuel' =>
        let n := List.length (r_win r) in
        if r_more r && (n <=? max_tokens)%nat && (n - r_left r <? want)%nat then
          match next src (r_src r) with
          | (Some t, s) =>
              if in_class t [cCmt]
              then refill fuel' want (mkR s (r_win r) (r_left r) true (Some t))
              else refill fuel' want (mkR s (r_win r ++ [t]) (r_left r) true None)
          | (None, s) => mkR s (r_win r) (r_left r) false (r_cmt r)
          end
        else r
    end.

  Definition apply_op (left : nat) (o : op) (ws : list token * Src) : option (list token * Src) :=
    let '(w, s) := ws in
    match o with
    | Pop n => Some (pop n w, s)
    | Copy d f => option_map (fun t => (put (left + d) t w, s)) (nth_error w (left + f))
    | Class i c => option_map (fun t => (put (left + i) (set_cat t c) w, s)) (nth_error w (left + i))
    | Phrase =>
        match nth_error w left, nth_error w (left + 1) with
        | Some a, Some b => option_map (fun ab => (put left ab w, s)) (phrase a b)
        | _, _ => None
        end
    | Folds k => Some (w, folded src k s)
    end.

  Fixpoint apply_ops (left : nat) (ops : list op) (ws : list token * Src) : option (list token * Src) :=
    match ops with
    | [] => Some ws
    | o :: ops' =>
        match apply_op left o ws with
        | Some ws' => apply_ops left ops' ws'
        | None => None
        end
    end.

  Definition move (g : goto) (left : nat) : nat :=
    match g with Restart => O | Stay => left | Back => Nat.pred left | Forward => S left end.

  (* the first rule whose patterns match at `left` and whose action applies *)
  Fixpoint run_table (tbl : list rule) (r : rstate) : option (rstate * next_step) :=
    match tbl with
    | [] => None
    | ru :: tbl' =>
        if prefix_match (r_pats ru) (skipn (r_left r) (r_win r)) then
          match apply_ops (r_left r) (r_ops ru) (r_win r, r_src r) with
          | Some (w, s) => Some (mkR s w (move (r_goto ru) (r_left r)) (r_more r) (r_cmt r), r_next ru)
          | None => run_table tbl' r
          end
        else run_table tbl' r
    end.

  Inductive outcome :=
  | Go (r : rstate)                      (* next iteration *)
  | Done (toks : list token) (s : Src).    (* fold is over *)

  (* all held tokens are settled *)
  Definition settle (r : rstate) : rstate :=
    mkR (r_src r) (r_win r) (List.length (r_win r)) (r_more r) (r_cmt r).

  (* the end: a trailing comment is put back if fewer than five tokens are
     held; at most five tokens are reported *)
  Definition finish (r : rstate) : list token * Src :=
    let w := match r_cmt r with
             | Some c => if (List.length (r_win r) <? max_tokens)%nat then r_win r ++ [c] else r_win r
             | None => r_win r
             end in
    (firstn max_tokens w, r_src r).

  Definition squeeze5 (r : rstate) : rstate :=
    if existsb (fun ps => prefix_match ps (r_win r)) five_table then
      match r_win r with
      | t0 :: _ :: _ :: _ :: _ :: t5 :: _ => mkR (r_src r) [t0; t5] 0 (r_more r) (r_cmt r)
      | t0 :: _ => mkR (r_src r) [t0] 0 (r_more r) (r_cmt r)
      | [] => r
      end
    else r.

  (* the three-token phase: fetch a third token and try the three-token rules *)
  Definition three (fuel : nat) (r : rstate) : outcome :=
    let r := refill fuel 3 r in
    if (List.length (r_win r) - r_left r <? 3)%nat then Go (settle r)
    else match run_table rules3_table r with
         | Some (r', _) => Go r'
         | None => Go r
         end.

  (* what the main loop does after the two-token table was consulted *)
  Definition after_rules2 (fuel : nat) (r : rstate) (x : option (rstate * next_step)) : outcome :=
    match x with
    | Some (r', Loop) => Go r'
    | Some (r', Stop) => Done (firstn (r_left r' + 2) (r_win r')) (r_src r')
    | Some (r', Through) => three fuel r'
    | None => three fuel r
    end.

  (* with two tokens in hand: the two-token rules; otherwise everything is settled *)
  Definition with_two (fuel : nat) (r : rstate) : outcome :=
    if (List.length (r_win r) - r_left r <? 2)%nat then Go (settle r)
    else after_rules2 fuel r (run_table rules2_table r).

  (* the end of the input or five settled tokens end the loop; otherwise fetch up to two tokens *)
  Definition unless_done (fuel : nat) (r : rstate) : outcome :=
    if negb (r_more r) || (max_tokens <=? r_left r)%nat then
      let '(w, s) := finish r in Done w s
    else with_two fuel (refill fuel 2 r).

  (* one iteration of the main loop *)
  Definition iter (fuel : nat) (r : rstate) : outcome := unless_done fuel (squeeze5 r).

  (* at most k iterations *)
  Fixpoint run (k : nat) (fuel : nat) (r : rstate) : option (list token * Src) :=
    match k with
    | O => None
    | S k' =>
        match iter fuel r with
        | Go r' => run k' fuel r'
        | Done w s => Some (w, s)
        end
    end.

  (* leading tokens that never take part *)
  Fixpoint skip (fuel : nat) (s : Src) : option token * Src :=
    match fuel with
    | O => (None, s)
    | S fuel' =>
        match next src s with
        | (Some t, s') => if tmatch p_leading t then skip fuel' s' else (Some t, s')
        | (None, s') => (None, s')
        end
    end.

  (* fold: `bound` is any number exceeding by two the number of tokens the
     source can still deliver; it only serves as recursion fuel (the main loop
     makes fewer than 256 * (bound + 1) iterations) *)
  Definition ref_fold (bound : nat) (s0 : Src) : list token * Src :=
    match skip bound s0 with
    | (None, s) => ([], s)
    | (Some t, s) =>
        match run (256 * S bound) bound (mkR s [t] 0 true None) with
        | Some x => x
        | None => ([], s)
        end
    end.
End Folder.

(* ---------- fingerprint ---------- *)

(* PHP: an unterminated, empty back-tick name at the very end acts as a comment *)
Definition php_backtick (toks : list token) : list token :=
  let last := (List.length toks - 1)%nat in
  match nth_error toks last with
  | Some t =>
      if (2 <? List.length toks)%nat && in_class t [cWord] && beq (t_open t) b_byte_tick
         && (t_len t =? 0) && beq (t_close t) x00
      then put last (set_cat t cCmt) toks
      else toks
  | None => toks
  end.

(* the class string; any evil token collapses it to "X" *)
Definition ref_fingerprint (toks : list token) : bytes * list token :=
  let toks := php_backtick toks in
  if existsb (fun t => in_class t [cEvil]) toks then ([cEvil], toks)
  else (map t_cat toks, toks).

(* ---------- blacklist ---------- *)

(* "0" ++ upper-cased fingerprint is a key of class 'F' in the keyword table *)
Definition ref_blacklist (fp : bytes) : bool :=
  match fp with
  | [] => false
  | _ => beq (search_keyword (x30 :: map upper_ascii fp)) b_sqli_token_type_fingerprint
  end.

(* ---------- whitelist ---------- *)

(* first row of a decision table whose condition holds *)
Fixpoint decide (rows : list (bool * bool)) (default : bool) : bool :=
  match rows with
  | [] => default
  | (cond, verdict) :: rows' => if cond then verdict else decide rows' default
  end.

Definition first_byte_is (v : bytes) (c : byte) : bool :=
  match v with b :: _ => beq b c | [] => false end.

Fixpoint starts_with (l pat : bytes) {struct pat} : bool :=
  match pat, l with
  | [], _ => true
  | x :: pat', y :: l' => beq y x && starts_with l' pat'
  | _ :: _, [] => false
  end.

(* what follows the number in the raw input reads like SQL: white space (a control
   byte, a blank, or the no-break space 0xA0), a C comment or a dash comment *)
Definition sql_follows (rest : bytes) : bool :=
  match rest with
  | ch :: _ => (code ch <=? 32) || is_byte_white ch || starts_with rest (bs "/*") || starts_with rest (bs "--")
  | [] => false
  end.

(* Is a blacklisted fingerprint exempt (NOT an injection)?  `ntok` is the
   number of tokens the scanner delivered (before folding). *)
Definition exempt2 (inp : bytes) (ntok : Z) (t0 t1 : token) : bool :=
  let cmt := t_val t1 in
  decide
    [ (* 1 UNION: only if nothing was folded or commented away *)
      (in_class t1 [cUnion],                                                 ntok =? 2);
      (* x #...: too common in plain text *)
      (first_byte_is cmt x23,                                                true);
      (* word followed by a -- comment *)
      (in_class t0 [cWord] && in_class t1 [cCmt] && negb (first_byte_is cmt x2f),  true);
      (* number followed by a C comment: always an attack ("if '1c' ends with '/x' then it's SQLi") *)
      (in_class t0 [cNum] && in_class t1 [cCmt] && first_byte_is cmt x2f,          false);
      (* number followed by a dash comment: an attack if something was folded, or if
         the raw input goes on like SQL right after the number (1234-ABCDEFEhfhihwuefi-- is
         plain text, 1234-- is not) *)
      (in_class t0 [cNum] && in_class t1 [cCmt],
         negb ((2 <? ntok) || sql_follows (skipn (Z.to_nat (t_len t0)) inp)));
      (* anything else followed by a long dash comment: "-- text" in prose *)
      ((2 <? t_len t1) && first_byte_is cmt x2d,                             true) ]
    false.

Definition exempt3 (fp : bytes) (ntok : Z) (t0 t1 t2 : token) : bool :=
  let is_one_of (l : list string) := existsb (fun x => bytes_eqb fp (bs x)) l in
  decide
    [ (* ...foo' + 'bar... : an attack only when the strings are the two halves of a
         quoted context (no opening quote, no closing quote, matching inner quotes) *)
      (is_one_of ["sos"; "s&s"]%string,
         negb (beq (t_open t0) x00 && beq (t_close t2) x00 && beq (t_close t0) (t_open t2)));
      (* 'sexy and 17' with nothing folded *)
      (is_one_of ["s&n"; "n&1"; "1&1"; "1&v"; "1&s"]%string && (ntok =? 3),  true);
      (* x keyword y, unless the keyword is INTO OUTFILE / INTO DUMPFILE *)
      (in_class t1 [cKey],
         (t_len t1 <? 5) || negb (to_upper_cmp (bs "INTO") (firstn 4 (t_val t1)))) ]
    false.

Definition ref_whitelist (inp : bytes) (ntok : Z) (fp : bytes) (toks : list token) : bool :=
  let ends_in_comment :=
    match rev fp with c :: _ :: _ => beq c cCmt | _ => false end in
  if ends_in_comment && contains inp (bs "sp_password") then false     (* hides from the MS audit log *)
  else
    match fp, toks with
    | [_; _], [t0; t1] => exempt2 inp ntok t0 t1
    | [_; _; _], [t0; t1; t2] => exempt3 fp ntok t0 t1 t2
    | _, _ => false
    end.

(* ---------- one reading of the input ---------- *)

(* the model's tokenizer as a token source *)
Definition scan (s : sqlst) : option token * sqlst :=
  match tokenize s tok0 with
  | Ok (true, t, s') => (Some t, s')
  | Ok (false, _, s') => (None, s')
  | _ => (None, s)
  end.

Definition add_folds (k : Z) (s : sqlst) : sqlst :=
  mkSt (input s) (flags s) (pos s)
       (mkStats (n_ddx (st s)) (n_hash (st s)) (n_folds (st s) + k) (n_tokens (st s))).

Definition scanner : source sqlst := Source sqlst scan add_folds.

(* folded tokens of a reading under the context flags fl *)
Definition ref_fold_tokens (inp : bytes) (fl : Z) : list token * sqlst :=
  ref_fold scanner (2 + List.length inp) (sqli_init inp fl).

(* (fingerprint, blacklisted, verdict, statistics) *)
Definition ref_ctx (inp : bytes) (fl : Z) : bytes * bool * bool * stats :=
  let '(toks, s) := ref_fold_tokens inp fl in
  let '(fp, toks) := ref_fingerprint toks in
  let bl := ref_blacklist fp in
  (fp, bl, bl && negb (ref_whitelist inp (n_tokens (st s)) fp toks), st s).

(* ---------- the verdict: the cascade of readings ---------- *)

Definition ref_gate (x : stats) : bool := negb (n_ddx x =? 0) || negb (n_hash x =? 0).

(* quote context | comment dialect *)
Definition fl_none_ansi    : Z := Z.lor c_sqli_flag_quote_none   c_sqli_flag_sqlansi.
Definition fl_none_mysql   : Z := Z.lor c_sqli_flag_quote_none   c_sqli_flag_sqlmysql.
Definition fl_single_ansi  : Z := Z.lor c_sqli_flag_quote_single c_sqli_flag_sqlansi.
Definition fl_single_mysql : Z := Z.lor c_sqli_flag_quote_single c_sqli_flag_sqlmysql.
Definition fl_double_mysql : Z := Z.lor c_sqli_flag_quote_double c_sqli_flag_sqlmysql.

(* one reading; `otherwise` may look at its statistics *)
Definition ref_try (inp : bytes) (fl : Z) (otherwise : stats -> bool * bytes) : bool * bytes :=
  let '(fp, _, verdict, x) := ref_ctx inp fl in
  if (verdict : bool) then (true, fp) else otherwise x.

(* ANSI reading, then the MySQL reading if the ANSI one saw `#` or `--x` *)
Definition ref_both (inp : bytes) (ansi mysql : Z) (otherwise : bool * bytes) : bool * bytes :=
  ref_try inp ansi (fun x => if ref_gate x then ref_try inp mysql (fun _ => otherwise) else otherwise).

Definition ref_is_sqli (inp : bytes) : bool * bytes :=
  match inp with
  | [] => (false, [])
  | _ =>
      let as_double :=
        if mem b_byte_double inp then ref_try inp fl_double_mysql (fun _ => (false, [])) else (false, []) in
      let as_single :=
        if mem b_byte_single inp then ref_both inp fl_single_ansi fl_single_mysql as_double else as_double in
      ref_both inp fl_none_ansi fl_none_mysql as_single
  end.
