(* C04 (lifting) — every ASCII case assignment of every vector of the core is reported.
   By C11a: no vector of the core contains a `<![CDATA[` look-alike (vm_compute sweep over the
   9 450 vectors, GrammarLift.xss_core_no_cdata), so the verdict of every case variant equals
   the verdict of the vector, which is true by C04_core. *)
From Coq Require Import List ZArith String Bool.
From Coq.Strings Require Import Byte.
From LI Require Import Prelude Base Html5 Xss Spec.GrammarXss Proofs.GrammarLift.
From LI Require Spec.XCiSpec Properties.C04.
Import ListNotations.

Theorem C04_core_any_case :
  forall v s', In v xss_core -> XCiSpec.cv v s' -> is_xss s' = Ok true.
Proof. exact xss_core_case_lift. Qed.
Print Assumptions C04_core_any_case.

Example C04_any_case_nonvacuous :
  In (bs "x'><SCRIPT>") xss_core /\ XCiSpec.cv (bs "x'><SCRIPT>") (bs "X'><sCrIpT>") /\
  is_xss (bs "X'><sCrIpT>") = Ok true.
Proof.
  split; [|split].
  - apply (Properties.C04.mem_in). vm_compute. reflexivity.
  - repeat constructor.
  - vm_compute. reflexivity.
Qed.
