(* C19 -- HTML character references and dangerous URL schemes.

   Subject: the model (theories/Xss.v) of htmlDecodeByteAt, htmlEncodeStartsWith
   and isBlackURL of xss_helpers.go, and the attribute-value branch of the loop
   body of isXSS (`classify`).  The declarative reference the theorems are
   stated against is theories/Spec/DecodeSpec.v (decode_ref, Encodes, Spells);
   the proofs are in theories/Proofs/DecodeProofs.v.

   What each theorem says, in plain words.

   C19_decoder_total_bounded
       htmlDecodeByteAt never panics and needs no more fuel than the model gives
       it.  On the empty string it returns (-1, 0).  On a non-empty string s it
       returns (v, c) with 1 <= c <= len s: at least one byte is consumed per
       step and never more than there is (the model's checked indexing would
       have produced a Panic on any read outside s, so "returns Ok" also means
       "never reads past the value").  The value is within -1 .. 0x1000FF.
   C19_decoder_is_reference
       htmlDecodeByteAt s equals the structurally recursive reference decode_ref s
       on every input, value and consumed length alike.  This includes the
       generated table gsHexDecodeMap, which is shown to map exactly 0-9, A-F,
       a-f to their values and everything else to 256.
   C19_encodings_decode
       Every spelling w of a value v (Encodes: the literal byte; "&#" decimal
       digits; "&#x" / "&#X" hex digits of either case; any number of leading
       zeros; closed by ';', or by the end of the input, or by a following byte
       that is neither a digit of that base nor ';') decodes to exactly (v, len w),
       whatever follows.  Values up to 0x1000FF are covered, not only bytes.
   C19_overflow_dec, C19_overflow_hex
       A reference whose digits denote more than 0x1000FF (any length, any
       leading zeros, anything after it) decodes to ('&', 1): a literal
       ampersand, no wrap-around.
   C19_matcher_total
       htmlEncodeStartsWith and isBlackURL return on every input (no Panic, no
       OutOfFuel): the loop's fuel suffices because each step consumes >= 1 byte.
   C19_scheme_prefixes
       For every entry of the regenerated list url_schemes (DATA, VIEW-SOURCE,
       VBSCRIPT, JAVA): any junk prefix (bytes <= 0x20 or >= 0x7F), followed by
       any obfuscated spelling of the entry (Spells: each character in either
       case and in any encoding above; any number of encoded or literal NUL / LF
       values anywhere; any values <= 0x20 before the first character), followed
       by any rest compatible with the last encoding, makes isBlackURL true.
   C19_dangerous_schemes
       The same for the full names javascript: vbscript: data: view-source:
       (colon included) of the property.
   C19_plain_text
       Instance: the name written out literally in any mix of letter cases,
       after any junk, before any rest.
   C19_verdict
       When the current token is an attribute value, the attribute was
       classified as URL-bearing, and isBlackURL of the value is true, the loop
       body of isXSS returns "XSS found".

   What they do not say.
   - Which attribute names are URL-bearing (isBlackAttr) and that the tokenizer
     presents the value as one attr-value token are not covered here.
   - An unterminated hexadecimal reference directly followed by a hex-digit
     letter (e.g. "&#x6Aavascript:": the 'a' is read as a digit, value 0x6AA)
     is not a spelling of 'j' -- neither here nor in an HTML parser.
   - Only NUL and LF are ignored inside a name; TAB and CR inside a name are not
     (the property does not ask for them).
   - Decoded values 256 .. 0x1000FF are truncated to their low byte when the
     matcher collects them (byte(cb) in Go); this can only add matches.
   - Nothing is claimed about inputs that are NOT flagged (no completeness /
     false-positive statement). *)
From Coq Require Import List ZArith String Bool Lia.
From Coq.Strings Require Import Byte.
From LI Require Import Prelude Base Html5 Xss Spec.DecodeSpec Proofs.DecodeProofs.
From LIGen Require Import Consts.
Import ListNotations.
Local Open Scope Z_scope.

Theorem C19_decoder_total_bounded :
  forall s, exists v c,
    html_decode_byte_at s = Ok (v, c) /\
    (s = [] -> c = 0 /\ v = -1) /\
    (s <> [] -> 1 <= c <= len s) /\
    -1 <= v <= 1048831.
Proof. exact html_decode_byte_at_total. Qed.
Print Assumptions C19_decoder_total_bounded.

Theorem C19_decoder_is_reference :
  forall s, html_decode_byte_at s = Ok (decode_ref s).
Proof. exact html_decode_byte_at_ref. Qed.
Print Assumptions C19_decoder_is_reference.

Theorem C19_encodings_decode :
  forall w v rest, Encodes w v (hd_error rest) ->
    html_decode_byte_at (w ++ rest) = Ok (v, len w).
Proof. exact encodes_decode. Qed.
Print Assumptions C19_encodings_decode.

Theorem C19_overflow_dec :
  forall ds rest, overflows dec_digit 10 ds ->
    html_decode_byte_at (x26 :: x23 :: ds ++ rest) = Ok (38, 1).
Proof. exact decode_overflow_dec. Qed.
Print Assumptions C19_overflow_dec.

Theorem C19_overflow_hex :
  forall x ds rest, x = x78 \/ x = x58 -> overflows hex_digit 16 ds ->
    html_decode_byte_at (x26 :: x23 :: x :: ds ++ rest) = Ok (38, 1).
Proof. exact decode_overflow_hex. Qed.
Print Assumptions C19_overflow_hex.

Theorem C19_matcher_total :
  (forall a b, exists r, html_encode_starts_with a b = Ok r) /\
  (forall s, exists r, is_black_url s = Ok r).
Proof. split; [exact html_encode_starts_with_total|exact is_black_url_total]. Qed.
Print Assumptions C19_matcher_total.

Theorem C19_scheme_prefixes :
  forall scheme junk enc rest,
    In scheme url_schemes ->
    forallb is_junk junk = true ->
    Spells true scheme enc (hd_error rest) ->
    is_black_url (junk ++ enc ++ rest) = Ok true.
Proof. exact is_black_url_spells. Qed.
Print Assumptions C19_scheme_prefixes.

Theorem C19_dangerous_schemes :
  forall name junk enc rest,
    In name dangerous_schemes ->
    forallb is_junk junk = true ->
    Spells true name enc (hd_error rest) ->
    is_black_url (junk ++ enc ++ rest) = Ok true.
Proof. exact is_black_url_dangerous. Qed.
Print Assumptions C19_dangerous_schemes.

Theorem C19_plain_text :
  forall name junk text rest,
    In name dangerous_schemes ->
    forallb is_junk junk = true ->
    same_text_nocase text name ->
    is_black_url (junk ++ text ++ rest) = Ok true.
Proof. exact is_black_url_plain. Qed.
Print Assumptions C19_plain_text.

Theorem C19_verdict :
  forall h start v,
    tok_type h = c_html5_type_attr_value ->
    drop "isXSS:tokenStart" (hs h) (tok_off h) = Ok start ->
    take "isXSS:tokenStart[:tokenLen]" start (tok_len h) = Ok v ->
    is_black_url v = Ok true ->
    classify h c_attribute_type_attr_url = Ok (Some true, c_attribute_type_attr_url).
Proof. exact classify_url_value. Qed.
Print Assumptions C19_verdict.

(* ---------- the data the theorems quantify over ---------- *)

Example C19_url_schemes_now :
  url_schemes = [bs "DATA"; bs "VIEW-SOURCE"; bs "VBSCRIPT"; bs "JAVA"].
Proof. vm_compute. reflexivity. Qed.

(* ---------- non-vacuity ---------- *)

(* TAB, 0x7F, then j and a as references, an encoded LF inside the name *)
Example C19_example_obfuscated :
  is_black_url (x09 :: x7f :: bs "&#x6A;&#97;v&#x0A;ascript:alert(1)") = Ok true.
Proof. vm_compute. reflexivity. Qed.

Example C19_example_more :
  is_black_url (bs "&#0000118&#x42script:msgbox(1)") = Ok true /\
  is_black_url (bs " &#9;&#X44;&#x41&#x00;t&#0000097;:text/html,x") = Ok true /\
  is_black_url (bs "vIeW&#45SoUrCe:x") = Ok true /\
  is_black_url (bs "&#1048832;javascript:x") = Ok true /\
  is_black_url (bs "https://example.com/") = Ok false /\
  is_black_url (bs "&#x6Aavascript:x") = Ok false.
Proof. vm_compute. repeat split. Qed.

(* the hypotheses of C19_dangerous_schemes are inhabited by a spelling that uses
   every rule: a leading encoded TAB, an unterminated decimal reference, literal
   letters of both cases, an encoded NUL, an unterminated &#X reference *)
Ltac lit b :=
  apply (Sp_char _ [b] (code b));
  [ apply Enc_literal; discriminate | first [left; reflexivity | right; reflexivity] | ].

Example C19_spelling_inhabited :
  Spells true (bs "JAVASCRIPT:") (bs "&#9;&#106aV&#x0;&#X41script:") (hd_error (bs "alert(1)")).
Proof.
  apply (Sp_lead (bs "&#9;") 9);
    [ apply (Enc_dec_semi (bs "9")); [split; [discriminate|reflexivity]|unfold max_ref; lia] | lia | ].
  apply (Sp_char true (bs "&#106") 106);
    [ apply (Enc_dec (bs "106"));
        [split; [discriminate|reflexivity]|unfold max_ref; lia|split; [reflexivity|discriminate]]
    | right; reflexivity | ].
  lit x61. lit x56.
  apply (Sp_skip false (bs "&#x0;") 0);
    [ apply (Enc_hex_semi x78 (bs "0")); [left; reflexivity|split; [discriminate|reflexivity]|unfold max_ref; lia]
    | left; reflexivity | ].
  apply (Sp_char false (bs "&#X41") 65);
    [ apply (Enc_hex x58 (bs "41"));
        [right; reflexivity|split; [discriminate|reflexivity]|unfold max_ref; lia|split; [reflexivity|discriminate]]
    | left; reflexivity | ].
  lit x73. lit x63. lit x72. lit x69. lit x70. lit x74. lit x3a.
  apply Sp_done.
Qed.

Example C19_spelling_flagged :
  is_black_url (bs "  " ++ bs "&#9;&#106aV&#x0;&#X41script:" ++ bs "alert(1)") = Ok true.
Proof.
  apply (C19_dangerous_schemes (bs "JAVASCRIPT:")).
  - left. reflexivity.
  - reflexivity.
  - exact C19_spelling_inhabited.
Qed.

(* the overflow clause on concrete inputs *)
Example C19_example_overflow :
  html_decode_byte_at (bs "&#x1000FF;") = Ok (1048831, 10) /\
  html_decode_byte_at (bs "&#x100100;") = Ok (38, 1) /\
  html_decode_byte_at (bs "&#0001048831") = Ok (1048831, 12) /\
  html_decode_byte_at (bs "&#1048832;") = Ok (38, 1) /\
  html_decode_byte_at (bs "&#4294967402;") = Ok (38, 1) /\
  html_decode_byte_at (bs "&#x10000006A;") = Ok (38, 1) /\
  html_decode_byte_at (bs "&#99999999999999999999999999999999999999999999999999999999999999999999;") = Ok (38, 1).
Proof. vm_compute. repeat split. Qed.

Example C19_overflow_inhabited : overflows dec_digit 10 (bs "004294967402").
Proof. exists 4294967402. split; [split; [discriminate|reflexivity]|reflexivity]. Qed.
