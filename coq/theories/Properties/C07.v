(* C07: "For every input and each of the five start contexts, the sequence of
   HTML tokens (type, offset, length) and the XSS verdict equal those of an
   independently written executable specification of libinjection's HTML5
   tokenizer state machine and of its tag / attribute / URL / comment
   classification rules evaluated over the project's own black lists."

   WHAT REF IS.  Spec/RefHtml.v defines
     ref_tokens  ctx s : list (type, offset, length)     the token stream
     ref_verdict ctx s : bool                            the verdict in one context
     ref_is_xss  s     : bool                            the disjunction over the five contexts
   as total functions.  The tokenizer is a list-directed step function over
   ten modes: a step looks at the bytes still to be read (`rest`), and says
   which token comes next (kind, where it starts in rest, its length), how
   many bytes are used up and in which mode to go on; the driver only adds up
   the bytes consumed so far to report absolute offsets.  The verdict is a left
   fold over the token list with a one-cell state (the type of the attribute
   name seen last).

   IN WHICH SENSE IT IS INDEPENDENT.  The model (Html5.v, Xss.v) is a
   transliteration of the Go code: a record with absolute positions into the
   shared input, checked index primitives (get/drop/take/slice) in an error
   monad, a call-depth budget, fuel for every loop, and 22 state functions
   that call each other inside one next().  Ref shares none of this:
   - style: no positions, no error monad, no call depth, no loops with fuel
     (the only fuel is the step counter |s|+2 of the driver, proved
     sufficient: ref_fuel_enough); names and values are cut off with `break`
     (longest prefix free of stop bytes), the inside of a tag is scanned by a
     structural recursion over the remaining bytes;
   - oracles: every delimited construct (<!-- -->, <![CDATA[ ]]>, <% %>, <! >,
     <? >, </ >, <!doctype >, quoted values) is described by "the token ends
     at the FIRST occurrence of the terminator" through the declarative
     functions first_match / first_byte / comment_end / md_classify of
     Spec/StringSpec.v and Spec/H5TermSpec.v, whose reading as "first position
     where ... occurs" is proved there; character references are read with the
     declarative decoder decode_ref of Spec/DecodeSpec.v;
   - granularity: Ref describes the NET effect of a next() call ("at `<!--`:
     one comment token whose text is ..."); the states that only run in the
     middle of a call (tag-open, end-tag-open, markup-declaration-open, the
     comment / cdata / doctype states, tag-name, attribute-name, unquoted
     value) do not exist in Ref;
   - data: the lists black_tags, black_events, blacks, url_schemes and the
     numbering of token and attribute types are the project's own (data, not
     code), as the property demands.
   Ref was written from the description of the state machine, then compared
   with the model by vm_compute on all 69 905 strings of length <= 4 over the
   alphabet  < > / = (the three quote bytes) ! - % ? [ ] a SPACE NUL  and on 70 643 concatenations
   of up to three markup fragments, in all five contexts, tokens and verdicts:
   no disagreement was found and Ref was not changed after the first run.

   PORT-SPECIFIC RULES THAT REF ADOPTS AS GIVEN (no property pins them; they
   are marked PORT in Spec/RefHtml.v):
   - the URL-scheme test is "contains" (strings.Contains), not "starts with";
   - a decoded character reference above 255 is reduced modulo 256;
   - XMLNS / XLINK (attributes) and SVT / XSL (tags) are exact matches;
   - an event handler is "ON" + an event of the list, for folded names of 5
     bytes or more; a miss falls through to the list `blacks`;
   - tag names of fewer than 3 raw bytes are never black (the test precedes
     NUL removal); attribute names whose folded form (after NUL removal and
     upper-casing) has fewer than 2 bytes have no type;
   - case folding is Go's strings.ToUpper as described by Base.go_upper_view;
   - the flag "an end tag is pending" is cleared only by the '>' that is a
     token of its own and by "</name>"; it survives "/>" and a '>' found while
     looking for an attribute, exactly as in the C original.

   HOW THE GO CODE IS TIED IN.  Go = M is established by testing: the
   token-stream / verdict correspondence check (bin/check C07; tools/harness
   against the extracted model through verif_hooks.go) compares, for every
   generated input and every context, the (type, offset, length) stream and the
   per-context verdict of the Go code with those of the model M.  M = Ref is
   proved here, for every input.  Hence Go = Ref up to the tested tie. *)
From Coq Require Import List ZArith String Bool.
From Coq.Strings Require Import Byte.
From LI Require Import Prelude Base Html5 Xss Spec.RefHtml Proofs.RefHtmlProofs.
Import ListNotations.
Local Open Scope Z_scope.

(* ---------- the theorems ---------- *)

(* tokens: for every input and each of the five start contexts *)
Theorem C07_tokens : forall s fl, 0 <= fl <= 4 -> h5_tokens s fl = Ok (ref_tokens fl s).
Proof. exact h5_tokens_ref. Qed.

(* verdict per context *)
Theorem C07_verdict : forall s fl, 0 <= fl <= 4 -> xss_ctx s fl = Ok (ref_verdict fl s).
Proof. exact xss_ctx_ref. Qed.

(* IsXSS *)
Theorem C07_is_xss : forall s,
  is_xss s = Ok (existsb (fun fl => ref_verdict fl s) [0; 1; 2; 3; 4]).
Proof. exact is_xss_ref. Qed.

(* one step of the model is one step of Ref (the simulation behind the three) *)
Theorem C07_step : forall s h m c l cl,
  H5Spec.h5_ok h -> R s h m c l cl -> Wp.wp (h5_next h) (matches s c (ref_step m l cl)).
Proof. exact step_sim. Qed.

(* the step budget built into Ref is enough *)
Theorem C07_ref_fuel : forall s fl fuel, 0 <= fl <= 4 -> (S (S (List.length s)) <= fuel)%nat ->
  ref_run fuel (start_mode fl) 0 s false = ref_tokens fl s.
Proof. exact ref_fuel_enough. Qed.

Print Assumptions C07_tokens.
Print Assumptions C07_verdict.
Print Assumptions C07_is_xss.
Print Assumptions C07_step.
Print Assumptions C07_ref_fuel.

(* ---------- examples ---------- *)

Fixpoint toks_eqb (a b : list (Z * Z * Z)) : bool :=
  match a, b with
  | [], [] => true
  | (a1, a2, a3) :: a', (b1, b2, b3) :: b' => (a1 =? b1) && (a2 =? b2) && (a3 =? b3) && toks_eqb a' b'
  | _, _ => false
  end.

(* model and Ref agree on s in context ctx: token stream and verdict *)
Definition agree (ctx : Z) (s : bytes) : bool :=
  match h5_tokens s ctx, xss_ctx s ctx with
  | Ok l, Ok b => toks_eqb l (ref_tokens ctx s) && Bool.eqb b (ref_verdict ctx s)
  | _, _ => false
  end.

Definition agree_all (s : bytes) : bool := forallb (fun ctx => agree ctx s) [0; 1; 2; 3; 4].

Local Open Scope string_scope.

Definition samples : list bytes :=
  [ bs "<a href='javascript:alert(1)' onclick=x>text</a>";
    bs "<!-- a -- b --!> c -!> d --> e";
    bs "<![CDATA[ x ]] ]]> y <![cdata[ z";
    bs "<!DocType html><?xml version=1><?import x><% a % > b %> c";
    bs "</a/><b></3 x>< ></></>";
    bs "' onmouseover=alert(1) x='";
    bs """><svg/onload=alert(1)>";
    bs "` style=x:expression(1) `";
    bs "x=y z = 'q' w=""r""/ / v=`t`//>rest<";
    bs "<a xlink:href=x xmlns=y filter=z data=&#x6A;&#97;vascript:>";
    bs "<img src=&#1;&#x0A;Java&#0;script:x formaction=' data:,x'>";
    bs "<!--[if gte IE 4]><entity x><!-->";
    [x3c; x61; x00; x62; x20; x6f; x00; x6e; x63; x6c; x69; x63; x6b; x3d; x31; x3e];   (* <a NUL b  o NUL nclick=1> *)
    [x3c; x21; x2d; x2d; x78; x2d; x00; x00; x2d; x3e; x79];                            (* <!--x- NUL NUL ->y *)
    [x3c; xc5; xbf; x76; x74; x3e; x3c; x73; x63; x72; xc4; xb1; x70; x74; x3e];        (* <U+017F vt><scrU+0131pt> *)
    [] ].

Example C07_samples_agree : forallb agree_all samples = true.
Proof. vm_compute. reflexivity. Qed.

(* what Ref computes, spelled out (types: 0 text, 1 tag name, 2 '>', 3 "/>",
   5 end tag, 6 attribute name, 7 attribute value, 8 comment, 9 doctype) *)
Example C07_ref_tokens_data :
  ref_tokens 0 (bs "<a href='javascript:x' onclick=1>x</a><!-- c -->")
  = [(1, 1, 1); (6, 3, 4); (7, 9, 12); (6, 23, 7); (7, 31, 1); (2, 32, 1); (0, 33, 1); (5, 36, 1); (8, 42, 3)].
Proof. vm_compute. reflexivity. Qed.

Example C07_ref_tokens_quoted_context :
  ref_tokens 3 (bs """><svg/onload=alert(1)>")
  = [(7, 0, 0); (2, 1, 1); (1, 3, 3); (6, 7, 6); (7, 14, 8); (2, 22, 1)].
Proof. vm_compute. reflexivity. Qed.

Example C07_ref_tokens_unquoted_context :
  ref_tokens 1 (bs "x onerror=a()>")
  = [(6, 0, 1); (6, 2, 7); (7, 10, 3); (2, 13, 1)].
Proof. vm_compute. reflexivity. Qed.

(* two candidate terminators: the first one ends the construct *)
Example C07_ref_first_terminator :
  ref_tokens 0 (bs "<% a %> b %> <![CDATA[ c ]]> d ]]>")
  = [(8, 2, 3); (0, 7, 6); (0, 22, 3); (0, 28, 6)].
Proof. vm_compute. reflexivity. Qed.

Example C07_ref_verdicts :
  map (fun s => ref_verdict 0 (bs s))
      [ "<a href='javascript:x'>"; "<a href=' &#x6A;ava'>"; "<a href=x>"; "<?xml x>"; "<?xml>";
        "<!-- ` -->"; "<a style=x>"; "<a x=y>"; "<script>"; "<b>"; "<!doctype x>"; "<a onfoo=1>";
        "<a onload=1>"; "<!--[if x]>"; "<a filter='xmlns'>" ]
  = [ true; true; false; true; false; true; true; false; true; false; true; false; true; true; true ].
Proof. vm_compute. reflexivity. Qed.

Example C07_ref_contexts :
  map (fun ctx => ref_verdict ctx (bs "' onclick=x y='")) [0; 1; 2; 3; 4]
  = [false; true; true; false; false] /\
  ref_is_xss (bs "' onclick=x y='") = true /\
  is_xss (bs "' onclick=x y='") = Ok true.
Proof. vm_compute. repeat split. Qed.

(* bounded-exhaustive cross-check of the executable pair (implied by the
   theorems; kept as a regression check of Ref's executability): all strings
   of length <= 3 over an HTML-significant alphabet, all five contexts *)
Definition alphabet : bytes :=
  [x3c; x3e; x2f; x3d; x27; x22; x60; x21; x2d; x25; x3f; x5b; x5d; x61; x20; x00].
Definition extend (ws : list bytes) : list bytes :=
  flat_map (fun w => map (fun b => b :: w) alphabet) ws.
Definition upto3 : list bytes :=
  let l1 := extend [[]] in let l2 := extend l1 in let l3 := extend l2 in [] :: l1 ++ l2 ++ l3.

Example C07_exhaustive_upto3 : forallb agree_all upto3 = true.
Proof. vm_compute. reflexivity. Qed.
