(* C04 (lifting, second part) -- the clauses "NUL bytes inside names, any quoting
   of the value, decimal / hex character references, leading control bytes and
   embedded NUL / LF inside the URL scheme", composed with the vector grammar.

   C04.v proves that the 9 450 canonical vectors of the grammar xss_core are
   reported; C04b.v lifts that to every ASCII case assignment.  This file lifts
   the remaining infinite dimensions.  All statements are about the Coq model
   of IsXSS (is_xss); `apre_of ci` / `pre_of ci` are the attribute / element
   break-out prefixes of context ci of the grammar
     apre_of:  0 [<a ]   1 [x ]   2 [x' ]   3 [xD ]   4 [x` ]
     pre_of :  0 []      1 [x>]   2 [x'>]   3 [xD>]   4 [x`>]
   (the bytes between the brackets; D stands for the double-quote byte) and
   every theorem holds for all five contexts (ci < 5).

   VOCABULARY (Proofs/XLiftSpec.v)
   nul_inside n n'    n' is n with NUL bytes inserted strictly inside: any
                      number of insertions, each between two bytes of the name
                      built so far (never before the first byte, never after
                      the last one).
   name_variant n n'  n' is n with the case of any ASCII letters changed and
                      NUL bytes inserted strictly inside.
   value_kept q ..    the value bytes cannot end the value token early (below).

   A.  URL SCHEMES THROUGH ANY ENCODING, IN CONTEXT
   C04_url_any_encoding.  Take
     - a break-out context ci < 5,
     - an attribute name A of the regenerated list `blacks` whose type is 2
       (URL-bearing: HREF, SRC, ACTION, ...), written as any variant A'
       (letter case changed, NULs strictly inside),
     - a quoting q of the grammar: none, single quote, double quote,
     - junk: any bytes <= 0x20 or >= 0x7F,
     - one of the names javascript: vbscript: data: view-source: in any
       obfuscated spelling enc (DecodeSpec.Spells: every character in either
       case, literally or as &#DDD / &#DDD; / &#xHH / &#XHH; with any number of
       leading zeros; any number of literal or encoded NUL / LF values
       anywhere; any values <= 0x20 in front of the first character), the
       spelling being read in front of what actually follows it in the input,
     - any tail of the value and any rest of the input,
     with the one restriction value_kept:
       quoted with c:  the byte c occurs nowhere in junk ++ enc ++ tail
                       (otherwise the value would end there);
       unquoted:       no byte of junk ++ enc is white space (TAB LF VT FF CR
                       SPACE) or '>' (these end an unquoted value).  Nothing is
                       assumed about tail ++ rest: the value ends at their
                       first white-space byte or '>' or at the end of the
                       input.  Leading NUL bytes in junk are allowed (the
                       tokenizer skips them in front of the value).
     Then  apre_of ci ++ A' ++ "=" ++ q ++ junk ++ enc ++ tail ++ q ++ rest
     is reported.
   C04_url_quoted is the same for a value quoted with any of the three quote
     bytes (back quote included), with any white-space / NUL bytes between
     the equals sign and the opening quote; C04_url_quoted_unterminated: the closing quote
     is missing and the value runs to the end of the input; C04_url_unquoted
     is the unquoted case alone.
   C04_url_production_subsumed: every vector of the grammar production
     p_url_attr (P5) is an instance of C04_url_any_encoding (no computation
     over the vector list is used for it).

   B.  NUL BYTES (AND LETTER CASE) INSIDE NAMES, FOR THE GRAMMAR
   C04_black_tags_nul / C04_events_nul: every vector of the black-tag
     production (pre <TAG term) and of the event production (apre ONEVENT
     quoting) stays reported when NUL bytes are inserted strictly inside the
     tag name / the attribute name ONEVENT, any number of them.
   C04_black_tags_variant / C04_events_variant: the same for name_variant
     (case and NULs together).
   C04_nul_one_more: the form of C11b: from any variant, one more NUL after
     the first k bytes (0 < k < length) is again a variant.
   C04_tag_variant: <TAG' followed by nothing or by anything that begins with
     white space, '/' or '>' (not only the four terminators of the grammar),
     TAG being in black_tags or SVT / XSL.
   C04_named_vectors_variant: all vectors of the grammar that contain a name
     -- everything except the ten markup vectors per context: tags, SVT/XSL,
     events, <a SEP ONCLICK=x, the attribute list (URL / black / style /
     indirect attributes), XMLNS / XLINK -- stay reported when their element
     name resp. attribute name is replaced by any variant.
     C04_named_vectors_cover says that these and the markup vectors are the
     whole grammar.

   WHAT IS NOT COVERED
   - NULs in front of the first or behind the last byte of a name (a leading
     NUL is skipped as a blank in front of an attribute name and is accepted as
     a first byte of a tag name; a trailing NUL is part of the name: both are
     harmless for the tables, but they are not claimed here).
   - The value of the indirect attributes (ONCLICK / XMLNS behind attributeName=)
     and the markup vectors are not varied.
   - In A the spelling must be a DecodeSpec.Spells spelling; see C19 for what
     that excludes (e.g. an unterminated hex reference followed by a hex letter).

   PROOF ROUTE.  is_xss = Ref (C07: is_xss_ref).  Proofs/XLiftRef.v evaluates
   Ref symbolically: `fires n m l cl attr` = "standing in mode m in front of
   the bytes l, Ref reports within n steps"; one lemma per construct (name in
   front of '=' or white space; quoted / unterminated / unquoted value; tag
   name behind '<'; the five prefixes).  Proofs/XLiftNames.v: a variant is
   still read as one name and is classified like the original (the tables see
   names through upper-casing and NUL removal); the facts about the regenerated
   lists are vm_compute sweeps.  Proofs/XLiftUrl.v: A, using C19
   (is_black_url_dangerous) for the value.  Proofs/XLiftNul.v,
   Proofs/XLiftAttrs.v: B. *)
From Coq Require Import List ZArith String Bool Lia.
From Coq.Strings Require Import Byte.
From LI Require Import Prelude Base Html5 Xss Spec.XCiSpec Spec.DecodeSpec Spec.RefHtml Spec.GrammarXss
  Proofs.DecodeProofs Proofs.XLiftSpec Proofs.XLiftRef Proofs.XLiftNames Proofs.XLiftUrl Proofs.XLiftNul
  Proofs.XLiftAttrs.
From LI Require Properties.C04 Proofs.BaseFacts.
Import ListNotations.
Local Open Scope Z_scope.

(* ================================================================== *)
(* A. URL schemes through any encoding, in context                     *)
(* ================================================================== *)

Theorem C04_url_any_encoding :
  forall ci A A' q junk name enc tail rest,
    (ci < 5)%nat -> In (A, 2) blacks -> name_variant A A' -> In q quotes3 ->
    forallb is_junk junk = true -> In name dangerous_schemes ->
    Spells true name enc (hd_error (tail ++ q ++ rest)) ->
    value_kept q junk enc tail ->
    is_xss (apre_of ci ++ A' ++ bs "=" ++ q ++ junk ++ enc ++ tail ++ q ++ rest) = Ok true.
Proof. exact url_any_quoting. Qed.
Print Assumptions C04_url_any_encoding.

(* quoted with a single, double or back quote; blanks (white space / NUL) allowed behind the equals sign *)
Theorem C04_url_quoted :
  forall ci A A' bl q junk name enc tail rest,
    (ci < 5)%nat -> In (A, 2) blacks -> name_variant A A' ->
    forallb is_blank bl = true -> is_quote_byte q = true ->
    forallb is_junk junk = true -> In name dangerous_schemes ->
    Spells true name enc (hd_error tail) ->
    forallb (fun b => negb (beq q b)) (junk ++ enc ++ tail) = true ->
    is_xss (apre_of ci ++ A' ++ x3d :: bl ++ q :: (junk ++ enc ++ tail) ++ q :: rest) = Ok true.
Proof. exact url_quoted. Qed.
Print Assumptions C04_url_quoted.

Theorem C04_url_quoted_unterminated :
  forall ci A A' bl q junk name enc tail,
    (ci < 5)%nat -> In (A, 2) blacks -> name_variant A A' ->
    forallb is_blank bl = true -> is_quote_byte q = true ->
    forallb is_junk junk = true -> In name dangerous_schemes ->
    Spells true name enc (hd_error tail) ->
    forallb (fun b => negb (beq q b)) (junk ++ enc ++ tail) = true ->
    is_xss (apre_of ci ++ A' ++ x3d :: bl ++ q :: junk ++ enc ++ tail) = Ok true.
Proof. exact url_quoted_open. Qed.
Print Assumptions C04_url_quoted_unterminated.

Theorem C04_url_unquoted :
  forall ci A A' junk name enc rest,
    (ci < 5)%nat -> In (A, 2) blacks -> name_variant A A' ->
    forallb is_junk junk = true -> In name dangerous_schemes ->
    Spells true name enc (hd_error rest) ->
    forallb (fun b => negb (ends_unquoted b)) (junk ++ enc) = true ->
    is_xss (apre_of ci ++ A' ++ x3d :: junk ++ enc ++ rest) = Ok true.
Proof. exact url_unquoted. Qed.
Print Assumptions C04_url_unquoted.

(* a spelling read in front of some byte is also a spelling at the end of the value *)
Theorem C04_spelling_at_end :
  forall first name enc next, Spells first name enc next -> Spells first name enc None.
Proof. exact spells_none. Qed.

(* the production P5 of the grammar is the instance: name itself, no junk, the
   scheme written out literally in upper case, tail x, nothing behind *)
Lemma same_text_refl s : same_text_nocase s s.
Proof. induction s as [|b s IH]; constructor; [left; reflexivity|exact IH]. Qed.

Theorem C04_url_production_subsumed :
  forall ci A v, (ci < 5)%nat -> In (A, 2) blacks -> In v (p_url_attr (apre_of ci) A) ->
    is_xss v = Ok true.
Proof.
  intros ci A v Hci HA Hv. unfold p_url_attr in Hv. apply in_flat_map in Hv.
  destruct Hv as (sch & Hs & Hv). apply in_map_iff in Hv. destruct Hv as (q & <- & Hq).
  change schemes with dangerous_schemes in Hs.
  pose proof (C04_url_any_encoding ci A A q [] sch sch (bs "x") [] Hci HA (variant_refl A) Hq eq_refl Hs) as H.
  cbn [app] in H. rewrite app_nil_r in H. apply H.
  - apply spells_plain; [apply same_text_refl|apply dangerous_plain_ok; exact Hs].
  - cbn in Hq, Hs. destruct Hq as [<-|[<-|[<-|[]]]]; destruct Hs as [<-|[<-|[<-|[<-|[]]]]];
      cbn [value_kept]; first [vm_compute; reflexivity | vm_compute; intuition discriminate].
Qed.
Print Assumptions C04_url_production_subsumed.

(* ================================================================== *)
(* B. NUL bytes and letter case inside names, for the grammar          *)
(* ================================================================== *)

Theorem C04_black_tags_variant :
  forall ci v, (ci < 5)%nat -> In v (p_black_tags (pre_of ci)) ->
    exists tag term, v = pre_of ci ++ bs "<" ++ tag ++ term /\ In tag black_tags /\ In term tag_terms /\
      forall tag', name_variant tag tag' -> is_xss (pre_of ci ++ bs "<" ++ tag' ++ term) = Ok true.
Proof. exact p_black_tags_variant. Qed.
Print Assumptions C04_black_tags_variant.

Theorem C04_events_variant :
  forall ci v, (ci < 5)%nat -> In v (p_events (apre_of ci)) ->
    exists ev q, v = apre_of ci ++ bs "ON" ++ ev ++ q /\ In (ev, 1) black_events /\ In q event_quotings /\
      forall N', name_variant (bs "ON" ++ ev) N' -> is_xss (apre_of ci ++ N' ++ q) = Ok true.
Proof. exact p_events_variant. Qed.
Print Assumptions C04_events_variant.

(* NUL insertion alone *)
Theorem C04_black_tags_nul :
  forall ci v, (ci < 5)%nat -> In v (p_black_tags (pre_of ci)) ->
    exists tag term, v = pre_of ci ++ bs "<" ++ tag ++ term /\
      forall tag', nul_inside tag tag' -> is_xss (pre_of ci ++ bs "<" ++ tag' ++ term) = Ok true.
Proof.
  intros ci v Hci Hv. destruct (p_black_tags_variant ci v Hci Hv) as (tag & term & E & _ & _ & H).
  exists tag, term. split; [exact E|]. intros tag' Hn. exact (H tag' (variant_nul tag tag' Hn)).
Qed.
Print Assumptions C04_black_tags_nul.

Theorem C04_events_nul :
  forall ci v, (ci < 5)%nat -> In v (p_events (apre_of ci)) ->
    exists ev q, v = apre_of ci ++ bs "ON" ++ ev ++ q /\
      forall N', nul_inside (bs "ON" ++ ev) N' -> is_xss (apre_of ci ++ N' ++ q) = Ok true.
Proof.
  intros ci v Hci Hv. destruct (p_events_variant ci v Hci Hv) as (ev & q & E & _ & _ & H).
  exists ev, q. split; [exact E|]. intros N' Hn. exact (H N' (variant_nul _ N' Hn)).
Qed.
Print Assumptions C04_events_nul.

(* the single step of C11b: one more NUL after the first k bytes *)
Theorem C04_nul_one_more :
  forall n n' k, name_variant n n' -> 0 < k < len n' ->
    name_variant n (firstn (Z.to_nat k) n' ++ [x00] ++ skipn (Z.to_nat k) n').
Proof.
  intros n n' k (m & C & I) K. exists m. split; [exact C|]. apply nul_inside_at; assumption.
Qed.

(* a variant of a blacklisted element name in front of any terminator *)
Theorem C04_tag_variant :
  forall ci T T' rest, (ci < 5)%nat ->
    In T (black_tags ++ [bs "SVT"; bs "XSL"]) -> name_variant T T' ->
    match rest with [] => True | b :: _ => ends_tag_name b = true end ->
    is_xss (pre_of ci ++ x3c :: T' ++ rest) = Ok true.
Proof. exact tag_variant. Qed.
Print Assumptions C04_tag_variant.

(* every vector of the grammar that contains a name *)
Theorem C04_named_vectors_variant :
  forall ci v, (ci < 5)%nat -> In v (named_vectors ci) ->
    exists pre name post, v = pre ++ name ++ post /\
      forall name', name_variant name name' -> is_xss (pre ++ name' ++ post) = Ok true.
Proof. exact named_vectors_variant. Qed.
Print Assumptions C04_named_vectors_variant.

Theorem C04_named_vectors_cover :
  forall ci v, In v (xss_core_ctx ci) <-> In v (named_vectors ci) \/ In v (p_markup (pre_of ci)).
Proof.
  intros ci v. unfold xss_core_ctx, named_vectors, ctx_rest. rewrite !in_app_iff. tauto.
Qed.

(* ================================================================== *)
(* Examples                                                            *)
(* ================================================================== *)

(* membership in a list of (name, type) pairs by computation *)
Lemma mem_in_pair k (v : Z) l :
  existsb (fun e : bytes * Z => bytes_eqb (fst e) k && (snd e =? v)) l = true -> In (k, v) l.
Proof.
  intro H. apply existsb_exists in H. destruct H as [[k' v'] [Hin He]]. cbn [fst snd] in He.
  apply andb_true_iff in He. destruct He as [E1 E2].
  apply Proofs.BaseFacts.bytes_eqb_eq in E1. apply Z.eqb_eq in E2. subst. exact Hin.
Qed.

(* by computation *)
Example C04c_examples_computed :
  is_xss (bs "x' HrEf='&#9;&#x6A;ava&#0;script:alert(1)'") = Ok true /\
  is_xss (bs "<sc" ++ [x00] ++ bs "ri" ++ [x00] ++ bs "pt>") = Ok true /\
  is_xss (bs "x"" s" ++ [x00] ++ bs "RC=" ++ [x00; x01; xff] ++ bs "&#0118;bs&#x0a;cript&#58alert(1) y") = Ok true /\
  is_xss (bs "x` oN" ++ [x00] ++ bs "eRr" ++ [x00; x00] ++ bs "or = x") = Ok true /\
  is_xss (bs "<a href= `" ++ [x09] ++ bs "DATA&#x3a;text/html,x") = Ok true /\
  (* the restrictions are needed: a quote inside the value, white space inside an unquoted value *)
  is_xss (bs "<a href='vbs'cript:x'") = Ok false /\
  is_xss (bs "<a href= vbs cript:x") = Ok false /\
  is_xss (bs "<a href=vbs>cript:x") = Ok false.
Proof. vm_compute. repeat split; reflexivity. Qed.

(* the first example as an instance of C04_url_any_encoding *)
Ltac lit b :=
  apply (Sp_char _ [b] (code b));
  [ apply Enc_literal; discriminate | first [left; reflexivity | right; reflexivity] | ].

Example C04c_spelling :
  Spells true (bs "JAVASCRIPT:") (bs "&#9;&#x6A;ava&#0;script:") (hd_error (bs "alert(1)" ++ sq ++ [])).
Proof.
  apply (Sp_lead (bs "&#9;") 9);
    [ apply (Enc_dec_semi (bs "9")); [split; [discriminate|reflexivity]|unfold max_ref; lia] | lia | ].
  apply (Sp_char true (bs "&#x6A;") 106);
    [ apply (Enc_hex_semi x78 (bs "6A")); [left; reflexivity|split; [discriminate|reflexivity]|unfold max_ref; lia]
    | right; reflexivity | ].
  lit x61. lit x76. lit x61.
  apply (Sp_skip false (bs "&#0;") 0);
    [ apply (Enc_dec_semi (bs "0")); [split; [discriminate|reflexivity]|unfold max_ref; lia]
    | left; reflexivity | ].
  lit x73. lit x63. lit x72. lit x69. lit x70. lit x74. lit x3a.
  apply Sp_done.
Qed.

Example C04c_instance_url :
  is_xss (bs "x' HrEf='&#9;&#x6A;ava&#0;script:alert(1)'") = Ok true.
Proof.
  apply (C04_url_any_encoding 2 (bs "HREF") (bs "HrEf") sq [] (bs "JAVASCRIPT:")
           (bs "&#9;&#x6A;ava&#0;script:") (bs "alert(1)") []).
  - lia.
  - apply mem_in_pair. vm_compute. reflexivity.
  - apply variant_cv. repeat constructor.
  - right. left. reflexivity.
  - reflexivity.
  - left. reflexivity.
  - exact C04c_spelling.
  - vm_compute. intuition discriminate.
Qed.

(* <sc NUL ri NUL pt> as an instance of C04_tag_variant (case and NULs) *)
Example C04c_variant_script :
  name_variant (bs "SCRIPT") (bs "sc" ++ [x00] ++ bs "ri" ++ [x00] ++ bs "pt").
Proof.
  exists (bs "script"). split; [repeat constructor|].
  apply (NI_ins (bs "script") (bs "sc" ++ [x00] ++ bs "ri") (bs "pt")); [|discriminate|discriminate].
  apply (NI_ins (bs "script") (bs "sc") (bs "ript")); [apply NI_same|discriminate|discriminate].
Qed.

Example C04c_instance_tag :
  is_xss (bs "<sc" ++ [x00] ++ bs "ri" ++ [x00] ++ bs "pt>") = Ok true.
Proof.
  apply (C04_tag_variant 0 (bs "SCRIPT") (bs "sc" ++ [x00] ++ bs "ri" ++ [x00] ++ bs "pt") (bs ">")).
  - lia.
  - apply Properties.C04.mem_in. vm_compute. reflexivity.
  - exact C04c_variant_script.
  - reflexivity.
Qed.

(* the hypotheses are inhabited for every context and the lists are not empty *)
Example C04c_nonvacuous :
  In (bs "HREF", 2) blacks /\ In (bs "SRC", 2) blacks /\
  In (bs "x'><SCRIPT>") (p_black_tags (pre_of 2)) /\
  In (bs "x"" ONERROR=x") (p_events (apre_of 3)) /\
  (9000 <? Z.of_nat (List.length (flat_map named_vectors (seq 0 5)))) = true.
Proof. repeat split; try (apply mem_in_pair); try (apply Properties.C04.mem_in); vm_compute; reflexivity. Qed.
