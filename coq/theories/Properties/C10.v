(* C10 — ASCII case-insensitivity of the SQLi detector (partial).

   Property: "Changing the case of any ASCII letters of an input changes
   neither the IsSQLi verdict nor the fingerprint, except where SQL itself is
   case-sensitive: the MySQL \N literal, PostgreSQL dollar-quote tags, Oracle
   q-quote delimiter characters, and the literal marker sp_password."

   cv s s'     : s and s' have the same length and are bytewise equal up to
                 ASCII case (upper_ascii b = upper_ascii b').
   plain s     : s contains no backslash byte (0x5c), no dollar byte (0x24) and
                 no occurrence of  q'L / Q'L  with L an ASCII letter
                 (this covers nq'L as well: the same three bytes).
   plain2 s    : weaker (plain s = true -> plain2 s = true): no backslash that
                 is followed by N or n, no dollar that is followed by an ASCII
                 letter, no  q'L / Q'L  with L an ASCII letter.

   Proved here, for the Coq model (SqliLex.v / SqliFold.v), by a lock-step
   (relational) argument — Proofs/CiBase.v, CiLex.v, CiLex2.v, CiFold.v,
   CiCheck.v:

     C10_tokens_partial, C10_tokens_partial2 :
        for every parsing mode (any flags), the two token scans are related
        token by token: same offsets, lengths, classes, quote marks, values
        equal up to case, same scanner statistics; or both fail alike.
     C10_partial, C10_partial2 :
        cv s s' -> plain s (resp. plain2 s) -> s and s' agree on whether they
        contain the literal marker "sp_password" -> is_sqli s' = is_sqli s
        (verdict, fingerprint, and failure mode).
     C10_plain_symmetric / C10_plain_suffix (and the plain2 versions):
        the exclusion does not depend on which of the two inputs it is stated
        for, and is closed under taking suffixes.

   Left to the correspondence check (differential testing against the Go
   code): the clause of the property for inputs that contain a backslash
   followed by N/n, a dollar sign followed by a letter, or a letter used as
   q-quote delimiter (q'L).  For such inputs the property claims nothing at
   the excluded spot itself (\N vs \n, $tag$ vs $TAG$, q'x..x' vs q'x..X':
   the examples at the end show that the verdict does change there), but it
   still claims insensitivity for case changes elsewhere in the same input;
   that residual claim is not covered by the theorems below.  Everything
   else (including the sp_password clause, which is the third hypothesis) is
   covered by C10_partial2. *)
From Coq Require Import List ZArith String Bool.
From Coq.Strings Require Import Byte.
From LI Require Import Prelude Base SqliLex SqliFold Spec.CiSpec Proofs.CiBase Proofs.CiLex Proofs.CiLex2
  Proofs.CiFold Proofs.CiCheck.
Import ListNotations.
Local Open Scope Z_scope.

Theorem C10_tokens_partial : forall s s' fl,
  cv s s' -> plain s = true -> rel_res scan_ci (tokens s fl) (tokens s' fl).
Proof.
  intros s s' fl H P. apply (tokens_ci (fun i _ => plain i = true) parser_ok_plain); assumption.
Qed.
Print Assumptions C10_tokens_partial.

(* the main theorem: verdict and fingerprint (and even the failure mode, were
   there one) of IsSQLi are the same for s and s' *)
Theorem C10_partial : forall s s',
  cv s s' -> plain s = true ->
  contains s (bs "sp_password") = contains s' (bs "sp_password") ->
  is_sqli s' = is_sqli s.
Proof.
  intros s s' H P SP.
  apply (is_sqli_ci (fun i i' => plain i = true /\ sp_same i i')).
  - apply (parser_ok_weaken (fun i _ => plain i = true)); [intros i i' (A & _); exact A|exact parser_ok_plain].
  - intros i i' (_ & B). exact B.
  - exact H.
  - split; [exact P|exact SP].
Qed.
Print Assumptions C10_partial.

(* plain is symmetric between the two inputs and closed under suffixes *)
Theorem C10_plain_symmetric : forall s s', cv s s' -> plain s' = plain s.
Proof. exact plain_cv. Qed.
Theorem C10_plain_suffix : forall n s, plain s = true -> plain (skipn n s) = true.
Proof. exact plain_skipn. Qed.

(* ---------- the weaker exclusion ---------- *)

Theorem C10_plain_implies_plain2 : forall s, plain s = true -> plain2 s = true.
Proof. exact plain_plain2. Qed.

Theorem C10_tokens_partial2 : forall s s' fl,
  cv s s' -> plain2 s = true -> rel_res scan_ci (tokens s fl) (tokens s' fl).
Proof.
  intros s s' fl H P. apply (tokens_ci (fun i _ => plain2 i = true) parser_ok_plain2); assumption.
Qed.
Print Assumptions C10_tokens_partial2.

Theorem C10_partial2 : forall s s',
  cv s s' -> plain2 s = true ->
  contains s (bs "sp_password") = contains s' (bs "sp_password") ->
  is_sqli s' = is_sqli s.
Proof.
  intros s s' H P SP.
  apply (is_sqli_ci (fun i i' => plain2 i = true /\ sp_same i i')).
  - apply (parser_ok_weaken (fun i _ => plain2 i = true)); [intros i i' (A & _); exact A|exact parser_ok_plain2].
  - intros i i' (_ & B). exact B.
  - exact H.
  - split; [exact P|exact SP].
Qed.
Print Assumptions C10_partial2.

Theorem C10_plain2_symmetric : forall s s', cv s s' -> plain2 s' = plain2 s.
Proof. exact plain2_cv. Qed.
Theorem C10_plain2_suffix : forall n s, plain2 s = true -> plain2 (skipn n s) = true.
Proof. exact plain2_skipn. Qed.

(* ---------- examples ---------- *)

Example C10_ex_cv : cv (bs "1 UnIoN sElEcT 1") (bs "1 UNION SELECT 1").
Proof. repeat constructor. Qed.

Example C10_ex_mixed :
  is_sqli (bs "1 UnIoN sElEcT 1") = Ok (true, bs "1UE1") /\
  is_sqli (bs "1 UNION SELECT 1") = Ok (true, bs "1UE1") /\
  is_sqli (bs "1 union select 1") = Ok (true, bs "1UE1").
Proof. vm_compute. repeat split. Qed.

(* C10_partial applied to a concrete pair *)
Example C10_ex_applied : is_sqli (bs "1 UNION SELECT 1") = is_sqli (bs "1 UnIoN sElEcT 1").
Proof. apply C10_partial; [exact C10_ex_cv|reflexivity|reflexivity]. Qed.

Definition bsl : bytes := [x5c].

(* an input with an escaped quote and a money literal: excluded by plain, covered by plain2 *)
Example C10_ex_plain2 :
  let a := bs "x" ++ bsl ++ bs "' UnIoN SeLeCt $1 -- " in
  let b := bs "X" ++ bsl ++ bs "' union select $1 -- " in
  cv a b /\ plain a = false /\ plain2 a = true /\ is_sqli b = is_sqli a.
Proof.
  cbv zeta.
  assert (H : cv (bs "x" ++ bsl ++ bs "' UnIoN SeLeCt $1 -- ") (bs "X" ++ bsl ++ bs "' union select $1 -- "))
    by (repeat constructor).
  split; [exact H|]. split; [reflexivity|]. split; [reflexivity|].
  apply C10_partial2; [exact H|reflexivity|reflexivity].
Qed.

(* the hypotheses are needed: pairs that differ only inside an excluded neighbourhood *)

(* MySQL \N is a number, \n is a backslash token *)
Example C10_ex_backslash_N :
  cv (bs "1 or " ++ bsl ++ bs "N=1") (bs "1 or " ++ bsl ++ bs "n=1") /\
  plain (bs "1 or " ++ bsl ++ bs "N=1") = false /\
  is_sqli (bs "1 or " ++ bsl ++ bs "N=1") = Ok (true, bs "1&1") /\
  is_sqli (bs "1 or " ++ bsl ++ bs "n=1") = Ok (false, []).
Proof. split; [repeat constructor|]. vm_compute. repeat split. Qed.

(* PostgreSQL dollar-quote tags are compared exactly *)
Example C10_ex_dollar_tag :
  cv (bs "$ab$ union select 1 $ab$ or 1=1") (bs "$ab$ union select 1 $AB$ or 1=1") /\
  plain (bs "$ab$ union select 1 $ab$ or 1=1") = false /\
  is_sqli (bs "$ab$ union select 1 $ab$ or 1=1") = Ok (true, bs "s&1") /\
  is_sqli (bs "$ab$ union select 1 $AB$ or 1=1") = Ok (false, []).
Proof. split; [repeat constructor|]. vm_compute. repeat split. Qed.

(* a letter as Oracle q-quote delimiter is compared exactly *)
Example C10_ex_qquote :
  cv (bs "q'x union select 1 x' or 1=1") (bs "q'x union select 1 X' or 1=1") /\
  plain (bs "q'x union select 1 x' or 1=1") = false /\
  is_sqli (bs "q'x union select 1 x' or 1=1") = Ok (true, bs "s&1") /\
  is_sqli (bs "q'x union select 1 X' or 1=1") = Ok (false, []).
Proof. split; [repeat constructor|]. vm_compute. repeat split. Qed.

(* the marker sp_password is searched exactly: the third hypothesis is needed *)
Example C10_ex_sp_password :
  cv (bs "foo -- sp_password") (bs "foo -- SP_password") /\
  plain (bs "foo -- sp_password") = true /\
  contains (bs "foo -- sp_password") (bs "sp_password") <> contains (bs "foo -- SP_password") (bs "sp_password") /\
  is_sqli (bs "foo -- sp_password") = Ok (true, bs "nc") /\
  is_sqli (bs "foo -- SP_password") = Ok (false, []).
Proof. split; [repeat constructor|]. vm_compute. repeat split. discriminate. Qed.
