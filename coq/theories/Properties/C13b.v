(* C13 (b), (c) — XSS contexts mean what they say (C13a, IsXSS = OR of the five
   context verdicts, is in C13.v).

   What is covered, in plain words (everything about the Coq model of isXSS,
   theories/Html5.v + theories/Xss.v; xss_ctx s fl is isXSS(s, fl); flag 0 =
   element content / data state, 1 = unquoted attribute value, 2 / 3 / 4 =
   single- / double- / back-quoted attribute value):

   (c) C13c_prefix: for every text t that contains no '<' byte and every input
       s, analysing t ++ s as element content gives exactly the same result
       (the same Ok verdict) as analysing s as element content.  No side
       condition on s; t may be empty and may look like markup (a onclick=1 ,
       script>, quotes, -->) as long as it has no '<'.

   (b) C13b_embed: for every input s,
         context 1 on s  =  context 0 on  <a s          (s right after <a and a space)
         context 2 on s  =  context 0 on  <a b='s
         context 3 on s  =  context 0 on  <a b=Ds      (D = the double quote byte 0x22)
         context 4 on s  =  context 0 on  <a b=`s
       again as equalities of results, for all s (empty s, s starting with the
       context's own quote, with '>' or '/', containing <script>, ... - no
       side condition).  For the quoted contexts the boundary works out because
       the model's quoted-value states skip an opening quote only at a position
       > 0: inside <a b='... the tokenizer reaches the quote at position 5 and
       skips it, at offset 0 of s nothing is skipped, so both runs start the
       value at the first byte of s.
       C13b_quoted_as_unquoted is the intermediate fact used for 2-4:
       context 2/3/4 on s = context 1 on  b='s / b=Ds / b=`s.

   Both statements were first tested by vm_compute (90 hand-picked inputs x 24
   prefixes, and exhaustively for all 41371 strings of length <= 4 over the
   alphabet < > / ' D ` = space a ! - % ? NUL); no counter-example exists, the
   statements are proved as given, without a _partial variant.

   Proofs: Proofs/ShiftBase.v (shift invariance of one tokenizer step,
   call_sim; of classify; of the xss loop, xss_loop_shift),
   Proofs/ShiftPrefix.v (c), Proofs/ShiftEmbed.v (b); totality from
   Proofs/XssTotal.v turns the simulations into equalities. *)
From Coq Require Import List ZArith String Bool.
From Coq.Strings Require Import Byte.
From LI Require Import Prelude Base Html5 Xss Proofs.ShiftBase Proofs.ShiftPrefix Proofs.ShiftEmbed.
From LIGen Require Import Consts.
Import ListNotations.
Local Open Scope Z_scope.

Theorem C13c_prefix : forall t s, (forall b, In b t -> b <> x3c) ->
  xss_ctx (t ++ s) 0 = xss_ctx s 0.
Proof. exact xss_data_prefix. Qed.

Theorem C13b_embed : forall s,
  xss_ctx s 1 = xss_ctx (bs "<a " ++ s) 0 /\
  xss_ctx s 2 = xss_ctx (bs "<a b='" ++ s) 0 /\
  xss_ctx s 3 = xss_ctx (bs "<a b=""" ++ s) 0 /\
  xss_ctx s 4 = xss_ctx (bs "<a b=`" ++ s) 0.
Proof. exact xss_embed_all. Qed.

Theorem C13b_quoted_as_unquoted : forall s,
  xss_ctx s 2 = xss_ctx (bs "b='" ++ s) 1 /\
  xss_ctx s 3 = xss_ctx (bs "b=""" ++ s) 1 /\
  xss_ctx s 4 = xss_ctx (bs "b=`" ++ s) 1.
Proof. exact xss_quoted_as_unquoted. Qed.

(* the flags are the model's constants *)
Example C13b_flags :
  c_html5_flags_data_state = 0 /\ c_html5_flags_value_no_quote = 1 /\
  c_html5_flags_value_single_quote = 2 /\ c_html5_flags_value_double_quote = 3 /\
  c_html5_flags_value_back_quote = 4.
Proof. vm_compute. repeat split. Qed.

Print Assumptions C13c_prefix.
Print Assumptions C13b_embed.
Print Assumptions C13b_quoted_as_unquoted.

(* non-vacuity: both verdicts occur on both sides *)
Example C13c_ex1 :
  xss_ctx (bs "a onclick=1 " ++ bs "<script>") 0 = Ok true /\ xss_ctx (bs "<script>") 0 = Ok true.
Proof. vm_compute. split; reflexivity. Qed.
Example C13c_ex2 :
  xss_ctx (bs "script>alert(1)" ++ bs "<b>") 0 = Ok false /\ xss_ctx (bs "<b>") 0 = Ok false.
Proof. vm_compute. split; reflexivity. Qed.
(* the condition on t is needed: a '<' in t can change the verdict *)
Example C13c_needs_no_lt :
  xss_ctx (bs "<" ++ bs "script>") 0 = Ok true /\ xss_ctx (bs "script>") 0 = Ok false.
Proof. vm_compute. split; reflexivity. Qed.

Example C13b_ex1 :
  xss_ctx (bs "x onclick=1") 1 = Ok true /\ xss_ctx (bs "<a " ++ bs "x onclick=1") 0 = Ok true /\
  xss_ctx (bs "x onclick=1") 2 = Ok false /\ xss_ctx (bs "<a b='" ++ bs "x onclick=1") 0 = Ok false.
Proof. vm_compute. repeat split. Qed.
(* s starting with the context's own quote: the quote closes the (empty) value *)
Example C13b_ex2 :
  xss_ctx (bs "' onclick=1") 2 = Ok true /\ xss_ctx (bs "<a b='" ++ bs "' onclick=1") 0 = Ok true /\
  xss_ctx (bs """ onclick=1") 3 = Ok true /\ xss_ctx (bs "<a b=""" ++ bs """ onclick=1") 0 = Ok true /\
  xss_ctx (bs "` onclick=1") 4 = Ok true /\ xss_ctx (bs "<a b=`" ++ bs "` onclick=1") 0 = Ok true /\
  xss_ctx (bs "' onclick=1") 3 = Ok false /\ xss_ctx (bs "<a b=""" ++ bs "' onclick=1") 0 = Ok false.
Proof. vm_compute. repeat split. Qed.
Example C13b_ex3 :
  xss_ctx (bs "><script>") 1 = Ok true /\ xss_ctx (bs "<a " ++ bs "><script>") 0 = Ok true /\
  xss_ctx (bs "><script>") 2 = Ok false /\ xss_ctx (bs "<a b='" ++ bs "><script>") 0 = Ok false /\
  xss_ctx [] 2 = Ok false /\ xss_ctx (bs "<a b='" ++ []) 0 = Ok false.
Proof. vm_compute. repeat split. Qed.
