(* C09 (SQL tokenizer part) — linear running time of the scan behind IsSQLi.

   Property: "The running time of IsSQLi and IsXSS grows at most linearly with
   the length of the input."  This file covers the SQL tokenizer: everything in
   SqliLex.v (sqli_token.go, sqli_helpers.go, sqli_parse.go, parseQStringCore,
   tokenize), i.e. one complete scan of the input in one parsing mode.

   What is proved.  Running time is not a notion of the Coq model, so the part
   that is logic is decided with a cost semantics:

     - Cost/CostSqliLex.v contains, for every function f of SqliLex.v that does
       work, a twin c_f that mirrors f line by line (same control flow, same
       panic sites) and returns, together with f's result, the number of
       elementary steps it took;
     - the erasure theorems (the C09_erase theorems) say that forgetting the step count
       gives back exactly the model's result (value or failure), so a bound on
       the count is a bound on the work of the model itself;
     - the bounds say the count of a whole scan is at most 201 * len + 11.

   The cost unit (Cost/CostBase.v).  One step is charged
     - per byte examined by a scan: strings.IndexByte (the bytes up to and
       including the hit, or all of them plus one), strings.Index / Contains (the
       bytes up to the first match, or all of them, plus the needle plus one),
       strLenSpn / strLenCSpn and the digit loops of parseNumber (the run plus the
       byte that stops it), the backward backslash count of isBackslashEscaped
       (the backslashes plus the byte that stops the count);
     - len key + 1 per keyword look-up (strings.ToUpper and hashing the key) and
       per upper-casing comparison;
     - per checked index or slice expression s[i], s[i:], s[:j], s[i:j] (Go
       slices share their backing array), one per assign (which copies at most
       32 bytes), one for isDoubleDelimiterEscaped;
     - per call of a lexer (tick at entry, also of a lexer called by another
       lexer) and per iteration of every loop: the loop of parseStringCore, the
       keyword-split loop of parseWord, the `for s.pos < s.length` loop of
       tokenize, the token loop of the scan.

   How the bound is obtained.
     - per lexer call (C09_lexer_bound): a call that starts at offset p and
       returns the next offset np costs at most
            36 * (np - p) + 36 * probe + 80,
       where probe = 0 for every lexer except the two that may look ahead
       without consuming: parseMoney (`$` + a run of letters with no closing
       `$`: the run is scanned, one byte is consumed) and parseXString /
       parseBString (x' / b' + a run of digits with no closing quote: the run is
       scanned, the call falls back to parseWord).  probe_at bounds that run:
       the letters after a `$` at p plus the hex digits after a quote at p+1.
       The 36 comes from parseWord: the first strLenCSpn looks at up to 32 bytes
       and the split loop upper-cases / hashes the prefix before every '.' or
       '`' (at most 34 steps per byte before the split point).
     - parseStringCore (C09_string_core_bound) is linear: 7 steps per byte of the
       literal plus 10, for every delimiter other than the backslash.  Each
       candidate closing quote triggers a backward count of backslashes; the
       count stops at the previous candidate (a delimiter byte, not a backslash)
       or at the start of the literal, so the counted runs are disjoint.
       For the delimiter '\' itself the loop IS quadratic (every backslash is a
       candidate and the count runs back to the start: see string_core_bs_delim
       below) but no caller passes it: the delimiters are the single and the
       double quote (dispatch, parseVar, parseUString, flag2delimiter) and the
       back-tick (parseTick); the proofs
       carry that side condition (c_parse_string_cost, flag2delimiter_not_bs).
     - the whole scan (C09_tokens_linear): consumed bytes add up to len; the
       look-aheads are amortised with the potential phi(l) = sum over the
       suffixes of l of probe_at: a call at p may spend probe_at(p) and every
       call moves past p, so a position pays at most once; the letter runs
       behind distinct `$` are disjoint and so are the hex runs behind distinct
       quotes, hence phi(input) <= 2 * len (phi_bound).  Per token
       36 + 80 + 2 = 118 per consumed byte, + 11 per token for the two outer
       loops, + 36 * 2 for the potential:  (118 + 11 + 72) * len + 11.

   What is not covered.
     - the relation between one cost unit and machine time (that each counted
       primitive takes time bounded by a constant times its charge in the Go
       runtime: strings.IndexByte, strings.Index, map look-up with a key of at
       most 32 bytes, strings.ToUpper on at most 32 bytes);
     - the folding pass and the fingerprint / whitelist checks of IsSQLi
       and the number of scans IsSQLi runs (one per parsing mode it tries, a
       fixed small number): they are treated in Cost/CostFold*.v;
     - the bound is on the instrumented twin; its tie to the Go source is the
       same model-vs-source validation as for every other property. *)
From Coq Require Import List ZArith String Bool Lia.
From Coq.Strings Require Import Byte.
From LI Require Import Prelude Base SqliLex Cost.CostBase Cost.CostSqliLex Cost.CostSqliLexProofs
  Proofs.LexBase Proofs.LexSpec.
From LIGen Require Import Tables Dispatch Consts.
Import ListNotations.
Local Open Scope Z_scope.

(* ---------- erasure ---------- *)

Theorem C09_erase_tokens inp fl : erase (c_tokens inp fl) = tokens inp fl.
Proof. exact (erase_c_tokens inp fl). Qed.

Theorem C09_erase_tokenize s cur : erase (c_tokenize s cur) = tokenize s cur.
Proof. exact (erase_c_tokenize s cur). Qed.

Theorem C09_erase_run_parser id s t : erase (c_run_parser id s t) = run_parser id s t.
Proof. exact (erase_c_run_parser id s t). Qed.

Theorem C09_erase_string_core t s length p offset delim :
  erase (c_parse_string_core t s length p offset delim) = parse_string_core t s length p offset delim.
Proof. exact (erase_c_parse_string_core t s length p offset delim). Qed.

(* ---------- per-call bounds ---------- *)

Theorem C09_lexer_bound s t ch s' t' np c :
  lex_pre s -> nth_error (input s) (Z.to_nat (pos s)) = Some ch ->
  c_run_parser (dispatch ch) s t = Ok ((s', t', np), c) ->
  pos s < np <= slen s /\
  c <= 36 * (np - pos s) + 36 * probe_at (skipn (Z.to_nat (pos s)) (input s)) + 80.
Proof. exact (c_run_parser_bound s t ch s' t' np c). Qed.

Theorem C09_string_core_bound t0 s p offset delim t np c :
  delim <> x5c -> 0 <= p -> 0 <= offset ->
  c_parse_string_core t0 s (len s) p offset delim = Ok ((t, np), c) ->
  p + offset <= np /\ c <= 7 * (np - (p + offset)) + 10.
Proof. exact (c_parse_string_core_bound t0 s p offset delim t np c). Qed.

(* the amortisation potential is at most twice the length *)
Theorem C09_potential_bound l : 0 <= phi l <= 2 * len l.
Proof. split; [exact (phi_nonneg l)|exact (phi_bound l)]. Qed.

(* ---------- the whole scan ---------- *)

Theorem C09_tokens_linear inp fl : cost_of (c_tokens inp fl) <= 201 * len inp + 11.
Proof. exact (c_tokens_linear inp fl). Qed.

(* the scan returns, the instrumented scan returns the same value, and the
   steps it counts are at most 201 * len + 11 *)
Theorem C09_tokens_total_linear inp fl :
  exists l s c, tokens inp fl = Ok (l, s) /\ c_tokens inp fl = Ok ((l, s), c) /\
                c <= 201 * len inp + 11.
Proof. exact (c_tokens_total_linear inp fl). Qed.

Print Assumptions C09_erase_tokens.
Print Assumptions C09_lexer_bound.
Print Assumptions C09_string_core_bound.
Print Assumptions C09_tokens_linear.
Print Assumptions C09_tokens_total_linear.

(* ---------- actual costs on inputs of increasing length ---------- *)

Fixpoint rep (n : nat) (l : bytes) : bytes :=
  match n with O => [] | S n => l ++ rep n l end.

Definition scan_cost (l : bytes) (fl : Z) : Z := cost_of (c_tokens l fl).

(* n single quotes: n/2 empty literals... each quote is looked at a bounded number of times *)
Example quotes_50_100_200 :
  map (fun n => scan_cost (rep n (bs "'")) 0) [50; 100; 200]%nat = [209; 409; 809].
Proof. vm_compute. reflexivity. Qed.

(* number, parenthesis, keyword, dot, number, parenthesis: 8 bytes, 6 tokens *)
Example div_50_100_200 :
  map (fun n => scan_cost (rep n (bs "1(div.1)")) 0) [50; 100; 200]%nat = [3402; 6802; 13602].
Proof. vm_compute. reflexivity. Qed.

(* escaped quotes inside one literal: a backslash count at every quote *)
Example escaped_50_100_200 :
  map (fun n => scan_cost (bs "'" ++ rep n (bs "\\'")) 0) [50; 100; 200]%nat = [838; 1663; 3313].
Proof. vm_compute. reflexivity. Qed.

(* the two look-ahead shapes: `$` + letters without closing `$`, x' + digits without closing quote *)
Example money_probe_50_100_200 :
  map (fun n => scan_cost (bs "$" ++ rep n (bs "a")) 0) [50; 100; 200]%nat = [183; 283; 483].
Proof. vm_compute. reflexivity. Qed.

Example xstring_probe_50_100_200 :
  map (fun n => scan_cost (bs "x'" ++ rep n (bs "f")) 0) [50; 100; 200]%nat = [131; 231; 431].
Proof. vm_compute. reflexivity. Qed.

Example money_probe_repeated_50_100_200 :
  map (fun n => scan_cost (rep n (bs "$a ")) 0) [50; 100; 200]%nat = [1402; 2802; 5602].
Proof. vm_compute. reflexivity. Qed.

(* dotted words: the split loop looks up the prefix before every dot *)
Example dotted_50_100_200 :
  map (fun n => scan_cost (rep n (bs "a.b.c.d.e.f.g.h.i.j.k.l.m.n.o.p ")) 0) [50; 100; 200]%nat
  = [19602; 39202; 78402].
Proof. vm_compute. reflexivity. Qed.

(* with a leading-quote mode (flag 2: single-quote context) *)
Example quote_mode_50_100_200 :
  map (fun n => scan_cost (rep n (bs "''")) 2) [50; 100; 200]%nat = [409; 809; 1609].
Proof. vm_compute. reflexivity. Qed.

(* NOT reachable from IsSQLi: parseStringCore with the backslash as delimiter is
   quadratic (doubling the input multiplies the cost by about 3.7), which is why
   C09_string_core_bound has the hypothesis delim <> backslash; with a real
   delimiter the same input costs n + 6 *)
Example string_core_bs_delim_50_100_200_400 :
  map (fun n => cost_of (c_parse_string_core tok0 (rep n (bs "\")) (Z.of_nat n) 0 0 x5c))
      [50; 100; 200; 400]%nat = [806; 2856; 10706; 41406].
Proof. vm_compute. reflexivity. Qed.

Example string_core_quote_delim_50_100_200_400 :
  map (fun n => cost_of (c_parse_string_core tok0 (rep n (bs "\")) (Z.of_nat n) 0 0 x27))
      [50; 100; 200; 400]%nat = [56; 106; 206; 406].
Proof. vm_compute. reflexivity. Qed.
