(* C14c — benign words and numbers are never reported as SQLi, whatever
   whitespace separates and surrounds them.

   In plain words.  C14 (Properties/C14.v) proves that text made of benign
   items -- unsigned integers, and identifiers that are neither a SQL keyword
   nor a component of one -- joined by SINGLE BLANKS is not flagged.  This file
   removes the restriction on the blanks: between two items there may be any
   non-empty sequence of the eight bytes the scanner treats as whitespace,

        20 (blank)  09 (tab)  0a (newline)  0b  0c  0d (return)  a0 (NBSP)  00 (NUL),

   a different sequence at each place, and any such sequence, empty or not, may
   stand in front of the first item and behind the last one.

   The family (Spec/BenignWsSpec.v).  `BenignW s` holds when

        s = lead ++ item_1 ++ run_1 ++ item_2 ++ ... ++ run_(k-1) ++ item_k ++ trail,    k >= 1,

   where every item satisfies BenignSpec.benign_item (the very predicate of
   C14, computed from the regenerated keyword table), every run_i is a
   non-empty list of bytes of W (WsSpec.wrun / isW, which is the model's
   isByteWhite), and lead and trail are possibly empty lists of bytes of W.
   No bound on the number of items, on their lengths, or on the lengths of the
   runs.  The family contains the family of C14 (C14c_contains_C14: all runs
   the single blank, lead and trail empty).

   What the theorem says: for every such s the model's IsSQLi returns
   Ok (false, "") -- in particular no Panic and no OutOfFuel.

   How (Proofs/BenignWsLex.v, Proofs/BenignWsCheck.v).  The scan of s is run in
   lock-step with the scan of the single-space join R of the same items:
     - in s the tokenizer skips the whitespace in front of the next item
       without writing a token (WsTokens.skip_white), as it skips the one blank
       in R;
     - an item followed by a whitespace byte is lexed exactly as the item
       followed by a blank: no lexer looks beyond the first whitespace byte and
       all bytes of W answer alike to what a lexer asks about the byte behind a
       token (WsLocal.v; parseQString, the lexer of items that begin with q
       or Q, is reduced to parseWord since the byte behind the q is no quote); the scan behind a prefix is the scan of the rest, shifted
       (WsShift.v).  So both scans return the same token up to its position
       (BenignWsLex.benign_step), and both end together;
     - the folder never reads positions, so by the generic simulation of
       WsFold.v the two readings have the same fingerprint and the same
       statistics; for R these are known from C14's proof
       (BenignCheck.sqli_fingerprint_benign): the fingerprint is not
       blacklisted and no comment counter moved, hence no MySQL re-parse;
     - s holds no quote byte (items are letters, digits and '_'; W holds no
       quote), so neither quote pass runs.
   Nothing of C14's fold / blacklist argument is repeated.

   NOT covered: separators outside W (for instance the SQL comment `/**/`, or
   `+`), and the other shapes of C14b (e-mail, decimals, sentences) with
   arbitrary whitespace.  The family is given by an explicit decomposition;
   no decision procedure for BenignW is provided (for closed examples the
   decomposition is supplied and its conditions are computed: benignw_chk). *)
From Coq Require Import List ZArith String Bool.
From Coq.Strings Require Import Byte.
From LI Require Import Prelude Base SqliLex SqliFold Spec.BenignSpec Spec.WsSpec Spec.BenignWsSpec
  Proofs.BenignCheck Proofs.BenignWsCheck.
Import ListNotations.
Local Open Scope Z_scope.

Theorem C14c_benign_any_whitespace : forall s, BenignW s -> is_sqli s = Ok (false, []).
Proof. exact benignw_never_sqli. Qed.
Print Assumptions C14c_benign_any_whitespace.

(* the family of C14 is inside *)
Theorem C14c_contains_C14 : forall s, Benign s -> BenignW s.
Proof. exact benign_benignw. Qed.
Print Assumptions C14c_contains_C14.

(* ---------- members of the family, and what the model says about them ---------- *)

(* tabs *)
Example ex_tab_member : BenignW (bs "hello" ++ [x09] ++ bs "world" ++ [x09; x09] ++ bs "42").
Proof. apply (benignw_chk_sound [] [bs "hello"; bs "world"; bs "42"] [[x09]; [x09; x09]] []). vm_compute. reflexivity. Qed.
Example ex_tab_eval : is_sqli (bs "hello" ++ [x09] ++ bs "world" ++ [x09; x09] ++ bs "42") = Ok (false, []).
Proof. vm_compute. reflexivity. Qed.

(* NBSP and NUL, mixed with newline and return *)
Example ex_nbsp_nul_member : BenignW (bs "my_table2" ++ [xa0] ++ bs "x" ++ [x00; x0a] ++ bs "007" ++ [x0d; x00; xa0] ++ bs "Q9").
Proof.
  apply (benignw_chk_sound [] [bs "my_table2"; bs "x"; bs "007"; bs "Q9"] [[xa0]; [x00; x0a]; [x0d; x00; xa0]] []).
  vm_compute. reflexivity.
Qed.
Example ex_nbsp_nul_eval :
  is_sqli (bs "my_table2" ++ [xa0] ++ bs "x" ++ [x00; x0a] ++ bs "007" ++ [x0d; x00; xa0] ++ bs "Q9") = Ok (false, []).
Proof. vm_compute. reflexivity. Qed.

(* leading and trailing runs *)
Example ex_lead_trail_member :
  BenignW ([x09; x20] ++ bs "hello" ++ [x09; x0a] ++ bs "world" ++ [xa0] ++ bs "42" ++ [x00; x0d]).
Proof.
  apply (benignw_chk_sound [x09; x20] [bs "hello"; bs "world"; bs "42"] [[x09; x0a]; [xa0]] [x00; x0d]).
  vm_compute. reflexivity.
Qed.
Example ex_lead_trail_eval :
  is_sqli ([x09; x20] ++ bs "hello" ++ [x09; x0a] ++ bs "world" ++ [xa0] ++ bs "42" ++ [x00; x0d]) = Ok (false, []).
Proof. vm_compute. reflexivity. Qed.

(* a single item between whitespace, and doubled / trailing blanks (outside C14's family) *)
Example ex_single_member : BenignW ([x0b] ++ bs "0" ++ [x0c]) /\ BenignW (bs "hello  world") /\ BenignW (bs "hello ").
Proof.
  split; [|split].
  - apply (benignw_chk_sound [x0b] [bs "0"] [] [x0c]). vm_compute. reflexivity.
  - apply (benignw_chk_sound [] [bs "hello"; bs "world"] [[x20; x20]] []). vm_compute. reflexivity.
  - apply (benignw_chk_sound [] [bs "hello"] [] [x20]). vm_compute. reflexivity.
Qed.
Example ex_doubled_not_C14 : ~ Benign (bs "hello  world") /\ is_sqli (bs "hello  world") = Ok (false, []).
Proof.
  split; [intros H; apply benign_dec_complete in H; vm_compute in H; discriminate|].
  apply C14c_benign_any_whitespace. exact (proj1 (proj2 ex_single_member)).
Qed.

(* seven items (more than the five-token window), a different separator at each place *)
Example ex_seven_member :
  BenignW (bs "alpha" ++ [x09] ++ bs "1" ++ [x0a] ++ bs "bravo" ++ [x0b] ++ bs "22" ++ [x0c] ++ bs "charlie" ++ [x0d]
           ++ bs "333" ++ [xa0; x00] ++ bs "delta").
Proof.
  apply (benignw_chk_sound [] [bs "alpha"; bs "1"; bs "bravo"; bs "22"; bs "charlie"; bs "333"; bs "delta"]
           [[x09]; [x0a]; [x0b]; [x0c]; [x0d]; [xa0; x00]] []).
  vm_compute. reflexivity.
Qed.
Example ex_seven_eval :
  is_sqli (bs "alpha" ++ [x09] ++ bs "1" ++ [x0a] ++ bs "bravo" ++ [x0b] ++ bs "22" ++ [x0c] ++ bs "charlie" ++ [x0d]
           ++ bs "333" ++ [xa0; x00] ++ bs "delta") = Ok (false, []).
Proof. vm_compute. reflexivity. Qed.

(* the theorem instantiated *)
Example ex_by_theorem : is_sqli (bs "hello" ++ [x09] ++ bs "world" ++ [x09; x09] ++ bs "42") = Ok (false, []).
Proof. apply C14c_benign_any_whitespace. exact ex_tab_member. Qed.

(* ---------- neighbours outside the family ---------- *)

(* keywords between tabs: reported -- hence outside the family, by the theorem itself *)
Example ex_or_caught : is_sqli (bs "hello" ++ [x09] ++ bs "or" ++ [x09] ++ bs "1=1") = Ok (true, bs "n&1").
Proof. vm_compute. reflexivity. Qed.
Example ex_or_not_member : ~ BenignW (bs "hello" ++ [x09] ++ bs "or" ++ [x09] ++ bs "1=1").
Proof. intros H. apply C14c_benign_any_whitespace in H. rewrite ex_or_caught in H. discriminate. Qed.

Example ex_union_caught :
  is_sqli (bs "1" ++ [x09] ++ bs "union" ++ [xa0; x00] ++ bs "select" ++ [x0a] ++ bs "2") = Ok (true, bs "1UE1").
Proof. vm_compute. reflexivity. Qed.
Example ex_union_not_member : ~ BenignW (bs "1" ++ [x09] ++ bs "union" ++ [xa0; x00] ++ bs "select" ++ [x0a] ++ bs "2").
Proof. intros H. apply C14c_benign_any_whitespace in H. rewrite ex_union_caught in H. discriminate. Qed.

(* an item that is a keyword is rejected by the computed condition *)
Example ex_chk_rejects : benignw_chk [] [bs "hello"; bs "or"; bs "1"] [[x09]; [x09]] [] = false
                      /\ benignw_chk [] [bs "hello"; bs "world"] [[]] [] = false
                      /\ benignw_chk (bs "+") [bs "hello"] [] [] = false.
Proof. vm_compute. repeat split. Qed.
