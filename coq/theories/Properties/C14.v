(* C14 — benign words and numbers are never reported as SQLi.

   The family (Spec/BenignSpec.v).  `Benign s` holds when s is the join, with
   single spaces (byte 0x20), of a non-empty list of items, each item being

     - an unsigned integer: one or more ASCII digits (`benign_number`), or
     - an identifier [A-Za-z_][A-Za-z0-9_]* whose upper case is neither a key of
       the SQL keyword table nor one of the space-separated components of a
       key, fingerprint entries (class 'F') aside (`benign_word`).

   No leading, trailing or doubled space; no other byte.  Items have no length
   bound (words of 32 bytes or more are never looked up by the tokenizer; their
   token value is clipped to 31 bytes and can never merge).  This mirrors the
   family of the Go harness (tools/harness/streams2.go: loadKeywordComponents /
   isBenignWord / benignStream), which additionally caps words at 64 bytes and
   numbers at 8 digits.  The family is decidable: `benign_dec` (split at the
   spaces, test every field) decides it (Proofs/BenignCheck.v, benign_dec_iff).

   The family is COMPUTED FROM THE REGENERATED TABLE: `kw_components` is
   evaluated from `sql_keywords` when BenignSpec.v is compiled, and the proof
   re-checks by a sweep over `sql_kwmap` that every non-fingerprint entry of the
   map and all of its components are in that list.  Adding a keyword to the
   table therefore shrinks the family (the word and its components leave it);
   it cannot silently break the theorem.

   What the theorem says: for every benign s the model's IsSQLi returns
   Ok (false, "") — in particular no Panic and no OutOfFuel.  The proof
   (Proofs/BenignLex.v, BenignTok.v, BenignFold.v, BenignCheck.v) goes through
     - the lexing lemma `tokenize_benign`: each item lexes as exactly one token,
       bare word 'n' or number '1' (value = the item clipped to 31 bytes), the
       separating space gives no token, no comment counter moves;
     - the fold lemma `fold_benign`: no folding rule fires (in particular
       `merge` never finds "W1 W2" in the table), the result is the first
       min(k,5) tokens, n_folds = 0;
     - the sweep `blacklist_sweep`: none of the 62 strings over {n,1} of length
       1..5 is a blacklisted fingerprint;
     - `check_benign`: the first pass does not fire, the MySQL re-parse is not
       requested, and the input holds no quote, so no other pass runs.

   The second clause of the property — e-mail addresses, decimal numbers
   ("3.14") and punctuated sentences — is proved in Properties/C14b.v
   (C14b_decimal / C14b_email / C14b_sentence over the families of
   Spec/ShapeSpec.v, which contain the harness streams shape-email /
   shape-decimal / shape-sentence).
   Inputs with tabs, NBSP, NUL, doubled, leading or trailing white space: Properties/C14c.v
   (C14c_benign_any_whitespace). *)
From Coq Require Import List ZArith String Bool.
From Coq.Strings Require Import Byte.
From LI Require Import Prelude Base SqliLex SqliFold Spec.BenignSpec Proofs.BenignLex Proofs.BenignCheck.
Import ListNotations.
Local Open Scope Z_scope.

Theorem C14_benign_never_sqli : forall s, Benign s -> is_sqli s = Ok (false, []).
Proof. exact benign_never_sqli. Qed.
Print Assumptions C14_benign_never_sqli.

(* ---------- members of the family, and what the model says about them ---------- *)

Example ex_hello_benign : Benign (bs "hello world 42").
Proof. apply benign_dec_sound. vm_compute. reflexivity. Qed.
Example ex_hello_eval : is_sqli (bs "hello world 42") = Ok (false, []).
Proof. vm_compute. reflexivity. Qed.

Example ex_ident_benign : Benign (bs "my_table2 x 007").
Proof. apply benign_dec_sound. vm_compute. reflexivity. Qed.
Example ex_ident_eval : is_sqli (bs "my_table2 x 007") = Ok (false, []).
Proof. vm_compute. reflexivity. Qed.

(* a single 40-letter word: never looked up, clipped to 31 bytes *)
Example ex_long_benign : Benign (bs "abcdefghijklmnopqrstuvwxyzabcdefghijklmn").
Proof. apply benign_dec_sound. vm_compute. reflexivity. Qed.
Example ex_long_eval : is_sqli (bs "abcdefghijklmnopqrstuvwxyzabcdefghijklmn") = Ok (false, []).
Proof. vm_compute. reflexivity. Qed.

(* seven items: more than the five-token window *)
Example ex_seven_benign : Benign (bs "alpha 1 bravo 22 charlie 333 delta").
Proof. apply benign_dec_sound. vm_compute. reflexivity. Qed.
Example ex_seven_eval : is_sqli (bs "alpha 1 bravo 22 charlie 333 delta") = Ok (false, []).
Proof. vm_compute. reflexivity. Qed.

(* a single item, and a number that starts with 0 *)
Example ex_single_benign : Benign (bs "0") /\ Benign (bs "_") /\ Benign (bs "X9").
Proof. repeat split; apply benign_dec_sound; vm_compute; reflexivity. Qed.

(* the theorem instantiated *)
Example ex_by_theorem : is_sqli (bs "hello world 42") = Ok (false, []).
Proof. apply C14_benign_never_sqli. exact ex_hello_benign. Qed.

(* ---------- neighbours outside the family ---------- *)

(* keywords: not benign, and caught *)
Example ex_union_not_benign : ~ Benign (bs "1 union select 2").
Proof. intros H. apply benign_dec_complete in H. vm_compute in H. discriminate. Qed.
Example ex_union_caught : is_sqli (bs "1 union select 2") = Ok (true, bs "1UE1").
Proof. vm_compute. reflexivity. Qed.

(* a component of a two-word key ("CROSS JOIN") is excluded even on its own *)
Example ex_component_not_benign : ~ Benign (bs "cross") /\ ~ Benign (bs "hello JOIN").
Proof. split; intros H; apply benign_dec_complete in H; vm_compute in H; discriminate. Qed.

(* a doubled space, or a trailing one, is outside the family *)
Example ex_spaces_not_benign : ~ Benign (bs "hello  world") /\ ~ Benign (bs "hello ").
Proof. split; intros H; apply benign_dec_complete in H; vm_compute in H; discriminate. Qed.
