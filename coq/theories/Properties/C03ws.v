(* C03 (whitespace): members of the canonical attack grammar are reported as
   SQLi when every separator slot is filled, independently, with ANY non-empty
   run of whitespace bytes (mixing of separators and runs of several bytes).

   In plain words.  C03_core proves, by running the model, that every member of
   the frozen grammar is reported when all its slots hold the same single byte.
   This file lifts that to infinitely many inputs: take a member, and put into
   each slot whatever non-empty sequence of the bytes 20 09 0a 0b 0c 0d a0 00
   you like, a different one in each slot; the verdict stays "SQLi" -- under the
   two restrictions listed at the end, which are forced by the code.

   How.  The reference string has the same single byte w0 (the blank, or the
   newline) in every slot.  For a slot that lies BETWEEN TWO TOKENS in a reading
   of the reference string (Spec/WsSpec.v: top_slot, computed by scanning the
   part of the string in front of the slot), replacing w0 by a run changes
   nothing in that reading but the positions of the later tokens:
     - in front of the slot the two scanners are in lock-step: no lexer looks
       beyond the first whitespace byte, and all bytes of W answer alike to
       everything a lexer asks about the byte that follows a token
       (Proofs/WsLocal.v: locality of the lexers; Proofs/WsStat.v: the lexers
       never read the statistics);
     - the tokenizer skips the whole run without writing a token, exactly as it
       skips the single byte;
     - behind the slot the scanners read the same bytes at offsets that differ
       by  len run - 1  (Proofs/WsShift.v);
     - the folder never looks at token positions (Proofs/WsFold.v), so the two
       readings have the same fingerprint, token windows equal up to positions,
       and the same statistics (Proofs/WsTokens.v: C03ws_tokens for the token
       scans, slot_fingerprint for fold + fingerprint);
     - the whitelist step reads, besides the window, the statistics and the raw
       input at offset tokenVec[0].len: that offset lies in the first segment or
       on the first slot (checked per member), where the inputs agree or both
       have whitespace (Proofs/WsCheck.v: nw_transfer, rawtest_front).
   A slot INSIDE A TRAILING STRING LITERAL that is opened in front of it and not
   closed ('A'='A ..., or the virtual opening quote of a quote context) is string
   text: the string token changes its length and text only, which nothing
   downstream reads (Proofs/WsCross.v; the token relation `loose` of WsBase.v).
   A slot INSIDE A TRAILING `--` COMMENT that starts in front of it (tails
   `--{S}`, `--{S}x`, `--{S}-`) is comment text as long as the run contains no
   newline; a run that STARTS with the newline ends the comment exactly as the
   reference separator 0x0a does, and the rest of the run is skipped; a newline
   LATER in the run is covered when nothing follows the slot.
   The slots are normalised one after the other, from left to right.  IsSQLi runs
   earlier readings first; only the reading that fires for the reference string
   (and, for a MySQL re-reading, the ANSI reading that opens its gate) has to be
   invariant: if an earlier reading fires for the variant, the variant is reported
   all the same (Proofs/WsCheck.v: cascade_detect).

   What is and is not covered.  member_chk w0 segs is a computed boolean; at the
   time of writing it holds for all 19 215 triples with w0 = 0x20 and for 19 213
   with w0 = 0x0a (no count is hard-coded in a statement).  The restrictions on
   the runs, runs_okw w0 (need w0 segs) (last_empty segs) ws, slot by slot:
     - 446 members have a slot that directly follows a variable name (@a,
       DECLARE @A ...): parseVar ends a name at the bytes of var_accept only, and
       0xa0 / 0x00 are NOT among them (W is not contained in every lexer's
       delimiter set) -- there the run must start with one of the six other bytes
       (no counterexample to the verdict was found by testing, but the token
       stream changes, so invariance cannot show it);
     - 3 868 members have a slot inside a `--` comment: there the run must
       contain no newline, or start with the newline, or -- if nothing follows the
       slot -- contain it anywhere.  NOT covered: a newline preceded by other
       whitespace in such a run when a token follows the slot
       (`'1'='1'-- <blank LF> x`): the comment token then differs from both
       reference strings in a property notWhitelist can read ("len > 2"), and
       although the token is dropped again the proof does not follow it. *)
From Coq Require Import List ZArith String Bool.
From Coq.Strings Require Import Byte.
From LI Require Import Prelude Base SqliLex SqliFold GrammarSqli Spec.WsSpec Proofs.WsCheck.
From LIGen Require Import C03CoreAll.
Import ListNotations.

(* s is `segs` with a non-empty run of whitespace in each slot (wsfill); against one of the
   two reference separators (blank, newline) the member passes the computed side condition
   and the runs respect the restrictions computed for that reference *)
Theorem C03_core_any_whitespace_partial :
  forall segs ws s,
    In segs all_cases -> wsfill segs ws s ->
    (member_chk x20 segs = true /\ runs_okw x20 (need x20 segs) (last_empty segs) ws)
    \/ (member_chk x0a segs = true /\ runs_okw x0a (need x0a segs) (last_empty segs) ws) ->
    exists fp, is_sqli s = Ok (true, fp).
Proof. intros segs ws s _. apply member_detect. Qed.
Print Assumptions C03_core_any_whitespace_partial.

(* ---------- examples ---------- *)

(* the run conditions of a concrete example: each slot either asks nothing, or the stated fact *)
Ltac runs_tac :=
  vm_compute;
  repeat (first [apply Forall2_cons | apply Forall2_nil]);
  (split; intros ?H; try discriminate).

(* 1' <TAB> OR <NBSP NUL CR> 1=1-- : no restriction on these two slots *)
Example C03ws_example_mixed :
  exists fp, is_sqli (bs "1'" ++ [x09] ++ bs "OR" ++ [xa0; x00; x0d] ++ bs "1=1--") = Ok (true, fp).
Proof.
  apply (member_detect [bs "1'"; bs "OR"; bs "1=1--"] [[x09]; [xa0; x00; x0d]]).
  - split; [reflexivity|]. split; [|reflexivity]. repeat constructor.
  - left. split; [vm_compute; reflexivity|]. runs_tac.
Qed.

(* 1 <CR LF> OR <VT> 1=1 <FF FF> -- <TAB blank> : the last slot lies inside the comment *)
Example C03ws_example_comment :
  exists fp, is_sqli (bs "1" ++ [x0d; x0a] ++ bs "OR" ++ [x0b] ++ bs "1=1" ++ [x0c; x0c] ++ bs "--" ++ [x09; x20])
             = Ok (true, fp).
Proof.
  apply (member_detect [bs "1"; bs "OR"; bs "1=1"; bs "--"; bs ""] [[x0d; x0a]; [x0b]; [x0c; x0c]; [x09; x20]]).
  - split; [reflexivity|]. split; [|reflexivity]. repeat constructor.
  - left. split; [vm_compute; reflexivity|]. runs_tac. left. reflexivity.
Qed.

(* 1 <TAB> OR <NUL> '1'='1'-- <LF TAB> x : the run inside the comment starts with the newline, the
   comment ends there and x is scanned; the reference separator is the newline *)
Example C03ws_example_newline_first :
  exists fp, is_sqli (bs "1" ++ [x09] ++ bs "OR" ++ [x00] ++ bs "'1'='1'--" ++ [x0a; x09] ++ bs "x") = Ok (true, fp).
Proof.
  apply (member_detect [bs "1"; bs "OR"; bs "'1'='1'--"; bs "x"] [[x09]; [x00]; [x0a; x09]]).
  - split; [reflexivity|]. split; [|reflexivity]. repeat constructor.
  - right. split; [vm_compute; reflexivity|]. runs_tac. reflexivity.
Qed.

(* 1 <blank> OR <blank> 1=1-- <blank LF TAB> : a newline later in the run, nothing behind the slot *)
Example C03ws_example_newline_later :
  exists fp, is_sqli (bs "1" ++ [x20] ++ bs "OR" ++ [x20] ++ bs "1=1--" ++ [x20; x0a; x09]) = Ok (true, fp).
Proof.
  apply (member_detect [bs "1"; bs "OR"; bs "1=1--"; bs ""] [[x20]; [x20]; [x20; x0a; x09]]).
  - split; [reflexivity|]. split; [|reflexivity]. repeat constructor.
  - left. split; [vm_compute; reflexivity|]. runs_tac. right. split; [discriminate|reflexivity].
Qed.

(* the side conditions are not vacuous: this member has a variable slot and a comment slot *)
Example C03ws_need_example :
  need x20 [bs "@a"; bs "OR"; bs "1=1--"; bs ""] = [(true, false); (false, false); (false, true)].
Proof. vm_compute. reflexivity. Qed.
