(* C17 (a) — HTML tokens stay inside the input, in order, at most |s|+1 of them.

   h5_tokens s fl is the model of repeated h5State.next() calls from start
   context fl (0 data, 1 unquoted, 2 single-, 3 double-, 4 back-quoted value),
   collecting (type, offset, length).  For every input and every context the
   run returns (no Panic / OutOfFuel / StackOverflow), every token lies inside
   the input, consecutive tokens satisfy off_i + len_i <= off_{i+1}
   (non-decreasing, non-overlapping), and there are at most |s|+1 tokens.
   Part (b) — every delimited construct ends at its first terminator — is in
   Properties/C17b.v. *)
From Coq Require Import List ZArith String Bool.
From Coq.Strings Require Import Byte.
From LI Require Import Prelude Base Html5 Proofs.H5Spec.
Import ListNotations.
Local Open Scope Z_scope.

Theorem C17a_tokens_in_bounds_ordered_counted :
  forall s fl, 0 <= fl <= 4 ->
  exists l, h5_tokens s fl = Ok l /\
    Forall (fun '(ty, off, ln) => 0 <= off /\ 0 <= ln /\ off + ln <= len s) l /\
    tok_ordered l /\
    (List.length l <= S (List.length s))%nat.
Proof. exact h5_tokens_spec_sharp. Qed.
Print Assumptions C17a_tokens_in_bounds_ordered_counted.

(* the order clause, element-wise *)
Theorem C17a_order_elementwise :
  forall l i ty1 o1 l1 ty2 o2 l2,
    tok_ordered l -> nth_error l i = Some (ty1, o1, l1) -> nth_error l (S i) = Some (ty2, o2, l2) ->
    o1 + l1 <= o2.
Proof. exact tok_ordered_nth. Qed.
Print Assumptions C17a_order_elementwise.

(* non-vacuity: the bound |s|+1 is attained, and a run with several token kinds *)
Example C17a_nonvacuous :
  h5_tokens [] 2 = Ok [(7, 0, 0)] /\
  h5_tokens (bs "a=>x") 1 = Ok [(6, 0, 1); (7, 2, 0); (2, 2, 1); (0, 3, 1)].
Proof. vm_compute. split; reflexivity. Qed.
