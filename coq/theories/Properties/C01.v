(* C01 — IsSQLi is total: it returns for every byte string, never panics.

   is_sqli is the model of IsSQLi.  In the model every Go index / slice
   expression is a checked primitive (Panic when Go would panic), the 8-slot
   token vector is a list holding exactly the live tokens (reading a slot at or
   beyond the live count is Panic although Go would silently read a stale
   token: the model is stricter than the code), and every loop runs on explicit
   fuel (OutOfFuel).  `= Ok (b, fp)` therefore says, for every byte string:
   no index or slice out of range in any lexer, in assign, in the folder's
   val[0] / val[1] / val[:len] reads, in the whitelist's look-ups into the raw
   input; no stale-slot read; the window never exceeds 6 of the 8 slots
   (finv: wlen <= 6); and termination: the tokenizer loop within |s|+1 steps,
   each fetch within |s|+2, and the main loop of fold within 256*(|s|+3)
   iterations (potential 120*(remaining bytes) + 100*(window) + 2*(6-left) +
   rank of the window classes, strictly decreasing per iteration).

   Proof: per-lexer specifications (Proofs/LexSpec.v), window invariant and
   potential (FoldBase.v), every 2- and 3-token rule (FoldSpec.v), the loop, the
   skip loop and fold (FoldLoop.v), fingerprint / blacklist / whitelist / cascade
   (CheckSpec.v); table side conditions (function names >= 2 bytes, no table
   value is the comment class, keys containing a space are never number or
   backslash class, every 2-character blacklisted fingerprint ends in U or c)
   are vm_compute sweeps over the keyword map regenerated from the source. *)
From Coq Require Import List ZArith String Bool Lia.
From Coq.Strings Require Import Byte.
From LI Require Import Prelude Base SqliLex SqliFold Proofs.Wp Proofs.LexSpec Proofs.FoldBase Proofs.FoldLoop Proofs.CheckSpec.
Import ListNotations.
Local Open Scope Z_scope.

Theorem C01_is_sqli_total : forall s, exists b fp, is_sqli s = Ok (b, fp).
Proof. exact is_sqli_total. Qed.
Print Assumptions C01_is_sqli_total.

(* every parsing mode on its own: fold from any well-formed scanner state returns, with at
   most 6 live tokens in the 8-slot vector *)
Theorem C01_fold_total :
  forall inp fl, exists w s', fold (sqli_init inp fl) = Ok (w, s') /\ wlen w <= 6 /\ input s' = inp.
Proof.
  intros inp fl.
  destruct (wp_inv _ _ (fold_spec inp (flags (sqli_init inp fl)) (sqli_init inp fl) eq_refl eq_refl
                          ltac:(unfold st_wf, sqli_init, slen; cbn [pos input]; pose proof (Proofs.BaseFacts.len_nonneg inp); lia)))
    as [[w s'] [E (A & B & C & D & _)]].
  exists w, s'. auto.
Qed.
Print Assumptions C01_fold_total.

(* non-vacuity: the error values are reachable in the semantics when a guard is missing *)
Example C01_errors_expressible :
  get "x" (bs "ab") 2 = Panic "x" /\
  wget "slot" [tok0] 1 = Panic "slot" /\
  fold_loop 0 (mkF (sqli_init (bs "1") 0) [tok0] 0 true tok0) = OutOfFuel /\
  is_sqli (bs "1' OR '1'='1") = Ok (true, bs "s&sos") /\
  is_sqli (bs "aaaaaaaaaaaaaaaaaaaaaaaaaaaaaaaa") = Ok (false, []).
Proof. vm_compute. repeat split. Qed.
