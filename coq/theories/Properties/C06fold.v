(* C06 — the SQLi pipeline conforms to the reference libinjection algorithm:
   the FOLDING / FINGERPRINT / VERDICT part.

   What Ref is.  Spec/RefSqlFold.v is an executable specification of the
   libinjection folder, fingerprint, blacklist, whitelist and of the cascade of
   parsing contexts, written independently of the Go-mirroring model:

     - the rewrite rules are DATA: `rules2_table` (22 rows) and `rules3_table`
       (15 rows) list, in libinjection's order, a row per rule -- patterns over
       token classes and a few value tests (tpat), a short list of slot
       operations (Pop / Copy / Class / Phrase / Folds), what becomes of `left`
       (Restart / Stay / Back / Forward) and what the loop does next (Loop /
       Through / Stop); the five-token special cases are a list of class
       patterns (`five_table`); the whitelist exemptions are decision tables
       (`exempt2`, `exempt3`);
     - a small generic engine (`run_table`: the first row whose patterns match
       at `left` and whose action applies fires) and the main loop (`iter`,
       `run`, `ref_fold`) over an ABSTRACT token source (`source`: `next`
       delivers a token or the end, `folded` receives the fold statistics);
       comments are diverted to the "last comment" cell as in libinjection;
     - no error monad, no window array with checked reads: total functions on
       lists.

   In which sense it is independent.  The model (SqliFold.v: rules2 / rules3 /
   fold_iter / not_whitelist) transliterates the Go code: a first-match-wins
   if/else cascade over a mutable window with checked reads.  A dropped
   disjunct, a swapped class, a wrong `left` or a wrong `pos` adjustment in the
   code's cascade disagrees with a table row, and the theorems below would not
   hold.  What Ref shares with the model, on purpose, are the looked-up
   primitives: the keyword table (search_keyword), Go's case-insensitive
   comparison (to_upper_cmp) and, for the instance proved here, the tokenizer
   (the token source `scanner` is the model's `tokenize`; the tokenizer has its
   own Ref, Spec/RefSqlLex.v).

   The chain.  Go = M is TESTED: the harness compares, for every input of the
   streams and every mode, the Go hooks VerifFold / VerifFingerprint / IsSQLi
   with the extracted model (the SF / SP / SV lines: folded tokens with all
   their fields and the four statistics; fingerprint, blacklisted, verdict,
   statistics; verdict and returned fingerprint).  M = Ref is PROVED here:

     C06_fold         fold_tokens inp fl = Ok (ref_fold_tokens inp fl)
                      the folded token sequence (every field of every token) and
                      the final scanner state (position, the four statistics), for
                      every input and every flag word;
     C06_fingerprint  fingerprint_ctx inp fl = Ok (ref_ctx inp fl)
                      fingerprint, blacklisted, verdict, statistics of a reading;
     C06_verdict      is_sqli inp = Ok (ref_is_sqli inp)
                      the verdict and the returned fingerprint of IsSQLi;
     C06_rules2 / C06_rules3
                      the heart: on every window satisfying the folder's invariant
                      the code's two- and three-token cascades compute what the
                      table engine computes (same window, same `left`, same
                      statistics, same continue / fall-through / return).

   The statements also say that the model never fails (`= Ok ...`), which is
   C01 again.  Proofs: Proofs/RefSqlFoldProofs.v. *)
From Coq Require Import List ZArith String Bool.
From Coq.Strings Require Import Byte.
From LI Require Import Prelude Base SqliLex SqliFold Proofs.FoldBase Proofs.FoldSpec
  Spec.RefSqlFold Proofs.RefSqlFoldProofs.
From LIGen Require Import Consts.
Import ListNotations.
Local Open Scope Z_scope.

Theorem C06_fold : forall inp fl, fold_tokens inp fl = Ok (ref_fold_tokens inp fl).
Proof. exact fold_tokens_ref. Qed.
Print Assumptions C06_fold.

Theorem C06_fingerprint : forall inp fl, fingerprint_ctx inp fl = Ok (ref_ctx inp fl).
Proof. exact fingerprint_ctx_ref. Qed.
Print Assumptions C06_fingerprint.

Theorem C06_verdict : forall inp, is_sqli inp = Ok (ref_is_sqli inp).
Proof. exact is_sqli_ref. Qed.
Print Assumptions C06_verdict.

(* The rule tables against the code's cascades, on any window with the folder's
   invariant `finv` (FoldBase.v) holding at least two / three tokens from `left`
   on.  `abs` reads a model state as a Ref state. *)
Theorem C06_rules3 : forall inp fl f,
  finv inp fl f -> 3 <= wlen (f_win f) - f_left f ->
  forall out, rules3 f = Ok out ->
  exists f', out = Continue f' /\ run_table scanner rules3_table (abs f) = Some (abs f', Loop).
Proof. exact rules3_ref. Qed.
Print Assumptions C06_rules3.

Theorem C06_rules2 : forall inp fl f,
  finv inp fl f -> 2 <= wlen (f_win f) - f_left f ->
  forall out, rules2 (fetch_n 3) f = Ok out ->
  match out with
  | Continue f' =>
      after_rules2 scanner (fuel_of inp) (abs f) (run_table scanner rules2_table (abs f)) = Go (abs f')
  | Return n f' =>
      after_rules2 scanner (fuel_of inp) (abs f) (run_table scanner rules2_table (abs f))
      = Done (firstn (Z.to_nat n) (f_win f')) (f_s f')
  end.
Proof. exact rules2_ref. Qed.
Print Assumptions C06_rules2.

(* The Go port lets two words merge when the phrase has up to 32 bytes, C
   libinjection up to 31.  A 32-byte phrase would have to upper-case (Go's
   ToUpper: only the two-byte runes for dotless i and long s shrink, to I and S)
   to a key of the table that contains a space: no such key is long enough. *)
Example C06_phrase_room :
  forallb (fun e => let k := fst e in
                    negb (mem x20 k)
                    || (len k + len (filter (fun b => beq b x53 || beq b x49) k) <? 32))
          sql_keywords = true.
Proof. vm_compute. reflexivity. Qed.

(* ---------- examples: Ref and the model evaluated side by side ---------- *)

Definition stats_eqb (a b : stats) : bool :=
  (n_ddx a =? n_ddx b) && (n_hash a =? n_hash b) && (n_folds a =? n_folds b) && (n_tokens a =? n_tokens b).

Definition same_ctx (s : string) (fl : Z) : bool :=
  match fingerprint_ctx (bs s) fl with
  | Ok (fp, bl, v, x) =>
      let '(fp', bl', v', x') := ref_ctx (bs s) fl in
      bytes_eqb fp fp' && Bool.eqb bl bl' && Bool.eqb v v' && stats_eqb x x'
  | _ => false
  end.

Definition same_verdict (s : string) : bool :=
  match is_sqli (bs s) with
  | Ok (b, fp) => let '(b', fp') := ref_is_sqli (bs s) in Bool.eqb b b' && bytes_eqb fp fp'
  | _ => false
  end.

(* the five contexts: none|ansi, none|mysql, single|ansi, single|mysql, double|mysql *)
Definition modes : list Z := [9; 17; 10; 18; 20].

Definition same_everywhere (s : string) : bool :=
  forallb (same_ctx s) modes && same_verdict s.

Definition attacks : list string := (
  [ "1 union select 1,2,3 --";
    "1' or '1'='1";
    "' or 1=1 --";
    "1; drop table users";
    "1 and 1=1";
    "admin' --";
    "1' union all select null, version() #";
    "x' and substring(password,1,1)='a";
    "1 or sleep(5)";
    "1); select pg_sleep(5) --";
    "-1 union select 1 into outfile '/tmp/x'";
    "1 /*!union*/ select 1";
    "'; exec master..xp_cmdshell 'dir' --";
    "1; if (1=1) waitfor delay '0:0:5'";
    "1 like (select 1)";
    "1 not in (select 1)";
    "select { `` . `` . id }";
    "1 collate latin1_bin = 1 or 1";
    "1 :: int = 1 or 1=1";
    "\ * 1 or 1=1";
    "1 group by 1 having 1=1";
    "1,-1,+2 union select 1";
    "user ( 1 ) or 1";
    "current_user ( ) or 1=1";
    "binary 'a' = 'a' or 1";
    """ or ""a""=""a";
    "1 -- sp_password";
    "1 + ( 1 ) union select 1";
    "x = ( y ) or 1 = ( 2 )";
    "1 ) , ( 1 , ( 1 ) union select 1";
    "{ fn now ( ) } or 1";
    "1 is not null or 1=1";
    "1 && 1 || 'a' ; ; select 1" ])%string.

Definition benign : list string := (
  [ ""; "hello world"; "12345"; "foo@example.com"; "3.14159"; "it's a nice day";
    "the quick brown fox -- jumped"; "1 union"; "union made"; "1 #hash"; "word -- dash";
    "12 -- x"; " 12--"; " 12/*x*/"; "sexy and 17"; "select"; "a, b, c"; "(1)"; "- - -";
    "rock 'n' roll"; "foo 'bar' baz"; "don't and won't"; "50% off; today only";
    "SELECT is a word"; "in the end"; "like a rolling stone"; "`"; "a ``" ])%string.

Example C06_examples_attacks : forallb same_everywhere attacks = true.
Proof. vm_compute. reflexivity. Qed.

Example C06_examples_benign : forallb same_everywhere benign = true.
Proof. vm_compute. reflexivity. Qed.

(* a few readings spelled out *)
Example C06_example_union :
  ref_ctx (bs "1 union select 1,2,3 --") 9 = (bs "1UE1c", true, true, mkStats 0 0 0 9).
Proof. vm_compute. reflexivity. Qed.

Example C06_example_tautology : ref_is_sqli (bs "1' or '1'='1") = (true, bs "s&sos").
Proof. vm_compute. reflexivity. Qed.

Example C06_example_benign : ref_is_sqli (bs "the quick brown fox -- jumped") = (false, []).
Proof. vm_compute. reflexivity. Qed.

Example C06_example_evil : fst (fst (fst (ref_ctx (bs "select { `` . `` . id }") 9))) = bs "X".
Proof. vm_compute. reflexivity. Qed.
