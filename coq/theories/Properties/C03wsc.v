(* C03 (whitespace and letter case together): members of the canonical attack
   grammar are reported as SQLi when every separator slot is filled,
   independently, with any non-empty run of whitespace bytes AND the case of
   any ASCII letters is changed.

   In plain words.  Properties/C03ws.v: take a member of the frozen grammar and
   put into each slot whatever non-empty sequence of the bytes
   20 09 0a 0b 0c 0d a0 00 you like; it is reported (under the two
   restrictions on runs stated there).  Properties/C03.v, C03_core_any_case:
   take a member with the same separator in every slot and change the case of
   any letters; it is reported.  This file does both at once: fill the slots
   with arbitrary runs, then change the case of any letters of the result
   (keywords, identifiers, string and comment text -- anything).

   How (Proofs/WsCase.v).  Theorem C10 (Properties/C10.v, C10_partial2) says
   that a case variant s' of s has the verdict and fingerprint of s, provided s
   contains none of the neighbourhoods in which SQL itself is case-sensitive
   (CiSpec.plain2: a backslash followed by N/n, a dollar followed by a letter,
   q'L / Q'L with a letter L) and does not contain "sp_password" in any case.
   Each of these four conditions says "a certain pattern starts nowhere in s",
   and all bytes of the patterns are non-whitespace.  Such a condition does not
   depend on which non-empty runs fill the slots (WsCase.nowhere_instw): a
   window that starts inside a segment stays inside it or meets the first byte
   behind it, which is whitespace whatever the run is, and no pattern goes on
   over a whitespace byte; a window that starts inside a run starts with a
   whitespace byte.  (The runs being NON-EMPTY is what keeps the last byte of a
   segment and the first byte of the next apart: `$` | `a` is separated.)
   Hence the filled string satisfies C10's side condition as soon as the
   reference instance with ONE BLANK in every slot does
   (WsCase.liftable_fill), and for that instance the condition has been
   computed for every member of the frozen grammar already:
   GrammarLift.all_cases_liftable, the sweep behind C03_core_any_case.

   The computed conditions, exactly:
     - GrammarLift.liftable (inst [0x20] segs) = true, i.e. plain2 of the blank
       instance and no SP_PASSWORD in its upper-casing.  It holds for EVERY
       member of all_cases (it is a conjunct of the lemma
       all_cases_liftable : core_liftable all_cases = true, which is re-checked
       whenever the grammar is regenerated), so it is not a hypothesis of the
       theorem below; it is one of WsCase.member_detect_case, the same
       statement for an arbitrary list of segments;
     - the side conditions of C03_core_any_whitespace_partial, unchanged:
       member_chk w0 segs = true for one of the two reference separators
       w0 = blank / newline, and runs_okw (a slot right behind a variable name
       must not start with a0 / 00; a run inside a `--` comment must contain no
       newline, or start with it, or have nothing behind it).  Coverage is
       therefore that of C03ws (Proofs/WsCount.v: at least 19 000 members pass
       member_chk for the blank; see the report for the current figure).

   NOT covered: whatever C03ws does not cover (the `/**/` separator in a slot;
   the run restrictions above; members failing member_chk); case changes are
   ASCII only (cv), as in C10. *)
From Coq Require Import List ZArith String Bool.
From Coq.Strings Require Import Byte.
From LI Require Import Prelude Base SqliLex SqliFold GrammarSqli Spec.CiSpec Spec.WsSpec
  Proofs.GrammarLift Proofs.WsCheck Proofs.WsCase.
From LIGen Require Import C03CoreAll.
Import ListNotations.

Theorem C03_core_any_whitespace_any_case_partial :
  forall segs ws s s',
    In segs all_cases -> wsfill segs ws s ->
    (member_chk x20 segs = true /\ runs_okw x20 (need x20 segs) (last_empty segs) ws)
    \/ (member_chk x0a segs = true /\ runs_okw x0a (need x0a segs) (last_empty segs) ws) ->
    cv s s' ->
    exists fp, is_sqli s' = Ok (true, fp).
Proof. exact core_ws_case_lift. Qed.
Print Assumptions C03_core_any_whitespace_any_case_partial.

(* the same for any list of segments, the case condition being computed on the blank instance *)
Theorem C03wsc_generic :
  forall segs ws s s',
    liftable (inst [x20] segs) = true -> wsfill segs ws s ->
    (member_chk x20 segs = true /\ runs_okw x20 (need x20 segs) (last_empty segs) ws)
    \/ (member_chk x0a segs = true /\ runs_okw x0a (need x0a segs) (last_empty segs) ws) ->
    cv s s' ->
    exists fp, is_sqli s' = Ok (true, fp).
Proof. exact member_detect_case. Qed.
Print Assumptions C03wsc_generic.

(* C10's side condition is inherited by every filling *)
Theorem C03wsc_liftable_fill :
  forall segs ws s, wsfill segs ws s -> liftable (inst [x20] segs) = true -> liftable s = true.
Proof. exact liftable_fill. Qed.

(* ---------- examples ---------- *)

Ltac runs_tac :=
  vm_compute;
  repeat (first [apply Forall2_cons | apply Forall2_nil]);
  (split; intros ?H; try discriminate).

(* 1' <TAB> oR <NBSP NUL CR> 1=1-- *)
Example C03wsc_example_or_eval :
  is_sqli (bs "1'" ++ [x09] ++ bs "oR" ++ [xa0; x00; x0d] ++ bs "1=1--") = Ok (true, bs "s&1c").
Proof. vm_compute. reflexivity. Qed.
Example C03wsc_example_or :
  exists fp, is_sqli (bs "1'" ++ [x09] ++ bs "oR" ++ [xa0; x00; x0d] ++ bs "1=1--") = Ok (true, fp).
Proof.
  apply (C03_core_any_whitespace_any_case_partial [bs "1'"; bs "OR"; bs "1=1--"] [[x09]; [xa0; x00; x0d]]
           (bs "1'" ++ [x09] ++ bs "OR" ++ [xa0; x00; x0d] ++ bs "1=1--")).
  - apply in_cases_sound. vm_compute. reflexivity.
  - split; [reflexivity|]. split; [|reflexivity]. repeat constructor.
  - left. split; [vm_compute; reflexivity|]. runs_tac.
  - repeat constructor.
Qed.

(* 1 <CR LF> uNiOn <VT> select <FF FF> 1 *)
Example C03wsc_example_union_eval :
  is_sqli (bs "1" ++ [x0d; x0a] ++ bs "uNiOn" ++ [x0b] ++ bs "select" ++ [x0c; x0c] ++ bs "1") = Ok (true, bs "1UE1").
Proof. vm_compute. reflexivity. Qed.
Example C03wsc_example_union :
  exists fp, is_sqli (bs "1" ++ [x0d; x0a] ++ bs "uNiOn" ++ [x0b] ++ bs "select" ++ [x0c; x0c] ++ bs "1") = Ok (true, fp).
Proof.
  apply (C03_core_any_whitespace_any_case_partial [bs "1"; bs "UNION"; bs "SELECT"; bs "1"] [[x0d; x0a]; [x0b]; [x0c; x0c]]
           (bs "1" ++ [x0d; x0a] ++ bs "UNION" ++ [x0b] ++ bs "SELECT" ++ [x0c; x0c] ++ bs "1")).
  - apply in_cases_sound. vm_compute. reflexivity.
  - split; [reflexivity|]. split; [|reflexivity]. repeat constructor.
  - left. split; [vm_compute; reflexivity|]. runs_tac.
  - repeat constructor.
Qed.

(* 1 <TAB> or <NUL> '1'='1'-- <LF TAB> X : the run inside the comment starts with the newline
   (reference separator: the newline); the text behind it changes case too *)
Example C03wsc_example_comment :
  exists fp, is_sqli (bs "1" ++ [x09] ++ bs "or" ++ [x00] ++ bs "'1'='1'--" ++ [x0a; x09] ++ bs "X") = Ok (true, fp).
Proof.
  apply (C03_core_any_whitespace_any_case_partial [bs "1"; bs "OR"; bs "'1'='1'--"; bs "x"] [[x09]; [x00]; [x0a; x09]]
           (bs "1" ++ [x09] ++ bs "OR" ++ [x00] ++ bs "'1'='1'--" ++ [x0a; x09] ++ bs "x")).
  - apply in_cases_sound. vm_compute. reflexivity.
  - split; [reflexivity|]. split; [|reflexivity]. repeat constructor.
  - right. split; [vm_compute; reflexivity|]. runs_tac. reflexivity.
  - repeat constructor.
Qed.

(* the case condition is needed in the generic statement: segments (not in the grammar) with the
   MySQL literal \N pass member_chk and are reported under whitespace runs, but are not liftable,
   and the case variant \n is indeed not reported *)
Example C03wsc_needed :
  liftable (inst [x20] [bs "1"; bs "OR"; [x5c] ++ bs "N=1"]) = false /\
  member_chk x20 [bs "1"; bs "OR"; [x5c] ++ bs "N=1"] = true /\
  is_sqli (bs "1" ++ [x09; x09] ++ bs "OR" ++ [xa0] ++ [x5c] ++ bs "N=1") = Ok (true, bs "1&1") /\
  is_sqli (bs "1" ++ [x09; x09] ++ bs "OR" ++ [xa0] ++ [x5c] ++ bs "n=1") = Ok (false, []).
Proof. vm_compute. repeat split. Qed.
