(* C14, second clause — decimal numbers, e-mail-like strings and simple
   punctuated sentences built from benign words are never reported as SQLi.

   The three families (Spec/ShapeSpec.v), in plain words:

     Decimal s    s = digits "." digits, both runs non-empty, any length.
     Email s      s = u "@" l1 "." l2 "." ... "." lk  (k >= 1), where u is a benign
                  word of C14 (`benign_word`: an identifier [A-Za-z_][A-Za-z0-9_]*
                  that is neither a key of the SQL keyword table nor a
                  space-separated component of a key) and every label li is a
                  non-empty run of [A-Za-z0-9_].  The labels need NOT be benign:
                  "bob@select.union" and "x@1.2" are members.  The reason is that
                  the tokenizer reads "@" and everything up to the next byte of
                  its variable stop set as ONE variable token, and '.' is not in
                  that set, so the domain is never looked up in the keyword table.
                  The word before the "@" must be benign (it is a bare-word token
                  that is looked up).
     Sentence s   s = W1 sep W2 sep ... sep Wk [closing]  (k >= 1), where every Wi is
                  a benign word optionally followed by a full stop ("Mr."), sep is
                  " " or ", ", and closing is nothing, "!" or "?".  A closing "."
                  is the full stop of the last word.

   They contain the families sampled by the Go harness (tools/harness/streams2.go,
   benignStream: shape-decimal = 1..8 digits "." 1..8 digits; shape-email = benign
   word "@" benign word "." one of com/org/net/io/example — two labels; shape-sentence
   = 2..6 benign words, a comma after some non-final words, then one of "." "" "!" "?")
   and are wider: no length bounds, any number of labels / words, labels that are
   keywords, full stops inside a sentence.  The inclusions are proved below
   (`harness_email`, `harness_tlds`, `harness_sentence`; the harness's decimal shape
   is `Decimal` itself).

   What is proved: for every member s, the model's IsSQLi returns Ok (false, "") —
   no Panic, no OutOfFuel, not SQLi.  No member of a family is reported as SQLi, so
   no family had to be restricted.

   How (Proofs/Shape*.v).  The proof runs on the Ref side of C06
   (is_sqli s = Ok (ref_is_sqli s), proved for all inputs):
     - ShapeLex: one call of the scanner on a state whose unread input starts with
       a non-blank byte (or one space and a non-blank byte) yields the token of
       Ref's lexeme (C06_every_lexer); the lexemes are computed symbolically:
       "3.14" is ONE number token; a benign word, with or without a full stop, in
       front of space , @ ! ? or the end is ONE bare-word token ('.' is not a word
       stop byte; the keyword split at '.' does not fire because the word is not a
       keyword; "WORD." is not a key because no key or key component ends in a dot
       — a sweep over the table); "@domain" is ONE variable token; "," is a comma
       token, a final "!" an operator token, "?" an unknown-class token.
       Every such token is a `gtok`: string marks clear, and a bare word can never
       start a two-word phrase of the keyword table (`headsafe`).
     - ShapeRules / ShapeFold: on a token stream over the classes n 1 v , in which
       an operator or unknown token can only be the very last one, Ref's folder
       (rule tables as data) applies exactly one rule, value , value -> value; no
       two-token rule, no five-token pattern, no other three-token rule matches
       (checked row by row for all class combinations).  The loop terminates within
       its fuel and returns 1..5 tokens with the same property.  Stated once over an
       abstract token source and instantiated with the model's tokenizer.
     - ShapeCheck: the fingerprint is one of the 9330 strings over {n,1,v,",",o,?} of
       length 1..5; none of those in which o / ? is last-only is blacklisted (a
       sweep with vm_compute; the only blacklisted strings over this alphabet are
       "1ov" and "n1ovo", which have an operator inside).  The comment counters stay
       0, so the MySQL re-parse is not requested; the input has no quote, so no
       quoted reading runs.
   The word-level side conditions are those of `benign_word`; they are computed from
   the regenerated keyword table, as in C14. *)
From Coq Require Import List ZArith String Bool.
From Coq.Strings Require Import Byte.
From LI Require Import Prelude Base SqliLex SqliFold Spec.BenignSpec Spec.ShapeSpec
  Proofs.ShapeDecimal Proofs.ShapeEmail Proofs.ShapeSentence.
Import ListNotations.
Local Open Scope Z_scope.

Theorem C14b_decimal : forall s, Decimal s -> is_sqli s = Ok (false, []).
Proof. exact decimal_not_sqli. Qed.
Print Assumptions C14b_decimal.

Theorem C14b_email : forall s, Email s -> is_sqli s = Ok (false, []).
Proof. exact email_not_sqli. Qed.
Print Assumptions C14b_email.

Theorem C14b_sentence : forall s, Sentence s -> is_sqli s = Ok (false, []).
Proof. exact sentence_not_sqli. Qed.
Print Assumptions C14b_sentence.

(* ---------- the harness families are included ---------- *)

(* shape-email: benign word "@" benign word "." tld *)
Lemma harness_email u v tld :
  benign_word u = true -> benign_word v = true -> label tld = true ->
  Email (u ++ bs "@" ++ v ++ bs "." ++ tld).
Proof.
  intros Hu Hv Ht. exists u, [v; tld]. split; [exact Hu|]. split; [discriminate|]. split; [|reflexivity].
  constructor; [|constructor; [exact Ht|constructor]].
  unfold benign_word in Hv. unfold label. destruct v as [|b v]; [discriminate|].
  apply andb_true_iff in Hv. destruct Hv as [Hv _]. apply andb_true_iff in Hv. tauto.
Qed.

Example harness_tlds : forallb label [bs "com"; bs "org"; bs "net"; bs "io"; bs "example"] = true.
Proof. vm_compute. reflexivity. Qed.

(* shape-sentence: words joined by single spaces, a comma attached to some of
   the non-final words, then one of "." "" "!" "?".  `hjoin w c rest` is the
   harness's strings.Join: the current word w, its comma flag c, the further
   (word, comma flag) pairs; the flag of the last word is ignored. *)
Fixpoint hjoin (w : bytes) (c : bool) (rest : list (bytes * bool)) : bytes :=
  match rest with
  | [] => w
  | (w', c') :: rest' => w ++ (if c then [x2c] else []) ++ x20 :: hjoin w' c' rest'
  end.

Definition isnil {A} (l : list A) : bool := match l with [] => true | _ => false end.

(* the same words in the form of Spec/ShapeSpec.v: the comma goes with the next
   word, a closing full stop (dl) with the last one *)
Fixpoint conv (c : bool) (rest : list (bytes * bool)) (dl : bool) : list sword :=
  match rest with
  | [] => []
  | (w', c') :: rest' => (c, (w', isnil rest' && dl)) :: conv c' rest' dl
  end.

Lemma hjoin_conv : forall (rest : list (bytes * bool)) (w : bytes) (c dl : bool),
  (hjoin w c rest ++ (if dl then [x2e] else []))%list
  = (dotted (isnil rest && dl) w ++ List.concat (map piece (conv c rest dl)))%list.
Proof.
  induction rest as [|[w' c'] rest IH]; intros w c dl; cbn [hjoin conv map List.concat isnil andb].
  - rewrite app_nil_r. destruct dl; cbn [dotted]; [reflexivity|apply app_nil_r].
  - cbn [dotted piece]. rewrite <- !app_assoc. f_equal. f_equal. cbn [app]. f_equal. apply IH.
Qed.

Lemma conv_words : forall (rest : list (bytes * bool)) (c dl : bool),
  Forall (fun x => benign_word (fst x) = true) rest ->
  Forall (fun x : sword => benign_word (fst (snd x)) = true) (conv c rest dl).
Proof.
  induction rest as [|[w' c'] rest IH]; intros c dl H; cbn [conv]; [constructor|].
  inversion H; subst. constructor; [assumption|apply IH; assumption].
Qed.

Lemma harness_sentence w c rest fin :
  benign_word w = true -> Forall (fun x => benign_word (fst x) = true) rest ->
  In fin [bs "."; []; bs "!"; bs "?"] ->
  Sentence (hjoin w c rest ++ fin).
Proof.
  intros Hw Hr Hf. cbn [In] in Hf. destruct Hf as [<-|[<-|[<-|[<-|[]]]]].
  - exists w, (isnil rest && true), (conv c rest true), []. split; [exact Hw|]. split; [apply conv_words; exact Hr|].
    split; [reflexivity|]. rewrite app_nil_r. apply (hjoin_conv rest w c true).
  - exists w, (isnil rest && false), (conv c rest false), []. split; [exact Hw|]. split; [apply conv_words; exact Hr|].
    split; [reflexivity|]. rewrite (app_nil_r (List.concat _)). apply (hjoin_conv rest w c false).
  - exists w, (isnil rest && false), (conv c rest false), (bs "!"). split; [exact Hw|]. split; [apply conv_words; exact Hr|].
    split; [reflexivity|]. rewrite app_assoc, <- (hjoin_conv rest w c false), app_nil_r. reflexivity.
  - exists w, (isnil rest && false), (conv c rest false), (bs "?"). split; [exact Hw|]. split; [apply conv_words; exact Hr|].
    split; [reflexivity|]. rewrite app_assoc, <- (hjoin_conv rest w c false), app_nil_r. reflexivity.
Qed.

Example harness_sentence_ex : hjoin (bs "hello") true [(bs "world", false); (bs "again", true)] ++ bs "." = bs "hello, world again.".
Proof. reflexivity. Qed.

(* ---------- members, shown to be in the family and evaluated ---------- *)

Ltac ev := vm_compute; reflexivity.

(* decimals *)
Example ex_dec1_member : Decimal (bs "3.14").
Proof. exists (bs "3"), (bs "14"). split; [ev|]. split; [ev|reflexivity]. Qed.
Example ex_dec1_eval : is_sqli (bs "3.14") = Ok (false, []).
Proof. ev. Qed.
Example ex_dec2_member : Decimal (bs "007.50") /\ Decimal (bs "0.5") /\ Decimal (bs "12345678.87654321").
Proof.
  split; [exists (bs "007"), (bs "50")|split; [exists (bs "0"), (bs "5")|exists (bs "12345678"), (bs "87654321")]];
    (split; [ev|]; split; [ev|reflexivity]).
Qed.
Example ex_dec2_eval : is_sqli (bs "007.50") = Ok (false, []) /\ is_sqli (bs "0.5") = Ok (false, []).
Proof. split; ev. Qed.
(* the theorem instantiated *)
Example ex_dec_by_theorem : is_sqli (bs "3.14") = Ok (false, []).
Proof. apply C14b_decimal. exact ex_dec1_member. Qed.

(* e-mail-like strings *)
Example ex_mail1_member : Email (bs "hello@example.com").
Proof.
  exists (bs "hello"), [bs "example"; bs "com"]. split; [ev|]. split; [discriminate|]. split; [|reflexivity].
  repeat constructor.
Qed.
Example ex_mail1_eval : is_sqli (bs "hello@example.com") = Ok (false, []).
Proof. ev. Qed.
(* several labels *)
Example ex_mail2_member : Email (bs "my_name2@mail.example.org").
Proof.
  exists (bs "my_name2"), [bs "mail"; bs "example"; bs "org"]. split; [ev|]. split; [discriminate|]. split; [|reflexivity].
  repeat constructor.
Qed.
Example ex_mail2_eval : is_sqli (bs "my_name2@mail.example.org") = Ok (false, []).
Proof. ev. Qed.
(* the labels may be SQL keywords or start with a digit: they are inside the variable token *)
Example ex_mail3_member : Email (bs "bob@select.union") /\ Email (bs "x@1.2") /\ Email (bs "bob@localhost").
Proof.
  split; [exists (bs "bob"), [bs "select"; bs "union"]|split; [exists (bs "x"), [bs "1"; bs "2"]|exists (bs "bob"), [bs "localhost"]]];
    (split; [ev|]; split; [discriminate|]; split; [|reflexivity]; repeat constructor).
Qed.
Example ex_mail3_eval : is_sqli (bs "bob@select.union") = Ok (false, []) /\ is_sqli (bs "x@1.2") = Ok (false, []).
Proof. split; ev. Qed.
Example ex_mail_by_theorem : is_sqli (bs "bob@select.union") = Ok (false, []).
Proof. apply C14b_email. apply ex_mail3_member. Qed.

(* sentences *)
Example ex_sent1_member : Sentence (bs "hello, world.").
Proof.
  exists (bs "hello"), false, [(true, (bs "world", true))], []. split; [ev|]. split; [|split; reflexivity].
  repeat constructor.
Qed.
Example ex_sent1_eval : is_sqli (bs "hello, world.") = Ok (false, []).
Proof. ev. Qed.
(* nine words: more than the five-token window; commas fold, the "!" comes last *)
Example ex_sent2_member : Sentence (bs "the quick, brown fox jumps over the lazy, lazy dog!").
Proof.
  exists (bs "the"), false,
    [(false, (bs "quick", false)); (true, (bs "brown", false)); (false, (bs "fox", false));
     (false, (bs "jumps", false)); (false, (bs "over", false)); (false, (bs "the", false));
     (false, (bs "lazy", false)); (true, (bs "lazy", false)); (false, (bs "dog", false))], (bs "!").
  split; [ev|]. split; [|split; reflexivity]. repeat constructor.
Qed.
Example ex_sent2_eval : is_sqli (bs "the quick, brown fox jumps over the lazy, lazy dog!") = Ok (false, []).
Proof. ev. Qed.
(* full stops inside, a question mark at the end *)
Example ex_sent3_member : Sentence (bs "Mr. Smith went home?").
Proof.
  exists (bs "Mr"), true, [(false, (bs "Smith", false)); (false, (bs "went", false)); (false, (bs "home", false))], (bs "?").
  split; [ev|]. split; [|split; reflexivity]. repeat constructor.
Qed.
Example ex_sent3_eval : is_sqli (bs "Mr. Smith went home?") = Ok (false, []).
Proof. ev. Qed.
Example ex_sent_by_theorem : is_sqli (bs "Mr. Smith went home?") = Ok (false, []).
Proof. apply C14b_sentence. exact ex_sent3_member. Qed.

(* ---------- near misses: outside the families, and caught ---------- *)

(* a sentence containing "or 1=1" *)
Example ex_or_caught : is_sqli (bs "hello, world or 1=1") = Ok (true, bs "n&1").
Proof. ev. Qed.
Example ex_or_not_sentence : ~ Sentence (bs "hello, world or 1=1").
Proof. intros H. apply C14b_sentence in H. vm_compute in H. discriminate. Qed.

(* a sentence containing "union select" *)
Example ex_union_caught : is_sqli (bs "hello, world union select name") = Ok (true, bs "nUEn").
Proof. ev. Qed.
Example ex_union_not_sentence : ~ Sentence (bs "hello, world union select name").
Proof. intros H. apply C14b_sentence in H. vm_compute in H. discriminate. Qed.

(* a decimal followed by a tautology *)
Example ex_dec_or_caught : is_sqli (bs "3.14 or 1=1") = Ok (true, bs "1&1").
Proof. ev. Qed.
Example ex_dec_or_not_decimal : ~ Decimal (bs "3.14 or 1=1").
Proof. intros H. apply C14b_decimal in H. vm_compute in H. discriminate. Qed.

(* an e-mail address breaking out of a quoted string *)
Example ex_mail_quote_caught : is_sqli (bs "bob@example.com' or '1'='1") = Ok (true, bs "s&sos").
Proof. ev. Qed.
Example ex_mail_quote_not_email : ~ Email (bs "bob@example.com' or '1'='1").
Proof. intros H. apply C14b_email in H. vm_compute in H. discriminate. Qed.
