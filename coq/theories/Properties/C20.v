(* C20 — shipped detection tables are well-formed and keep the pinned baseline.
   Finite and exhaustive: every statement is a boolean sweep over the tables
   regenerated from /repo's source on this run, decided by vm_compute. *)
From Coq Require Import List ZArith String Bool.
From Coq.Strings Require Import Byte.
From LI Require Import Prelude Base SqliLex Xss Baseline Spec.TableSpec Proofs.BaseFacts.
Import ListNotations.

Theorem C20_keywords_wellformed :
  forall kv, In kv sql_keywords -> keyword_wf kv = true.
Proof. apply forallb_forall. vm_compute. reflexivity. Qed.
Print Assumptions C20_keywords_wellformed.

(* keys pairwise distinct: the map built from the list has as many bindings as
   the list has entries (two equal keys would share one binding), and looking
   up any listed key returns its listed class. *)
Theorem C20_keys_distinct_and_map_faithful :
  FMapPositive.PositiveMap.cardinal sql_kwmap = List.length sql_keywords /\
  map_agrees sql_keywords = true.
Proof. split; vm_compute; reflexivity. Qed.
Print Assumptions C20_keys_distinct_and_map_faithful.

Theorem C20_xss_names_wellformed :
  (forall t, In t black_tags -> name_wf t = true /\ (3 <=? len t)%Z = true) /\
  (forall e, In e black_events -> name_wf (fst e) = true /\ attr_type_ok (snd e) = true) /\
  (forall e, In e blacks -> name_wf (fst e) = true /\ attr_type_ok (snd e) = true) /\
  List.length hex_decode_map = 256%nat.
Proof.
  repeat split.
  - revert t H. apply forallb_forall. vm_compute. reflexivity.
  - revert t H. apply forallb_forall. vm_compute. reflexivity.
  - revert e H. apply forallb_forall. vm_compute. reflexivity.
  - revert e H. apply forallb_forall. vm_compute. reflexivity.
  - revert e H. apply forallb_forall. vm_compute. reflexivity.
  - revert e H. apply forallb_forall. vm_compute. reflexivity.
Qed.
Print Assumptions C20_xss_names_wellformed.

Theorem C20_baseline_kept : baseline_kept = true.
Proof. vm_compute. reflexivity. Qed.
Print Assumptions C20_baseline_kept.

(* readable corollary: every baseline keyword / fingerprint is found with the same class *)
Theorem C20_baseline_keywords :
  forall k v, In (k, v) base_sql_keywords -> kw_find sql_kwmap k = v.
Proof.
  intros k v H.
  assert (E : forallb (fun kv => beq (kw_find sql_kwmap (fst kv)) (snd kv)) base_sql_keywords = true)
    by (vm_compute; reflexivity).
  rewrite forallb_forall in E. specialize (E _ H). cbn in E.
  unfold beq in E. apply Z.eqb_eq in E. unfold code in E.
  apply N2Z.inj in E.
  assert (I : forall a b, Byte.to_N a = Byte.to_N b -> a = b).
  { intros a b Hab. pose proof (Byte.of_to_N a) as Ha. pose proof (Byte.of_to_N b) as Hb.
    rewrite Hab in Ha. rewrite Ha in Hb. congruence. }
  apply I. exact E.
Qed.
Print Assumptions C20_baseline_keywords.

(* every key is reachable by the case-folding look-up of the lexers (searchKeyword),
   written as listed and written in lower case; likewise every XSS name through
   isBlackTag / isBlackAttr *)
Theorem C20_keys_reachable :
  forall k v, In (k, v) sql_keywords ->
    search_keyword k = v /\ search_keyword (map lower_ascii k) = v.
Proof.
  intros k v H.
  assert (E : forallb (fun kv => beq (search_keyword (fst kv)) (snd kv)
                                 && beq (search_keyword (map lower_ascii (fst kv))) (snd kv)) sql_keywords = true)
    by (vm_compute; reflexivity).
  rewrite forallb_forall in E. specialize (E _ H). cbn [fst snd] in E.
  apply andb_true_iff in E. destruct E as [E1 E2].
  split; apply Proofs.BaseFacts.beq_eq; assumption.
Qed.
Print Assumptions C20_keys_reachable.

Theorem C20_xss_names_reachable :
  (forall t, In t black_tags -> is_black_tag t = true /\ is_black_tag (map lower_ascii t) = true) /\
  (forall e, In e blacks -> is_black_attr (fst e) = snd e /\ is_black_attr (map lower_ascii (fst e)) = snd e) /\
  (forall e, In e black_events ->
     is_black_attr (bs "ON" ++ fst e) = snd e /\ is_black_attr (bs "on" ++ map lower_ascii (fst e)) = snd e).
Proof.
  split; [|split].
  - intros t H.
    assert (E : forallb (fun t => is_black_tag t && is_black_tag (map lower_ascii t)) black_tags = true)
      by (vm_compute; reflexivity).
    rewrite forallb_forall in E. specialize (E _ H). apply andb_true_iff in E. exact E.
  - intros e H.
    assert (E : forallb (fun e => (is_black_attr (fst e) =? snd e)%Z && (is_black_attr (map lower_ascii (fst e)) =? snd e)%Z) blacks = true)
      by (vm_compute; reflexivity).
    rewrite forallb_forall in E. specialize (E _ H). apply andb_true_iff in E. destruct E as [E1 E2].
    split; apply Z.eqb_eq; assumption.
  - intros e H.
    assert (E : forallb (fun e => (is_black_attr (bs "ON" ++ fst e) =? snd e)%Z
                                  && (is_black_attr (bs "on" ++ map lower_ascii (fst e)) =? snd e)%Z) black_events = true)
      by (vm_compute; reflexivity).
    rewrite forallb_forall in E. specialize (E _ H). apply andb_true_iff in E. destruct E as [E1 E2].
    split; apply Z.eqb_eq; assumption.
Qed.
Print Assumptions C20_xss_names_reachable.

(* non-vacuity: the tables are not empty and contain the entries one expects *)
Example C20_nonvacuous :
  (9000 <? Z.of_nat (List.length sql_keywords))%Z = true /\
  kw_find sql_kwmap (bs "UNION ALL") = "U"%byte /\
  kw_find sql_kwmap (bs "0S&1UE") = "F"%byte /\
  In (bs "SCRIPT") black_tags.
Proof. vm_compute. intuition. Qed.
