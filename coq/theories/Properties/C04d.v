(* C04 (extension) -- the canonical XSS vectors behind more break-out prefixes.

   In the comments D stands for the double-quote byte, TAB LF NUL for the bytes
   0x09 0x0a 0x00.

   WHY.  The grammar of C04 (Spec/GrammarXss.v) puts its vectors behind five
   attribute prefixes ( <a SPACE, x SPACE, x' SPACE, xD SPACE, x` SPACE ) and
   five element prefixes.  Every attribute prefix ends in a space and has the
   filler byte x in front of the quote.  A seeded defect showed that this is
   too narrow: the attack
       D onmouseover=alert(1)//      written without the blank: the quote is
                                      the first byte of the input and the
                                      attribute name follows it directly
   is neither a member nor a case variant of a member of that family.

   THE FAMILY.  xss_ext (Spec/GrammarXss2.v) takes the same productions and
   puts them behind more prefixes.
   - 19 attribute prefixes (ext_attr_prefixes): a quote alone (' D `); filler
     and quote (x' xD x`); a quote followed by a space, a slash, a TAB, a NUL
     (' SPACE, '/, x'/, D/, ' TAB, ' NUL); an unquoted value ended by LF or by
     a slash (x LF, x/); an open tag with the other separators (<a/, <a TAB,
     <a LF, <a NUL SPACE); quote, space, NUL (x' SPACE NUL).  Behind each:
     every listed on* event handler of type 1 under the five value quotings
     (p_events), every entry of the attribute list (p_blacks: URL attributes x
     four schemes x three quotings, black / style attributes x three quotings,
     indirect attributes), XMLNS / XLINK (p_xmlns_xlink).  1 791 vectors per
     prefix.
   - 6 element prefixes (ext_elem_prefixes: '> D> `> x' SPACE > x'/> x LF >).
     Behind each: every blacklisted element under the four name terminators
     (p_black_tags), SVT / XSL (p_svt_xsl), <a SEP ONCLICK=x for the seven
     separators (p_event_seps), the ten markup vectors (p_markup).  99 vectors
     per prefix.
   34 623 vectors in all.  All 19 + 6 prefixes that were proposed are in the
   lists: the model reports every vector, none had to be taken out.

   WHAT IS PROVED.

   1. The finite family and its case variants (vm_compute sweeps).
   C04_ext             every member of xss_ext is reported by the model of IsXSS.
   C04_ext_any_case    every ASCII case assignment of every member is reported
                       (by C11a; its side condition -- no member contains a
                       CDATA look-alike -- is checked by a second sweep).
   C04_ext_attr_any_case / C04_ext_elem_any_case: the same, stated per prefix.

   2. Any prefix of a certain shape (symbolic proofs, no sweep over vectors).
   C04c proves its lifting theorems (NUL bytes and letter case inside names,
   URL schemes through any encoding) for the five prefixes of the core grammar,
   one prefix at a time.  Here they are proved for EVERY prefix that passes a
   decidable test, and all 5 + 19 attribute prefixes and 5 + 6 element
   prefixes pass it (C04_attr_prefixes_ok, C04_elem_prefixes_ok).
     attr_prefix_ok apre : in one of the five injection contexts the tokenizer
       reads apre as exactly ONE token followed by bytes that it skips in front
       of an attribute name:
         element content:        <TAGNAME then a white-space byte or a slash
         inside a tag:           NAME (the end of an unquoted value) then a
                                 white-space byte or a slash
         inside a quoted value:  any bytes without the quote, then the quote
       and then  nothing | blanks (white space, NUL) | one slash and blanks
       (what exactly may follow depends on the place reached: name_gap).
     elem_prefix_ok pre : pre is empty, or one such token (or a tag / attribute
       name ended by >) followed by bytes that end the tag: blanks and >, or
       /> (tag_gap).
   C04_ext_url_any_encoding, C04_ext_url_quoted, C04_ext_url_quoted_unterminated,
   C04_ext_url_unquoted: the four URL theorems of C04c behind any good
       attribute prefix (same hypotheses on name, quoting, junk, spelling).
   C04_ext_attr_vectors_variant: every vector of the attribute productions
       behind a good prefix stays reported when its attribute name is replaced
       by any name_variant (letter case changed, NULs strictly inside).
   C04_ext_event_any_value: a variant of a listed event handler, an equals
       sign, and ANY value that has a byte other than white space / NUL, behind
       any good attribute prefix.  The attack quoted above is literally an
       instance (C04d_attack_is_instance).
   C04_ext_tag_variant, C04_ext_elem_vectors_variant: variants of blacklisted
       element names in front of any terminator, and of the name-bearing
       element productions, behind any good element prefix.

   WHAT IS NOT PROVED.
   - Part 1 is about the listed 19 + 6 prefixes and their case variants only.
     Part 2 is about prefixes that make up one token.  Longer prefixes (several
     attributes before the injected one, e.g. <img src=x SPACE) and text in
     front of a tag (x<script> is reported, but elem_prefix_ok x is false) are
     outside both.  The test is sufficient, not necessary.
   - In the members of xss_ext the value of an event handler is the byte x.
   - The markup vectors (DOCTYPE, comments, ...) are covered by part 1 only.
   - Part 2 does not combine a name variant with a case change of the other
     bytes of the vector (the prefix filler, the value); case variants of whole
     vectors are part 1.
   - As for C04: the family is rebuilt from the regenerated lists black_tags /
     black_events / blacks; an entry dropped from a list shrinks the family
     (caught by the C20 baseline, not here).

   PROOF.  Part 1: vm_compute sweeps sharded over the prefixes
   (Proofs/C04Ext0..5.v: four attribute prefixes per shard, the six element
   prefixes in the last), assembled in Proofs/C04ExtLift.v, where the two
   statements are first proved for an arbitrary list that passes the sweeps and
   then instantiated.  Part 2: Proofs/C04ExtLift.v, on top of the symbolic
   evaluation of Ref in Proofs/XLiftRef.v (is_xss = Ref by C07). *)
From Coq Require Import List ZArith String Bool Lia.
From Coq.Strings Require Import Byte.
From LI Require Import Prelude Base Html5 Xss Spec.DecodeSpec Spec.RefHtml Spec.GrammarXss Spec.GrammarXss2
  Proofs.XLiftSpec Proofs.XLiftRef Proofs.XLiftNames Proofs.C04ExtLift.
From LI Require Spec.XCiSpec Properties.C04.
Import ListNotations.
Local Open Scope Z_scope.

(* ================================================================== *)
(* 1. The finite family and its case variants                          *)
(* ================================================================== *)

Theorem C04_ext : forall v, In v xss_ext -> is_xss v = Ok true.
Proof. exact xss_ext_sound. Qed.
Print Assumptions C04_ext.

Theorem C04_ext_any_case :
  forall v s', In v xss_ext -> XCiSpec.cv v s' -> is_xss s' = Ok true.
Proof. exact xss_ext_case_lift. Qed.
Print Assumptions C04_ext_any_case.

Theorem C04_ext_attr_any_case :
  forall apre v s', In apre ext_attr_prefixes -> In v (xss_ext_attr apre) -> XCiSpec.cv v s' ->
    is_xss s' = Ok true.
Proof. exact xss_ext_attr_case_lift. Qed.
Print Assumptions C04_ext_attr_any_case.

Theorem C04_ext_elem_any_case :
  forall pre v s', In pre ext_elem_prefixes -> In v (xss_ext_elem pre) -> XCiSpec.cv v s' ->
    is_xss s' = Ok true.
Proof. exact xss_ext_elem_case_lift. Qed.
Print Assumptions C04_ext_elem_any_case.

(* ---------- non-vacuity ---------- *)

(* D onmouseover=x : the attack of the seeded defect with the value of the
   grammar, as a case variant of the member D ONMOUSEOVER=x *)
Example C04d_attr_nonvacuous :
  In (dq ++ bs "ONMOUSEOVER=x") xss_ext /\
  XCiSpec.cv (dq ++ bs "ONMOUSEOVER=x") (dq ++ bs "onmouseover=x") /\
  is_xss (dq ++ bs "onmouseover=x") = Ok true.
Proof.
  assert (H1 : In (dq ++ bs "ONMOUSEOVER=x") xss_ext).
  { apply (in_xss_ext_attr dq); apply Properties.C04.mem_in; vm_compute; reflexivity. }
  assert (H2 : XCiSpec.cv (dq ++ bs "ONMOUSEOVER=x") (dq ++ bs "onmouseover=x")) by (repeat constructor).
  split; [exact H1|]. split; [exact H2|]. exact (C04_ext_any_case _ _ H1 H2).
Qed.

(* D><script> as a case variant of the member D><SCRIPT> *)
Example C04d_elem_nonvacuous :
  In (dq ++ bs "><SCRIPT>") xss_ext /\
  XCiSpec.cv (dq ++ bs "><SCRIPT>") (dq ++ bs "><sCrIpT>") /\
  is_xss (dq ++ bs "><sCrIpT>") = Ok true.
Proof.
  assert (H1 : In (dq ++ bs "><SCRIPT>") xss_ext).
  { apply (in_xss_ext_elem (dq ++ bs ">")); apply Properties.C04.mem_in; vm_compute; reflexivity. }
  assert (H2 : XCiSpec.cv (dq ++ bs "><SCRIPT>") (dq ++ bs "><sCrIpT>")) by (repeat constructor).
  split; [exact H1|]. split; [exact H2|]. exact (C04_ext_any_case _ _ H1 H2).
Qed.

(* size, a few members, and the old family did not contain them *)
Example C04d_family :
  List.length xss_ext = (19 * 1791 + 6 * 99)%nat /\
  List.length ext_attr_prefixes = 19%nat /\ List.length ext_elem_prefixes = 6%nat /\
  In (sq ++ bs "ONERROR=x") xss_ext /\
  In (bs "x" ++ sq ++ bs "/HREF=JAVASCRIPT:x") xss_ext /\
  In (bs "<a/STYLE='x'") xss_ext /\
  In (bq ++ bs "><!DOCTYPE html>") xss_ext /\
  existsb (bytes_eqb (dq ++ bs "ONMOUSEOVER=x")) xss_core = false /\
  existsb (bytes_eqb (dq ++ bs "><SCRIPT>")) xss_core = false.
Proof.
  repeat split; try (apply Properties.C04.mem_in); vm_compute; reflexivity.
Qed.

(* ================================================================== *)
(* 2. Any prefix that is one token                                     *)
(* ================================================================== *)

(* all attribute prefixes of the core grammar and of the extension pass the test *)
Theorem C04_attr_prefixes_ok :
  forall apre, In apre (attr_breakouts ++ ext_attr_prefixes) -> attr_prefix_ok apre = true.
Proof. exact attr_prefix_in_ok. Qed.
Print Assumptions C04_attr_prefixes_ok.

Theorem C04_elem_prefixes_ok :
  forall pre, In pre (breakouts ++ ext_elem_prefixes) -> elem_prefix_ok pre = true.
Proof. exact elem_prefix_in_ok. Qed.
Print Assumptions C04_elem_prefixes_ok.

(* ---------- A. URL schemes through any encoding (C04c, part A) ---------- *)

Theorem C04_ext_url_any_encoding :
  forall apre A A' q junk name enc tail rest,
    attr_prefix_ok apre = true -> In (A, 2) blacks -> name_variant A A' -> In q quotes3 ->
    forallb is_junk junk = true -> In name dangerous_schemes ->
    Spells true name enc (hd_error (tail ++ q ++ rest)) ->
    value_kept q junk enc tail ->
    is_xss (apre ++ A' ++ bs "=" ++ q ++ junk ++ enc ++ tail ++ q ++ rest) = Ok true.
Proof. exact url_any_quoting_g. Qed.
Print Assumptions C04_ext_url_any_encoding.

Theorem C04_ext_url_quoted :
  forall apre A A' bl q junk name enc tail rest,
    attr_prefix_ok apre = true -> In (A, 2) blacks -> name_variant A A' ->
    forallb is_blank bl = true -> is_quote_byte q = true ->
    forallb is_junk junk = true -> In name dangerous_schemes ->
    Spells true name enc (hd_error tail) ->
    forallb (fun b => negb (beq q b)) (junk ++ enc ++ tail) = true ->
    is_xss (apre ++ A' ++ x3d :: bl ++ q :: (junk ++ enc ++ tail) ++ q :: rest) = Ok true.
Proof. exact url_quoted_g. Qed.
Print Assumptions C04_ext_url_quoted.

Theorem C04_ext_url_quoted_unterminated :
  forall apre A A' bl q junk name enc tail,
    attr_prefix_ok apre = true -> In (A, 2) blacks -> name_variant A A' ->
    forallb is_blank bl = true -> is_quote_byte q = true ->
    forallb is_junk junk = true -> In name dangerous_schemes ->
    Spells true name enc (hd_error tail) ->
    forallb (fun b => negb (beq q b)) (junk ++ enc ++ tail) = true ->
    is_xss (apre ++ A' ++ x3d :: bl ++ q :: junk ++ enc ++ tail) = Ok true.
Proof. exact url_quoted_open_g. Qed.
Print Assumptions C04_ext_url_quoted_unterminated.

Theorem C04_ext_url_unquoted :
  forall apre A A' junk name enc rest,
    attr_prefix_ok apre = true -> In (A, 2) blacks -> name_variant A A' ->
    forallb is_junk junk = true -> In name dangerous_schemes ->
    Spells true name enc (hd_error rest) ->
    forallb (fun b => negb (ends_unquoted b)) (junk ++ enc) = true ->
    is_xss (apre ++ A' ++ x3d :: junk ++ enc ++ rest) = Ok true.
Proof. exact url_unquoted_g. Qed.
Print Assumptions C04_ext_url_unquoted.

(* ---------- B. name variants (C04c, part B) ---------- *)

Theorem C04_ext_attr_vectors_variant :
  forall apre v, attr_prefix_ok apre = true -> In v (xss_ext_attr apre) ->
    exists name post, v = apre ++ name ++ post /\
      forall name', name_variant name name' -> is_xss (apre ++ name' ++ post) = Ok true.
Proof. exact ext_attr_vectors_variant. Qed.
Print Assumptions C04_ext_attr_vectors_variant.

Theorem C04_ext_event_any_value :
  forall apre ev N' post, attr_prefix_ok apre = true ->
    In (ev, 1) black_events -> name_variant (bs "ON" ++ ev) N' ->
    existsb (fun b => negb (is_blank b)) post = true ->
    is_xss (apre ++ N' ++ x3d :: post) = Ok true.
Proof. exact event_any_value_g. Qed.
Print Assumptions C04_ext_event_any_value.

Theorem C04_ext_tag_variant :
  forall pre T T' rest, elem_prefix_ok pre = true ->
    In T (black_tags ++ [bs "SVT"; bs "XSL"]) -> name_variant T T' ->
    match rest with [] => True | b :: _ => ends_tag_name b = true end ->
    is_xss (pre ++ x3c :: T' ++ rest) = Ok true.
Proof. exact tag_variant_g. Qed.
Print Assumptions C04_ext_tag_variant.

Theorem C04_ext_elem_vectors_variant :
  forall pre v, elem_prefix_ok pre = true ->
    In v (p_black_tags pre ++ p_svt_xsl pre ++ p_event_seps pre) ->
    exists pre' name post, v = pre' ++ name ++ post /\
      forall name', name_variant name name' -> is_xss (pre' ++ name' ++ post) = Ok true.
Proof. exact ext_elem_vectors_variant. Qed.
Print Assumptions C04_ext_elem_vectors_variant.

(* ---------- examples for part 2 ---------- *)

Lemma mem_in_pair k (v : Z) l :
  existsb (fun e : bytes * Z => bytes_eqb (fst e) k && (snd e =? v)) l = true -> In (k, v) l.
Proof.
  intro H. apply existsb_exists in H. destruct H as [[k' v'] [Hin He]]. cbn [fst snd] in He.
  apply andb_true_iff in He. destruct He as [E1 E2].
  apply Proofs.BaseFacts.bytes_eqb_eq in E1. apply Z.eqb_eq in E2. subst. exact Hin.
Qed.

(* the attack of the seeded defect, with its real value, is an instance of
   C04_ext_event_any_value: prefix D, event MOUSEOVER, name in lower case *)
Example C04d_attack_is_instance :
  is_xss (dq ++ bs "onmouseover=alert(1)//") = Ok true.
Proof.
  apply (C04_ext_event_any_value dq (bs "MOUSEOVER") (bs "onmouseover") (bs "alert(1)//")).
  - apply C04_attr_prefixes_ok. apply Properties.C04.mem_in. vm_compute. reflexivity.
  - apply mem_in_pair. vm_compute. reflexivity.
  - apply variant_cv. repeat constructor.
  - vm_compute. reflexivity.
Qed.

(* D><sc NUL ript>alert(1)</script> as an instance of C04_ext_tag_variant *)
Example C04d_script_is_instance :
  is_xss (dq ++ bs "><sc" ++ [x00] ++ bs "Ript>alert(1)</script>") = Ok true.
Proof.
  apply (C04_ext_tag_variant (dq ++ bs ">") (bs "SCRIPT") (bs "sc" ++ [x00] ++ bs "Ript") (bs ">alert(1)</script>")).
  - apply C04_elem_prefixes_ok. apply Properties.C04.mem_in. vm_compute. reflexivity.
  - apply Properties.C04.mem_in. vm_compute. reflexivity.
  - exists (bs "scRipt"). split; [repeat constructor|].
    apply (NI_ins (bs "scRipt") (bs "sc") (bs "Ript")); [apply NI_same|discriminate|discriminate].
  - reflexivity.
Qed.

(* the tests are not constantly true, and they matter: without a closing quote
   the same bytes are not reported *)
Example C04d_tests_discriminate :
  attr_prefix_ok (bs "x") = false /\ is_xss (bs "xONCLICK=x") = Ok false /\
  attr_prefix_ok (bs "x'x") = false /\ is_xss (bs "x'xONCLICK=x") = Ok false /\
  attr_prefix_ok (sq ++ sq) = false /\
  elem_prefix_ok (bs "x") = false /\
  attr_prefix_ok (bs "<div" ++ [x0c]) = true /\ elem_prefix_ok (bs "x'" ++ [x09; x00] ++ bs ">") = true.
Proof. vm_compute. repeat split; reflexivity. Qed.
