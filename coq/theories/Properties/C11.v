(* C11 (a) -- changing the case of ASCII letters never changes the IsXSS verdict.

   cv s s' says that s' is s with some ASCII letters (a-z, A-Z) switched to
   the other case: same length and, byte by byte, the same byte once lower-case
   ASCII letters are upper-cased (bytes >= 0x80 and all non-letters must be
   identical).

   For every such pair the model of IsXSS returns the same result on s' as on
   s, and so does every single injection context (xss_ctx s fl, fl = 0 data,
   1 unquoted, 2 single-, 3 double-, 4 back-quoted attribute value; in fact any
   flag value) -- with one exclusion.  The tokenizer has exactly one
   case-sensitive marker: right behind "<!" the seven bytes "[CDATA[" open a
   CDATA section only in this exact spelling; "[cdata[", "[CdAtA[", ... open a
   bogus comment instead.  A CDATA section ends at "]]>", is plain text, and
   the bogus comment ends at the first ">" and is inspected as a comment, so
   the verdicts can differ in both directions (see the last two examples).
   What is excluded (no_cdata_like s = true, Spec/XCiSpec.v): s contains,
   at some position, the nine bytes "<![CDATA[" in ANY letter case, the exact
   upper-case spelling included (s itself may be harmless, but one of its case
   variants is the other spelling).  The exclusion does not depend on which
   side of the pair is looked at (cv-symmetric) and every suffix of an allowed
   input is allowed.

   The result is an equality of results of the error monad: no totality fact
   is used; the two runs are related step by step, failures included.

   Proof: Proofs/XCiBase.v (generic lemmas), Proofs/XCiH5.v (the tokenizer runs
   in lock-step on s and s': same position, state, token offsets / lengths /
   types), Proofs/XCiXss.v (entity decoder, URL schemes, tag and attribute
   tables, the loop of isXSS).

   C11 (b) -- in any one injection context, inserting a NUL byte inside an
   element name or attribute name never changes that context's verdict.

   Let s = pre ++ name ++ post and let the scan of context fl over s
   (h5_tokens s fl: all tokens of repeated h5State.next() calls, a superset of
   what isXSS consumes before it returns) contain a tag-name-open token (type
   1) or an attribute-name token (type 6) that covers exactly `name`, i.e.
   starts at offset |pre| and has length |name|.  Then for every k strictly
   inside the name (0 < k < |name|) the input with one NUL byte inserted after
   the first k bytes of the name has the same result in context fl:
     xss_ctx (pre ++ name[:k] ++ [NUL] ++ name[k:] ++ post) fl = xss_ctx s fl.
   (Any flag value; outside 0..4 the scan emits nothing.)  No counter-example
   exists: before the proof the statement was tested by vm_compute on 630
   hand-picked insertions and, token stream against token stream, on all
   strings up to length 7 over small structural alphabets in all 5 contexts.

   Proof: Proofs/XCiNulBase.v (scans across an inserted NUL; the tag and
   attribute tables look names up after removing NULs, and the raw-length test
   `len < 3` of isBlackTag cannot flip because every table entry, SVT and XSL
   included, has at least 3 bytes), Proofs/XCiNulMono.v (a step never moves
   backwards, a name token never starts before the step's position),
   Proofs/XCiNulH5.v (simulation of the tokenizer: identical before the
   insertion point, the name token one byte longer, everything behind it moved
   by one byte), Proofs/XCiNulXss.v (the classifier on shifted tokens, the loop
   of isXSS).  The totality theorems (XssTotal) are used for the two runs. *)
From Coq Require Import List ZArith String Bool.
From Coq.Strings Require Import Byte.
From LI Require Import Prelude Base Html5 Xss Spec.XCiSpec Proofs.XCiXss Proofs.XCiNulXss.
From LIGen Require Import Consts.
Import ListNotations.
Local Open Scope Z_scope.

Definition cv (s s' : bytes) : Prop :=
  Forall2 (fun b b' => upper_ascii b = upper_ascii b') s s'.

Theorem C11a_case_insensitive :
  forall s s', cv s s' -> no_cdata_like s = true -> is_xss s' = is_xss s.
Proof. exact is_xss_cv. Qed.
Print Assumptions C11a_case_insensitive.

(* the same for each injection context *)
Theorem C11a_case_insensitive_ctx :
  forall s s' fl, cv s s' -> no_cdata_like s = true -> xss_ctx s' fl = xss_ctx s fl.
Proof. exact xss_ctx_cv. Qed.
Print Assumptions C11a_case_insensitive_ctx.

(* the exclusion is symmetric under case change and closed under suffixes *)
Theorem C11a_exclusion_symmetric :
  forall s s', cv s s' -> no_cdata_like s' = no_cdata_like s.
Proof. exact XCiBase.cv_no_cdata_like. Qed.
Print Assumptions C11a_exclusion_symmetric.

Theorem C11a_exclusion_suffix_closed :
  forall a b, no_cdata_like (a ++ b) = true -> no_cdata_like b = true.
Proof. exact XCiBase.no_cdata_like_app. Qed.
Print Assumptions C11a_exclusion_suffix_closed.

(* ---------- examples ---------- *)

Definition example_pairs : list (bytes * bytes) :=
  [ (bs "<ScRiPt>", bs "<script>");
    (bs "<a OnClIcK=x>", bs "<a onclick=x>");
    (bs "<a href=JaVaScRiPt:x>", bs "<a href=javascript:x>");
    (bs "<a href=&#X6A;&#x41;vAsCrIpT:x>", bs "<a href=&#x6a;&#X41;vascript:x>");
    (bs "<!DoCtYpE x>", bs "<!doctype x>");
    (bs "<!--[If x]-->", bs "<!--[if x]-->");
    (bs "<B>plain TEXT</B>", bs "<b>plain text</b>");
    (bs "<A HREF=HTTP://X/>", bs "<a href=http://x/>") ].

(* mixed-case inputs against their lower-case forms: related, allowed, same verdict *)
Example C11a_examples_related : Forall (fun p => cv (fst p) (snd p)) example_pairs.
Proof. repeat constructor. Qed.

Example C11a_examples :
  forallb (fun p => no_cdata_like (fst p)) example_pairs = true /\
  map (fun p => is_xss (fst p)) example_pairs = map (fun p => is_xss (snd p)) example_pairs /\
  map (fun p => is_xss (fst p)) example_pairs =
    [Ok true; Ok true; Ok true; Ok true; Ok true; Ok true; Ok false; Ok false].
Proof. vm_compute. repeat split; reflexivity. Qed.

(* the exclusion is needed: these pairs are case variants of each other, are
   not allowed, and their verdicts differ -- in either direction *)
Example C11a_exclusion_needed_related :
  cv (bs "<![CDATA[`>") (bs "<![cdata[`>") /\
  cv (bs "<![CDATA[><!--]]><script>-->") (bs "<![cdata[><!--]]><script>-->").
Proof. split; repeat constructor. Qed.

Example C11a_exclusion_needed :
  let u1 := bs "<![CDATA[`>" in let l1 := bs "<![cdata[`>" in
  let u2 := bs "<![CDATA[><!--]]><script>-->" in let l2 := bs "<![cdata[><!--]]><script>-->" in
  no_cdata_like u1 = false /\ no_cdata_like l1 = false /\
  is_xss u1 = Ok false /\ is_xss l1 = Ok true /\
  no_cdata_like u2 = false /\ no_cdata_like l2 = false /\
  is_xss u2 = Ok true /\ is_xss l2 = Ok false.
Proof. vm_compute. repeat split; reflexivity. Qed.

(* the pair named in the task: both spellings happen to be flagged *)
Example C11a_cdata_then_script :
  is_xss (bs "<![CDATA[x]]><script>") = Ok true /\ is_xss (bs "<![cdata[x]]><script>") = Ok true.
Proof. vm_compute. split; reflexivity. Qed.

(* what is excluded and what is not *)
Example C11a_exclusion_scope :
  map no_cdata_like
    [ bs "<![CDATA[x]]>"; bs "x<![cDaTa[x"; bs "<![CDATA["      (* excluded *)
    ; bs "[CDATA["; bs "<! [CDATA["; bs "<![CDATA"; bs "<[CDATA["; bs "![CDATA[" ] (* allowed *)
  = [false; false; false; true; true; true; true; true].
Proof. vm_compute. reflexivity. Qed.

(* ---------- clause (b) ---------- *)

Theorem C11b_nul_inside_name :
  forall s fl pre name post ty toks k,
    s = pre ++ name ++ post ->
    h5_tokens s fl = Ok toks -> In (ty, len pre, len name) toks ->
    ty = c_html5_type_tag_name_open \/ ty = c_html5_type_attr_name ->
    0 < k < len name ->
    xss_ctx (pre ++ firstn (Z.to_nat k) name ++ [x00] ++ skipn (Z.to_nat k) name ++ post) fl
    = xss_ctx s fl.
Proof. exact nul_in_name. Qed.
Print Assumptions C11b_nul_inside_name.

(* pre, name, post, context, token type: the name token is in the scan, and the
   verdict with a NUL after each k-th byte of the name equals the original one *)
Definition b_case (pre name post : bytes) (fl ty : Z) : bool * list (res bool) * res bool :=
  let s := pre ++ name ++ post in
  (match h5_tokens s fl with
   | Ok toks => existsb (fun tk => let '(a, o, l) := tk in (a =? ty) && (o =? len pre) && (l =? len name)) toks
   | _ => false
   end,
   map (fun k => xss_ctx (pre ++ firstn k name ++ [x00] ++ skipn k name ++ post) fl)
       (seq 1 (List.length name - 1)),
   xss_ctx s fl).

Example C11b_examples :
  (* black tags of length exactly 3 (the raw-length test precedes NUL stripping) *)
  b_case (bs "<") (bs "svt") (bs ">") 0 1 = (true, [Ok true; Ok true], Ok true) /\
  b_case (bs "<") (bs "XSL") (bs " x>") 0 1 = (true, [Ok true; Ok true], Ok true) /\
  b_case (bs "<") (bs "ab") (bs ">") 0 1 = (true, [Ok false], Ok false) /\
  b_case (bs "<") (bs "script") (bs ">") 0 1 = (true, [Ok true; Ok true; Ok true; Ok true; Ok true], Ok true) /\
  (* attribute names before '=', in the data context and in the unquoted-value context *)
  b_case (bs "<a ") (bs "onclick") (bs "=x>") 0 6
    = (true, [Ok true; Ok true; Ok true; Ok true; Ok true; Ok true], Ok true) /\
  b_case (bs "x ") (bs "href") (bs "=javascript:x") 1 6 = (true, [Ok true; Ok true; Ok true], Ok true) /\
  b_case (bs "<a ") (bs "title") (bs "=x>") 0 6 = (true, [Ok false; Ok false; Ok false; Ok false], Ok false) /\
  (* the SVG attributeName= indirection: NUL in the attribute name *)
  b_case (bs "<set ") (bs "to") (bs "=x attributeName=onclick>") 0 6 = (true, [Ok true], Ok true) /\
  b_case (bs "<set x=y ") (bs "attributeName") (bs "=onclick>") 0 6
    = (true, [Ok true; Ok true; Ok true; Ok true; Ok true; Ok true; Ok true; Ok true; Ok true; Ok true; Ok true; Ok true],
       Ok true).
Proof. vm_compute. repeat split; reflexivity. Qed.
