(* C10x — ASCII case-insensitivity of the SQLi detector: the full statement.

   Property C10: "Changing the case of any ASCII letters of an input changes
   neither the IsSQLi verdict nor the fingerprint, except where SQL itself is
   case-sensitive: the MySQL \N literal, PostgreSQL dollar-quote tags, Oracle
   q-quote delimiter characters, and the literal marker sp_password."

   Properties/C10.v proves this for inputs that contain no case-sensitive
   neighbourhood at all (plain2).  Here the exclusion is replaced by a
   relation between the two inputs, so that inputs WITH such neighbourhoods are
   covered too, for case changes elsewhere:

     Theorem C10_full : forall s s',
       cvx s s' ->
       contains s (bs "sp_password") = contains s' (bs "sp_password") ->
       is_sqli s' = is_sqli s.            (verdict, fingerprint, failure mode)

   cvx s s' (Spec/CiXSpec.v)  means:  s and s' have the same length and are
   bytewise equal up to ASCII case (cv s s'), AND s' is identical to s at the
   following positions of s — everywhere else the case may change freely:

   (i)   the byte directly after a backslash, if that byte is N or n
         (so  \N  stays  \N  and  \n  stays  \n ; after a backslash, any other
         letter may change case);
   (ii)  the letters of every  $letters$  — a dollar, a non-empty run of ASCII
         letters, a dollar (PostgreSQL opening tags, closing tags and candidate
         closing tags; a dollar followed by letters that are NOT followed by
         another dollar fixes nothing);
   (iii) for every occurrence of the three bytes  q'L  or  Q'L  with L an ASCII
         letter (this includes  nq'L ): the byte L itself, and every LATER byte
         that equals L up to case and is directly followed by a single quote
         (the candidates for the terminator  L'  of the Oracle q-quote; the
         q / Q itself, an  n / N  in front of it, and all other letters in the
         body may change case).

   These are weaker than (hence the theorem is stronger than with) the
   conditions "(i') every byte directly after a backslash; (ii') the maximal
   run of letters directly after every dollar; (iii') if the input contains a
   q'L / Q'L at all: every letter directly followed by a single quote and
   every letter directly preceded by q' / Q'"  — C10_fixed_of_strong below.

   The relation is decidable (cvxb, C10_cvx_decidable), reflexive, symmetric
   (it does not matter on which of the two inputs it is stated:
   C10_cvx_symmetric), closed under taking suffixes (C10_cvx_suffix), and it
   holds whenever the exclusion plain2 of C10.v does (C10_cvx_of_plain2), so
   C10_full subsumes C10_partial2 (C10_full_subsumes_partial2).

   The sp_password clause is the second hypothesis, as in C10.v.

   Proof: the lock-step argument of C10.v (Proofs/CiLex.v, CiFold.v, CiCheck.v
   are parametric in an invariant G on the two inputs); the three
   case-sensitive lexers are redone under cvx in Proofs/CiXLex.v:
   parse_backslash_x, parse_money_x (the tag text and every candidate
   occurrence in the body: index_tag), parse_qstring_core_x / parse_nqstring_x
   (the delimiter byte and the terminator search: index_qb). *)
From Coq Require Import List ZArith String Bool.
From Coq.Strings Require Import Byte.
From LI Require Import Prelude Base SqliLex SqliFold Spec.CiSpec Proofs.CiBase Proofs.CiLex Proofs.CiLex2
  Proofs.CiFold Proofs.CiCheck Spec.CiXSpec Proofs.CiXBase Proofs.CiXLex Properties.C10.
Import ListNotations.
Local Open Scope Z_scope.

(* token level: for every parsing mode, the two scans are related token by token *)
Theorem C10_tokens_full : forall s s' fl,
  cvx s s' -> rel_res scan_ci (tokens s fl) (tokens s' fl).
Proof.
  intros s s' fl [H F]. apply (tokens_ci (fun i i' => fixed i i' = true) parser_ok_fixed); assumption.
Qed.
Print Assumptions C10_tokens_full.

Theorem C10_full : forall s s',
  cvx s s' ->
  contains s (bs "sp_password") = contains s' (bs "sp_password") ->
  is_sqli s' = is_sqli s.
Proof.
  intros s s' [H F] SP.
  apply (is_sqli_ci (fun i i' => fixed i i' = true /\ sp_same i i')).
  - apply (parser_ok_weaken (fun i i' => fixed i i' = true)); [intros i i' (A & _); exact A|exact parser_ok_fixed].
  - intros i i' (_ & B). exact B.
  - exact H.
  - split; [exact F|exact SP].
Qed.
Print Assumptions C10_full.

(* ---------- structure of the relation ---------- *)

Theorem C10_cvx_decidable : forall s s', cvxb s s' = true <-> cvx s s'.
Proof. exact cvxb_iff. Qed.

Theorem C10_cvx_reflexive : forall s, cvx s s.
Proof. exact cvx_refl. Qed.

(* stated on s, it transfers to s' *)
Theorem C10_cvx_symmetric : forall s s', cvx s s' -> cvx s' s.
Proof. exact cvx_sym. Qed.

Theorem C10_cvx_suffix : forall n s s', cvx s s' -> cvx (skipn n s) (skipn n s').
Proof. exact cvx_skipn. Qed.

Theorem C10_cvx_of_plain2 : forall s s', cv s s' -> plain2 s = true -> cvx s s'.
Proof. exact cvx_of_plain2. Qed.

(* the simpler, stronger conditions (i') (ii') (iii') imply the fixed positions used here *)
Theorem C10_fixed_of_strong : forall s s', cv s s' -> fixed_strong s s' = true -> cvx s s'.
Proof. intros s s' H F. split; [exact H|apply fixed_of_strong; assumption]. Qed.

(* C10_partial2 is an instance of C10_full *)
Theorem C10_full_subsumes_partial2 : forall s s',
  cv s s' -> plain2 s = true ->
  contains s (bs "sp_password") = contains s' (bs "sp_password") ->
  is_sqli s' = is_sqli s.
Proof. intros s s' H P SP. apply C10_full; [apply cvx_of_plain2; assumption|exact SP]. Qed.
Print Assumptions C10_full_subsumes_partial2.

(* ---------- examples ---------- *)

Ltac by_cvxb := apply cvxb_iff; vm_compute; reflexivity.

(* MySQL \N : everything but the N may change *)
Example C10x_ex_backslash_N :
  let a := bs "SELECT " ++ bsl ++ bs "N union select 1" in
  let b := bs "select " ++ bsl ++ bs "N UNION SELECT 1" in
  cvx a b /\ plain2 a = false /\
  is_sqli a = Ok (true, bs "E1UE1") /\ is_sqli b = Ok (true, bs "E1UE1").
Proof. cbv zeta. split; [by_cvxb|]. vm_compute. repeat split. Qed.

Example C10x_ex_backslash_N_applied :
  is_sqli (bs "select " ++ bsl ++ bs "N UNION SELECT 1") = is_sqli (bs "SELECT " ++ bsl ++ bs "N union select 1").
Proof. apply C10_full; [by_cvxb|reflexivity]. Qed.

(* after a backslash only N/n is fixed: \x may become \X in an input that also contains \N *)
Example C10x_ex_backslash_other :
  let a := bs "1 or " ++ bsl ++ bs "N=1 " ++ bsl ++ bs "x union select y" in
  let b := bs "1 OR " ++ bsl ++ bs "N=1 " ++ bsl ++ bs "X UNION SELECT Y" in
  cvx a b /\ plain2 a = false /\ is_sqli b = is_sqli a.
Proof. cbv zeta. split; [by_cvxb|]. split; [reflexivity|]. apply C10_full; [by_cvxb|reflexivity]. Qed.

(* PostgreSQL dollar quoting: the body and the rest may change, the tags may not *)
Example C10x_ex_dollar_tag :
  let a := bs "$Tag$ x $Tag$ or 1=1" in
  let b := bs "$Tag$ X $Tag$ OR 1=1" in
  cvx a b /\ plain2 a = false /\
  is_sqli a = Ok (true, bs "s&1") /\ is_sqli b = Ok (true, bs "s&1").
Proof. cbv zeta. split; [by_cvxb|]. vm_compute. repeat split. Qed.

(* a candidate closing tag in the body ($tag$) is fixed as well; letters after a
   dollar that are not closed by a dollar ($abc) are free *)
Example C10x_ex_dollar_candidates :
  let a := bs "$Tag$ x $tag$ y $abc $Tag$ or 1=1" in
  let b := bs "$Tag$ X $tag$ Y $ABC $Tag$ OR 1=1" in
  cvx a b /\ plain2 a = false /\ is_sqli b = is_sqli a /\ is_sqli a = Ok (true, bs "s&1").
Proof.
  cbv zeta. split; [by_cvxb|]. split; [reflexivity|].
  split; [apply C10_full; [by_cvxb|reflexivity]|vm_compute; reflexivity].
Qed.

(* Oracle q-quote with a letter as delimiter: q, the body and the rest may change,
   the delimiter X and the terminator candidate X' may not *)
Example C10x_ex_qquote :
  let a := bs "q'Xa bX' or 1=1" in
  let b := bs "Q'Xa BX' OR 1=1" in
  cvx a b /\ plain2 a = false /\
  is_sqli a = Ok (true, bs "s&1") /\ is_sqli b = Ok (true, bs "s&1").
Proof. cbv zeta. split; [by_cvxb|]. vm_compute. repeat split. Qed.

(* nq'L ; letters followed by a quote that differ from the delimiter (b', c') and a
   letter followed by a quote before the opener (z') are free *)
Example C10x_ex_nqquote :
  let a := bs "z' or nq'Xa b' c' dX' or 1=1" in
  let b := bs "Z' OR Nq'Xa B' C' DX' OR 1=1" in
  cvx a b /\ plain2 a = false /\ is_sqli b = is_sqli a.
Proof. cbv zeta. split; [by_cvxb|]. split; [reflexivity|]. apply C10_full; [by_cvxb|reflexivity]. Qed.

(* all three kinds in one input *)
Example C10x_ex_all :
  let a := bs "1 or $t$ a $t$ = q'xbx' union select " ++ bsl ++ bs "N" in
  let b := bs "1 OR $t$ A $t$ = Q'xBx' UNION SELECT " ++ bsl ++ bs "N" in
  cvx a b /\ plain2 a = false /\ is_sqli b = is_sqli a.
Proof. cbv zeta. split; [by_cvxb|]. split; [reflexivity|]. apply C10_full; [by_cvxb|reflexivity]. Qed.

(* the fixed positions are needed: a case change AT one of them is not in cvx, and
   does change the verdict *)
Example C10x_ex_needed_N :
  cvxb (bs "1 or " ++ bsl ++ bs "N=1") (bs "1 or " ++ bsl ++ bs "n=1") = false /\
  is_sqli (bs "1 or " ++ bsl ++ bs "N=1") = Ok (true, bs "1&1") /\
  is_sqli (bs "1 or " ++ bsl ++ bs "n=1") = Ok (false, []).
Proof. vm_compute. repeat split. Qed.

Example C10x_ex_needed_tag :
  cvxb (bs "$ab$ union select 1 $ab$ or 1=1") (bs "$ab$ union select 1 $AB$ or 1=1") = false /\
  is_sqli (bs "$ab$ union select 1 $ab$ or 1=1") = Ok (true, bs "s&1") /\
  is_sqli (bs "$ab$ union select 1 $AB$ or 1=1") = Ok (false, []).
Proof. vm_compute. repeat split. Qed.

Example C10x_ex_needed_qdelim :
  cvxb (bs "q'x union select 1 x' or 1=1") (bs "q'X union select 1 x' or 1=1") = false /\
  cvxb (bs "q'x union select 1 x' or 1=1") (bs "q'x union select 1 X' or 1=1") = false /\
  is_sqli (bs "q'x union select 1 x' or 1=1") = Ok (true, bs "s&1") /\
  is_sqli (bs "q'X union select 1 x' or 1=1") = Ok (false, []) /\
  is_sqli (bs "q'x union select 1 X' or 1=1") = Ok (false, []).
Proof. vm_compute. repeat split. Qed.
