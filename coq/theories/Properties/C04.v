(* C04 — canonical XSS vectors are detected (finite core).

   The family.  xss_core (Spec/GrammarXss.v) is the canonical XSS vector grammar:
   for each of the five break-out contexts (element content; break-out of an
   unquoted, single-, double- or back-quoted attribute value) it contains
     - every blacklisted element (black_tags, plus SVT / XSL) under the four
       name terminators (greater-than, space, slash, end of input),
     - every listed on* event-handler attribute of type 1 (black_events) under
       five value quotings,
     - ONCLICK after each of the seven tag-name / attribute-name separators,
     - every entry of the attribute list (blacks): URL-bearing attributes (type 2)
       x four script-capable schemes (JAVASCRIPT: VBSCRIPT: DATA: VIEW-SOURCE:)
       x three quotings, black and style / filter attributes (types 1, 3)
       x three quotings, indirect attributes (type 4) naming ONCLICK / XMLNS,
     - the hard-coded XMLNS / XLINK attributes,
     - DOCTYPE / ENTITY / processing-instruction / IE-conditional markup and a
       back quote inside a comment.
   It is a production-by-production mirror of the Go function xssCore
   (tools/harness/streams2.go) that the harness replays on the implementation;
   `harness emit-grammar` prints the same 9450 vectors in the same order.

   Regeneration.  The family is not a frozen list: it is rebuilt on every run from
   the lists black_tags / black_events / blacks that the translator regenerates
   from the sources.  Consequently an entry dropped from a source list SHRINKS the
   family instead of making this theorem fail; that loss is caught by the C20
   baseline theorem (the lists are compared with the recorded baseline), not here.

   Not covered.  The infinite dimensions of the grammar — letter case, NUL bytes
   inside names, character-reference / URL encodings of the scheme, leading
   control bytes — are NOT covered by this theorem: every vector here is in
   canonical upper case, unencoded.  Those are exercised by the harness stream
   (beyond-core) only.

   Proof: vm_compute, sharded per break-out context (Proofs/C04Core0..4.v). *)
From Coq Require Import List ZArith String Bool.
From Coq.Strings Require Import Byte.
From LI Require Import Prelude Base Html5 Xss GrammarXss BaseFacts.
From LI Require Import C04Core0 C04Core1 C04Core2 C04Core3 C04Core4.
Import ListNotations.

Lemma detected_xss_spec v : detected_xss v = true -> is_xss v = Ok true.
Proof.
  unfold detected_xss. destruct (is_xss v) as [[|]| | |]; try discriminate. reflexivity.
Qed.

Lemma xss_core_ok : forallb detected_xss xss_core = true.
Proof.
  unfold xss_core, n_ctx. cbn [seq flat_map]. rewrite !forallb_app.
  rewrite ctx0_ok, ctx1_ok, ctx2_ok, ctx3_ok, ctx4_ok. reflexivity.
Qed.

Theorem C04_core : forall v, In v xss_core -> is_xss v = Ok true.
Proof.
  intros v Hv. apply detected_xss_spec.
  exact (proj1 (forallb_forall detected_xss xss_core) xss_core_ok v Hv).
Qed.
Print Assumptions C04_core.

(* the same statement, per break-out context *)
Theorem C04_core_ctx : forall ci v, (ci < n_ctx)%nat -> In v (xss_core_ctx ci) -> is_xss v = Ok true.
Proof.
  intros ci v Hci Hv. apply C04_core. unfold xss_core. apply in_flat_map.
  exists ci. split; [apply in_seq; split; [apply Nat.le_0_l | exact Hci] | exact Hv].
Qed.
Print Assumptions C04_core_ctx.

(* membership by computation *)
Lemma mem_in v l : existsb (bytes_eqb v) l = true -> In v l.
Proof.
  intro H. apply existsb_exists in H. destruct H as [x [Hin He]].
  apply bytes_eqb_eq in He. subst x. exact Hin.
Qed.

(* non-vacuity: the family is large, contains what one expects, and the
   detector is not constantly true *)
Example C04_nonvacuous :
  (9000 <? N.of_nat (List.length xss_core))%N = true /\
  List.length xss_core = (5 * (4 * List.length black_tags + 2
                               + 5 * List.length (filter (fun e => (snd e =? 1)%Z) black_events)
                               + 7
                               + List.length (p_blacks [])
                               + 2 + 10))%nat /\
  In (bs "<SCRIPT>") xss_core /\
  In (bs "x'><SCRIPT>") xss_core /\
  In (bs "x" ++ dq ++ bs " ONERROR=x") xss_core /\
  In (bs "<a HREF=JAVASCRIPT:x") xss_core /\
  In (bs "x` STYLE='x'") xss_core /\
  In (bs "x><!DOCTYPE html>") xss_core /\
  detected_xss (bs "hello world") = false /\
  detected_xss (bs "<b>bold</b>") = false.
Proof.
  repeat split; try (apply mem_in); vm_compute; reflexivity.
Qed.

