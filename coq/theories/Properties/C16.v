(* C16 — SQL tokens are faithful, ordered slices of the input and scanning progresses.

   `tokens inp fl` is the model of repeated calls of sqliState.tokenize() on a
   fresh state with flags `fl` (any flags: every parsing mode), recording with
   each token the scan offset before and after the call.

   toks_ok inp 0 l says, for the records (t, before, after) in order:
     - before_0 = 0 and before_{i+1} = after_i   (the steps tile the scanned span),
     - before_i < after_i <= |inp|               (every step consumes at least one byte),
     - tok_at inp before_i after_i t_i :  before_i <= pos_i, 0 <= len_i <= 31,
       pos_i + len_i <= after_i, val_i = inp[pos_i, pos_i+len_i), class_i in the
       documented class alphabet (moreover: function-class tokens have >= 2 bytes, comment
       tokens >= 1 byte and >= 2 when they start with '/');
   hence pos_{i+1} >= after_i >= pos_i + len_i (ordered, non-overlapping).
   The scan ends with the scanner offset equal to |inp|.  No Panic, no OutOfFuel. *)
From Coq Require Import List ZArith String Bool.
From Coq.Strings Require Import Byte.
From LI Require Import Prelude Base SqliLex Proofs.LexBase Proofs.TokensSpec.
Import ListNotations.
Local Open Scope Z_scope.

Theorem C16_tokens_faithful_ordered_progress :
  forall inp fl, exists l s,
    tokens inp fl = Ok (l, s) /\
    toks_ok inp 0 l /\
    pos s = len inp /\
    (List.length l <= List.length inp)%nat.
Proof.
  intros inp fl. destruct (tokens_spec inp fl) as (l & s & A & B & C & D & E).
  exists l, s. repeat split; assumption.
Qed.
Print Assumptions C16_tokens_faithful_ordered_progress.

(* element-wise reading of toks_ok *)
Theorem C16_elementwise :
  forall inp fl l s, tokens inp fl = Ok (l, s) ->
  forall i t b a, nth_error l i = Some (t, b, a) ->
    0 <= b /\ b < a <= len inp /\
    b <= t_pos t /\ 0 <= t_len t < 32 /\ t_pos t + t_len t <= a /\
    t_val t = firstn (Z.to_nat (t_len t)) (skipn (Z.to_nat (t_pos t)) inp) /\
    is_class (t_cat t) = true /\
    (forall t' b' a', nth_error l (S i) = Some (t', b', a') ->
                      b' = a /\ t_pos t + t_len t <= t_pos t').
Proof.
  intros inp fl l s H i t b a N.
  destruct (tokens_spec inp fl) as (l' & s' & A & B & _). rewrite H in A. inversion A; subst l' s'.
  destruct (toks_ok_nth inp l 0 i t b a B N) as (J1 & J2 & K & J4 & J5).
  pose proof (tok_at_class _ _ _ _ K) as K6. destruct K as (K1 & K2 & K3 & K4 & K5 & _).
  change Consts.c_token_size with 32 in K4.
  repeat split; try assumption; try apply J2; try apply (J5 _ _ _ H0).
Qed.
Print Assumptions C16_elementwise.

(* non-vacuity: a scan with several lexer kinds, in the single-quote MySQL mode (flags 18) *)
Example C16_nonvacuous :
  match tokens (bs "x' OR 1=1 -- ") 18 with
  | Ok (l, s) => (List.length l =? 6)%nat = true /\ pos s = 13
  | _ => False
  end.
Proof. vm_compute. split; reflexivity. Qed.
