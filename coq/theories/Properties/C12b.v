(* C12, clause (b) — "Reading x inside a quote gives the same tokens and
   fingerprint as reading quote + x as-is."

   q is a quote byte (the single quote 0x27 with flag quote_single = 2, or the
   double quote 0x22 with flag quote_double = 4), d a dialect flag (sqlansi = 8 or sqlmysql = 16), x any NON-EMPTY input.
   The two runs compared are

       the quote-context run :  x        with flags  qf + d
       the as-is run         :  q :: x   with flags  quote_none + d  (= 1 + d)

   (the empty input is excluded: tokenize returns at once on an empty input,
   whereas q alone is an unterminated string).

   How the as-is run is obtained from the quote-context run:
     shift_tok t        t with t_pos + 1, every other field unchanged
     shift_rec (t,b,a)  (shift_tok t, b + 1, a + 1)      b / a = scan offset
                                                         before / after the call
     shift_recs q l     first record (t, b, a) becomes (shift_tok t with open
                        mark q, b, a + 1); every later record is shift_rec'ed
     shift_st q fl s    the state with input q :: input s, flags fl, pos + 1 and
                        the SAME statistics (n_ddx, n_hash, n_folds, n_tokens)

   C12b_tokens    both scans succeed; the as-is scan is shift_recs q of the
                  quote-context scan and ends in the shift_st state.  The first
                  token of the quote-context scan is the string token with open
                  mark NUL whose scan started at offset 0.
   C12b_tokens_summary
                  the same, element-wise: equal numbers of tokens, equal
                  statistics; token i of the as-is run is token i of the
                  quote-context run with t_pos + 1 (and scan offsets + 1, except
                  the starting offset 0 of the first call); the open mark
                  differs for token 0 only (NUL versus q).

   C12b_fingerprint
                  both fingerprint steps (fold + sqliFingerprint, started from a
                  fresh state) succeed with the SAME fingerprint; the window of
                  the as-is run is shift_win q of the window of the quote-context
                  run (head: shift_tok with open mark q, every other token:
                  shift_tok), the final states are related by shift_st (same
                  statistics, n_folds included).  The head of the quote-context
                  window, if there is one, has open mark NUL.
   C12b_verdict   fingerprint_ctx (fingerprint, blacklisted?, verdict, statistics)
                  of the two runs: same fingerprint, same blacklist flag, same
                  statistics; the verdicts (blacklisted and not white-listed)
                  agree unless the fingerprint is "sos" or "s&s" (is_sos).  For
                  these two notWhitelist inspects the open mark of the first
                  token: in the as-is run the mark is q, the pattern is taken for
                  a plain string comparison and the verdict is false, whatever
                  the quote-context run says (C12b_sos_differs: x = a' or 'b
                  is reported in the quote context and not as-is).
                  The two other places where notWhitelist could tell the runs
                  apart do not: strings.Contains(input, "sp_password") is the
                  same for x and q :: x because q is not the letter s
                  (QuoteCheck.contains_cons); and the test on the raw input at
                  the absolute offset tokenVec[0].len needs a first token of
                  class number, whereas the first token of both windows is the
                  opening-quote string (class 's', or 'X' with fingerprint "X"):
                  the head of the window is never re-classed, merged or
                  overwritten by a folding rule (invariant win_rel /
                  win_relF of Proofs/QuoteFold.v), so that case cannot arise in
                  either run.

   Proof idea (Proofs/QuoteBase.v): after the first call both scanners are in
   lock-step, one byte apart.  Every lexer maps "twin" states (input q :: x at
   offset p + 1 / input x at offset p, same statistics, same dialect bits) to
   twin states and writes the same token one byte further right; no lexer reads
   to the left of its starting offset or uses an absolute offset; the quote bits
   of the flags are read by tokenize at offset 0 only.  The first call is the
   virtual-quote string scan (offset 0, open mark NUL) against parse_string on
   the real quote (offset 1, open mark q): the same parse_string_core loop on
   the same content. *)
From Coq Require Import List ZArith String Bool.
From Coq.Strings Require Import Byte.
From LI Require Import Prelude Base SqliLex SqliFold Proofs.QuoteBase Proofs.QuoteTokens Proofs.QuoteCheck.
From LIGen Require Import Consts.
Import ListNotations.
Local Open Scope Z_scope.

Theorem C12b_tokens q qf d x : quote_case q qf -> dialect d -> x <> [] ->
  exists l s,
    tokens x (qf + d) = Ok (l, s) /\
    tokens (q :: x) (c_sqli_flag_quote_none + d)
      = Ok (shift_recs q l, shift_st q (c_sqli_flag_quote_none + d) s) /\
    (exists t a l', l = (t, 0, a) :: l' /\ t_cat t = b_sqli_token_type_string /\ t_open t = x00).
Proof. exact (quote_tokens q qf d x). Qed.
Print Assumptions C12b_tokens.

Theorem C12b_tokens_summary q qf d x : quote_case q qf -> dialect d -> x <> [] ->
  exists lx sx lq sq,
    tokens x (qf + d) = Ok (lx, sx) /\
    tokens (q :: x) (c_sqli_flag_quote_none + d) = Ok (lq, sq) /\
    List.length lq = List.length lx /\
    st sq = st sx /\ input sq = q :: input sx /\ pos sq = pos sx + 1 /\
    (forall i t b a, nth_error lx i = Some (t, b, a) ->
       exists t', nth_error lq i = Some (t', (if Nat.eqb i 0 then b else b + 1), a + 1) /\
                  t_pos t' = t_pos t + 1 /\ t_len t' = t_len t /\ t_count t' = t_count t /\
                  t_cat t' = t_cat t /\ t_close t' = t_close t /\ t_val t' = t_val t /\
                  (if Nat.eqb i 0
                   then b = 0 /\ t_cat t = b_sqli_token_type_string /\ t_open t = x00 /\ t_open t' = q
                   else t_open t' = t_open t)).
Proof. exact (quote_tokens_summary q qf d x). Qed.
Print Assumptions C12b_tokens_summary.

Theorem C12b_fingerprint q qf d x : quote_case q qf -> dialect d -> x <> [] ->
  exists fp w s,
    sqli_fingerprint (sqli_init x 0) (qf + d) = Ok (fp, w, s) /\
    sqli_fingerprint (sqli_init (q :: x) 0) (c_sqli_flag_quote_none + d)
      = Ok (fp, shift_win q w, shift_st q (c_sqli_flag_quote_none + d) s) /\
    (forall t r, w = t :: r -> t_open t = x00).
Proof. exact (quote_fingerprint q qf d x). Qed.
Print Assumptions C12b_fingerprint.

Theorem C12b_verdict q qf d x : quote_case q qf -> dialect d -> x <> [] ->
  exists fp vq vx stt,
    fingerprint_ctx x (qf + d) = Ok (fp, blacklist fp, vx, stt) /\
    fingerprint_ctx (q :: x) (c_sqli_flag_quote_none + d) = Ok (fp, blacklist fp, vq, stt) /\
    (is_sos fp = false -> vq = vx) /\
    (is_sos fp = true -> vq = false).
Proof. exact (quote_verdict q qf d x). Qed.
Print Assumptions C12b_verdict.

(* ---------- examples ---------- *)

Definition expect_tokens (q : byte) (fl : Z) (r : res (list (token * Z * Z) * sqlst)) :=
  match r with Ok (l, s) => Ok (shift_recs q l, shift_st q fl s) | x => x end.

Definition quote_cases : list (byte * Z * Z) := [(x27, 2, 8); (x27, 2, 16); (x22, 4, 8); (x22, 4, 16)].

Definition asis_tokens (x : bytes) := map (fun '(q, qf, d) => tokens (q :: x) (1 + d)) quote_cases.
Definition quoted_tokens (x : bytes) :=
  map (fun '(q, qf, d) => expect_tokens q (1 + d) (tokens x (qf + d))) quote_cases.

Definition samples : list bytes := map bs
  ["1' or '1'='1"; "'"; "''"; "'''"; "a"; "\"; "\'"; "\\'"; "\\\' or 1"; "abc''def' union select 1";
   "abc"; "1' -- x"; "1' # x"; "1'#"; "1'--"; "' or 1=1 -- "; """"; "x"" or ""a""=""a";
   "1' /* x */ or 1"; "'; drop table x; --"; "'-1"; "' '"; "'a' 'b'"; "' and sp_password"; "1'/*!x*/";
   "' union select @@version, 0x41, 1.5e3, $1.2, n'x', q'[a]', e'x', u&'x', x'41', b'01', `a`, [b], $$x$$, $t$x$t$ ";
   "\"" or 1"; "a\\"" or 1 -- x"; "' select 1e, 1.e5, 0x, 0b1, 1d, 1f;"; "' @a @@b @`c` @'d' @""e"" ";
   "'abcdefghijklmnopqrstuvwxyz0123456789abcdefghij union"; "' a.b `c`.d select.x ";
   "' <=> != :: := || && <> "; "' \N \x"; "' {fn x} [a b"; "' $ $. $a $1,2.3 $$a";
   "' nq'{a}' Nq'<b>' Q'(c)' q' ' "; "' --x"; "' -- x"; "' --"; "' -"; "'--"; "' #"; "'/";
   "' /*a/*b*/ /*!c*/ /* d"]%string.

Example C12b_tokens_samples : map asis_tokens samples = map quoted_tokens samples.
Proof. vm_compute. reflexivity. Qed.

(* the empty input is a genuine exception: no token in the quote context,
   one unterminated string token for the lone quote *)
Example C12b_empty_differs :
  (exists s, tokens [] (2 + 8) = Ok ([], s)) /\
  (exists r s, tokens [x27] (1 + 8) = Ok ([r], s)).
Proof. split; vm_compute; eauto. Qed.

Definition expect_fp (q : byte) (fl : Z) (r : res (bytes * list token * sqlst)) :=
  match r with Ok (fp, w, s) => Ok (fp, shift_win q w, shift_st q fl s) | x => x end.

Definition asis_fp (x : bytes) :=
  map (fun '(q, qf, d) => sqli_fingerprint (sqli_init (q :: x) 0) (1 + d)) quote_cases.
Definition quoted_fp (x : bytes) :=
  map (fun '(q, qf, d) => expect_fp q (1 + d) (sqli_fingerprint (sqli_init x 0) (qf + d))) quote_cases.

Example C12b_fingerprint_samples : map asis_fp samples = map quoted_fp samples.
Proof. vm_compute. reflexivity. Qed.

(* verdicts: (fingerprint, blacklisted, verdict as-is, verdict in the quote context) *)
Definition verdicts (x : bytes) :=
  map (fun '(q, qf, d) =>
         match fingerprint_ctx (q :: x) (1 + d), fingerprint_ctx x (qf + d) with
         | Ok (fp1, b1, v1, s1), Ok (fp2, b2, v2, s2) => Some (fp2, b2, v1, v2)
         | _, _ => None
         end) quote_cases.

Definition verdict_ok (o : option (bytes * bool * bool * bool)) : bool :=
  match o with
  | Some (fp, b, v1, v2) => if is_sos fp then negb v1 else Bool.eqb v1 v2
  | None => false
  end.

Example C12b_verdict_samples : forallb (fun x => forallb verdict_ok (verdicts x)) samples = true.
Proof. vm_compute. reflexivity. Qed.

(* the documented exception: "s&s" / "sos" with an unterminated last string is an
   attack in the quote context and a plain string comparison as-is *)
Example C12b_sos_differs :
  fingerprint_ctx (bs "a' or 'b") (2 + 8) = Ok (bs "s&s", true, true, mkStats 0 0 0 3) /\
  fingerprint_ctx (x27 :: bs "a' or 'b") (1 + 8) = Ok (bs "s&s", true, false, mkStats 0 0 0 3) /\
  fingerprint_ctx (bs "a' = 'b") (2 + 8) = Ok (bs "sos", true, true, mkStats 0 0 0 3) /\
  fingerprint_ctx (x27 :: bs "a' = 'b") (1 + 8) = Ok (bs "sos", true, false, mkStats 0 0 0 3).
Proof. vm_compute. auto. Qed.

(* an attack found in the quote context is found as-is with the same fingerprint *)
Example C12b_verdict_attack :
  exists stt, fingerprint_ctx (bs "' union select 1 -- ") (2 + 8) = Ok (bs "sUE1c", true, true, stt) /\
              fingerprint_ctx (x27 :: bs "' union select 1 -- ") (1 + 8) = Ok (bs "sUE1c", true, true, stt).
Proof. vm_compute. eauto. Qed.
