(* C09 — both detectors run in time linear in the input length (the part that is logic).

   Cost semantics (Cost/CostBase.v): an instrumented twin of every function of the model
   returns, with the model's result, the number of elementary steps: 1 per byte examined by
   a scan primitive (IndexByte, Index, Contains, the span loops, ToUpper / ToLower /
   ReplaceAll, string comparison, hashing a map key), 1 per checked index / slice, 1 per loop
   iteration and per lexer / state-function / rule-pass entry.  Erasure theorems say that
   forgetting the cost gives back exactly the model's result, so a bound on the cost is a
   bound on the work of the model itself.  Proved for every input:
       cost (IsSQLi) <= 406637 * |s| + 432969      cost (IsXSS) <= 5510 * |s| + 3960
   (explicit but generous constants: every folding iteration is charged the dearest rule and
   the iteration count comes from the C01 potential; measured costs are 2-70 steps per byte).
   The detailed theorems are in C09lex.v (tokenizer, incl. the amortisation of the two
   look-ahead probes), C09sqli.v (folder, fingerprint, whitelist, cascade), C09xss.v.
   What is not logic — that one cost unit is bounded machine time in the Go runtime, the
   allocator, caches — is observed: wall-clock scaling and deterministic operation counts of
   an auto-instrumented copy of the Go code, compared with this cost function. *)
From Coq Require Import List ZArith String Bool.
From Coq.Strings Require Import Byte.
From LI Require Import Prelude Base SqliLex SqliFold Html5 Xss Cost.CostBase Cost.CostSqliFold Cost.CostXss
  Properties.C09sqli Properties.C09xss.
Import ListNotations.
Local Open Scope Z_scope.

Theorem C09_linear :
  forall s,
    (exists b fp c, c_is_sqli s = Ok ((b, fp), c) /\ is_sqli s = Ok (b, fp) /\ c <= 406637 * len s + 432969) /\
    (exists b c, c_is_xss s = Ok (b, c) /\ is_xss s = Ok b /\ c <= 5510 * len s + 3960).
Proof.
  intros s. split.
  - apply C09_is_sqli_total_linear.
  - apply C09_is_xss.
Qed.
Print Assumptions C09_linear.
