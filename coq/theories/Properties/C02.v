(* C02 — IsXSS is total: it returns for every byte string, never panics or overflows.

   is_xss is the model of IsXSS; in the model every Go index / slice is a checked
   primitive (Panic when Go would panic), every loop runs on explicit fuel
   (OutOfFuel), and every direct call between HTML5 state functions consumes one
   unit of the constant call-depth budget h5_depth = 8 (StackOverflow when
   exhausted).  `= Ok b` therefore says: no index out of range, no
   non-termination (the token fuel is 2|s|+4, each state loop's fuel |s|+2), and
   a call depth bounded by a constant for every input, in all five contexts.
   The proof (Proofs/H5Spec.v) shows that call depth 4 already suffices for every
   state function on every input, and that every emitted token decreases the
   potential (|s| - pos) + credit(state). *)
From Coq Require Import List ZArith String Bool.
From Coq.Strings Require Import Byte.
From LI Require Import Prelude Base Html5 Xss Proofs.H5Spec Proofs.XssTotal.
From LIGen Require Import Consts.
Import ListNotations.
Local Open Scope Z_scope.

Theorem C02_is_xss_total : forall s, exists b, is_xss s = Ok b.
Proof. exact is_xss_total. Qed.
Print Assumptions C02_is_xss_total.

Theorem C02_every_context_total : forall s fl, 0 <= fl <= 4 -> exists b, xss_ctx s fl = Ok b.
Proof. exact xss_ctx_total. Qed.
Print Assumptions C02_every_context_total.

(* one tokenizer step from any well-formed state: no Panic / OutOfFuel / StackOverflow
   with a call depth of 4 (the model's budget is 8) *)
Theorem C02_step_total_depth4 :
  forall d h, h5_ok h -> exists r, h5_call (S (S (S (S d)))) (hstate h) h = Ok r.
Proof.
  intros d h H. destruct (Proofs.Wp.wp_inv _ _ (h5_call_spec d h H)) as [r [E _]]. exists r. exact E.
Qed.
Print Assumptions C02_step_total_depth4.

(* non-vacuity: the error values are reachable in the semantics when a guard or the
   budget is missing, so "never fails" is not true merely because failure cannot be expressed *)
Example C02_errors_expressible :
  h5_call 1 SData (h5_init (bs "<a>") 0) = StackOverflow /\
  get "x" (bs "ab") 2 = Panic "x" /\
  is_xss (bs "<![CDATA[]]]") = Ok false /\
  is_xss (bs "<script>") = Ok true.
Proof. vm_compute. repeat split. Qed.
