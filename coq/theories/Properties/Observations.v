(* Observations: machine-checked witnesses, on the model, of the two behaviours recorded in
   DESIGN.md section 6 as lying outside the listed properties (O1, O2).  Each is evaluated by
   vm_compute; the same inputs give the same answers on the implementation (they are part of
   /verif/corpus/observations.txt, which every correspondence run replays). *)
From Coq Require Import List ZArith String Bool.
From Coq.Strings Require Import Byte.
From LI Require Import Prelude Base SqliLex SqliFold Html5 Xss Spec.RefSqlFold.
Import ListNotations.

(* O1: an end tag written with white space before '>' leaves the is-close flag set; the start
   tag behind it, closed directly by '>', is read as a closing tag and never looked up. *)
Example O1_end_tag_with_space_hides_script :
  is_xss (bs "<p>text</p ><script>alert(1)</script>") = Ok false.
Proof. vm_compute. reflexivity. Qed.

(* the same text with the end tag written without the space is reported *)
Example O1_contrast :
  is_xss (bs "<p>text</p><script>alert(1)</script>") = Ok true.
Proof. vm_compute. reflexivity. Qed.

(* ... and so is the vector alone: the prefix, which contains '<', is what hides it
   (C13c speaks about prefixes WITHOUT '<' only) *)
Example O1_vector_alone : is_xss (bs "<script>alert(1)</script>") = Ok true.
Proof. vm_compute. reflexivity. Qed.

(* O2: parseVar's accept set lacks 0xA0 and NUL, which every other lexer treats as white space:
   the NBSP is read into the variable name.  First token of "@v<NBSP>OR 1": a variable whose
   recorded value has 4 bytes (v, NBSP, O, R: everything up to the blank), not 1. *)
Example O2_nbsp_is_part_of_a_variable_name :
  match tokenize (sqli_init (bs "@v" ++ [xa0] ++ bs "OR 1") fl_none_ansi) tok0 with
  | Ok (true, t, _) => (t_cat t, t_len t)
  | _ => (x00, 0%Z)
  end = (x76, 4%Z).
Proof. vm_compute. reflexivity. Qed.
