(* C12 — the order in which IsSQLi tries the parsing contexts.  Clause (a).

   In plain words.  A "reading" of an input under a parsing context is what
   one gets by initialising a FRESH scanner state on the input with that
   context's flags, tokenising, folding, building the fingerprint and judging
   it (blacklist, then the whitelist exceptions): `fingerprint_ctx inp flags`
   = (fingerprint, blacklisted, verdict, statistics).  A context is a quote
   context (none: read as-is; single / double: read as the continuation of a
   single- / double-quoted string) together with a comment dialect (ANSI or
   MySQL).

   C12a_cascade says that IsSQLi is exactly the following procedure
   (`cascade`, Spec/CascadeSpec.v), for every input, including the exact
   returned fingerprint and including failure (it never fails: C01):

     0. the empty input is not SQLi;
     1. read as-is under ANSI rules;
     2. if reading 1 counted a `#` or a `--x` (statistics n_hash / n_ddx not
        zero): read as-is under MySQL rules;
     3. if the input contains a single-quote byte: read in the single-quote
        context under ANSI rules;
     4. if reading 3 took place and counted a `#` or `--x`: read in the
        single-quote context under MySQL rules;
     5. if the input contains a double-quote byte: read in the double-quote
        context under MySQL rules;
     the first reading whose verdict is true ends the procedure with
     (true, the fingerprint of THAT reading); if none fires the result is
     (false, empty fingerprint).

   Every reading is taken on a fresh state: what an earlier reading left in
   the scanner (position, statistics, token window, fingerprint) has no
   influence on a later one.  The only information that flows from one
   reading to the next is the gate of steps 2 and 4, and that gate is itself
   a function of the fresh ANSI reading of the same quote context.  In the
   implementation the state IS reused between passes; the theorem says this
   reuse is unobservable (each pass resets everything but the input, and no
   pass modifies the input).

   C12a_cascade_list is the same statement with the procedure given as a
   five-row table of gated steps run by a small interpreter.

   Clause (b) of C12 (reading x inside a quote context = reading quote+x
   as-is) is NOT proved in this file; it is a statement about the tokenizer
   and is handled separately (not available at the time of writing).

   Proofs: Proofs/CascadeProofs.v. *)
From Coq Require Import List ZArith String Bool.
From Coq.Strings Require Import Byte.
From LI Require Import Prelude Base SqliLex SqliFold Spec.CascadeSpec Proofs.CascadeProofs.
From LIGen Require Import Consts.
Import ListNotations.
Local Open Scope Z_scope.
Local Open Scope string_scope.

Theorem C12a_cascade : forall inp, is_sqli inp = cascade inp.
Proof. exact is_sqli_cascade. Qed.
Print Assumptions C12a_cascade.

Theorem C12a_cascade_list : forall inp, is_sqli inp = cascade_list inp.
Proof. intros inp. rewrite cascade_list_eq. exact (is_sqli_cascade inp). Qed.
Print Assumptions C12a_cascade_list.

(* the two facts the equality rests on: a pass depends on the state it is given
   only through the input, and hands on a state with the same input *)
Theorem C12a_pass_depends_on_input_only :
  forall s s' fl, input s = input s' -> sqli_fingerprint s fl = sqli_fingerprint s' fl.
Proof. exact sqli_fingerprint_input. Qed.

Theorem C12a_pass_keeps_input :
  forall s fl fp w s2, sqli_fingerprint s fl = Ok (fp, w, s2) -> input s2 = input s.
Proof. exact sqli_fingerprint_keeps_input. Qed.
Print Assumptions C12a_pass_keeps_input.

(* ---------- examples (the model evaluated by vm_compute) ---------- *)

(* (fingerprint, verdict, gate raised) of the five readings, in cascade order *)
Definition readings (s : string) : list (option (bytes * bool * bool)) :=
  map (fun fl => match fingerprint_ctx (bs s) fl with
                 | Ok (fp, _, v, x) => Some (fp, v, mysql_gate x)
                 | _ => None
                 end) all_contexts.

(* fires at step 1; the MySQL reading would give another fingerprint (1UE1c),
   the one returned is that of the first reading *)
Example C12_ex_first :
  is_sqli (bs "1 union select 1 #") = Ok (true, bs "1UE1o") /\
  readings "1 union select 1 #" =
    [Some (bs "1UE1o", true, true); Some (bs "1UE1c", true, true);
     Some (bs "s", false, false); Some (bs "s", false, false); Some (bs "s", false, false)].
Proof. split; vm_compute; reflexivity. Qed.

(* fires only at step 2: as-is under MySQL rules, after step 1 saw the # *)
Example C12_ex_none_mysql :
  is_sqli (bs "1 or 1=1 #x' union") = Ok (true, bs "1&1c") /\
  readings "1 or 1=1 #x' union" =
    [Some (bs "1&1s", false, true); Some (bs "1&1c", true, true);
     Some (bs "sU", false, false); Some (bs "sU", false, false); Some (bs "s", false, false)].
Proof. split; vm_compute; reflexivity. Qed.

(* fires at step 3: single-quote context, ANSI *)
Example C12_ex_single_ansi :
  is_sqli (bs "' or ''='") = Ok (true, bs "s&sos") /\
  readings "' or ''='" =
    [Some (bs "s", false, false); Some (bs "s", false, false);
     Some (bs "s&sos", true, false); Some (bs "s&sos", true, false); Some (bs "s", false, false)].
Proof. split; vm_compute; reflexivity. Qed.

(* fires only at step 4: needs the MySQL re-parse of the single-quote context *)
Example C12_ex_single_mysql :
  is_sqli (bs "1' or 1=1 #") = Ok (true, bs "s&1c") /\
  readings "1' or 1=1 #" =
    [Some (bs "1s", false, false); Some (bs "1s", false, false);
     Some (bs "s&1o", false, true); Some (bs "s&1c", true, true); Some (bs "s", false, false)].
Proof. split; vm_compute; reflexivity. Qed.

(* fires only at step 5: the double-quote context *)
Example C12_ex_double :
  is_sqli (bs "1"" or 1=1 -- ") = Ok (true, bs "s&1c") /\
  readings "1"" or 1=1 -- " =
    [Some (bs "1s", false, false); Some (bs "1s", false, false);
     Some (bs "s", false, false); Some (bs "s", false, false); Some (bs "s&1c", true, false)].
Proof. split; vm_compute; reflexivity. Qed.

(* nothing fires *)
Example C12_ex_benign :
  is_sqli (bs "hello") = Ok (false, []) /\ cascade (bs "hello") = Ok (false, []) /\
  is_sqli [] = Ok (false, []).
Proof. repeat split; vm_compute; reflexivity. Qed.
